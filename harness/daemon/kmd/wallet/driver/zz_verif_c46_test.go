//go:build verif

package driver

// C46 correspondence harness: the real SQLiteWalletDriver / SQLiteWallet on scratch SQLite files (minimal scrypt cost).
//
// One line = one self-contained case:
//
//	case new:P:N:M tok tok ...
//
// P password id (0 = empty password, k = "pw<k>"), N wallet-name id ("w<N>"), M master-derivation-key id (0 = blank MDK,
// CreateWallet draws a random one).  Every wallet directory also holds a second wallet named "w9" (name-clash target).
// Tokens (all on the CURRENT wallet handle):
//
//	fetch            new locked handle (FetchWallet)          init:P      Init(pw)
//	gen              GenerateKey(false)                       genmn       GenerateKey(true)
//	imp:A            ImportKey(secret key of A)               del:A:P     DeleteKey
//	exp:A:P          ExportKey                                mdk:P       ExportMasterDerivationKey
//	ren:N:P          driver.RenameWallet                      chk:P       CheckPassword
//	list             ListKeys
//	restore:P:P2:N2  export the MDK with password P, create a NEW wallet (fresh directory, password P2, name N2) from
//	                 it and make its locked handle the current one
//
// Two further line kinds exercise what a kmd process does that a single history cannot: several wallets at once.
//
//	probe G R M1:i1 M2:i2 ...   purity of the derivation: G goroutines, R rounds each; goroutine g calls extractKeyWithIndex
//	                            (MDK id M, index i) for the pairs g, g+G, … in a tight loop, concurrently with the others,
//	                            and compares every result with the harness's own derivation.  Result: "pure" or
//	                            "impure <M>:<i>-><what came back>" (first disagreement).
//	conc M K N                  K wallets (MDK ids M..M+K-1) of ONE SQLiteWalletDriver, each Init'ed, each generating N keys
//	                            in its own goroutine, all at once; then every wallet is restored from its exported MDK
//	                            (sequentially, fresh directory) and regenerates N keys.  Result: one token per wallet
//	                            "<generated>/<restored>" with generated = seq:N when the addresses are d1..dN in order
//	                            (else bad@<pos>:<symbol>) and restored = same when the restored wallet returns the
//	                            same address sequence (else differs@<pos>).
//
// Addresses are symbolic: d<k> = the address the harness derives ITSELF from the MDK at index k (HKDF-Expand,
// SHA-512/256, info "AlgorandDeterministicKey-<k>", independent of extractKeyWithIndex); x<j> = an unrelated key.
// Result line: one token per op token:  <res>/<name id>/<sorted symbolic ListKeys, '-' when empty>
// res: ok | <address> | sk | sk-wrong | mdk-same | mdk-zero | mdk-wrong | E:<error enum>
import (
	"bytes"
	"crypto/sha512"
	"fmt"
	"io"
	"os"
	"path/filepath"
	"sort"
	"strconv"
	"strings"
	"sync"
	"testing"

	"golang.org/x/crypto/hkdf"

	"github.com/algorand/go-algorand/crypto"
	"github.com/algorand/go-algorand/daemon/kmd/config"
	"github.com/algorand/go-algorand/logging"
	"github.com/algorand/go-algorand/zz_verif_tools/vh"
)

type verifC46Case struct {
	root   string
	nw     int
	mdk    crypto.MasterDerivationKey
	sym    map[crypto.Digest]string
	upTo   uint64
	swd    *SQLiteWalletDriver
	w      *SQLiteWallet
	id     []byte
}

func verifC46Pw(id string) []byte {
	if id == "0" {
		return []byte{}
	}
	return []byte("pw" + id)
}

func verifC46Err(err error) string {
	switch err {
	case errDecrypt:
		return "E:decrypt"
	case errKeyNotFound:
		return "E:notfound"
	case errKeyExists:
		return "E:exists"
	case errDeriveKey:
		return "E:derivekey"
	case errSameName:
		return "E:samename"
	case errTooManyKeys:
		return "E:toomany"
	case errNoMnemonicUX:
		return "E:nomnemonic"
	case errDatabase:
		return "E:database"
	case errDatabaseConnect:
		return "E:dbconnect"
	case errTampering:
		return "E:tampering"
	case errSKToPK:
		return "E:sktopk"
	case errWalletNotFound:
		return "E:walletnotfound"
	}
	return "E:other(" + strings.ReplaceAll(err.Error(), " ", "_") + ")"
}

// independent re-implementation of the derivation (NOT extractKeyWithIndex)
func verifC46Derive(mdk []byte, idx uint64) (crypto.Digest, crypto.PrivateKey, crypto.Seed) {
	info := []byte("AlgorandDeterministicKey-" + strconv.FormatUint(idx, 10))
	var seed crypto.Seed
	if _, err := io.ReadFull(hkdf.Expand(sha512.New512_256, mdk, info), seed[:]); err != nil {
		panic(err)
	}
	s := crypto.GenerateSignatureSecrets(seed)
	var d crypto.Digest
	copy(d[:], s.SignatureVerifier[:])
	return d, crypto.PrivateKey(s.SK), seed
}

func verifC46Ext(j uint64) (crypto.Digest, crypto.PrivateKey, crypto.Seed) {
	h := sha512.Sum512_256([]byte("verif-c46-external-key-" + strconv.FormatUint(j, 10)))
	var seed crypto.Seed
	copy(seed[:], h[:])
	s := crypto.GenerateSignatureSecrets(seed)
	var d crypto.Digest
	copy(d[:], s.SignatureVerifier[:])
	return d, crypto.PrivateKey(s.SK), seed
}

func (c *verifC46Case) extendSyms(upTo uint64) {
	for c.upTo < upTo {
		c.upTo++
		d, _, _ := verifC46Derive(c.mdk[:], c.upTo)
		c.sym[d] = "d" + strconv.FormatUint(c.upTo, 10)
	}
}

func (c *verifC46Case) symOf(a crypto.Digest) string {
	if s, ok := c.sym[a]; ok {
		return s
	}
	if c.upTo < 1024 {
		c.extendSyms(1024)
		if s, ok := c.sym[a]; ok {
			return s
		}
	}
	return fmt.Sprintf("?%x", a[:6])
}

// address, secret key and seed of a symbolic address
func (c *verifC46Case) keyOf(s string) (crypto.Digest, crypto.PrivateKey, crypto.Seed) {
	n := vh.U(s[1:])
	if s[0] == 'd' {
		return verifC46Derive(c.mdk[:], n)
	}
	d, sk, seed := verifC46Ext(n)
	c.sym[d] = "x" + strconv.FormatUint(n, 10)
	return d, sk, seed
}

func verifC46SymLess(a, b string) bool {
	ka, kb := a[0], b[0]
	if ka != kb {
		return ka < kb
	}
	if ka == 'd' || ka == 'x' {
		na, ea := strconv.ParseUint(a[1:], 10, 64)
		nb, eb := strconv.ParseUint(b[1:], 10, 64)
		if ea == nil && eb == nil && na != nb {
			return na < nb
		}
	}
	return a < b
}

// newWallet creates wallet directory #nw with the wallet (name N, password P) from the given MDK, plus the bystander "w9".
func (c *verifC46Case) newWallet(pw []byte, name string, mdk crypto.MasterDerivationKey) error {
	c.nw++
	dir := filepath.Join(c.root, fmt.Sprintf("dir%d", c.nw))
	if err := os.MkdirAll(dir, 0700); err != nil {
		return err
	}
	cfg := config.KMDConfig{DataDir: dir}
	cfg.DriverConfig.SQLiteWalletDriverConfig = config.SQLiteWalletDriverConfig{
		UnsafeScrypt: true, ScryptParams: config.ScryptParams{ScryptN: 2, ScryptR: 1, ScryptP: 1}}
	swd := &SQLiteWalletDriver{}
	if err := swd.InitWithConfig(cfg, logging.Base()); err != nil {
		return err
	}
	id := []byte(fmt.Sprintf("id%d", c.nw))
	if err := swd.CreateWallet([]byte("w"+name), id, pw, mdk); err != nil {
		return err
	}
	var other crypto.MasterDerivationKey
	other[0] = 0xee
	if err := swd.CreateWallet([]byte("w9"), []byte("bystander"), []byte("zz"), other); err != nil {
		return err
	}
	w, err := swd.FetchWallet(id)
	if err != nil {
		return err
	}
	c.swd, c.w, c.id = swd, w.(*SQLiteWallet), id
	return nil
}

func (c *verifC46Case) snapshot() string {
	name := "?"
	if md, err := c.w.Metadata(); err == nil && len(md.Name) > 1 && md.Name[0] == 'w' {
		name = string(md.Name[1:])
	}
	keys, err := c.w.ListKeys()
	if err != nil {
		return name + "/" + verifC46Err(err)
	}
	syms := make([]string, 0, len(keys))
	for _, k := range keys {
		syms = append(syms, c.symOf(k))
	}
	sort.SliceStable(syms, func(i, j int) bool { return verifC46SymLess(syms[i], syms[j]) })
	if len(syms) == 0 {
		return name + "/-"
	}
	return name + "/" + strings.Join(syms, ",")
}

func (c *verifC46Case) exec(tok string) string {
	f := strings.Split(tok, ":")
	okOr := func(err error) string {
		if err != nil {
			return verifC46Err(err)
		}
		return "ok"
	}
	switch f[0] {
	case "new":
		c.mdk = crypto.MasterDerivationKey{}
		if f[3] != "0" {
			c.mdk = crypto.MasterDerivationKey(sha512.Sum512_256([]byte("verif-c46-mdk-" + f[3])))
		}
		if err := c.newWallet(verifC46Pw(f[1]), f[2], c.mdk); err != nil {
			return "E:new(" + strings.ReplaceAll(err.Error(), " ", "_") + ")"
		}
		if f[3] == "0" {
			// blank MDK: the wallet drew its own; learn it through a second, throw-away handle
			h, err := c.swd.FetchWallet(c.id)
			if err != nil {
				return verifC46Err(err)
			}
			if err = h.Init(verifC46Pw(f[1])); err != nil {
				return verifC46Err(err)
			}
			if c.mdk, err = h.ExportMasterDerivationKey(verifC46Pw(f[1])); err != nil {
				return verifC46Err(err)
			}
		}
		c.sym = map[crypto.Digest]string{}
		c.upTo = 0
		d0, _, _ := verifC46Derive(c.mdk[:], 0) // index 0 is never used by the wallet (the counter starts at 0, the first key is 1)
		c.sym[d0] = "d0"
		c.extendSyms(24)
		return "ok"
	case "fetch":
		w, err := c.swd.FetchWallet(c.id)
		if err != nil {
			return verifC46Err(err)
		}
		c.w = w.(*SQLiteWallet)
		return "ok"
	case "init":
		return okOr(c.w.Init(verifC46Pw(f[1])))
	case "gen", "genmn":
		a, err := c.w.GenerateKey(f[0] == "genmn")
		if err != nil {
			return verifC46Err(err)
		}
		return c.symOf(a)
	case "imp":
		_, sk, _ := c.keyOf(f[1])
		a, err := c.w.ImportKey(sk)
		if err != nil {
			return verifC46Err(err)
		}
		return c.symOf(a)
	case "del":
		a, _, _ := c.keyOf(f[1])
		return okOr(c.w.DeleteKey(a, verifC46Pw(f[2])))
	case "exp":
		a, _, seed := c.keyOf(f[1])
		sk, err := c.w.ExportKey(a, verifC46Pw(f[2]))
		if err != nil {
			return verifC46Err(err)
		}
		want := crypto.GenerateSignatureSecrets(seed)
		if !bytes.Equal(sk[:], want.SK[:]) {
			return "sk-wrong"
		}
		return "sk"
	case "mdk":
		m, err := c.w.ExportMasterDerivationKey(verifC46Pw(f[1]))
		if err != nil {
			return verifC46Err(err)
		}
		if m == c.mdk {
			return "mdk-same"
		}
		if m == (crypto.MasterDerivationKey{}) {
			return "mdk-zero"
		}
		return "mdk-wrong"
	case "ren":
		return okOr(c.swd.RenameWallet([]byte("w"+f[1]), c.id, verifC46Pw(f[2])))
	case "chk":
		return okOr(c.w.CheckPassword(verifC46Pw(f[1])))
	case "list":
		_, err := c.w.ListKeys()
		return okOr(err)
	case "restore":
		m, err := c.w.ExportMasterDerivationKey(verifC46Pw(f[1]))
		if err != nil {
			return verifC46Err(err)
		}
		if m == (crypto.MasterDerivationKey{}) {
			return "mdk-zero" // locked handle: nothing to restore from
		}
		if err := c.newWallet(verifC46Pw(f[2]), f[3], m); err != nil {
			return "E:new(" + strings.ReplaceAll(err.Error(), " ", "_") + ")"
		}
		if m != c.mdk {
			// the new wallet derives from a different key than the one the case was created with: addresses will show as '?…'
			return "mdk-wrong"
		}
		return "ok"
	}
	return "bad-op"
}

var verifC46Scratch string
var verifC46Seq int

func verifC46Exec(line string) string {
	f := strings.Fields(line)
	if len(f) >= 4 && f[0] == "probe" {
		return vh.Catch(func() string { return verifC46Probe(f) })
	}
	if len(f) == 4 && f[0] == "conc" {
		return vh.Catch(func() string { return verifC46Conc(f) })
	}
	if len(f) < 2 || f[0] != "case" || !strings.HasPrefix(f[1], "new:") || len(strings.Split(f[1], ":")) != 4 {
		return "bad-case"
	}
	verifC46Seq++
	c := &verifC46Case{root: filepath.Join(verifC46Scratch, fmt.Sprintf("case%d", verifC46Seq))}
	defer os.RemoveAll(c.root)
	res := make([]string, 0, len(f)-1)
	dead := false
	for _, tok := range f[1:] {
		if dead {
			res = append(res, "-")
			continue
		}
		r := vh.Catch(func() string { return c.exec(tok) })
		if c.w == nil {
			// wallet creation failed: nothing to run the rest on
			res = append(res, r+"/?/?")
			dead = true
			continue
		}
		res = append(res, r+"/"+vh.Catch(c.snapshot))
	}
	return strings.Join(res, " ")
}

// ---------------------------------------------------------------------------------------------- concurrency

func verifC46Mdk(id string) crypto.MasterDerivationKey {
	return crypto.MasterDerivationKey(sha512.Sum512_256([]byte("verif-c46-mdk-" + id)))
}

// verifC46Probe: extractKeyWithIndex must be a pure function of (mdk, index) also when called from several goroutines.
func verifC46Probe(f []string) string {
	g, rounds := int(vh.U(f[1])), int(vh.U(f[2]))
	type pair struct {
		id   string
		mdk  crypto.MasterDerivationKey
		idx  uint64
		want crypto.Digest
	}
	var pairs []pair
	syms := map[crypto.Digest]string{}
	for _, t := range f[3:] {
		a := strings.Split(t, ":")
		if len(a) != 2 {
			return "bad-op"
		}
		m, i := verifC46Mdk(a[0]), vh.U(a[1])
		d, _, _ := verifC46Derive(m[:], i)
		pairs = append(pairs, pair{a[0], m, i, d})
		// what a confused derivation could return instead: the same MDK at a nearby / digit-related index
		for k := uint64(0); k < 128; k++ {
			dk, _, _ := verifC46Derive(m[:], k)
			syms[dk] = fmt.Sprintf("%s:%d", a[0], k)
		}
	}
	if g < 1 || len(pairs) == 0 {
		return "bad-op"
	}
	first := make([]string, g)
	var wg sync.WaitGroup
	start := make(chan struct{})
	for w := 0; w < g; w++ {
		wg.Add(1)
		go func(w int) {
			defer wg.Done()
			defer func() {
				if r := recover(); r != nil && first[w] == "" {
					first[w] = "PANIC " + strings.ReplaceAll(fmt.Sprint(r), " ", "_")
				}
			}()
			<-start
			for r := 0; r < rounds && first[w] == ""; r++ {
				for k := w; k < len(pairs); k += g {
					p := pairs[k]
					pk, sk, err := extractKeyWithIndex(p.mdk[:], p.idx)
					if err != nil {
						first[w] = fmt.Sprintf("%s:%d->%s", p.id, p.idx, verifC46Err(err))
						break
					}
					got := publicKeyToAddress(pk)
					skpk, _ := crypto.SecretKeyToPublicKey(sk)
					if got != p.want || publicKeyToAddress(skpk) != p.want {
						what, ok := syms[got]
						if !ok {
							what = fmt.Sprintf("?%x", got[:6])
						}
						first[w] = fmt.Sprintf("%s:%d->%s", p.id, p.idx, what)
						break
					}
				}
			}
		}(w)
	}
	close(start)
	wg.Wait()
	for _, s := range first {
		if s != "" {
			return "impure " + s
		}
	}
	return "pure"
}

// verifC46Conc: K wallets of one driver generate concurrently; key #i of a wallet must be derive(its MDK, i), and a wallet
// restored from the exported MDK must return the same address sequence.
func verifC46Conc(f []string) string {
	m0, k, n := int(vh.U(f[1])), int(vh.U(f[2])), int(vh.U(f[3]))
	if k < 1 || k > 64 || n < 0 || n > 100000 {
		return "bad-op"
	}
	verifC46Seq++
	root := filepath.Join(verifC46Scratch, fmt.Sprintf("conc%d", verifC46Seq))
	defer os.RemoveAll(root)
	mkdriver := func(sub string) (*SQLiteWalletDriver, error) {
		dir := filepath.Join(root, sub)
		if err := os.MkdirAll(dir, 0700); err != nil {
			return nil, err
		}
		cfg := config.KMDConfig{DataDir: dir}
		cfg.DriverConfig.SQLiteWalletDriverConfig = config.SQLiteWalletDriverConfig{
			UnsafeScrypt: true, ScryptParams: config.ScryptParams{ScryptN: 2, ScryptR: 1, ScryptP: 1}}
		swd := &SQLiteWalletDriver{}
		return swd, swd.InitWithConfig(cfg, logging.Base())
	}
	open := func(swd *SQLiteWalletDriver, name string, mdk crypto.MasterDerivationKey) (*SQLiteWallet, error) {
		if err := swd.CreateWallet([]byte(name), []byte(name), []byte("pw1"), mdk); err != nil {
			return nil, err
		}
		w, err := swd.FetchWallet([]byte(name))
		if err != nil {
			return nil, err
		}
		return w.(*SQLiteWallet), w.Init([]byte("pw1"))
	}
	swd, err := mkdriver("live")
	if err != nil {
		return "E:new(" + strings.ReplaceAll(err.Error(), " ", "_") + ")"
	}
	ws := make([]*SQLiteWallet, k)
	mdks := make([]crypto.MasterDerivationKey, k)
	for i := 0; i < k; i++ {
		mdks[i] = verifC46Mdk(strconv.Itoa(m0 + i))
		if ws[i], err = open(swd, fmt.Sprintf("w%d", i+1), mdks[i]); err != nil {
			return verifC46Err(err)
		}
	}
	gen := make([][]crypto.Digest, k)
	fail := make([]string, k)
	var wg sync.WaitGroup
	start := make(chan struct{})
	for i := 0; i < k; i++ {
		wg.Add(1)
		go func(i int) {
			defer wg.Done()
			defer func() {
				if r := recover(); r != nil {
					fail[i] = "PANIC_" + strings.ReplaceAll(fmt.Sprint(r), " ", "_")
				}
			}()
			<-start
			for j := 0; j < n; j++ {
				a, err := ws[i].GenerateKey(false)
				if err != nil {
					fail[i] = verifC46Err(err) + "@" + strconv.Itoa(j+1)
					return
				}
				gen[i] = append(gen[i], a)
			}
		}(i)
	}
	close(start)
	wg.Wait()
	// sequential from here on
	res := make([]string, k)
	for i := 0; i < k; i++ {
		if fail[i] != "" {
			res[i] = fail[i] + "/-"
			continue
		}
		g := fmt.Sprintf("seq:%d", len(gen[i]))
		want := map[crypto.Digest]string{}
		for j := 0; j <= n+16; j++ {
			d, _, _ := verifC46Derive(mdks[i][:], uint64(j))
			want[d] = "d" + strconv.Itoa(j)
		}
		for j, a := range gen[i] {
			d, _, _ := verifC46Derive(mdks[i][:], uint64(j+1))
			if a != d {
				s, ok := want[a]
				if !ok {
					s = fmt.Sprintf("?%x", a[:6])
				}
				g = fmt.Sprintf("bad@%d:%s", j+1, s)
				break
			}
		}
		mdk, err := ws[i].ExportMasterDerivationKey([]byte("pw1"))
		if err != nil {
			res[i] = g + "/" + verifC46Err(err)
			continue
		}
		if mdk != mdks[i] {
			res[i] = g + "/mdk-wrong"
			continue
		}
		rsw, err := mkdriver(fmt.Sprintf("restored%d", i+1))
		if err != nil {
			res[i] = g + "/E:new"
			continue
		}
		rw, err := open(rsw, "restored", mdk)
		if err != nil {
			res[i] = g + "/" + verifC46Err(err)
			continue
		}
		r := "same"
		for j := range gen[i] {
			a, err := rw.GenerateKey(false)
			if err != nil {
				r = verifC46Err(err) + "@" + strconv.Itoa(j+1)
				break
			}
			if a != gen[i][j] {
				r = "differs@" + strconv.Itoa(j+1)
				break
			}
		}
		res[i] = g + "/" + r
	}
	return strings.Join(res, " ")
}

// ---------------------------------------------------------------------------------------------- generator

// verifC46Sim is a bookkeeping aid for the generator only (which addresses exist, roughly where the counter is), so that
// the generated operations hit the interesting branches.  Nothing here is used to judge the implementation.
type verifC46Sim struct {
	pw       int
	name     int
	unlocked bool
	max      uint64
	keys     []string
	nextExt  uint64
}

func (s *verifC46Sim) has(a string) bool {
	for _, k := range s.keys {
		if k == a {
			return true
		}
	}
	return false
}
func (s *verifC46Sim) remove(a string) {
	for i, k := range s.keys {
		if k == a {
			s.keys = append(s.keys[:i:i], s.keys[i+1:]...)
			return
		}
	}
}
func (s *verifC46Sim) gen() {
	if !s.unlocked {
		return
	}
	n := s.max + 1
	for s.has(fmt.Sprintf("d%d", n)) {
		n++
	}
	s.keys = append(s.keys, fmt.Sprintf("d%d", n))
	s.max = n
}

func verifC46PickPw(rng *vh.Rng, right int, wrongPct int) int {
	if rng.Chance(wrongPct) {
		return (right + 1 + rng.Intn(3)) % 4
	}
	return right
}

func (s *verifC46Sim) pickAddr(rng *vh.Rng) string {
	switch r := rng.Intn(100); {
	case r < 55 && len(s.keys) > 0:
		return s.keys[rng.Intn(len(s.keys))]
	case r < 75:
		return fmt.Sprintf("d%d", 1+rng.Intn(int(s.max)+3))
	case r < 90:
		return fmt.Sprintf("x%d", 1+rng.Intn(int(s.nextExt)+2))
	}
	return fmt.Sprintf("d%d", s.max+1+uint64(rng.Intn(3)))
}

// one random operation on the simulated wallet; returns the token
func (s *verifC46Sim) randomOp(rng *vh.Rng, allowImport bool) string {
	for {
		switch r := rng.Intn(100); {
		case r < 30:
			s.gen()
			return "gen"
		case r < 46:
			if !allowImport {
				continue
			}
			var a string
			switch q := rng.Intn(100); {
			case q < 50: // just ahead of the counter: the skip loop will meet it
				a = fmt.Sprintf("d%d", s.max+1+uint64(rng.Intn(3)))
			case q < 70: // at or below the counter: present (errKeyExists) or deleted earlier
				a = fmt.Sprintf("d%d", 1+rng.Intn(int(s.max)+1))
			case q < 90:
				s.nextExt++
				a = fmt.Sprintf("x%d", s.nextExt)
			default:
				a = s.pickAddr(rng)
			}
			if s.unlocked && !s.has(a) {
				s.keys = append(s.keys, a)
			}
			return "imp:" + a
		case r < 62:
			a, p := s.pickAddr(rng), verifC46PickPw(rng, s.pw, 35)
			if p == s.pw {
				s.remove(a)
			}
			return fmt.Sprintf("del:%s:%d", a, p)
		case r < 72:
			return fmt.Sprintf("exp:%s:%d", s.pickAddr(rng), verifC46PickPw(rng, s.pw, 40))
		case r < 77:
			return fmt.Sprintf("mdk:%d", verifC46PickPw(rng, s.pw, 50))
		case r < 83:
			n, p := []int{1, 2, 3, 9, s.name}[rng.Intn(5)], verifC46PickPw(rng, s.pw, 40)
			if p == s.pw && n != s.name && n != 9 {
				s.name = n
			}
			return fmt.Sprintf("ren:%d:%d", n, p)
		case r < 86:
			return fmt.Sprintf("chk:%d", verifC46PickPw(rng, s.pw, 50))
		case r < 89:
			return "list"
		case r < 92:
			s.unlocked = false
			return "fetch"
		case r < 99:
			p := verifC46PickPw(rng, s.pw, 25)
			if p == s.pw {
				s.unlocked = true
			}
			return fmt.Sprintf("init:%d", p)
		default:
			return "genmn"
		}
	}
}

func verifC46RandomCase(rng *vh.Rng, caseNo int) string {
	s := &verifC46Sim{pw: rng.Intn(3), name: 1 + rng.Intn(3)}
	mdk := 1 + caseNo%7
	if rng.Chance(6) {
		mdk = 0
	}
	toks := []string{fmt.Sprintf("new:%d:%d:%d", s.pw, s.name, mdk)}
	if rng.Chance(90) {
		toks = append(toks, fmt.Sprintf("init:%d", s.pw))
		s.unlocked = true
	}
	n := 4 + rng.Intn(36)
	for i := 0; i < n; i++ {
		toks = append(toks, s.randomOp(rng, true))
		if !s.unlocked && rng.Chance(55) {
			// do not spend the whole case on a locked handle
			toks = append(toks, fmt.Sprintf("init:%d", s.pw))
			s.unlocked = true
		}
	}
	if rng.Chance(85) {
		// restore from the exported MDK (mostly with the right password and an unlocked handle) and regenerate
		if !s.unlocked && rng.Chance(85) {
			toks = append(toks, fmt.Sprintf("init:%d", s.pw))
		}
		p2 := rng.Intn(3)
		toks = append(toks, fmt.Sprintf("restore:%d:%d:%d", verifC46PickPw(rng, s.pw, 8), p2, 4+rng.Intn(3)))
		toks = append(toks, fmt.Sprintf("init:%d", p2))
		s2 := &verifC46Sim{pw: p2, name: 4, unlocked: true}
		k := int(s.max)
		if rng.Chance(25) {
			// re-import some keys into the restored wallet first / in between
			for i := 0; i < k+2; i++ {
				if rng.Chance(25) {
					toks = append(toks, s2.randomOp(rng, true))
				}
				toks = append(toks, "gen")
				s2.gen()
			}
		} else {
			for i := 0; i < k; i++ {
				if rng.Chance(12) {
					toks = append(toks, s2.randomOp(rng, false))
				}
				toks = append(toks, "gen")
			}
		}
		toks = append(toks, "list")
	}
	return "case " + strings.Join(toks, " ")
}

// all sequences of length <= depth over a small alphabet, after `new init` (wallet with password 1)
func verifC46Exhaustive(depth int) []string {
	alpha := []string{"gen", "imp:d1", "imp:d2", "del:d1:1", "del:d2:1", "del:d1:2", "fetch", "init:1", "exp:d1:2", "restore:1:1:4 init:1"}
	var out []string
	var rec func(prefix []string, d int)
	rec = func(prefix []string, d int) {
		if len(prefix) > 0 {
			out = append(out, "case new:1:1:1 init:1 "+strings.Join(prefix, " ")+" gen list")
		}
		if d == 0 {
			return
		}
		for _, a := range alpha {
			rec(append(append([]string{}, prefix...), a), d-1)
		}
	}
	rec(nil, depth)
	return out
}

// several wallets / derivations at once (kmd serves its wallets concurrently; one sqlite file per wallet, no common lock)
func verifC46Concurrent(rng *vh.Rng) []string {
	var ops []string
	np := vh.Budget(6, 40)
	for c := 0; c < np; c++ {
		g := 2 + rng.Intn(7)
		toks := make([]string, 0, 2*g)
		for i := 0; i < 2*g; i++ {
			// distinct digit strings of different lengths, mostly small (a wallet's early keys), some around 10^k boundaries
			var idx uint64
			switch rng.Intn(5) {
			case 0:
				idx = uint64(1 + rng.Intn(9))
			case 1:
				idx = uint64(10 + rng.Intn(90))
			case 2:
				idx = uint64(1 + rng.Intn(120))
			case 3:
				idx = []uint64{99, 100, 999, 1000, 9999999, 10000000, 4294967296, 9223372036854775807}[rng.Intn(8)]
			default:
				idx = rng.U64() >> uint(1+rng.Intn(63))
			}
			toks = append(toks, fmt.Sprintf("%d:%d", 1+rng.Intn(4), idx))
		}
		ops = append(ops, fmt.Sprintf("probe %d %d %s", g, vh.Budget(4000, 20000), strings.Join(toks, " ")))
	}
	nc := vh.Budget(3, 12)
	for c := 0; c < nc; c++ {
		k := []int{8, 4, 12, 2, 16, 6}[c%6]
		ops = append(ops, fmt.Sprintf("conc %d %d %d", 1+rng.Intn(50), k, vh.Budget(1600, 4000)/k))
	}
	return ops
}

func verifC46Generate() []string {
	rng := vh.NewRng(vh.Seed())
	ops := []string{
		// directed: counter survives deletion; skip loop; import cannot overwrite; password gates; locked handle; restore
		"case new:1:1:1 init:1 gen gen gen del:d3:1 gen del:d2:1 del:d4:1 gen list restore:1:2:4 init:2 gen gen gen gen gen list",
		"case new:1:1:2 init:1 imp:d1 imp:d2 gen imp:d4 imp:d5 gen gen del:d4:1 gen restore:1:1:4 init:1 gen gen gen gen gen gen gen list",
		"case new:0:2:3 init:0 gen gen imp:d1 imp:d2 imp:d3 del:d1:0 imp:d1 gen exp:d1:0 exp:d1:1 del:d1:1 del:d1:0 gen list",
		"case new:2:1:4 init:2 gen imp:x1 del:x1:1 exp:x1:1 mdk:1 ren:2:1 chk:1 init:1 exp:x1:2 del:x1:2 mdk:2 ren:2:2 ren:2:2 ren:9:2 ren:1:2 list",
		"case new:1:3:5 gen imp:x1 exp:d1:1 mdk:1 mdk:2 del:d1:1 init:2 init:1 gen fetch gen exp:d1:1 exp:d2:1 del:d1:1 mdk:1 restore:1:1:4 init:1 gen fetch init:1 gen",
		"case new:1:1:0 init:1 gen gen mdk:1 restore:1:1:4 init:1 gen gen gen list",
		"case new:1:1:6 init:1 gen genmn fetch genmn init:0 init:1 imp:d3 imp:d3 gen gen del:d3:1 gen imp:d3 gen list restore:2:1:4 restore:1:1:4 init:1 imp:d2 gen gen gen list",
	}
	depth := 2
	if vh.Thorough() {
		depth = 4
	}
	ops = append(ops, verifC46Exhaustive(depth)...)
	ops = append(ops, verifC46Concurrent(rng)...)
	n := vh.Budget(450, 12000)
	for i := 0; i < n; i++ {
		ops = append(ops, verifC46RandomCase(rng, i))
	}
	return ops
}

func TestVerifC46(t *testing.T) {
	ops, replay := vh.ReplayOps()
	if !replay {
		ops = verifC46Generate()
	}
	// scratch wallets: under the test's temp dir, or under $VERIF_SCRATCH (the check points it at a tmpfs when there is one)
	verifC46Scratch = t.TempDir()
	if d := os.Getenv("VERIF_SCRATCH"); d != "" {
		if tmp, err := os.MkdirTemp(d, "verif-c46-"); err == nil {
			verifC46Scratch = tmp
			defer os.RemoveAll(tmp)
		}
	}
	out := vh.Open("c46")
	defer out.Close()
	for _, op := range ops {
		out.Emit(op, verifC46Exec(op))
	}
}

// TestVerifC46Race: a short concurrent run meant for `go test -race` (the check runs it that way when the race runtime is
// available): the race detector reports unsynchronised sharing between wallets deterministically, without needing the
// ~1 µs interleaving to happen.  Writes its own op/result files (c46race.*).
func TestVerifC46Race(t *testing.T) {
	verifC46Scratch = t.TempDir()
	if d := os.Getenv("VERIF_SCRATCH"); d != "" {
		if tmp, err := os.MkdirTemp(d, "verif-c46r-"); err == nil {
			verifC46Scratch = tmp
			defer os.RemoveAll(tmp)
		}
	}
	out := vh.Open("c46race")
	defer out.Close()
	for _, op := range []string{
		"probe 4 50 1:5 2:17 3:123 4:7 1:42 2:9 3:1000 4:88",
		"conc 1 4 25",
		"case new:1:1:1 init:1 gen imp:d3 gen gen del:d2:1 gen restore:1:2:4 init:2 gen gen gen gen gen list",
	} {
		out.Emit(op, verifC46Exec(op))
	}
}
