//go:build verif

package test

// C10 handler-level pagination harness ("Paginated listings return each resource exactly once").
//
// One REAL ledger (ledger.OpenLedger, in-memory sqlite, cwd = t.TempDir()) is built once:
//   - account U holds 6 assets (3 created by U, 3 created by V; one more V asset was opted out again) and is
//     involved with 6 apps (created / opted in / opted in and later deleted by the creator; one more was closed out),
//   - app BOX (created by V) owns 13 boxes with shared name prefixes, names of length 1..64 and values of length 0..100.
//
// Phase 1 of that history is flushed to the tracker DB (the harness waits until Ledger.LatestTrackerCommitted()
// has passed the last phase-1 round); phase 2 (3 blocks, fewer than MaxAcctLookback=4) stays in the in-memory deltas and
// contains creations, value updates and DELETIONS (box deleted, asset opted out, app closed out, app deleted) of
// phase-1 state, plus a box that is created and deleted in memory only.
//
// Op grammar (one op = one complete walk over a listing, following next-token):
//   hboxes cfgmax=<uint> limit=<-|uint> prefix=<-|hex> values=<0|1> round=<-|latest>
//   hassets limit=<uint>
//   happs limit=<uint> params=<0|1>
// Result line:
//   status=<200 | first non-200 http code | -1 handler returned a Go error> pagesn=<n> lasttoken=<0|1> path=<paged|legacy> pages=<p1|p2|…> ref=<r>
//   path=legacy: hboxes with limit=- prefix=- values=0 round=- takes the handler's unpaginated legacy branch
//   (getApplicationBoxesLegacy); that branch returns the names in Go map order (differs from run to run), so the
//   harness SORTS the items of such a page to keep the line canonical. Every other page is printed in response order.
//   page / ref = comma list of items, `-` when empty (also `-` for pages when pagesn=0);
//   items: boxes <hex name>[=<hex value> when values=1], assets <id>:<amount>, apps <id>.
//   lasttoken=1 iff the last page fetched still carried a next-token (only possible with the 200-page guard).
//   ref is computed from the same ledger by other means: boxes LookupKeysByPrefix(latest, box prefix of the app,
//   MaxUint64) filtered by the name prefix and sorted bytewise, values by LookupKv; assets/apps from the full
//   account data returned by LookupLatest(U), sorted by id.
// cfgmax is Node.Config().MaxAPIBoxPerApplication of the node the handler runs on.

import (
	"encoding/base64"
	"encoding/hex"
	"encoding/json"
	"fmt"
	"math"
	"net/http"
	"net/http/httptest"
	"sort"
	"strconv"
	"strings"
	"testing"
	"time"

	"github.com/labstack/echo/v4"
	"github.com/stretchr/testify/require"

	"github.com/algorand/avm-abi/apps"

	"github.com/algorand/go-algorand/agreement"
	"github.com/algorand/go-algorand/config"
	v2 "github.com/algorand/go-algorand/daemon/algod/api/server/v2"
	"github.com/algorand/go-algorand/daemon/algod/api/server/v2/generated/model"
	"github.com/algorand/go-algorand/data"
	"github.com/algorand/go-algorand/data/basics"
	"github.com/algorand/go-algorand/data/bookkeeping"
	"github.com/algorand/go-algorand/data/transactions"
	"github.com/algorand/go-algorand/data/txntest"
	"github.com/algorand/go-algorand/ledger"
	"github.com/algorand/go-algorand/ledger/ledgercore"
	ledgertesting "github.com/algorand/go-algorand/ledger/testing"
	"github.com/algorand/go-algorand/logging"
	"github.com/algorand/go-algorand/protocol"
	"github.com/algorand/go-algorand/zz_verif_tools/vh"
)

const verifC10HBoxProg = `#pragma version 8
txn ApplicationID
bz ok
txn NumAppArgs
bz ok
txna ApplicationArgs 0
byte "put"
==
bnz put
txna ApplicationArgs 0
byte "del"
==
bnz del
err
put:
txna ApplicationArgs 1
box_del
pop
txna ApplicationArgs 1
txna ApplicationArgs 2
len
box_create
assert
txna ApplicationArgs 2
len
bz ok
txna ApplicationArgs 1
txna ApplicationArgs 2
box_put
b ok
del:
txna ApplicationArgs 1
box_del
assert
ok:
int 1
`

const verifC10HPlainProg = "#pragma version 8\nint 1\n"

// verifC10HWorld is the ledger plus the handlers (one per MaxAPIBoxPerApplication value) serving it.
type verifC10HWorld struct {
	t        *testing.T
	l        *data.Ledger
	seq      int
	user     basics.Address
	boxApp   basics.AppIndex
	handlers map[uint64]v2.Handlers
}

// verifC10HBlock evaluates the transactions (each its own group) in ONE new block through the real
// BlockEvaluator and adds the block to the ledger; returns the ApplyData of each transaction.
func (w *verifC10HWorld) verifC10HBlock(txns ...txntest.Txn) []transactions.ApplyData {
	w.t.Helper()
	rnd := w.l.Latest()
	hdr, err := w.l.BlockHdr(rnd)
	require.NoError(w.t, err)
	params := config.Consensus[hdr.CurrentProtocol]
	nextHdr := bookkeeping.MakeBlock(hdr).BlockHeader
	ev, err := w.l.StartEvaluator(nextHdr, 0, 0, nil)
	require.NoError(w.t, err)
	for i := range txns {
		tx := txns[i]
		w.seq++
		tx.Note = fmt.Sprintf("c10h-%d", w.seq) // unique txids
		tx.FirstValid = hdr.Round
		tx.GenesisID = hdr.GenesisID
		tx.GenesisHash = hdr.GenesisHash
		tx.FillDefaults(params)
		stx := tx.SignedTxn()
		require.NoError(w.t, ev.TransactionGroup(stx.WithAD()), "txn %d of block %d", i, rnd+1)
	}
	ub, err := ev.GenerateBlock(nil)
	require.NoError(w.t, err)
	vb := ledgercore.MakeValidatedBlock(ub.UnfinishedBlock(), ub.UnfinishedDeltas())
	require.NoError(w.t, w.l.AddValidatedBlock(vb, agreement.Certificate{}))
	blk := vb.Block()
	require.Len(w.t, blk.Payset, len(txns))
	ads := make([]transactions.ApplyData, len(txns))
	for i := range blk.Payset {
		ads[i] = blk.Payset[i].ApplyData
	}
	return ads
}

func (w *verifC10HWorld) verifC10HPut(sender basics.Address, name, value string) txntest.Txn {
	return txntest.Txn{Type: protocol.ApplicationCallTx, Sender: sender, ApplicationID: w.boxApp,
		ApplicationArgs: [][]byte{[]byte("put"), []byte(name), []byte(value)},
		Boxes:           []transactions.BoxRef{{Index: 0, Name: []byte(name)}}}
}

func (w *verifC10HWorld) verifC10HDel(sender basics.Address, name string) txntest.Txn {
	return txntest.Txn{Type: protocol.ApplicationCallTx, Sender: sender, ApplicationID: w.boxApp,
		ApplicationArgs: [][]byte{[]byte("del"), []byte(name)},
		Boxes:           []transactions.BoxRef{{Index: 0, Name: []byte(name)}}}
}

func verifC10HBuild(t *testing.T) *verifC10HWorld {
	genesisInitState, keys := ledgertesting.GenerateInitState(t, protocol.ConsensusFuture, 200)
	cfg := config.GetDefaultLocal()
	cfg.Archival = true
	log := logging.TestingLog(t)
	log.SetLevel(logging.Warn)
	const inMem = true
	realLedger, err := ledger.OpenLedger(log, "verifc10h", inMem, genesisInitState, cfg)
	require.NoError(t, err)
	w := &verifC10HWorld{t: t, l: &data.Ledger{Ledger: realLedger}, handlers: map[uint64]v2.Handlers{}}

	var addrs []basics.Address
	for a := range keys {
		if a != ledgertesting.SinkAddr() && a != ledgertesting.PoolAddr() {
			addrs = append(addrs, a)
		}
	}
	sort.Slice(addrs, func(i, j int) bool { return string(addrs[i][:]) < string(addrs[j][:]) })
	U, V, F := addrs[0], addrs[1], addrs[2]
	w.user = U

	acfg := func(sender basics.Address, name string, total uint64) txntest.Txn {
		return txntest.Txn{Type: protocol.AssetConfigTx, Sender: sender,
			AssetParams: basics.AssetParams{Total: total, UnitName: name, AssetName: "asset " + name, Manager: sender}}
	}
	optin := func(sender basics.Address, aid basics.AssetIndex) txntest.Txn {
		return txntest.Txn{Type: protocol.AssetTransferTx, Sender: sender, AssetReceiver: sender, XferAsset: aid}
	}
	axfer := func(from, to basics.Address, aid basics.AssetIndex, amt uint64) txntest.Txn {
		return txntest.Txn{Type: protocol.AssetTransferTx, Sender: from, AssetReceiver: to, XferAsset: aid, AssetAmount: amt}
	}
	appCreate := func(sender basics.Address, prog string) txntest.Txn {
		return txntest.Txn{Type: protocol.ApplicationCallTx, Sender: sender, ApprovalProgram: prog, ClearStateProgram: verifC10HPlainProg,
			LocalStateSchema: basics.StateSchema{NumUint: 1}}
	}
	appCall := func(sender basics.Address, app basics.AppIndex, oc transactions.OnCompletion) txntest.Txn {
		return txntest.Txn{Type: protocol.ApplicationCallTx, Sender: sender, ApplicationID: app, OnCompletion: oc}
	}

	// ---------------- phase 1: will be flushed to the tracker DB ----------------
	ads := w.verifC10HBlock(acfg(V, "va1", 1000), acfg(U, "ub1", 500), acfg(V, "va2", 2000), acfg(U, "ub2", 0xffffffffffffffff), acfg(V, "va3", 3000), acfg(U, "ub3", 7))
	a1, b1, a2, b2, a3, b3 := ads[0].ConfigAsset, ads[1].ConfigAsset, ads[2].ConfigAsset, ads[3].ConfigAsset, ads[4].ConfigAsset, ads[5].ConfigAsset
	_, _, _ = b1, b2, b3
	w.verifC10HBlock(optin(U, a1), optin(U, a2), optin(U, a3))
	w.verifC10HBlock(axfer(V, U, a1, 11), axfer(V, U, a2, 22)) // a3 stays at amount 0

	ads = w.verifC10HBlock(appCreate(V, verifC10HBoxProg), appCreate(V, verifC10HPlainProg), appCreate(U, verifC10HPlainProg),
		appCreate(V, verifC10HPlainProg), appCreate(U, verifC10HPlainProg), appCreate(V, verifC10HPlainProg))
	pBox, p2, q1, p3, q2, p4 := ads[0].ApplicationID, ads[1].ApplicationID, ads[2].ApplicationID, ads[3].ApplicationID, ads[4].ApplicationID, ads[5].ApplicationID
	_ = q2
	w.boxApp = pBox
	w.verifC10HBlock(appCall(U, p2, transactions.OptInOC), appCall(U, p3, transactions.OptInOC), appCall(U, p4, transactions.OptInOC),
		appCall(U, q1, transactions.OptInOC), // creator opted into its own app: one id, params and local state
		txntest.Txn{Type: protocol.PaymentTx, Sender: F, Receiver: pBox.Address(), Amount: 5_000_000})

	long64 := strings.Repeat("a", 64)
	w.verifC10HBlock(w.verifC10HPut(F, "a", ""), w.verifC10HPut(F, "ab", "x"), w.verifC10HPut(F, "abc", strings.Repeat("v", 100)),
		w.verifC10HPut(F, "abd", "gone-later"), w.verifC10HPut(F, "b", "bb"))
	w.verifC10HBlock(w.verifC10HPut(F, "ba", "old-value"), w.verifC10HPut(F, "\xff", "\x00\xff"), w.verifC10HPut(F, "a\x00", ""),
		w.verifC10HPut(F, long64, "long"), w.verifC10HPut(F, "c", "deleted-in-memory"))
	phase1End := w.l.Latest()

	// force the flush: the tracker registry commits rounds <= latest-MaxAcctLookback, the first time immediately,
	// later at most every balancesFlushInterval (5 s); keep adding empty blocks until phase 1 is in the DB.
	deadline := time.Now().Add(90 * time.Second)
	for w.l.LatestTrackerCommitted() < phase1End {
		if time.Now().After(deadline) {
			t.Fatalf("c10h: tracker DB round %d did not reach %d (flush not achieved)", w.l.LatestTrackerCommitted(), phase1End)
		}
		w.verifC10HBlock()
		w.l.WaitForCommit(w.l.Latest())
		time.Sleep(300 * time.Millisecond)
	}

	// ---------------- phase 2: 3 blocks (< MaxAcctLookback = 4) that stay in the in-memory deltas ----------------
	require.EqualValues(t, 4, cfg.MaxAcctLookback)
	phase2Start := w.l.Latest() + 1
	ads = w.verifC10HBlock(
		w.verifC10HPut(F, "aa", "new"), w.verifC10HPut(F, "abb", ""), w.verifC10HPut(F, "\xff\xff", "ff"), w.verifC10HPut(F, "0", "zero"),
		w.verifC10HDel(F, "abd"), w.verifC10HDel(F, "c"), w.verifC10HPut(F, "ba", "new-value"), w.verifC10HPut(F, "tmp", "memory only"),
		acfg(V, "va4", 4000), acfg(V, "va5", 5000), appCreate(V, verifC10HPlainProg), appCreate(U, verifC10HPlainProg))
	a4, a5, p5 := ads[8].ConfigAsset, ads[9].ConfigAsset, ads[10].ApplicationID
	w.verifC10HBlock(
		txntest.Txn{Type: protocol.AssetTransferTx, Sender: U, AssetReceiver: V, AssetCloseTo: V, XferAsset: a2}, // opt out (memory only)
		optin(U, a4), optin(U, a5), axfer(V, U, a1, 100), // a1 amount changes in memory
		appCall(U, p3, transactions.CloseOutOC),          // close out of a flushed opt-in
		appCall(V, p4, transactions.DeleteApplicationOC), // app deleted while U is still opted in
		appCall(U, p5, transactions.OptInOC))
	w.verifC10HBlock(
		txntest.Txn{Type: protocol.AssetTransferTx, Sender: U, AssetReceiver: V, AssetCloseTo: V, XferAsset: a5}, // opted in and out in memory
		axfer(V, U, a4, 44), w.verifC10HDel(F, "tmp"), w.verifC10HPut(F, "cc", "after c"))
	w.l.WaitForCommit(w.l.Latest())
	time.Sleep(200 * time.Millisecond)
	dbRound := w.l.LatestTrackerCommitted()
	if dbRound < phase1End || dbRound >= phase2Start {
		t.Fatalf("c10h: tracker DB round %d, want in [%d,%d)", dbRound, phase1End, phase2Start)
	}
	t.Logf("c10h: ledger latest=%d trackerDB=%d phase1End=%d phase2Start=%d user=%s boxApp=%d", w.l.Latest(), dbRound, phase1End, phase2Start, U, pBox)
	return w
}

func (w *verifC10HWorld) verifC10HHandler(cfgmax uint64) v2.Handlers {
	if h, ok := w.handlers[cfgmax]; ok {
		return h
	}
	cfg := config.GetDefaultLocal()
	cfg.MaxAPIBoxPerApplication = cfgmax
	node := makeMockNodeWithConfig(w.l, "verifc10h", nil, cannedStatusReportGolden, false, cfg)
	h := v2.Handlers{Node: node, Log: logging.Base(), Shutdown: make(chan struct{})}
	w.handlers[cfgmax] = h
	return h
}

func verifC10HReq() (echo.Context, *httptest.ResponseRecorder) {
	e := echo.New()
	req := httptest.NewRequest(http.MethodGet, "/", nil)
	rec := httptest.NewRecorder()
	return e.NewContext(req, rec), rec
}

func verifC10HList(items []string) string {
	if len(items) == 0 {
		return "-"
	}
	return strings.Join(items, ",")
}

func verifC10HKV(op string) (string, map[string]string) {
	f := strings.Fields(op)
	m := map[string]string{}
	if len(f) == 0 {
		return "", m
	}
	for _, kv := range f[1:] {
		i := strings.IndexByte(kv, '=')
		if i < 0 {
			panic("bad field " + kv)
		}
		m[kv[:i]] = kv[i+1:]
	}
	return f[0], m
}

const verifC10HMaxPages = 200

func verifC10HResult(status int, pages []string, lasttoken int, path string, ref []string) string {
	p := "-"
	if len(pages) > 0 {
		p = strings.Join(pages, "|")
	}
	return fmt.Sprintf("status=%d pagesn=%d lasttoken=%d path=%s pages=%s ref=%s", status, len(pages), lasttoken, path, p, verifC10HList(ref))
}

func (w *verifC10HWorld) verifC10HBoxes(m map[string]string) string {
	h := w.verifC10HHandler(vh.U(m["cfgmax"]))
	values := m["values"] == "1"
	var prefix []byte
	if m["prefix"] != "-" {
		var err error
		if prefix, err = hex.DecodeString(m["prefix"]); err != nil {
			panic("bad prefix hex")
		}
	}
	latest := w.l.Latest()

	// reference listing, through the unpaginated ledger calls
	appPrefix := apps.MakeBoxKey(uint64(w.boxApp), "")
	keys, err := w.l.LookupKeysByPrefix(latest, appPrefix, math.MaxUint64)
	if err != nil {
		panic(err)
	}
	var names []string
	for _, k := range keys {
		n := k[len(appPrefix):]
		if strings.HasPrefix(n, string(prefix)) {
			names = append(names, n)
		}
	}
	sort.Strings(names)
	ref := make([]string, 0, len(names))
	for _, n := range names {
		it := hex.EncodeToString([]byte(n))
		if values {
			v, err := w.l.LookupKv(latest, appPrefix+n)
			if err != nil {
				panic(err)
			}
			it += "=" + hex.EncodeToString(v)
		}
		ref = append(ref, it)
	}

	var pages []string
	status, lasttoken := 200, 0
	var next *string
	// mirrors the handler's branch condition for the first request (no next yet)
	path := "paged"
	if (m["limit"] == "-" || m["limit"] == "0") && len(prefix) == 0 && !values && m["round"] == "-" {
		path = "legacy"
	}
	for len(pages) < verifC10HMaxPages {
		var params model.GetApplicationBoxesParams
		if m["limit"] != "-" {
			l := vh.U(m["limit"])
			params.Limit = &l
		}
		if m["prefix"] != "-" {
			p := "b64:" + base64.StdEncoding.EncodeToString(prefix)
			params.Prefix = &p
		}
		if values {
			inc := []model.GetApplicationBoxesParamsInclude{model.GetApplicationBoxesParamsIncludeValues}
			params.Include = &inc
		}
		switch m["round"] {
		case "-":
		case "latest":
			r := latest
			params.Round = &r
		default:
			r := basics.Round(vh.U(m["round"]))
			params.Round = &r
		}
		params.Next = next
		ctx, rec := verifC10HReq()
		if err := h.GetApplicationBoxes(ctx, w.boxApp, params); err != nil {
			status = -1
			break
		}
		if rec.Code != 200 {
			status = rec.Code
			break
		}
		var resp model.BoxesResponse
		if err := json.Unmarshal(rec.Body.Bytes(), &resp); err != nil {
			panic(err)
		}
		items := make([]string, 0, len(resp.Boxes))
		for _, b := range resp.Boxes {
			it := hex.EncodeToString(b.Name)
			if values {
				if b.Value == nil {
					it += "=nil"
				} else {
					it += "=" + hex.EncodeToString(*b.Value)
				}
			} else if b.Value != nil {
				it += "=unexpected"
			}
			items = append(items, it)
		}
		if path == "legacy" && next == nil {
			sort.Strings(items) // map order in the legacy branch; hex of equal-case bytes sorts like the bytes
		}
		pages = append(pages, verifC10HList(items))
		if resp.NextToken == nil {
			lasttoken = 0
			break
		}
		lasttoken = 1
		next = resp.NextToken
	}
	return verifC10HResult(status, pages, lasttoken, path, ref)
}

func (w *verifC10HWorld) verifC10HAssets(m map[string]string) string {
	h := w.verifC10HHandler(config.GetDefaultLocal().MaxAPIBoxPerApplication)
	ad, _, _, err := w.l.LookupLatest(w.user)
	if err != nil {
		panic(err)
	}
	var ids []uint64
	for id := range ad.Assets {
		ids = append(ids, uint64(id))
	}
	sort.Slice(ids, func(i, j int) bool { return ids[i] < ids[j] })
	ref := make([]string, 0, len(ids))
	for _, id := range ids {
		ref = append(ref, fmt.Sprintf("%d:%d", id, ad.Assets[basics.AssetIndex(id)].Amount))
	}

	var pages []string
	status, lasttoken := 200, 0
	var next *string
	for len(pages) < verifC10HMaxPages {
		l := vh.U(m["limit"])
		params := model.AccountAssetsInformationParams{Limit: &l, Next: next}
		ctx, rec := verifC10HReq()
		if err := h.AccountAssetsInformation(ctx, w.user, params); err != nil {
			status = -1
			break
		}
		if rec.Code != 200 {
			status = rec.Code
			break
		}
		var resp model.AccountAssetsInformationResponse
		if err := json.Unmarshal(rec.Body.Bytes(), &resp); err != nil {
			panic(err)
		}
		var items []string
		if resp.AssetHoldings != nil {
			for _, ah := range *resp.AssetHoldings {
				items = append(items, fmt.Sprintf("%d:%d", uint64(ah.AssetHolding.AssetID), ah.AssetHolding.Amount))
			}
		}
		pages = append(pages, verifC10HList(items))
		if resp.NextToken == nil {
			lasttoken = 0
			break
		}
		lasttoken = 1
		next = resp.NextToken
	}
	return verifC10HResult(status, pages, lasttoken, "paged", ref)
}

func (w *verifC10HWorld) verifC10HApps(m map[string]string) string {
	h := w.verifC10HHandler(config.GetDefaultLocal().MaxAPIBoxPerApplication)
	ad, _, _, err := w.l.LookupLatest(w.user)
	if err != nil {
		panic(err)
	}
	seen := map[uint64]bool{}
	for id := range ad.AppParams {
		seen[uint64(id)] = true
	}
	for id := range ad.AppLocalStates {
		seen[uint64(id)] = true
	}
	var ids []uint64
	for id := range seen {
		ids = append(ids, id)
	}
	sort.Slice(ids, func(i, j int) bool { return ids[i] < ids[j] })
	ref := make([]string, 0, len(ids))
	for _, id := range ids {
		ref = append(ref, strconv.FormatUint(id, 10))
	}

	var pages []string
	status, lasttoken := 200, 0
	var next *string
	for len(pages) < verifC10HMaxPages {
		l := vh.U(m["limit"])
		params := model.AccountApplicationsInformationParams{Limit: &l, Next: next}
		if m["params"] == "1" {
			inc := []model.AccountApplicationsInformationParamsInclude{model.AccountApplicationsInformationParamsIncludeParams}
			params.Include = &inc
		}
		ctx, rec := verifC10HReq()
		if err := h.AccountApplicationsInformation(ctx, w.user, params); err != nil {
			status = -1
			break
		}
		if rec.Code != 200 {
			status = rec.Code
			break
		}
		var resp model.AccountApplicationsInformationResponse
		if err := json.Unmarshal(rec.Body.Bytes(), &resp); err != nil {
			panic(err)
		}
		var items []string
		if resp.ApplicationResources != nil {
			for _, ar := range *resp.ApplicationResources {
				items = append(items, strconv.FormatUint(uint64(ar.Id), 10))
			}
		}
		pages = append(pages, verifC10HList(items))
		if resp.NextToken == nil {
			lasttoken = 0
			break
		}
		lasttoken = 1
		next = resp.NextToken
	}
	return verifC10HResult(status, pages, lasttoken, "paged", ref)
}

func (w *verifC10HWorld) verifC10HExec(op string) string {
	return vh.Catch(func() string {
		kind, m := verifC10HKV(op)
		need := func(keys ...string) bool {
			for _, k := range keys {
				if _, ok := m[k]; !ok {
					return false
				}
			}
			return true
		}
		switch kind {
		case "hboxes":
			if !need("cfgmax", "limit", "prefix", "values", "round") {
				return "bad-op"
			}
			return w.verifC10HBoxes(m)
		case "hassets":
			if !need("limit") {
				return "bad-op"
			}
			return w.verifC10HAssets(m)
		case "happs":
			if !need("limit", "params") {
				return "bad-op"
			}
			return w.verifC10HApps(m)
		}
		return "bad-op"
	})
}

// verifC10HGenerate: seed → op lines. The candidate-F3 rows come first, always.
func verifC10HGenerate() []string {
	var ops []string
	box := func(cfgmax, limit, prefix string, values int, round string) string {
		return fmt.Sprintf("hboxes cfgmax=%s limit=%s prefix=%s values=%d round=%s", cfgmax, limit, prefix, values, round)
	}
	for _, c := range [][2]string{{"0", "-"}, {"100000", "-"}, {"0", "2"}} {
		ops = append(ops, box(c[0], c[1], "61", 0, "-"), box(c[0], c[1], "-", 1, "-"), box(c[0], c[1], "-", 0, "latest"))
	}
	r := vh.NewRng(vh.Seed())
	prefixes := []string{"61", "6162", "616263", "62", "ff", "6100", "63", "616264", "6161", "30", "746d70", "ffff", "00", "6263"}
	cfgs := []string{"0", "3", "100000"}
	n := vh.Budget(60, 600)
	for i := 0; i < n; i++ {
		switch k := r.Intn(4); {
		case k < 2:
			limit := "-"
			if !r.Chance(25) {
				limit = strconv.Itoa(1 + r.Intn(6))
			}
			prefix := "-"
			if !r.Chance(40) {
				if r.Chance(85) {
					prefix = prefixes[r.Intn(len(prefixes))]
				} else {
					prefix = hex.EncodeToString(r.Bytes(1 + r.Intn(2)))
				}
			}
			round := "-"
			if r.Chance(30) {
				round = "latest"
			}
			ops = append(ops, box(cfgs[r.Intn(len(cfgs))], limit, prefix, r.Intn(2), round))
		case k == 2:
			ops = append(ops, fmt.Sprintf("hassets limit=%d", 1+r.Intn(5)))
		default:
			ops = append(ops, fmt.Sprintf("happs limit=%d params=%d", 1+r.Intn(5), r.Intn(2)))
		}
	}
	return ops
}

func TestVerifC10H(t *testing.T) {
	// go test runs with cwd = the package directory inside /repo; never let a relative path reach it.
	t.Chdir(t.TempDir())
	ops, replay := vh.ReplayOps()
	if !replay {
		ops = verifC10HGenerate()
	}
	w := verifC10HBuild(t)
	defer w.l.Close()
	out := vh.Open("c10h")
	defer out.Close()
	kinds := map[string]int{}
	for _, op := range ops {
		out.Emit(op, w.verifC10HExec(op))
		kinds[strings.Fields(op + " x")[0]]++
	}
	t.Logf("c10h: %d ops %v trackerDB=%d latest=%d", out.N, kinds, w.l.LatestTrackerCommitted(), w.l.Latest())
}
