//go:build verif

package network

// C43 correspondence harness: the REAL LimitedReaderSlurper, messageFilter and wsPeer.readLoop driven by op lines.
//
// Op grammar (space separated):
//   consts                                   -> constants of the package the model hard-codes
//   smake <base> <max>                       -> new slurper (state line)
//   sreset <n>                               -> Reset(n) (state line)
//   sread <len> <seed> <script>              -> Read over a scripted io.Reader of <len> bytes; result + state line
//   fmake <buckets> <maxBucketSize>          -> new filter
//   fcheck <id> <add> <promote>              -> CheckDigest(digest(id), add, promote)
//   fmsg <taghex> <msghex> <add> <promote>   -> CheckIncomingMessage
//   rlnew <npeers> <buckets> <maxBucketSize> -> npeers real wsPeers (running readLoop) sharing one incoming filter (buckets=0: none)
//   rlmsg <peer> <taghex> <len> <seed> <script> -> one websocket message = tag ‖ body(len, seed), read through <script>
//   wsnew <npeers> <buckets> <maxBucketSize> <wbuf> -> like rlnew, but every peer sits on the server side of a REAL websocket
//                                               connection (loopback httptest server); the client writes with write-buffer
//                                               size <wbuf>, so messages arrive as many continuation frames; rlmsg scripts
//                                               are ignored for such peers (the chunking is whatever the websocket reader does)
// <script> = '-' or comma separated steps  c<n> | e<n> | f<n>  (see Model.Net.RStep); when exhausted the reader
// fills whatever it is offered, then returns 0, io.EOF.
import (
	"bytes"
	"encoding/binary"
	"encoding/hex"
	"errors"
	"fmt"
	"io"
	"net"
	"net/http"
	"net/http/httptest"
	"os"
	"path/filepath"
	"sort"
	"strconv"
	"strings"
	"testing"
	"time"

	"github.com/algorand/websocket"

	"github.com/algorand/go-algorand/config"
	"github.com/algorand/go-algorand/crypto"
	"github.com/algorand/go-algorand/logging"
	"github.com/algorand/go-algorand/protocol"
	"github.com/algorand/go-algorand/zz_verif_tools/vh"
)

// ---------------------------------------------------------------- scripted io.Reader

type verifC43Step struct {
	kind byte // 'c' chunk, 'e' chunkEof, 'f' fail
	n    uint64
}

type verifC43Reader struct {
	stream []byte
	script []verifC43Step
}

var errVerifC43Scripted = errors.New("verif scripted reader failure")

func (r *verifC43Reader) Read(p []byte) (int, error) {
	if len(r.script) == 0 {
		if len(r.stream) == 0 {
			return 0, io.EOF
		}
		n := copy(p, r.stream)
		r.stream = r.stream[n:]
		return n, nil
	}
	st := r.script[0]
	r.script = r.script[1:]
	m := uint64(len(p))
	if st.n < m {
		m = st.n
	}
	n := copy(p[:m], r.stream)
	r.stream = r.stream[n:]
	switch st.kind {
	case 'e':
		if len(r.stream) == 0 {
			return n, io.EOF
		}
		return n, nil
	case 'f':
		return n, errVerifC43Scripted
	}
	return n, nil
}

func verifC43ParseScript(s string) []verifC43Step {
	if s == "-" || s == "" {
		return nil
	}
	var out []verifC43Step
	for _, t := range strings.Split(s, ",") {
		out = append(out, verifC43Step{kind: t[0], n: vh.U(t[1:])})
	}
	return out
}

// body byte i of message (len, seed); the Lean driver computes the same bytes
func verifC43Body(n, seed uint64) []byte {
	b := make([]byte, n)
	for i := uint64(0); i < n; i++ {
		b[i] = byte(((seed + i) * 40503) >> 7)
	}
	return b
}

// ---------------------------------------------------------------- executor state

type verifC43Exec struct {
	// slurper
	s        *LimitedReaderSlurper
	maxAlloc uint64
	fresh    bool
	// filter
	f *messageFilter
	// read loop
	peers []*verifC43Peer
	rlbuf chan IncomingMessage
}

type verifC43Net struct {
	GossipNode
	closed chan disconnectReason
}

func (n *verifC43Net) peerRemoteClose(peer *wsPeer, reason disconnectReason) {
	select {
	case n.closed <- reason:
	default:
	}
}

type verifC43Conn struct {
	msgs  chan io.Reader
	ready chan struct{}
}

func (c *verifC43Conn) RemoteAddr() net.Addr     { return &net.TCPAddr{IP: net.IPv4(127, 0, 0, 1), Port: 1} }
func (c *verifC43Conn) RemoteAddrString() string { return "127.0.0.1:1" }
func (c *verifC43Conn) NextReader() (int, io.Reader, error) {
	c.ready <- struct{}{} // the previous message (if any) has been completely processed by readLoop
	r, ok := <-c.msgs
	if !ok {
		return 0, nil, &websocket.CloseError{Code: websocket.CloseNormalClosure}
	}
	return websocket.BinaryMessage, r, nil
}
func (c *verifC43Conn) WriteMessage(int, []byte) error           { return nil }
func (c *verifC43Conn) CloseWithMessage([]byte, time.Time) error { return nil }
func (c *verifC43Conn) SetReadLimit(int64)                       {}
func (c *verifC43Conn) CloseWithoutFlush() error                 { return nil }
func (c *verifC43Conn) UnderlyingConn() net.Conn                 { return nil }

type verifC43Peer struct {
	wp    *wsPeer
	net   *verifC43Net
	alive bool
	ready chan struct{}
	// send hands one message (stream = tag ‖ body) to the peer's connection
	send func(stream []byte, script []verifC43Step) error
	// hangup makes the connection fail / close from the remote side
	hangup func()
	cleanup func()
}

// verifC43WsConn is a REAL websocket connection (server side) whose NextReader additionally tells the harness that the
// previous message has been completely processed.
type verifC43WsConn struct {
	wsPeerWebsocketConnImpl
	ready chan struct{}
}

func (c *verifC43WsConn) NextReader() (int, io.Reader, error) {
	c.ready <- struct{}{}
	return c.wsPeerWebsocketConnImpl.NextReader()
}

func verifC43Log() logging.Logger {
	l := logging.NewLogger()
	l.SetOutput(io.Discard)
	return l
}

func (e *verifC43Exec) closePeers() {
	for _, p := range e.peers {
		if p.alive {
			p.hangup()
			select {
			case <-p.net.closed:
			case <-time.After(10 * time.Second):
			}
			p.alive = false
		}
		p.wp.CloseAndWait(time.Now().Add(time.Second))
		if p.cleanup != nil {
			p.cleanup()
		}
	}
	e.peers = nil
}

func (e *verifC43Exec) newPeers(np, nb, m int, wbuf int) string {
	e.closePeers()
	var flt *messageFilter
	if nb > 0 {
		flt = makeMessageFilter(nb, m)
	}
	e.rlbuf = make(chan IncomingMessage, 64)
	cfg := config.GetDefaultLocal()
	for i := 0; i < np; i++ {
		nt := &verifC43Net{closed: make(chan disconnectReason, 1)}
		p := &verifC43Peer{net: nt, alive: true}
		wp := &wsPeer{
			wsPeerCore:        wsPeerCore{net: nt, log: verifC43Log(), readBuffer: e.rlbuf, rootURL: fmt.Sprintf("verif-peer-%d", i)},
			incomingMsgFilter: flt,
		}
		if wbuf == 0 {
			conn := &verifC43Conn{msgs: make(chan io.Reader), ready: make(chan struct{})}
			wp.conn = conn
			p.ready = conn.ready
			p.send = func(stream []byte, script []verifC43Step) error {
				conn.msgs <- &verifC43Reader{stream: stream, script: script}
				return nil
			}
			p.hangup = func() { close(conn.msgs) }
		} else {
			srvConn := make(chan *websocket.Conn, 1)
			up := websocket.Upgrader{ReadBufferSize: 4096, WriteBufferSize: 4096}
			srv := httptest.NewServer(http.HandlerFunc(func(w http.ResponseWriter, r *http.Request) {
				c, err := up.Upgrade(w, r, nil)
				if err != nil {
					srvConn <- nil
					return
				}
				srvConn <- c
			}))
			d := websocket.Dialer{WriteBufferSize: wbuf, ReadBufferSize: 4096}
			client, _, err := d.Dial("ws"+strings.TrimPrefix(srv.URL, "http"), nil)
			if err != nil {
				srv.Close()
				return "dial-failed " + err.Error()
			}
			sc := <-srvConn
			if sc == nil {
				srv.Close()
				return "upgrade-failed"
			}
			conn := &verifC43WsConn{wsPeerWebsocketConnImpl: wsPeerWebsocketConnImpl{sc}, ready: make(chan struct{})}
			wp.conn = conn
			p.ready = conn.ready
			p.send = func(stream []byte, _ []verifC43Step) error {
				return client.WriteMessage(websocket.BinaryMessage, stream)
			}
			p.hangup = func() { client.Close() }
			p.cleanup = func() { client.Close(); srv.Close() }
		}
		p.wp = wp
		wp.init(cfg, 8)
		<-p.ready
		e.peers = append(e.peers, p)
	}
	return "ok"
}

func (e *verifC43Exec) slurperState() string {
	s := e.s
	var caps, lens []string
	for i := 0; i <= s.lastBuffer; i++ {
		caps = append(caps, fmt.Sprint(cap(s.buffers[i])))
		lens = append(lens, fmt.Sprint(len(s.buffers[i])))
	}
	return fmt.Sprintf("size=%d read=%d max=%d rem=%d alloc=%d slots=%d last=%d caps=%s lens=%s", s.Size(), s.currentMessageBytesRead,
		s.currentMessageMaxSize, s.remainedUnallocatedSpace, e.maxAlloc, len(s.buffers), s.lastBuffer, strings.Join(caps, "/"), strings.Join(lens, "/"))
}

func verifC43Digest(id uint64) (d crypto.Digest) {
	binary.BigEndian.PutUint64(d[:8], id)
	return
}

// filterState: the observable content of the filter, independent of how buckets are indexed: number of buckets in use is
// not shown, only which digests are currently held (ids ascending, then one 'h' per hashed message).
func (e *verifC43Exec) filterState() string {
	f := e.f
	var ids []uint64
	other, total := 0, 0
	for _, b := range f.buckets {
		for d := range b {
			total++
			if bytes.Equal(d[8:], make([]byte, len(d)-8)) {
				ids = append(ids, binary.BigEndian.Uint64(d[:8]))
			} else {
				other++
			}
		}
	}
	sort.Slice(ids, func(i, j int) bool { return ids[i] < ids[j] })
	var parts []string
	for _, id := range ids {
		parts = append(parts, fmt.Sprint(id))
	}
	for i := 0; i < other; i++ {
		parts = append(parts, "h")
	}
	return fmt.Sprintf("n=%d held=%s", total, strings.Join(parts, "."))
}

func (e *verifC43Exec) exec(op string) string {
	f := strings.Fields(op)
	return vh.Catch(func() string {
		switch f[0] {
		case "consts":
			return fmt.Sprintf("allocationStep=%d", allocationStep)
		case "smake":
			e.maxAlloc = vh.U(f[2])
			e.s = MakeLimitedReaderSlurper(vh.U(f[1]), e.maxAlloc)
			e.fresh = true
			return e.slurperState()
		case "sreset":
			e.s.Reset(vh.U(f[1]))
			e.fresh = true
			return e.slurperState()
		case "sread":
			stream := verifC43Body(vh.U(f[1]), vh.U(f[2]))
			rd := &verifC43Reader{stream: stream, script: verifC43ParseScript(f[3])}
			err := e.s.Read(rd)
			res := "ok"
			switch {
			case err == ErrIncomingMsgTooLarge:
				res = "toolarge"
			case err == errVerifC43Scripted:
				res = "ioerr"
			case err != nil:
				res = "err:" + err.Error()
			}
			got := e.s.Bytes()
			pfx := uint64(len(got)) == e.s.Size() && len(got) <= len(stream) && bytes.Equal(got, stream[:len(got)])
			fresh := e.fresh
			e.fresh = false
			return fmt.Sprintf("%s fresh=%s pfx=%s left=%d %s", res, vh.B(fresh), vh.B(pfx), len(rd.stream), e.slurperState())
		case "fmake":
			e.f = nil
			func() {
				defer func() { recover() }()
				e.f = makeMessageFilter(int(vh.U(f[1])), int(vh.U(f[2])))
			}()
			if e.f == nil {
				return "PANIC"
			}
			return e.filterState()
		case "fcheck":
			has := e.f.CheckDigest(verifC43Digest(vh.U(f[1])), f[2] == "true", f[3] == "true")
			return vh.B(has) + " " + e.filterState()
		case "fmsg":
			tag, _ := hex.DecodeString(f[1])
			msg, _ := hex.DecodeString(strings.TrimPrefix(f[2], "x"))
			has := e.f.CheckIncomingMessage(protocol.Tag(tag), msg, f[3] == "true", f[4] == "true")
			return vh.B(has) + " " + e.filterState()
		case "rlnew":
			return e.newPeers(int(vh.U(f[1])), int(vh.U(f[2])), int(vh.U(f[3])), 0)
		case "wsnew":
			return e.newPeers(int(vh.U(f[1])), int(vh.U(f[2])), int(vh.U(f[3])), int(vh.U(f[4])))
		case "rlmsg":
			p := e.peers[vh.U(f[1])]
			if !p.alive {
				return "closed"
			}
			tag, _ := hex.DecodeString(strings.TrimPrefix(f[2], "x"))
			body := verifC43Body(vh.U(f[3]), vh.U(f[4]))
			stream := append(append([]byte{}, tag...), body...)
			if err := p.send(stream, verifC43ParseScript(f[5])); err != nil {
				return "send-failed " + err.Error()
			}
			select {
			case <-p.ready:
			case <-p.net.closed:
				p.alive = false
			case <-time.After(60 * time.Second):
				return "TIMEOUT"
			}
			res := "dropped"
			if !p.alive {
				res = "closed"
			}
			n := 0
			for {
				select {
				case m := <-e.rlbuf:
					n++
					if m.processing != nil {
						m.processing <- struct{}{}
					}
					eq := len(tag) == 2 && bytes.Equal(m.Data, body) && m.Sender == DisconnectableAddressablePeer(p.wp)
					res = fmt.Sprintf("delivered tag=%s len=%d eq=%s lim=%d", hex.EncodeToString([]byte(m.Tag)), len(m.Data), vh.B(eq), m.Tag.MaxMessageSize())
					continue
				default:
				}
				break
			}
			if n > 1 {
				res = fmt.Sprintf("MULTI(%d) %s", n, res)
			}
			if !p.alive && n > 0 {
				res += " then-closed"
			}
			return res
		}
		return "bad-op"
	})
}

// ---------------------------------------------------------------- generators

func verifC43Script(rng *vh.Rng, streamLen, around uint64, allowFail bool) string {
	k := rng.Intn(9)
	if rng.Chance(25) {
		k = 0
	}
	var parts []string
	for i := 0; i < k; i++ {
		var n uint64
		switch rng.Intn(8) {
		case 0:
			n = 0
		case 1:
			n = 1
		case 2:
			n = 2
		case 3:
			n = uint64(rng.Intn(10))
		case 4:
			n = around + uint64(rng.Intn(5)) - 2
			if n > 1<<40 {
				n = 0
			}
		case 5:
			n = streamLen
		case 6:
			n = uint64(rng.Intn(int(streamLen/2 + 2)))
		default:
			n = 1 << 30
		}
		kind := "c"
		if rng.Chance(25) || (i == k-1 && rng.Chance(50)) {
			kind = "e"
		}
		if allowFail && rng.Chance(10) {
			kind = "f"
		}
		parts = append(parts, fmt.Sprintf("%s%d", kind, n))
	}
	if len(parts) == 0 {
		return "-"
	}
	return strings.Join(parts, ",")
}

func verifC43GenSlurper(rng *vh.Rng) []string {
	ops := []string{"consts"}
	step := uint64(allocationStep)
	// (a) small universes: base/max/limit/len all small, many chunkings (one extra buffer at most)
	n := vh.Budget(500, 120000)
	for i := 0; i < n; i++ {
		base := uint64(rng.Intn(12))
		max := uint64(rng.Intn(40))
		if rng.Chance(20) {
			base = uint64(rng.Intn(60))
		}
		ops = append(ops, fmt.Sprintf("smake %d %d", base, max))
		for j := 0; j < 1+rng.Intn(4); j++ {
			limit := uint64(rng.Intn(int(max) + 6))
			if rng.Chance(15) {
				limit = 0
			}
			l := uint64(rng.Intn(int(max) + 8))
			if rng.Chance(50) && limit > 0 {
				l = limit + uint64(rng.Intn(3)) - 1
			}
			if rng.Chance(85) {
				ops = append(ops, fmt.Sprintf("sreset %d", limit))
			}
			ops = append(ops, fmt.Sprintf("sread %d %d %s", l, rng.Intn(1000), verifC43Script(rng, l, base, rng.Chance(8))))
		}
	}
	// (b) several allocation steps: max - base spans 1..4 steps, sizes around the buffer boundaries
	n = vh.Budget(60, 20000)
	for i := 0; i < n; i++ {
		base := []uint64{0, 1, 100, 2048, step - 1, step, step + 1}[rng.Intn(7)]
		max := base + uint64(rng.Intn(4))*step + []uint64{0, 1, 2, step - 1, step / 2}[rng.Intn(5)]
		ops = append(ops, fmt.Sprintf("smake %d %d", base, max))
		for j := 0; j < 1+rng.Intn(3); j++ {
			var limit uint64
			switch rng.Intn(5) {
			case 0:
				limit = 0
			case 1:
				limit = max + uint64(rng.Intn(3)) - 1
			case 2:
				limit = base + uint64(rng.Intn(4))*step + uint64(rng.Intn(3)) - 1
			default:
				limit = uint64(rng.Intn(int(max) + 10))
			}
			if limit > 1<<40 {
				limit = 0
			}
			var l uint64
			eff := limit
			if eff == 0 || eff > max {
				eff = max
			}
			switch rng.Intn(4) {
			case 0:
				l = eff + uint64(rng.Intn(3))
				if l > 0 {
					l--
				}
			case 1:
				l = base + uint64(rng.Intn(4))*step + uint64(rng.Intn(3))
				if l > 0 {
					l--
				}
			default:
				l = uint64(rng.Intn(int(max) + 100))
			}
			ops = append(ops, fmt.Sprintf("sreset %d", limit))
			ops = append(ops, fmt.Sprintf("sread %d %d %s", l, rng.Intn(1000), verifC43Script(rng, l, []uint64{base, step, limit}[rng.Intn(3)], false)))
		}
	}
	// (c) the read loop's own slurper (averageMessageLength, MaxMessageLength) with every tag's limit
	ops = append(ops, fmt.Sprintf("smake %d %d", averageMessageLength, MaxMessageLength))
	for _, tag := range protocol.TagList {
		lim := tag.MaxMessageSize()
		sizes := []uint64{lim, lim + 1}
		if lim < 1<<20 || vh.Thorough() {
			sizes = append(sizes, lim-1, lim/2)
		} else if tag != protocol.TxnTag {
			sizes = []uint64{lim + 1} // quick tier: multi-megabyte streams are kept few (the model works on lists)
		}
		if lim == 0 { // a tag of TagList without a limit: nothing bounds it below maxAllocation
			sizes = []uint64{1, MaxMessageLength}
		}
		for _, l := range sizes {
			ops = append(ops, fmt.Sprintf("sreset %d", lim))
			ops = append(ops, fmt.Sprintf("sread %d %d %s", l, rng.Intn(1000), verifC43Script(rng, l, lim, false)))
		}
	}
	for _, l := range []uint64{MaxMessageLength, MaxMessageLength + 1} {
		ops = append(ops, "sreset 0")
		ops = append(ops, fmt.Sprintf("sread %d %d %s", l, rng.Intn(1000), verifC43Script(rng, l, 2048, false)))
	}
	return ops
}

func verifC43GenFilter(rng *vh.Rng) []string {
	var ops []string
	n := vh.Budget(150, 40000)
	for i := 0; i < n; i++ {
		nb := 1 + rng.Intn(5)
		m := 1 + rng.Intn(5)
		if rng.Chance(5) {
			nb = 0
		}
		if rng.Chance(5) {
			m = 0
		}
		ops = append(ops, fmt.Sprintf("fmake %d %d", nb, m))
		if nb == 0 {
			continue
		}
		universe := 2 + rng.Intn(nb*(m+1)*2)
		var recent []int
		useMsgs := rng.Chance(15)
		for j := 0; j < 10+rng.Intn(80); j++ {
			id := rng.Intn(universe)
			if len(recent) > 0 && rng.Chance(45) {
				id = recent[len(recent)-1-rng.Intn(min(len(recent), 1+rng.Intn(nb*(m+1))))]
			}
			recent = append(recent, id)
			add := !rng.Chance(15)
			promote := rng.Chance(60)
			if useMsgs {
				tag := []string{"TX", "AV", "PP"}[id%3]
				ops = append(ops, fmt.Sprintf("fmsg %s x%s %s %s", hex.EncodeToString([]byte(tag)), hex.EncodeToString(verifC43Body(uint64(id/3%4), uint64(id))), vh.B(add), vh.B(promote)))
			} else {
				ops = append(ops, fmt.Sprintf("fcheck %d %s %s", id, vh.B(add), vh.B(promote)))
			}
		}
	}
	// the default configuration of the incoming filter
	cfg := config.GetDefaultLocal()
	ops = append(ops, fmt.Sprintf("fmake %d %d", cfg.IncomingMessageFilterBucketCount, 8))
	return ops
}

func verifC43GenReadLoop(rng *vh.Rng) []string {
	var ops []string
	deliver := []protocol.Tag{protocol.TxnTag, protocol.AgreementVoteTag, protocol.ProposalPayloadTag, protocol.NetPrioResponseTag,
		protocol.StateProofSigTag, protocol.UniEnsBlockReqTag, protocol.VoteBundleTag, protocol.NetIDVerificationTag}
	hx := func(t protocol.Tag) string { return "x" + hex.EncodeToString([]byte(t)) }
	// (a) every tag of TagList at limit-1 / limit / limit+1 on a fresh peer each (a too-large message closes the peer)
	for _, tag := range protocol.TagList {
		if tag == protocol.MsgOfInterestTag || tag == protocol.TopicMsgRespTag {
			continue // within-limit MI is unmarshalled by the read loop (not modelled); TS closes: see (c)
		}
		lim := tag.MaxMessageSize()
		ops = append(ops, "rlnew 1 3 4")
		sizes := []uint64{lim, lim + 1}
		if lim < 1<<20 || vh.Thorough() {
			sizes = []uint64{lim - 1, lim, lim + 1}
		}
		if lim == 0 { // a tag of TagList without a limit: the read loop accepts anything up to MaxMessageLength
			sizes = []uint64{1, MaxMessageLength}
		}
		for _, l := range sizes {
			ops = append(ops, fmt.Sprintf("rlmsg 0 %s %d %d %s", hx(tag), l, rng.Intn(1000), verifC43Script(rng, l+2, lim, false)))
		}
	}
	// oversized MI and unknown/deprecated tags
	ops = append(ops, "rlnew 1 3 4")
	ops = append(ops, fmt.Sprintf("rlmsg 0 %s %d 1 -", hx(protocol.MsgOfInterestTag), protocol.MsgOfInterestTag.MaxMessageSize()+1))
	for _, t := range []string{"XX", "pi", "pj", "tx", "UC"} {
		ops = append(ops, "rlnew 1 3 4")
		ops = append(ops, fmt.Sprintf("rlmsg 0 %s %d 1 %s", hx(protocol.Tag(t)), 10+rng.Intn(100), verifC43Script(rng, 50, 2, false)))
		ops = append(ops, fmt.Sprintf("rlmsg 0 %s 3 1 -", hx(protocol.TxnTag)))
	}
	if vh.Thorough() {
		ops = append(ops, "rlnew 1 3 4")
		ops = append(ops, fmt.Sprintf("rlmsg 0 %s %d 1 -", hx("XX"), MaxMessageLength))
		ops = append(ops, fmt.Sprintf("rlmsg 0 %s %d 1 -", hx("XX"), MaxMessageLength+1))
	}
	// (b) random sessions: several peers sharing a small filter, small messages, duplicates across peers, random chunkings
	n := vh.Budget(60, 30000)
	for i := 0; i < n; i++ {
		np := 1 + rng.Intn(3)
		nb := 1 + rng.Intn(4)
		m := 1 + rng.Intn(4)
		if rng.Chance(10) {
			nb = 0
		}
		ops = append(ops, fmt.Sprintf("rlnew %d %d %d", np, nb, m))
		type msg struct {
			tag       string
			len, seed uint64
		}
		var sent []msg
		for j := 0; j < 8+rng.Intn(40); j++ {
			var mm msg
			if len(sent) > 0 && rng.Chance(45) {
				mm = sent[len(sent)-1-rng.Intn(min(len(sent), 1+rng.Intn((nb+1)*(m+1))))]
			} else {
				tag := deliver[rng.Intn(len(deliver))]
				if rng.Chance(50) {
					tag = deliver[rng.Intn(2)]
				}
				mm = msg{tag: hx(tag), len: uint64(rng.Intn(6)), seed: uint64(rng.Intn(6))}
				switch {
				case rng.Chance(6):
					mm.tag = hx(protocol.MsgDigestSkipTag)
					mm.len = []uint64{32, 5}[rng.Intn(2)]
				case rng.Chance(4):
					mm.tag = hx(protocol.VotePackedTag)
				case rng.Chance(4):
					mm.tag = hx("Zz")
				case rng.Chance(2):
					mm.tag = hx(protocol.TopicMsgRespTag)
				case rng.Chance(2):
					mm.tag = []string{"x", "x54"}[rng.Intn(2)] // truncated tag
					mm.len = 0
				case rng.Chance(3):
					mm.len = tag.MaxMessageSize() + 1
					if mm.len > 10000 {
						mm.len = protocol.UniEnsBlockReqTag.MaxMessageSize() + 1
						mm.tag = hx(protocol.UniEnsBlockReqTag)
					}
				}
			}
			sent = append(sent, mm)
			ops = append(ops, fmt.Sprintf("rlmsg %d %s %d %d %s", rng.Intn(np), mm.tag, mm.len, mm.seed, verifC43Script(rng, mm.len+2, 2, rng.Chance(2))))
		}
	}
	// (c) the same read loop behind a REAL websocket connection: frames as produced by the websocket writer with a small
	//     write buffer (many continuation frames per message); every tag around its limit, duplicates across peers
	wbufs := []int{16, 64, 1024, 4096, 65536}
	for _, tag := range protocol.TagList {
		if tag == protocol.MsgOfInterestTag || tag == protocol.TopicMsgRespTag {
			continue
		}
		lim := tag.MaxMessageSize()
		wb := wbufs[rng.Intn(len(wbufs))]
		if lim > 1<<20 {
			if !vh.Thorough() && tag != protocol.TxnTag {
				continue
			}
			wb = 65536
		}
		ops = append(ops, fmt.Sprintf("wsnew 1 3 4 %d", wb))
		sizes := []uint64{lim - 1, lim, lim + 1}
		if lim == 0 {
			sizes = []uint64{1, MaxMessageLength}
		}
		for _, l := range sizes {
			ops = append(ops, fmt.Sprintf("rlmsg 0 %s %d %d -", hx(tag), l, rng.Intn(1000)))
		}
	}
	n = vh.Budget(8, 300)
	for i := 0; i < n; i++ {
		np := 1 + rng.Intn(3)
		nb := 1 + rng.Intn(4)
		m := 1 + rng.Intn(4)
		ops = append(ops, fmt.Sprintf("wsnew %d %d %d %d", np, nb, m, wbufs[rng.Intn(3)]))
		type msg struct {
			tag       string
			len, seed uint64
		}
		var sent []msg
		for j := 0; j < 8+rng.Intn(30); j++ {
			var mm msg
			if len(sent) > 0 && rng.Chance(45) {
				mm = sent[len(sent)-1-rng.Intn(min(len(sent), 1+rng.Intn((nb+1)*(m+1))))]
			} else {
				tag := deliver[rng.Intn(len(deliver))]
				if rng.Chance(50) {
					tag = deliver[rng.Intn(2)]
				}
				mm = msg{tag: hx(tag), len: uint64(rng.Intn(200)), seed: uint64(rng.Intn(4))}
				switch {
				case rng.Chance(4):
					mm.tag = hx("Zz")
				case rng.Chance(2):
					mm.tag = []string{"x", "x54"}[rng.Intn(2)]
					mm.len = 0
				case rng.Chance(3):
					mm.tag = hx(protocol.UniEnsBlockReqTag)
					mm.len = protocol.UniEnsBlockReqTag.MaxMessageSize() + uint64(rng.Intn(2))
				}
			}
			sent = append(sent, mm)
			ops = append(ops, fmt.Sprintf("rlmsg %d %s %d %d -", rng.Intn(np), mm.tag, mm.len, mm.seed))
		}
	}
	ops = append(ops, "rlnew 0 0 0")
	return ops
}

func verifC43Generate() []string {
	rng := vh.NewRng(vh.Seed())
	var ops []string
	ops = append(ops, verifC43GenSlurper(rng)...)
	ops = append(ops, verifC43GenFilter(rng)...)
	ops = append(ops, verifC43GenReadLoop(rng)...)
	return ops
}

func TestVerifC43(t *testing.T) {
	ops, replay := vh.ReplayOps()
	if !replay {
		ops = verifC43Generate()
	}
	out := vh.Open("c43")
	defer out.Close()
	e := &verifC43Exec{}
	defer e.closePeers()
	for _, op := range ops {
		out.Emit(op, e.exec(op))
	}
}

// TestVerifC43Tags is the fact extractor (tie F): protocol.TagList with MaxMessageSize(), the deprecated tags, the
// switch of readLoop evaluated per tag is NOT extracted (it is exercised by rlmsg); constants of the read loop.
func TestVerifC43Tags(t *testing.T) {
	var b strings.Builder
	b.WriteString("/- GENERATED by harness/network/zz_verif_c43_test.go:TestVerifC43Tags from protocol/tags.go and network/wsPeer.go. Do not edit. -/\n")
	b.WriteString("namespace Gen.Tags\n\n")
	b.WriteString("/-- protocol.TagList with Tag.MaxMessageSize() -/\ndef tagList : List (String × Nat) := [\n")
	for i, tag := range protocol.TagList {
		sep := ","
		if i == len(protocol.TagList)-1 {
			sep = ""
		}
		fmt.Fprintf(&b, "  (%s, %d)%s\n", strconv.Quote(string(tag)), tag.MaxMessageSize(), sep)
	}
	b.WriteString("]\n\n/-- protocol.DeprecatedTagList with Tag.MaxMessageSize() -/\ndef deprecatedTagList : List (String × Nat) := [")
	for i, tag := range protocol.DeprecatedTagList {
		if i > 0 {
			b.WriteString(", ")
		}
		fmt.Fprintf(&b, "(%s, %d)", strconv.Quote(string(tag)), tag.MaxMessageSize())
	}
	b.WriteString("]\n\n")
	fmt.Fprintf(&b, "/-- network.MaxMessageLength -/\ndef maxMessageLength : Nat := %d\n", MaxMessageLength)
	fmt.Fprintf(&b, "/-- network.averageMessageLength -/\ndef averageMessageLength : Nat := %d\n", averageMessageLength)
	fmt.Fprintf(&b, "/-- network.allocationStep -/\ndef allocationStep : Nat := %d\n", allocationStep)
	fmt.Fprintf(&b, "/-- protocol.TagLength -/\ndef tagLength : Nat := %d\n", protocol.TagLength)
	var ds []string
	for _, tag := range protocol.TagList {
		if dedupSafeTag(tag) {
			ds = append(ds, strconv.Quote(string(tag)))
		}
	}
	fmt.Fprintf(&b, "/-- tags of TagList for which network.dedupSafeTag holds -/\ndef dedupSafeTags : List String := [%s]\n", strings.Join(ds, ", "))
	b.WriteString("\nend Gen.Tags\n")
	dir := os.Getenv("VERIF_OUT")
	if dir == "" {
		dir = os.TempDir()
	}
	if err := os.WriteFile(filepath.Join(dir, "Tags.lean"), []byte(b.String()), 0o644); err != nil {
		t.Fatal(err)
	}
}
