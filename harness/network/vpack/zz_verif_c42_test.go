//go:build verif

package vpack

// C42 correspondence harness: the real StatelessEncoder/Decoder and StatefulEncoder/Decoder.
//
// Op grammar (space separated; <hex> = lower-case hex, "-" = empty; a trailing "d" asks for table digests):
//   reset <tableSize>            new StatefulEncoder + StatefulDecoder            -> ok | err
//   vote <msgpack hex> [d]       CompressVote, Compress, Decompress, DecompressVote
//        -> sl-err | sl=<hex> c-err <kind> | sl=<hex> vp=<hex> d-err <kind> |
//           sl=<hex> vp=<hex> rt=<bool> (mp=<bool>|sd-err) sync=<bool>   [e=<fnv> d=<fnv>]
//   mvote <msgpack hex> [d]      the same on a vote whose msgpack is decodable but not canonical (non-minimal integer width)
//   svote <stateless hex> [c] [d] same, starting from stateless-compressed bytes ("c": generator claims canonical)
//        -> c-err <kind> | vp=<hex> d-err <kind> | vp=<hex> rt=<bool> (sd=<hex>|sd-err) sync=<bool>
//   enc <hex> [d]                encoder only                                      -> ok <hex> | err <kind>
//   dec <hex> [d]                decoder only                                      -> ok <hex> | err <kind>
//   slc <msgpack hex>            CompressVote (+ DecompressVote of the result)     -> ok <hex> rt=<bool|err> | err
//   slcm <hex>                   the same on mutated / non-canonical msgpack
//   sld <hex>                    DecompressVote only                               -> ok <hex> | err
// $VERIF_C42_CORPUS: directory of *.ops files executed before the generated ops.
import (
	"bytes"
	"encoding/binary"
	"encoding/hex"
	"fmt"
	"os"
	"path/filepath"
	"reflect"
	"slices"
	"sort"
	"strings"
	"testing"

	"github.com/algorand/go-algorand/agreement"
	"github.com/algorand/go-algorand/protocol"
	"github.com/algorand/go-algorand/zz_verif_tools/vh"
)

// ---------------------------------------------------------------- executor (real code)

type verifC42State struct {
	enc *StatefulEncoder
	dec *StatefulDecoder
}

func verifC42Hex(b []byte) string {
	if len(b) == 0 {
		return "-"
	}
	return hex.EncodeToString(b)
}
func verifC42Unhex(s string) []byte {
	if s == "-" {
		return nil
	}
	b, err := hex.DecodeString(s)
	if err != nil {
		panic("bad hex")
	}
	return b
}

func verifC42ErrKind(err error) string {
	m := err.Error()
	switch {
	case m == "src too short" || m == "input shorter than header":
		return "short"
	case strings.HasPrefix(m, "truncated"):
		return "trunc"
	case strings.HasPrefix(m, "invalid"):
		return "marker"
	case strings.HasPrefix(m, "bad proposal ref"):
		return "propref"
	case strings.HasPrefix(m, "bad sender ref"):
		return "sndref"
	case strings.HasPrefix(m, "bad pk ref"):
		return "pkref"
	case strings.HasPrefix(m, "bad pk2 ref"):
		return "pk2ref"
	case strings.HasPrefix(m, "round overflow"):
		return "overflow"
	case strings.HasPrefix(m, "round underflow"):
		return "underflow"
	case strings.HasPrefix(m, "length mismatch"):
		return "length"
	}
	return "other(" + m + ")"
}

func verifC42DumpTable[K comparable](buf *bytes.Buffer, t *lruTable[K], raw func(*bytes.Buffer, *K)) {
	var nb [4]byte
	binary.BigEndian.PutUint32(nb[:], uint32(t.numBuckets))
	buf.Write(nb[:])
	for i := range t.buckets {
		raw(buf, &t.buckets[i].slots[0])
		raw(buf, &t.buckets[i].slots[1])
	}
	buf.Write(t.mru)
}

// verifC42Dump is the canonical dump of all unexported state of a dynamicTableState.
func verifC42Dump(s *dynamicTableState) []byte {
	var buf bytes.Buffer
	verifC42DumpTable(&buf, s.sndTable, func(b *bytes.Buffer, k *addressValue) { b.Write(k[:]) })
	pkraw := func(b *bytes.Buffer, k *pkSigPair) { b.Write(k.pk[:]); b.Write(k.sig[:]) }
	verifC42DumpTable(&buf, s.pkTable, pkraw)
	verifC42DumpTable(&buf, s.pk2Table, pkraw)
	for i := range s.proposalWindow.entries {
		e := &s.proposalWindow.entries[i]
		buf.Write(e.dig[:])
		buf.Write(e.encdig[:])
		buf.Write(e.oprop[:])
		buf.Write(e.operEnc[:])
		buf.WriteByte(e.operLen)
		buf.WriteByte(e.mask)
	}
	buf.WriteByte(byte(s.proposalWindow.head))
	buf.WriteByte(byte(s.proposalWindow.size))
	var r [8]byte
	binary.BigEndian.PutUint64(r[:], s.lastRnd)
	buf.Write(r[:])
	return buf.Bytes()
}

func verifC42TableEq[K comparable](a, b *lruTable[K]) bool {
	return a.numBuckets == b.numBuckets && slices.Equal(a.buckets, b.buckets) && bytes.Equal(a.mru, b.mru)
}

// verifC42Equal: every unexported field of the two dynamicTableStates is equal.
func verifC42Equal(a, b *dynamicTableState) bool {
	return verifC42TableEq(a.sndTable, b.sndTable) && verifC42TableEq(a.pkTable, b.pkTable) && verifC42TableEq(a.pk2Table, b.pk2Table) &&
		a.proposalWindow == b.proposalWindow && a.lastRnd == b.lastRnd
}

func verifC42Fnv(b []byte) uint64 {
	h := uint64(14695981039346656037)
	for _, c := range b {
		h = (h ^ uint64(c)) * 1099511628211
	}
	return h
}

func (s *verifC42State) digests(want bool) string {
	if !want {
		return ""
	}
	return fmt.Sprintf(" e=%d d=%d", verifC42Fnv(verifC42Dump(&s.enc.dynamicTableState)), verifC42Fnv(verifC42Dump(&s.dec.dynamicTableState)))
}

func (s *verifC42State) stateful(want bool, sl []byte, orig []byte) string {
	vp, err := s.enc.Compress(nil, sl)
	if err != nil {
		return "c-err " + verifC42ErrKind(err) + s.digests(want)
	}
	vp = append([]byte{}, vp...)
	out, err := s.dec.Decompress(nil, vp)
	if err != nil {
		return "vp=" + verifC42Hex(vp) + " d-err " + verifC42ErrKind(err) + s.digests(want)
	}
	var last string
	mp, err := NewStatelessDecoder().DecompressVote(nil, out)
	switch {
	case err != nil:
		last = "sd-err"
	case orig != nil:
		last = "mp=" + vh.B(bytes.Equal(mp, orig))
	default:
		last = "sd=" + verifC42Hex(mp)
	}
	sync := verifC42Equal(&s.enc.dynamicTableState, &s.dec.dynamicTableState)
	return fmt.Sprintf("vp=%s rt=%s %s sync=%s", verifC42Hex(vp), vh.B(bytes.Equal(out, sl)), last, vh.B(sync)) + s.digests(want)
}

func (s *verifC42State) exec(op string) string {
	f := strings.Fields(op)
	return vh.Catch(func() string {
		if len(f) < 2 {
			return "bad-op"
		}
		want := false
		for _, x := range f[2:] {
			if x == "d" {
				want = true
			}
		}
		switch f[0] {
		case "reset":
			s.enc, s.dec = nil, nil
			n := vh.U(f[1])
			e, err := NewStatefulEncoder(uint(n))
			if err != nil {
				return "err"
			}
			d, err := NewStatefulDecoder(uint(n))
			if err != nil {
				return "err"
			}
			s.enc, s.dec = e, d
			return "ok"
		case "slc", "slcm":
			mp := verifC42Unhex(f[1])
			b, err := NewStatelessEncoder().CompressVote(nil, mp)
			if err != nil {
				return "err"
			}
			b = append([]byte{}, b...)
			rt := "err"
			if back, err := NewStatelessDecoder().DecompressVote(nil, b); err == nil {
				rt = vh.B(bytes.Equal(back, mp))
			}
			return "ok " + verifC42Hex(b) + " rt=" + rt
		case "sld":
			b, err := NewStatelessDecoder().DecompressVote(nil, verifC42Unhex(f[1]))
			if err != nil {
				return "err"
			}
			return "ok " + verifC42Hex(b)
		}
		if s.enc == nil {
			return "nostate"
		}
		switch f[0] {
		case "vote", "mvote":
			mp := verifC42Unhex(f[1])
			sl, err := NewStatelessEncoder().CompressVote(nil, mp)
			if err != nil {
				return "sl-err"
			}
			sl = append([]byte{}, sl...)
			return "sl=" + verifC42Hex(sl) + " " + s.stateful(want, sl, mp)
		case "svote":
			return s.stateful(want, verifC42Unhex(f[1]), nil)
		case "enc":
			o, err := s.enc.Compress(nil, verifC42Unhex(f[1]))
			if err != nil {
				return "err " + verifC42ErrKind(err) + s.digests(want)
			}
			return "ok " + verifC42Hex(o) + s.digests(want)
		case "dec":
			o, err := s.dec.Decompress(nil, verifC42Unhex(f[1]))
			if err != nil {
				return "err " + verifC42ErrKind(err) + s.digests(want)
			}
			return "ok " + verifC42Hex(o) + s.digests(want)
		}
		return "bad-op"
	})
}

// ---------------------------------------------------------------- generator

type verifC42Vote struct {
	snd, oprop, dig, encdig, p, p2 [32]byte
	pf                             [80]byte
	p1s, p2s, s                    [64]byte
	rnd, per, step, oper           uint64
}

func verifC42SetUint(ptr interface{}, name string, v uint64) {
	reflect.ValueOf(ptr).Elem().FieldByName(name).SetUint(v)
}

// msgpack builds the canonical encoding through the repo's own types and encoder.
func (v *verifC42Vote) msgpack() []byte {
	var u agreement.UnauthenticatedVote
	u.R.Sender = v.snd
	verifC42SetUint(&u.R, "Round", v.rnd)
	verifC42SetUint(&u.R, "Period", v.per)
	verifC42SetUint(&u.R, "Step", v.step)
	verifC42SetUint(&u.R.Proposal, "OriginalPeriod", v.oper)
	u.R.Proposal.OriginalProposer = v.oprop
	u.R.Proposal.BlockDigest = v.dig
	u.R.Proposal.EncodingDigest = v.encdig
	u.Cred.Proof = v.pf
	u.Sig.PK = v.p
	u.Sig.PK1Sig = v.p1s
	u.Sig.PK2 = v.p2
	u.Sig.PK2Sig = v.p2s
	u.Sig.Sig = v.s
	return protocol.EncodeMsgp(&u)
}

func verifC42Varuint(v uint64, canonical bool, rng *vh.Rng) []byte {
	w := 0 // minimal width class
	switch {
	case v <= 127:
		w = 0
	case v <= 0xff:
		w = 1
	case v <= 0xffff:
		w = 2
	case v <= 0xffffffff:
		w = 3
	default:
		w = 4
	}
	if !canonical && w < 4 {
		w += 1 + rng.Intn(4-w)
	}
	switch w {
	case 0:
		return []byte{byte(v)}
	case 1:
		return []byte{0xcc, byte(v)}
	case 2:
		return binary.BigEndian.AppendUint16([]byte{0xcd}, uint16(v))
	case 3:
		return binary.BigEndian.AppendUint32([]byte{0xce}, uint32(v))
	}
	return binary.BigEndian.AppendUint64([]byte{0xcf}, v)
}

// stateless serialises the vote directly in StatelessEncoder layout. mask: which optional fields to include
// (independent of their value, so zero-valued fields and the all-zero keys of an empty LRU slot are reachable).
func (v *verifC42Vote) stateless(mask byte, hdr1 byte, canonRnd bool, rng *vh.Rng) []byte {
	b := []byte{mask, hdr1}
	b = append(b, v.pf[:]...)
	if mask&bitPer != 0 {
		b = append(b, verifC42Varuint(v.per, true, rng)...)
	}
	if mask&bitDig != 0 {
		b = append(b, v.dig[:]...)
	}
	if mask&bitEncDig != 0 {
		b = append(b, v.encdig[:]...)
	}
	if mask&bitOper != 0 {
		b = append(b, verifC42Varuint(v.oper, rng.Chance(80), rng)...)
	}
	if mask&bitOprop != 0 {
		b = append(b, v.oprop[:]...)
	}
	b = append(b, verifC42Varuint(v.rnd, canonRnd, rng)...)
	b = append(b, v.snd[:]...)
	if mask&bitStep != 0 {
		b = append(b, verifC42Varuint(v.step, true, rng)...)
	}
	b = append(b, v.p[:]...)
	b = append(b, v.p1s[:]...)
	b = append(b, v.p2[:]...)
	b = append(b, v.p2s[:]...)
	b = append(b, v.s[:]...)
	return b
}

type verifC42Gen struct {
	rng      *vh.Rng
	ops      []string
	shadow   verifC42State // private instance following the emitted ops, used to craft near-valid frames
	size     int
	noShadow bool
	n        int // votes in this case

	senders [][32]byte
	pks     [][96]byte
	pk2s    [][96]byte
	props   []verifC42Vote // only the proposal fields are used
	rnd     uint64
}

func (g *verifC42Gen) emit(op string) string {
	g.ops = append(g.ops, op)
	if g.noShadow && !strings.HasPrefix(op, "reset") {
		return ""
	}
	return g.shadow.exec(op)
}

func (g *verifC42Gen) rnd32() (a [32]byte) { copy(a[:], g.rng.Bytes(32)); return }

// an address whose hash lands in one of two fixed buckets (forces evictions and MRU flips in big tables)
func (g *verifC42Gen) collidingAddr() [32]byte {
	a := g.rnd32()
	av := addressValue(a)
	target := uint64(g.rng.Intn(2) * 5)
	diff := (av.hash() ^ target) & 0xffff
	a[0] ^= byte(diff)
	a[1] ^= byte(diff >> 8)
	return a
}

func (g *verifC42Gen) collidingPk() (k [96]byte) {
	copy(k[:], g.rng.Bytes(96))
	var p pkSigPair
	copy(p.pk[:], k[:32])
	copy(p.sig[:], k[32:])
	target := uint64(g.rng.Intn(2) * 3)
	diff := (p.hash() ^ target) & 0xffff
	k[0] ^= byte(diff)
	k[1] ^= byte(diff >> 8)
	return
}

func (g *verifC42Gen) startCase(size int) {
	g.size = size
	g.n = 0
	g.emit(fmt.Sprintf("reset %d", size))
	r := g.rng
	ns := 1 + r.Intn(3)
	if r.Chance(60) {
		ns = 2 + r.Intn(size/2+6)
	}
	g.senders, g.pks, g.pk2s, g.props = nil, nil, nil, nil
	for i := 0; i < ns; i++ {
		if r.Chance(35) {
			g.senders = append(g.senders, g.collidingAddr())
		} else {
			g.senders = append(g.senders, g.rnd32())
		}
	}
	for i := 0; i < ns+r.Intn(4); i++ {
		var k [96]byte
		if r.Chance(35) {
			k = g.collidingPk()
		} else {
			copy(k[:], r.Bytes(96))
		}
		g.pks = append(g.pks, k)
		if r.Chance(35) {
			k = g.collidingPk()
		} else {
			copy(k[:], r.Bytes(96))
		}
		g.pk2s = append(g.pk2s, k)
	}
	np := 1 + r.Intn(3)
	if r.Chance(30) {
		np = 6 + r.Intn(6) // more than the window holds
	}
	for i := 0; i < np; i++ {
		var p verifC42Vote
		if r.Chance(85) {
			p.dig = g.rnd32()
		}
		if r.Chance(85) {
			p.encdig = g.rnd32()
		}
		if r.Chance(85) {
			p.oprop = g.rnd32()
		}
		if r.Chance(50) {
			p.oper = r.Biased64()
		}
		g.props = append(g.props, p)
	}
	g.props = append(g.props, verifC42Vote{}) // bottom
	bd := []uint64{1, 2, 126, 127, 128, 129, 254, 255, 256, 257, 65534, 65535, 65536, 1<<32 - 2, 1<<32 - 1, 1 << 32, 1<<64 - 3, 1<<64 - 2, 1<<64 - 1}
	if r.Chance(50) {
		g.rnd = bd[r.Intn(len(bd))]
	} else {
		g.rnd = r.Biased64()
	}
}

func (g *verifC42Gen) nextVote() verifC42Vote {
	r := g.rng
	var v verifC42Vote
	i := r.Intn(len(g.senders))
	v.snd = g.senders[i]
	// mostly the sender's own key bundles, sometimes another sender's / a fresh one
	pi, p2i := i%len(g.pks), i%len(g.pk2s)
	if r.Chance(15) {
		pi = r.Intn(len(g.pks))
	}
	if r.Chance(15) {
		p2i = r.Intn(len(g.pk2s))
	}
	copy(v.p[:], g.pks[pi][:32])
	copy(v.p1s[:], g.pks[pi][32:])
	copy(v.p2[:], g.pk2s[p2i][:32])
	copy(v.p2s[:], g.pk2s[p2i][32:])
	if r.Chance(5) {
		copy(v.p1s[:], r.Bytes(64)) // same key, new signature: a different table entry
	}
	copy(v.pf[:], r.Bytes(80))
	copy(v.s[:], r.Bytes(64))
	var p verifC42Vote
	if r.Chance(70) {
		p = g.props[0]
	} else {
		p = g.props[r.Intn(len(g.props))]
	}
	v.dig, v.encdig, v.oprop, v.oper = p.dig, p.encdig, p.oprop, p.oper
	switch r.Intn(10) {
	case 0, 1, 2, 3, 4: // same round
	case 5, 6:
		g.rnd++
	case 7:
		g.rnd--
	case 8:
		g.rnd += uint64(2 + r.Intn(3))
	case 9:
		g.rnd = r.Biased64()
	}
	v.rnd = g.rnd
	switch r.Intn(4) {
	case 0:
		v.per = 0
	case 1:
		v.per = uint64(r.Intn(3))
	case 2:
		v.per = r.Biased64()
	case 3:
		v.per = uint64(120 + r.Intn(20))
	}
	if r.Chance(80) {
		v.step = uint64(r.Intn(4))
	} else {
		v.step = r.Biased64()
	}
	return v
}

func (g *verifC42Gen) dflag() string {
	g.n++
	if g.size <= 32 || g.n%4 == 0 {
		return " d"
	}
	return ""
}

func (g *verifC42Gen) maskOf(v *verifC42Vote) byte {
	var z [32]byte
	var m byte
	if v.per != 0 {
		m |= bitPer
	}
	if v.dig != z {
		m |= bitDig
	}
	if v.encdig != z {
		m |= bitEncDig
	}
	if v.oper != 0 {
		m |= bitOper
	}
	if v.oprop != z {
		m |= bitOprop
	}
	if v.step != 0 {
		m |= bitStep
	}
	return m
}

// malformed: frames derived from a frame the real encoder just produced (encoder-only op), then fed to the decoder.
func (g *verifC42Gen) malformed() {
	r := g.rng
	v := g.nextVote()
	sl := v.stateless(g.maskOf(&v), 0, true, r)
	res := g.emit("enc " + verifC42Hex(sl) + g.dflag())
	f := strings.Fields(res)
	if len(f) < 2 || f[0] != "ok" {
		return
	}
	frame := verifC42Unhex(f[1])
	m := append([]byte{}, frame...)
	switch r.Intn(12) {
	case 0: // every-prefix truncation would be long: a random prefix
		m = m[:r.Intn(len(m))]
	case 1:
		m = m[:len(m)-1-r.Intn(3)]
	case 2:
		m = append(m, r.Bytes(1+r.Intn(3))...)
	case 3: // table reference bits set on literals
		m[1] |= []byte{hdr1SndRef, hdr1PkRef, hdr1Pk2Ref}[r.Intn(3)]
	case 4: // proposal reference possibly beyond the window
		m[1] = m[1]&^hdr1PropMask | byte(1+r.Intn(7))<<hdr1PropShift
	case 5: // round delta code replaced
		m[1] = m[1]&^hdr1RndMask | byte(r.Intn(4))
	case 6: // unknown / flipped stateless header bits
		m[0] ^= 1 << uint(r.Intn(8))
	case 7: // out-of-range table reference: all three by reference with huge ids
		m = append([]byte{frame[0], hdr1SndRef | hdr1PkRef | hdr1Pk2Ref | hdr1RndDeltaSame | 1<<hdr1PropShift}, frame[2:82]...)
		for i := 0; i < 3; i++ {
			id := uint16(r.Intn(4 * g.size))
			if r.Chance(30) {
				id = uint16(g.size - 1 + r.Intn(3))
			}
			m = binary.BigEndian.AppendUint16(m, id)
		}
		m = append(m, frame[len(frame)-64:]...)
		m[0] &^= bitPer | bitStep
	case 8:
		m[r.Intn(len(m))] ^= byte(1 + r.Intn(255))
	case 9: // invalid varuint marker somewhere early
		if len(m) > 84 {
			m[82+r.Intn(2)] = byte(0xc0 + r.Intn(0x40))
		}
	case 10:
		m = m[:r.Intn(3)]
	case 11:
		m[1] = byte(r.U64())
	}
	g.emit("dec " + verifC42Hex(m) + " d")
	// what a torn connection would never see: keep going a little to show nothing crashes
	for i := 0; i < r.Intn(3); i++ {
		v := g.nextVote()
		g.emit("vote " + verifC42Hex(v.msgpack()) + g.dflag())
	}
}

func verifC42Generate() []string {
	g := &verifC42Gen{rng: vh.NewRng(vh.Seed())}
	r := g.rng
	sizes := []int{16, 32, 512, 1024}
	// 1. table sizes accepted / rejected by newLRUTable
	for _, n := range []int{0, 1, 8, 15, 16, 17, 24, 31, 32, 48, 64, 2048, 4096, 65536, 131072} {
		g.emit(fmt.Sprintf("reset %d", n))
		v := verifC42Vote{rnd: 1}
		v.snd[0], v.pf[0], v.s[0] = 1, 1, 1
		g.emit("vote " + verifC42Hex(v.msgpack()) + " d")
	}
	// 2. pure vote sequences (the monitored stream)
	cases := vh.Budget(48, 800)
	g.noShadow = true
	for c := 0; c < cases; c++ {
		size := sizes[c%len(sizes)]
		if r.Chance(6) {
			size = []int{64, 128, 256, 2048}[r.Intn(4)]
		}
		g.startCase(size)
		n := 20 + r.Intn(100)
		if r.Chance(20) {
			n = 150 + r.Intn(250)
		}
		for i := 0; i < n; i++ {
			v := g.nextVote()
			if r.Chance(90) {
				g.emit("vote " + verifC42Hex(v.msgpack()) + g.dflag())
				continue
			}
			// direct stateless input: zero-valued fields present, all-zero keys (hit an empty LRU slot),
			// non-canonical round encodings, a non-zero second header byte
			mask := g.maskOf(&v)
			if r.Chance(40) {
				mask = byte(r.U64()) & 0x3f
			}
			if r.Chance(25) {
				v.snd = [32]byte{}
			}
			if r.Chance(15) {
				v.p, v.p1s = [32]byte{}, [64]byte{}
			}
			if r.Chance(15) {
				v.p2, v.p2s = [32]byte{}, [64]byte{}
			}
			canon := r.Chance(70)
			hdr1 := byte(0)
			if !canon && r.Chance(40) {
				hdr1 = byte(r.U64())
			}
			sl := v.stateless(mask, hdr1, canon || hdr1 != 0, r)
			tag := ""
			if canon {
				tag = " c"
			}
			g.emit("svote " + verifC42Hex(sl) + tag + g.dflag())
		}
	}
	// 2b. decodable but non-canonical votes through the whole pipeline: non-minimal integer widths
	for c := 0; c < vh.Budget(6, 200); c++ {
		g.startCase(sizes[c%len(sizes)])
		for i := 0; i < 30+r.Intn(30); i++ {
			v := g.nextVote()
			mp := v.msgpack()
			if r.Chance(30) {
				if w, ok := verifC42Widen(mp, []string{msgpFixstrRnd, msgpFixstrPer, msgpFixstrStep, msgpFixstrOper}[r.Intn(4)], r); ok {
					g.emit("mvote " + verifC42Hex(w) + g.dflag())
					continue
				}
			}
			g.emit("vote " + verifC42Hex(mp) + g.dflag())
		}
	}
	g.noShadow = false
	// 3. malformed frames
	mal := vh.Budget(600, 15000)
	for c := 0; c < mal; c++ {
		g.startCase(sizes[r.Intn(2)])
		if r.Chance(30) {
			g.size = 512
			g.emit("reset 512")
		}
		for i := 0; i < r.Intn(12); i++ {
			v := g.nextVote()
			g.emit("vote " + verifC42Hex(v.msgpack()) + g.dflag())
		}
		g.malformed()
	}
	// every strict prefix and a one-byte extension of one valid frame, each against a fresh decoder
	{
		g.startCase(16)
		v := g.nextVote()
		res := g.shadow.exec("enc " + verifC42Hex(v.stateless(g.maskOf(&v), 0, true, r)))
		frame := verifC42Unhex(strings.Fields(res)[1])
		for i := 0; i <= len(frame)+1; i++ {
			g.emit("reset 16")
			m := append(append([]byte{}, frame...), 0)[:i]
			g.emit("dec " + verifC42Hex(m) + " d")
		}
	}
	// delta codes at the ends of the round range
	for _, rr := range []uint64{0, 1, 1<<64 - 1, 1<<64 - 2} {
		for code := 0; code < 4; code++ {
			g.startCase(16)
			v := g.nextVote()
			v.rnd = rr
			g.emit("svote " + verifC42Hex(v.stateless(g.maskOf(&v), 0, true, r)) + " c d")
			v2 := g.nextVote()
			v2.rnd = rr
			res := g.emit("enc " + verifC42Hex(v2.stateless(g.maskOf(&v2), 0, true, r)))
			if f := strings.Fields(res); len(f) >= 2 && f[0] == "ok" {
				m := verifC42Unhex(f[1])
				m[1] = m[1]&^hdr1RndMask | byte(code)
				g.emit("dec " + verifC42Hex(m) + " d")
			}
		}
	}
	// 4. stateless layer alone: valid votes, mutated msgpack, mutated stateless bytes
	sl := vh.Budget(1500, 60000)
	g.startCase(16)
	for c := 0; c < sl; c++ {
		v := g.nextVote()
		if r.Chance(10) {
			v.pf = [80]byte{}
		}
		if r.Chance(10) {
			v.p, v.p1s, v.p2, v.p2s, v.s = [32]byte{}, [64]byte{}, [32]byte{}, [64]byte{}, [64]byte{}
		}
		if r.Chance(10) {
			v.snd = [32]byte{}
		}
		if r.Chance(5) {
			v.rnd = 0
		}
		mp := v.msgpack()
		kind := "slcm "
		switch r.Intn(6) {
		case 0, 1:
			kind = "slc "
		case 2:
			mp = mp[:r.Intn(len(mp)+1)]
		case 3:
			mp = append([]byte{}, mp...)
			mp[r.Intn(len(mp))] ^= byte(1 + r.Intn(255))
		case 4:
			mp = append(append([]byte{}, mp...), r.Bytes(1+r.Intn(2))...)
		case 5: // permuted / duplicated keys of r: reorder the encoded (key,value) items
			if r.Chance(35) {
				mp = verifC42PermuteProp(mp, r)
			} else {
				mp = verifC42PermuteR(mp, r)
			}
		}
		g.ops = append(g.ops, kind+verifC42Hex(mp))
		b := v.stateless(byte(r.U64()), byte(r.Intn(2))*byte(r.U64()), r.Chance(80), r)
		switch r.Intn(5) {
		case 0:
			b = b[:r.Intn(len(b)+1)]
		case 1:
			b[r.Intn(len(b))] ^= byte(1 + r.Intn(255))
		case 2:
			b = append(b, r.Bytes(1+r.Intn(2))...)
		}
		g.ops = append(g.ops, "sld "+verifC42Hex(b))
	}
	return g.ops
}

// verifC42Widen re-encodes the unsigned integer stored under `key` in a wider msgpack format (same value).
func verifC42Widen(mp []byte, key string, r *vh.Rng) ([]byte, bool) {
	i := bytes.Index(mp, []byte(key))
	if i < 0 {
		return nil, false
	}
	j := i + len(key)
	more, err := msgpVaruintRemaining(mp[j])
	if err != nil || more == 8 {
		return nil, false
	}
	var val uint64
	if more == 0 {
		val = uint64(mp[j])
	} else {
		for _, b := range mp[j+1 : j+1+more] {
			val = val<<8 | uint64(b)
		}
	}
	enc := verifC42Varuint(val, false, r)
	out := append([]byte{}, mp[:j]...)
	out = append(out, enc...)
	return append(out, mp[j+1+more:]...), true
}

// verifC42PermuteR swaps two adjacent items of the canonical `r` map (or duplicates one): still well-formed
// msgpack for a decoder that accepts keys in any order.
// verifC42PermuteProp swaps (or duplicates) the adjacent dig / encdig items inside the `prop` map.
func verifC42PermuteProp(mp []byte, r *vh.Rng) []byte {
	dk := []byte(msgpFixstrDig + msgpBin8Len32)
	ek := []byte(msgpFixstrEncdig + msgpBin8Len32)
	i := bytes.Index(mp, dk)
	if i < 0 || i+len(dk)+32+len(ek)+32 > len(mp) || !bytes.HasPrefix(mp[i+len(dk)+32:], ek) {
		return verifC42PermuteR(mp, r)
	}
	dEnd := i + len(dk) + 32
	eEnd := dEnd + len(ek) + 32
	out := append([]byte{}, mp[:i]...)
	if r.Chance(75) {
		out = append(out, mp[dEnd:eEnd]...)
		out = append(out, mp[i:dEnd]...)
	} else { // dig twice: same length only if we drop encdig, so the map count stays right
		out = append(out, mp[i:dEnd]...)
		out = append(out, mp[i:dEnd]...)
	}
	return append(out, mp[eEnd:]...)
}

func verifC42PermuteR(mp []byte, r *vh.Rng) []byte {
	i := bytes.Index(mp, []byte(msgpFixstrR))
	if i < 0 || i+2 >= len(mp) {
		return mp
	}
	start := i + len(msgpFixstrR) + 1
	cnt := int(mp[start-1] & 0x0f)
	end := bytes.Index(mp, []byte(msgpFixstrSig+"\x86"))
	if end < 0 || cnt < 2 {
		return mp
	}
	// item boundaries: every item starts with a fixstr key; find them by the known key order
	keys := []string{msgpFixstrPer, msgpFixstrProp, msgpFixstrRnd, msgpFixstrSnd, msgpFixstrStep}
	var cuts []int
	pos := start
	for _, k := range keys {
		if bytes.HasPrefix(mp[pos:end], []byte(k)) {
			cuts = append(cuts, pos)
			// skip to the next key in order
			nxt := end
			for _, k2 := range keys {
				if j := bytes.Index(mp[pos+len(k):end], []byte(k2)); j >= 0 && k2 > k && pos+len(k)+j < nxt {
					nxt = pos + len(k) + j
				}
			}
			pos = nxt
		}
	}
	if len(cuts) != cnt {
		return mp
	}
	cuts = append(cuts, end)
	a := r.Intn(cnt - 1)
	out := append([]byte{}, mp[:cuts[a]]...)
	if r.Chance(80) {
		out = append(out, mp[cuts[a+1]:cuts[a+2]]...)
		out = append(out, mp[cuts[a]:cuts[a+1]]...)
	} else { // duplicate item a, drop item a+1 (count unchanged)
		out = append(out, mp[cuts[a]:cuts[a+1]]...)
		out = append(out, mp[cuts[a]:cuts[a+1]]...)
	}
	out = append(out, mp[cuts[a+2]:]...)
	return out
}

func TestVerifC42(t *testing.T) {
	ops, replay := vh.ReplayOps()
	if !replay {
		if dir := os.Getenv("VERIF_C42_CORPUS"); dir != "" {
			files, _ := filepath.Glob(filepath.Join(dir, "*.ops"))
			sort.Strings(files)
			for _, fn := range files {
				b, err := os.ReadFile(fn)
				if err != nil {
					t.Fatal(err)
				}
				for _, l := range strings.Split(string(b), "\n") {
					if strings.TrimSpace(l) != "" {
						ops = append(ops, l)
					}
				}
			}
		}
		ops = append(ops, verifC42Generate()...)
	}
	out := vh.Open("c42")
	defer out.Close()
	var s verifC42State
	for _, op := range ops {
		out.Emit(op, s.exec(op))
	}
}
