//go:build verif

package catchup

// C30 trace harness: the REAL Service.pipelinedFetch / fetchAndWrite / innerFetch / universalBlockFetcher /
// processBlockBytes / peer selector run against
//   * scripted adversarial peers (network.UnicastPeer): the i-th request for round r is answered by the i-th entry of
//     the round's script (right pair, tampered payset, fork block, mismatched certificate, pair of another round,
//     garbage, error, "no block") after a scripted latency;
//   * a recording ledger (AddBlock / AddValidatedBlock / EnsureBlock, Wait / WaitMem channels);
//   * an authenticator that is a predicate the harness controls (mirrors Certificate.claimsToAuthenticate + "the
//     certified header digest of round r is digest(G_r)");
//   * optionally an "agreement" goroutine adding blocks to the ledger concurrently (x=<round>).
// Every observation is appended to ONE global event trace per case (under a mutex, at the moment the mock is entered /
// before it returns, so the trace order respects causality):
//   fetch r | retry r                         first / later request for round r reached a peer
//   fetched r b c br cr cm au [hm]            peer answered with block b (round br) and cert c (round cr);
//                                             cm = oracle "payset matches header", au = oracle "cert authenticates block"
//   fetcherr r kind                           peer answered with an error / undecodable bytes / the request was cancelled
//   contents r b v                            block.ContentsMatchHeader() was evaluated in fetchAndWrite (hook in the overlay
//                                             copy of service.go generated from the CURRENT file by checks/C30.py), verdict v
//   auth r b c v                              BlockAuthenticator.Authenticate(b, c) was called, verdict v
//   wrote r b c cm au                         AddBlock/AddValidatedBlock/EnsureBlock(b, c) called by the service (cm/au recomputed
//                                             by the ledger from the values it received); `dup` when the ledger already had r
//   done r                                    the ledger notified the waiters of round r
//   ext r                                     the "agreement" goroutine appended round r
//
// Op grammar:   case base=<ledger round at start> n=<rounds on the network> lb=<seedLookback> par=<CatchupParallelBlocks>
//                    mode=<CatchupBlockValidateMode> peers=<p> ss=<schedule seed> [x=<r>[,<r>…]] <r>=<kind>.<delay>[,<kind>.<delay>…] …
// the last script entry of a round is sticky.  Result line:  exit=<class> writes=<n> last=<round> | ev ; ev ; …
//
//               cert base=<ledger round> peers=<p> ss=<seed> <base+1>=<script>
// runs the REAL Service.fetchRound (the syncCert path: the agreement service holds a valid certificate for round base+1
// but not the block) against the same peers; the write is EnsureBlock(block, agreement's certificate).  No model for
// this path: the python monitor alone checks that only a block with the certified digest and a matching payset is written.

import (
	"context"
	"encoding/binary"
	"errors"
	"fmt"
	"go/ast"
	"go/parser"
	"go/token"
	"io"
	"os"
	"path/filepath"
	"reflect"
	"runtime"
	"sort"
	"strconv"
	"strings"
	"sync"
	"testing"
	"time"

	"github.com/algorand/go-algorand/agreement"
	"github.com/algorand/go-algorand/components/mocks"
	"github.com/algorand/go-algorand/config"
	"github.com/algorand/go-algorand/crypto"
	"github.com/algorand/go-algorand/data/basics"
	"github.com/algorand/go-algorand/data/bookkeeping"
	"github.com/algorand/go-algorand/data/committee"
	"github.com/algorand/go-algorand/data/transactions"
	"github.com/algorand/go-algorand/ledger/ledgercore"
	"github.com/algorand/go-algorand/logging"
	"github.com/algorand/go-algorand/network"
	"github.com/algorand/go-algorand/protocol"
	"github.com/algorand/go-algorand/rpcs"
	"github.com/algorand/go-algorand/util/execpool"
	"github.com/algorand/go-algorand/zz_verif_tools/vh"
)

// ---------------------------------------------------------------------------------------------- in-function hook
// The overlay copy of service.go (see checks/C30.py) replaces `if !block.ContentsMatchHeader() {` in fetchAndWrite by
// `if !verifC30Contents(r, block, cert, block.ContentsMatchHeader()) {`.  Without the patch nothing calls this.
var verifC30ContentsHook func(r basics.Round, blk *bookkeeping.Block, cert *agreement.Certificate, ok bool)

func verifC30Contents(r basics.Round, blk *bookkeeping.Block, cert *agreement.Certificate, ok bool) bool {
	if h := verifC30ContentsHook; h != nil {
		h(r, blk, cert, ok)
	}
	return ok
}

// ---------------------------------------------------------------------------------------------- trace
type verifC30Trace struct {
	mu sync.Mutex
	ev []string
}

func (t *verifC30Trace) add(format string, a ...any) {
	t.mu.Lock()
	t.ev = append(t.ev, fmt.Sprintf(format, a...))
	t.mu.Unlock()
}

func verifC30B(b bool) string {
	if b {
		return "1"
	}
	return "0"
}

func verifC30V(b bool) string {
	if b {
		return "ok"
	}
	return "bad"
}

// ---------------------------------------------------------------------------------------------- the world of one case
type verifC30Resp struct {
	kind  string
	delay int
}

type verifC30World struct {
	tr       *verifC30Trace
	base     basics.Round
	n        int
	ss       uint64
	script   map[basics.Round][]verifC30Resp
	good     map[basics.Round]bookkeeping.Block
	fork     map[basics.Round]bookkeeping.Block
	tamp     map[basics.Round][]bookkeeping.Block
	goodDig  map[basics.Round]crypto.Digest // certified header digest of round r
	genuine  map[basics.Round]crypto.Digest // hash of the encoding of the genuine certificate of round r
	blkID    map[crypto.Digest]string       // hash of the full block encoding -> id
	blkCM    map[string]bool                // id -> oracle "contents match header" (by construction)
	certID   map[crypto.Digest]string
	certMode bool
	reqMu    sync.Mutex
	reqs     map[basics.Round]int
}

// a case normally takes a few milliseconds; a case that does not return within the watchdog is reported as HANG
const verifC30Watchdog = 15 * time.Second

var verifC30GenesisHash = crypto.Hash([]byte("verif-c30-genesis"))

const verifC30GenesisID = "verif-c30"

func verifC30Addr(x uint64) (a basics.Address) {
	binary.BigEndian.PutUint64(a[0:8], x)
	a[31] = 1
	return
}

func verifC30Txn(r basics.Round, i int, amount uint64) transactions.SignedTxn {
	var st transactions.SignedTxn
	st.Txn.Type = protocol.PaymentTx
	st.Txn.Sender = verifC30Addr(uint64(r)*16 + uint64(i) + 1)
	st.Txn.Fee = basics.MicroAlgos{Raw: 1000}
	if r > 2 {
		st.Txn.FirstValid = r - 2
	}
	st.Txn.LastValid = r + 100
	st.Txn.GenesisID = verifC30GenesisID
	st.Txn.GenesisHash = verifC30GenesisHash
	st.Txn.Receiver = verifC30Addr(7777)
	st.Txn.Amount = basics.MicroAlgos{Raw: amount}
	st.Sig[0] = byte(i + 1)
	return st
}

func (w *verifC30World) mkBlock(r basics.Round, stamp int64, txns []transactions.SignedTxn, commitFrom []transactions.SignedTxn) bookkeeping.Block {
	var blk bookkeeping.Block
	blk.BlockHeader.Round = r
	blk.CurrentProtocol = protocol.ConsensusCurrentVersion
	blk.BlockHeader.GenesisID = verifC30GenesisID
	blk.BlockHeader.GenesisHash = verifC30GenesisHash
	blk.TimeStamp = stamp
	enc := func(ts []transactions.SignedTxn) transactions.Payset {
		var ps transactions.Payset
		for _, st := range ts {
			stib, err := blk.BlockHeader.EncodeSignedTxn(st, transactions.ApplyData{})
			if err != nil {
				panic(err)
			}
			ps = append(ps, stib)
		}
		return ps
	}
	blk.Payset = enc(commitFrom)
	tc, err := blk.PaysetCommit()
	if err != nil {
		panic(err)
	}
	blk.TxnCommitments = tc
	blk.Payset = enc(txns)
	return blk
}

func (w *verifC30World) regBlock(id string, blk bookkeeping.Block, cm bool) {
	w.blkID[crypto.Hash(protocol.Encode(&blk))] = id
	w.blkCM[id] = cm
	// the oracle is "by construction"; cross-check it against the real predicate once, so that a harness bug
	// (or a broken ContentsMatchHeader) is loud instead of silently weakening the generator
	if blk.ContentsMatchHeader() != cm {
		w.tr.add("oracle-mismatch %s cm=%s", id, verifC30B(cm))
	}
}

func (w *verifC30World) mkCert(r basics.Round, dig crypto.Digest) agreement.Certificate {
	var c agreement.Certificate
	c.Round = r
	c.Step = 2
	c.Proposal.BlockDigest = dig
	return c
}

// setVotes fills cert.Votes (the element type is unexported in package agreement) with n votes whose senders are
// derived from (round, salt).  A certificate is GENUINE for round r iff it is byte-identical to mkGenuine(r): the votes
// stand for "the signatures that agreement / the BlockAuthenticator verified".
func verifC30SetVotes(c *agreement.Certificate, n int, salt byte) {
	votes := reflect.ValueOf(c).Elem().FieldByName("Votes")
	votes.Set(reflect.MakeSlice(votes.Type(), n, n))
	for i := 0; i < n; i++ {
		a := verifC30Addr(uint64(c.Round)*64 + uint64(i) + 1)
		a[30] = salt
		votes.Index(i).FieldByName("Sender").Set(reflect.ValueOf(a))
	}
}

// mkGenuine: the certificate the network agreed on for round r (certified digest, 3 votes).
func (w *verifC30World) mkGenuine(r basics.Round) agreement.Certificate {
	c := w.mkCert(r, w.goodDig[r])
	verifC30SetVotes(&c, 3, 0)
	return c
}

func (w *verifC30World) regCert(id string, c agreement.Certificate) {
	w.certID[crypto.Hash(protocol.Encode(&c))] = id
}

func (w *verifC30World) build() {
	rng := vh.NewRng(w.ss ^ 0xc30)
	lo := w.base
	if lo > 0 {
		lo--
	}
	for r := lo; r <= w.base+basics.Round(w.n)+2; r++ {
		nt := 1 + rng.Intn(3)
		var txns []transactions.SignedTxn
		for i := 0; i < nt; i++ {
			txns = append(txns, verifC30Txn(r, i, uint64(1000+rng.Intn(100000))))
		}
		g := w.mkBlock(r, int64(r)*10, txns, txns)
		w.good[r] = g
		w.goodDig[r] = g.Digest()
		w.regBlock(fmt.Sprintf("G%d", r), g, true)
		f := w.mkBlock(r, int64(r)*10+1, txns, txns) // a different header with a consistent payset: not certified
		w.fork[r] = f
		w.regBlock(fmt.Sprintf("F%d", r), f, true)
		// tampered paysets under the GOOD header (same Digest(), so the certificate still "authenticates" them)
		var ts [][]transactions.SignedTxn
		ts = append(ts, txns[:len(txns)-1]) // drop the last txn
		alt := append([]transactions.SignedTxn{}, txns...)
		alt[0] = verifC30Txn(r, 0, txns[0].Txn.Amount.Raw+1) // amount changed
		ts = append(ts, alt)
		ts = append(ts, append(append([]transactions.SignedTxn{}, txns...), verifC30Txn(r, 9, 5))) // extra txn
		if len(txns) > 1 {
			sw := append([]transactions.SignedTxn{}, txns...)
			sw[0], sw[1] = sw[1], sw[0]
			ts = append(ts, sw)
		}
		for j, tx := range ts {
			tb := w.mkBlock(r, int64(r)*10, tx, txns)
			if tb.Digest() != g.Digest() {
				panic("tampered block must keep the header")
			}
			w.tamp[r] = append(w.tamp[r], tb)
			w.regBlock(fmt.Sprintf("T%d.%d", r, j), tb, false)
		}
		w.regCert(fmt.Sprintf("C%d", r), w.mkGenuine(r))
		w.genuine[r] = crypto.Hash(protocol.Encode(ptrC30(w.mkGenuine(r))))
		w.regCert(fmt.Sprintf("CX%d", r), w.mkCert(r, g.Digest())) // forged: same Round and Proposal, no votes
		cv := w.mkCert(r, g.Digest())
		verifC30SetVotes(&cv, 3, 9)
		w.regCert(fmt.Sprintf("CV%d", r), cv) // forged: same Round and Proposal, votes nobody cast
		w.regCert(fmt.Sprintf("CF%d", r), w.mkCert(r, f.Digest()))
		w.regCert(fmt.Sprintf("CZ%d", r), w.mkCert(r, crypto.Digest{}))
		w.regCert(fmt.Sprintf("CN%d", r), w.mkCert(r+1, g.Digest())) // right digest, certificate of another round
		if r > 0 {
			w.regCert(fmt.Sprintf("CP%d", r), w.mkCert(r-1, g.Digest()))
		}
	}
}

func (w *verifC30World) idOfBlock(b *bookkeeping.Block) string {
	if id, ok := w.blkID[crypto.Hash(protocol.Encode(b))]; ok {
		return id
	}
	return "B?"
}

func (w *verifC30World) idOfCert(c *agreement.Certificate) string {
	if id, ok := w.certID[crypto.Hash(protocol.Encode(c))]; ok {
		return id
	}
	return "C?"
}

// oracleAuth is the predicate that replaces the real BlockAuthenticator: Certificate.claimsToAuthenticate plus
// "the votes certify digest(G_r)".  Like the real one it looks at the header only.
func (w *verifC30World) oracleAuth(b *bookkeeping.Block, c *agreement.Certificate) bool {
	d, ok := w.goodDig[b.Round()]
	return ok && c.Round == b.Round() && c.Proposal.BlockDigest == b.Digest() && b.Digest() == d &&
		crypto.Hash(protocol.Encode(c)) == w.genuine[b.Round()] // the votes are the ones that were cast
}

func ptrC30[T any](v T) *T { return &v }

func (w *verifC30World) oracleCM(b *bookkeeping.Block) bool {
	return w.blkCM[w.idOfBlock(b)] // unknown id -> false
}

// deterministic small delay for site `site` of (round, k)
func (w *verifC30World) jitter(site uint64, r basics.Round, k int) {
	x := vh.NewRng(w.ss*1000003 + site*7919 + uint64(r)*131 + uint64(k)).U64()
	switch x % 8 {
	case 0:
		time.Sleep(time.Duration(50+(x>>8)%300) * time.Microsecond)
	case 1, 2:
		runtime.Gosched()
	}
}

// ---------------------------------------------------------------------------------------------- peers
type verifC30Peer struct {
	w    *verifC30World
	name string
}

func (p *verifC30Peer) GetAddress() string { return p.name }
func (p *verifC30Peer) Respond(ctx context.Context, reqMsg network.IncomingMessage, outMsg network.OutgoingMessage) error {
	return nil
}

func (p *verifC30Peer) Request(ctx context.Context, tag protocol.Tag, topics network.Topics) (*network.Response, error) {
	w := p.w
	rb, found := topics.GetValue(rpcs.RoundKey)
	if !found {
		return nil, errors.New("verif: no round in request")
	}
	ru, _ := binary.Uvarint(rb)
	r := basics.Round(ru)
	w.reqMu.Lock()
	i := w.reqs[r]
	w.reqs[r] = i + 1
	if i == 0 {
		w.tr.add("fetch %d", r)
	} else {
		w.tr.add("retry %d", r)
	}
	w.reqMu.Unlock()
	resp := verifC30Resp{kind: "noblock"}
	if sc := w.script[r]; len(sc) > 0 && r > w.base && r <= w.base+basics.Round(w.n) {
		if i < len(sc) {
			resp = sc[i]
		} else {
			resp = sc[len(sc)-1]
			resp.delay = 0
		}
	}
	if resp.delay > 0 {
		select {
		case <-ctx.Done():
			w.tr.add("fetcherr %d cancelled", r)
			return nil, ctx.Err()
		case <-time.After(time.Duration(resp.delay) * 150 * time.Microsecond):
		}
	}
	pair := func(b bookkeeping.Block, c agreement.Certificate) (*network.Response, error) {
		hm := ""
		if w.certMode { // syncCert cases: does the block hash to the digest of the certificate agreement holds?
			hm = " " + verifC30B(b.Digest() == w.goodDig[r])
		}
		w.tr.add("fetched %d %s %s %d %d %s %s%s", r, w.idOfBlock(&b), w.idOfCert(&c), b.Round(), c.Round, verifC30B(w.oracleCM(&b)), verifC30B(w.oracleAuth(&b, &c)), hm)
		return &network.Response{Topics: network.Topics{
			network.MakeTopic(rpcs.BlockDataKey, protocol.Encode(&b)),
			network.MakeTopic(rpcs.CertDataKey, protocol.Encode(&c))}}, nil
	}
	fail := func(kind string, resp *network.Response, err error) (*network.Response, error) {
		w.tr.add("fetcherr %d %s", r, kind)
		return resp, err
	}
	G, F := w.good[r], w.fork[r]
	C, CF, CZ := w.mkGenuine(r), w.mkCert(r, F.Digest()), w.mkCert(r, crypto.Digest{})
	kind, arg := resp.kind, 0
	if j := strings.IndexByte(kind, ':'); j >= 0 {
		arg, _ = strconv.Atoi(kind[j+1:])
		kind = kind[:j]
	}
	switch kind {
	case "good":
		return pair(G, C)
	case "tampered":
		return pair(w.tamp[r][arg%len(w.tamp[r])], C)
	case "badcert":
		return pair(G, CF)
	case "zerocert":
		return pair(G, CZ)
	case "forged": // the right block with a certificate that only CLAIMS the same round and proposal
		return pair(G, w.mkCert(r, G.Digest()))
	case "forgedvotes":
		cv := w.mkCert(r, G.Digest())
		verifC30SetVotes(&cv, 3, 9)
		return pair(G, cv)
	case "fork":
		return pair(F, CF)
	case "forkgood":
		return pair(F, C)
	case "tampfork":
		return pair(w.tamp[r][arg%len(w.tamp[r])], CF)
	case "prevblk":
		return pair(w.good[r-1], w.mkGenuine(r-1))
	case "nextblk":
		return pair(w.good[r+1], w.mkGenuine(r+1))
	case "nextcert":
		return pair(G, w.mkCert(r+1, G.Digest()))
	case "prevcert":
		return pair(G, w.mkCert(r-1, G.Digest()))
	case "garbage":
		return fail("garbage", &network.Response{Topics: network.Topics{
			network.MakeTopic(rpcs.BlockDataKey, []byte{0xc1, 0xff, 0x00}),
			network.MakeTopic(rpcs.CertDataKey, []byte{0x80})}}, nil)
	case "nodata":
		return fail("nodata", &network.Response{Topics: network.Topics{network.MakeTopic(rpcs.CertDataKey, protocol.Encode(&C))}}, nil)
	case "errmsg":
		return fail("errmsg", &network.Response{Topics: network.Topics{network.MakeTopic(network.ErrorKey, []byte("verif: go away"))}}, nil)
	case "neterr":
		return fail("neterr", nil, errors.New("verif: connection reset"))
	}
	latest := make([]byte, 8)
	binary.BigEndian.PutUint64(latest, uint64(w.base)+uint64(w.n))
	return fail("noblock", &network.Response{Topics: network.Topics{
		network.MakeTopic(network.ErrorKey, []byte("no block")),
		network.MakeTopic(rpcs.LatestRoundKey, latest)}}, nil)
}

type verifC30Net struct {
	mocks.MockNetwork
	peers []network.Peer
}

func (n *verifC30Net) GetPeers(options ...network.PeerOption) []network.Peer { return n.peers }

// ---------------------------------------------------------------------------------------------- authenticator
type verifC30Auth struct {
	w  *verifC30World
	mu sync.Mutex
	k  map[basics.Round]int
}

func (a *verifC30Auth) Authenticate(blk *bookkeeping.Block, cert *agreement.Certificate) error {
	w := a.w
	r := blk.Round()
	a.mu.Lock()
	k := a.k[r]
	a.k[r] = k + 1
	a.mu.Unlock()
	w.jitter(1, r, k)
	ok := w.oracleAuth(blk, cert)
	w.tr.add("auth %d %s %s %s", r, w.idOfBlock(blk), w.idOfCert(cert), verifC30V(ok))
	if !ok {
		return errors.New("verif: certificate does not authenticate the block")
	}
	return nil
}
func (a *verifC30Auth) Quit() {}

// ---------------------------------------------------------------------------------------------- ledger
type verifC30Ledger struct {
	w      *verifC30World
	mu     sync.Mutex
	last   basics.Round
	hdrs   map[basics.Round]bookkeeping.Block
	chans  map[basics.Round]chan struct{}
	writes int
}

func (l *verifC30Ledger) NextRound() basics.Round { return l.LastRound() + 1 }
func (l *verifC30Ledger) LastRound() basics.Round {
	l.mu.Lock()
	defer l.mu.Unlock()
	return l.last
}

// add is every write entry point.  external = the "agreement" goroutine.
func (l *verifC30Ledger) add(blk bookkeeping.Block, cert agreement.Certificate, external bool) error {
	w := l.w
	r := blk.Round()
	if !external {
		w.jitter(2, r, 0)
	}
	l.mu.Lock()
	defer l.mu.Unlock()
	if external {
		if r != l.last+1 {
			return nil
		}
		w.tr.add("ext %d", r)
	} else {
		l.writes++
		args := fmt.Sprintf("%d %s %s %s %s", r, w.idOfBlock(&blk), w.idOfCert(&cert), verifC30B(w.oracleCM(&blk)), verifC30B(w.oracleAuth(&blk, &cert)))
		if r <= l.last {
			w.tr.add("dup %s", args)
			return ledgercore.BlockInLedgerError{LastRound: r, NextRound: l.last + 1}
		}
		w.tr.add("wrote %s", args)
		if r > l.last+1 {
			return ledgercore.ErrNonSequentialBlockEval{EvaluatorRound: r, LatestRound: l.last}
		}
	}
	l.last = r
	l.hdrs[r] = blk
	w.tr.add("done %d", r)
	for cr, ch := range l.chans {
		if cr <= r {
			close(ch)
			delete(l.chans, cr)
		}
	}
	return nil
}

func (l *verifC30Ledger) AddBlock(blk bookkeeping.Block, cert agreement.Certificate) error {
	return l.add(blk, cert, false)
}
func (l *verifC30Ledger) EnsureBlock(blk *bookkeeping.Block, cert agreement.Certificate) {
	_ = l.add(*blk, cert, false)
}
func (l *verifC30Ledger) Validate(ctx context.Context, blk bookkeeping.Block, executionPool execpool.BacklogPool) (*ledgercore.ValidatedBlock, error) {
	l.mu.Lock()
	last := l.last
	l.mu.Unlock()
	if blk.Round() != last+1 {
		return nil, ledgercore.ErrNonSequentialBlockEval{EvaluatorRound: blk.Round(), LatestRound: last}
	}
	vb := ledgercore.MakeValidatedBlock(blk, ledgercore.StateDelta{})
	return &vb, nil
}
func (l *verifC30Ledger) AddValidatedBlock(vb ledgercore.ValidatedBlock, cert agreement.Certificate) error {
	return l.add(vb.Block(), cert, false)
}
func (l *verifC30Ledger) Wait(r basics.Round) chan struct{} {
	l.mu.Lock()
	defer l.mu.Unlock()
	if l.last >= r {
		ch := make(chan struct{})
		close(ch)
		return ch
	}
	if _, ok := l.chans[r]; !ok {
		l.chans[r] = make(chan struct{})
	}
	return l.chans[r]
}
func (l *verifC30Ledger) WaitMem(r basics.Round) chan struct{} { return l.Wait(r) }
func (l *verifC30Ledger) Block(r basics.Round) (bookkeeping.Block, error) {
	l.mu.Lock()
	defer l.mu.Unlock()
	b, ok := l.hdrs[r]
	if !ok {
		return bookkeeping.Block{}, ledgercore.ErrNoEntry{Round: r, Latest: l.last, Committed: l.last}
	}
	return b, nil
}
func (l *verifC30Ledger) BlockHdr(r basics.Round) (bookkeeping.BlockHeader, error) {
	b, err := l.Block(r)
	return b.BlockHeader, err
}
func (l *verifC30Ledger) ConsensusParams(r basics.Round) (config.ConsensusParams, error) {
	return config.Consensus[protocol.ConsensusCurrentVersion], nil
}
func (l *verifC30Ledger) ConsensusVersion(basics.Round) (protocol.ConsensusVersion, error) {
	return protocol.ConsensusCurrentVersion, nil
}
func (l *verifC30Ledger) IsWritingCatchpointDataFile() bool { return false }
func (l *verifC30Ledger) IsBehindCommittingDeltas() bool    { return false }
func (l *verifC30Ledger) Seed(basics.Round) (committee.Seed, error) {
	return committee.Seed{}, errors.New("verif: not needed")
}
func (l *verifC30Ledger) Lookup(basics.Round, basics.Address) (basics.AccountData, error) {
	return basics.AccountData{}, errors.New("verif: not needed")
}
func (l *verifC30Ledger) Circulation(basics.Round, basics.Round) (basics.MicroAlgos, error) {
	return basics.MicroAlgos{}, errors.New("verif: not needed")
}
func (l *verifC30Ledger) LookupDigest(basics.Round) (crypto.Digest, error) {
	return crypto.Digest{}, errors.New("verif: not needed")
}
func (l *verifC30Ledger) LookupAgreement(basics.Round, basics.Address) (basics.OnlineAccountData, error) {
	return basics.OnlineAccountData{}, errors.New("verif: not needed")
}

// ---------------------------------------------------------------------------------------------- executor
func verifC30ExitClass(err error) string {
	switch {
	case err == nil:
		return "nil"
	case errors.Is(err, errFetchRetryLimit):
		return "retry-limit"
	case errors.Is(err, errFetchNoBlock):
		return "no-block"
	case errors.Is(err, errCatchupNoPeer):
		return "no-peer"
	case errors.Is(err, errLedgerAlreadyHasBlock):
		return "already-has-block"
	case errors.Is(err, errCatchupStopping):
		return "stopping"
	case errors.Is(err, context.Canceled):
		return "cancelled"
	case strings.Contains(err.Error(), "ledger write failed"):
		return "write-failed"
	case strings.Contains(err.Error(), "failed to validate"):
		return "validate-failed"
	}
	return "other"
}

func verifC30Exec(op string, log logging.Logger) string {
	f := strings.Fields(op)
	if len(f) == 0 || (f[0] != "case" && f[0] != "cert") {
		return "bad-op"
	}
	w := &verifC30World{tr: &verifC30Trace{}, script: map[basics.Round][]verifC30Resp{}, good: map[basics.Round]bookkeeping.Block{},
		fork: map[basics.Round]bookkeeping.Block{}, tamp: map[basics.Round][]bookkeeping.Block{}, goodDig: map[basics.Round]crypto.Digest{}, genuine: map[basics.Round]crypto.Digest{},
		blkID: map[crypto.Digest]string{}, blkCM: map[string]bool{}, certID: map[crypto.Digest]string{}, reqs: map[basics.Round]int{}}
	var lb, par uint64 = 2, 4
	mode, npeers := 0, 2
	var ext []basics.Round
	for _, kv := range f[1:] {
		j := strings.IndexByte(kv, '=')
		if j < 0 {
			return "bad-op"
		}
		k, v := kv[:j], kv[j+1:]
		switch k {
		case "base":
			w.base = basics.Round(vh.U(v))
		case "n":
			w.n = int(vh.U(v))
		case "lb":
			lb = vh.U(v)
		case "par":
			par = vh.U(v)
		case "mode":
			mode = int(vh.U(v))
		case "peers":
			npeers = int(vh.U(v))
		case "ss":
			w.ss = vh.U(v)
		case "x":
			for _, s := range strings.Split(v, ",") {
				ext = append(ext, basics.Round(vh.U(s)))
			}
		default:
			r := basics.Round(vh.U(k))
			for _, s := range strings.Split(v, ",") {
				d := strings.LastIndexByte(s, '.')
				if d < 0 {
					return "bad-op"
				}
				w.script[r] = append(w.script[r], verifC30Resp{kind: s[:d], delay: int(vh.U(s[d+1:]))})
			}
		}
	}
	w.build()
	if f[0] == "cert" {
		return verifC30ExecCert(w, npeers, log)
	}

	led := &verifC30Ledger{w: w, last: w.base, hdrs: map[basics.Round]bookkeeping.Block{w.base: w.good[w.base]}, chans: map[basics.Round]chan struct{}{}}
	net := &verifC30Net{}
	for i := 0; i < npeers; i++ {
		net.peers = append(net.peers, &verifC30Peer{w: w, name: fmt.Sprintf("verif-peer-%d", i)})
	}
	cfg := config.GetDefaultLocal()
	cfg.CatchupParallelBlocks = par
	cfg.CatchupBlockValidateMode = mode
	s := MakeService(log, cfg, net, led, &verifC30Auth{w: w, k: map[basics.Round]int{}}, nil, nil)
	s.testStart()
	hooked := false
	verifC30ContentsHook = func(r basics.Round, blk *bookkeeping.Block, cert *agreement.Certificate, ok bool) {
		hooked = true // written before any goroutine of the next case starts; read after pipelinedFetch's wg.Wait
		w.tr.add("contents %d %s %s", r, w.idOfBlock(blk), verifC30V(ok))
	}
	defer func() { verifC30ContentsHook = nil }()

	var extWG sync.WaitGroup
	for i, xr := range ext {
		if xr <= w.base || xr > w.base+basics.Round(w.n) {
			continue
		}
		extWG.Add(1)
		go func(xr basics.Round, i int) {
			defer extWG.Done()
			select {
			case <-led.Wait(xr - 1):
			case <-s.ctx.Done():
				return
			}
			w.jitter(3, xr, i)
			_ = led.add(w.good[xr], w.mkGenuine(xr), true)
		}(xr, i)
	}

	done := make(chan error, 1)
	go func() {
		var err error
		res := vh.Catch(func() string { err = s.pipelinedFetch(lb); return "" })
		if res != "" {
			err = errors.New(res)
		}
		done <- err
	}()
	var exit string
	select {
	case err := <-done:
		exit = verifC30ExitClass(err)
		if err != nil && strings.HasPrefix(err.Error(), "PANIC") {
			exit = "PANIC"
			w.tr.add("panic %s", strings.ReplaceAll(err.Error(), ";", ","))
		}
	case <-time.After(verifC30Watchdog):
		exit = "HANG"
	}
	s.cancel()
	extWG.Wait()
	_ = hooked
	w.tr.mu.Lock()
	evs := append([]string{}, w.tr.ev...)
	w.tr.mu.Unlock()
	return fmt.Sprintf("exit=%s writes=%d last=%d | %s", exit, led.writes, led.LastRound(), strings.Join(evs, " ; "))
}

// verifC30ExecCert: Service.fetchRound with the good certificate of round base+1.
func verifC30ExecCert(w *verifC30World, npeers int, log logging.Logger) string {
	r := w.base + 1
	w.n = 1
	w.certMode = true
	led := &verifC30Ledger{w: w, last: w.base, hdrs: map[basics.Round]bookkeeping.Block{w.base: w.good[w.base]}, chans: map[basics.Round]chan struct{}{}}
	net := &verifC30Net{}
	for i := 0; i < npeers; i++ {
		net.peers = append(net.peers, &verifC30Peer{w: w, name: fmt.Sprintf("verif-peer-%d", i)})
	}
	s := MakeService(log, config.GetDefaultLocal(), net, led, &verifC30Auth{w: w, k: map[basics.Round]int{}}, nil, nil)
	s.testStart()
	done := make(chan string, 1)
	go func() {
		avv := agreement.MakeAsyncVoteVerifier(nil)
		defer avv.Quit()
		done <- vh.Catch(func() string {
			s.syncCert(&PendingUnmatchedCertificate{Cert: w.mkGenuine(r), VoteVerifier: avv})
			return "returned"
		})
	}()
	var exit string
	select {
	case res := <-done:
		exit = res
		if strings.HasPrefix(res, "PANIC") {
			exit = "PANIC"
			w.tr.add("panic %s", strings.ReplaceAll(res, ";", ","))
		}
	case <-time.After(verifC30Watchdog):
		exit = "HANG"
	}
	s.cancel()
	w.tr.mu.Lock()
	evs := append([]string{}, w.tr.ev...)
	w.tr.mu.Unlock()
	return fmt.Sprintf("exit=%s writes=%d last=%d | %s", exit, led.writes, led.LastRound(), strings.Join(evs, " ; "))
}

// ---------------------------------------------------------------------------------------------- generator
var verifC30BadPairs = []string{"tampered:0", "tampered:1", "tampered:2", "tampered:3", "badcert", "zerocert", "fork", "forkgood", "tampfork:1", "forged", "forgedvotes"}
var verifC30FetchFails = []string{"prevblk", "nextblk", "nextcert", "prevcert", "garbage", "nodata", "errmsg", "neterr", "noblock"}

func verifC30Case(base, n int, lb, par uint64, mode, peers int, ss uint64, ext []int, script map[int][]string) string {
	var sb strings.Builder
	fmt.Fprintf(&sb, "case base=%d n=%d lb=%d par=%d mode=%d peers=%d ss=%d", base, n, lb, par, mode, peers, ss)
	if len(ext) > 0 {
		var xs []string
		for _, x := range ext {
			xs = append(xs, strconv.Itoa(x))
		}
		fmt.Fprintf(&sb, " x=%s", strings.Join(xs, ","))
	}
	var rs []int
	for r := range script {
		rs = append(rs, r)
	}
	sort.Ints(rs)
	for _, r := range rs {
		fmt.Fprintf(&sb, " %d=%s", r, strings.Join(script[r], ","))
	}
	return sb.String()
}

func verifC30Generate() []string {
	rng := vh.NewRng(vh.Seed()*977 + 30)
	var ops []string
	allGood := func(base, n int, delay func(i int) int) map[int][]string {
		sc := map[int][]string{}
		for i := 1; i <= n; i++ {
			sc[base+i] = []string{fmt.Sprintf("good.%d", delay(i))}
		}
		return sc
	}
	modes := []int{0, 0, 0, 1, 2, 3, 4, 8, 12, 5, 10, 15}
	// --- directed: every adversarial response kind at the first / a middle / the last round, early rounds slow, all modes
	kinds := append(append([]string{}, verifC30BadPairs...), verifC30FetchFails...)
	for ki, k := range kinds {
		for pos := 0; pos < 3; pos++ {
			base, n := 1+(ki+pos)%5, 6
			at := []int{1, 3, 6}[pos]
			sc := allGood(base, n, func(i int) int { return (n - i) % 4 }) // earlier rounds answer later
			sc[base+at] = []string{k + ".0", "good.1"}
			mode := 0
			if pos == 1 {
				mode = modes[(ki)%len(modes)]
			}
			ops = append(ops, verifC30Case(base, n, uint64(1+ki%3), uint64(1+(ki+pos)%6), mode, 1+ki%3, rng.U64()%100000, nil, sc))
		}
	}
	// --- directed: stale-verdict shapes (contents ok + cert bad, then contents bad + cert ok, then good) in one round
	stale := [][]string{
		{"badcert.0", "tampered:1.0", "good.0"}, {"tampered:0.1", "badcert.0", "good.0"}, {"fork.0", "tampered:2.0", "good.1"},
		{"forkgood.0", "tampfork:1.0", "tampered:0.0", "good.0"}, {"badcert.0", "nextblk.0", "tampered:1.0", "zerocert.0", "good.0"},
		{"tampered:0.0", "tampered:1.0", "tampered:2.0", "good.0"}, {"badcert.0", "badcert.0", "fork.0", "good.0"},
	}
	for si, st := range stale {
		for _, mode := range []int{0, 0, 1, 2, 3} {
			for _, at := range []int{1, 2, 5} {
				base, n := 2+si, 5
				sc := allGood(base, n, func(i int) int { return rng.Intn(3) })
				sc[base+at] = st
				ops = append(ops, verifC30Case(base, n, uint64(1+si%3), uint64(2+si%4), mode, 2, rng.U64()%100000, nil, sc))
			}
		}
	}
	// --- directed: a round that never yields a good pair (sticky bad -> retry limit; sticky noblock -> pipeline stops)
	for i, k := range []string{"tampered:1", "badcert", "fork", "noblock", "nextblk", "garbage"} {
		base, n := 3, 5
		sc := allGood(base, n, func(i int) int { return 0 })
		sc[base+2+i%2] = []string{k + ".0"}
		ops = append(ops, verifC30Case(base, n, 2, uint64(2+i%3), 0, 2, uint64(i), nil, sc))
	}
	// --- directed: the agreement service races the catchup for some rounds
	for i := 0; i < 12; i++ {
		base, n := 1+i%4, 7
		sc := allGood(base, n, func(j int) int { return rng.Intn(5) })
		if i%2 == 1 {
			sc[base+3] = []string{"tampered:1.1", "badcert.1", "good.2"}
		}
		ext := []int{base + 1 + i%5}
		if i%3 == 0 {
			ext = append(ext, base+6)
		}
		ops = append(ops, verifC30Case(base, n, uint64(1+i%3), uint64(1+i%5), []int{0, 0, 1, 2}[i%4], 2, rng.U64()%100000, ext, sc))
	}
	// --- the syncCert path (fetchRound / EnsureBlock): every bad pair kind, then mixes; always ends with the good pair
	certKinds := append(append([]string{}, verifC30BadPairs...), "prevblk", "nextblk", "nextcert", "garbage", "errmsg", "noblock", "neterr")
	for i, k := range certKinds {
		ops = append(ops, fmt.Sprintf("cert base=%d peers=%d ss=%d %d=%s.%d,good.0", 1+i, 1+i%3, rng.U64()%100000, 2+i, k, i%2))
	}
	// the right block paired with a forged certificate that merely claims the trusted round and proposal (sticky: every
	// peer serves it): what must be written is agreement's verified certificate, never the peer's
	for i, sc := range []string{"forged.0", "forgedvotes.0", "tampered:1.0,forged.0", "badcert.0,forgedvotes.1", "fork.0,forged.0", "nextblk.0,forgedvotes.0,good.0"} {
		ops = append(ops, fmt.Sprintf("cert base=%d peers=%d ss=%d %d=%s", 3+i, 1+i%2, rng.U64()%100000, 4+i, sc))
	}
	for i := 0; i < vh.Budget(25, 400); i++ {
		base := rng.Intn(50)
		var sc []string
		for len(sc) < 5 && rng.Chance(70) {
			sc = append(sc, fmt.Sprintf("%s.%d", certKinds[rng.Intn(len(certKinds))], rng.Intn(3)))
		}
		sc = append(sc, "good.0")
		ops = append(ops, fmt.Sprintf("cert base=%d peers=%d ss=%d %d=%s", base, 1+rng.Intn(3), rng.U64()%100000, base+1, strings.Join(sc, ",")))
	}
	// --- random
	nrand := vh.Budget(260, 6000)
	for c := 0; c < nrand; c++ {
		base := rng.Intn(8)
		if rng.Chance(10) {
			base = 300 + rng.Intn(100) // beyond MaxBalLookback: the backlog wait has a real round
		}
		n := 1 + rng.Intn(12)
		lb := uint64(1 + rng.Intn(3))
		if rng.Chance(10) {
			lb = uint64(4 + rng.Intn(3))
		}
		par := uint64(1 + rng.Intn(8))
		mode := 0
		if rng.Chance(35) {
			mode = rng.Intn(16)
		}
		sc := map[int][]string{}
		badness := []int{0, 10, 30, 60}[rng.Intn(4)]
		for i := 1; i <= n; i++ {
			var s []string
			for len(s) < 6 && rng.Chance(badness) {
				k := verifC30BadPairs[rng.Intn(len(verifC30BadPairs))]
				if rng.Chance(30) {
					k = verifC30FetchFails[rng.Intn(len(verifC30FetchFails)-1)] // noblock only as a terminal answer
				}
				s = append(s, fmt.Sprintf("%s.%d", k, rng.Intn(4)*rng.Intn(3)))
			}
			last := "good"
			if rng.Chance(2) {
				last = "noblock"
			}
			d := rng.Intn(10)
			if rng.Chance(40) {
				d = 0
			}
			s = append(s, fmt.Sprintf("%s.%d", last, d))
			sc[base+i] = s
		}
		var ext []int
		if rng.Chance(12) {
			ext = append(ext, base+1+rng.Intn(n))
		}
		ops = append(ops, verifC30Case(base, n, lb, par, mode, 1+rng.Intn(4), rng.U64()%1000000, ext, sc))
	}
	return ops
}

// ---------------------------------------------------------------------------------------------- tie F: facts of the current tree
// TestVerifC30Facts dumps (a) the value of the four CatchupVerify* predicates of the REAL config.Local for every
// CatchupBlockValidateMode 0..15 and the default mode, (b) which of those predicates guards the ContentsMatchHeader
// and the Authenticate call inside fetchAndWrite in the CURRENT catchup/service.go (go/ast walk), (c) constants.
func TestVerifC30Facts(t *testing.T) {
	dir := os.Getenv("VERIF_OUT")
	if dir == "" {
		dir = os.TempDir()
	}
	var sb strings.Builder
	for m := 0; m < 16; m++ {
		cfg := config.GetDefaultLocal()
		cfg.CatchupBlockValidateMode = m
		fmt.Fprintf(&sb, "mode %d %s %s %s %s\n", m, vh.B(cfg.CatchupVerifyCertificate()), vh.B(cfg.CatchupVerifyPaysetHash()),
			vh.B(cfg.CatchupVerifyTransactionSignatures()), vh.B(cfg.CatchupVerifyApplyData()))
	}
	fmt.Fprintf(&sb, "default %d\n", config.GetDefaultLocal().CatchupBlockValidateMode)
	fmt.Fprintf(&sb, "retrylimit %d\n", catchupRetryLimit)
	fmt.Fprintf(&sb, "seedlookback %d\n", config.Consensus[protocol.ConsensusCurrentVersion].SeedLookback)

	src := os.Getenv("VERIF_C30_SERVICE_GO") // the unmodified file of the tree under test
	if src == "" {
		src = "service.go"
	}
	fset := token.NewFileSet()
	file, err := parser.ParseFile(fset, src, nil, 0)
	if err != nil {
		t.Fatalf("cannot parse %s: %v", src, err)
	}
	gates := map[string][]string{}
	for _, d := range file.Decls {
		fd, ok := d.(*ast.FuncDecl)
		if !ok || fd.Name.Name != "fetchAndWrite" || fd.Body == nil {
			continue
		}
		var stack []ast.Node
		ast.Inspect(fd.Body, func(n ast.Node) bool {
			if n == nil {
				stack = stack[:len(stack)-1]
				return true
			}
			stack = append(stack, n)
			ce, ok := n.(*ast.CallExpr)
			if !ok {
				return true
			}
			se, ok := ce.Fun.(*ast.SelectorExpr)
			if !ok || (se.Sel.Name != "ContentsMatchHeader" && se.Sel.Name != "Authenticate") {
				return true
			}
			// the enclosing if-statements whose BODY contains the call and whose condition is a s.cfg.<Pred>() call
			var g []string
			for i := 0; i+1 < len(stack); i++ {
				is, ok := stack[i].(*ast.IfStmt)
				if !ok || stack[i+1] != ast.Node(is.Body) {
					continue
				}
				if c, ok := is.Cond.(*ast.CallExpr); ok {
					if s2, ok := c.Fun.(*ast.SelectorExpr); ok && strings.HasPrefix(s2.Sel.Name, "CatchupVerify") {
						g = append(g, s2.Sel.Name)
						continue
					}
				}
				g = append(g, "other-condition")
			}
			if len(g) == 0 {
				g = []string{"always"}
			}
			gates[se.Sel.Name] = append(gates[se.Sel.Name], strings.Join(g, "&"))
			return true
		})
	}
	for _, name := range []string{"ContentsMatchHeader", "Authenticate"} {
		g := gates[name]
		if len(g) == 0 {
			g = []string{"missing"}
		}
		fmt.Fprintf(&sb, "gate %s %s\n", name, strings.Join(g, ","))
	}
	if err := os.WriteFile(filepath.Join(dir, "c30.facts"), []byte(sb.String()), 0o644); err != nil {
		t.Fatal(err)
	}
}

type verifC30Null struct{}

func (verifC30Null) Write(p []byte) (int, error) { return len(p), nil }

func TestVerifC30(t *testing.T) {
	logging.Base().SetOutput(verifC30Null{})
	log := logging.NewLogger()
	log.SetOutput(io.Discard)
	log.SetLevel(logging.Error)
	ops, replay := vh.ReplayOps()
	if !replay {
		ops = verifC30Generate()
	}
	reps := 1
	if s, err := strconv.Atoi(os.Getenv("VERIF_C30_REPEAT")); err == nil && s > 1 {
		reps = s // replays re-run every case several times: the goroutine schedule is not part of the op line
	}
	out := vh.Open("c30")
	defer out.Close()
	hangs := 0
	for _, op := range ops {
		for i := 0; i < reps && hangs < 3; i++ {
			res := verifC30Exec(op, log)
			if strings.HasPrefix(res, "exit=HANG") {
				hangs++
			}
			out.Emit(op, res)
			out.Flush()
		}
	}
}
