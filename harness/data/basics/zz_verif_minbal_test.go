//go:build verif

package basics

// C21 (formula) correspondence harness:
//   minbal <MinBalance> <AppFlatParams> <AppFlatOptIn> <BoxFlat> <BoxByte> <SchemaPerEntry> <SchemaUint> <SchemaBytes>
//          <assets> <numUint> <numByteSlice> <appParams> <locals> <extraPages> <boxes> <boxBytes>   ⇒ <microalgos>
import (
	"fmt"
	"strings"
	"testing"

	"github.com/algorand/go-algorand/zz_verif_tools/vh"
)

func TestVerifMinBal(t *testing.T) {
	ops, replay := vh.ReplayOps()
	if !replay {
		rng := vh.NewRng(vh.Seed() + 21)
		n := vh.Budget(30000, 1500000)
		for i := 0; i < n; i++ {
			req := []uint64{100000, 100000, 100000, 2500, 400, 25000, 3500, 25000}
			if rng.Chance(40) {
				for j := range req {
					req[j] = []uint64{0, 1, uint64(rng.Intn(1000000)), rng.Biased64()}[rng.Intn(4)]
				}
			}
			cnt := make([]uint64, 8)
			for j := range cnt {
				cnt[j] = []uint64{0, 1, uint64(rng.Intn(1000)), uint64(rng.Intn(64)), rng.Biased64()}[rng.Intn(5)]
				if rng.Chance(70) && cnt[j] > 1<<40 {
					cnt[j] >>= 30
				}
			}
			var parts []string
			for _, v := range append(req, cnt...) {
				parts = append(parts, fmt.Sprintf("%d", v))
			}
			ops = append(ops, "minbal "+strings.Join(parts, " "))
		}
	}
	out := vh.Open("minbal")
	defer out.Close()
	for _, op := range ops {
		f := strings.Fields(op)
		res := vh.Catch(func() string {
			var v [16]uint64
			for i := range v {
				v[i] = vh.U(f[i+1])
			}
			reqs := BalanceRequirements{MinBalance: v[0], AppFlatParamsMinBalance: v[1], AppFlatOptInMinBalance: v[2], BoxFlatMinBalance: v[3],
				BoxByteMinBalance: v[4], SchemaMinBalancePerEntry: v[5], SchemaUintMinBalance: v[6], SchemaBytesMinBalance: v[7]}
			mb := MinBalance(reqs, v[8], StateSchema{NumUint: v[9], NumByteSlice: v[10]}, v[11], v[12], v[13], v[14], v[15])
			return fmt.Sprintf("%d", mb.Raw)
		})
		out.Emit(op, res)
	}
}
