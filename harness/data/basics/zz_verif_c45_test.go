//go:build verif

package basics

// C45 correspondence harness: runs the real overflow helpers on generated operands.
// Op grammar (space separated, decimal):  <op> [w] a b [c [d]]   ⇒  result fields
import (
	"fmt"
	"strings"
	"testing"

	"github.com/algorand/go-algorand/zz_verif_tools/vh"
)

func verifC45Exec(op string) string {
	f := strings.Fields(op)
	return vh.Catch(func() string {
		switch f[0] {
		case "oadd", "osub", "omul", "addsat", "subsat", "mulsat":
			w := f[1]
			a, b := vh.U(f[2]), vh.U(f[3])
			switch w {
			case "8":
				return verifC45Gen(f[0], uint8(a), uint8(b))
			case "16":
				return verifC45Gen(f[0], uint16(a), uint16(b))
			case "32":
				return verifC45Gen(f[0], uint32(a), uint32(b))
			default:
				return verifC45Gen(f[0], a, b)
			}
		case "odiff":
			r, o := ODiff(vh.U(f[1]), vh.U(f[2]))
			return fmt.Sprintf("%d %s", r, vh.B(o))
		case "muldiv":
			r, o := Muldiv(vh.U(f[1]), vh.U(f[2]), vh.U(f[3]))
			return fmt.Sprintf("%d %s", r, vh.B(o))
		case "mul2div":
			q, r, o := Mul2div(vh.U(f[1]), vh.U(f[2]), vh.U(f[3]), vh.U(f[4]))
			return fmt.Sprintf("%d %d %s", q, r, vh.B(o))
		case "divvy":
			// NewFraction panics on improper input: generator only sends n<=d, d>0; others show as PANIC
			a, b := NewFraction(vh.U(f[1]), vh.U(f[2])).Divvy(vh.U(f[3]))
			return fmt.Sprintf("%d %d", a, b)
		case "microsmul":
			r, o := Micros(vh.U(f[1])).Mul(Micros(vh.U(f[2])))
			return fmt.Sprintf("%d %s", uint64(r), vh.B(o))
		case "mulmicros":
			r, o := MicroAlgos{Raw: vh.U(f[1])}.MulMicros(Micros(vh.U(f[2])))
			return fmt.Sprintf("%d %s", r.Raw, vh.B(o))
		case "mulint":
			r, o := Micros(vh.U(f[1])).MulInt(int(vh.I(f[2])))
			return fmt.Sprintf("%d %s", uint64(r), vh.B(o))
		case "feeforusage":
			fee, res, o := MicroAlgos{Raw: vh.U(f[1])}.FeeForUsage(Micros(vh.U(f[2])), Micros(vh.U(f[3])), vh.U(f[4]))
			return fmt.Sprintf("%d %d %s", fee.Raw, res, vh.B(o))
		case "tracker":
			// tracker <seq of add/sub/mul a b ...>: threads one OverflowTracker through the sequence
			var t OverflowTracker
			var outs []string
			for i := 1; i+2 < len(f); i += 3 {
				a, b := vh.U(f[i+1]), vh.U(f[i+2])
				var r uint64
				switch f[i] {
				case "add":
					r = t.Add(a, b)
				case "sub":
					r = t.Sub(a, b)
				case "mul":
					r = t.Mul(a, b)
				}
				outs = append(outs, fmt.Sprintf("%d", r))
			}
			return strings.Join(outs, ",") + " " + vh.B(t.Overflowed)
		}
		return "bad-op"
	})
}

type verifUnsigned interface {
	~uint8 | ~uint16 | ~uint32 | ~uint64
}

func verifC45Gen[T verifUnsigned](op string, a, b T) string {
	switch op {
	case "oadd":
		r, o := OAdd(a, b)
		return fmt.Sprintf("%d %s", uint64(r), vh.B(o))
	case "osub":
		r, o := OSub(a, b)
		return fmt.Sprintf("%d %s", uint64(r), vh.B(o))
	case "omul":
		r, o := OMul(a, b)
		return fmt.Sprintf("%d %s", uint64(r), vh.B(o))
	case "addsat":
		return fmt.Sprintf("%d", uint64(AddSaturate(a, b)))
	case "subsat":
		return fmt.Sprintf("%d", uint64(SubSaturate(a, b)))
	case "mulsat":
		return fmt.Sprintf("%d", uint64(MulSaturate(a, b)))
	}
	return "bad-op"
}

func verifC45Generate() []string {
	var ops []string
	rng := vh.NewRng(vh.Seed())
	gen2 := []string{"oadd", "osub", "omul", "addsat", "subsat", "mulsat"}
	// exhaustive 8-bit instantiation (all 65536 pairs) of every generic helper
	for _, g := range gen2 {
		for a := 0; a < 256; a++ {
			for b := 0; b < 256; b++ {
				if vh.Thorough() || (a*7+b*13+len(g))%5 == 0 || a < 3 || b < 3 || a > 252 || b > 252 || a+b >= 254 && a+b <= 257 {
					ops = append(ops, fmt.Sprintf("%s 8 %d %d", g, a, b))
				}
			}
		}
	}
	if vh.Thorough() {
		// 16-bit: all pairs on a boundary grid plus a random sample
		grid := []uint64{0, 1, 2, 3, 127, 128, 129, 254, 255, 256, 257, 32767, 32768, 32769, 65534, 65535}
		for _, g := range gen2 {
			for _, a := range grid {
				for b := uint64(0); b < 65536; b++ {
					ops = append(ops, fmt.Sprintf("%s 16 %d %d", g, a, b))
				}
			}
		}
	}
	bd := vh.Boundary64()
	for _, g := range gen2 {
		for _, a := range bd {
			for _, b := range bd {
				ops = append(ops, fmt.Sprintf("%s 64 %d %d", g, a, b))
			}
		}
	}
	for _, a := range bd {
		for _, b := range bd {
			ops = append(ops, fmt.Sprintf("odiff %d %d", a, b))
			ops = append(ops, fmt.Sprintf("microsmul %d %d", a, b))
			ops = append(ops, fmt.Sprintf("mulmicros %d %d", a, b))
			ops = append(ops, fmt.Sprintf("mulint %d %d", a, int64(b)))
			for _, c := range bd {
				ops = append(ops, fmt.Sprintf("muldiv %d %d %d", a, b, c))
			}
		}
	}
	n := vh.Budget(40000, 3000000)
	for i := 0; i < n; i++ {
		a, b, c, d := rng.Biased64(), rng.Biased64(), rng.Biased64(), rng.Biased64()
		switch rng.Intn(14) {
		case 0, 1, 2:
			w := []string{"8", "16", "32", "64"}[rng.Intn(4)]
			mask := map[string]uint64{"8": 0xff, "16": 0xffff, "32": 0xffffffff, "64": ^uint64(0)}[w]
			ops = append(ops, fmt.Sprintf("%s %s %d %d", gen2[rng.Intn(len(gen2))], w, a&mask, b&mask))
		case 3:
			ops = append(ops, fmt.Sprintf("odiff %d %d", a, b))
		case 4, 5:
			ops = append(ops, fmt.Sprintf("muldiv %d %d %d", a, b, c))
		case 6, 7, 8:
			if rng.Chance(50) {
				// make quotients land near the 2^64 boundary: d ≈ a*b*c / 2^64
				d = rng.Biased64()
			}
			ops = append(ops, fmt.Sprintf("mul2div %d %d %d %d", a, b, c, d))
		case 9:
			if b == 0 {
				b = 1
			}
			nn := a
			if a > b {
				nn = a % (b + 1)
			}
			ops = append(ops, fmt.Sprintf("divvy %d %d %d", nn, b, c))
		case 10:
			ops = append(ops, fmt.Sprintf("microsmul %d %d", a, b))
		case 11:
			ops = append(ops, fmt.Sprintf("mulint %d %d", a, int64(b)))
		case 12:
			ops = append(ops, fmt.Sprintf("feeforusage %d %d %d %d", a, b, []uint64{1000000, c}[rng.Intn(2)], d%1000000000000))
		case 13:
			k := 1 + rng.Intn(5)
			s := "tracker"
			for j := 0; j < k; j++ {
				s += fmt.Sprintf(" %s %d %d", []string{"add", "sub", "mul"}[rng.Intn(3)], rng.Biased64(), rng.Biased64())
			}
			ops = append(ops, s)
		}
	}
	return ops
}

func TestVerifC45(t *testing.T) {
	ops, replay := vh.ReplayOps()
	if !replay {
		ops = verifC45Generate()
	}
	out := vh.Open("c45")
	defer out.Close()
	for _, op := range ops {
		out.Emit(op, verifC45Exec(op))
	}
}
