//go:build verif

package bookkeeping

// C29, block layer: the REAL Block.PaysetCommit / ContentsMatchHeader (flat, Merkle, SHA-256 and SHA-512 vector
// commitments as the block's consensus version enables them) and BlockHeader.PreCheck (round, Branch, Branch512).
//
// Self-contained op lines (a replay is exactly the recorded bytes):
//
//	blk <mut> <proto> <pc> <s256> <s512> <native>:<sha256>:<sha512> [<hex stib>/<hex decoded txn | !>]...
//	    proto = consensus version name; pc = 0 unsupported | 1 flat | 2 merkle | x (version unknown); s256 / s512 = 0|1
//	    (read from config.Consensus of the current tree by the generator); the three header commitments in hex; then every
//	    payset entry as msgpack(SignedTxnInBlock) and msgpack(Transaction returned by the real DecodeSignedTxn), "!" when
//	    DecodeSignedTxn fails.  The executor rebuilds the block from <proto>, the commitments and the stib bytes only.
//	  → `cmh=<bool> pc=<ok native sha256 sha512 | err>` (ContentsMatchHeader, PaysetCommit)
//
//	pre <mut> <s512|x> <hex msgpack(prev header)> <hex msgpack(header)>
//	  → ok | proto | round | branch | branch512 | branch512-not-allowed | later(<msg>)      (PreCheck)
//	prex …  same, a field outside the modelled prefix of PreCheck was changed (model answers "-")
import (
	"encoding/hex"
	"fmt"
	"strings"
	"testing"

	"github.com/algorand/go-algorand/config"
	"github.com/algorand/go-algorand/crypto"
	"github.com/algorand/go-algorand/data/basics"
	"github.com/algorand/go-algorand/data/transactions"
	"github.com/algorand/go-algorand/protocol"
	"github.com/algorand/go-algorand/zz_verif_tools/vh"
)

func verifC29GH() crypto.Digest { return crypto.Hash([]byte("verif-c29-genesis")) }

const verifC29GID = "test"

func verifC29Flags(cv protocol.ConsensusVersion) (pc, s256, s512 string) {
	p, ok := config.Consensus[cv]
	if !ok {
		return "x", "0", "0"
	}
	return fmt.Sprint(int(p.PaysetCommit)), map[bool]string{false: "0", true: "1"}[p.EnableSHA256TxnCommitmentHeader],
		map[bool]string{false: "0", true: "1"}[p.EnableSha512BlockHash]
}

func verifC29BlockLine(mut string, b Block) string {
	var sb strings.Builder
	pc, s256, s512 := verifC29Flags(b.CurrentProtocol)
	fmt.Fprintf(&sb, "blk %s %s %s %s %s %s:%s:%s", mut, string(b.CurrentProtocol), pc, s256, s512,
		hex.EncodeToString(b.TxnCommitments.NativeSha512_256Commitment[:]), hex.EncodeToString(b.TxnCommitments.Sha256Commitment[:]),
		hex.EncodeToString(b.TxnCommitments.Sha512Commitment[:]))
	for i := range b.Payset {
		sb.WriteByte(' ')
		sb.WriteString(hex.EncodeToString(protocol.Encode(&b.Payset[i])))
		sb.WriteByte('/')
		st, _, err := b.DecodeSignedTxn(b.Payset[i])
		if err != nil {
			sb.WriteByte('!')
		} else {
			sb.WriteString(hex.EncodeToString(protocol.Encode(&st.Txn)))
		}
	}
	return sb.String()
}

func verifC29ExecBlk(f []string) string {
	if len(f) < 7 {
		return "bad-op"
	}
	var b Block
	b.CurrentProtocol = protocol.ConsensusVersion(f[2])
	b.BlockHeader.GenesisID = verifC29GID
	b.BlockHeader.GenesisHash = verifC29GH()
	cs := strings.Split(f[6], ":")
	if len(cs) != 3 {
		return "bad-op"
	}
	c0, e0 := hex.DecodeString(cs[0])
	c1, e1 := hex.DecodeString(cs[1])
	c2, e2 := hex.DecodeString(cs[2])
	if e0 != nil || e1 != nil || e2 != nil || len(c0) != 32 || len(c1) != 32 || len(c2) != 64 {
		return "bad-op"
	}
	copy(b.TxnCommitments.NativeSha512_256Commitment[:], c0)
	copy(b.TxnCommitments.Sha256Commitment[:], c1)
	copy(b.TxnCommitments.Sha512Commitment[:], c2)
	for _, ent := range f[7:] {
		p := strings.SplitN(ent, "/", 2)
		raw, err := hex.DecodeString(p[0])
		if err != nil {
			return "bad-op"
		}
		var stib transactions.SignedTxnInBlock
		if err := protocol.Decode(raw, &stib); err != nil {
			return "bad-op"
		}
		b.Payset = append(b.Payset, stib)
	}
	cmh := b.ContentsMatchHeader()
	tc, err := b.PaysetCommit()
	if err != nil {
		return fmt.Sprintf("cmh=%s pc=err", vh.B(cmh))
	}
	return fmt.Sprintf("cmh=%s pc=ok %s %s %s", vh.B(cmh), hex.EncodeToString(tc.NativeSha512_256Commitment[:]),
		hex.EncodeToString(tc.Sha256Commitment[:]), hex.EncodeToString(tc.Sha512Commitment[:]))
}

func verifC29PreCode(err error) string {
	if err == nil {
		return "ok"
	}
	m := err.Error()
	switch {
	case strings.HasPrefix(m, "BlockHeader.PreCheck: protocol"):
		return "proto"
	case strings.HasPrefix(m, "block round incorrect"):
		return "round"
	case strings.HasPrefix(m, "block branch incorrect"):
		return "branch"
	case strings.HasPrefix(m, "block branch512 incorrect"):
		return "branch512"
	case strings.HasPrefix(m, "block branch512 not allowed"):
		return "branch512-not-allowed"
	}
	if len(m) > 60 {
		m = m[:60]
	}
	return "later(" + strings.ReplaceAll(m, " ", "_") + ")"
}

func verifC29ExecPre(f []string) string {
	if len(f) != 5 {
		return "bad-op"
	}
	pb, e1 := hex.DecodeString(f[3])
	cb, e2 := hex.DecodeString(f[4])
	if e1 != nil || e2 != nil {
		return "bad-op"
	}
	var prev, cur BlockHeader
	if err := protocol.Decode(pb, &prev); err != nil {
		return "bad-op"
	}
	if err := protocol.Decode(cb, &cur); err != nil {
		return "bad-op"
	}
	return verifC29PreCode(cur.PreCheck(prev))
}

func verifC29Exec(line string) string {
	f := strings.Fields(line)
	if len(f) == 0 {
		return "bad-op"
	}
	switch f[0] {
	case "blk":
		return verifC29ExecBlk(f)
	case "pre", "prex":
		return verifC29ExecPre(f)
	}
	return "bad-op"
}

// ---------------------------------------------------------------- generator

type verifC29Gen struct {
	r   *vh.Rng
	ctr uint64
}

func (g *verifC29Gen) addr() basics.Address {
	var a basics.Address
	copy(a[:], g.r.Bytes(32))
	return a
}

func (g *verifC29Gen) stxn(cv protocol.ConsensusVersion) (transactions.SignedTxn, transactions.ApplyData) {
	r := g.r
	g.ctr++
	p := config.Consensus[cv]
	hdr := transactions.Header{Sender: g.addr(), Fee: basics.MicroAlgos{Raw: 1000 + uint64(r.Intn(3000))},
		FirstValid: basics.Round(r.Intn(1000)), LastValid: basics.Round(1000 + r.Intn(1000)), Note: []byte(fmt.Sprintf("c29-%d", g.ctr))}
	if r.Chance(30) {
		hdr.Note = append(hdr.Note, r.Bytes(r.Intn(60))...)
	}
	if p.SupportGenesisHash && (p.RequireGenesisHash || r.Chance(60)) {
		hdr.GenesisHash = verifC29GH()
	}
	if r.Chance(40) {
		hdr.GenesisID = verifC29GID
	}
	if r.Chance(10) {
		copy(hdr.Lease[:], r.Bytes(32))
	}
	if r.Chance(10) {
		copy(hdr.Group[:], r.Bytes(32))
	}
	var tx transactions.Transaction
	var ad transactions.ApplyData
	switch r.Intn(6) {
	case 0, 1, 2:
		tx = transactions.Transaction{Type: protocol.PaymentTx, Header: hdr,
			PaymentTxnFields: transactions.PaymentTxnFields{Receiver: g.addr(), Amount: basics.MicroAlgos{Raw: r.Biased64()}}}
		if r.Chance(15) {
			tx.CloseRemainderTo = g.addr()
			ad.ClosingAmount.Raw = r.Biased64()
			ad.CloseRewards.Raw = uint64(r.Intn(100))
		}
	case 3:
		tx = transactions.Transaction{Type: protocol.KeyRegistrationTx, Header: hdr}
		if r.Bool() {
			copy(tx.VotePK[:], r.Bytes(32))
			copy(tx.SelectionPK[:], r.Bytes(32))
			tx.VoteFirst, tx.VoteLast, tx.VoteKeyDilution = 1, basics.Round(1+r.Intn(100000)), uint64(1+r.Intn(10000))
		}
	case 4:
		tx = transactions.Transaction{Type: protocol.AssetTransferTx, Header: hdr,
			AssetTransferTxnFields: transactions.AssetTransferTxnFields{XferAsset: basics.AssetIndex(1 + r.Intn(5000)), AssetAmount: r.Biased64(), AssetReceiver: g.addr()}}
		if r.Chance(20) {
			ad.AssetClosingAmount = r.Biased64()
		}
	default:
		tx = transactions.Transaction{Type: protocol.ApplicationCallTx, Header: hdr,
			ApplicationCallTxnFields: transactions.ApplicationCallTxnFields{ApplicationID: basics.AppIndex(r.Intn(3000)), ApplicationArgs: [][]byte{r.Bytes(r.Intn(9)), []byte("x")}}}
		if r.Bool() {
			ad.EvalDelta.GlobalDelta = basics.StateDelta{"k" + fmt.Sprint(r.Intn(9)): {Action: basics.SetUintAction, Uint: r.Biased64()},
				"b": {Action: basics.SetBytesAction, Bytes: string(r.Bytes(r.Intn(12)))}}
			ad.EvalDelta.Logs = []string{string(r.Bytes(r.Intn(10)))}
		}
		if tx.ApplicationID == 0 {
			ad.ApplicationID = basics.AppIndex(1 + r.Intn(100000))
		}
	}
	if r.Chance(50) {
		ad.SenderRewards.Raw = uint64(r.Intn(1000))
	}
	if r.Chance(30) {
		ad.ReceiverRewards.Raw = uint64(r.Intn(1000))
	}
	st := transactions.SignedTxn{Txn: tx}
	switch r.Intn(5) {
	case 0, 1, 2:
		copy(st.Sig[:], r.Bytes(64))
	case 3:
		st.Lsig.Logic = append([]byte{byte(1 + r.Intn(10))}, r.Bytes(r.Intn(20))...)
		if r.Bool() {
			st.Lsig.Args = [][]byte{r.Bytes(r.Intn(8))}
		}
	}
	if r.Chance(10) {
		st.AuthAddr = g.addr()
	}
	return st, ad
}

func (g *verifC29Gen) stib(b *Block) transactions.SignedTxnInBlock {
	for {
		st, ad := g.stxn(b.CurrentProtocol)
		s, err := b.EncodeSignedTxn(st, ad)
		if err == nil {
			return s
		}
	}
}

func verifC29Versions() []protocol.ConsensusVersion {
	return []protocol.ConsensusVersion{protocol.ConsensusV7, protocol.ConsensusV12, protocol.ConsensusV15, protocol.ConsensusV17, protocol.ConsensusV25,
		protocol.ConsensusV26, protocol.ConsensusV33, protocol.ConsensusV34, protocol.ConsensusV40, protocol.ConsensusV41,
		protocol.ConsensusCurrentVersion, protocol.ConsensusFuture, protocol.ConsensusVersion("verif-c29-unknown")}
}

// alterStib changes exactly one thing inside one payset entry; the result still encodes.
func (g *verifC29Gen) alterStib(s *transactions.SignedTxnInBlock) string {
	r := g.r
	for {
		switch r.Intn(9) {
		case 0:
			s.Txn.Fee.Raw++
			return "fee"
		case 1:
			n := append([]byte{}, s.Txn.Note...)
			n[r.Intn(len(n))] ^= byte(1 << uint(r.Intn(8)))
			s.Txn.Note = n
			return "notebit"
		case 2:
			s.Txn.Sender[r.Intn(32)] ^= byte(1 << uint(r.Intn(8)))
			return "snd"
		case 3:
			s.Txn.LastValid++
			return "lv"
		case 4: // signature only: the txid is unchanged, only the SignedTxnInBlock hash moves
			s.Sig[r.Intn(64)] ^= byte(1 << uint(r.Intn(8)))
			return "sig"
		case 5: // apply data only
			s.ApplyData.SenderRewards.Raw++
			return "ad.rs"
		case 6:
			s.ApplyData.ClosingAmount.Raw++
			return "ad.ca"
		case 7: // genesis-id flag: the stored bytes change by one bool, the decoded transaction gains/loses GenesisID
			s.HasGenesisID = !s.HasGenesisID
			return "hgi"
		case 8:
			s.Txn.Group[r.Intn(32)] ^= byte(1 << uint(r.Intn(8)))
			return "grp"
		}
	}
}

func (g *verifC29Gen) blocks(cases int) []string {
	r := g.r
	var lines []string
	vers := verifC29Versions()
	for c := 0; c < cases; c++ {
		var b Block
		b.CurrentProtocol = vers[(c+r.Intn(2)*r.Intn(len(vers)))%len(vers)]
		b.BlockHeader.GenesisID = verifC29GID
		b.BlockHeader.GenesisHash = verifC29GH()
		_, known := config.Consensus[b.CurrentProtocol]
		n := 0
		switch r.Intn(10) {
		case 0:
			n = 0
		case 1:
			n = 1
		case 2:
			n = 2
		case 3:
			n = 3
		case 4:
			n = []int{4, 5, 7, 8, 9, 15, 16, 17}[r.Intn(8)]
		case 5:
			n = 18 + r.Intn(vh.Budget(30, 120))
		default:
			n = 2 + r.Intn(12)
		}
		if known {
			for i := 0; i < n; i++ {
				b.Payset = append(b.Payset, g.stib(&b))
			}
		}
		if n == 0 && r.Bool() {
			b.Payset = transactions.Payset{}
		}
		b.TxnCommitments, _ = b.PaysetCommit()
		n = len(b.Payset)
		lines = append(lines, verifC29BlockLine("honest", b))
		cpb := func() Block {
			nb := b
			nb.Payset = append(transactions.Payset{}, b.Payset...)
			return nb
		}
		for k, nk := 0, 3+r.Intn(3); k < nk; k++ {
			m := cpb()
			switch r.Intn(13) {
			case 0:
				if n < 1 {
					continue
				}
				i := r.Intn(n)
				m.Payset = append(m.Payset[:i], m.Payset[i+1:]...)
				lines = append(lines, verifC29BlockLine(fmt.Sprintf("drop:%d", i), m))
			case 1:
				if !known {
					continue
				}
				i := r.Intn(n + 1)
				x := g.stib(&m)
				m.Payset = append(m.Payset[:i], append(transactions.Payset{x}, m.Payset[i:]...)...)
				lines = append(lines, verifC29BlockLine(fmt.Sprintf("add:%d", i), m))
			case 2:
				if n < 1 {
					continue
				}
				i, j := r.Intn(n), r.Intn(n+1)
				m.Payset = append(m.Payset[:j], append(transactions.Payset{b.Payset[i]}, m.Payset[j:]...)...)
				lines = append(lines, verifC29BlockLine(fmt.Sprintf("dup:%d@%d", i, j), m))
			case 3:
				if n < 2 {
					continue
				}
				i := r.Intn(n)
				j := (i + 1 + r.Intn(n-1)) % n
				m.Payset[i], m.Payset[j] = m.Payset[j], m.Payset[i]
				lines = append(lines, verifC29BlockLine(fmt.Sprintf("swap:%d,%d", i, j), m))
			case 4:
				if n < 3 {
					continue
				}
				m.Payset = append(m.Payset[1:], m.Payset[0])
				lines = append(lines, verifC29BlockLine("rot", m))
			case 5, 6, 7:
				if n < 1 {
					continue
				}
				i := r.Intn(n)
				what := g.alterStib(&m.Payset[i])
				lines = append(lines, verifC29BlockLine(fmt.Sprintf("alter:%d:%s", i, what), m))
			case 8: // one bit of one of the three header commitments
				w := r.Intn(3)
				switch w {
				case 0:
					m.TxnCommitments.NativeSha512_256Commitment[r.Intn(32)] ^= byte(1 << uint(r.Intn(8)))
				case 1:
					m.TxnCommitments.Sha256Commitment[r.Intn(32)] ^= byte(1 << uint(r.Intn(8)))
				case 2:
					m.TxnCommitments.Sha512Commitment[r.Intn(64)] ^= byte(1 << uint(r.Intn(8)))
				}
				lines = append(lines, verifC29BlockLine(fmt.Sprintf("hdrbit:%d", w), m))
			case 9: // one header commitment zeroed (only a change when it was set)
				w := r.Intn(3)
				switch w {
				case 0:
					if m.TxnCommitments.NativeSha512_256Commitment.IsZero() {
						continue
					}
					m.TxnCommitments.NativeSha512_256Commitment = crypto.Digest{}
				case 1:
					if m.TxnCommitments.Sha256Commitment.IsZero() {
						continue
					}
					m.TxnCommitments.Sha256Commitment = crypto.Digest{}
				case 2:
					if m.TxnCommitments.Sha512Commitment == (crypto.Sha512Digest{}) {
						continue
					}
					m.TxnCommitments.Sha512Commitment = crypto.Sha512Digest{}
				}
				lines = append(lines, verifC29BlockLine(fmt.Sprintf("hdrzero:%d", w), m))
			case 10: // payset altered, one commitment kept stale and the others recomputed
				if n < 1 || !known {
					continue
				}
				g.alterStib(&m.Payset[r.Intn(n)])
				fresh, err := m.PaysetCommit()
				if err != nil {
					continue
				}
				w := r.Intn(3)
				stale := m.TxnCommitments
				m.TxnCommitments = fresh
				switch w {
				case 0:
					m.TxnCommitments.NativeSha512_256Commitment = stale.NativeSha512_256Commitment
				case 1:
					m.TxnCommitments.Sha256Commitment = stale.Sha256Commitment
				case 2:
					m.TxnCommitments.Sha512Commitment = stale.Sha512Commitment
				}
				if m.TxnCommitments == fresh {
					continue // that commitment is not enabled in this version: nothing stale
				}
				lines = append(lines, verifC29BlockLine(fmt.Sprintf("stale:%d", w), m))
			case 11: // altered payset with all commitments recomputed: a different honest block
				if n < 1 || !known {
					continue
				}
				g.alterStib(&m.Payset[r.Intn(n)])
				if n >= 2 && r.Bool() {
					m.Payset[0], m.Payset[n-1] = m.Payset[n-1], m.Payset[0]
				}
				var err error
				m.TxnCommitments, err = m.PaysetCommit()
				if err != nil {
					continue
				}
				lines = append(lines, verifC29BlockLine("recommit", m))
			case 12: // stored transaction carries a genesis id in clear: DecodeSignedTxn refuses it
				if n < 1 {
					continue
				}
				i := r.Intn(n)
				m.Payset[i].Txn.GenesisID = verifC29GID
				lines = append(lines, verifC29BlockLine(fmt.Sprintf("gidclear:%d", i), m))
			}
		}
	}
	return lines
}

func (g *verifC29Gen) headers(cases int) []string {
	r := g.r
	var lines []string
	vers := []protocol.ConsensusVersion{protocol.ConsensusV25, protocol.ConsensusV33, protocol.ConsensusV40, protocol.ConsensusV41, protocol.ConsensusCurrentVersion, protocol.ConsensusFuture}
	line := func(kind, mut string, prev, cur BlockHeader) string {
		flag := "x"
		if p, ok := config.Consensus[cur.CurrentProtocol]; ok {
			flag = map[bool]string{false: "0", true: "1"}[p.EnableSha512BlockHash]
		}
		return fmt.Sprintf("%s %s %s %s %s", kind, mut, flag, hex.EncodeToString(protocol.Encode(&prev)), hex.EncodeToString(protocol.Encode(&cur)))
	}
	for c := 0; c < cases; c++ {
		cv := vers[r.Intn(len(vers))]
		var prev BlockHeader
		prev.CurrentProtocol = cv
		prev.Round = basics.Round(r.Intn(1000000))
		prev.GenesisID = verifC29GID
		prev.GenesisHash = verifC29GH()
		copy(prev.Branch[:], r.Bytes(32))
		copy(prev.Seed[:], r.Bytes(32))
		copy(prev.TxnCommitments.NativeSha512_256Commitment[:], r.Bytes(32))
		if r.Bool() {
			prev.TimeStamp = int64(1600000000 + r.Intn(1000000))
		}
		prev.RewardsState.FeeSink = basics.Address(crypto.Hash([]byte("c29-sink")))
		prev.RewardsState.RewardsPool = basics.Address(crypto.Hash([]byte("c29-pool")))
		cur := MakeBlock(prev).BlockHeader
		cur.TimeStamp = prev.TimeStamp
		if prev.TimeStamp > 0 {
			cur.TimeStamp += int64(r.Intn(10))
		}
		copy(cur.Seed[:], r.Bytes(32))
		lines = append(lines, line("pre", "honest", prev, cur))
		for k, nk := 0, 2+r.Intn(3); k < nk; k++ {
			m := cur
			switch r.Intn(10) {
			case 0:
				m.Branch[r.Intn(32)] ^= byte(1 << uint(r.Intn(8)))
				lines = append(lines, line("pre", "branchbit", prev, m))
			case 1:
				m.Branch = BlockHash{}
				lines = append(lines, line("pre", "branchzero", prev, m))
			case 2:
				m.Branch512[r.Intn(64)] ^= byte(1 << uint(r.Intn(8)))
				lines = append(lines, line("pre", "branch512bit", prev, m))
			case 3:
				if m.Branch512 == (crypto.Sha512Digest{}) {
					m.Branch512 = prev.Hash512() // the right hash under a version that does not allow the field
					lines = append(lines, line("pre", "branch512set", prev, m))
				} else {
					m.Branch512 = crypto.Sha512Digest{}
					lines = append(lines, line("pre", "branch512zero", prev, m))
				}
			case 4:
				if r.Bool() {
					m.Round++
				} else {
					m.Round--
				}
				lines = append(lines, line("pre", "round", prev, m))
			case 5: // links to a different predecessor: a header that differs from prev in one field
				o := prev
				switch r.Intn(4) {
				case 0:
					o.Seed[r.Intn(32)] ^= 1
				case 1:
					o.TxnCommitments.NativeSha512_256Commitment[r.Intn(32)] ^= 1
				case 2:
					o.Branch[r.Intn(32)] ^= 1
				case 3:
					o.TimeStamp++
				}
				m.Branch = o.Hash()
				if r.Bool() && m.Branch512 != (crypto.Sha512Digest{}) {
					m.Branch = prev.Hash()
					m.Branch512 = o.Hash512()
					lines = append(lines, line("pre", "otherprev512", prev, m))
				} else {
					if m.Branch512 != (crypto.Sha512Digest{}) {
						m.Branch512 = o.Hash512()
					}
					lines = append(lines, line("pre", "otherprev", prev, m))
				}
			case 6: // SHA-512/256 of the predecessor placed in the (truncated) wrong field and vice versa
				h512 := prev.Hash512()
				copy(m.Branch[:], h512[:32])
				lines = append(lines, line("pre", "branchfrom512", prev, m))
			case 7:
				m.CurrentProtocol = "verif-c29-unknown"
				lines = append(lines, line("pre", "unknownproto", prev, m))
			case 8:
				m.GenesisID = "other"
				lines = append(lines, line("prex", "genesisid", prev, m))
			case 9:
				m.GenesisHash[3] ^= 4
				lines = append(lines, line("prex", "genesishash", prev, m))
			}
		}
	}
	return lines
}

func TestVerifC29(t *testing.T) {
	out := vh.Open("c29b")
	defer out.Close()
	lines, replay := vh.ReplayOps()
	if !replay {
		g := &verifC29Gen{r: vh.NewRng(vh.Seed() ^ 0xc29)}
		lines = append(g.blocks(vh.Budget(120, 3000)), g.headers(vh.Budget(120, 3000))...)
	}
	for _, ln := range lines {
		ln := ln
		out.Emit(ln, vh.Catch(func() string { return verifC29Exec(ln) }))
	}
}
