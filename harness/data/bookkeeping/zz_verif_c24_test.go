//go:build verif

package bookkeeping

// C24 correspondence harness (bonus / congestion tax arithmetic):
//   bonus <current> <prevBonus> <curBaseRound> <curBaseAmount> <curDecay> <prevBaseRound> <prevBaseAmount> <prevDecay> ⇒ <microalgos>
//   ctax <prevLoad> <prevConTax> ⇒ <micros>
import (
	"fmt"
	"strings"
	"testing"

	"github.com/algorand/go-algorand/config"
	"github.com/algorand/go-algorand/data/basics"
	"github.com/algorand/go-algorand/zz_verif_tools/vh"
)

func verifC24Exec(op string) string {
	f := strings.Fields(op)
	res := vh.Catch(func() string {
		switch f[0] {
		case "bonus":
			cur := config.BonusPlan{BaseRound: vh.U(f[3]), BaseAmount: vh.U(f[4]), DecayInterval: vh.U(f[5])}
			prev := config.BonusPlan{BaseRound: vh.U(f[6]), BaseAmount: vh.U(f[7]), DecayInterval: vh.U(f[8])}
			return fmt.Sprintf("%d", computeBonus(vh.U(f[1]), basics.MicroAlgos{Raw: vh.U(f[2])}, cur, prev).Raw)
		case "ctax":
			return fmt.Sprintf("%d", uint64(NextCongestionTax(basics.Micros(vh.U(f[1])), basics.Micros(vh.U(f[2])))))
		}
		return "bad-op"
	})
	if strings.HasPrefix(res, "PANIC") {
		return "PANIC"
	}
	return res
}

func TestVerifC24(t *testing.T) {
	ops, replay := vh.ReplayOps()
	if !replay {
		rng := vh.NewRng(vh.Seed() + 2424)
		n := vh.Budget(20000, 1000000)
		for i := 0; i < n; i++ {
			if i%2 == 0 {
				base := uint64(rng.Intn(50))
				amt := []uint64{0, 10000000, rng.Biased64()}[rng.Intn(3)]
				dec := []uint64{0, 1, 7, 1000000}[rng.Intn(4)]
				pb, pa, pd := base, amt, dec
				if rng.Chance(40) {
					pb, pa, pd = uint64(rng.Intn(50)), []uint64{0, 5000000}[rng.Intn(2)], []uint64{0, 7}[rng.Intn(2)]
				}
				cur := []uint64{1, base, base + 1, uint64(rng.Intn(60)), dec * uint64(rng.Intn(5)), rng.Biased64()}[rng.Intn(6)]
				ops = append(ops, fmt.Sprintf("bonus %d %d %d %d %d %d %d %d", cur, rng.Biased64(), base, amt, dec, pb, pa, pd))
			} else {
				load := []uint64{0, 500000, 500001, 499999, 1000000, uint64(rng.Intn(1000001))}[rng.Intn(6)]
				ops = append(ops, fmt.Sprintf("ctax %d %d", load, rng.Biased64()))
			}
		}
	}
	out := vh.Open("c24")
	defer out.Close()
	for _, op := range ops {
		out.Emit(op, verifC24Exec(op))
	}
}
