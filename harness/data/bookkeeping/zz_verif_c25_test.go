//go:build verif

package bookkeeping

// C25 correspondence harness: the real RewardsState.NextRewardsState on generated operands.
// op: next <level> <rate> <residue> <recalcRound> <nextRound> <minBalance> <refreshInterval> <pendingResidue 0/1> <calcFix 0/1> <pool> <units>
//   ⇒ <level> <rate> <residue> <recalcRound>
import (
	"fmt"
	"io"
	"strings"
	"testing"

	"github.com/algorand/go-algorand/config"
	"github.com/algorand/go-algorand/data/basics"
	"github.com/algorand/go-algorand/logging"
	"github.com/algorand/go-algorand/zz_verif_tools/vh"
)

func verifC25Exec(op string, log logging.Logger) string {
	f := strings.Fields(op)
	return vh.Catch(func() string {
		switch f[0] {
		case "next":
			s := RewardsState{RewardsLevel: vh.U(f[1]), RewardsRate: vh.U(f[2]), RewardsResidue: vh.U(f[3]), RewardsRecalculationRound: basics.Round(vh.U(f[4]))}
			var p config.ConsensusParams
			p.MinBalance = vh.U(f[6])
			p.RewardsRateRefreshInterval = vh.U(f[7])
			p.PendingResidueRewards = f[8] == "1"
			p.RewardsCalculationFix = f[9] == "1"
			r := s.NextRewardsState(basics.Round(vh.U(f[5])), p, basics.MicroAlgos{Raw: vh.U(f[10])}, vh.U(f[11]), log)
			return fmt.Sprintf("%d %d %d %d", r.RewardsLevel, r.RewardsRate, r.RewardsResidue, uint64(r.RewardsRecalculationRound))
		case "wur":
			// wur <unit> <status> <algos> <rewarded> <base> <level>
			a, b, c := basics.WithUpdatedRewards(vh.U(f[1]), basics.Status(vh.U(f[2])), basics.MicroAlgos{Raw: vh.U(f[3])}, basics.MicroAlgos{Raw: vh.U(f[4])}, vh.U(f[5]), vh.U(f[6]))
			return fmt.Sprintf("%d %d %d", a.Raw, b.Raw, c)
		}
		return "bad-op"
	})
}

func verifC25Generate() []string {
	rng := vh.NewRng(vh.Seed() + 25)
	var ops []string
	b01 := func() int { return rng.Intn(2) }
	small := func() uint64 {
		switch rng.Intn(4) {
		case 0:
			return uint64(rng.Intn(4))
		case 1:
			return uint64(rng.Intn(100000))
		}
		return rng.Biased64()
	}
	n := vh.Budget(60000, 3000000)
	for i := 0; i < n; i++ {
		lvl, rate, res := rng.Biased64(), small(), small()
		recalc := uint64(rng.Intn(1000)) * 500000
		if rng.Chance(10) {
			recalc = rng.Biased64()
		}
		round := recalc
		if rng.Chance(45) {
			round = recalc + uint64(rng.Intn(5)) - 2
		}
		iv := uint64(1 + rng.Intn(3))
		switch rng.Intn(4) {
		case 0:
			iv = 500000
		case 1:
			iv = 1 + rng.Biased64()%1000000
		case 2:
			iv = rng.Biased64()
			if iv == 0 {
				iv = 1
			}
		}
		minb := []uint64{0, 1, 1000, 100000, rng.Biased64()}[rng.Intn(5)]
		pool := []uint64{0, minb, minb + res, minb + res + 1, minb - 1, rng.Biased64(), 10000000000000}[rng.Intn(7)]
		units := []uint64{0, 1, 2, 3, 1000, 6000000000, rng.Biased64(), rate + res, rate + res + 1}[rng.Intn(9)]
		if rng.Chance(30) {
			// realistic magnitudes
			lvl, rate, res = uint64(rng.Intn(1<<30)), uint64(rng.Intn(1<<40)), uint64(rng.Intn(1<<33))
			units = 1 + uint64(rng.Intn(1<<33))
		}
		ops = append(ops, fmt.Sprintf("next %d %d %d %d %d %d %d %d %d %d %d", lvl, rate, res, recalc, round, minb, iv, b01(), b01(), pool, units))
		if i%4 == 0 {
			unit := []uint64{1, 1000000, rng.Biased64() | 1}[rng.Intn(3)]
			alg, rew := rng.Biased64(), rng.Biased64()
			base := rng.Biased64() >> uint(rng.Intn(40))
			lv := base + uint64(rng.Intn(1000))
			if rng.Chance(10) {
				lv = rng.Biased64()
			}
			if rng.Chance(60) {
				alg >>= 20
			}
			ops = append(ops, fmt.Sprintf("wur %d %d %d %d %d %d", unit, rng.Intn(3), alg, rew, base, lv))
		}
	}
	return ops
}

func TestVerifC25(t *testing.T) {
	log := logging.NewLogger()
	log.SetOutput(io.Discard)
	logging.Base().SetOutput(io.Discard)
	ops, replay := vh.ReplayOps()
	if !replay {
		ops = verifC25Generate()
	}
	out := vh.Open("c25")
	defer out.Close()
	for _, op := range ops {
		res := verifC25Exec(op, log)
		if strings.HasPrefix(res, "PANIC") {
			res = "PANIC" // the panic text carries timestamps; the class is what is compared
		}
		out.Emit(op, res)
	}
}
