//go:build verif

package bookkeeping

// C26 correspondence harness: vote sequences through the REAL UpgradeState.applyUpgradeVote and
// BlockHeader.PreCheck under injected tiny-window consensus versions.
//
// One self-contained case per op line:
//
//	case <name:vr:thr:def:min:max:len[:K=D]>... | <cur> <next> <appr> <vb> <so> <round> | <P:d:a:m>...
//
// "-" is the empty protocol name. The listed versions are injected into config.Consensus for the duration of
// the case (copies of the current consensus parameters with only the upgrade parameters replaced) and the
// previous map content is restored afterwards. Each step P:d:a:m is a block for round <round>+1 carrying
// UpgradeVote{P,d,a}; its header claims the UpgradeState computed by the real applyUpgradeVote perturbed by m
// ("." faithful, c=X / n=X replace Current/NextProtocol, y/b/s add one to approvals / voteBefore / switchOn,
// z drops the pending proposal, r bumps the header round). Output per step:
// "<applyUpgradeVote result>/<PreCheck result>"; the chain advances iff applyUpgradeVote accepted the vote.
// An optional K=D makes K (delay D) the version's only ApprovedUpgrades entry. A step whose P is "@" carries the vote
// built by the real ProcessUpgradeParams (printed as "@P,d,a:" before the step's output, "@E:..." when it errs) and,
// when MakeBlock succeeds, its header is the one MakeBlock built (the proposer's path end to end).
import (
	"fmt"
	"os"
	"path/filepath"
	"sort"
	"strings"
	"testing"

	"github.com/algorand/go-algorand/config"
	"github.com/algorand/go-algorand/data/basics"
	"github.com/algorand/go-algorand/protocol"
	"github.com/algorand/go-algorand/zz_verif_tools/vh"
)

func verifC26Nm(s string) protocol.ConsensusVersion {
	if s == "-" {
		return ""
	}
	return protocol.ConsensusVersion(s)
}

func verifC26Show(v protocol.ConsensusVersion) string {
	if v == "" {
		return "-"
	}
	return string(v)
}

func verifC26State(s UpgradeState) string {
	return fmt.Sprintf("%s,%s,%d,%d,%d", verifC26Show(s.CurrentProtocol), verifC26Show(s.NextProtocol),
		uint64(s.NextProtocolApprovals), uint64(s.NextProtocolVoteBefore), uint64(s.NextProtocolSwitchOn))
}

func verifC26ErrCode(err error) string {
	m := err.Error()
	switch {
	case strings.Contains(m, "applyUpgradeVote: unsupported protocol"):
		return "unsupported"
	case strings.Contains(m, "new proposal during existing proposal"):
		return "dup"
	case strings.Contains(m, "too long"):
		return "toolong"
	case strings.Contains(m, "out of permissible range"):
		return "range"
	case strings.Contains(m, "nonzero when not proposing"):
		return "delaynp"
	case strings.Contains(m, "approval without an active proposal"):
		return "noprop"
	case strings.Contains(m, "approval after vote deadline"):
		return "late"
	}
	return "other(" + m + ")"
}

func verifC26PreCode(err error) string {
	if err == nil {
		return "ok"
	}
	m := err.Error()
	switch {
	case strings.HasPrefix(m, "BlockHeader.PreCheck: protocol"):
		return "rej:proto"
	case strings.HasPrefix(m, "block round incorrect"):
		return "rej:round"
	case strings.HasPrefix(m, "block branch"):
		return "rej:branch"
	case strings.HasPrefix(m, "UpgradeState mismatch"):
		return "rej:state"
	case strings.HasPrefix(m, "applyUpgradeVote:"):
		return "rej:E:" + verifC26ErrCode(err)
	}
	return "rej:rest(" + m + ")"
}

// verifC26Inject installs the case's versions; the returned func restores config.Consensus.
func verifC26Inject(toks []string) func() {
	type saved struct {
		name protocol.ConsensusVersion
		old  config.ConsensusParams
		had  bool
	}
	var sv []saved
	for _, t := range toks {
		f := strings.Split(t, ":")
		if len(f) != 7 && len(f) != 8 {
			panic("bad cfg token " + t)
		}
		name := protocol.ConsensusVersion(f[0])
		old, had := config.Consensus[name]
		sv = append(sv, saved{name, old, had})
		p := config.Consensus[protocol.ConsensusCurrentVersion]
		p.ApprovedUpgrades = map[protocol.ConsensusVersion]uint64{}
		p.UpgradeVoteRounds = vh.U(f[1])
		p.UpgradeThreshold = vh.U(f[2])
		p.DefaultUpgradeWaitRounds = vh.U(f[3])
		p.MinUpgradeWaitRounds = vh.U(f[4])
		p.MaxUpgradeWaitRounds = vh.U(f[5])
		p.MaxVersionStringLen = int(vh.I(f[6]))
		if len(f) == 8 {
			kd := strings.Split(f[7], "=")
			p.ApprovedUpgrades[verifC26Nm(kd[0])] = vh.U(kd[1])
		}
		config.Consensus[name] = p
	}
	return func() {
		for i := len(sv) - 1; i >= 0; i-- {
			if sv[i].had {
				config.Consensus[sv[i].name] = sv[i].old
			} else {
				delete(config.Consensus, sv[i].name)
			}
		}
	}
}

func verifC26Mutate(m string, s UpgradeState) UpgradeState {
	switch {
	case m == "y":
		s.NextProtocolApprovals++
	case m == "b":
		s.NextProtocolVoteBefore++
	case m == "s":
		s.NextProtocolSwitchOn++
	case m == "z":
		s.NextProtocol = ""
		s.NextProtocolApprovals = 0
		s.NextProtocolVoteBefore = 0
		s.NextProtocolSwitchOn = 0
	case strings.HasPrefix(m, "c="):
		s.CurrentProtocol = verifC26Nm(m[2:])
	case strings.HasPrefix(m, "n="):
		s.NextProtocol = verifC26Nm(m[2:])
	}
	return s
}

// verifC26Successor builds a header for `round` on top of prev that passes every PreCheck test other than the
// upgrade-state ones (branch, branch512, timestamp, bonus, congestion tax, load, genesis id/hash).
func verifC26Successor(prev BlockHeader, round basics.Round, vote UpgradeVote, claimed UpgradeState) BlockHeader {
	bh := BlockHeader{Round: round, GenesisID: prev.GenesisID, GenesisHash: prev.GenesisHash, Branch: prev.Hash(),
		UpgradeVote: vote, UpgradeState: claimed}
	if params, ok := config.Consensus[claimed.CurrentProtocol]; ok {
		if params.EnableSha512BlockHash {
			bh.Branch512 = prev.Hash512()
		}
		bh.Bonus = NextBonus(prev, &params)
	}
	bh.CongestionTax = NextCongestionTax(prev.Load, prev.CongestionTax)
	return bh
}

// verifC26MakeBlock runs the real MakeBlock (nil when it panics: unsupported next protocol, invalid constructed vote).
func verifC26MakeBlock(prev BlockHeader) (res *BlockHeader) {
	defer func() {
		if recover() != nil {
			res = nil
		}
	}()
	b := MakeBlock(prev)
	return &b.BlockHeader
}

func verifC26Exec(op string) string {
	return vh.Catch(func() string {
		f := strings.Fields(op)
		if len(f) == 0 || f[0] != "case" {
			return "bad-op"
		}
		var parts [][]string
		cur := []string{}
		for _, t := range f[1:] {
			if t == "|" {
				parts = append(parts, cur)
				cur = []string{}
			} else {
				cur = append(cur, t)
			}
		}
		parts = append(parts, cur)
		if len(parts) != 3 || len(parts[1]) != 6 {
			return "bad-case"
		}
		restore := verifC26Inject(parts[0])
		defer restore()
		in := parts[1]
		s := UpgradeState{CurrentProtocol: verifC26Nm(in[0]), NextProtocol: verifC26Nm(in[1]),
			NextProtocolApprovals: basics.Round(vh.U(in[2])), NextProtocolVoteBefore: basics.Round(vh.U(in[3])),
			NextProtocolSwitchOn: basics.Round(vh.U(in[4]))}
		r := basics.Round(vh.U(in[5]))
		var outs []string
		for _, tok := range parts[2] {
			g := strings.Split(tok, ":")
			if len(g) != 4 {
				outs = append(outs, "bad-step")
				continue
			}
			vote := UpgradeVote{UpgradePropose: verifC26Nm(g[0]), UpgradeDelay: basics.Round(vh.U(g[1])), UpgradeApprove: g[2] == "1"}
			rr := r + 1
			pfx := ""
			var made *BlockHeader
			if g[0] == "@" {
				// the proposer's side: the real ProcessUpgradeParams chooses the vote
				pprev := BlockHeader{Round: r, GenesisID: "verif-c26", UpgradeState: s}
				pprev.GenesisHash[0] = 0x26
				uv, _, perr := ProcessUpgradeParams(pprev)
				if perr != nil {
					m := perr.Error()
					switch {
					case strings.HasPrefix(m, "previous protocol"):
						outs = append(outs, "@E:unsupported")
					case strings.HasPrefix(m, "constructed invalid upgrade vote"):
						outs = append(outs, "@E:invalid:"+verifC26ErrCode(perr))
					default:
						outs = append(outs, "@E:other("+m+")")
					}
					continue
				}
				vote = uv
				a := 0
				if uv.UpgradeApprove {
					a = 1
				}
				pfx = fmt.Sprintf("@%s,%d,%d:", verifC26Show(uv.UpgradePropose), uint64(uv.UpgradeDelay), a)
				made = verifC26MakeBlock(pprev)
			}
			// the real state machine, called directly
			res, err := s.applyUpgradeVote(rr, vote)
			base := s
			if err == nil {
				base = res
			}
			// the real header check on a header claiming (a perturbation of) that state
			prev := BlockHeader{Round: r, GenesisID: "verif-c26", UpgradeState: s}
			prev.GenesisHash[0] = 0x26
			hr := rr
			if g[3] == "r" {
				hr = rr + 1
			}
			bh := verifC26Successor(prev, hr, vote, verifC26Mutate(g[3], base))
			if made != nil && made.UpgradeVote == vote {
				// MakeBlock's own header, with the same perturbation applied to what it claims
				claimed := verifC26Mutate(g[3], made.UpgradeState)
				mb := *made
				mb.Round = hr
				if _, ok := config.Consensus[claimed.CurrentProtocol]; ok && claimed.CurrentProtocol == made.CurrentProtocol {
					mb.UpgradeState = claimed
					bh = mb
				}
			}
			pre := verifC26PreCode(bh.PreCheck(prev))
			if err == nil {
				outs = append(outs, pfx+"ok:"+verifC26State(res)+"/"+pre)
				s, r = res, rr
			} else {
				outs = append(outs, pfx+"E:"+verifC26ErrCode(err)+"/"+pre)
			}
		}
		return strings.Join(outs, " ")
	})
}

// ---------------------------------------------------------------------------------------------- generator

var verifC26Muts = []string{".", ".", ".", "y", ".", "b", ".", "s", ".", "z", ".", "c=pB", ".", "n=pA", ".", "r", ".", "c=pA", "n=-", "c=pU", "."}

// verifC26Exhaustive: every vote sequence of length n over `alphabet` (prefixes are covered by the per-step output).
func verifC26Exhaustive(cfg, init string, alphabet []string, n int, ops *[]string) {
	idx := make([]int, n)
	cnt := 0
	for {
		var sb strings.Builder
		sb.WriteString("case " + cfg + " | " + init + " |")
		for i, k := range idx {
			sb.WriteString(" " + alphabet[k] + ":" + verifC26Muts[(cnt*7+i*3+k)%len(verifC26Muts)])
		}
		*ops = append(*ops, sb.String())
		cnt++
		i := n - 1
		for i >= 0 {
			idx[i]++
			if idx[i] < len(alphabet) {
				break
			}
			idx[i] = 0
			i--
		}
		if i < 0 {
			return
		}
	}
}

type verifC26Set struct {
	cfg, init string
	alphabet  []string
}

func verifC26Sets() []verifC26Set {
	quiet := func(p string) string { return p + " - 0 0 0 0" }
	return []verifC26Set{
		// window 3, threshold 2, delays 0(default 2)..3; the successor protocol has a 1-round window
		{"pA:3:2:2:0:3:4 pB:1:1:1:1:2:4", quiet("pA"), []string{"-:0:0", "-:0:1", "pB:0:1", "pB:0:0", "pA:1:1", "pB:3:1"}},
		// window 2, threshold 2 (every window round must approve), default wait 0: switch at the deadline round
		{"pA:2:2:0:0:1:4 pB:2:1:1:0:1:4", quiet("pA"), []string{"-:0:0", "-:0:1", "pB:0:1", "pB:1:1", "pB:0:0", "pA:0:1"}},
		// window 1, threshold 1: only the proposer itself can approve; threshold 0 protocol afterwards
		{"pA:1:1:1:0:2:4 pB:2:0:0:0:0:4", quiet("pA"), []string{"-:0:0", "-:0:1", "pB:0:1", "pB:2:0", "pA:0:0", "pU:0:1"}},
		// zero-length window and zero wait: propose, fail/switch in the same round
		{"pA:0:0:0:0:1:4 pB:0:1:0:0:0:4", quiet("pA"), []string{"-:0:0", "-:0:1", "pB:0:0", "pB:1:0", "pA:0:1", "pB:0:1"}},
		// the proposer's side: "@" = the vote ProcessUpgradeParams builds (pA approves pB with delay 1, pB approves pA with delay 2)
		{"pA:3:2:2:0:3:4:pB=1 pB:2:2:1:1:2:4:pA=2", quiet("pA"), []string{"@:0:0", "-:0:0", "-:0:1", "pB:0:1", "pA:1:0", "pB:3:0"}},
	}
}

func verifC26RandCase(rng *vh.Rng) string {
	names := []string{"pA", "pB", "pC", "pD"}
	nver := 1 + rng.Intn(4)
	var cfg []string
	for i := 0; i < nver; i++ {
		vr := rng.Intn(6)
		thr := rng.Intn(vr + 2)
		if rng.Chance(50) && vr > 0 {
			thr = 1 + rng.Intn(vr) // reachable thresholds
		}
		mn := rng.Intn(3)
		mx := mn + rng.Intn(4)
		if rng.Chance(10) {
			mx = rng.Intn(3) // possibly an empty range
		}
		tok := fmt.Sprintf("%s:%d:%d:%d:%d:%d:%d", names[i], vr, thr, rng.Intn(5), mn, mx, 1+rng.Intn(6))
		if rng.Chance(50) {
			// an approved upgrade, mostly a legal proposal
			k, d := []string{"pA", "pB", "pC", "pD", "pU", "pLongName"}[rng.Intn(6)], mn
			if mx > mn {
				d = mn + rng.Intn(mx-mn+1)
			}
			if rng.Chance(15) {
				d = rng.Intn(8)
			}
			tok += fmt.Sprintf(":%s=%d", k, d)
		}
		cfg = append(cfg, tok)
	}
	pool := append([]string{}, names[:nver]...)
	pool = append(pool, "pU", "pLongName")
	pick := func() string { return pool[rng.Intn(len(pool))] }
	init := names[0] + " - 0 0 0 0"
	round := uint64(0)
	switch rng.Intn(12) {
	case 0: // start deep in the chain
		round = uint64(rng.Intn(1000))
		init = fmt.Sprintf("%s - 0 0 0 %d", names[rng.Intn(nver)], round)
	case 1: // arbitrary (possibly unreachable) start state
		round = uint64(rng.Intn(12))
		init = fmt.Sprintf("%s %s %d %d %d %d", pick(), []string{"-", pick()}[rng.Intn(2)], rng.Intn(4), rng.Intn(16), rng.Intn(20), round)
	case 2: // rounds next to the uint64 wrap
		round = ^uint64(0) - uint64(rng.Intn(12))
		init = fmt.Sprintf("%s - 0 0 0 %d", names[0], round)
	}
	n := 8 + rng.Intn(60)
	if rng.Chance(10) {
		n = 100 + rng.Intn(300)
	}
	var sb strings.Builder
	sb.WriteString("case " + strings.Join(cfg, " ") + " | " + init + " |")
	pApprove := 30 + rng.Intn(65)
	pPropose := 10 + rng.Intn(40)
	pMake := []int{0, 0, 30, 80}[rng.Intn(4)]
	for i := 0; i < n; i++ {
		p, d, a := "-", 0, 0
		if rng.Chance(pMake) {
			p = "@"
		} else if rng.Chance(pPropose) {
			p = pick()
			if rng.Chance(60) {
				d = rng.Intn(7)
			}
		} else if rng.Chance(4) {
			d = 1 + rng.Intn(3) // delay without proposal
		}
		if rng.Chance(pApprove) {
			a = 1
		}
		m := "."
		if rng.Chance(35) {
			m = []string{"y", "b", "s", "z", "r", "c=" + pick(), "n=" + pick(), "n=-", "c=-"}[rng.Intn(9)]
		}
		fmt.Fprintf(&sb, " %s:%d:%d:%s", p, d, a, m)
	}
	return sb.String()
}

func verifC26Generate() []string {
	var ops []string
	rng := vh.NewRng(vh.Seed())
	// directed boundary cases (the situations named in DESIGN "Catches")
	ops = append(ops,
		// approval exactly at the deadline round must be refused
		"case pA:2:1:1:0:2:4 pB:1:1:1:0:0:4 | pA - 0 0 0 0 | pB:0:0:. -:0:0:. -:0:1:. -:0:0:. -:0:0:.",
		// approvals == threshold at the deadline: kept, then switches; approvals == threshold-1: cleared
		"case pA:3:2:1:0:2:4 pB:1:1:1:0:0:4 | pA - 0 0 0 0 | pB:0:1:. -:0:1:. -:0:0:. -:0:0:. -:0:0:. -:0:0:.",
		"case pA:3:2:1:0:2:4 pB:1:1:1:0:0:4 | pA - 0 0 0 0 | pB:0:1:. -:0:0:. -:0:0:. -:0:0:. -:0:0:. pB:0:1:.",
		// explicit delay vs default delay
		"case pA:2:1:3:1:4:4 pB:1:1:1:0:0:4 | pA - 0 0 0 7 | pB:4:1:. -:0:0:. -:0:0:. -:0:0:. -:0:0:. -:0:0:. -:0:0:. -:0:0:.",
		"case pA:2:1:3:0:4:4 pB:1:1:1:0:0:4 | pA - 0 0 0 7 | pB:0:1:. -:0:0:. -:0:0:. -:0:0:. -:0:0:. -:0:0:. -:0:0:.",
		// switch to a protocol the node does not know: later votes err, headers are rejected
		"case pA:1:1:0:0:0:4 | pA - 0 0 0 0 | pU:0:1:. -:0:0:. -:0:0:. -:0:0:c=pA",
		// honest proposers only: the vote of ProcessUpgradeParams at every round, through two upgrades
		"case pA:3:2:2:0:3:4:pB=1 pB:2:2:1:1:2:4:pA=2 | pA - 0 0 0 0 |" + strings.Repeat(" @:0:0:.", 14),
		// an approved upgrade that is not a legal proposal (delay out of range): ProcessUpgradeParams errs
		"case pA:3:2:2:1:3:4:pB=0 | pA - 0 0 0 0 | @:0:0:. -:0:0:. @:0:0:.",
		// name length bound, delay range, delay without proposal, approval without proposal, second proposal
		"case pA:2:1:1:1:2:2 | pA - 0 0 0 0 | pBB:1:0:. pB:0:0:. pB:3:0:. -:1:0:. -:0:1:. pB:1:0:. pC:1:0:. -:0:1:.",
	)
	sets := verifC26Sets()
	if vh.Thorough() {
		for _, st := range sets {
			verifC26Exhaustive(st.cfg, st.init, st.alphabet[:5], 8, &ops) // 5^8 each: every sequence up to length 8
			verifC26Exhaustive(st.cfg, st.init, st.alphabet, 6, &ops)     // 6^6 each: with the sixth letter
		}
	} else {
		for i, st := range sets {
			verifC26Exhaustive(st.cfg, st.init, st.alphabet, 5, &ops) // 6^5 each
			// a seeded slice of the length-8 universe
			var all []string
			verifC26Exhaustive(st.cfg, st.init, st.alphabet[:4+i%2], 8, &all)
			for k := 0; k < vh.Budget(1500, 0) && len(all) > 0; k++ {
				ops = append(ops, all[rng.Intn(len(all))])
			}
		}
	}
	n := vh.Budget(4000, 60000)
	for i := 0; i < n; i++ {
		ops = append(ops, verifC26RandCase(rng))
	}
	return ops
}

// verifC26DumpParams writes the upgrade parameters of every consensus version of the current tree (tie F).
func verifC26DumpParams() {
	dir := os.Getenv("VERIF_OUT")
	if dir == "" {
		dir = os.TempDir()
	}
	var names []string
	for k := range config.Consensus {
		names = append(names, string(k))
	}
	sort.Strings(names)
	var sb strings.Builder
	for _, n := range names {
		p := config.Consensus[protocol.ConsensusVersion(n)]
		var ups []string
		for k, d := range p.ApprovedUpgrades {
			ups = append(ups, fmt.Sprintf("%s=%d", string(k), d))
		}
		sort.Strings(ups)
		u := strings.Join(ups, ",")
		if u == "" {
			u = "-"
		}
		fmt.Fprintf(&sb, "%s %d %d %d %d %d %d %s\n", strings.ReplaceAll(n, " ", "_"), p.UpgradeVoteRounds, p.UpgradeThreshold,
			p.DefaultUpgradeWaitRounds, p.MinUpgradeWaitRounds, p.MaxUpgradeWaitRounds, p.MaxVersionStringLen, u)
	}
	if err := os.WriteFile(filepath.Join(dir, "c26.params"), []byte(sb.String()), 0o644); err != nil {
		panic(err)
	}
}

func TestVerifC26(t *testing.T) { //nolint:paralleltest // modifies config.Consensus (restored after every case)
	verifC26DumpParams() // before anything is injected
	if os.Getenv("VERIF_C26_PARAMS_ONLY") != "" {
		return
	}
	before := len(config.Consensus)
	ops, replay := vh.ReplayOps()
	if !replay {
		ops = verifC26Generate()
	}
	out := vh.Open("c26")
	defer out.Close()
	for _, op := range ops {
		out.Emit(op, verifC26Exec(op))
	}
	if len(config.Consensus) != before {
		t.Fatalf("config.Consensus not restored: %d != %d", len(config.Consensus), before)
	}
}
