//go:build verif

package logic

import (
	"encoding/hex"
	"fmt"
	"os"
	"strings"
	"testing"
)

func TestVerifC33Probe(t *testing.T) {
	b, err := os.ReadFile(os.Getenv("C33_PROBE"))
	if err != nil {
		t.Skip()
	}
	for _, src := range strings.Split(string(b), "\n====\n") {
		fmt.Println("---- SRC")
		fmt.Println(src)
		ops, err := AssembleStringWithVersion(src, assemblerNoVersion)
		if err != nil {
			fmt.Println("ASM1 ERR", err, ops.Errors)
			continue
		}
		fmt.Println("ASM1", hex.EncodeToString(ops.Program))
		txt, err := Disassemble(ops.Program)
		fmt.Println("DIS", err)
		fmt.Println(txt)
		ops2, err := AssembleStringWithVersion(txt, assemblerNoVersion)
		if err != nil {
			fmt.Println("ASM2 ERR", err, ops2.Errors)
			continue
		}
		fmt.Println("ASM2", hex.EncodeToString(ops2.Program), string(ops2.Program) == string(ops.Program))
	}
}
