//go:build verif

package logic

// C32 correspondence harness: every arithmetic / comparison / bitwise / byte-math / conversion /
// wide-arithmetic opcode as a tiny real TEAL program (push operands, apply the opcode) through the
// real assembler and the real evaluator, in LogicSig and application mode, at the newest AVM version
// and at the version that introduced the opcode.
//
// Op grammar:   op <opname> <operand>...      operands deepest-first; decimal = uint64, 0x<hex> = bytes
// Result:       ok <cell>...  (final stack, deepest first)  |  err <class>  |  PANIC ...  |  DIVERGE ...
import (
	"encoding/hex"
	"errors"
	"fmt"
	"math/big"
	"strconv"
	"strings"
	"testing"

	"github.com/algorand/go-algorand/data/basics"
	"github.com/algorand/go-algorand/zz_verif_tools/vh"
)

// opcode name -> (arity, AVM version that introduced it, operand kinds: i = uint64, b = bytes, a = any)
type verifC32Op struct {
	name  string
	kinds string
	intro uint64
}

var verifC32Ops = []verifC32Op{
	{"+", "ii", 1}, {"-", "ii", 1}, {"*", "ii", 1}, {"/", "ii", 1}, {"%", "ii", 1},
	{"<", "ii", 1}, {">", "ii", 1}, {"<=", "ii", 1}, {">=", "ii", 1}, {"&&", "ii", 1}, {"||", "ii", 1},
	{"==", "aa", 1}, {"!=", "aa", 1}, {"!", "i", 1}, {"~", "i", 1}, {"|", "ii", 1}, {"&", "ii", 1}, {"^", "ii", 1},
	{"itob", "i", 1}, {"btoi", "b", 1}, {"mulw", "ii", 1}, {"addw", "ii", 2}, {"divmodw", "iiii", 4},
	{"shl", "ii", 4}, {"shr", "ii", 4}, {"sqrt", "i", 4}, {"bitlen", "a", 4}, {"exp", "ii", 4}, {"expw", "ii", 4},
	{"divw", "iii", 6}, {"bsqrt", "b", 6},
	{"b+", "bb", 4}, {"b-", "bb", 4}, {"b*", "bb", 4}, {"b/", "bb", 4}, {"b%", "bb", 4},
	{"b<", "bb", 4}, {"b>", "bb", 4}, {"b<=", "bb", 4}, {"b>=", "bb", 4}, {"b==", "bb", 4}, {"b!=", "bb", 4},
	{"b|", "bb", 4}, {"b&", "bb", 4}, {"b^", "bb", 4}, {"b~", "b", 4},
}

var verifC32ByName = func() map[string]verifC32Op {
	m := map[string]verifC32Op{}
	for _, o := range verifC32Ops {
		m[o.name] = o
	}
	return m
}()

// ---------------------------------------------------------------------------------- executor

type verifC32Env struct {
	sig map[uint64]*EvalParams
	app map[uint64]*EvalParams
}

func newVerifC32Env() *verifC32Env {
	return &verifC32Env{sig: map[uint64]*EvalParams{}, app: map[uint64]*EvalParams{}}
}

func (e *verifC32Env) sigParams(v uint64) *EvalParams {
	ep := e.sig[v]
	if ep == nil {
		ep = defaultSigParamsWithVersion(v)
		ep.Trace = nil
		e.sig[v] = ep
	}
	ep.reset()
	return ep
}

func (e *verifC32Env) appParams(v uint64) *EvalParams {
	ep := e.app[v]
	if ep == nil {
		ep = defaultAppParamsWithVersion(v)
		ep.Trace = nil
		addr, err := basics.UnmarshalChecksumAddress(testAppCreator)
		if err != nil {
			panic(err)
		}
		ep.Ledger.(*Ledger).NewApp(addr, 888, basics.AppParams{})
		e.app[v] = ep
	}
	ep.reset()
	ep.Trace = nil
	return ep
}

// verifC32Class maps an evaluator error to a small enum by the stable part of its text.
func verifC32Class(err error) string {
	var pe panicError
	if errors.As(err, &pe) {
		return "PANIC " + fmt.Sprint(pe.PanicValue)
	}
	s := err.Error()
	has := func(x string) bool { return strings.Contains(s, x) }
	switch {
	case has("panic"):
		return "PANIC " + s
	case has("0^0") || has("undefined"):
		return "err undefined"
	case has("overflow"):
		return "err overflow"
	case has("negative"):
		return "err underflow"
	case has("too long") || has("large byte-array"):
		return "err toolong"
	case has("arg too big"):
		return "err range"
	case has("cannot compare") || has("wanted"):
		return "err type"
	case has("/ 0") || has("% 0") || has("divw 0") || has("by zero"):
		return "err div0"
	}
	return "err other(" + s + ")"
}

func verifC32Stack(cx *EvalContext) string {
	var sb strings.Builder
	sb.WriteString("ok")
	for _, sv := range cx.Stack {
		sb.WriteByte(' ')
		if sv.avmType() == avmBytes {
			sb.WriteString("0x" + hex.EncodeToString(sv.Bytes))
		} else {
			sb.WriteString(strconv.FormatUint(sv.Uint, 10))
		}
	}
	return sb.String()
}

// verifC32Outcome: every instruction succeeded <=> pc reached the end of the program; the final
// "exactly one non-zero int on the stack" verdict of the evaluator is irrelevant here.
func verifC32Outcome(cx *EvalContext, err error) string {
	if cx == nil {
		return "err other(no context: " + fmt.Sprint(err) + ")"
	}
	if cx.pc >= len(cx.program) && len(cx.program) > 0 {
		var pe panicError
		if err != nil && errors.As(err, &pe) {
			return "PANIC " + fmt.Sprint(pe.PanicValue)
		}
		return verifC32Stack(cx)
	}
	if err == nil {
		return "err other(stopped early without error)"
	}
	return verifC32Class(err)
}

func verifC32Source(name string, operands []string) (string, error) {
	var sb strings.Builder
	for _, o := range operands {
		if strings.HasPrefix(o, "0x") {
			if _, err := hex.DecodeString(o[2:]); err != nil {
				return "", err
			}
			sb.WriteString("byte " + o + "\n")
		} else {
			if _, err := strconv.ParseUint(o, 10, 64); err != nil {
				return "", err
			}
			sb.WriteString("int " + o + "\n")
		}
	}
	sb.WriteString(name + "\n")
	return sb.String(), nil
}

func (e *verifC32Env) exec(op string) string {
	f := strings.Fields(op)
	if len(f) < 2 || f[0] != "op" {
		return "bad-op"
	}
	spec, ok := verifC32ByName[f[1]]
	if !ok {
		return "bad-op"
	}
	src, err := verifC32Source(f[1], f[2:])
	if err != nil {
		return "bad-operand"
	}
	versions := []uint64{LogicVersion}
	if spec.intro != LogicVersion {
		versions = append(versions, spec.intro)
	}
	var results []string
	var labels []string
	for _, v := range versions {
		ops, aerr := AssembleStringWithVersion(notrack(src), v)
		if aerr != nil || len(ops.Errors) > 0 {
			return fmt.Sprintf("err other(assemble v%d: %v %v)", v, aerr, ops.Errors)
		}
		// LogicSig mode
		results = append(results, vh.Catch(func() string {
			ep := e.sigParams(v)
			ep.TxnGroup[0].Lsig.Logic = ops.Program
			_, cx, err := EvalSignatureFull(0, ep)
			return verifC32Outcome(cx, err)
		}))
		labels = append(labels, fmt.Sprintf("sig/v%d", v))
		// application mode (exists from v2)
		av := v
		if av < 2 {
			av = 2
			if aops, aerr := AssembleStringWithVersion(notrack(src), av); aerr == nil && len(aops.Errors) == 0 {
				ops = aops
			} else {
				return fmt.Sprintf("err other(assemble v%d: %v)", av, aerr)
			}
		}
		results = append(results, vh.Catch(func() string {
			ep := e.appParams(av)
			_, cx, err := EvalContract(ops.Program, 0, 888, ep)
			return verifC32Outcome(cx, err)
		}))
		labels = append(labels, fmt.Sprintf("app/v%d", av))
	}
	for i := 1; i < len(results); i++ {
		if results[i] != results[0] {
			var sb strings.Builder
			sb.WriteString("DIVERGE")
			for j := range results {
				sb.WriteString(" [" + labels[j] + ": " + results[j] + "]")
			}
			return sb.String()
		}
	}
	return results[0]
}

// ---------------------------------------------------------------------------------- generator

func verifC32Bound64() []uint64 {
	return []uint64{0, 1, 2, 3, 4, 7, 8, 9, 15, 16, 62, 63, 64, 65, 127, 128, 129, 255, 256, 65535, 65536,
		1<<31 - 1, 1 << 31, 1<<31 + 1, 1<<32 - 1, 1 << 32, 1<<32 + 1,
		3037000499, 3037000500, 3037000499 * 3037000499, 3037000499*3037000499 - 1, 3037000500 * 3037000500,
		4294967295 * 4294967295, 4294967295*4294967295 - 1, 4294967295*4294967295 + 1, 4294967295 * 4294967297,
		1 << 62, 1<<63 - 1, 1 << 63, 1<<63 + 1, ^uint64(0) - 1, ^uint64(0)}
}

func verifC32Hex(b []byte) string { return "0x" + hex.EncodeToString(b) }

func verifC32BigBytes(x *big.Int, pad int) []byte {
	b := x.Bytes()
	if pad > 0 {
		b = append(make([]byte, pad), b...)
	}
	return b
}

// 512-bit (and neighbouring) boundary byte strings
func verifC32BoundBytes() [][]byte {
	var out [][]byte
	rep := func(n int, b byte) []byte {
		r := make([]byte, n)
		for i := range r {
			r[i] = b
		}
		return r
	}
	for _, n := range []int{0, 1, 2, 8, 9, 31, 32, 33, 63, 64, 65, 66} {
		out = append(out, rep(n, 0))
		if n == 0 {
			continue
		}
		out = append(out, rep(n, 0xff))
		one := rep(n, 0)
		one[n-1] = 1
		out = append(out, one) // value 1 with n-1 leading zeros
		top := rep(n, 0)
		top[0] = 1
		out = append(out, top) // 256^(n-1)
		if n >= 2 {
			lz := rep(n, 0xff)
			lz[0] = 0
			out = append(out, lz) // one leading zero then all ones
			hb := rep(n, 0)
			hb[0] = 0x80
			out = append(out, hb)
		}
	}
	out = append(out, []byte{2}, []byte{3}, []byte{0, 2}, []byte{0xff, 0xfe}, []byte{1, 0, 0, 0, 0, 0, 0, 0, 0})
	return out
}

func verifC32RandBytes(rng *vh.Rng) []byte {
	var n int
	switch rng.Intn(8) {
	case 0:
		n = rng.Intn(4)
	case 1:
		n = 60 + rng.Intn(8) // around the 64-byte limit
	case 2:
		n = []int{8, 16, 32, 64}[rng.Intn(4)]
	default:
		n = rng.Intn(65)
	}
	b := rng.Bytes(n)
	switch rng.Intn(6) {
	case 0: // leading zeros
		for i := 0; i < n && i < 1+rng.Intn(4); i++ {
			b[i] = 0
		}
	case 1: // sparse
		for i := range b {
			if rng.Intn(3) != 0 {
				b[i] = 0
			}
		}
	case 2: // saturated
		for i := range b {
			if rng.Intn(4) != 0 {
				b[i] = 0xff
			}
		}
	}
	return b
}

func verifC32Clamp(b []byte, max int) []byte {
	if len(b) > max {
		return b[len(b)-max:]
	}
	return b
}

func verifC32Generate() []string {
	var ops []string
	rng := vh.NewRng(vh.Seed())
	add := func(name string, operands ...string) {
		ops = append(ops, "op "+name+" "+strings.Join(operands, " "))
	}
	u := func(x uint64) string { return strconv.FormatUint(x, 10) }
	bd := verifC32Bound64()
	bb := verifC32BoundBytes()

	// 1. uint64 family: every opcode x all pairs of boundary values
	for _, o := range verifC32Ops {
		switch o.kinds {
		case "ii":
			for _, a := range bd {
				for _, b := range bd {
					add(o.name, u(a), u(b))
				}
			}
		case "i":
			for _, a := range bd {
				add(o.name, u(a))
			}
		case "aa":
			for _, a := range bd {
				for _, b := range bd {
					if (a+b)%3 == 0 || a == b {
						add(o.name, u(a), u(b))
					}
				}
			}
			for i, a := range bb {
				for j, b := range bb {
					if (i+j)%5 == 0 || i == j {
						add(o.name, verifC32Hex(a), verifC32Hex(b))
					}
				}
			}
			add(o.name, "0", "0x")
			add(o.name, "0x", "0")
			add(o.name, "1", "0x01")
			add(o.name, "0x0000000000000001", "1")
		}
	}
	// small exhaustive corner: exp / expw near their overflow frontier, shifts for every amount
	for base := uint64(0); base <= 20; base++ {
		for e := uint64(0); e <= 130; e++ {
			if base <= 3 || e <= 66 {
				add("exp", u(base), u(e))
				add("expw", u(base), u(e))
			}
		}
	}
	for s := uint64(0); s <= 66; s++ {
		for _, a := range []uint64{1, 3, 1 << 63, ^uint64(0), 0x8000000000000001, 0x0123456789abcdef} {
			add("shl", u(a), u(s))
			add("shr", u(a), u(s))
		}
	}
	// largest base whose e-th power still fits, and its successor
	for e := uint64(2); e <= 64; e++ {
		for _, lim := range []uint{64, 128} {
			r := verifC32Root(lim, e)
			for _, d := range []int64{-1, 0, 1} {
				b := new(big.Int).Add(r, big.NewInt(d))
				if b.Sign() >= 0 && b.IsUint64() {
					name := "exp"
					if lim == 128 {
						name = "expw"
					}
					add(name, b.String(), u(e))
				}
			}
		}
	}
	// sqrt at and around perfect squares
	for _, k := range []uint64{1, 2, 3, 4, 5, 10, 255, 256, 65535, 65536, 1<<31 - 1, 1 << 31, 3037000499, 3037000500, 1<<32 - 2, 1<<32 - 1} {
		for _, d := range []int64{-2, -1, 0, 1, 2} {
			add("sqrt", u(k*k+uint64(d)))
		}
	}
	// divw: triples of boundary values (hi, lo, y)
	small := []uint64{0, 1, 2, 3, 1<<32 - 1, 1 << 32, 1<<63 - 1, 1 << 63, 1<<63 + 1, ^uint64(0) - 1, ^uint64(0)}
	for _, hi := range small {
		for _, lo := range small {
			for _, y := range small {
				add("divw", u(hi), u(lo), u(y))
			}
		}
	}
	// divmodw: quadruples
	tiny := []uint64{0, 1, 2, 1 << 32, 1 << 63, ^uint64(0) - 1, ^uint64(0)}
	for _, a := range tiny {
		for _, b := range tiny {
			for _, c := range tiny {
				for _, d := range tiny {
					add("divmodw", u(a), u(b), u(c), u(d))
				}
			}
		}
	}
	// bitlen / btoi / itob on boundaries
	for _, a := range bd {
		add("bitlen", u(a))
	}
	for _, b := range bb {
		add("bitlen", verifC32Hex(b))
		add("btoi", verifC32Hex(b))
		add("bsqrt", verifC32Hex(b))
		add("b~", verifC32Hex(b))
	}
	for n := 0; n <= 10; n++ {
		for _, fill := range []byte{0, 1, 0x7f, 0x80, 0xff} {
			b := make([]byte, n)
			for i := range b {
				b[i] = fill
			}
			add("btoi", verifC32Hex(b))
		}
	}
	// 2. byte math: every binary opcode x all pairs of 512-bit boundary strings
	for _, o := range verifC32Ops {
		if o.kinds == "bb" {
			for _, a := range bb {
				for _, b := range bb {
					add(o.name, verifC32Hex(a), verifC32Hex(b))
				}
			}
		}
	}
	// bsqrt around perfect squares of every size up to 512 bits
	for n := 1; n <= 32; n++ {
		for _, pat := range []byte{0x01, 0x80, 0xff} {
			r := make([]byte, n)
			for i := range r {
				r[i] = 0xff
			}
			r[0] = pat
			k := new(big.Int).SetBytes(r)
			sq := new(big.Int).Mul(k, k)
			for _, d := range []int64{-1, 0, 1} {
				x := new(big.Int).Add(sq, big.NewInt(d))
				if x.Sign() >= 0 {
					add("bsqrt", verifC32Hex(x.Bytes()))
					add("bsqrt", verifC32Hex(verifC32BigBytes(x, 1)))
				}
			}
		}
	}
	// bitwise byte ops have no 64-byte limit: long and very unequal operands
	for _, n := range []int{100, 1000, 4096} {
		for _, m := range []int{0, 1, 64, n} {
			a, b := rng.Bytes(n), rng.Bytes(m)
			for _, name := range []string{"b|", "b&", "b^"} {
				add(name, verifC32Hex(a), verifC32Hex(b))
				add(name, verifC32Hex(b), verifC32Hex(a))
			}
			add("b~", verifC32Hex(a))
		}
	}
	// operands of the wrong kind are rejected by the evaluator's argument check
	add("+", "0x01", "1")
	add("b+", "1", "0x01")
	add("btoi", "5")
	add("itob", "0x05")
	add("sqrt", "0x04")

	// 3. seeded random operands
	n := vh.Budget(30000, 1500000)
	// unary opcodes have a small boundary grid: give them three times the random weight
	var weighted []verifC32Op
	for _, o := range verifC32Ops {
		weighted = append(weighted, o)
		if len(o.kinds) == 1 {
			weighted = append(weighted, o, o)
		}
	}
	for i := 0; i < n; i++ {
		o := weighted[rng.Intn(len(weighted))]
		switch o.kinds {
		case "i":
			a := rng.Biased64()
			if o.name == "sqrt" && rng.Chance(40) {
				k := rng.U64() >> 32 >> uint(rng.Intn(32))
				a = k*k + uint64(rng.Intn(3)) - 1
			}
			add(o.name, u(a))
		case "ii":
			a, b := rng.Biased64(), rng.Biased64()
			switch o.name {
			case "shl", "shr":
				if rng.Chance(80) {
					b = uint64(rng.Intn(70))
				}
			case "exp", "expw":
				if rng.Chance(85) {
					b = uint64(rng.Intn(140))
					if rng.Chance(70) {
						// base close to the frontier root
						lim := uint(64)
						if o.name == "expw" {
							lim = 128
						}
						if b >= 1 {
							r := verifC32Root(lim, b)
							r.Add(r, big.NewInt(int64(rng.Intn(5))-2))
							if r.Sign() >= 0 && r.IsUint64() {
								a = r.Uint64()
							}
						}
					}
				}
			case "-", "<", ">", "<=", ">=":
				if rng.Chance(30) {
					b = a + uint64(rng.Intn(3)) - 1
				}
			case "*", "mulw":
				if rng.Chance(30) && a != 0 {
					b = ^uint64(0)/a + uint64(rng.Intn(3)) - 1 // product next to 2^64
				}
			case "+", "addw":
				if rng.Chance(30) {
					b = ^uint64(0) - a + uint64(rng.Intn(3)) - 1 // sum next to 2^64
				}
			}
			add(o.name, u(a), u(b))
		case "iii":
			hi, lo, y := rng.Biased64(), rng.Biased64(), rng.Biased64()
			if rng.Chance(50) {
				y = hi + uint64(rng.Intn(3)) - 1 // next to the quotient-overflow frontier y <= hi
			}
			add(o.name, u(hi), u(lo), u(y))
		case "iiii":
			a, b, c, d := rng.Biased64(), rng.Biased64(), rng.Biased64(), rng.Biased64()
			if rng.Chance(40) {
				c = 0
			}
			if rng.Chance(10) {
				d = 0
			}
			add(o.name, u(a), u(b), u(c), u(d))
		case "aa":
			if rng.Bool() {
				a, b := rng.Biased64(), rng.Biased64()
				if rng.Chance(40) {
					b = a
				}
				add(o.name, u(a), u(b))
			} else {
				a, b := verifC32RandBytes(rng), verifC32RandBytes(rng)
				if rng.Chance(40) {
					b = a
				} else if rng.Chance(20) {
					b = append([]byte{0}, a...) // numerically equal, different strings
				}
				add(o.name, verifC32Hex(a), verifC32Hex(b))
			}
		case "a":
			if rng.Bool() {
				add(o.name, u(rng.Biased64()))
			} else {
				add(o.name, verifC32Hex(verifC32RandBytes(rng)))
			}
		case "b":
			b := verifC32RandBytes(rng)
			switch o.name {
			case "btoi":
				if rng.Chance(80) {
					b = verifC32Clamp(b, 7+rng.Intn(4))
				}
			case "bsqrt":
				if rng.Chance(50) {
					k := new(big.Int).SetBytes(verifC32Clamp(b, 32))
					x := k.Mul(k, k)
					x.Add(x, big.NewInt(int64(rng.Intn(3))-1))
					if x.Sign() >= 0 {
						b = verifC32BigBytes(x, rng.Intn(2))
					}
				}
			}
			add(o.name, verifC32Hex(b))
		case "bb":
			a, b := verifC32RandBytes(rng), verifC32RandBytes(rng)
			x, y := new(big.Int).SetBytes(a), new(big.Int).SetBytes(b)
			switch rng.Intn(6) {
			case 0: // numerically equal or adjacent, possibly different padding
				y.Add(x, big.NewInt(int64(rng.Intn(3))-1))
				if y.Sign() < 0 {
					y.SetInt64(0)
				}
				b = verifC32Clamp(verifC32BigBytes(y, rng.Intn(3)), 66)
			case 1: // small divisor / factor
				b = verifC32Clamp(b, 1+rng.Intn(3))
			case 2: // same length
				if len(a) > 0 {
					b = rng.Bytes(len(a))
					if rng.Bool() {
						copy(b, a[:rng.Intn(len(a))]) // common prefix
					}
				}
			}
			add(o.name, verifC32Hex(a), verifC32Hex(b))
		}
	}
	return ops
}

// verifC32Root returns the largest r with r^e < 2^lim (e >= 1).
func verifC32Root(lim uint, e uint64) *big.Int {
	limit := new(big.Int).Lsh(big.NewInt(1), lim)
	lo, hi := big.NewInt(0), new(big.Int).Set(limit)
	ee := new(big.Int).SetUint64(e)
	for new(big.Int).Sub(hi, lo).Cmp(big.NewInt(1)) > 0 {
		mid := new(big.Int).Add(lo, hi)
		mid.Rsh(mid, 1)
		var p *big.Int
		if mid.BitLen() > 1 && uint64(mid.BitLen()-1)*e > uint64(lim) {
			p = limit // certainly too large
		} else {
			p = new(big.Int).Exp(mid, ee, nil)
		}
		if p.Cmp(limit) < 0 {
			lo = mid
		} else {
			hi = mid
		}
	}
	return lo
}

func TestVerifC32(t *testing.T) {
	ops, replay := vh.ReplayOps()
	if !replay {
		ops = verifC32Generate()
	}
	env := newVerifC32Env()
	out := vh.Open("c32")
	defer out.Close()
	for _, op := range ops {
		out.Emit(op, vh.Catch(func() string { return env.exec(op) }))
	}
}
