//go:build verif

package logic

// C34 — "programs cannot use features newer than their version or outside their mode".
//
// Two tests:
//
//   TestVerifC34Facts  (tie F)  dumps, from the tables of the CURRENT tree after the real init() ran,
//       (a) every OpSpecs row, (b) the built per-version tables opsByOpcode[v][op] incl. SubOps,
//       (c) every field group with each field's name / version / modes, (d) the AST-derived list of
//       ops whose implementation reaches ledger / inner-txn / eval-delta state,
//       as $VERIF_OUT/OpTable.lean (copied to lean/AlgoVerif/Gen/OpTable.lean by checks/C34.py) and
//       $VERIF_OUT/optable.json (python twin).
//
//   TestVerifC34       (tie C)  exhaustive correspondence. Op line grammar:
//       <kind> <mode> <minv> <pc> <hex program> <stack> # comment
//         kind  raw | op | field | nofield      (what the generator meant; the verdict depends on program bytes only)
//         mode  sig | app
//         minv  EvalParams.minAvmVersion of the environment the program runs in
//         pc    offset of the instruction under test (everything before it is stack set-up)
//         stack avm types on the stack when pc is reached, bottom first: string over i (uint64) / b (bytes), "-" = empty
//     result line:  chk=<ok|toonew|wrongmode|minver|badver|other|setupfail>  ev=<toonew|wrongmode|minver|badver|badfield|fieldmode|pass|rejected|ran|setupfail|PANIC>
//     ("pass" = the instruction ran or failed with a run-time error that is neither a version nor a mode error).
//     A side file c34.mon carries, per op line, `ran=<0|1> | <check error> | <eval error at pc>` for the monitor.

import (
	"encoding/binary"
	"encoding/hex"
	"encoding/json"
	"errors"
	"fmt"
	"go/ast"
	"go/parser"
	gotoken "go/token"
	"os"
	"path/filepath"
	"reflect"
	"regexp"
	"runtime"
	"sort"
	"strconv"
	"strings"
	"testing"

	"github.com/algorand/go-algorand/data/basics"
	"github.com/algorand/go-algorand/zz_verif_tools/vh"
)

// ---------------------------------------------------------------------------------------------
// tie F: fact extraction
// ---------------------------------------------------------------------------------------------

type verifC34Imm struct {
	Name      string `json:"name"`
	Kind      int    `json:"kind"`
	Group     string `json:"group"`     // EFFECTIVE field group consulted by the op's run-time check ("" = none)
	DeclGroup string `json:"declGroup"` // group attached to the immediate in OpSpecs
}

type verifC34Row struct {
	ID        int           `json:"id"`
	Opcode    int           `json:"opcode"`
	Sub       int           `json:"sub"`
	Name      string        `json:"name"`
	Version   int           `json:"version"`
	Modes     int           `json:"modes"`
	Size      int           `json:"size"`
	Imms      []verifC34Imm `json:"imms"`
	Args      []int         `json:"args"` // avmType of each popped argument (0 none, 1 any, 2 uint64, 3 bytes — see avmType)
	Rets      []int         `json:"rets"`
	ArgNames  []string      `json:"argNames"`
	RetNames  []string      `json:"retNames"`
	Trusted   bool          `json:"trusted"`
	HasCheck  bool          `json:"hasCheck"`
	Base      int           `json:"baseCost"`
	Chunk     int           `json:"chunkCost"`
	ChunkSize int           `json:"chunkSize"`
	Depth     int           `json:"depth"`
	FieldCost bool          `json:"fieldCost"`
	Fn        string        `json:"fn"`
	Touches   []string      `json:"touches"`
	Ungated   []string      `json:"ungated"`
}

type verifC34Field struct {
	Idx     int      `json:"idx"`
	Name    string   `json:"name"` // "" = slot hidden in this group (sparse Names)
	Version int      `json:"version"`
	Modes   int      `json:"modes"`
	Touches []string `json:"touches"`
}

type verifC34Group struct {
	Key    string          `json:"key"`
	Name   string          `json:"name"`
	Fields []verifC34Field `json:"fields"`
}

// the closed list of field groups this check understands. A group attached to an immediate that is not listed here
// makes the extractor fail (the tie breaks instead of letting the new group escape).
func verifC34GroupKeys() map[*FieldGroup]string {
	return map[*FieldGroup]string{
		&TxnFields: "TxnFields", &TxnScalarFields: "TxnScalarFields", &TxnArrayFields: "TxnArrayFields",
		&ItxnSettableFields: "ItxnSettableFields", &GlobalFields: "GlobalFields", &EcdsaCurves: "EcdsaCurves",
		&EcGroups: "EcGroups", &MimcConfigs: "MimcConfigs", &Poseidon2Configs: "Poseidon2Configs",
		&Base64Encodings: "Base64Encodings", &JSONRefTypes: "JSONRefTypes", &VrfStandards: "VrfStandards",
		&BlockFields: "BlockFields", &AssetHoldingFields: "AssetHoldingFields", &AssetParamsFields: "AssetParamsFields",
		&AppParamsFields: "AppParamsFields", &AppParamsSettableFields: "AppParamsSettableFields",
		&AcctParamsFields: "AcctParamsFields", &VoterParamsFields: "VoterParamsFields",
	}
}

// ops whose run-time field check consults another view of the field table than the group named in OpSpecs:
// itxn_field is registered with TxnFields but opItxnField checks txnFieldSpec.itxVersion (0 = never), which is exactly the
// ItxnSettableFields view (sparse names, Version() = itxVersion).
func verifC34EffectiveGroup(opName string, decl *FieldGroup) *FieldGroup {
	if opName == "itxn_field" && decl == &TxnFields {
		return &ItxnSettableFields
	}
	return decl
}

func verifC34FnName(f evalFunc) string {
	if f == nil {
		return ""
	}
	n := runtime.FuncForPC(reflect.ValueOf(f).Pointer()).Name()
	if i := strings.LastIndex(n, "."); i >= 0 {
		n = n[i+1:]
	}
	return n
}

func verifC34RowOf(id int, s *OpSpec, keys map[*FieldGroup]string, touch *verifC34Scan) (verifC34Row, error) {
	r := verifC34Row{ID: id, Opcode: int(s.Opcode), Sub: int(s.SubOpcode), Name: s.Name, Version: int(s.Version), Modes: int(s.Modes),
		Size: s.Size, Trusted: s.trusted, HasCheck: s.check != nil, Base: s.FullCost.baseCost, Chunk: s.FullCost.chunkCost,
		ChunkSize: s.FullCost.chunkSize, Depth: s.FullCost.depth, Fn: verifC34FnName(s.op)}
	for _, im := range s.Immediates {
		vi := verifC34Imm{Name: im.Name, Kind: int(im.kind)}
		if im.Group != nil {
			k, ok := keys[im.Group]
			if !ok {
				return r, fmt.Errorf("op %s: immediate %s uses a field group (%s) unknown to the C34 extractor", s.Name, im.Name, im.Group.Name)
			}
			vi.DeclGroup = k
			vi.Group = keys[verifC34EffectiveGroup(s.Name, im.Group)]
		}
		if im.fieldCosts != nil {
			r.FieldCost = true
		}
		r.Imms = append(r.Imms, vi)
	}
	for _, a := range s.Arg.Types {
		r.Args = append(r.Args, int(a.AVMType))
		r.ArgNames = append(r.ArgNames, a.String())
	}
	for _, a := range s.Return.Types {
		r.Rets = append(r.Rets, int(a.AVMType))
		r.RetNames = append(r.RetNames, a.String())
	}
	r.Touches = append([]string{}, touch.full[r.Fn]...)
	r.Ungated = append([]string{}, touch.ungated[r.Fn]...)
	return r, nil
}

// fingerprint of everything except id and version: used to recognise which OpSpecs row a built-table cell is a copy of
func (r verifC34Row) fingerprint() string {
	r.ID, r.Version = 0, 0
	b, _ := json.Marshal(r)
	return string(b)
}

// ----- AST scan: which op implementations reach ledger / inner-transaction / eval-delta state -----
//
// Every non-test .go file of the package is parsed. For every function or method (keyed by bare name) we record
//   - markers:  a selector `<x>.Ledger` (the application ledger; cx.SigLedger is a different selector and is NOT a marker),
//     a selector `<x>.subtxns` (inner transaction construction state),
//     an assignment whose left side mentions `.EvalDelta` (writes to the transaction's effects),
//     any use of `availableBox` (box state).
//   - callees:  every called identifier or method name that is itself a function of the package.
//   - field clauses: `case <FieldConst>, ...:` clauses of switch statements whose labels are field names of some field
//     group; markers and callees inside such a clause are attributed to those FIELDS, not to the function.
//
// Results (all over-approximations: by-name call graph, no receiver types):
//   - full[fn]     markers reachable from fn through every callee edge (op "touches state" when non-empty);
//   - ungated[fn]  markers reachable from fn without entering a field clause (state reached whatever the field is);
//   - field[name]  markers reachable from the clauses labelled with that field name.
//
// An op that allows signature mode must have ungated = [] and every field with markers must exclude signature mode
// (Lean: sig_mode_stateless). Today exactly one sig-allowed op has full != []: `global` (Round, LatestTimestamp, ... are
// ModeApp-only fields).
type verifC34Scan struct {
	full, ungated, field map[string][]string
}

func verifC34TouchScan(fieldNames map[string]bool) (*verifC34Scan, error) {
	fset := gotoken.NewFileSet()
	entries, err := os.ReadDir(".")
	if err != nil {
		return nil, err
	}
	type part struct {
		marks   map[string]bool
		callees map[string]bool
	}
	type clause struct {
		names []string
		part
	}
	type info struct {
		out     part
		clauses []*clause
	}
	newPart := func() part { return part{map[string]bool{}, map[string]bool{}} }
	fns := map[string]*info{}
	var scan func(n ast.Node, cur *part, in *info)
	scan = func(n ast.Node, cur *part, in *info) {
		ast.Inspect(n, func(nd ast.Node) bool {
			switch x := nd.(type) {
			case *ast.CaseClause:
				var names []string
				for _, e := range x.List {
					if id, ok := e.(*ast.Ident); ok && fieldNames[id.Name] {
						names = append(names, id.Name)
					}
				}
				if len(names) > 0 {
					c := &clause{names: names, part: newPart()}
					in.clauses = append(in.clauses, c)
					for _, st := range x.Body {
						scan(st, &c.part, in)
					}
					return false
				}
			case *ast.SelectorExpr:
				switch x.Sel.Name {
				case "Ledger":
					cur.marks["Ledger"] = true
				case "subtxns":
					cur.marks["subtxns"] = true
				}
			case *ast.Ident:
				if x.Name == "availableBox" {
					cur.marks["box"] = true
				}
			case *ast.AssignStmt:
				for _, l := range x.Lhs {
					ast.Inspect(l, func(m ast.Node) bool {
						if s, ok := m.(*ast.SelectorExpr); ok && s.Sel.Name == "EvalDelta" {
							cur.marks["EvalDelta"] = true
						}
						return true
					})
				}
			case *ast.CallExpr:
				switch fn := x.Fun.(type) {
				case *ast.Ident:
					cur.callees[fn.Name] = true
				case *ast.SelectorExpr:
					cur.callees[fn.Sel.Name] = true
				}
			}
			return true
		})
	}
	for _, e := range entries {
		n := e.Name()
		if !strings.HasSuffix(n, ".go") || strings.HasSuffix(n, "_test.go") {
			continue
		}
		f, err := parser.ParseFile(fset, n, nil, parser.SkipObjectResolution)
		if err != nil {
			return nil, err
		}
		for _, d := range f.Decls {
			fd, ok := d.(*ast.FuncDecl)
			if !ok || fd.Body == nil {
				continue
			}
			in := fns[fd.Name.Name]
			if in == nil {
				in = &info{out: newPart()}
				fns[fd.Name.Name] = in
			}
			scan(fd.Body, &in.out, in)
		}
	}
	closure := func(start []string, throughClauses bool) []string {
		seen := map[string]bool{}
		marks := map[string]bool{}
		var walk func(string)
		walk = func(n string) {
			if seen[n] {
				return
			}
			seen[n] = true
			in := fns[n]
			if in == nil {
				return
			}
			parts := []part{in.out}
			if throughClauses {
				for _, c := range in.clauses {
					parts = append(parts, c.part)
				}
			}
			for _, p := range parts {
				for m := range p.marks {
					marks[m] = true
				}
				for c := range p.callees {
					walk(c)
				}
			}
		}
		for _, s := range start {
			walk(s)
		}
		ms := []string{}
		for m := range marks {
			ms = append(ms, m)
		}
		sort.Strings(ms)
		return ms
	}
	res := &verifC34Scan{map[string][]string{}, map[string][]string{}, map[string][]string{}}
	fm := map[string]map[string]bool{}
	for name, in := range fns {
		res.full[name] = closure([]string{name}, true)
		res.ungated[name] = closure([]string{name}, false)
		for _, c := range in.clauses {
			var cs []string
			for k := range c.callees {
				cs = append(cs, k)
			}
			ms := closure(cs, true)
			for m := range c.marks {
				ms = append(ms, m)
			}
			for _, fn := range c.names {
				if fm[fn] == nil {
					fm[fn] = map[string]bool{}
				}
				for _, m := range ms {
					fm[fn][m] = true
				}
			}
		}
	}
	for fn, ms := range fm {
		var l []string
		for m := range ms {
			l = append(l, m)
		}
		sort.Strings(l)
		res.field[fn] = l
	}
	return res, nil
}

func verifC34LeanStr(s string) string {
	return strconv.Quote(s) // Go and Lean agree on the escapes that occur (\" and \\); names are ASCII
}

func verifC34NatList(xs []int) string {
	ss := make([]string, len(xs))
	for i, x := range xs {
		ss[i] = strconv.Itoa(x)
	}
	return "[" + strings.Join(ss, ", ") + "]"
}

func verifC34StrList(xs []string) string {
	ss := make([]string, len(xs))
	for i, x := range xs {
		ss[i] = verifC34LeanStr(x)
	}
	return "[" + strings.Join(ss, ", ") + "]"
}

func verifC34B(b bool) string {
	if b {
		return "true"
	}
	return "false"
}

type verifC34Key struct{ ID, Ver int } // a built cell is "row ID, with Version field Ver"

type verifC34Cell struct {
	Opcode int            `json:"opcode"`
	Spec   *verifC34Key   `json:"spec"`
	Subs   []*verifC34Key `json:"subs"`
	names  map[int]string // not dumped
}

func TestVerifC34Facts(t *testing.T) {
	keys := verifC34GroupKeys()
	allFieldNames := map[string]bool{}
	for g := range keys {
		for _, n := range g.Names {
			if n != "" {
				allFieldNames[n] = true
			}
		}
	}
	touch, err := verifC34TouchScan(allFieldNames)
	if err != nil {
		t.Fatalf("AST scan failed: %v", err)
	}
	var rows []verifC34Row
	byFP := map[string][]int{}
	for i := range OpSpecs {
		if OpSpecs[i].op == nil {
			t.Fatalf("OpSpecs[%d] (%s) has a nil evalFunc: the model assumes every row is executable", i, OpSpecs[i].Name)
		}
		if OpSpecs[i].SubOps != nil {
			t.Fatalf("OpSpecs[%d] (%s) carries its own SubOps: not modelled", i, OpSpecs[i].Name)
		}
		r, err := verifC34RowOf(i, &OpSpecs[i], keys, touch)
		if err != nil {
			t.Fatal(err)
		}
		rows = append(rows, r)
		fp := r.fingerprint()
		byFP[fp] = append(byFP[fp], i)
	}
	// which row is a built cell a copy of?  same columns; same version, or (table 0) version 0 for a version-1 row.
	// Several identical rows: the last one in OpSpecs order is what init() leaves in the table.
	identify := func(v int, s *OpSpec) *verifC34Key {
		if s.op == nil {
			return nil
		}
		r, err := verifC34RowOf(0, s, keys, touch)
		if err != nil {
			return &verifC34Key{ID: 99999, Ver: int(s.Version)}
		}
		best := -1
		for _, id := range byFP[r.fingerprint()] {
			rv := rows[id].Version
			if rv == int(s.Version) || (v == 0 && s.Version == 0 && rv == 1) {
				best = id
			}
		}
		if best < 0 {
			return &verifC34Key{ID: 99999, Ver: int(s.Version)} // no such row: the Lean comparison will fail
		}
		return &verifC34Key{ID: best, Ver: int(s.Version)}
	}
	built := make([][]verifC34Cell, LogicVersion+1)
	for v := 0; v <= LogicVersion; v++ {
		for op := 0; op < 256; op++ {
			c := &opsByOpcode[v][op]
			if c.op == nil && c.SubOps == nil {
				continue
			}
			cell := verifC34Cell{Opcode: op, Spec: identify(v, c)}
			for i := range c.SubOps {
				cell.Subs = append(cell.Subs, identify(v, &c.SubOps[i]))
			}
			built[v] = append(built[v], cell)
		}
	}
	// field groups: every group reachable from an immediate, plus the effective ones
	used := map[*FieldGroup]bool{}
	for i := range OpSpecs {
		for _, im := range OpSpecs[i].Immediates {
			if im.Group != nil {
				used[im.Group] = true
				used[verifC34EffectiveGroup(OpSpecs[i].Name, im.Group)] = true
			}
		}
	}
	var groups []verifC34Group
	for g := range used {
		vg := verifC34Group{Key: keys[g], Name: g.Name}
		for i, n := range g.Names {
			fr := verifC34Field{Idx: i}
			if n != "" {
				fs, ok := g.SpecByName(n)
				if !ok {
					t.Fatalf("group %s: name %s has no spec", vg.Key, n)
				}
				if int(fs.Field()) != i {
					t.Fatalf("group %s: field %s sits at index %d but its spec says %d", vg.Key, n, i, fs.Field())
				}
				fr.Name, fr.Version, fr.Modes = n, int(fs.Version()), int(fs.Modes())
				fr.Touches = touch.field[n]
			}
			vg.Fields = append(vg.Fields, fr)
		}
		groups = append(groups, vg)
	}
	sort.Slice(groups, func(i, j int) bool { return groups[i].Key < groups[j].Key })

	// ---------------- Lean ----------------
	var b strings.Builder
	b.WriteString(`/- GENERATED by harness/data/transactions/logic/zz_verif_c34_test.go:TestVerifC34Facts from the tables of
   data/transactions/logic (opcodes.go OpSpecs + the opsByOpcode tables built by init(), fields.go field groups). Do not edit.

   FORMAT (types in AlgoVerif/Model/OpTables.lean)
   * logicVersion            logic.LogicVersion
   * opSpecs : List Spec     one entry per OpSpecs row, IN SOURCE ORDER; columns of Spec.mk, positional:
       id        index of the row in OpSpecs
       opcode    OpSpec.Opcode (prefix byte for multi-byte opcodes)
       sub       OpDetails.SubOpcode (0 = single byte opcode)
       name      OpSpec.Name
       version   OpSpec.Version (AVM version that introduced THIS row)
       modes     OpDetails.Modes bit mask: 1 = ModeSig, 2 = ModeApp, 3 = any
       size      OpDetails.Size (0 = determined by the op's check function)
       imms      immediates in order: ⟨name, kind, group, declGroup⟩; kind = immKind enum
                 (0 byte,1 int8,2 label,3 varuint,4 bytes,5 ints,6 bytess,7 labels,8 varint label);
                 group = key of the field group the run-time check consults ("" none), declGroup = group named in OpSpecs
                 (they differ only for itxn_field: TxnFields declared, ItxnSettableFields checked)
       args/rets avmType of each popped / pushed value (0 none, 1 any, 2 uint64, 3 bytes)
       argNames/retNames  the StackType names (carry the length bounds, e.g. "[32]byte")
       trusted   OpDetails.trusted;  hasCheck  OpDetails.check != nil
       baseCost chunkCost chunkSize depth   OpDetails.FullCost;  fieldCost = cost depends on a field immediate
       fn        name of the evalFunc
       touches   state markers reachable from fn in the package call graph (AST scan, see the harness): subset of
                 ["EvalDelta","Ledger","box","subtxns"]; [] = implementation never reaches ledger state
       ungated   the same, but not entering 'case <Field>:' clauses (state reached whatever the field immediate is)
     (split into chunks opSpecs0.. to keep elaboration fast)
   * built v : List BuiltCell  the NON-EMPTY cells of the real opsByOpcode[v] (op != nil or SubOps != nil), ascending opcode:
       (opcode, spec?, subs) with spec? = some (row id, Version field of the copy in the table) and subs = SubOps slice,
       index = sub-opcode, none = zero OpSpec. Table 0 holds version-1 rows with Version overwritten to 0.
   * fieldGroups : List Group  every field group attached to an immediate (plus ItxnSettableFields): key, FieldGroup.Name and
       one FieldRow ⟨idx, name, version, modes, touches⟩ per slot of FieldGroup.Names ("" = slot hidden in this group; version =
       FieldSpec.Version(), modes = FieldSpec.Modes(), touches = state markers reachable from the 'case <name>:' clauses
       of the package, AST scan).
-/
import AlgoVerif.Model.OpTables
namespace Gen.OpTable
open Model.OpTables

`)
	fmt.Fprintf(&b, "def logicVersion : Nat := %d\n\n", LogicVersion)
	const chunk = 24
	nch := 0
	for i := 0; i < len(rows); i += chunk {
		fmt.Fprintf(&b, "def opSpecs%d : List Spec := [\n", nch)
		end := min(i+chunk, len(rows))
		for j := i; j < end; j++ {
			r := rows[j]
			var ims []string
			for _, im := range r.Imms {
				ims = append(ims, fmt.Sprintf("⟨%s, %d, %s, %s⟩", verifC34LeanStr(im.Name), im.Kind, verifC34LeanStr(im.Group), verifC34LeanStr(im.DeclGroup)))
			}
			sep := ","
			if j == end-1 {
				sep = ""
			}
			fmt.Fprintf(&b, "  ⟨%d, %d, %d, %s, %d, %d, %d, [%s], %s, %s, %s, %s, %s, %s, %d, %d, %d, %d, %s, %s, %s, %s⟩%s\n",
				r.ID, r.Opcode, r.Sub, verifC34LeanStr(r.Name), r.Version, r.Modes, r.Size, strings.Join(ims, ", "),
				verifC34NatList(r.Args), verifC34NatList(r.Rets), verifC34StrList(r.ArgNames), verifC34StrList(r.RetNames),
				verifC34B(r.Trusted), verifC34B(r.HasCheck), r.Base, r.Chunk, r.ChunkSize, r.Depth, verifC34B(r.FieldCost),
				verifC34LeanStr(r.Fn), verifC34StrList(r.Touches), verifC34StrList(r.Ungated), sep)
		}
		b.WriteString("]\n\n")
		nch++
	}
	b.WriteString("def opSpecs : List Spec :=\n  ")
	for i := 0; i < nch; i++ {
		if i > 0 {
			b.WriteString(" ++ ")
		}
		fmt.Fprintf(&b, "opSpecs%d", i)
	}
	b.WriteString("\n\n")
	keyStr := func(k *verifC34Key) string {
		if k == nil {
			return "none"
		}
		return fmt.Sprintf("some (%d, %d)", k.ID, k.Ver)
	}
	for v := 0; v <= LogicVersion; v++ {
		fmt.Fprintf(&b, "def built%d : List BuiltCell := [\n", v)
		for i, c := range built[v] {
			var ss []string
			for _, s := range c.Subs {
				ss = append(ss, keyStr(s))
			}
			sep := ","
			if i == len(built[v])-1 {
				sep = ""
			}
			fmt.Fprintf(&b, "  (%d, %s, [%s])%s\n", c.Opcode, keyStr(c.Spec), strings.Join(ss, ", "), sep)
		}
		b.WriteString("]\n\n")
	}
	b.WriteString("def built : List (List BuiltCell) := [")
	for v := 0; v <= LogicVersion; v++ {
		if v > 0 {
			b.WriteString(", ")
		}
		fmt.Fprintf(&b, "built%d", v)
	}
	b.WriteString("]\n\n")
	for _, g := range groups {
		fmt.Fprintf(&b, "def group%s : Group := ⟨%s, %s, [\n", g.Key, verifC34LeanStr(g.Key), verifC34LeanStr(g.Name))
		for i, f := range g.Fields {
			sep := ","
			if i == len(g.Fields)-1 {
				sep = ""
			}
			fmt.Fprintf(&b, "  ⟨%d, %s, %d, %d, %s⟩%s\n", f.Idx, verifC34LeanStr(f.Name), f.Version, f.Modes, verifC34StrList(f.Touches), sep)
		}
		b.WriteString("]⟩\n\n")
	}
	b.WriteString("def fieldGroups : List Group := [")
	for i, g := range groups {
		if i > 0 {
			b.WriteString(", ")
		}
		b.WriteString("group" + g.Key)
	}
	b.WriteString("]\n\nend Gen.OpTable\n")

	dir := os.Getenv("VERIF_OUT")
	if dir == "" {
		dir = os.TempDir()
	}
	if err := os.WriteFile(filepath.Join(dir, "OpTable.lean"), []byte(b.String()), 0o644); err != nil {
		t.Fatal(err)
	}
	twin := map[string]any{"logicVersion": LogicVersion, "rows": rows, "built": built, "groups": groups}
	jb, err := json.MarshalIndent(twin, "", " ")
	if err != nil {
		t.Fatal(err)
	}
	if err := os.WriteFile(filepath.Join(dir, "optable.json"), jb, 0o644); err != nil {
		t.Fatal(err)
	}
}

// ---------------------------------------------------------------------------------------------
// tie C: exhaustive correspondence
// ---------------------------------------------------------------------------------------------

func verifC34Uvarint(x uint64) []byte {
	var out []byte
	for x >= 0x80 {
		out = append(out, byte(x)|0x80)
		x >>= 7
	}
	return append(out, byte(x))
}

// lastRow returns the OpSpecs row the generator derives immediates / stack set-up from for (opcode, sub) at version v:
// the spec the real table holds at v when there is one, else the newest row of that (opcode, sub).
func verifC34SpecFor(v uint64, opcode byte, sub byte) *OpSpec {
	c := &opsByOpcode[v][opcode]
	if sub == 0 {
		if c.op != nil {
			return c
		}
	} else if int(sub) < len(c.SubOps) && c.SubOps[sub].op != nil {
		return &c.SubOps[sub]
	}
	var best *OpSpec
	for i := range OpSpecs {
		s := &OpSpecs[i]
		if s.Opcode == opcode && s.SubOpcode == sub && (best == nil || s.Version >= best.Version) {
			best = s
		}
	}
	return best
}

// build a minimal program of version v exercising `spec` with field immediate value `field` (-1: every field immediate 0).
// Stack set-up uses only intcblock/intc_0 and bytecblock/bytec (version 1, any mode), found by name in the real table.
// Returns program and the pc of the instruction under test.
func verifC34Program(v uint64, mode RunMode, spec *OpSpec, field int) ([]byte, int, string) {
	v1 := OpsByName[1]
	prog := []byte{byte(v)}
	stk := ""
	// constants
	needInt := false
	var lens []int
	lenIdx := map[int]int{}
	for _, a := range spec.Arg.Types {
		switch a.AVMType {
		case avmBytes:
			n := 32
			if a.Bound[0] == a.Bound[1] && a.Bound[0] > 0 {
				n = int(a.Bound[0])
			}
			if _, ok := lenIdx[n]; !ok {
				lenIdx[n] = len(lens)
				lens = append(lens, n)
			}
		case avmUint64, avmAny:
			needInt = true
		}
	}
	if needInt {
		prog = append(prog, v1["intcblock"].Opcode, 1, 1)
	}
	if len(lens) > 0 {
		prog = append(prog, v1["bytecblock"].Opcode, byte(len(lens)))
		sender := []byte("aoeuiaoeuiaoeuiaoeuiaoeuiaoeui00")
		for _, n := range lens {
			prog = append(prog, verifC34Uvarint(uint64(n))...)
			for i := 0; i < n; i++ {
				prog = append(prog, sender[i%len(sender)])
			}
		}
	}
	for _, a := range spec.Arg.Types {
		switch a.AVMType {
		case avmBytes:
			n := 32
			if a.Bound[0] == a.Bound[1] && a.Bound[0] > 0 {
				n = int(a.Bound[0])
			}
			prog = append(prog, v1["bytec"].Opcode, byte(lenIdx[n]))
			stk += "b"
		case avmUint64, avmAny:
			prog = append(prog, v1["intc_0"].Opcode)
			stk += "i"
		}
	}
	// op-specific prelude needed to reach the field check: itxn_field wants an open inner transaction
	if spec.Name == "itxn_field" {
		if b, ok := OpsByName[v]["itxn_begin"]; ok && (b.Modes&mode) != 0 {
			prog = append(prog, b.Opcode)
		}
	}
	pc := len(prog)
	prog = append(prog, spec.Opcode)
	if spec.SubOpcode != 0 {
		prog = append(prog, spec.SubOpcode)
	}
	for _, im := range spec.Immediates {
		switch im.kind {
		case immByte:
			if im.Group != nil && field >= 0 {
				prog = append(prog, byte(field))
			} else {
				prog = append(prog, 0)
			}
		case immInt8:
			prog = append(prog, 0)
		case immLabel:
			prog = append(prog, 0, 0)
		case immVarintLabel:
			prog = append(prog, 0)
		case immInt:
			prog = append(prog, 0)
		case immBytes:
			prog = append(prog, 0)
		case immInts, immBytess, immLabels:
			prog = append(prog, 0)
		}
	}
	for _, im := range spec.Immediates {
		if im.kind == immLabel || im.kind == immVarintLabel {
			// offset 0 branches to the next instruction; before v2 a branch to the very end of the program is illegal
			prog = append(prog, v1["err"].Opcode)
			break
		}
	}
	if stk == "" {
		stk = "-"
	}
	return prog, pc, stk
}

func verifC34ModeName(m RunMode) string {
	if m == ModeSig {
		return "sig"
	}
	return "app"
}

type verifC34Env struct {
	ep     *EvalParams
	ledger *Ledger
}

func verifC34MakeEnv(mode RunMode) verifC34Env {
	if mode == ModeSig {
		txn := makeSampleTxn()
		txn.Txn.RekeyTo = basics.Address{} // so that minAvmVersion is 0 and version 0/1 programs reach the tables
		ep := defaultSigParams(makeSampleTxnGroup(txn)...)
		ledger := NewLedger(nil)
		ep.SigLedger = ledger
		return verifC34Env{ep, ledger}
	}
	ep, _, ledger := makeSampleEnv()
	ep.Proto.MaxAppProgramCost = 100_000 // the budget check precedes the op's own field checks: keep it out of the way
	ep.reset()
	addr, err := basics.UnmarshalChecksumAddress(testAppCreator)
	if err != nil {
		panic(err)
	}
	ledger.NewApp(addr, 888, basics.AppParams{})
	ledger.NewAccount(ep.TxnGroup[0].Txn.Sender, 10_000_000)
	ledger.NewAccount(basics.AppIndex(888).Address(), 10_000_000)
	return verifC34Env{ep, ledger}
}

type verifC34Tracer struct {
	NullEvalTracer
	target int
	cur    int
	seen   bool
	err    error
}

func (t *verifC34Tracer) BeforeOpcode(cx *EvalContext) { t.cur = cx.pc }
func (t *verifC34Tracer) AfterOpcode(cx *EvalContext, err error) {
	if t.cur == t.target && !t.seen {
		t.seen, t.err = true, err
	}
}

var verifC34ModeRe = regexp.MustCompile(`^(txn|global)\[[^\]]*\] not allowed in current mode`)
var verifC34FieldRe = regexp.MustCompile(`^(invalid (txn field|global field|asset_holding_get field|asset_params_get field|app_params_get field|app_params_set field|acct_params_get field|voter_params_get field|itxn_field|block field|base64_decode encoding|json_ref type|curve|VRF standard|ec_[a-z_]+ group|mimc config|poseidon2 config)|unsupported array field)`)
var verifC34PcRe = regexp.MustCompile(`^pc= *(\d+) (.*)$`)

func verifC34BeginClass(msg string) string {
	switch {
	case strings.Contains(msg, "program version must be >="):
		return "minver"
	case strings.Contains(msg, "greater than max supported version"), strings.Contains(msg, "greater than protocol supported version"):
		return "badver"
	}
	return ""
}

func verifC34StepClass(msg string) string {
	switch {
	case strings.HasPrefix(msg, "illegal opcode"), strings.HasPrefix(msg, "prefix opcode"):
		return "toonew"
	case verifC34ModeRe.MatchString(msg):
		return "fieldmode"
	case strings.HasSuffix(msg, " not allowed in current mode"):
		return "wrongmode"
	case verifC34FieldRe.MatchString(msg):
		return "badfield"
	}
	return "err"
}

func verifC34IsPanic(err error) bool {
	var pe panicError
	return errors.As(err, &pe)
}

func verifC34Unwrap(err error) string {
	// the innermost message is what step() returned; EvalError wrappers add context around it
	for {
		u := errors.Unwrap(err)
		if u == nil {
			break
		}
		err = u
	}
	return err.Error()
}

// verifC34Exec runs one op line on the real code.
func verifC34Exec(line string) (string, string) {
	if i := strings.Index(line, "#"); i >= 0 {
		line = line[:i]
	}
	f := strings.Fields(line)
	if len(f) < 6 {
		return "bad-op", ""
	}
	kind := f[0]
	mode := ModeApp
	if f[1] == "sig" {
		mode = ModeSig
	}
	pc, _ := strconv.Atoi(f[3])
	prog, err := hex.DecodeString(f[4])
	if err != nil {
		return "bad-op", ""
	}
	if kind == "br" {
		return verifC34ExecBr(mode, f[2], prog)
	}
	env := verifC34MakeEnv(mode)
	ep := env.ep
	if fmt.Sprint(ep.minAvmVersion) != f[2] {
		return "ENVMISMATCH minv=" + fmt.Sprint(ep.minAvmVersion), ""
	}
	// ---- static check
	var cerr error
	if mode == ModeSig {
		ep.TxnGroup[0].Lsig.Logic = prog
		cerr = CheckSignature(0, ep)
	} else {
		cerr = CheckContract(prog, 0, ep)
	}
	chk, cmsg := "ok", ""
	if cerr != nil {
		cmsg = cerr.Error()
		switch {
		case verifC34IsPanic(cerr):
			chk = "PANIC"
		case verifC34BeginClass(cmsg) != "":
			chk = verifC34BeginClass(cmsg)
		default:
			m := verifC34PcRe.FindStringSubmatch(cmsg)
			if m == nil {
				chk = "other"
			} else if at, _ := strconv.Atoi(m[1]); at != pc {
				chk = "setupfail"
			} else {
				switch c := verifC34StepClass(m[2]); c {
				case "toonew", "wrongmode":
					chk = c
				default:
					chk = "other"
				}
			}
		}
	}
	// ---- evaluation, on a fresh environment
	env = verifC34MakeEnv(mode)
	ep = env.ep
	tr := &verifC34Tracer{target: pc}
	ep.Tracer = tr
	var eerr error
	if mode == ModeSig {
		ep.TxnGroup[0].Lsig.Logic = prog
		_, _, eerr = EvalSignatureFull(0, ep)
	} else {
		_, _, eerr = EvalContract(prog, 0, 888, ep)
	}
	ev, emsg, ran := "", "", 0
	switch {
	case eerr != nil && verifC34IsPanic(eerr):
		ev, emsg = "PANIC", strings.SplitN(eerr.Error(), "\n", 2)[0]
	case tr.seen && tr.err == nil:
		ev, ran = "ran", 1
	case tr.seen:
		emsg = verifC34Unwrap(tr.err)
		ev = verifC34StepClass(emsg)
	case eerr != nil && verifC34BeginClass(eerr.Error()) != "":
		emsg = eerr.Error()
		ev = verifC34BeginClass(emsg)
	default:
		ev = "setupfail"
		if eerr != nil {
			emsg = eerr.Error()
		}
	}
	// collapse to the classes the model decides
	if (kind == "raw" && (chk == "ok" || chk == "other" || chk == "setupfail")) || (kind == "nofield" && (chk == "ok" || chk == "other")) {
		// raw: uncrafted bytes, immediates may be missing / malformed / be decoded as further instructions;
		// nofield: a cost table indexed by a non-existent field reports a non-positive cost. The model decides neither.
		chk = "rest"
	}
	switch kind {
	case "nofield":
		switch ev {
		case "err", "badfield", "fieldmode":
			ev = "rejected"
		}
	default:
		switch ev {
		case "ran", "err":
			ev = "pass"
		}
	}
	one := func(s string) string { return strings.ReplaceAll(strings.ReplaceAll(s, "\n", " "), "|", "/") }
	return "chk=" + chk + " ev=" + ev, fmt.Sprintf("ran=%d | %s | %s", ran, one(cmsg), one(emsg))
}

func verifC34Generate() []string {
	var ops []string
	minv := map[RunMode]uint64{ModeSig: verifC34MakeEnv(ModeSig).ep.minAvmVersion, ModeApp: verifC34MakeEnv(ModeApp).ep.minAvmVersion}
	emit := func(kind string, mode RunMode, pc int, prog []byte, stk string, comment string) {
		ops = append(ops, fmt.Sprintf("%s %s %d %d %s %s # %s", kind, verifC34ModeName(mode), minv[mode], pc, hex.EncodeToString(prog), stk, comment))
	}
	modes := []RunMode{ModeSig, ModeApp}
	// (1) raw: every opcode byte x every version x both modes, bare and followed by characteristic next bytes;
	//     every (prefix, sub-opcode byte) pair for opcodes that are a prefix at ANY version.
	prefix := map[int]bool{}
	for v := 0; v <= LogicVersion; v++ {
		for op := 0; op < 256; op++ {
			if opsByOpcode[v][op].SubOps != nil {
				prefix[op] = true
			}
		}
	}
	for i := range OpSpecs {
		if OpSpecs[i].SubOpcode != 0 {
			prefix[int(OpSpecs[i].Opcode)] = true
		}
	}
	for v := 0; v <= LogicVersion; v++ {
		for _, m := range modes {
			for op := 0; op < 256; op++ {
				emit("raw", m, 1, []byte{byte(v), byte(op)}, "-", fmt.Sprintf("v%d 0x%02x", v, op))
				nexts := []int{0, 1, 255}
				if prefix[op] {
					nexts = nil
					for s := 0; s < 256; s++ {
						nexts = append(nexts, s)
					}
				}
				for _, s := range nexts {
					emit("raw", m, 1, []byte{byte(v), byte(op), byte(s)}, "-", fmt.Sprintf("v%d 0x%02x 0x%02x", v, op, s))
				}
			}
		}
	}
	// (2) op / field / nofield: every distinct (opcode, sub) named by OpSpecs with a proper stack and immediates
	type key struct{ op, sub byte }
	seen := map[key]bool{}
	var keysInOrder []key
	for i := range OpSpecs {
		k := key{OpSpecs[i].Opcode, OpSpecs[i].SubOpcode}
		if !seen[k] {
			seen[k] = true
			keysInOrder = append(keysInOrder, k)
		}
	}
	for _, k := range keysInOrder {
		for v := 0; v <= LogicVersion; v++ {
			for _, m := range modes {
				spec := verifC34SpecFor(uint64(v), k.op, k.sub)
				var grp *FieldGroup
				for _, im := range spec.Immediates {
					if im.Group != nil {
						grp = im.Group
					}
				}
				if grp == nil {
					prog, pc, stk := verifC34Program(uint64(v), m, spec, -1)
					emit("op", m, pc, prog, stk, fmt.Sprintf("v%d %s", v, spec.Name))
					continue
				}
				for fi := 0; fi < len(grp.Names); fi++ {
					prog, pc, stk := verifC34Program(uint64(v), m, spec, fi)
					nm := grp.Names[fi]
					if nm == "" {
						nm = "<hidden>"
					}
					emit("field", m, pc, prog, stk, fmt.Sprintf("v%d %s %s", v, spec.Name, nm))
				}
				for _, fi := range []int{len(grp.Names), len(grp.Names) + 1, 255} {
					if fi > 255 {
						continue
					}
					prog, pc, stk := verifC34Program(uint64(v), m, spec, fi)
					emit("nofield", m, pc, prog, stk, fmt.Sprintf("v%d %s #%d", v, spec.Name, fi))
				}
			}
		}
	}
	return ops
}

// ---------------------------------------------------------------------------------------------
// branch layouts (kind "br"): instruction boundaries and branch targets, check vs eval
// ---------------------------------------------------------------------------------------------
//
// op line:   br <mode> <minv> 0 <hex program> - # comment
// result:    chk=<ok|toonew|wrongmode|minver|badver|misaligned|outside|other|setupfail>
// side file: `ran=0 | <check error> | <eval error> | len=<n> starts=<pcs check recorded> reached=<pcs eval visited>`
// The Lean driver prints Model.OpCheck.staticCheck's verdict for the same bytes; checks/C34.py evaluates the monitor
// "check ok  =>  every pc eval reaches is an instruction start recorded by check (or the end of the program)".

// verifC34Instr: the minimal well-formed encoding of one instruction (field immediates 0, empty constant blocks, offset 0)
func verifC34Instr(spec *OpSpec) []byte {
	b := []byte{spec.Opcode}
	if spec.SubOpcode != 0 {
		b = append(b, spec.SubOpcode)
	}
	for _, im := range spec.Immediates {
		switch im.kind {
		case immLabel:
			b = append(b, 0, 0)
		default:
			b = append(b, 0)
		}
	}
	return b
}

// every spec a program of version v may use in `mode`, in table order (sub-opcodes after their prefix)
func verifC34Available(v uint64, mode RunMode) []*OpSpec {
	var out []*OpSpec
	for op := 0; op < 256; op++ {
		c := &opsByOpcode[v][op]
		if c.op != nil && (c.Modes&mode) != 0 {
			out = append(out, c)
		}
		for i := range c.SubOps {
			if c.SubOps[i].op != nil && (c.SubOps[i].Modes&mode) != 0 {
				out = append(out, &c.SubOps[i])
			}
		}
	}
	return out
}

func verifC34BranchKind(spec *OpSpec) immKind {
	for _, im := range spec.Immediates {
		if im.kind == immLabel || im.kind == immVarintLabel || im.kind == immLabels {
			return im.kind
		}
	}
	return immByte
}

// encode a branch instruction placed at `at` that goes to absolute position `target`; ok=false when not encodable
func verifC34EncodeBranch(spec *OpSpec, at int, target int) ([]byte, bool) {
	switch verifC34BranchKind(spec) {
	case immLabel:
		off := target - (at + 3)
		if off < -32768 || off > 32767 {
			return nil, false
		}
		return []byte{spec.Opcode, byte(uint16(int16(off)) >> 8), byte(uint16(int16(off)))}, true
	case immVarintLabel:
		if target < at {
			buf := make([]byte, binary.MaxVarintLen64)
			n := binary.PutVarint(buf, int64(target-at))
			return append([]byte{spec.Opcode}, buf[:n]...), true
		}
		for n := 1; n <= 3; n++ {
			off := target - (at + 1 + n)
			if off < 0 {
				return nil, false
			}
			buf := make([]byte, binary.MaxVarintLen64)
			if binary.PutVarint(buf, int64(off)) == n {
				return append([]byte{spec.Opcode}, buf[:n]...), true
			}
		}
		return nil, false
	case immLabels:
		off := target - (at + 4)
		if off < -32768 || off > 32767 {
			return nil, false
		}
		return []byte{spec.Opcode, 1, byte(uint16(int16(off)) >> 8), byte(uint16(int16(off)))}, true
	}
	return nil, false
}

// width of the encoding verifC34EncodeBranch will produce for a FORWARD branch with a small offset
func verifC34BranchWidth(spec *OpSpec) int {
	switch verifC34BranchKind(spec) {
	case immLabel:
		return 3
	case immVarintLabel:
		return 2
	}
	return 4
}

// values a branch needs on the stack to be TAKEN (constants: intc_0 = 0, intc_1 = 1)
func verifC34BranchPushes(spec *OpSpec) []byte {
	v1 := OpsByName[1]
	i0, i1 := v1["intc_0"].Opcode, v1["intc_1"].Opcode
	switch spec.Name {
	case "bnz":
		return []byte{i1}
	case "bz", "switch":
		return []byte{i0}
	case "match":
		return []byte{i1, i1}
	}
	var out []byte
	for range spec.Arg.Types {
		out = append(out, i0)
	}
	return out
}

// "fat" shapes of the dynamically sized instructions, by name, when available
func verifC34FatVictims(v uint64, mode RunMode) [][]byte {
	var out [][]byte
	add := func(name string, tail ...byte) {
		if s, ok := OpsByName[v][name]; ok && (s.Modes&mode) != 0 {
			out = append(out, append([]byte{s.Opcode}, tail...))
		}
	}
	add("intcblock", 2, 0xac, 0x02, 1)        // [300, 1]
	add("bytecblock", 2, 2, 'a', 'b', 0)      // ["ab", ""]
	add("pushbytes", 3, 'a', 'b', 'c')        //
	add("pushint", 0xac, 0x02)                // 300
	add("pushints", 2, 0xac, 0x02, 1)         //
	add("pushbytess", 2, 1, 'x', 2, 'y', 'z') //
	long := []byte{70}
	for i := 0; i < 70; i++ {
		long = append(long, byte('a'+i%26))
	}
	add("pushbytes", long...) // pushes back-branch offsets beyond one varint byte
	return out
}

func verifC34BranchPrograms(v uint64, mode RunMode) (progs [][]byte, notes []string) {
	v1 := OpsByName[1]
	head := []byte{byte(v), v1["intcblock"].Opcode, 2, 0, 1}
	tail := []byte{v1["intc_0"].Opcode}
	avail := verifC34Available(v, mode)
	var branches []*OpSpec
	type victim struct {
		b    []byte
		name string
	}
	var victims []victim
	singles := 0
	for _, s := range avail {
		if verifC34BranchKind(s) != immByte {
			branches = append(branches, s)
		}
		enc := verifC34Instr(s)
		if len(enc) > 1 {
			victims = append(victims, victim{enc, s.Name})
		} else if singles < 2 {
			singles++
			victims = append(victims, victim{enc, s.Name})
		}
	}
	for _, f := range verifC34FatVictims(v, mode) {
		victims = append(victims, victim{f, "fat"})
	}
	var skip *OpSpec // a conditional branch that exists in every version: used to jump over the victim of a back branch
	for _, s := range branches {
		if s.Name == "bnz" {
			skip = s
		}
	}
	for _, br := range branches {
		pushes := verifC34BranchPushes(br)
		for vi, vic := range victims {
			// forward: head pushes BR VICTIM tail ; targets victim+0 .. victim+len, and (first victim only) len, len+1, 0
			at := len(head) + len(pushes)
			vs := at + verifC34BranchWidth(br)
			total := vs + len(vic.b) + len(tail)
			targets := []int{}
			for j := 0; j <= len(vic.b); j++ {
				targets = append(targets, vs+j)
			}
			if vi == 0 {
				targets = append(targets, total, total+1, at, at+1, 1, 0)
			}
			for _, tg := range targets {
				enc, ok := verifC34EncodeBranch(br, at, tg)
				if !ok || (tg >= vs && len(enc) != vs-at) {
					continue
				}
				p := append([]byte{}, head...)
				p = append(p, pushes...)
				p = append(p, enc...)
				if len(enc) != vs-at { // backward / self targets of the first victim: layout shifts, targets are what they are
					vs2 := at + len(enc)
					_ = vs2
				}
				p = append(p, vic.b...)
				p = append(p, tail...)
				progs = append(progs, p)
				notes = append(notes, fmt.Sprintf("v%d %s fwd ->%d over %s@%d+%d", v, br.Name, tg, vic.name, at+len(enc), len(vic.b)))
			}
			// backward: head intc_1 SKIP VICTIM pushes BR ; SKIP goes to `pushes`; BR goes back to victim+j
			if skip == nil {
				continue
			}
			sat := len(head) + 1
			svs := sat + verifC34BranchWidth(skip)
			after := svs + len(vic.b)
			senc, ok := verifC34EncodeBranch(skip, sat, after)
			if !ok || len(senc) != svs-sat {
				continue
			}
			bat := after + len(pushes)
			for j := -1; j < len(vic.b); j++ {
				enc, ok := verifC34EncodeBranch(br, bat, svs+j)
				if !ok {
					continue
				}
				p := append([]byte{}, head...)
				p = append(p, v1["intc_1"].Opcode)
				p = append(p, senc...)
				p = append(p, vic.b...)
				p = append(p, pushes...)
				p = append(p, enc...)
				progs = append(progs, p)
				notes = append(notes, fmt.Sprintf("v%d %s back ->%d into %s@%d+%d", v, br.Name, svs+j, vic.name, svs, len(vic.b)))
			}
		}
	}
	return
}

// seeded random layouts: 2..5 instructions drawn from the multi-byte shapes, 1..2 branches with targets anywhere in 0..len+1
func verifC34RandomBranchPrograms(rng *vh.Rng, n int) (progs [][]byte, notes []string, modes []RunMode) {
	v1 := OpsByName[1]
	for i := 0; i < n; i++ {
		v := uint64(1 + rng.Intn(LogicVersion))
		mode := []RunMode{ModeSig, ModeApp}[rng.Intn(2)]
		avail := verifC34Available(v, mode)
		var branches, multi []*OpSpec
		for _, s := range avail {
			if verifC34BranchKind(s) != immByte {
				branches = append(branches, s)
			} else if len(verifC34Instr(s)) > 1 {
				multi = append(multi, s)
			}
		}
		fat := verifC34FatVictims(v, mode)
		p := []byte{byte(v), v1["intcblock"].Opcode, 2, 0, 1}
		var holes []int // positions of branch instructions to patch
		var hspec []*OpSpec
		k := 2 + rng.Intn(4)
		for j := 0; j < k; j++ {
			switch {
			case len(branches) > 0 && rng.Chance(45):
				br := branches[rng.Intn(len(branches))]
				p = append(p, verifC34BranchPushes(br)...)
				holes = append(holes, len(p))
				hspec = append(hspec, br)
				p = append(p, make([]byte, verifC34BranchWidth(br))...)
			case len(fat) > 0 && rng.Chance(25):
				p = append(p, fat[rng.Intn(len(fat))]...)
			default:
				// sub-opcode families are few among ~70 multi-byte shapes: draw them more often
				var subs []*OpSpec
				for _, s := range multi {
					if s.SubOpcode != 0 {
						subs = append(subs, s)
					}
				}
				if len(subs) > 0 && rng.Chance(40) {
					p = append(p, verifC34Instr(subs[rng.Intn(len(subs))])...)
				} else if len(multi) > 0 {
					p = append(p, verifC34Instr(multi[rng.Intn(len(multi))])...)
				}
			}
		}
		p = append(p, v1["intc_0"].Opcode)
		okAll := true
		for h, at := range holes {
			tg := rng.Intn(len(p) + 2)
			enc, ok := verifC34EncodeBranch(hspec[h], at, tg)
			if !ok || len(enc) != verifC34BranchWidth(hspec[h]) {
				// keep the layout: fall back to the next instruction
				enc, ok = verifC34EncodeBranch(hspec[h], at, at+verifC34BranchWidth(hspec[h]))
				if !ok {
					okAll = false
					break
				}
			}
			copy(p[at:], enc)
		}
		if !okAll {
			continue
		}
		progs = append(progs, p)
		notes = append(notes, fmt.Sprintf("v%d random layout", v))
		modes = append(modes, mode)
	}
	return
}

type verifC34PcTracer struct {
	NullEvalTracer
	pcs []int
}

func (t *verifC34PcTracer) BeforeOpcode(cx *EvalContext) {
	if len(t.pcs) < 200 {
		t.pcs = append(t.pcs, cx.pc)
	}
}

func verifC34CheckClass(cerr error) (string, string) {
	if cerr == nil {
		return "ok", ""
	}
	msg := cerr.Error()
	if verifC34IsPanic(cerr) {
		return "PANIC", strings.SplitN(msg, "\n", 2)[0]
	}
	if c := verifC34BeginClass(msg); c != "" {
		return c, msg
	}
	m := verifC34PcRe.FindStringSubmatch(msg)
	if m == nil {
		return "other", msg
	}
	switch {
	case strings.Contains(m[2], "is not an aligned instruction"):
		return "misaligned", msg
	case strings.Contains(m[2], "outside of program"), strings.Contains(m[2], "negative branch offset"):
		return "outside", msg
	}
	switch c := verifC34StepClass(m[2]); c {
	case "toonew", "wrongmode":
		return c, msg
	}
	return "other", msg
}

func verifC34BrEnv(mode RunMode) verifC34Env {
	env := verifC34MakeEnv(mode)
	// small budgets: aligned back branches loop until the budget is gone
	env.ep.Proto.MaxAppProgramCost = 3000
	env.ep.Proto.LogicSigMaxCost = 3000
	env.ep.reset()
	return env
}

func verifC34ExecBr(mode RunMode, minv string, prog []byte) (string, string) {
	env := verifC34BrEnv(mode)
	ep := env.ep
	if fmt.Sprint(ep.minAvmVersion) != minv {
		return "ENVMISMATCH minv=" + fmt.Sprint(ep.minAvmVersion), ""
	}
	var cerr error
	if mode == ModeSig {
		ep.TxnGroup[0].Lsig.Logic = prog
		cerr = CheckSignature(0, ep)
	} else {
		cerr = CheckContract(prog, 0, ep)
	}
	chk, cmsg := verifC34CheckClass(cerr)
	// instruction starts: the real checkStep driven exactly like check() drives it
	var starts []int
	if cerr == nil {
		env2 := verifC34BrEnv(mode)
		var cx EvalContext
		cx.EvalParams = env2.ep
		cx.runMode = mode
		cx.branchTargets = make([]bool, len(prog)+1)
		cx.instructionStarts = make([]bool, len(prog)+1)
		cx.txn = &env2.ep.TxnGroup[0]
		if err := cx.begin(prog); err != nil {
			return "chk=setupfail", "own check loop: begin failed: " + err.Error()
		}
		for cx.pc < len(cx.program) {
			prev := cx.pc
			if _, err := cx.checkStep(); err != nil || cx.pc <= prev {
				return "chk=setupfail", fmt.Sprintf("own check loop rejected at %d what Check accepted: %v", prev, err)
			}
		}
		for i, b := range cx.instructionStarts {
			if b {
				starts = append(starts, i)
			}
		}
	}
	env3 := verifC34BrEnv(mode)
	tr := &verifC34PcTracer{}
	env3.ep.Tracer = tr
	var eerr error
	if mode == ModeSig {
		env3.ep.TxnGroup[0].Lsig.Logic = prog
		_, _, eerr = EvalSignatureFull(0, env3.ep)
	} else {
		_, _, eerr = EvalContract(prog, 0, 888, env3.ep)
	}
	emsg := ""
	if eerr != nil {
		emsg = strings.SplitN(eerr.Error(), "\n", 2)[0]
		if verifC34IsPanic(eerr) && cerr == nil {
			chk = "PANIC"
		}
	}
	seen := map[int]bool{}
	var reached []string
	for _, pc := range tr.pcs {
		if !seen[pc] {
			seen[pc] = true
			reached = append(reached, strconv.Itoa(pc))
		}
	}
	ss := make([]string, len(starts))
	for i, x := range starts {
		ss[i] = strconv.Itoa(x)
	}
	one := func(s string) string { return strings.ReplaceAll(strings.ReplaceAll(s, "\n", " "), "|", "/") }
	return "chk=" + chk, fmt.Sprintf("ran=0 | %s | %s | len=%d starts=%s reached=%s", one(cmsg), one(emsg), len(prog), strings.Join(ss, ","), strings.Join(reached, ","))
}

func verifC34GenerateBr() []string {
	var ops []string
	minv := map[RunMode]uint64{ModeSig: verifC34MakeEnv(ModeSig).ep.minAvmVersion, ModeApp: verifC34MakeEnv(ModeApp).ep.minAvmVersion}
	emit := func(mode RunMode, prog []byte, note string) {
		ops = append(ops, fmt.Sprintf("br %s %d 0 %s - # %s", verifC34ModeName(mode), minv[mode], hex.EncodeToString(prog), note))
	}
	for v := 0; v <= LogicVersion; v++ {
		for _, m := range []RunMode{ModeSig, ModeApp} {
			if uint64(v) < minv[m] {
				continue
			}
			progs, notes := verifC34BranchPrograms(uint64(v), m)
			for i := range progs {
				emit(m, progs[i], notes[i])
			}
		}
	}
	rng := vh.NewRng(vh.Seed())
	progs, notes, modes := verifC34RandomBranchPrograms(rng, vh.Budget(4000, 200000))
	for i := range progs {
		emit(modes[i], progs[i], notes[i])
	}
	return ops
}

func TestVerifC34(t *testing.T) {
	ops, replay := vh.ReplayOps()
	if !replay {
		ops = append(verifC34Generate(), verifC34GenerateBr()...)
	}
	out := vh.Open("c34")
	defer out.Close()
	dir := os.Getenv("VERIF_OUT")
	if dir == "" {
		dir = os.TempDir()
	}
	mon, err := os.Create(filepath.Join(dir, "c34.mon"))
	if err != nil {
		t.Fatal(err)
	}
	defer mon.Close()
	for _, op := range ops {
		var res, m string
		res = vh.Catch(func() string {
			r, mm := verifC34Exec(op)
			m = mm
			return r
		})
		out.Emit(op, res)
		fmt.Fprintln(mon, m)
	}
}
