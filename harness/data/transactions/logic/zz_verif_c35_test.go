//go:build verif

package logic

// C35 — "app programs can touch only resources made available to them".
//
// TestVerifC35 (tie C, stateful line protocol). A CASE is one transaction group evaluated the way the block evaluator
// does it: one EvalParams (NewAppEvalParams) for the group, the package's own test Ledger, RecordAD for an asset
// created by an earlier acfg, and one real EvalContract run per ACCESS: a tiny program of the transaction's program
// version that touches ONE resource through one opcode family and then accepts. Availability state
// (EvalParams.available: shared sets, created apps/asas, box map with dirtiness, unnamed-access slots, dirtyBytes,
// ioBudget, readBudgetChecked) persists between the accesses of a case exactly as it does between the instructions /
// transactions of a real group; the Lean model mirrors it.
//
// Line grammar (the op line is SYMBOLIC — addresses are tokens, never bytes — so the model decides independently):
//   reset low=<0|1> pol=<-|accts;assets;apps;holdings;locals;boxes> apps=<id:creator:fbr:fba:ver,...> lb=<app:name:size,...> | tx | tx ...
//       address tokens: z (zero address)  u<n> (user account n)  p<id> (the application address of app id)
//       tx:  appl snd=A id=N cid=N oc=N acc=A,.. fa=N,.. fp=N,.. bx=<idx>:<name>,.. al=<-|elem,..>
//            (id=0: creation, cid = the id the evaluator assigned; al elems: A<addr> S<asset> P<app> H<ai>.<si> L<ai>.<pi>
//             B<idx>.<name> E (empty) M<addr>.<asset>.<app> (ill-formed multi-field element))
//            pay snd=A rcv=A close=A | keyreg snd=A | acfg snd=A asa=N | axfer snd=A asa=N rcv=A asnd=A aclose=A | afrz snd=A asa=N acct=A
//   asa <gi> <id>                         the acfg at gi created asset id (EvalParams.RecordAD)
//   acc <gi> <ver> <family> <operands>    run one access as transaction gi with a version-<ver> program
//       account operand: i<n> (integer index) or an address token; asset / app operands: integers (id or slot)
//       balance A | minbal A | acctp A | hold A X | asap X | appp X | gex X | opted A X | lget A | lgetx A X | lput A | ldel A
//       (box name operand N: `_` = the empty name)
//       bcreate N S | bput N S | bdel N | bget N | blen N | xbcreate P N S | xbput P N S | xbdel P N | xbget P N | xblen P N
//       ifa <field> A | ifs <field> X | ifp <field> X                (itxn_begin; itxn_field)
//       isub axfer X rcv asnd aclose snd | isub afrz X acct | isub appl P a,.. s,.. p,..   (… itxn_submit; z / 0 / - = field not set)
// result:  <class> ua=<unnamedAccess> db=<dirtyBytes> io=<ioBudget>
//   class: ok (the availability gate let the access through — the opcode may still have failed later for a ledger reason)
//          noacct noasset noapp nohold nolocal badacct nomut badslot low nobox boxauth wbudget rbudget clearbox preaccess
//          inner-nohold inner-nolocal   |  asmfail (program not expressible at that version)  |  PANIC
// side file c35.mon: the raw error text per line.

import (
	"encoding/hex"
	"errors"
	"fmt"
	"os"
	"path/filepath"
	"sort"
	"strconv"
	"strings"
	"testing"

	"github.com/algorand/go-algorand/data/basics"
	"github.com/algorand/go-algorand/data/transactions"
	"github.com/algorand/go-algorand/ledger/ledgercore"
	"github.com/algorand/go-algorand/protocol"
	"github.com/algorand/go-algorand/zz_verif_tools/vh"
)

// ---------------------------------------------------------------------------------------------
// symbolic tokens
// ---------------------------------------------------------------------------------------------

func verifC35Addr(tok string) basics.Address {
	switch {
	case tok == "z" || tok == "":
		return basics.Address{}
	case strings.HasPrefix(tok, "u"):
		n, err := strconv.Atoi(tok[1:])
		if err != nil {
			panic("bad address token " + tok)
		}
		var a basics.Address
		for i := range a {
			a[i] = 0x11
		}
		a[0], a[1], a[2] = 'u', byte(n), byte(n>>8)
		return a
	case strings.HasPrefix(tok, "p"):
		n, err := strconv.ParseUint(tok[1:], 10, 64)
		if err != nil {
			panic("bad address token " + tok)
		}
		return basics.AppIndex(n).Address()
	}
	panic("bad address token " + tok)
}

func verifC35List(s string) []string {
	if s == "-" || s == "" {
		return nil
	}
	return strings.Split(s, ",")
}

func verifC35U(s string) uint64 {
	v, err := strconv.ParseUint(s, 10, 64)
	if err != nil {
		panic("bad number " + s)
	}
	return v
}

func verifC35KV(fields []string) map[string]string {
	m := map[string]string{}
	for _, f := range fields {
		if i := strings.Index(f, "="); i > 0 {
			m[f[:i]] = f[i+1:]
		}
	}
	return m
}

// ---------------------------------------------------------------------------------------------
// unnamed-resource policy (simulation hook): fixed sets
// ---------------------------------------------------------------------------------------------

type verifC35Policy struct {
	accts  map[basics.Address]bool
	assets map[basics.AssetIndex]bool
	apps   map[basics.AppIndex]bool
	holds  map[ledgercore.AccountAsset]bool
	locals map[ledgercore.AccountApp]bool
	boxes  map[basics.BoxRef]bool
}

func (p *verifC35Policy) AvailableAccount(a basics.Address) bool  { return p.accts[a] }
func (p *verifC35Policy) AvailableAsset(a basics.AssetIndex) bool { return p.assets[a] }
func (p *verifC35Policy) AvailableApp(a basics.AppIndex) bool     { return p.apps[a] }
func (p *verifC35Policy) AllowsHolding(a basics.Address, s basics.AssetIndex) bool {
	return p.holds[ledgercore.AccountAsset{Address: a, Asset: s}]
}
func (p *verifC35Policy) AllowsLocal(a basics.Address, s basics.AppIndex) bool {
	return p.locals[ledgercore.AccountApp{Address: a, App: s}]
}
func (p *verifC35Policy) AvailableBox(app basics.AppIndex, name string, newAppAccess bool, createSize uint64) bool {
	return p.boxes[basics.BoxRef{App: app, Name: name}]
}
func (p *verifC35Policy) IOSurplus(surplus int64) bool { return surplus >= 0 }

func verifC35ParsePolicy(s string) *verifC35Policy {
	if s == "-" {
		return nil
	}
	parts := strings.Split(s, ";")
	for len(parts) < 6 {
		parts = append(parts, "")
	}
	p := &verifC35Policy{accts: map[basics.Address]bool{}, assets: map[basics.AssetIndex]bool{}, apps: map[basics.AppIndex]bool{},
		holds: map[ledgercore.AccountAsset]bool{}, locals: map[ledgercore.AccountApp]bool{}, boxes: map[basics.BoxRef]bool{}}
	for _, t := range verifC35List(parts[0]) {
		p.accts[verifC35Addr(t)] = true
	}
	for _, t := range verifC35List(parts[1]) {
		p.assets[basics.AssetIndex(verifC35U(t))] = true
	}
	for _, t := range verifC35List(parts[2]) {
		p.apps[basics.AppIndex(verifC35U(t))] = true
	}
	for _, t := range verifC35List(parts[3]) {
		f := strings.SplitN(t, ":", 2)
		p.holds[ledgercore.AccountAsset{Address: verifC35Addr(f[0]), Asset: basics.AssetIndex(verifC35U(f[1]))}] = true
	}
	for _, t := range verifC35List(parts[4]) {
		f := strings.SplitN(t, ":", 2)
		p.locals[ledgercore.AccountApp{Address: verifC35Addr(f[0]), App: basics.AppIndex(verifC35U(f[1]))}] = true
	}
	for _, t := range verifC35List(parts[5]) {
		f := strings.SplitN(t, ":", 2)
		p.boxes[basics.BoxRef{App: basics.AppIndex(verifC35U(f[0])), Name: f[1]}] = true
	}
	return p
}

// ---------------------------------------------------------------------------------------------
// executor
// ---------------------------------------------------------------------------------------------

type verifC35Tracer struct {
	NullEvalTracer
	last error
}

func (t *verifC35Tracer) AfterOpcode(cx *EvalContext, err error) {
	if err != nil {
		t.last = err
	}
}

type verifC35Env struct {
	ep     *EvalParams
	ledger *Ledger
	aids   []basics.AppIndex // per transaction: the app id EvalContract is called with (0 = not an app call)
	tr     *verifC35Tracer
}

var verifC35AssetUniverse = []uint64{1, 2, 3, 300, 301, 302, 303}
var verifC35UserCount = 6

func verifC35TinyProgram(ver uint64) []byte {
	if ver == 0 {
		return nil
	}
	ops, err := AssembleStringWithVersion("int 1", ver)
	if err != nil {
		panic(err)
	}
	return ops.Program
}

func verifC35ParseAccessElem(e string) transactions.ResourceRef {
	var rr transactions.ResourceRef
	two := func(s string) (uint64, string) {
		f := strings.SplitN(s, ".", 2)
		if len(f) < 2 {
			f = append(f, "")
		}
		return verifC35U(f[0]), f[1]
	}
	switch e[0] {
	case 'A':
		rr.Address = verifC35Addr(e[1:])
	case 'S':
		rr.Asset = basics.AssetIndex(verifC35U(e[1:]))
	case 'P':
		rr.App = basics.AppIndex(verifC35U(e[1:]))
	case 'H':
		a, s := two(e[1:])
		rr.Holding = transactions.HoldingRef{Address: a, Asset: verifC35U(s)}
	case 'L':
		a, s := two(e[1:])
		rr.Locals = transactions.LocalsRef{Address: a, App: verifC35U(s)}
	case 'B':
		i, n := two(e[1:])
		rr.Box = transactions.BoxRef{Index: i}
		if n != "" {
			rr.Box.Name = []byte(n)
		}
	case 'E':
	case 'M':
		f := strings.Split(e[1:], ".")
		rr.Address = verifC35Addr(f[0])
		rr.Asset = basics.AssetIndex(verifC35U(f[1]))
		rr.App = basics.AppIndex(verifC35U(f[2]))
	default:
		panic("bad access element " + e)
	}
	return rr
}

func verifC35ParseTx(desc string) (transactions.SignedTxn, basics.AppIndex) {
	f := strings.Fields(desc)
	kv := verifC35KV(f[1:])
	var stx transactions.SignedTxn
	tx := &stx.Txn
	tx.Sender = verifC35Addr(kv["snd"])
	tx.Fee.Raw = 5_000_000
	tx.FirstValid, tx.LastValid = 42, 1066
	var aid basics.AppIndex
	switch f[0] {
	case "appl":
		tx.Type = protocol.ApplicationCallTx
		tx.ApplicationID = basics.AppIndex(verifC35U(kv["id"]))
		aid = tx.ApplicationID
		if aid == 0 {
			aid = basics.AppIndex(verifC35U(kv["cid"]))
		}
		tx.OnCompletion = transactions.OnCompletion(verifC35U(kv["oc"]))
		for _, a := range verifC35List(kv["acc"]) {
			tx.Accounts = append(tx.Accounts, verifC35Addr(a))
		}
		for _, a := range verifC35List(kv["fa"]) {
			tx.ForeignAssets = append(tx.ForeignAssets, basics.AssetIndex(verifC35U(a)))
		}
		for _, a := range verifC35List(kv["fp"]) {
			tx.ForeignApps = append(tx.ForeignApps, basics.AppIndex(verifC35U(a)))
		}
		for _, b := range verifC35List(kv["bx"]) {
			p := strings.SplitN(b, ":", 2)
			br := transactions.BoxRef{Index: verifC35U(p[0])}
			if p[1] != "" {
				br.Name = []byte(p[1])
			}
			tx.Boxes = append(tx.Boxes, br)
		}
		if al := kv["al"]; al != "-" && al != "" {
			tx.Access = []transactions.ResourceRef{}
			for _, e := range verifC35List(al) {
				tx.Access = append(tx.Access, verifC35ParseAccessElem(e))
			}
		}
	case "pay":
		tx.Type = protocol.PaymentTx
		tx.Receiver = verifC35Addr(kv["rcv"])
		tx.CloseRemainderTo = verifC35Addr(kv["close"])
	case "keyreg":
		tx.Type = protocol.KeyRegistrationTx
	case "acfg":
		tx.Type = protocol.AssetConfigTx
		tx.ConfigAsset = basics.AssetIndex(verifC35U(kv["asa"]))
	case "axfer":
		tx.Type = protocol.AssetTransferTx
		tx.XferAsset = basics.AssetIndex(verifC35U(kv["asa"]))
		tx.AssetReceiver = verifC35Addr(kv["rcv"])
		tx.AssetSender = verifC35Addr(kv["asnd"])
		tx.AssetCloseTo = verifC35Addr(kv["aclose"])
	case "afrz":
		tx.Type = protocol.AssetFreezeTx
		tx.FreezeAsset = basics.AssetIndex(verifC35U(kv["asa"]))
		tx.FreezeAccount = verifC35Addr(kv["acct"])
	default:
		panic("bad tx type " + f[0])
	}
	return stx, aid
}

func verifC35Reset(line string) *verifC35Env {
	parts := strings.Split(line, "|")
	head := verifC35KV(strings.Fields(parts[0]))
	ledger := NewLedger(nil)
	var users []basics.Address
	for n := 1; n <= verifC35UserCount; n++ {
		a := verifC35Addr(fmt.Sprintf("u%d", n))
		users = append(users, a)
		ledger.NewAccount(a, 50_000_000)
	}
	for _, id := range verifC35AssetUniverse {
		ledger.NewAsset(users[0], basics.AssetIndex(id), basics.AssetParams{Total: 1000, Manager: users[0], Freeze: users[0], Clawback: users[0]})
	}
	var appIDs []basics.AppIndex
	for _, a := range verifC35List(head["apps"]) {
		f := strings.Split(a, ":")
		id := basics.AppIndex(verifC35U(f[0]))
		ver := verifC35U(f[4])
		prog := verifC35TinyProgram(ver)
		params := makeApp(8, 8, 8, 8)
		params.ApprovalProgram, params.ClearStateProgram = prog, prog
		params.ForeignBoxReads, params.FamilyBoxAccess = f[2] == "1", f[3] == "1"
		ledger.NewApp(verifC35Addr(f[1]), id, params)
		ledger.NewAccount(id.Address(), 50_000_000)
		users = append(users, id.Address())
		appIDs = append(appIDs, id)
	}
	for _, u := range users {
		for _, id := range appIDs {
			ledger.NewLocals(u, id)
		}
		for _, id := range verifC35AssetUniverse {
			ledger.NewHolding(u, basics.AssetIndex(id), 10, false)
		}
	}
	for _, b := range verifC35List(head["lb"]) {
		f := strings.Split(b, ":")
		app := basics.AppIndex(verifC35U(f[0]))
		if err := ledger.NewBox(app, f[1], make([]byte, verifC35U(f[2])), app.Address()); err != nil {
			panic(err)
		}
	}
	var stxns []transactions.SignedTxn
	var aids []basics.AppIndex
	for _, d := range parts[1:] {
		stx, aid := verifC35ParseTx(d)
		stxns = append(stxns, stx)
		aids = append(aids, aid)
	}
	proto := makeTestProto()
	proto.AppForbidLowResources = head["low"] == "1"
	proto.MaxAppProgramCost = 20_000
	ep := NewAppEvalParams(transactions.WrapSignedTxnsWithAD(stxns), proto, &transactions.SpecialAddresses{})
	ep.Ledger, ep.SigLedger = ledger, ledger
	tr := &verifC35Tracer{}
	ep.Tracer = tr
	if pol := verifC35ParsePolicy(head["pol"]); pol != nil {
		ep.EvalConstants.UnnamedResources = pol
	}
	return &verifC35Env{ep: ep, ledger: ledger, aids: aids, tr: tr}
}

func verifC35AcctPush(tok string) string {
	if strings.HasPrefix(tok, "i") {
		return "int " + tok[1:]
	}
	a := verifC35Addr(tok)
	return "byte 0x" + hex.EncodeToString(a[:])
}

// verifC35Source builds the tiny program for one access; "" = unknown family.
func verifC35Source(f []string) string {
	fam, a := f[0], f[1:]
	arg := func(i int) string {
		if i < len(a) {
			return a[i]
		}
		return "0"
	}
	name := func(i int) string {
		if arg(i) == "_" {
			return "int 0; bzero" // the assembler's type tracking refuses a literal empty box name
		}
		return "byte \"" + arg(i) + "\""
	}
	switch fam {
	case "balance":
		return verifC35AcctPush(arg(0)) + "; balance; pop; int 1"
	case "minbal":
		return verifC35AcctPush(arg(0)) + "; min_balance; pop; int 1"
	case "acctp":
		return verifC35AcctPush(arg(0)) + "; acct_params_get AcctBalance; pop; pop; int 1"
	case "hold":
		return verifC35AcctPush(arg(0)) + "; int " + arg(1) + "; asset_holding_get AssetBalance; pop; pop; int 1"
	case "asap":
		return "int " + arg(0) + "; asset_params_get AssetTotal; pop; pop; int 1"
	case "appp":
		return "int " + arg(0) + "; app_params_get AppCreator; pop; pop; int 1"
	case "gex":
		return "int " + arg(0) + "; byte \"k\"; app_global_get_ex; pop; pop; int 1"
	case "opted":
		return verifC35AcctPush(arg(0)) + "; int " + arg(1) + "; app_opted_in; pop; int 1"
	case "lget":
		return verifC35AcctPush(arg(0)) + "; byte \"k\"; app_local_get; pop; int 1"
	case "lgetx":
		return verifC35AcctPush(arg(0)) + "; int " + arg(1) + "; byte \"k\"; app_local_get_ex; pop; pop; int 1"
	case "lput":
		return verifC35AcctPush(arg(0)) + "; byte \"k\"; int 7; app_local_put; int 1"
	case "ldel":
		return verifC35AcctPush(arg(0)) + "; byte \"k\"; app_local_del; int 1"
	case "bcreate":
		return name(0) + "; int " + arg(1) + "; box_create; pop; int 1"
	case "bput":
		return name(0) + "; int " + arg(1) + "; bzero; box_put; int 1"
	case "bdel":
		return name(0) + "; box_del; pop; int 1"
	case "bget":
		return name(0) + "; box_get; pop; pop; int 1"
	case "blen":
		return name(0) + "; box_len; pop; pop; int 1"
	case "xbcreate":
		return "int " + arg(0) + "; " + name(1) + "; int " + arg(2) + "; app_box_create; pop; int 1"
	case "xbput":
		return "int " + arg(0) + "; " + name(1) + "; int " + arg(2) + "; bzero; app_box_put; int 1"
	case "xbdel":
		return "int " + arg(0) + "; " + name(1) + "; app_box_del; pop; int 1"
	case "xbget":
		return "int " + arg(0) + "; " + name(1) + "; app_box_get; pop; pop; int 1"
	case "xblen":
		return "int " + arg(0) + "; " + name(1) + "; app_box_len; pop; pop; int 1"
	case "ifa":
		return "itxn_begin; " + verifC35AcctPush(arg(1)) + "; itxn_field " + arg(0) + "; int 1"
	case "ifs", "ifp":
		return "itxn_begin; int " + arg(1) + "; itxn_field " + arg(0) + "; int 1"
	case "isub":
		var b strings.Builder
		b.WriteString("itxn_begin; ")
		acct := func(field, tok string) {
			if tok != "z" && tok != "-" && tok != "" {
				b.WriteString(verifC35AcctPush(tok) + "; itxn_field " + field + "; ")
			}
		}
		num := func(field, tok string) {
			if tok != "0" && tok != "-" && tok != "" {
				b.WriteString("int " + tok + "; itxn_field " + field + "; ")
			}
		}
		switch arg(0) {
		case "axfer":
			b.WriteString("int 4; itxn_field TypeEnum; ")
			acct("Sender", arg(5))
			num("XferAsset", arg(1))
			acct("AssetReceiver", arg(2))
			acct("AssetSender", arg(3))
			acct("AssetCloseTo", arg(4))
		case "afrz":
			b.WriteString("int 5; itxn_field TypeEnum; ")
			num("FreezeAsset", arg(1))
			acct("FreezeAssetAccount", arg(2))
		case "appl":
			b.WriteString("int 6; itxn_field TypeEnum; ")
			num("ApplicationID", arg(1))
			for _, t := range verifC35List(arg(2)) {
				acct("Accounts", t)
			}
			for _, t := range verifC35List(arg(3)) {
				num("Assets", t)
			}
			for _, t := range verifC35List(arg(4)) {
				num("Applications", t)
			}
		default:
			return ""
		}
		b.WriteString("itxn_submit; int 1")
		return b.String()
	}
	return ""
}

func verifC35ClassOpcode(msg string) string {
	switch {
	case strings.Contains(msg, "would be accessible"):
		if strings.Contains(msg, "unavailable Holding") {
			return "inner-nohold"
		}
		return "inner-nolocal"
	case strings.HasPrefix(msg, "unavailable Account"):
		return "noacct"
	case strings.HasPrefix(msg, "unavailable Asset"):
		return "noasset"
	case strings.HasPrefix(msg, "unavailable App"):
		return "noapp"
	case strings.HasPrefix(msg, "unavailable Holding"):
		return "nohold"
	case strings.HasPrefix(msg, "unavailable Local State"):
		return "nolocal"
	case strings.HasPrefix(msg, "invalid Account reference for mutation"):
		return "nomut"
	case strings.HasPrefix(msg, "invalid Account reference"), strings.HasPrefix(msg, "address reference"):
		return "badacct"
	case strings.Contains(msg, "is not a valid foreign"):
		return "badslot"
	case strings.HasPrefix(msg, "low App lookup"), strings.HasPrefix(msg, "low Asset lookup"):
		return "low"
	case strings.HasPrefix(msg, "invalid Box reference"):
		return "nobox"
	case strings.Contains(msg, "may not read box of"), strings.Contains(msg, "may not write box of"):
		return "boxauth"
	case strings.HasPrefix(msg, "write budget exceeded"):
		return "wbudget"
	case strings.HasPrefix(msg, "boxes may not be accessed from ClearState"):
		return "clearbox"
	}
	return "ok"
}

func verifC35ClassEval(msg string) string {
	switch {
	case strings.Contains(msg, "read budget exceeded"):
		return "rbudget"
	case strings.Contains(msg, "pre-sharedResources program cannot be invoked with tx.Access"):
		return "preaccess"
	}
	// "write budget exceeded ... while creating|updating app" (considerBudgetProgramWrites after an ACCEPTING program of a
	// create/update/delete call) is the program-size write budget, not a resource gate: the access itself went through.
	return "ok"
}

func (e *verifC35Env) state() string {
	av := e.ep.available
	if av == nil {
		return fmt.Sprintf("ua=- db=- io=%d", e.ep.ioBudget)
	}
	return fmt.Sprintf("ua=%d db=%d io=%d", av.unnamedAccess, av.dirtyBytes, e.ep.ioBudget)
}

// exec runs one line; returns (result, monitor detail)
func (e *verifC35Env) exec(f []string) (string, string) {
	switch f[0] {
	case "asa":
		gi := int(verifC35U(f[1]))
		e.ep.RecordAD(gi, transactions.ApplyData{ConfigAsset: basics.AssetIndex(verifC35U(f[2]))})
		return "done " + e.state(), ""
	case "acc":
		gi := int(verifC35U(f[1]))
		ver := verifC35U(f[2])
		if gi >= len(e.aids) || e.aids[gi] == 0 {
			return "bad-op", "not an app call"
		}
		src := verifC35Source(f[3:])
		if src == "" {
			return "bad-op", "unknown family"
		}
		ops, err := AssembleStringWithVersion(src, ver)
		if err != nil {
			return "asmfail", err.Error()
		}
		ep := e.ep
		if ep.PooledApplicationBudget != nil {
			*ep.PooledApplicationBudget = 1_000_000
		}
		if ep.pooledAllowedInners != nil {
			*ep.pooledAllowedInners = 64
		}
		if ep.FeeCredit != nil {
			ep.FeeCredit.Raw = 1_000_000_000
		}
		ep.TxnGroup[gi].EvalDelta = transactions.EvalDelta{}
		e.tr.last = nil
		pass, _, err := EvalContract(ops.Program, gi, e.aids[gi], ep)
		var pe panicError
		if err != nil && errors.As(err, &pe) {
			return "PANIC " + e.state(), strings.SplitN(err.Error(), "\n", 2)[0]
		}
		class, detail := "ok", ""
		switch {
		case e.tr.last != nil:
			detail = e.tr.last.Error()
			class = verifC35ClassOpcode(detail)
		case err != nil:
			detail = err.Error()
			class = verifC35ClassEval(detail)
		case !pass:
			detail = "rejected"
		}
		return class + " " + e.state(), strings.ReplaceAll(detail, "\n", " ")
	}
	return "bad-op", ""
}

// ---------------------------------------------------------------------------------------------
// generator
// ---------------------------------------------------------------------------------------------

type verifC35GenTx struct {
	typ                        string
	snd                        string
	id, cid, oc                uint64
	ver                        uint64
	acc                        []string
	fa, fp                     []uint64
	bx                         []string
	al                         []string
	hasAl                      bool
	rcv, cls, asnd, aclose, ac string
	asa                        uint64
}

func (t *verifC35GenTx) aid() uint64 {
	if t.id != 0 {
		return t.id
	}
	return t.cid
}

func verifC35Join(xs []string) string {
	if len(xs) == 0 {
		return "-"
	}
	return strings.Join(xs, ",")
}

func verifC35JoinU(xs []uint64) string {
	if len(xs) == 0 {
		return "-"
	}
	s := make([]string, len(xs))
	for i, x := range xs {
		s[i] = strconv.FormatUint(x, 10)
	}
	return strings.Join(s, ",")
}

func (t *verifC35GenTx) String() string {
	switch t.typ {
	case "appl":
		al := "-"
		if t.hasAl {
			al = strings.Join(t.al, ",")
		}
		return fmt.Sprintf("appl snd=%s id=%d cid=%d oc=%d acc=%s fa=%s fp=%s bx=%s al=%s", t.snd, t.id, t.cid, t.oc,
			verifC35Join(t.acc), verifC35JoinU(t.fa), verifC35JoinU(t.fp), verifC35Join(t.bx), al)
	case "pay":
		return fmt.Sprintf("pay snd=%s rcv=%s close=%s", t.snd, t.rcv, t.cls)
	case "keyreg":
		return "keyreg snd=" + t.snd
	case "acfg":
		return fmt.Sprintf("acfg snd=%s asa=%d", t.snd, t.asa)
	case "axfer":
		return fmt.Sprintf("axfer snd=%s asa=%d rcv=%s asnd=%s aclose=%s", t.snd, t.asa, t.rcv, t.asnd, t.aclose)
	case "afrz":
		return fmt.Sprintf("afrz snd=%s asa=%d acct=%s", t.snd, t.asa, t.ac)
	}
	return "?"
}

type verifC35Gen struct {
	rng      *vh.Rng
	apps     []uint64 // app universe existing in the ledger
	appVer   map[uint64]uint64
	pAddr    []string // pools of things mentioned somewhere in the case
	pAsset   []uint64
	pApp     []uint64
	boxNames []string
	pBox     [][2]string // (app, name) of box references declared somewhere in the group
}

var verifC35Versions = []uint64{2, 3, 4, 5, 5, 6, 6, 7, 7, 8, 8, 8, 9, 9, 9, 10, 12, 13, 13, 14, 14}

func (g *verifC35Gen) user() string { return fmt.Sprintf("u%d", 1+g.rng.Intn(verifC35UserCount)) }
func (g *verifC35Gen) pickU(xs []uint64) uint64 {
	if len(xs) == 0 {
		return 0
	}
	return xs[g.rng.Intn(len(xs))]
}
func (g *verifC35Gen) pickS(xs []string) string {
	if len(xs) == 0 {
		return "z"
	}
	return xs[g.rng.Intn(len(xs))]
}
func (g *verifC35Gen) anyAsset() uint64 {
	if g.rng.Chance(8) {
		return uint64(g.rng.Intn(4))
	}
	return g.pickU(verifC35AssetUniverse)
}
func (g *verifC35Gen) anyApp() uint64 {
	if g.rng.Chance(6) {
		return 599 // not in the ledger
	}
	return g.pickU(g.apps)
}
func (g *verifC35Gen) anyAddr() string {
	switch g.rng.Intn(10) {
	case 0:
		return "z"
	case 1, 2, 3:
		return fmt.Sprintf("p%d", g.anyApp())
	}
	return g.user()
}
func (g *verifC35Gen) boxName() string { return g.pickS(g.boxNames) }

func (g *verifC35Gen) genAccess(t *verifC35GenTx) {
	n := g.rng.Intn(7)
	if n == 0 {
		n = 1
	}
	var addrIdx, assetIdx, appIdx []int
	for i := 0; i < n; i++ {
		pos := len(t.al) + 1
		bad := g.rng.Chance(4)
		switch k := g.rng.Intn(12); {
		case k < 3:
			a := g.anyAddr()
			if a == "z" {
				a = g.user()
			}
			t.al = append(t.al, "A"+a)
			addrIdx = append(addrIdx, pos)
		case k < 5:
			s := g.anyAsset()
			if s == 0 {
				s = 300
			}
			t.al = append(t.al, fmt.Sprintf("S%d", s))
			assetIdx = append(assetIdx, pos)
		case k < 7:
			t.al = append(t.al, fmt.Sprintf("P%d", g.anyApp()))
			appIdx = append(appIdx, pos)
		case k < 8:
			ai, si := 0, 0
			if len(addrIdx) > 0 && g.rng.Chance(60) {
				ai = addrIdx[g.rng.Intn(len(addrIdx))]
			}
			if len(assetIdx) > 0 {
				si = assetIdx[g.rng.Intn(len(assetIdx))]
			}
			if bad || si == 0 {
				si = g.rng.Intn(pos + 2)
				ai = g.rng.Intn(pos + 2)
			}
			if ai == 0 && si == 0 {
				si = 1
			}
			t.al = append(t.al, fmt.Sprintf("H%d.%d", ai, si))
		case k < 9:
			ai, pi := 0, 0
			if len(addrIdx) > 0 && g.rng.Chance(60) {
				ai = addrIdx[g.rng.Intn(len(addrIdx))]
			}
			if len(appIdx) > 0 && g.rng.Chance(75) {
				pi = appIdx[g.rng.Intn(len(appIdx))]
			}
			if bad {
				pi = g.rng.Intn(pos + 2)
				ai = g.rng.Intn(pos + 2)
			}
			if ai == 0 && pi == 0 {
				if len(addrIdx) > 0 {
					ai = addrIdx[0]
				} else {
					t.al = append(t.al, "E")
					continue
				}
			}
			t.al = append(t.al, fmt.Sprintf("L%d.%d", ai, pi))
		case k < 11:
			bi := 0
			if len(appIdx) > 0 && g.rng.Chance(50) {
				bi = appIdx[g.rng.Intn(len(appIdx))]
			}
			if bad {
				bi = g.rng.Intn(pos + 2)
			}
			nm := g.boxName()
			if bi == 0 && nm == "" {
				t.al = append(t.al, "E")
			} else {
				t.al = append(t.al, fmt.Sprintf("B%d.%s", bi, nm))
			}
		default:
			if bad {
				t.al = append(t.al, fmt.Sprintf("M%s.%d.%d", g.user(), g.anyAsset(), g.anyApp()))
			} else {
				t.al = append(t.al, "E")
			}
		}
	}
	t.hasAl = true
}

func (g *verifC35Gen) genTx(gi int, forceAppl bool) *verifC35GenTx {
	t := &verifC35GenTx{snd: g.user()}
	k := g.rng.Intn(100)
	switch {
	case forceAppl || k < 62:
		t.typ = "appl"
		t.ver = verifC35Versions[g.rng.Intn(len(verifC35Versions))]
		if g.rng.Chance(22) {
			t.cid = uint64(5000 + gi)
		} else {
			t.id = g.pickU(g.apps)
			if g.rng.Chance(2) {
				t.id = 599
			}
		}
		switch r := g.rng.Intn(100); {
		case r < 4:
			t.oc = 3
		case r < 8:
			t.oc = 5
		case r < 11:
			t.oc = 4
		case r < 14:
			t.oc = 1
		}
		useAccess := (t.ver >= 9 && g.rng.Chance(30)) || (t.ver < 9 && g.rng.Chance(3))
		if useAccess {
			g.genAccess(t)
		} else {
			for i, n := 0, g.rng.Intn(3); i < n; i++ {
				t.acc = append(t.acc, g.anyAddr())
			}
			for i, n := 0, g.rng.Intn(3); i < n; i++ {
				t.fa = append(t.fa, g.anyAsset())
			}
			for i, n := 0, g.rng.Intn(3); i < n; i++ {
				t.fp = append(t.fp, g.anyApp())
			}
			for i, n := 0, g.rng.Intn(3); i < n; i++ {
				idx := g.rng.Intn(len(t.fp) + 1)
				if g.rng.Chance(60) {
					idx = 0
				}
				if g.rng.Chance(3) {
					idx = len(t.fp) + 1 // ill-formed: beyond ForeignApps
				}
				t.bx = append(t.bx, fmt.Sprintf("%d:%s", idx, g.boxName()))
			}
		}
	case k < 70:
		t.typ, t.rcv, t.cls = "pay", g.anyAddr(), "z"
		if g.rng.Chance(30) {
			t.cls = g.user()
		}
	case k < 74:
		t.typ = "keyreg"
	case k < 82:
		t.typ = "acfg"
		if g.rng.Chance(50) {
			t.asa = g.anyAsset()
		}
	case k < 93:
		t.typ, t.asa, t.rcv, t.asnd, t.aclose = "axfer", g.anyAsset(), g.anyAddr(), "z", "z"
		if g.rng.Chance(25) {
			t.asnd = g.user()
		} else if g.rng.Chance(25) {
			t.aclose = g.user()
		}
	default:
		t.typ, t.asa, t.ac = "afrz", g.anyAsset(), g.anyAddr()
	}
	return t
}

func (g *verifC35Gen) collect(txs []*verifC35GenTx) {
	addr := func(a string) {
		if a != "" {
			g.pAddr = append(g.pAddr, a)
		}
	}
	for gi, t := range txs {
		addr(t.snd)
		switch t.typ {
		case "appl":
			g.pApp = append(g.pApp, t.aid())
			addr(fmt.Sprintf("p%d", t.aid()))
			for _, a := range t.acc {
				addr(a)
			}
			g.pAsset = append(g.pAsset, t.fa...)
			for _, p := range t.fp {
				g.pApp = append(g.pApp, p)
				addr(fmt.Sprintf("p%d", p))
			}
			for _, b := range t.bx {
				p := strings.SplitN(b, ":", 2)
				idx := int(verifC35U(p[0]))
				if idx == 0 {
					g.pBox = append(g.pBox, [2]string{fmt.Sprint(t.aid()), p[1]})
				} else if idx <= len(t.fp) {
					g.pBox = append(g.pBox, [2]string{fmt.Sprint(t.fp[idx-1]), p[1]})
				}
			}
			for _, e := range t.al {
				switch e[0] {
				case 'B':
					p := strings.SplitN(e[1:], ".", 2)
					idx := int(verifC35U(p[0]))
					if idx == 0 {
						g.pBox = append(g.pBox, [2]string{fmt.Sprint(t.aid()), p[1]})
					} else if idx <= len(t.al) && t.al[idx-1][0] == 'P' {
						g.pBox = append(g.pBox, [2]string{t.al[idx-1][1:], p[1]})
					}
				case 'A':
					addr(e[1:])
				case 'S':
					g.pAsset = append(g.pAsset, verifC35U(e[1:]))
				case 'P':
					g.pApp = append(g.pApp, verifC35U(e[1:]))
					addr("p" + e[1:])
				}
			}
		case "pay":
			addr(t.rcv)
			addr(t.cls)
		case "acfg":
			if t.asa == 0 {
				g.pAsset = append(g.pAsset, uint64(6000+gi))
			} else {
				g.pAsset = append(g.pAsset, t.asa)
			}
		case "axfer":
			g.pAsset = append(g.pAsset, t.asa)
			addr(t.rcv)
			addr(t.asnd)
			addr(t.aclose)
		case "afrz":
			g.pAsset = append(g.pAsset, t.asa)
			addr(t.ac)
		}
	}
}

func (g *verifC35Gen) opAddr() string {
	if g.rng.Chance(72) {
		return g.pickS(g.pAddr)
	}
	return g.anyAddr()
}
func (g *verifC35Gen) opAsset() uint64 {
	if g.rng.Chance(72) {
		return g.pickU(g.pAsset)
	}
	return g.anyAsset()
}
func (g *verifC35Gen) opApp() uint64 {
	if g.rng.Chance(72) {
		return g.pickU(g.pApp)
	}
	return g.anyApp()
}

// account operand for transaction t: an index (incl. out of range) or an address
func (g *verifC35Gen) opAcct(t *verifC35GenTx) string {
	n := len(t.acc)
	if t.hasAl {
		n = len(t.al)
	}
	if t.ver < 4 || g.rng.Chance(30) {
		if g.rng.Chance(12) {
			return fmt.Sprintf("i%d", n+1+g.rng.Intn(2))
		}
		return fmt.Sprintf("i%d", g.rng.Intn(n+1))
	}
	return g.opAddr()
}

// asset operand: id, or a slot of ForeignAssets / Access
func (g *verifC35Gen) opAssetRef(t *verifC35GenTx) uint64 {
	if g.rng.Chance(25) {
		n := len(t.fa)
		if t.hasAl {
			n = len(t.al) + 1
		}
		return uint64(g.rng.Intn(n + 1))
	}
	return g.opAsset()
}
func (g *verifC35Gen) opAppRef(t *verifC35GenTx) uint64 {
	if g.rng.Chance(25) {
		n := len(t.fp) + 1
		if t.hasAl {
			n = len(t.al) + 1
		}
		return uint64(g.rng.Intn(n + 1))
	}
	if g.rng.Chance(10) {
		return t.aid()
	}
	return g.opApp()
}

func (g *verifC35Gen) genOp(t *verifC35GenTx) string {
	v := t.ver
	for tries := 0; tries < 50; tries++ {
		k := g.rng.Intn(24)
		if v >= 8 && g.rng.Chance(18) {
			k = 15
		}
		if v >= 13 && g.rng.Chance(12) {
			k = 17
		}
		if v >= 6 && g.rng.Chance(6) {
			k = 23
		}
		switch k {
		case 0:
			return "balance " + g.opAcct(t)
		case 1:
			if v >= 3 {
				return "minbal " + g.opAcct(t)
			}
		case 2:
			if v >= 6 {
				return "acctp " + g.opAcct(t)
			}
		case 3, 4, 5:
			return fmt.Sprintf("hold %s %d", g.opAcct(t), g.opAssetRef(t))
		case 6:
			return fmt.Sprintf("asap %d", g.opAssetRef(t))
		case 7:
			if v >= 5 {
				return fmt.Sprintf("appp %d", g.opAppRef(t))
			}
		case 8:
			return fmt.Sprintf("gex %d", g.opAppRef(t))
		case 9:
			return fmt.Sprintf("opted %s %d", g.opAcct(t), g.opAppRef(t))
		case 10:
			return "lget " + g.opAcct(t)
		case 11, 12:
			return fmt.Sprintf("lgetx %s %d", g.opAcct(t), g.opAppRef(t))
		case 13:
			return "lput " + g.opAcct(t)
		case 14:
			return "ldel " + g.opAcct(t)
		case 15, 16:
			if v >= 8 {
				nm := g.boxName()
				if len(g.pBox) > 0 && g.rng.Chance(60) {
					nm = g.pBox[g.rng.Intn(len(g.pBox))][1]
				}
				if nm == "" && g.rng.Chance(80) {
					nm = "b1"
				}
				if nm == "" {
					nm = "_"
				}
				sz := []int{0, 10, 40, 60, 100, 150, 260}[g.rng.Intn(7)]
				switch g.rng.Intn(5) {
				case 0:
					return fmt.Sprintf("bcreate %s %d", nm, sz)
				case 1:
					return fmt.Sprintf("bput %s %d", nm, sz)
				case 2:
					return "bdel " + nm
				case 3:
					return "bget " + nm
				}
				return "blen " + nm
			}
		case 17:
			if v >= 13 {
				nm := g.boxName()
				if nm == "" {
					nm = "b2"
				}
				p := g.opApp()
				if g.rng.Chance(25) {
					p = t.aid()
				}
				if len(g.pBox) > 0 && g.rng.Chance(65) {
					b := g.pBox[g.rng.Intn(len(g.pBox))]
					p = verifC35U(b[0])
					if b[1] != "" {
						nm = b[1]
					}
				}
				sz := []int{0, 10, 40, 60, 100, 150}[g.rng.Intn(6)]
				switch g.rng.Intn(5) {
				case 0:
					return fmt.Sprintf("xbcreate %d %s %d", p, nm, sz)
				case 1:
					return fmt.Sprintf("xbput %d %s %d", p, nm, sz)
				case 2:
					return fmt.Sprintf("xbdel %d %s", p, nm)
				case 3:
					return fmt.Sprintf("xbget %d %s", p, nm)
				}
				return fmt.Sprintf("xblen %d %s", p, nm)
			}
		case 18:
			if v >= 5 {
				fs := []string{"Sender", "Receiver", "CloseRemainderTo", "AssetSender", "AssetReceiver", "AssetCloseTo", "FreezeAssetAccount"}
				if v >= 6 {
					fs = append(fs, "Accounts")
				}
				return fmt.Sprintf("ifa %s %s", fs[g.rng.Intn(len(fs))], g.opAddr())
			}
		case 19:
			if v >= 5 {
				fs := []string{"XferAsset", "ConfigAsset", "FreezeAsset"}
				if v >= 6 {
					fs = append(fs, "Assets")
				}
				return fmt.Sprintf("ifs %s %d", fs[g.rng.Intn(len(fs))], g.opAsset())
			}
		case 20:
			if v >= 6 {
				fs := []string{"ApplicationID", "Applications"}
				return fmt.Sprintf("ifp %s %d", fs[g.rng.Intn(2)], g.opApp())
			}
		case 21:
			if v >= 5 {
				asnd, aclose, snd := "z", "z", "z"
				switch g.rng.Intn(6) {
				case 0:
					asnd = g.opAddr()
				case 1:
					aclose = g.opAddr()
				case 2:
					snd = g.opAddr()
				case 3:
					if g.rng.Chance(20) {
						asnd, aclose = g.opAddr(), g.opAddr()
					}
				}
				return fmt.Sprintf("isub axfer %d %s %s %s %s", g.opAsset(), g.opAddr(), asnd, aclose, snd)
			}
		case 22:
			if v >= 5 {
				return fmt.Sprintf("isub afrz %d %s", g.opAsset(), g.opAddr())
			}
		case 23:
			if v >= 6 {
				var as []string
				var ss, ps []uint64
				for i, n := 0, g.rng.Intn(3); i < n; i++ {
					as = append(as, g.opAddr())
				}
				for i, n := 0, g.rng.Intn(3); i < n; i++ {
					ss = append(ss, g.opAsset())
				}
				for i, n := 0, g.rng.Intn(3); i < n; i++ {
					ps = append(ps, g.opApp())
				}
				return fmt.Sprintf("isub appl %d %s %s %s", g.opApp(), verifC35Join(as), verifC35JoinU(ss), verifC35JoinU(ps))
			}
		}
	}
	return "balance i0"
}

func verifC35GenCase(rng *vh.Rng) []string {
	g := &verifC35Gen{rng: rng, appVer: map[uint64]uint64{}, boxNames: []string{"b1", "b1", "b2", "b2", "b3", ""}}
	low := rng.Chance(25)
	g.apps = []uint64{2, 3, 500, 501, 502, 503}
	n := 1 + rng.Intn(4)
	var txs []*verifC35GenTx
	hasAppl := false
	for gi := 0; gi < n; gi++ {
		t := g.genTx(gi, gi == n-1 && !hasAppl)
		hasAppl = hasAppl || t.typ == "appl"
		txs = append(txs, t)
	}
	g.collect(txs)
	// ledger apps
	calleeVers := []uint64{0, 3, 4, 5, 6, 7, 8, 8, 9, 9, 10, 13, 14}
	var apps []string
	for _, id := range g.apps {
		ver := calleeVers[rng.Intn(len(calleeVers))]
		fbr, fba := 0, 0
		if rng.Chance(30) {
			fbr = 1
		}
		if rng.Chance(30) {
			fba = 1
		}
		apps = append(apps, fmt.Sprintf("%d:u%d:%d:%d:%d", id, 1+rng.Intn(2), fbr, fba, ver))
	}
	for _, t := range txs {
		if t.typ == "appl" && t.id == 0 {
			fba := 0
			if rng.Chance(20) {
				fba = 1
			}
			apps = append(apps, fmt.Sprintf("%d:%s:0:%d:%d", t.cid, t.snd, fba, t.ver))
		}
	}
	// ledger boxes
	var lb []string
	seen := map[string]bool{}
	for i, m := 0, rng.Intn(4); i < m; i++ {
		app := g.pickU(g.pApp)
		if rng.Chance(30) {
			app = g.pickU(g.apps)
		}
		if app == 599 || app >= 5000 {
			continue
		}
		nm := g.boxName()
		key := fmt.Sprintf("%d:%s", app, nm)
		if nm == "" || seen[key] {
			continue
		}
		seen[key] = true
		lb = append(lb, fmt.Sprintf("%s:%d", key, []int{0, 10, 40, 60, 100, 150, 260}[rng.Intn(7)]))
	}
	pol := "-"
	if rng.Chance(10) {
		var pa, ph, pl, pb []string
		var ps, pp []uint64
		for i, m := 0, rng.Intn(3); i < m; i++ {
			pa = append(pa, g.opAddr())
		}
		for i, m := 0, rng.Intn(3); i < m; i++ {
			ps = append(ps, g.opAsset())
		}
		for i, m := 0, rng.Intn(3); i < m; i++ {
			pp = append(pp, g.opApp())
		}
		for i, m := 0, rng.Intn(3); i < m; i++ {
			ph = append(ph, fmt.Sprintf("%s:%d", g.opAddr(), g.opAsset()))
		}
		for i, m := 0, rng.Intn(3); i < m; i++ {
			pl = append(pl, fmt.Sprintf("%s:%d", g.opAddr(), g.opApp()))
		}
		for i, m := 0, rng.Intn(3); i < m; i++ {
			nm := g.boxName()
			if nm != "" {
				pb = append(pb, fmt.Sprintf("%d:%s", g.opApp(), nm))
			}
		}
		j := func(xs []string) string { return strings.Join(xs, ",") }
		ju := func(xs []uint64) string {
			if len(xs) == 0 {
				return ""
			}
			return verifC35JoinU(xs)
		}
		pol = j(pa) + ";" + ju(ps) + ";" + ju(pp) + ";" + j(ph) + ";" + j(pl) + ";" + j(pb)
	}
	var descs []string
	for _, t := range txs {
		descs = append(descs, t.String())
	}
	lowS := "0"
	if low {
		lowS = "1"
	}
	lines := []string{fmt.Sprintf("reset low=%s pol=%s apps=%s lb=%s | %s", lowS, pol, strings.Join(apps, ","), verifC35Join(lb), strings.Join(descs, " | "))}
	for gi, t := range txs {
		switch {
		case t.typ == "acfg" && t.asa == 0:
			lines = append(lines, fmt.Sprintf("asa %d %d", gi, 6000+gi))
		case t.typ == "appl":
			for i, m := 0, 2+rng.Intn(5); i < m; i++ {
				lines = append(lines, fmt.Sprintf("acc %d %d %s", gi, t.ver, g.genOp(t)))
			}
		}
	}
	return lines
}

func verifC35Generate() []string {
	rng := vh.NewRng(vh.NewRng(vh.Seed()+3500).U64()) // hashed: consecutive seeds must not give shifted copies of one stream
	n := vh.Budget(2500, 60000)
	var ops []string
	for i := 0; i < n; i++ {
		ops = append(ops, verifC35GenCase(rng)...)
	}
	return ops
}

func TestVerifC35(t *testing.T) {
	t.Chdir(t.TempDir())
	ops, replay := vh.ReplayOps()
	if !replay {
		dir := os.Getenv("VERIF_CORPUS")
		if dir != "" {
			files, _ := filepath.Glob(filepath.Join(dir, "*.ops"))
			sort.Strings(files)
			for _, fn := range files {
				b, err := os.ReadFile(fn)
				if err != nil {
					t.Fatal(err)
				}
				for _, l := range strings.Split(string(b), "\n") {
					if strings.TrimSpace(l) != "" {
						ops = append(ops, l)
					}
				}
			}
		}
		ops = append(ops, verifC35Generate()...)
	}
	out := vh.Open("c35")
	defer out.Close()
	dir := os.Getenv("VERIF_OUT")
	if dir == "" {
		dir = os.TempDir()
	}
	mon, err := os.Create(filepath.Join(dir, "c35.mon"))
	if err != nil {
		t.Fatal(err)
	}
	defer mon.Close()
	var env *verifC35Env
	for _, op := range ops {
		f := strings.Fields(op)
		var res, detail string
		if len(f) == 0 {
			continue
		}
		if f[0] == "reset" {
			res = vh.Catch(func() string {
				env = verifC35Reset(op)
				return "ready"
			})
		} else if env == nil {
			res = "bad-op"
		} else {
			res = vh.Catch(func() string {
				r, d := env.exec(f)
				detail = d
				return r
			})
		}
		out.Emit(op, res)
		fmt.Fprintln(mon, detail)
	}
}
