//go:build verif

package logic

// Read-only accessor for the C23 harness (harness/ledger/zz_verif_c23_test.go): the per-group box availability map of
// box.go (`available.boxes`: box reference -> dirty flag).  Injected only through the /verif go-overlay with -tags verif.

import "github.com/algorand/go-algorand/data/basics"

// VerifC23DirtyBoxes returns a copy of ep.available.boxes (nil before the first app call of the group).
func (ep *EvalParams) VerifC23DirtyBoxes() map[basics.BoxRef]bool {
	if ep.available == nil {
		return nil
	}
	out := make(map[basics.BoxRef]bool, len(ep.available.boxes))
	for k, v := range ep.available.boxes {
		out[k] = v
	}
	return out
}
