//go:build verif

package transactions

// C40 directed cases: the one divergence class between the two encoders that exists on the unchanged tree — a non-nil
// pointer to an all-empty struct under omitempty (msgp tests the pointer, go-codec the pointee) — is reachable from a
// transaction only through Txn.HeartbeatTxnFields.  A transaction carrying it must never be well formed, otherwise
// Txid(msgp) ≠ Txid(reflect) would be reachable for a valid transaction.
//
// Op:  ptrhb <txtype> <consensus version>      Result:  rejected | ACCEPTED …   (plus what the two encoders do)
//      ptrscan -                               Result:  the pointer-typed paths reachable from SignedTxnInBlock
import (
	"bytes"
	"fmt"
	"reflect"
	"sort"
	"strings"
	"testing"

	"github.com/algorand/go-algorand/config"
	"github.com/algorand/go-algorand/protocol"
	"github.com/algorand/go-algorand/zz_verif_tools/vh"
)

func verifC40PtrPaths(t reflect.Type, path string, seen map[reflect.Type]bool, out *[]string) {
	switch t.Kind() {
	case reflect.Ptr:
		*out = append(*out, path)
		verifC40PtrPaths(t.Elem(), path, seen, out)
	case reflect.Struct:
		if seen[t] {
			return
		}
		seen[t] = true
		for i := 0; i < t.NumField(); i++ {
			verifC40PtrPaths(t.Field(i).Type, path+"/"+t.Field(i).Name, seen, out)
		}
	case reflect.Slice, reflect.Array, reflect.Map:
		verifC40PtrPaths(t.Elem(), path+"[]", seen, out)
	}
}

func verifC40PtrExec(op string) string {
	f := strings.Fields(op)
	return vh.Catch(func() string {
		switch f[0] {
		case "ptrscan":
			var out []string
			verifC40PtrPaths(reflect.TypeOf(SignedTxnInBlock{}), "SignedTxnInBlock", map[reflect.Type]bool{}, &out)
			sort.Strings(out)
			return "pointers " + strings.Join(out, ",")
		case "ptrhb":
			proto, ok := config.Consensus[protocol.ConsensusVersion(f[2])]
			if !ok {
				return "bad-version"
			}
			var tx Transaction
			tx.Type = protocol.TxType(f[1])
			tx.Sender[0] = 1
			tx.Fee.Raw = proto.MinTxnFee
			tx.FirstValid, tx.LastValid = 1, 10
			tx.HeartbeatTxnFields = &HeartbeatTxnFields{}
			em, er := protocol.Encode(&tx), protocol.EncodeReflect(&tx)
			var back Transaction
			if err := protocol.Decode(em, &back); err != nil {
				return "rejected-by-decoder"
			}
			if err := back.WellFormed(SpecialAddresses{}, proto); err == nil {
				return fmt.Sprintf("ACCEPTED after decode; encoders-equal=%v msgp=%x reflect=%x", bytes.Equal(em, er), em, er)
			}
			if err := tx.WellFormed(SpecialAddresses{}, proto); err == nil {
				return fmt.Sprintf("ACCEPTED; encoders-equal=%v msgp=%x reflect=%x", bytes.Equal(em, er), em, er)
			}
			return "rejected"
		}
		return "bad-op"
	})
}

func TestVerifC40Ptr(t *testing.T) {
	out := vh.Open("c40ptr")
	defer out.Close()
	ops, replay := vh.ReplayOps()
	if !replay {
		ops = []string{"ptrscan -"}
		var vers []string
		for v := range config.Consensus {
			vers = append(vers, string(v))
		}
		sort.Strings(vers)
		for _, ty := range []protocol.TxType{protocol.PaymentTx, protocol.KeyRegistrationTx, protocol.AssetConfigTx, protocol.AssetTransferTx,
			protocol.AssetFreezeTx, protocol.ApplicationCallTx, protocol.StateProofTx, protocol.HeartbeatTx} {
			for _, v := range vers {
				ops = append(ops, fmt.Sprintf("ptrhb %s %s", ty, v))
			}
		}
	}
	for _, op := range ops {
		if strings.HasPrefix(op, "ptr") {
			out.Emit(op, verifC40PtrExec(op))
		}
	}
}
