//go:build verif

package verify

// C28 correspondence harness: "only the current authorizer can authorize a transaction" on the REAL verify.TxnGroup
// (real Ed25519 / Falcon keys, real multisig addresses, real TEAL programs).
//
// One op line = one transaction group.  It has two parts:
//
//   - a SYMBOLIC description (what the Lean model reads): for every 32-byte value, program, transaction and signature of the
//     group a token saying what it is — `k3` = public key of harness key 3, `M1:2:k0+k1+k2` = SHA512/256("MultisigAddr",1,2,keys),
//     `Pp0` = hash of program p0, `s(k3~T0)` = the signature harness key 3 really made over the signed bytes of
//     transaction T0, `j1` = 64 bytes nobody signed, `u2` = bytes nobody registered, `-` = blank.  The tokens come from
//     ground-truth tables filled when the generator SIGNS (signature bytes → who signed which bytes) and from the
//     harness's own address derivations (Go's crypto/sha512, not the repo's functions).  No verification code is
//     consulted: under ideal cryptography the symbolic description determines the verdict, and the model computes it.
//   - `raw=` the msgpack bytes of the signed transactions (base64), which is all the executor uses: it decodes them and
//     calls verify.TxnGroup.  A replay feeds exactly these bytes again.
//
// Oracle inputs taken from the real code because they are outside this property: Transaction.WellFormed (wf=),
// transactions.CheckTxnGroup (pre=), logic.CheckSignature / EvalSignatureFull (chk= / ev=), the heartbeat proof (hb=),
// and the consensus parameters of the protocol version (P=).
//
// Grammar (tokens contain no blanks; `|` separates the parts):
//
//	g proto=<name> m=<what the generator changed after signing, informative> P=<rekey>,<enforceDiff>,<pq>,<lsigVersion>,<lsigMaxSize>,<absMaxProg>,<msig>,<lmsig>,<pricing> pre=<ok|gi> n=<len>
//	  | t=<txn id> wf=<0|1> ty=<type> hb=<0|1> snd=<a> rk=<a> auth=<a> sig=<S> msig=<MS> pq=<PQ> lsig=<LS>   (once per txn)
//	  | raw=<b64>.<b64>...
//	S  ::= - | s(<key>~<msg>) | j<n>                 msg ::= T<id> | G<prog> | MP(<a>~<prog>) | QP(<a>~<prog>) | o<n>
//	MS ::= - | <v>:<thr>:N | <v>:<thr>:[<key>/<S>;...]          (N = nil subsig slice)
//	PQ ::= - | <scheme>:<salt>:<e|f<i>|x<n>>:<e|s(f<i>~<msg>)|j<n>>
//	LS ::= - | p=<prog|->,len=<n>,ver=<n|x>,chk=<0|1>,ev=<p|r|e|->,tpl=<name>,na=<n>,al=<n>,args=<-|n>,sig=<S>,msig=<MS>,lmsig=<MS>,pq=<PQ>
//
// Result line: `ok` | `rej <reason> <group index> <detail>` | `batch` (crypto.ErrBatchHasFailedSigs) | `panic` | `other <text>`.
import (
	"context"
	stdsha "crypto/sha512"
	"encoding/base64"
	"encoding/binary"
	"errors"
	"fmt"
	"os"
	"strings"
	"testing"

	"github.com/algorand/go-algorand/config"
	"github.com/algorand/go-algorand/crypto"
	"github.com/algorand/go-algorand/data/basics"
	"github.com/algorand/go-algorand/data/bookkeeping"
	"github.com/algorand/go-algorand/data/committee"
	"github.com/algorand/go-algorand/data/transactions"
	"github.com/algorand/go-algorand/data/transactions/logic"
	"github.com/algorand/go-algorand/protocol"
	"github.com/algorand/go-algorand/util/execpool"
	"github.com/algorand/go-algorand/zz_verif_tools/vh"
)

// ---------------------------------------------------------------------------------------------------------------------
// world: keys and ground truth

type verifC28Truth struct{ key, msg string }

type verifC28Fal struct {
	signer crypto.FalconSigner
	salt   basics.PQAddressSalt
	addr   basics.Address
}

type verifC28World struct {
	keys    []*crypto.SignatureSecrets
	keyTok  map[crypto.PublicKey]string
	fal     []verifC28Fal
	falTok  map[string]string
	sigT    map[crypto.Signature]verifC28Truth
	pqT     map[string]verifC28Truth
	progTpl map[string]string // program bytes -> template name (ground truth of what the program does)
}

const verifC28NumKeys = 8

func verifC28MsgBytes(h crypto.Hashable) string {
	id, data := h.ToBeHashed()
	return string(id) + string(data)
}

func verifC28NewWorld(withFalcon bool) *verifC28World {
	w := &verifC28World{keyTok: map[crypto.PublicKey]string{}, falTok: map[string]string{}, sigT: map[crypto.Signature]verifC28Truth{},
		pqT: map[string]verifC28Truth{}, progTpl: map[string]string{}}
	for i := 0; i < verifC28NumKeys; i++ {
		var seed crypto.Seed
		d := stdsha.Sum512_256([]byte(fmt.Sprintf("verif-c28-ed25519-%d", i)))
		copy(seed[:], d[:])
		s := crypto.GenerateSignatureSecrets(seed)
		w.keys = append(w.keys, s)
		w.keyTok[s.SignatureVerifier] = fmt.Sprintf("k%d", i)
	}
	if withFalcon {
		for i := 0; i < 2; i++ {
			var seed crypto.FalconSeed
			d := stdsha.Sum512_256([]byte(fmt.Sprintf("verif-c28-falcon-%d", i)))
			copy(seed[:], d[:])
			signer, err := crypto.GenerateFalconSigner(seed)
			if err != nil {
				panic(err)
			}
			salt, addr, err := basics.CanonicalPQAddressSalt(protocol.PQSchemeFalcon1024, signer.PublicKey[:])
			if err != nil {
				panic(err)
			}
			w.fal = append(w.fal, verifC28Fal{signer: signer, salt: salt, addr: addr})
			w.falTok[string(signer.PublicKey[:])] = fmt.Sprintf("f%d", i)
		}
	}
	return w
}

func (w *verifC28World) addr(k int) basics.Address {
	return basics.Address(w.keys[k].SignatureVerifier)
}

func (w *verifC28World) sign(k int, h crypto.Hashable) crypto.Signature {
	s := w.keys[k].Sign(h)
	w.sigT[s] = verifC28Truth{fmt.Sprintf("k%d", k), verifC28MsgBytes(h)}
	return s
}

func (w *verifC28World) pqsign(f int, h crypto.Hashable) []byte {
	s, err := w.fal[f].signer.Sign(h)
	if err != nil {
		panic(err)
	}
	w.pqT[string(s)] = verifC28Truth{fmt.Sprintf("f%d", f), verifC28MsgBytes(h)}
	return []byte(s)
}

// own address derivations (independent of crypto.MultisigAddrGen*, logic.HashProgram, basics.PQAddress)
func verifC28MsigAddr(v, thr uint8, keys []crypto.PublicKey) basics.Address {
	b := append([]byte("MultisigAddr"), v, thr)
	for _, k := range keys {
		b = append(b, k[:]...)
	}
	return basics.Address(stdsha.Sum512_256(b))
}
func verifC28ProgAddr(p []byte) basics.Address {
	return basics.Address(stdsha.Sum512_256(append([]byte(protocol.Program), p...)))
}
func verifC28PQAddr(scheme protocol.PQScheme, salt basics.PQAddressSalt, pk []byte) basics.Address {
	b := append([]byte(protocol.PostQuantumAddress), scheme[0], scheme[1], byte(salt))
	return basics.Address(stdsha.Sum512_256(append(b, pk...)))
}

// ---------------------------------------------------------------------------------------------------------------------
// symbolizer: decoded group -> symbolic part of the op line

type verifC28Sym struct {
	w       *verifC28World
	addrTok map[basics.Address]string
	unk     map[[32]byte]string
	txnID   map[string]string
	progID  map[string]string
	msgTok  map[string]string
	other   map[string]string
	junk    map[string]string
	pqkUnk  map[string]string
}

func (s *verifC28Sym) tok32(b [32]byte) string {
	if b == ([32]byte{}) {
		return "0"
	}
	if t, ok := s.w.keyTok[crypto.PublicKey(b)]; ok {
		return t
	}
	if basics.Address(b) == transactions.StateProofSender {
		return "SP"
	}
	if t, ok := s.addrTok[basics.Address(b)]; ok {
		return t
	}
	if t, ok := s.unk[b]; ok {
		return t
	}
	t := fmt.Sprintf("u%d", len(s.unk))
	s.unk[b] = t
	return t
}

func (s *verifC28Sym) prog(p []byte) string {
	if len(p) == 0 {
		return "-"
	}
	if t, ok := s.progID[string(p)]; ok {
		return t
	}
	t := fmt.Sprintf("p%d", len(s.progID))
	s.progID[string(p)] = t
	s.addrTok[verifC28ProgAddr(p)] = "P" + t
	return t
}

// args: identity of the (unsigned) LogicSig arguments — only the cache comparison looks at it
func (s *verifC28Sym) args(a [][]byte) string {
	if len(a) == 0 {
		return "-"
	}
	var b []byte
	for _, x := range a {
		b = append(b, byte(len(x)>>8), byte(len(x)))
		b = append(b, x...)
	}
	return s.jnk("args:" + string(b))[1:] // numbered like unknown byte strings, printed without the j
}

func (s *verifC28Sym) pqk(pk []byte) string {
	if len(pk) == 0 {
		return "e"
	}
	if t, ok := s.w.falTok[string(pk)]; ok {
		return t
	}
	if t, ok := s.pqkUnk[string(pk)]; ok {
		return t
	}
	t := fmt.Sprintf("x%d", len(s.pqkUnk))
	s.pqkUnk[string(pk)] = t
	return t
}

func verifC28SchemeNum(sc protocol.PQScheme) int { return int(sc[0])*256 + int(sc[1]) }

func (s *verifC28Sym) regPQ(p *transactions.PQSig) {
	s.addrTok[verifC28PQAddr(p.Scheme, p.Salt, p.PublicKey)] = fmt.Sprintf("Q%d.%d.%s", verifC28SchemeNum(p.Scheme), int(p.Salt), s.pqk(p.PublicKey))
}

func (s *verifC28Sym) regMsig(m *crypto.MultisigSig) {
	if len(m.Subsigs) == 0 {
		return
	}
	keys := make([]crypto.PublicKey, len(m.Subsigs))
	toks := make([]string, len(m.Subsigs))
	for i := range m.Subsigs {
		keys[i] = m.Subsigs[i].Key
		toks[i] = s.tok32(m.Subsigs[i].Key)
	}
	s.addrTok[verifC28MsigAddr(m.Version, m.Threshold, keys)] = fmt.Sprintf("M%d.%d.%s", m.Version, m.Threshold, strings.Join(toks, "+"))
}

func (s *verifC28Sym) msg(bytes string) string {
	if t, ok := s.msgTok[bytes]; ok {
		return t
	}
	if t, ok := s.other[bytes]; ok {
		return t
	}
	t := fmt.Sprintf("o%d", len(s.other))
	s.other[bytes] = t
	return t
}

func (s *verifC28Sym) jnk(b string) string {
	if t, ok := s.junk[b]; ok {
		return t
	}
	t := fmt.Sprintf("j%d", len(s.junk))
	s.junk[b] = t
	return t
}

func (s *verifC28Sym) sig(sg crypto.Signature) string {
	if sg == (crypto.Signature{}) {
		return "-"
	}
	if tr, ok := s.w.sigT[sg]; ok {
		return "s(" + tr.key + "~" + s.msg(tr.msg) + ")"
	}
	return s.jnk(string(sg[:]))
}

func (s *verifC28Sym) msig(m *crypto.MultisigSig) string {
	if m.Version == 0 && m.Threshold == 0 && m.Subsigs == nil {
		return "-"
	}
	if m.Subsigs == nil {
		return fmt.Sprintf("%d:%d:N", m.Version, m.Threshold)
	}
	parts := make([]string, len(m.Subsigs))
	for i := range m.Subsigs {
		parts[i] = s.tok32(m.Subsigs[i].Key) + "/" + s.sig(m.Subsigs[i].Sig)
	}
	return fmt.Sprintf("%d:%d:[%s]", m.Version, m.Threshold, strings.Join(parts, ";"))
}

func verifC28PQBlank(p *transactions.PQSig) bool {
	return p.Scheme == (protocol.PQScheme{}) && p.Salt == 0 && len(p.PublicKey) == 0 && len(p.Signature) == 0
}

func (s *verifC28Sym) pq(p *transactions.PQSig) string {
	if verifC28PQBlank(p) {
		return "-"
	}
	sg := "e"
	if len(p.Signature) != 0 {
		if tr, ok := s.w.pqT[string(p.Signature)]; ok {
			sg = "s(" + tr.key + "~" + s.msg(tr.msg) + ")"
		} else {
			sg = s.jnk(string(p.Signature))
		}
	}
	return fmt.Sprintf("%d:%d:%s:%s", verifC28SchemeNum(p.Scheme), int(p.Salt), s.pqk(p.PublicKey), sg)
}

func verifC28Authorizer(st *transactions.SignedTxn) basics.Address {
	if st.AuthAddr == (basics.Address{}) {
		return st.Txn.Sender
	}
	return st.AuthAddr
}

type verifC28Ledger struct{}

func (verifC28Ledger) BlockHdr(basics.Round) (bookkeeping.BlockHeader, error) {
	return verifC28Header(protocol.ConsensusCurrentVersion), nil
}
func (verifC28Ledger) GenesisHash() crypto.Digest { return crypto.Digest{} }

var verifC28FeeSink = basics.Address{0x7, 0xda, 0xcb, 0x4b, 0x6d, 0x9e, 0xd1, 0x41, 0xb1, 0x75, 0x76, 0xbd, 0x45, 0x9a, 0xe6, 0x42, 0x1d, 0x48, 0x6d, 0xa3, 0xd4, 0xef, 0x22, 0x47, 0xc4, 0x9, 0xa3, 0x96, 0xb8, 0x2e, 0xa2, 0x21}
var verifC28Pool = basics.Address{0xff, 0xff, 0xff, 0xff, 0xff, 0xff, 0xff, 0xff, 0xff, 0xff, 0xff, 0xff, 0xff, 0xff, 0xff, 0xff, 0xff, 0xff, 0xff, 0xff, 0xff, 0xff, 0xff, 0xff, 0xff, 0xff, 0xff, 0xff, 0xff, 0xff, 0xff, 0xff}

func verifC28Header(v protocol.ConsensusVersion) bookkeeping.BlockHeader {
	return bookkeeping.BlockHeader{
		Round:        50,
		GenesisHash:  crypto.Digest{1, 2, 3},
		UpgradeState: bookkeeping.UpgradeState{CurrentProtocol: v},
		RewardsState: bookkeeping.RewardsState{FeeSink: verifC28FeeSink, RewardsPool: verifC28Pool},
	}
}

func verifC28B(b bool) string {
	if b {
		return "1"
	}
	return "0"
}

func verifC28NewSym(w *verifC28World) *verifC28Sym {
	return &verifC28Sym{w: w, addrTok: map[basics.Address]string{}, unk: map[[32]byte]string{}, txnID: map[string]string{}, progID: map[string]string{},
		msgTok: map[string]string{}, other: map[string]string{}, junk: map[string]string{}, pqkUnk: map[string]string{}}
}

// register (pass 1): intern programs / PQ keys, register the derived addresses (own derivations).  For the cache stream all
// variants of a family are registered before any of its lines is written, so a token never changes between lines.
func (s *verifC28Sym) register(stxs []transactions.SignedTxn) {
	for i := range stxs {
		st := &stxs[i]
		s.prog(st.Lsig.Logic)
		if !verifC28PQBlank(&st.PQsig) {
			s.regPQ(&st.PQsig)
		}
		if !verifC28PQBlank(&st.Lsig.PQsig) {
			s.regPQ(&st.Lsig.PQsig)
		}
	}
	for i := range stxs {
		st := &stxs[i]
		s.regMsig(&st.Msig)
		s.regMsig(&st.Lsig.Msig)
		s.regMsig(&st.Lsig.LMsig)
	}
}

func verifC28Symbolize(w *verifC28World, proto protocol.ConsensusVersion, enc [][]byte, label string) (string, bool) {
	stxs, ok := verifC28Decode(enc)
	if !ok {
		return "", false
	}
	s := verifC28NewSym(w)
	s.register(stxs)
	return s.line("g", proto, stxs, enc, label), true
}

// line: the op line (`head` = "g", "c add" or "c via") describing the decoded group symbolically, plus its wire bytes
func (s *verifC28Sym) line(head string, proto protocol.ConsensusVersion, stxs []transactions.SignedTxn, enc [][]byte, label string) string {
	w := s.w
	params := config.Consensus[proto]
	// pass 2: the messages the verifier will look at
	for i := range stxs {
		st := &stxs[i]
		tb := verifC28MsgBytes(st.Txn)
		if _, ok := s.txnID[tb]; !ok {
			id := fmt.Sprintf("%d", len(s.txnID))
			s.txnID[tb] = id
			s.msgTok[tb] = "T" + id
		}
		if len(st.Lsig.Logic) != 0 {
			p := s.prog(st.Lsig.Logic)
			a := verifC28Authorizer(st)
			at := s.tok32(a)
			prog := logic.Program(st.Lsig.Logic)
			s.msgTok[verifC28MsgBytes(&prog)] = "G" + p
			s.msgTok[verifC28MsgBytes(logic.MultisigProgram{Addr: crypto.Digest(a), Program: st.Lsig.Logic})] = "MP(" + at + "~" + p + ")"
			s.msgTok[verifC28MsgBytes(logic.PQDelegatedProgram{Addr: a, Program: st.Lsig.Logic})] = "QP(" + at + "~" + p + ")"
		}
	}
	pre := "ok"
	if err := transactions.CheckTxnGroup(stxs); err != nil {
		gi := -1
		var ge *transactions.TxGroupMalformedError
		if errors.As(err, &ge) {
			gi = ge.GroupIndex
		}
		pre = fmt.Sprintf("%d", gi)
	}
	var sb strings.Builder
	if label == "" {
		label = "none"
	}
	fmt.Fprintf(&sb, "%s proto=%s m=%s P=%s,%s,%s,%d,%d,%d,%s,%s,%s pre=%s n=%d", head, verifC28ProtoName(proto), label,
		verifC28B(params.SupportRekeying), verifC28B(params.EnforceAuthAddrSenderDiff), verifC28B(params.PQSigEnabled()), params.LogicSigVersion,
		params.LogicSigMaxSize, params.MaxAbsoluteLogicSigProgramSize, verifC28B(params.LogicSigMsig), verifC28B(params.LogicSigLMsig),
		verifC28B(params.TxnSizePricingEnabled()), pre, len(stxs))
	spec := transactions.SpecialAddresses{FeeSink: verifC28FeeSink, RewardsPool: verifC28Pool}
	for i := range stxs {
		st := &stxs[i]
		wf := st.Txn.WellFormed(spec, params) == nil
		hb := true
		if st.Txn.Type == protocol.HeartbeatTx && st.Txn.HeartbeatTxnFields != nil {
			id := basics.OneTimeIDForRound(st.Txn.LastValid, st.Txn.HbKeyDilution)
			hb = st.Txn.HbVoteID.Verify(id, st.Txn.HbSeed, st.Txn.HbProof.ToOneTimeSignature())
		}
		ty := string(st.Txn.Type)
		switch st.Txn.Type {
		case protocol.PaymentTx, protocol.KeyRegistrationTx, protocol.AssetConfigTx, protocol.AssetTransferTx, protocol.AssetFreezeTx,
			protocol.ApplicationCallTx, protocol.StateProofTx, protocol.HeartbeatTx:
		default:
			ty = "other"
		}
		fmt.Fprintf(&sb, " | t=%s wf=%s ty=%s hb=%s snd=%s rk=%s auth=%s sig=%s msig=%s pq=%s", s.txnID[verifC28MsgBytes(st.Txn)], verifC28B(wf), ty, verifC28B(hb),
			s.tok32(st.Txn.Sender), s.tok32(st.Txn.RekeyTo), s.tok32(st.AuthAddr), s.sig(st.Sig), s.msig(&st.Msig), s.pq(&st.PQsig))
		l := &st.Lsig
		if len(l.Logic) == 0 && len(l.Args) == 0 && l.Sig == (crypto.Signature{}) && s.msig(&l.Msig) == "-" && s.msig(&l.LMsig) == "-" && verifC28PQBlank(&l.PQsig) {
			sb.WriteString(" lsig=-")
			continue
		}
		ver := "x"
		if v, n := binary.Uvarint(l.Logic); n > 0 {
			ver = fmt.Sprintf("%d", v)
		}
		chk, ev := "0", "-"
		if len(l.Logic) != 0 {
			chk, ev = verifC28ProgOracle(stxs, i, &params)
		}
		tpl, ok := w.progTpl[string(l.Logic)]
		if !ok {
			tpl = "unk"
		}
		fmt.Fprintf(&sb, " lsig=p=%s,len=%d,ver=%s,chk=%s,ev=%s,tpl=%s,na=%d,al=%d,args=%s,sig=%s,msig=%s,lmsig=%s,pq=%s", s.prog(l.Logic), len(l.Logic), ver, chk, ev, tpl,
			len(l.Args), l.ArgsLen(), s.args(l.Args), s.sig(l.Sig), s.msig(&l.Msig), s.msig(&l.LMsig), s.pq(&l.PQsig))
	}
	sb.WriteString(" | raw=")
	for i, e := range enc {
		if i > 0 {
			sb.WriteString(".")
		}
		sb.WriteString(base64.RawStdEncoding.EncodeToString(e))
	}
	return sb.String()
}

// the TEAL oracle: what logic.CheckSignature / EvalSignatureFull say about program gi of this group (fresh EvalParams)
func verifC28ProgOracle(stxs []transactions.SignedTxn, gi int, params *config.ConsensusParams) (chk, ev string) {
	chk, ev = "0", "e"
	defer func() {
		if r := recover(); r != nil {
			ev = "e"
		}
	}()
	ep := logic.NewSigEvalParams(stxs, params, verifC28Ledger{})
	if err := logic.CheckSignature(gi, ep); err == nil {
		chk = "1"
	}
	ep = logic.NewSigEvalParams(stxs, params, verifC28Ledger{})
	pass, _, err := logic.EvalSignatureFull(gi, ep)
	switch {
	case err != nil:
		ev = "e"
	case pass:
		ev = "p"
	default:
		ev = "r"
	}
	return
}

var verifC28Protos = []struct {
	name string
	v    protocol.ConsensusVersion
}{
	{"current", protocol.ConsensusCurrentVersion}, {"future", protocol.ConsensusFuture}, {"v41", protocol.ConsensusV41}, {"v40", protocol.ConsensusV40},
	{"v39", protocol.ConsensusV39}, {"v31", protocol.ConsensusV31}, {"v23", protocol.ConsensusV23}, {"v17", protocol.ConsensusV17},
}

func verifC28ProtoName(v protocol.ConsensusVersion) string {
	for _, p := range verifC28Protos {
		if p.v == v {
			return p.name
		}
	}
	return "?"
}
func verifC28ProtoByName(n string) (protocol.ConsensusVersion, bool) {
	for _, p := range verifC28Protos {
		if p.name == n {
			return p.v, true
		}
	}
	return "", false
}

func verifC28Decode(enc [][]byte) ([]transactions.SignedTxn, bool) {
	stxs := make([]transactions.SignedTxn, len(enc))
	for i, e := range enc {
		if err := protocol.Decode(e, &stxs[i]); err != nil {
			return nil, false
		}
	}
	return stxs, true
}

// ---------------------------------------------------------------------------------------------------------------------
// executor: op line -> verdict of the real code

func verifC28Classify(err error) string {
	if err == nil {
		return "ok"
	}
	if errors.Is(err, crypto.ErrBatchHasFailedSigs) {
		var ge0 *TxGroupError
		if !errors.As(err, &ge0) {
			return "batch"
		}
	}
	var ge *TxGroupError
	if !errors.As(err, &ge) {
		if strings.HasPrefix(err.Error(), "panic while verifying transaction group") {
			return "panic"
		}
		return "other " + err.Error()
	}
	reason := map[TxGroupErrorReason]string{TxGroupErrorReasonGeneric: "generic", TxGroupErrorReasonNotWellFormed: "notwellformed", TxGroupErrorReasonHasNoSig: "nosig",
		TxGroupErrorReasonSigNotWellFormed: "signotwellformed", TxGroupErrorReasonMsigNotWellFormed: "msignotwellformed", TxGroupErrorReasonLogicSigFailed: "logicsigfailed"}[ge.Reason]
	// the innermost message: strip the "transaction %+v invalid : " wrapper (it prints the whole transaction)
	inner := ge.err
	if strings.HasPrefix(inner.Error(), "transaction {") {
		if u := errors.Unwrap(inner); u != nil {
			inner = u
		}
	}
	_, direct := err.(*TxGroupError)
	return fmt.Sprintf("rej %s %d %s", reason, ge.GroupIndex, verifC28Detail(ge.Reason, inner, direct))
}

func verifC28MsigDetail(m string) string {
	switch {
	case strings.Contains(m, "Invalid number of signatures"):
		return "count"
	case strings.Contains(m, "unknown version"):
		return "version"
	case strings.Contains(m, "Invalid threshold"):
		return "threshold"
	case strings.Contains(m, "Invalid address"):
		return "address"
	}
	return "?"
}

func verifC28PQDetail(m string) string {
	switch {
	case strings.Contains(m, "pq signature is blank"):
		return "blank"
	case strings.Contains(m, "pq signature scheme not supported"):
		return "unsupported"
	case strings.Contains(m, "pq signature scheme not enabled"):
		return "disabled"
	case strings.Contains(m, "pq signature authorizer mismatch"):
		return "authorizer"
	case strings.Contains(m, "pq signature is empty"):
		return "empty"
	}
	return "badsig"
}

// direct: TxnGroup returned the *TxGroupError itself (everything except the WellFormed loop, which wraps it)
func verifC28Detail(r TxGroupErrorReason, inner error, direct bool) string {
	m := inner.Error()
	switch r {
	case TxGroupErrorReasonGeneric:
		switch {
		case errors.Is(inner, errRekeyingNotSupported):
			return "rekey-unsupported"
		case errors.Is(inner, errAuthAddrEqualsSender):
			return "auth-eq-sender"
		}
	case TxGroupErrorReasonHasNoSig:
		return "nosig"
	case TxGroupErrorReasonSigNotWellFormed:
		switch {
		case errors.Is(inner, errTxnSigNotWellFormed):
			return "manysigs"
		case m == "pq signature not enabled":
			return "pq-not-enabled"
		case strings.HasPrefix(m, "pq signature validation failed: "):
			return "pq-" + verifC28PQDetail(m)
		}
	case TxGroupErrorReasonMsigNotWellFormed:
		return "msig-" + verifC28MsigDetail(m)
	case TxGroupErrorReasonNotWellFormed:
		switch {
		case m == "LogicSig fields without LogicSig program":
			return "orphan-lsig"
		case strings.Contains(m, "bytes of LogicSigs, more than the available pool"):
			return "lsig-pool"
		case strings.Contains(m, "bytes of LogicSig args, more than the available size pool"):
			return "lsig-args-pool"
		}
		if direct {
			return "group"
		}
		return "wf"
	case TxGroupErrorReasonLogicSigFailed:
		switch {
		case m == "LogicSig not enabled":
			return "lsig-disabled"
		case m == "LogicSig.Logic empty":
			return "lsig-empty"
		case strings.HasPrefix(m, "LogicSig.Logic too long"):
			return "lsig-toolong"
		case m == "LogicSig.Logic bad version":
			return "lsig-badversion"
		case m == "LogicSig.Logic version too new":
			return "lsig-toonew"
		case m == "LogicNot signed and not a Logic-only account":
			return "lsig-notsigned"
		case m == "LogicSig should have only one type of delegation signature":
			return "lsig-manysigs"
		case strings.HasPrefix(m, "pq delegated logic signature validation failed: "):
			return "lsig-pq-" + verifC28PQDetail(m)
		case errors.Is(inner, crypto.ErrBatchHasFailedSigs):
			return "lsig-badsig"
		case strings.HasPrefix(m, "LogicSig LMsig field not supported"):
			return "lsig-lmsig-unsupported"
		case strings.HasPrefix(m, "LogicSig Msig field not supported"):
			return "lsig-msig-unsupported"
		case strings.HasPrefix(m, "logic multisig validation failed: "):
			return "lsig-msig-" + verifC28MsigDetail(m)
		case strings.HasPrefix(m, "transaction ") && strings.HasSuffix(m, ": rejected by logic"):
			return "lsig-rejected"
		case strings.HasPrefix(m, "transaction "):
			return "lsig-evalerror"
		}
		return "lsig-check"
	}
	return "?" + m
}

func verifC28Exec(line string) string {
	f := strings.Fields(line)
	if len(f) < 2 || f[0] != "g" || !strings.HasPrefix(f[1], "proto=") || !strings.HasPrefix(f[len(f)-1], "raw=") {
		return "bad-op"
	}
	proto, ok := verifC28ProtoByName(strings.TrimPrefix(f[1], "proto="))
	if !ok {
		return "bad-op"
	}
	var enc [][]byte
	if raw := strings.TrimPrefix(f[len(f)-1], "raw="); raw != "" {
		for _, p := range strings.Split(raw, ".") {
			b, err := base64.RawStdEncoding.DecodeString(p)
			if err != nil {
				return "bad-op"
			}
			enc = append(enc, b)
		}
	}
	stxs, ok := verifC28Decode(enc)
	if !ok {
		return "bad-op"
	}
	run := func(consensusBatch bool) string {
		crypto.SetEd25519BatchVerifier(consensusBatch)
		cp := make([]transactions.SignedTxn, len(stxs))
		copy(cp, stxs)
		hdr := verifC28Header(proto)
		return vh.Catch(func() string {
			_, err := TxnGroup(cp, &hdr, nil, verifC28Ledger{})
			return verifC28Classify(err)
		})
	}
	a, b := run(false), run(true)
	if a != b {
		return "DIVERGE single-verifier: " + a + " / consensus-batch-verifier: " + b
	}
	return a
}

// ---------------------------------------------------------------------------------------------------------------------
// generator

type verifC28Gen struct {
	w     *verifC28World
	r     *vh.Rng
	proto protocol.ConsensusVersion
	par   config.ConsensusParams
	ctr   uint64
	hbRng *verifC28Rng
	label []string // what was changed after signing (goes into the op line for the coverage statistics only)
	// percentages of groups that get field-wise / byte-wise changes after signing (0 = the defaults 45 / 12)
	mutPct, bytePct int
	maxGroup        int // 0 = up to 16
}

type verifC28Rng struct{ r *vh.Rng }

func (g *verifC28Rng) RandBytes(b []byte) { copy(b, g.r.Bytes(len(b))) }

// account = how the authorizer address is made and how it signs
type verifC28Acct struct {
	kind    string // sig msig lsig dsig dmsig dpq pq sp none
	k       int
	ver     uint8
	thr     uint8
	keys    []int // msig member keys (indices), may repeat
	signers []int // positions that sign
	f       int
	prog    []byte
	args    [][]byte
	useL    bool // delegated msig goes into LMsig (else Msig)
	copy    int  // 0 = honest; 1-5: after signing, genuine subsignatures are COPIED / swapped between members' slots (see mkMsig)
}

func (g *verifC28Gen) program(tpl string) []byte {
	ver := uint64(1 + g.r.Intn(3))
	if g.par.LogicSigVersion > 0 && g.r.Chance(30) {
		ver = g.par.LogicSigVersion
	}
	src := map[string]string{"approve": "int 1", "reject": "int 0", "err": "err", "argdep": "arg 0\nbtoi"}[tpl]
	switch tpl {
	case "toonew":
		ver, src, tpl = g.par.LogicSigVersion+1, "int 1", "approve"
		if ver > logic.LogicVersion {
			ver = logic.LogicVersion
		}
	case "badver":
		p := []byte{0x80}
		g.w.progTpl[string(p)] = "badver"
		return p
	case "big":
		n := 985 + g.r.Intn(30)
		if g.r.Chance(20) {
			n = 400 + g.r.Intn(1500)
		}
		src = fmt.Sprintf("byte 0x%s\npop\nint 1", strings.Repeat("ab", n))
		tpl = "approve"
	}
	ops, err := logic.AssembleStringWithVersion(src, ver)
	if err != nil {
		panic(err)
	}
	g.w.progTpl[string(ops.Program)] = tpl
	return ops.Program
}

func (g *verifC28Gen) randProgram() []byte {
	t := []string{"approve", "approve", "approve", "approve", "reject", "err", "argdep", "toonew", "badver", "big"}
	return g.program(t[g.r.Intn(len(t))])
}

func (g *verifC28Gen) randAcct() verifC28Acct {
	r := g.r
	x := r.Intn(100)
	switch {
	case x < 22:
		return verifC28Acct{kind: "sig", k: r.Intn(verifC28NumKeys)}
	case x < 52:
		return g.randMsigAcct()
	case x < 64:
		return verifC28Acct{kind: "lsig", prog: g.randProgram(), args: g.randArgs()}
	case x < 74:
		return verifC28Acct{kind: "dsig", k: r.Intn(verifC28NumKeys), prog: g.randProgram(), args: g.randArgs()}
	case x < 84:
		a := g.randMsigAcct()
		a.kind, a.prog, a.args = "dmsig", g.randProgram(), g.randArgs()
		a.useL = g.par.LogicSigLMsig
		if r.Chance(15) {
			a.useL = !a.useL
		}
		return a
	case x < 87:
		if len(g.w.fal) > 0 {
			return verifC28Acct{kind: "dpq", f: r.Intn(len(g.w.fal)), prog: g.randProgram(), args: g.randArgs()}
		}
	case x < 93:
		if len(g.w.fal) > 0 {
			return verifC28Acct{kind: "pq", f: r.Intn(len(g.w.fal))}
		}
	case x < 96:
		return verifC28Acct{kind: "sp"}
	case x < 98:
		return verifC28Acct{kind: "none", k: r.Intn(verifC28NumKeys)}
	}
	return verifC28Acct{kind: "sig", k: r.Intn(verifC28NumKeys)}
}

func (g *verifC28Gen) randArgs() [][]byte {
	r := g.r
	switch r.Intn(8) {
	case 0:
		return [][]byte{{1}}
	case 1:
		return [][]byte{{0}}
	case 2:
		return [][]byte{r.Bytes(1 + r.Intn(8)), r.Bytes(r.Intn(4))}
	case 3:
		if r.Chance(30) {
			n := 990 + r.Intn(20)
			return [][]byte{r.Bytes(n)}
		}
	}
	return nil
}

func (g *verifC28Gen) randMsigAcct() verifC28Acct {
	r := g.r
	n := 1 + r.Intn(5)
	if r.Intn(200) == 0 {
		n = 250 + r.Intn(6) // 250..255 (maxMultisig and the decoder's bound)
	}
	a := verifC28Acct{kind: "msig", ver: 1}
	dup := r.Chance(15)
	for i := 0; i < n; i++ {
		k := r.Intn(verifC28NumKeys)
		if !dup { // distinct keys while possible
			for tries := 0; tries < 20 && verifC28Contains(a.keys, k) && n <= verifC28NumKeys; tries++ {
				k = r.Intn(verifC28NumKeys)
			}
		}
		a.keys = append(a.keys, k)
	}
	// threshold: mostly in range, sometimes 0 or n+1
	switch x := r.Intn(20); {
	case x == 0:
		a.thr = 0
	case x == 1:
		a.thr = uint8(min(n+1, 255))
	default:
		a.thr = uint8(1 + r.Intn(min(n, 255)))
	}
	if r.Chance(6) {
		a.ver = uint8(r.Intn(3)) // 0, 1, 2
	}
	// number of signers: thr-1, thr, thr+1, all, none
	want := int(a.thr)
	switch r.Intn(10) {
	case 0, 1:
		want--
	case 2:
		want++
	case 3:
		want = n
	case 4:
		if r.Chance(30) {
			want = 0
		}
	}
	want = max(0, min(want, n))
	perm := verifC28Perm(r, n)
	a.signers = perm[:want]
	// one member's genuine signature placed into other members' slots: an otherwise honest multisig (version 1, threshold
	// 2..n, fewer real signers than the threshold or exactly enough) whose slots are then filled by copying
	if n >= 2 && n <= 8 && r.Chance(14) {
		a.copy = 1 + r.Intn(5)
		a.ver = 1
		a.thr = uint8(2 + r.Intn(n-1))
		if r.Chance(35) { // an address that lists a key twice (copies into the twin slot are genuine, as coded)
			a.keys[r.Intn(n)] = a.keys[r.Intn(n)]
		}
		want = 1 + r.Intn(int(a.thr))
		if r.Chance(50) {
			want = 1
		}
		a.signers = verifC28Perm(r, n)[:want]
	}
	return a
}

func verifC28Contains(l []int, x int) bool {
	for _, y := range l {
		if y == x {
			return true
		}
	}
	return false
}

func verifC28Perm(r *vh.Rng, n int) []int {
	p := make([]int, n)
	for i := range p {
		p[i] = i
	}
	for i := n - 1; i > 0; i-- {
		j := r.Intn(i + 1)
		p[i], p[j] = p[j], p[i]
	}
	return p
}

func (g *verifC28Gen) pks(a *verifC28Acct) []crypto.PublicKey {
	out := make([]crypto.PublicKey, len(a.keys))
	for i, k := range a.keys {
		out[i] = g.w.keys[k].SignatureVerifier
	}
	return out
}

// the address this account signs for
func (g *verifC28Gen) acctAddr(a *verifC28Acct) basics.Address {
	switch a.kind {
	case "sig", "dsig", "none":
		return g.w.addr(a.k)
	case "msig", "dmsig":
		return verifC28MsigAddr(a.ver, a.thr, g.pks(a))
	case "lsig":
		return verifC28ProgAddr(a.prog)
	case "pq", "dpq":
		return g.w.fal[a.f].addr
	case "sp":
		return transactions.StateProofSender
	}
	return basics.Address{}
}

func (g *verifC28Gen) mkMsig(a *verifC28Acct, h crypto.Hashable) crypto.MultisigSig {
	m := crypto.MultisigSig{Version: a.ver, Threshold: a.thr, Subsigs: make([]crypto.MultisigSubsig, len(a.keys))}
	for i, k := range a.keys {
		m.Subsigs[i].Key = g.w.keys[k].SignatureVerifier
	}
	for _, pos := range a.signers {
		m.Subsigs[pos].Sig = g.w.sign(a.keys[pos], h)
	}
	if a.copy != 0 && len(a.signers) > 0 {
		g.label = append(g.label, fmt.Sprintf("copysig%d", a.copy))
		r, n := g.r, len(a.keys)
		src := a.signers[r.Intn(len(a.signers))]
		need := int(a.thr) - len(a.signers) // copies needed to reach the threshold
		switch a.copy {
		case 1: // into just enough (or a few more) other slots, wherever they are
			c := max(1, need+r.Intn(2))
			for _, pos := range verifC28Perm(r, n) {
				if c > 0 && pos != src && m.Subsigs[pos].Sig.Blank() {
					m.Subsigs[pos].Sig = m.Subsigs[src].Sig
					c--
				}
			}
		case 2: // two members' genuine signatures swapped (or, with one signer, moved to another member's slot)
			dst := (src + 1 + r.Intn(n-1)) % n
			m.Subsigs[src].Sig, m.Subsigs[dst].Sig = m.Subsigs[dst].Sig, m.Subsigs[src].Sig
		case 3: // every slot carries the one signature
			for pos := range m.Subsigs {
				m.Subsigs[pos].Sig = m.Subsigs[src].Sig
			}
		case 4: // the copies sit AFTER the genuine one (the first signer's signature, into later blank slots)
			for _, p := range a.signers {
				src = min(src, p)
			}
			c := max(1, need)
			for pos := src + 1; pos < n && c > 0; pos++ {
				if m.Subsigs[pos].Sig.Blank() {
					m.Subsigs[pos].Sig = m.Subsigs[src].Sig
					c--
				}
			}
		default: // the copies sit BEFORE the genuine one
			for _, p := range a.signers {
				src = max(src, p)
			}
			c := max(1, need)
			for pos := 0; pos < src && c > 0; pos++ {
				if m.Subsigs[pos].Sig.Blank() {
					m.Subsigs[pos].Sig = m.Subsigs[src].Sig
					c--
				}
			}
		}
	}
	return m
}

func (g *verifC28Gen) mkPQ(f int, h crypto.Hashable) transactions.PQSig {
	fk := g.w.fal[f]
	return transactions.PQSig{Scheme: protocol.PQSchemeFalcon1024, Salt: fk.salt, PublicKey: append([]byte{}, fk.signer.PublicKey[:]...), Signature: g.w.pqsign(f, h)}
}

// authorize: attach to st what account a would attach for authorizer address `auth` (used in the address-bound messages)
func (g *verifC28Gen) authorize(st *transactions.SignedTxn, a *verifC28Acct, auth basics.Address) {
	switch a.kind {
	case "sig":
		st.Sig = g.w.sign(a.k, st.Txn)
	case "msig":
		st.Msig = g.mkMsig(a, st.Txn)
	case "lsig":
		st.Lsig.Logic, st.Lsig.Args = a.prog, a.args
	case "dsig":
		st.Lsig.Logic, st.Lsig.Args = a.prog, a.args
		prog := logic.Program(a.prog)
		st.Lsig.Sig = g.w.sign(a.k, &prog)
	case "dmsig":
		st.Lsig.Logic, st.Lsig.Args = a.prog, a.args
		if a.useL {
			st.Lsig.LMsig = g.mkMsig(a, logic.MultisigProgram{Addr: crypto.Digest(auth), Program: a.prog})
		} else {
			prog := logic.Program(a.prog)
			st.Lsig.Msig = g.mkMsig(a, &prog)
		}
	case "dpq":
		st.Lsig.Logic, st.Lsig.Args = a.prog, a.args
		st.Lsig.PQsig = g.mkPQ(a.f, logic.PQDelegatedProgram{Addr: auth, Program: a.prog})
	case "pq":
		st.PQsig = g.mkPQ(a.f, st.Txn)
	}
}

func (g *verifC28Gen) baseTxn(sender basics.Address, a *verifC28Acct) transactions.Transaction {
	g.ctr++
	note := make([]byte, 8)
	binary.BigEndian.PutUint64(note, g.ctr)
	if a.kind == "sp" && g.r.Chance(70) {
		return transactions.Transaction{Type: protocol.StateProofTx, Header: transactions.Header{Sender: sender, FirstValid: 0, LastValid: 10}}
	}
	fee := g.par.MinTxnFee
	if a.kind == "pq" || a.kind == "dpq" {
		fee *= 3
	}
	return transactions.Transaction{
		Type: protocol.PaymentTx,
		Header: transactions.Header{Sender: sender, Fee: basics.MicroAlgos{Raw: fee}, FirstValid: 40, LastValid: 60, GenesisHash: crypto.Digest{1, 2, 3},
			Note: note},
		PaymentTxnFields: transactions.PaymentTxnFields{Receiver: g.w.addr(g.r.Intn(verifC28NumKeys)), Amount: basics.MicroAlgos{Raw: uint64(1 + g.r.Intn(1000))}},
	}
}

func (g *verifC28Gen) heartbeat(sender basics.Address) transactions.Transaction {
	fv := basics.Round(49)
	kd := uint64(111)
	lv := fv + 15
	firstID := basics.OneTimeIDForRound(fv, kd)
	lastID := basics.OneTimeIDForRound(lv, kd)
	seed := committee.Seed{0x33, byte(g.ctr)}
	otss := crypto.GenerateOneTimeSignatureSecretsRNG(firstID.Batch, lastID.Batch-firstID.Batch+1, g.hbRng)
	g.ctr++
	return transactions.Transaction{Type: protocol.HeartbeatTx, Header: transactions.Header{Sender: sender, FirstValid: fv, LastValid: lv},
		HeartbeatTxnFields: &transactions.HeartbeatTxnFields{HbProof: otss.Sign(lastID, seed).ToHeartbeatProof(), HbSeed: seed, HbVoteID: otss.OneTimeSignatureVerifier, HbKeyDilution: kd}}
}

type verifC28Slot struct {
	acct   verifC28Acct
	auth   basics.Address // address the account signs for
	sender basics.Address
	setAA  basics.Address // AuthAddr field
}

// one group: accounts, senders (rekeyed or not), group id, signatures, then post-signing changes
func (g *verifC28Gen) group() [][]byte {
	r := g.r
	g.label = nil
	n := 1
	switch x := r.Intn(100); {
	case x < 1:
		return nil // the empty group
	case x < 72:
	case x < 96:
		n = 2 + r.Intn(3)
	default:
		n = 5 + r.Intn(12)
	}
	if g.maxGroup != 0 && n > g.maxGroup {
		n = 1 + r.Intn(g.maxGroup)
	}
	slots := make([]verifC28Slot, n)
	stxs := make([]transactions.SignedTxn, n)
	for i := range slots {
		s := &slots[i]
		s.acct = g.randAcct()
		s.auth = g.acctAddr(&s.acct)
		s.sender = s.auth
		// rekeying: the account's key authorizes for another sender
		switch x := r.Intn(100); {
		case x < 62: // not rekeyed
		case x < 82: // rekeyed: sender is some other address, AuthAddr names the signing account
			s.sender, s.setAA = g.w.addr(r.Intn(verifC28NumKeys)), s.auth
			if r.Chance(20) {
				s.sender = basics.Address(stdsha.Sum512_256(r.Bytes(8)))
			}
		case x < 88: // AuthAddr = Sender spelled out
			s.setAA = s.auth
		case x < 94: // AuthAddr names somebody else than the signer
			s.setAA = g.w.addr(r.Intn(verifC28NumKeys))
		default: // the signer is not the sender and there is no AuthAddr
			s.sender = g.w.addr(r.Intn(verifC28NumKeys))
		}
		if s.acct.kind == "sp" && r.Chance(80) {
			s.sender, s.setAA = s.auth, basics.Address{}
		}
		if g.par.Heartbeat && n == 1 && s.acct.kind == "sig" && r.Chance(8) {
			stxs[i].Txn = g.heartbeat(s.sender)
		} else {
			stxs[i].Txn = g.baseTxn(s.sender, &s.acct)
		}
		if r.Chance(4) {
			stxs[i].Txn.RekeyTo = g.w.addr(r.Intn(verifC28NumKeys))
		}
		stxs[i].AuthAddr = s.setAA
	}
	if n > 1 && !r.Chance(3) {
		var tg transactions.TxGroup
		for i := range stxs {
			tg.TxGroupHashes = append(tg.TxGroupHashes, crypto.Digest(stxs[i].Txn.ID()))
		}
		gid := crypto.HashObj(tg)
		for i := range stxs {
			stxs[i].Txn.Group = gid
		}
	}
	for i := range stxs {
		a := verifC28Authorizer(&stxs[i])
		if r.Chance(85) {
			a = slots[i].auth // address-bound delegation messages name the account's own address
		}
		g.authorize(&stxs[i], &slots[i].acct, a)
	}
	// post-signing changes: none for most groups, otherwise 1-2 on random members
	mutPct, bytePct := 45, 12
	if g.mutPct != 0 {
		mutPct, bytePct = g.mutPct, g.bytePct
	}
	if r.Chance(mutPct) {
		for c := 1 + r.Intn(2); c > 0; c-- {
			i := r.Intn(n)
			g.mutate(&stxs[i], &slots[i], n)
		}
	}
	enc := make([][]byte, n)
	for i := range stxs {
		enc[i] = protocol.Encode(&stxs[i])
	}
	// byte-wise change of the wire bytes of one member
	if r.Chance(bytePct) {
		i := r.Intn(n)
		for tries := 0; tries < 8; tries++ {
			m := append([]byte{}, enc[i]...)
			pos := r.Intn(len(m))
			switch r.Intn(3) {
			case 0:
				m[pos] ^= 1 << uint(r.Intn(8))
			case 1:
				m[pos] = byte(r.U64())
			default:
				m[pos]++
			}
			var out transactions.SignedTxn
			if protocol.Decode(m, &out) == nil {
				enc[i] = m
				g.label = append(g.label, "byte")
				break
			}
		}
	}
	return enc
}

func (g *verifC28Gen) otherTxn(t transactions.Transaction) transactions.Transaction {
	r := g.r
	switch r.Intn(7) {
	case 0:
		t.Note = append(append([]byte{}, t.Note...), 1)
	case 1:
		t.Amount.Raw++
	case 2:
		t.Receiver = g.w.addr(r.Intn(verifC28NumKeys))
		t.Receiver[31] ^= 1
	case 3:
		t.Fee.Raw++
	case 4:
		t.LastValid++
	case 5:
		t.Sender = g.w.addr(r.Intn(verifC28NumKeys))
	default:
		t.RekeyTo = g.w.addr(r.Intn(verifC28NumKeys))
	}
	return t
}

func (g *verifC28Gen) randSubsig(m *crypto.MultisigSig) int {
	if len(m.Subsigs) == 0 {
		return -1
	}
	return g.r.Intn(len(m.Subsigs))
}

func (g *verifC28Gen) mutateMsig(m *crypto.MultisigSig, h crypto.Hashable) {
	r := g.r
	i := g.randSubsig(m)
	if i < 0 {
		*m = crypto.MultisigSig{Version: uint8(r.Intn(2)), Threshold: uint8(r.Intn(2))}
		return
	}
	m.Subsigs = append([]crypto.MultisigSubsig{}, m.Subsigs...)
	switch r.Intn(13) {
	case 0:
		m.Threshold++
	case 1:
		m.Threshold--
	case 2:
		m.Version = uint8(r.Intn(4))
	case 3: // remove a member
		m.Subsigs = append(m.Subsigs[:i], m.Subsigs[i+1:]...)
	case 4: // swap two members
		j := g.randSubsig(m)
		m.Subsigs[i], m.Subsigs[j] = m.Subsigs[j], m.Subsigs[i]
	case 5: // drop one signature
		m.Subsigs[i].Sig = crypto.Signature{}
	case 6: // damage a signature
		m.Subsigs[i].Sig[r.Intn(64)] ^= 1 << uint(r.Intn(8))
	case 7: // damage a key
		m.Subsigs[i].Key[r.Intn(32)] ^= 1 << uint(r.Intn(8))
	case 8: // signature by the wrong member / moved to another slot
		j := g.randSubsig(m)
		m.Subsigs[i].Sig = m.Subsigs[j].Sig
	case 9: // another member signs too
		for k, sk := range g.w.keys {
			if sk.SignatureVerifier == m.Subsigs[i].Key {
				m.Subsigs[i].Sig = g.w.sign(k, h)
			}
		}
	case 10: // add a member (own signature included)
		k := r.Intn(verifC28NumKeys)
		m.Subsigs = append(m.Subsigs, crypto.MultisigSubsig{Key: g.w.keys[k].SignatureVerifier, Sig: g.w.sign(k, h)})
	case 11: // first subsig entirely zero
		m.Subsigs[0] = crypto.MultisigSubsig{}
	default: // a stranger's key signs in a member's slot
		k := r.Intn(verifC28NumKeys)
		m.Subsigs[i].Sig = g.w.sign(k, h)
	}
}

func (g *verifC28Gen) mutate(st *transactions.SignedTxn, s *verifC28Slot, n int) {
	r := g.r
	prog := logic.Program(st.Lsig.Logic)
	switch x := r.Intn(100); {
	case x < 22: // the transaction changes after signing
		g.label = append(g.label, "txn")
		st.Txn = g.otherTxn(st.Txn)
	case x < 30: // a second kind of authorization is attached (valid for the authorizer when it can be)
		g.label = append(g.label, "addkind")
		a := verifC28Authorizer(st)
		k := r.Intn(verifC28NumKeys)
		for i := range g.w.keys {
			if g.w.addr(i) == a {
				k = i
			}
		}
		switch r.Intn(4) {
		case 0:
			st.Sig = g.w.sign(k, st.Txn)
		case 1:
			acct := g.randMsigAcct()
			st.Msig = g.mkMsig(&acct, st.Txn)
		case 2:
			st.Lsig.Logic = g.program("approve")
		default:
			if len(g.w.fal) > 0 {
				st.PQsig = g.mkPQ(r.Intn(len(g.w.fal)), st.Txn)
			} else {
				st.Sig = g.w.sign(k, st.Txn)
			}
		}
	case x < 36: // AuthAddr changes
		g.label = append(g.label, "authaddr")
		switch r.Intn(3) {
		case 0:
			st.AuthAddr = basics.Address{}
		case 1:
			st.AuthAddr = st.Txn.Sender
		default:
			st.AuthAddr = g.w.addr(r.Intn(verifC28NumKeys))
		}
	case x < 46: // plain signature damaged / dropped / from another key / over another message
		g.label = append(g.label, "sig")
		switch r.Intn(5) {
		case 0:
			st.Sig[r.Intn(64)] ^= 1 << uint(r.Intn(8))
		case 1:
			st.Sig = crypto.Signature{}
		case 2:
			st.Sig = g.w.sign(r.Intn(verifC28NumKeys), st.Txn)
		case 3:
			st.Sig = g.w.sign(s.acct.k, g.otherTxn(st.Txn))
		default:
			copy(st.Sig[:], r.Bytes(64))
		}
	case x < 64:
		g.label = append(g.label, "msig")
		g.mutateMsig(&st.Msig, st.Txn)
	case x < 74: // logic sig: program or arguments change
		g.label = append(g.label, "prog")
		switch r.Intn(5) {
		case 0:
			if len(st.Lsig.Logic) > 0 {
				p := append([]byte{}, st.Lsig.Logic...)
				p[r.Intn(len(p))] ^= 1 << uint(r.Intn(8))
				st.Lsig.Logic = p
			}
		case 1:
			st.Lsig.Logic = g.randProgram()
		case 2:
			st.Lsig.Args = g.randArgs()
		case 3:
			st.Lsig.Logic = nil // orphan content remains
		default:
			st.Lsig.Args = [][]byte{r.Bytes(1001 + r.Intn(600))}
		}
	case x < 86: // the delegation changes
		g.label = append(g.label, "deleg")
		switch r.Intn(7) {
		case 0:
			st.Lsig.Sig = g.w.sign(r.Intn(verifC28NumKeys), &prog)
		case 1:
			st.Lsig.Sig[r.Intn(64)] ^= 1
		case 2:
			g.mutateMsig(&st.Lsig.Msig, &prog)
		case 3:
			g.mutateMsig(&st.Lsig.LMsig, logic.MultisigProgram{Addr: crypto.Digest(verifC28Authorizer(st)), Program: st.Lsig.Logic})
		case 4: // LMsig signed over the bare program (wrong domain) or moved between the two fields
			st.Lsig.Msig, st.Lsig.LMsig = st.Lsig.LMsig, st.Lsig.Msig
		case 5:
			st.Lsig.Sig = g.w.sign(s.acct.k, st.Txn) // signs the transaction instead of the program
		default:
			if len(g.w.fal) > 0 {
				st.Lsig.PQsig = g.mkPQ(r.Intn(len(g.w.fal)), logic.PQDelegatedProgram{Addr: verifC28Authorizer(st), Program: st.Lsig.Logic})
			}
		}
	default: // post-quantum proof changes
		g.label = append(g.label, "pq")
		for _, p := range []*transactions.PQSig{&st.PQsig, &st.Lsig.PQsig} {
			if verifC28PQBlank(p) {
				continue
			}
			switch r.Intn(7) {
			case 0:
				p.Salt++
			case 1:
				p.Scheme = protocol.PQSchemeFalcon512
			case 2:
				p.Signature = nil
			case 3:
				if sg := append([]byte{}, p.Signature...); len(sg) > 0 {
					sg[r.Intn(len(sg))] ^= 1 << uint(r.Intn(8))
					p.Signature = sg
				}
			case 4:
				if pk := append([]byte{}, p.PublicKey...); len(pk) > 0 {
					pk[r.Intn(len(pk))] ^= 1 << uint(r.Intn(8))
					p.PublicKey = pk
				}
			case 5:
				p.PublicKey = nil
			default:
				p.Signature = g.w.pqsign(r.Intn(len(g.w.fal)), g.otherTxn(st.Txn))
			}
		}
	}
}

func verifC28Generate(seed uint64, n int) []string {
	r := vh.NewRng(seed)
	w := verifC28NewWorld(true)
	g := &verifC28Gen{w: w, r: r, hbRng: &verifC28Rng{r: vh.NewRng(seed + 77)}}
	weights := []int{50, 10, 12, 8, 8, 4, 4, 4} // order of verifC28Protos
	var lines []string
	for len(lines) < n {
		x, pi := r.Intn(100), 0
		for x >= weights[pi] {
			x -= weights[pi]
			pi++
		}
		g.proto = verifC28Protos[pi].v
		g.par = config.Consensus[g.proto]
		enc := g.group()
		if line, ok := verifC28Symbolize(w, g.proto, enc, strings.Join(g.label, "+")); ok {
			lines = append(lines, line)
		}
	}
	return lines
}

// ---------------------------------------------------------------------------------------------------------------------
// the verified-transaction CACHE path: one shared cache, groups verified INTO it (`c add` = verify.TxnGroup with the cache) and
// groups presented THROUGH it (`c via` = GetUnverifiedTransactionGroups + PaysetGroups, as block validation does).
//
//	c reset                        a fresh cache
//	c add <body of a g line>       result `add <verdict>`
//	c via <body of a g line>       result `hit ; scratch <verdict>` | `miss <verdict> ; scratch <verdict>`
//
// `scratch` = the verdict of verify.TxnGroup on the very same bytes without any cache.  Within a family (reset … reset) the
// symbolic tokens are shared between the lines, so equal tokens mean equal bytes across lines (same txid, same signature …).

type verifC28CacheState struct {
	cache VerifiedTransactionCache
	pool  execpool.BacklogPool
}

func verifC28ParseBody(f []string) (protocol.ConsensusVersion, [][]byte, bool) {
	if len(f) < 2 || !strings.HasPrefix(f[0], "proto=") || !strings.HasPrefix(f[len(f)-1], "raw=") {
		return "", nil, false
	}
	proto, ok := verifC28ProtoByName(strings.TrimPrefix(f[0], "proto="))
	if !ok {
		return "", nil, false
	}
	var enc [][]byte
	if raw := strings.TrimPrefix(f[len(f)-1], "raw="); raw != "" {
		for _, p := range strings.Split(raw, ".") {
			b, err := base64.RawStdEncoding.DecodeString(p)
			if err != nil {
				return "", nil, false
			}
			enc = append(enc, b)
		}
	}
	return proto, enc, true
}

func (cs *verifC28CacheState) exec(line string) string {
	f := strings.Fields(line)
	if len(f) < 2 || f[0] != "c" {
		return "bad-op"
	}
	if f[1] == "reset" {
		cs.cache = MakeVerifiedTransactionCache(4000)
		return "ok"
	}
	proto, enc, ok := verifC28ParseBody(f[2:])
	if !ok || cs.cache == nil || len(enc) == 0 {
		return "bad-op"
	}
	stxs, ok1 := verifC28Decode(enc)
	fresh, ok2 := verifC28Decode(enc) // the cache keeps the slice it verified: never hand it memory we use again
	if !ok1 || !ok2 {
		return "bad-op"
	}
	crypto.SetEd25519BatchVerifier(false)
	hdr := verifC28Header(proto)
	switch f[1] {
	case "add":
		return vh.Catch(func() string {
			_, err := TxnGroup(stxs, &hdr, cs.cache, verifC28Ledger{})
			return "add " + verifC28Classify(err)
		})
	case "via":
		scratch := vh.Catch(func() string {
			_, err := TxnGroup(fresh, &hdr, nil, verifC28Ledger{})
			return verifC28Classify(err)
		})
		return vh.Catch(func() string {
			spec := transactions.SpecialAddresses{FeeSink: verifC28FeeSink, RewardsPool: verifC28Pool}
			unverified := cs.cache.GetUnverifiedTransactionGroups([][]transactions.SignedTxn{stxs}, spec, proto)
			if len(unverified) == 0 {
				return "hit"
			}
			err := PaysetGroups(context.Background(), unverified, hdr, cs.pool, cs.cache, verifC28Ledger{})
			return "miss " + verifC28Classify(err)
		}) + " ; scratch " + scratch
	}
	return "bad-op"
}

// variant: the same transaction bodies (same txids), other authorization material / AuthAddr on one member
func (g *verifC28Gen) cacheVariant(base []transactions.SignedTxn) ([]transactions.SignedTxn, string) {
	r := g.r
	v := make([]transactions.SignedTxn, len(base))
	for i := range base {
		v[i] = base[i]
		v[i].Msig.Subsigs = append([]crypto.MultisigSubsig(nil), base[i].Msig.Subsigs...)
		v[i].Lsig.Msig.Subsigs = append([]crypto.MultisigSubsig(nil), base[i].Lsig.Msig.Subsigs...)
		v[i].Lsig.LMsig.Subsigs = append([]crypto.MultisigSubsig(nil), base[i].Lsig.LMsig.Subsigs...)
	}
	st := &v[r.Intn(len(v))]
	other := func() basics.Address { return g.w.addr(r.Intn(verifC28NumKeys)) }
	prog := logic.Program(st.Lsig.Logic)
	switch x := r.Intn(100); {
	case x < 8:
		return v, "same"
	case x < 36: // only the AuthAddr differs: the signature material stays what it was
		switch r.Intn(4) {
		case 0:
			st.AuthAddr = basics.Address{}
		case 1:
			st.AuthAddr = st.Txn.Sender
		default:
			st.AuthAddr = other()
		}
		return v, "authaddr"
	case x < 50: // a consistent re-authorization by another key: AuthAddr names it and it signs
		k := r.Intn(verifC28NumKeys)
		st.AuthAddr = g.w.addr(k)
		if st.AuthAddr == st.Txn.Sender {
			st.AuthAddr = basics.Address{}
		}
		st.Sig, st.Msig, st.Lsig, st.PQsig = g.w.sign(k, st.Txn), crypto.MultisigSig{}, transactions.LogicSig{}, transactions.PQSig{}
		return v, "resign"
	case x < 62: // another plain signature under the same AuthAddr
		switch r.Intn(3) {
		case 0:
			st.Sig = g.w.sign(r.Intn(verifC28NumKeys), st.Txn)
		case 1:
			st.Sig[r.Intn(64)] ^= 1 << uint(r.Intn(8))
		default:
			st.Sig = crypto.Signature{}
		}
		return v, "sig"
	case x < 78: // the set of subsignatures differs
		g.mutateMsig(&st.Msig, st.Txn)
		return v, "msig"
	case x < 92: // logic sig: arguments / delegation signature / program differ
		switch r.Intn(5) {
		case 0:
			st.Lsig.Args = [][]byte{{byte(r.Intn(2))}}
		case 1:
			st.Lsig.Sig = g.w.sign(r.Intn(verifC28NumKeys), &prog)
		case 2:
			g.mutateMsig(&st.Lsig.Msig, &prog)
		case 3:
			g.mutateMsig(&st.Lsig.LMsig, logic.MultisigProgram{Addr: crypto.Digest(verifC28Authorizer(st)), Program: st.Lsig.Logic})
		default:
			st.Lsig.Logic = g.program("approve")
		}
		return v, "lsig"
	default:
		for _, p := range []*transactions.PQSig{&st.PQsig, &st.Lsig.PQsig} {
			if verifC28PQBlank(p) {
				continue
			}
			if r.Bool() {
				p.Salt++
			} else if sg := append([]byte{}, p.Signature...); len(sg) > 0 {
				sg[r.Intn(len(sg))] ^= 1
				p.Signature = sg
			}
		}
		return v, "pq"
	}
}

func verifC28CacheGenerate(seed uint64, families int) []string {
	r := vh.NewRng(seed ^ 0xC28CAC4E)
	w := verifC28NewWorld(true)
	g := &verifC28Gen{w: w, r: r, hbRng: &verifC28Rng{r: vh.NewRng(seed + 78)}, mutPct: 12, bytePct: 0, maxGroup: 3}
	var lines []string
	for fam := 0; fam < families; fam++ {
		g.proto = protocol.ConsensusCurrentVersion
		if r.Chance(25) {
			g.proto = verifC28Protos[r.Intn(5)].v
		}
		g.par = config.Consensus[g.proto]
		enc := g.group()
		base, ok := verifC28Decode(enc)
		if !ok || len(base) == 0 {
			continue
		}
		type variant struct {
			stxs  []transactions.SignedTxn
			enc   [][]byte
			label string
		}
		vs := []variant{{label: "base:" + strings.Join(append([]string{"none"}, g.label...), "+")}}
		vs[0].enc = enc
		for k := 1 + r.Intn(4); k > 0; k-- {
			v, lab := g.cacheVariant(base)
			var ve [][]byte
			for i := range v {
				ve = append(ve, protocol.Encode(&v[i]))
			}
			vs = append(vs, variant{enc: ve, label: lab})
		}
		sym := verifC28NewSym(w)
		good := true
		for i := range vs {
			vs[i].stxs, ok = verifC28Decode(vs[i].enc)
			good = good && ok
			if ok {
				sym.register(vs[i].stxs)
			}
		}
		if !good {
			continue
		}
		emit := func(op string, i int, proto protocol.ConsensusVersion) {
			lines = append(lines, sym.line("c "+op, proto, vs[i].stxs, vs[i].enc, vs[i].label))
		}
		lines = append(lines, "c reset")
		first := 0
		if r.Chance(30) { // a variant is what was verified first
			first = 1 + r.Intn(len(vs)-1)
		}
		if r.Chance(80) {
			emit("add", first, g.proto)
		} else {
			emit("via", first, g.proto) // verified (and cached) by the cache path itself
		}
		if r.Chance(6) { // the same bytes verified under another protocol version do not count
			emit("via", first, verifC28Protos[r.Intn(5)].v)
		}
		for i := range vs {
			if i != first {
				emit("via", i, g.proto)
			}
		}
		for c := r.Intn(3); c > 0; c-- {
			emit("via", r.Intn(len(vs)), g.proto)
		}
		emit("via", first, g.proto)
	}
	return lines
}

// verifC28Corpus: op lines of $VERIF_C28_CORPUS (set by checks/C28.py to corpus/C28/verify.ops), if any
func verifC28Corpus() []string {
	p := os.Getenv("VERIF_C28_CORPUS")
	if p == "" {
		return nil
	}
	b, err := os.ReadFile(p)
	if err != nil {
		return nil
	}
	var out []string
	for _, l := range strings.Split(string(b), "\n") {
		if strings.HasPrefix(l, "g ") {
			out = append(out, l)
		}
	}
	return out
}

func TestVerifC28Cache(t *testing.T) {
	out := vh.Open("c28cache")
	defer out.Close()
	lines, replay := vh.ReplayOps()
	if !replay {
		lines = verifC28CacheGenerate(vh.Seed(), vh.Budget(1500, 20000))
		if b, err := os.ReadFile(os.Getenv("VERIF_C28_CACHE_CORPUS")); err == nil { // corpus/C28/cache.ops, run first
			var c []string
			for _, l := range strings.Split(string(b), "\n") {
				if strings.HasPrefix(l, "c ") {
					c = append(c, l)
				}
			}
			lines = append(c, lines...)
		}
	}
	cs := &verifC28CacheState{pool: execpool.MakeBacklog(nil, 0, execpool.LowPriority, nil)}
	defer cs.pool.Shutdown()
	for _, l := range lines {
		out.Emit(l, vh.Catch(func() string { return cs.exec(l) }))
	}
}

func TestVerifC28(t *testing.T) {
	out := vh.Open("c28")
	defer out.Close()
	lines, replay := vh.ReplayOps()
	if !replay {
		// corpus first (witness inputs of past disagreements / self-test mutations), then the seeded random groups
		lines = append(verifC28Corpus(), verifC28Generate(vh.Seed(), vh.Budget(6000, 60000))...)
	}
	for _, l := range lines {
		out.Emit(l, verifC28Exec(l))
	}
}
