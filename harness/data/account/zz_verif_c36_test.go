//go:build verif

package account

// C36, persistence layer: forward security of the voting keys must survive a restart.
//
// One op line is one self-contained history on a REAL PersistedParticipation backed by a sqlite file in t.TempDir():
//
//	pcase <firstValid> <lastValid> <dilution> <wr0> <wr1> <step> <step> ...
//
//	a<r>  = err := <-part.DeleteOldKeys(r, proto)   (waits for the acknowledgement; an error is reported)
//	R     = restart: the DB accessor is closed and reopened, part = RestoreParticipation(store)
//
// The result line describes the situation after the LAST step, for the secrets in memory and for the secrets a restart
// at that moment would load (a fresh RestoreParticipation from the same DB, which does not replace the running ones):
//
//	<mem state> <mem window> | <restored state> <restored window>
//
// state  = FirstBatch len(Batches) Batches!=nil FirstOffset len(Offsets)
// window = one token per round wr0..wr1 (id = OneTimeIDForRound(round, dilution)):
//
//	z zero signature, does not verify   o/b verifies (made with a retained offset key / through a batch key)
//	x non-zero, does not verify         w zero signature that verifies
import (
	"fmt"
	"io"
	"os"
	"path/filepath"
	"strings"
	"sync"
	"sync/atomic"
	"testing"

	"github.com/algorand/go-algorand/config"
	"github.com/algorand/go-algorand/crypto"
	"github.com/algorand/go-algorand/data/basics"
	"github.com/algorand/go-algorand/logging"
	"github.com/algorand/go-algorand/protocol"
	"github.com/algorand/go-algorand/util/db"
	"github.com/algorand/go-algorand/zz_verif_tools/vh"
)

type verifC36PMsg []byte

func (m verifC36PMsg) ToBeHashed() (protocol.HashID, []byte) { return protocol.Message, m }

var verifC36PMessage = verifC36PMsg("verif-c36 vote")

type verifC36PCase struct {
	fv, lv, dil, wr0, wr1 uint64
	steps                 []string
}

func (c verifC36PCase) line() string {
	s := fmt.Sprintf("pcase %d %d %d %d %d", c.fv, c.lv, c.dil, c.wr0, c.wr1)
	if len(c.steps) > 0 {
		s += " " + strings.Join(c.steps, " ")
	}
	return s
}

func verifC36PParse(line string) (c verifC36PCase, ok bool) {
	f := strings.Fields(line)
	if len(f) < 6 || f[0] != "pcase" {
		return c, false
	}
	c.fv, c.lv, c.dil, c.wr0, c.wr1 = vh.U(f[1]), vh.U(f[2]), vh.U(f[3]), vh.U(f[4]), vh.U(f[5])
	if c.dil == 0 || c.lv < c.fv || c.lv-c.fv > 4096 || c.wr1 < c.wr0 || c.wr1-c.wr0 > 64 {
		return c, false
	}
	for _, s := range f[6:] {
		if s != "R" && !(len(s) > 1 && s[0] == 'a') {
			return c, false
		}
		if s != "R" {
			vh.U(s[1:])
		}
		c.steps = append(c.steps, s)
	}
	return c, true
}

func verifC36PToken(v crypto.OneTimeSignatureVerifier, s *crypto.OneTimeSignatureSecrets, id crypto.OneTimeSignatureIdentifier) byte {
	sig := s.Sign(id, verifC36PMessage)
	ok := v.Verify(id, verifC36PMessage, sig)
	if sig == (crypto.OneTimeSignature{}) {
		if ok {
			return 'w'
		}
		return 'z'
	}
	if !ok {
		return 'x'
	}
	for i := range s.Offsets {
		if s.Offsets[i].PK == sig.PK {
			return 'o'
		}
	}
	return 'b'
}

func verifC36PView(v crypto.OneTimeSignatureVerifier, s *crypto.OneTimeSignatureSecrets, c *verifC36PCase) string {
	nn := "0"
	if s.Batches != nil {
		nn = "1"
	}
	win := make([]byte, 0, c.wr1-c.wr0+1)
	for r := c.wr0; ; r++ {
		win = append(win, verifC36PToken(v, s, basics.OneTimeIDForRound(basics.Round(r), c.dil)))
		if r == c.wr1 {
			break
		}
	}
	return fmt.Sprintf("%d %d %s %d %d %s", s.FirstBatch, len(s.Batches), nn, s.FirstOffset, len(s.Offsets), win)
}

var verifC36PSeq atomic.Uint64

// verifC36PExec runs one history from scratch on the real code.
func verifC36PExec(line string, dir string) string {
	return vh.Catch(func() string {
		c, ok := verifC36PParse(line)
		if !ok {
			return "bad-op"
		}
		proto := config.Consensus[protocol.ConsensusCurrentVersion]
		path := filepath.Join(dir, fmt.Sprintf("c36p-%d.sqlite", verifC36PSeq.Add(1)))
		defer func() {
			os.Remove(path)
			os.Remove(path + "-wal")
			os.Remove(path + "-shm")
		}()
		store, err := db.MakeAccessor(path, false, false)
		if err != nil {
			return "ERR open " + err.Error()
		}
		defer func() { store.Close() }()
		var parent basics.Address
		parent[0] = 36
		part, err := FillDBWithParticipationKeys(store, parent, basics.Round(c.fv), basics.Round(c.lv), c.dil)
		if err != nil {
			return "ERR fill " + err.Error()
		}
		voteID := part.Voting.OneTimeSignatureVerifier
		for _, st := range c.steps {
			if st == "R" {
				store.Close()
				store, err = db.MakeAccessor(path, false, false)
				if err != nil {
					return "ERR reopen " + err.Error()
				}
				part, err = RestoreParticipation(store)
				if err != nil {
					return "ERR restore " + err.Error()
				}
				continue
			}
			if err := <-part.DeleteOldKeys(basics.Round(vh.U(st[1:])), proto); err != nil {
				return "ERR deleteoldkeys " + err.Error()
			}
			// interleaved sign requests on the running secrets
			verifC36PView(voteID, part.Voting, &c)
		}
		restored, err := RestoreParticipation(store)
		if err != nil {
			return "ERR restore " + err.Error()
		}
		return verifC36PView(voteID, part.Voting, &c) + " | " + verifC36PView(voteID, restored.Voting, &c)
	})
}

func verifC36PWorkers() int {
	if w := os.Getenv("VERIF_C36_WORKERS"); w != "" {
		return int(vh.U(w))
	}
	return 8
}

func verifC36PExecAll(lines []string, dir string) []string {
	res := make([]string, len(lines))
	var wg sync.WaitGroup
	var next atomic.Int64
	for w := 0; w < verifC36PWorkers(); w++ {
		wg.Add(1)
		go func() {
			defer wg.Done()
			for {
				i := int(next.Add(1)) - 1
				if i >= len(lines) {
					return
				}
				res[i] = verifC36PExec(lines[i], dir)
			}
		}()
	}
	wg.Wait()
	return res
}

// all histories of length 1..depth over: advance to every round of [fv-1, lv+2] and restart
func verifC36PExhaustive(fv, lv, dil uint64, depth int) []string {
	var alphabet []string
	lo := fv
	if lo > 0 {
		lo--
	}
	for r := lo; r <= lv+2; r++ {
		alphabet = append(alphabet, fmt.Sprintf("a%d", r))
	}
	alphabet = append(alphabet, "R")
	c := verifC36PCase{fv: fv, lv: lv, dil: dil, wr0: lo, wr1: lv + 1}
	var lines []string
	var rec func(prefix []string)
	rec = func(prefix []string) {
		if len(prefix) > 0 {
			cc := c
			cc.steps = prefix
			lines = append(lines, cc.line())
		}
		if len(prefix) >= depth {
			return
		}
		for _, a := range alphabet {
			rec(append(append(make([]string, 0, len(prefix)+1), prefix...), a))
		}
	}
	rec(nil)
	return lines
}

func verifC36PRandom(rng *vh.Rng, count int) []string {
	var lines []string
	for i := 0; i < count; i++ {
		dil := uint64(1 + rng.Intn(4))
		fv := uint64(rng.Intn(int(3*dil) + 1))
		lv := fv + uint64(rng.Intn(int(4*dil)+1))
		c := verifC36PCase{fv: fv, lv: lv, dil: dil, wr1: lv + dil}
		if fv > dil {
			c.wr0 = fv - dil
		}
		k := 1 + rng.Intn(10)
		cur := c.wr0
		mono := rng.Chance(65)
		for j := 0; j < k; j++ {
			if rng.Chance(30) {
				c.steps = append(c.steps, "R")
			} else {
				if mono {
					cur += uint64(rng.Intn(int(dil) + 2)) // a node advances a few rounds at a time
				} else {
					cur = c.wr0 + uint64(rng.Intn(int(c.wr1-c.wr0)+2))
				}
				c.steps = append(c.steps, fmt.Sprintf("a%d", cur))
			}
			lines = append(lines, c.line()) // one line per prefix
		}
	}
	return lines
}

func TestVerifC36Persist(t *testing.T) {
	logging.Base().SetOutput(io.Discard)
	logging.Base().SetLevel(logging.Panic)
	out := vh.Open("c36p")
	defer out.Close()
	dir := t.TempDir()
	var lines []string
	if ops, replay := vh.ReplayOps(); replay {
		lines = ops
	} else {
		// the node advances one round at a time and restarts at some point (the AccountManager pattern)
		for _, dil := range []uint64{1, 2, 3} {
			c := verifC36PCase{fv: 0, lv: 3*dil + 1, dil: dil, wr0: 0, wr1: 3*dil + 2}
			for r := uint64(1); r <= c.lv+1; r++ {
				c.steps = append(c.steps, fmt.Sprintf("a%d", r))
				lines = append(lines, c.line())
				if r%2 == 0 {
					c.steps = append(c.steps, "R")
					lines = append(lines, c.line())
				}
			}
		}
		d := 3
		if vh.Thorough() || vh.Budget(100, 100) >= 1000 {
			d = 4
		}
		lines = append(lines, verifC36PExhaustive(3, 11, 3, d)...) // batches 1..3, dilution 3
		lines = append(lines, verifC36PExhaustive(1, 4, 2, d)...)  // batches 0..2, dilution 2
		lines = append(lines, verifC36PRandom(vh.NewRng(vh.Seed()+36), vh.Budget(150, 1500))...)
	}
	for i, r := range verifC36PExecAll(lines, dir) {
		out.Emit(lines[i], r)
	}
}
