//go:build verif

package pools

// C20 harness, producer side — the REAL TransactionPool as the block producer.
//
// A real ledger (ledger.OpenLedger, in memory) and a real TransactionPool on top of it.  Seeded groups of signed payments
// (valid, overspending, closing, with windows that are about to expire, duplicates, fee shortfalls) are submitted with
// Remember (invalid ones are refused at ingestion); then the pool re-evaluates its pending groups (recomputeBlockEvaluator,
// what OnNewBlock triggers) and the block is taken from the real AssembleBlock, finished with FinishBlock as agreement does,
// and must be accepted by the real Ledger.Validate (real execution pool, real signatures) — twice (cold / warm verified-
// transaction cache) with the identical state delta; it is then added to the ledger and announced with OnNewBlock.  `skip`
// adds an empty block built outside the pool, so that pending groups expire and are dropped by the next re-evaluation.
//
// Op grammar:
//   reset proto=<future|current|v41|v40|v39>                      → ok
//   rem <tx>[;<tx>…]                                              → ok | err <class>
//   asm prp=<id> elig=<0|1>                                       → ok rnd=R payset=N pending=P x=<delta digest> y=<delta digest, 2nd validation> | REJECTED <error> | asm-error <error>
//   skip                                                          → ok rnd=R pending=P
//   <tx> = p/<snd>/<rcv>/<amt>/<fee>/<dfv>/<dlv>/<note>/<close 0|rcv id>   fv = round+dfv−5, lv = round+dlv−5 (round = pool evaluator's round)
// Monitor (checks/C20.py): every asm is `ok` and x = y.

import (
	"context"
	"crypto/sha256"
	"encoding/binary"
	"encoding/hex"
	"fmt"
	"path/filepath"
	"sort"
	"strings"
	"testing"
	"time"

	"github.com/algorand/go-algorand/agreement"
	"github.com/algorand/go-algorand/config"
	"github.com/algorand/go-algorand/crypto"
	"github.com/algorand/go-algorand/data/basics"
	"github.com/algorand/go-algorand/data/bookkeeping"
	"github.com/algorand/go-algorand/data/committee"
	"github.com/algorand/go-algorand/data/transactions"
	"github.com/algorand/go-algorand/ledger"
	"github.com/algorand/go-algorand/ledger/ledgercore"
	"github.com/algorand/go-algorand/logging"
	"github.com/algorand/go-algorand/protocol"
	"github.com/algorand/go-algorand/util/execpool"
	"github.com/algorand/go-algorand/zz_verif_tools/vh"
)

const c20pN = 9 // ids 1..6 accounts, 7 fee sink, 8 rewards pool

type c20pH struct {
	t     *testing.T
	l     *ledger.Ledger
	pool  *TransactionPool
	keys  [c20pN]*crypto.SignatureSecrets
	addrs [c20pN]basics.Address
	cases int
	exec  execpool.BacklogPool
}

func (h *c20pH) close() {
	if h.pool != nil {
		h.pool.Shutdown()
		h.pool = nil
	}
	if h.l != nil {
		h.l.Close()
		h.l = nil
	}
}

func (h *c20pH) reset(op string) string {
	h.close()
	cv := protocol.ConsensusFuture
	switch {
	case strings.Contains(op, "proto=current"):
		cv = protocol.ConsensusCurrentVersion
	case strings.Contains(op, "proto=v41"):
		cv = protocol.ConsensusV41
	case strings.Contains(op, "proto=v40"):
		cv = protocol.ConsensusV40
	case strings.Contains(op, "proto=v39"):
		cv = protocol.ConsensusV39
	}
	accts := make(map[basics.Address]basics.AccountData)
	for id := 1; id <= 5; id++ {
		accts[h.addrs[id]] = basics.AccountData{MicroAlgos: basics.MicroAlgos{Raw: uint64(20+10*id) * 1000000}}
	}
	accts[h.addrs[7]] = basics.AccountData{Status: basics.NotParticipating, MicroAlgos: basics.MicroAlgos{Raw: 50000000}}
	accts[h.addrs[8]] = basics.AccountData{Status: basics.NotParticipating, MicroAlgos: basics.MicroAlgos{Raw: 500000000000}}
	bal := bookkeeping.MakeTimestampedGenesisBalances(accts, h.addrs[7], h.addrs[8], 1700000000)
	h.cases++
	var gh crypto.Digest
	binary.BigEndian.PutUint64(gh[0:8], uint64(h.cases))
	gh[31] = 0x21
	genBlock, err := bookkeeping.MakeGenesisBlock(cv, bal, "verif-c20pool", gh)
	if err != nil {
		return "reset-error " + err.Error()
	}
	cfg := config.GetDefaultLocal()
	cfg.Archival = true
	cfg.TxPoolSize, cfg.VerifiedTranscationsCacheSize = 1000, 1000
	cfg.DisableLedgerLRUCache = true
	h.l, err = ledger.OpenLedger(logging.Base(), filepath.Join(h.t.TempDir(), fmt.Sprintf("c20pool-%d", h.cases)), true,
		ledgercore.InitState{Block: genBlock, Accounts: bal.Balances, GenesisHash: gh}, cfg)
	if err != nil {
		return "reset-error " + err.Error()
	}
	h.pool = MakeTransactionPool(h.l, cfg, logging.Base(), nil)
	return "ok"
}

func (h *c20pH) round() basics.Round { return h.l.Latest() + 1 }

func (h *c20pH) parseTx(s string) (transactions.Transaction, uint64, bool) {
	f := strings.Split(s, "/")
	if len(f) != 9 || f[0] != "p" {
		return transactions.Transaction{}, 0, false
	}
	u := func(i int) uint64 { return vh.U(f[i]) }
	rnd := uint64(h.round())
	sub := func(a, b uint64) basics.Round {
		if a < b {
			return 0
		}
		return basics.Round(a - b)
	}
	tx := transactions.Transaction{Type: protocol.PaymentTx}
	tx.Header = transactions.Header{Sender: h.addrs[u(1)%c20pN], Fee: basics.MicroAlgos{Raw: u(4)}, FirstValid: sub(rnd+u(5), 5), LastValid: sub(rnd+u(6), 5), GenesisHash: h.l.GenesisHash()}
	tx.Note = make([]byte, 8)
	binary.BigEndian.PutUint64(tx.Note, u(7))
	tx.Receiver = h.addrs[u(2)%c20pN]
	tx.Amount = basics.MicroAlgos{Raw: u(3)}
	if c := u(8); c != 0 {
		tx.CloseRemainderTo = h.addrs[c%c20pN]
	}
	return tx, u(1) % c20pN, true
}

func c20pErr(err error) string {
	m := err.Error()
	for _, p := range [][2]string{{"overspend", "overspend"}, {"TxnDeadError", "dead"}, {"txn dead", "dead"}, {"already in ledger", "dup"}, {"fee", "fee"},
		{"balance", "minbal"}, {"malformed", "malformed"}, {"group", "group"}} {
		if strings.Contains(m, p[0]) {
			return p[1]
		}
	}
	if len(m) > 60 {
		m = m[:60]
	}
	return "other:" + strings.ReplaceAll(m, " ", "_")
}

func (h *c20pH) rem(op string) string {
	var txs []transactions.Transaction
	var snd []uint64
	for _, s := range strings.Split(strings.TrimSpace(strings.TrimPrefix(op, "rem")), ";") {
		tx, sender, ok := h.parseTx(s)
		if !ok {
			return "bad-op"
		}
		txs = append(txs, tx)
		snd = append(snd, sender)
	}
	if len(txs) > 1 {
		var tg transactions.TxGroup
		for i := range txs {
			tg.TxGroupHashes = append(tg.TxGroupHashes, crypto.Digest(txs[i].ID()))
		}
		g := crypto.HashObj(tg)
		for i := range txs {
			txs[i].Group = g
		}
	}
	stx := make([]transactions.SignedTxn, len(txs))
	for i := range txs {
		if snd[i] == 0 {
			stx[i] = transactions.SignedTxn{Txn: txs[i]}
		} else {
			stx[i] = txs[i].Sign(h.keys[snd[i]])
		}
	}
	if err := h.pool.Remember(stx); err != nil {
		return "err " + c20pErr(err)
	}
	return "ok"
}

func c20pDigest(sd ledgercore.StateDelta) string {
	var parts []string
	for _, r := range sd.Accts.Accts {
		parts = append(parts, fmt.Sprintf("acct %x %+v", r.Addr[:], r.AccountData))
	}
	for id, it := range sd.Txids {
		parts = append(parts, fmt.Sprintf("txid %x %d %d", id[:], it.LastValid, it.Intra))
	}
	parts = append(parts, fmt.Sprintf("tot %+v spn %d ts %d", sd.Totals, sd.StateProofNext, sd.PrevTimestamp))
	sort.Strings(parts)
	sum := sha256.Sum256([]byte(strings.Join(parts, "\n")))
	return hex.EncodeToString(sum[:10])
}

// finish, validate twice, add, announce
func (h *c20pH) land(ub *ledgercore.UnfinishedBlock, prp uint64, elig bool, pending int) string {
	prpAddr := h.addrs[prp%c20pN]
	blk := ub.FinishBlock(committee.Seed(prpAddr), prpAddr, elig)
	vb, err := h.l.Validate(context.Background(), blk, h.exec)
	if err != nil {
		return "REJECTED " + strings.ReplaceAll(err.Error(), " ", "_")
	}
	vb2, err := h.l.Validate(context.Background(), blk, h.exec)
	if err != nil {
		return "REJECTED(2nd) " + strings.ReplaceAll(err.Error(), " ", "_")
	}
	if err = h.l.AddValidatedBlock(*vb, agreement.Certificate{}); err != nil {
		return "add-error " + err.Error()
	}
	h.l.WaitForCommit(h.l.Latest())
	h.pool.OnNewBlock(vb.Block(), vb.Delta())
	return fmt.Sprintf("ok rnd=%d payset=%d pending=%d x=%s y=%s", uint64(blk.Round()), len(blk.Payset), pending, c20pDigest(vb.Delta()), c20pDigest(vb2.Delta()))
}

func (h *c20pH) asm(op string) string {
	var prp uint64 = 1
	elig := false
	for _, tok := range strings.Fields(op)[1:] {
		if strings.HasPrefix(tok, "prp=") {
			prp = vh.U(tok[4:])
		} else if tok == "elig=1" {
			elig = true
		}
	}
	pending := h.pool.PendingCount()
	// what OnNewBlock does after every block: a fresh evaluator over the latest round, the pending groups re-evaluated in
	// order (failing ones dropped), GenerateBlock at the end
	h.pool.mu.Lock()
	h.pool.recomputeBlockEvaluator(nil, 0)
	h.pool.mu.Unlock()
	ub, err := h.pool.AssembleBlock(h.round(), time.Time{})
	if err != nil || ub == nil {
		return fmt.Sprintf("asm-error %v", err)
	}
	return h.land(ub, prp, elig, pending)
}

func (h *c20pH) skip() string {
	prev, err := h.l.BlockHdr(h.l.Latest())
	if err != nil {
		return "skip-error " + err.Error()
	}
	next := bookkeeping.MakeBlock(prev).BlockHeader
	next.TimeStamp = prev.TimeStamp + 1
	ev, err := h.l.StartEvaluator(next, 0, 0, nil)
	if err != nil {
		return "skip-error " + err.Error()
	}
	ub, err := ev.GenerateBlock(nil)
	if err != nil {
		return "skip-error " + err.Error()
	}
	res := h.land(ub, 1, false, h.pool.PendingCount())
	if !strings.HasPrefix(res, "ok ") {
		return res
	}
	f := strings.Fields(res)
	return f[0] + " " + f[1] + " " + f[3]
}

func (h *c20pH) run(op string) string {
	return vh.Catch(func() string {
		switch {
		case strings.HasPrefix(op, "reset"):
			return h.reset(op)
		case h.l == nil:
			return "bad-op"
		case strings.HasPrefix(op, "rem "):
			return h.rem(op)
		case strings.HasPrefix(op, "asm"):
			return h.asm(op)
		case op == "skip":
			return h.skip()
		}
		return "bad-op"
	})
}

func TestVerifC20Pool(t *testing.T) {
	t.Chdir(t.TempDir())
	logging.Base().SetLevel(logging.Panic)
	out := vh.Open("c20pool")
	defer out.Close()
	h := &c20pH{t: t}
	for id := 1; id < c20pN; id++ {
		var seed crypto.Seed
		binary.BigEndian.PutUint64(seed[0:8], uint64(id))
		seed[31] = 0xc3
		h.keys[id] = crypto.GenerateSignatureSecrets(seed)
		h.addrs[id] = basics.Address(h.keys[id].SignatureVerifier)
	}
	h.exec = execpool.MakeBacklog(nil, 0, execpool.LowPriority, h)
	defer h.exec.Shutdown()
	defer h.close()
	if ops, ok := vh.ReplayOps(); ok {
		for _, op := range ops {
			out.Emit(op, h.run(op))
		}
		return
	}
	r := vh.NewRng(vh.Seed()*104729 + 2020)
	protos := []string{"future", "current", "v41", "v40", "v39"}
	cases := vh.Budget(5, 200)
	nonce := uint64(0)
	for c := 0; c < cases; c++ {
		op := "reset proto=" + protos[(c+int(vh.Seed()%5))%len(protos)]
		if res := h.run(op); res != "ok" {
			out.Emit(op, res)
			continue
		} else {
			out.Emit(op, res)
		}
		var okTx []string
		blocks := 3 + r.Intn(4)
		for b := 0; b < blocks; b++ {
			n := r.Intn(12)
			for i := 0; i < n; i++ {
				gs := 1
				if r.Chance(20) {
					gs = 2 + r.Intn(3)
				}
				var txs []string
				for j := 0; j < gs; j++ {
					nonce++
					snd, rcv := 1+r.Intn(6), 1+r.Intn(7)
					amt := []uint64{0, 1, 100000, 99999, 1000000, 5000000, 200000000, 1 << 62}[r.Intn(8)]
					fee := []uint64{1000, 1000, 1000, 2000, 999, 0}[r.Intn(6)]
					dfv, dlv := uint64(5), uint64(5+r.Intn(8))
					switch r.Intn(12) {
					case 0:
						dfv, dlv = 5, 5 // valid for this round only
					case 1:
						dfv, dlv = 5, 6 // … and the next
					case 2:
						dfv, dlv = 6, 9 // not yet valid
					case 3:
						dfv, dlv = 3, 4 // already dead
					}
					cl := 0
					if r.Chance(8) {
						cl = 1 + r.Intn(6)
					}
					t := fmt.Sprintf("p/%d/%d/%d/%d/%d/%d/%d/%d", snd, rcv, amt, fee, dfv, dlv, nonce, cl)
					if len(okTx) > 0 && r.Chance(4) {
						t = okTx[r.Intn(len(okTx))] // a duplicate of an accepted transaction (windows are relative: may differ later)
					}
					txs = append(txs, t)
				}
				rop := "rem " + strings.Join(txs, ";")
				res := h.run(rop)
				out.Emit(rop, res)
				if res == "ok" && len(txs) == 1 {
					okTx = append(okTx, txs[0])
				}
			}
			if r.Chance(20) {
				out.Emit("skip", h.run("skip"))
			}
			aop := fmt.Sprintf("asm prp=%d elig=%d", 1+r.Intn(7), r.Intn(2))
			ares := h.run(aop)
			out.Emit(aop, ares)
			if !strings.HasPrefix(ares, "ok ") {
				break
			}
		}
	}
}
