//go:build verif

package pools

// C44 correspondence harness (model lean/AlgoVerif/Model/Pool.lean, driver `c44`).
//
// A REAL ledger (ledger.OpenLedger, in-memory sqlite) is opened on a consensus version derived from the current one with a
// SMALL MaxTxnBytesPerBlock (so that the pending evaluator fills up after a few transactions: ErrNoSpace, numPendingWholeBlocks
// and the fee-threshold / congestion logic are reached with a dozen transactions) and a SMALL MaxTxnLife (windows expire
// within a few rounds).  A REAL TransactionPool with a small TxPoolSize sits on top of it.  Seeded submissions (valid
// payments, overspends, closes, conflicting spends of one balance, duplicates of pending / committed / dropped groups,
// leases, windows about to expire or not yet open, bad groups, state-proof transactions, the empty group) are interleaved with
// blocks (assembled by the pool itself — AssembleBlock / AssembleDevModeBlock — or built independently from a random subset
// of the pending groups plus fresh transactions) that are added to the ledger and announced with OnNewBlock.
//
// Besides the pool the harness runs a REFERENCE pool (verifC44Ref: a direct transcription of Model.Pool into Go) whose
// evaluator is a second, independent real BlockEvaluator on the same ledger (the SHADOW evaluator: restarted fresh over the
// latest block at every block op).  Every TransactionGroup call the reference makes is recorded as an oracle entry
// `k.r.gid=verdict` (k = groups accepted so far by this evaluator in this op, r = resets so far in this op, gid = symbolic id of the
// group's first transaction) in the annotation of the op line; the Lean driver replays the model with the ledger
// `accepts` function given by exactly these entries.
//
// Monitors on the implementation alone (field `mon=` of every result line, `ok` when all hold):
//   a  no pending txid is in any block added to the ledger (the harness's own record of the paysets);
//   b  a FRESH evaluator over the latest block accepts all pending groups in order (ErrNoSpace → ResetTxnBytes, retry once);
//   c  no txid twice in the pending groups, and pendingTxids is exactly the set of ids of the pending groups;
//   d  #pending txns ≤ TxPoolSize + #pending state-proof singletons;
//   f  no pending transaction with LastValid < evaluator round;
//   g  a group whose Remember returned nil is the last pending group; a failed Remember leaves the pending list unchanged.
//
// Op grammar (one op per line; ` | ` separates the generator's op from the annotation added by the executor, a replay strips it):
//   reset max=<TxPoolSize> blk=<MaxTxnBytesPerBlock, 0 = current> life=<MaxTxnLife> fac=<TxPoolExponentialIncreaseFactor> nacc=<funded accounts>
//   rem [nogrp] <tx> [<tx>..]     Remember a new group (a real group id when more than one tx unless `nogrp`)
//   rem @<k>                      Remember again the k-th group created in this case (mod the number created)
//   rem                           Remember the empty group
//   asm                           AssembleBlock(evaluator round) → stash            (model: no state change)
//   dev                           AssembleDevModeBlock → stash                       (model: recompute on a fresh evaluator)
//   blk [noids] stash             add the stashed block (an empty block if there is no usable stash) + OnNewBlock
//   blk [noids] pick <i,j,..|-> [; <tx> ..]*   block built on an independent evaluator from the pending groups at these
//                                 indices (mod #pending) and the fresh groups, failing groups skipped; + OnNewBlock.
//                                 `noids`: OnNewBlock gets a delta without Txids
//   stale                         OnNewBlock again with the block added last         (model: ignored, block round < evaluator round)
// <tx> = p/<snd>/<rcv>/<amt·1e5>/<fee>/<dfv>/<dlv>/<note>/<lease>   payment; fv = max(0, evalRound+dfv), lv = max(0, evalRound+dlv)
//        c/… same, CloseRemainderTo = rcv
//        s/<sender: 0 = StateProofSender, k = account k-1>/<fee>/<dfv>/<dlv>/<nonce>   state-proof transaction (never valid here)
// Annotations:
//   rem   | g=<id/fv/lv/fee/len/sp>,..|-  o=<k.r.gid=v>,..|-         sp: 0 no, 1 StateProofTx, 2 StateProofTx from StateProofSender
//   blk   | br=<block round> er=<new evaluator round> c=<committed ids|-> o=..
//   dev   | er=<evaluator round> o=..
//   stale | br=<block round>
//   reset | er=<evaluator round>
// Result line: <class> p=<g1;g2;..|-> n=<len(pendingTxids)> w=<numPendingWholeBlocks> m=<feeThresholdMultiplier> so=<stateproofOverflowed> r=<evaluator round> mon=<ok|…>
//   group = ids joined by '+', the empty group is `e`.

import (
	"errors"
	"fmt"
	"io"
	"os"
	"sort"
	"strconv"
	"strings"
	"testing"
	"time"

	"github.com/algorand/go-algorand/agreement"
	"github.com/algorand/go-algorand/config"
	"github.com/algorand/go-algorand/crypto"
	"github.com/algorand/go-algorand/data/basics"
	"github.com/algorand/go-algorand/data/bookkeeping"
	"github.com/algorand/go-algorand/data/transactions"
	"github.com/algorand/go-algorand/ledger"
	"github.com/algorand/go-algorand/ledger/ledgercore"
	"github.com/algorand/go-algorand/logging"
	"github.com/algorand/go-algorand/protocol"
	"github.com/algorand/go-algorand/zz_verif_tools/vh"
)

const verifC44Unit = 100000 // amounts are multiples of the minimum balance

func verifC44Class(err error) string {
	if err == nil {
		return "ok"
	}
	var feeErr *ErrTxPoolFeeError
	var dead *bookkeeping.TxnDeadError
	var til *ledgercore.TransactionInLedgerError
	var lil *ledgercore.LeaseInLedgerError
	var grp *ledgercore.TxGroupMalformedError
	var nwf *ledgercore.TxnNotWellFormedError
	var over *ledgercore.OverspendError
	var minb *ledgercore.MinBalanceError
	switch {
	case errors.Is(err, ErrPendingQueueReachedMaxCap):
		return "cap"
	case errors.Is(err, ErrNoPendingBlockEvaluator):
		return "noeval"
	case errors.Is(err, ledgercore.ErrNoSpace):
		return "nospace"
	case errors.As(err, &feeErr):
		return "fee"
	case errors.As(err, &dead):
		if dead.Early {
			return "early"
		}
		return "dead"
	case errors.As(err, &til):
		return "txdup"
	case errors.As(err, &lil):
		return "lease"
	case errors.As(err, &grp):
		return "grp"
	case errors.As(err, &nwf):
		return "malformed"
	case errors.As(err, &over):
		return "overspend"
	case errors.As(err, &minb):
		return "minbal"
	}
	if os.Getenv("VERIF_C44_DEBUG") != "" {
		return "other:" + strings.ReplaceAll(err.Error(), " ", "_")
	}
	return "other"
}

// verifC44Proto registers (once) a consensus version = current with a small block / short transaction life.
func verifC44Proto(blk, life uint64) protocol.ConsensusVersion {
	name := protocol.ConsensusVersion(fmt.Sprintf("verifC44-blk%d-life%d", blk, life))
	if _, ok := config.Consensus[name]; ok {
		return name
	}
	p := config.Consensus[protocol.ConsensusCurrentVersion]
	if blk != 0 {
		p.MaxTxnBytesPerBlock = int(blk)
	}
	if life != 0 {
		p.MaxTxnLife = life
	}
	p.ApprovedUpgrades = map[protocol.ConsensusVersion]uint64{}
	// features looking back over many block headers are outside this property
	p.Payouts.Enabled = false
	p.Payouts.ChallengeInterval = 0
	config.Consensus[name] = p
	return name
}

// ---------------------------------------------------------------------------------------------------------------------
// reference pool = Model.Pool transcribed to Go, over an independent real evaluator (the shadow)

type verifC44Ref struct {
	h       *verifC44H
	ev      BlockEvaluator
	round   basics.Round
	pending [][]transactions.SignedTxn
	ids     map[transactions.Txid]bool
	whole   uint64
	mult    uint64
	factor  uint64
	max     int
	spOver  bool
	k, r    int
	oracle  []string
}

func (x *verifC44Ref) beginOp() { x.k, x.r, x.oracle = 0, 0, nil }

func (x *verifC44Ref) try(g []transactions.SignedTxn) string {
	c := verifC44Class(x.ev.TransactionGroup(transactions.WrapSignedTxnsWithAD(g)...))
	gid := "e"
	if len(g) > 0 {
		gid = strconv.Itoa(x.h.sym(g[0].ID()))
	}
	x.oracle = append(x.oracle, fmt.Sprintf("%d.%d.%s=%s", x.k, x.r, gid, c))
	if c == "ok" {
		x.k++
	}
	return c
}

func (x *verifC44Ref) deadAt(r uint64, g []transactions.SignedTxn) bool {
	for _, t := range g {
		if uint64(t.Txn.LastValid) < r {
			return true
		}
	}
	return false
}

func (x *verifC44Ref) addEval(g []transactions.SignedTxn) string {
	if x.deadAt(uint64(x.round)+x.whole, g) {
		return "dead"
	}
	c := x.try(g)
	if c != "nospace" {
		return c
	}
	x.whole++
	x.ev.ResetTxnBytes()
	x.r++
	if x.deadAt(uint64(x.round)+x.whole, g) {
		return "dead"
	}
	return x.try(g)
}

func (x *verifC44Ref) feePerByte() uint64 {
	f := x.mult
	if f == 0 && x.whole > 1 {
		f = 1
	}
	for i := 0; i < int(x.whole)-1; i++ {
		f *= x.factor
	}
	return f
}

func (x *verifC44Ref) remember(g []transactions.SignedTxn) string {
	if len(x.ids)+len(g) > x.max {
		if len(g) == 1 && g[0].Txn.Type == protocol.StateProofTx && !x.spOver {
			x.spOver = true
		} else {
			return "cap"
		}
	}
	free := len(g) == 1 && g[0].Txn.Type == protocol.StateProofTx && g[0].Txn.Sender == transactions.StateProofSender && g[0].Txn.Fee.IsZero()
	if !free {
		fpb := x.feePerByte()
		for _, t := range g {
			if t.Txn.Fee.Raw < fpb*uint64(t.GetEncodedLength()) {
				return "fee"
			}
		}
	}
	c := x.addEval(g)
	if c == "ok" {
		x.pending = append(x.pending, g)
		for _, t := range g {
			x.ids[t.ID()] = true
		}
	}
	return c
}

func (x *verifC44Ref) recompute(committed map[transactions.Txid]bool) {
	x.ev = x.h.freshEval()
	x.round = x.ev.Round()
	x.whole = 0
	old := x.pending
	x.pending = nil
	x.ids = map[transactions.Txid]bool{}
	for _, g := range old {
		if len(g) == 0 {
			continue
		}
		if committed[g[0].ID()] {
			continue
		}
		if x.addEval(g) == "ok" {
			x.pending = append(x.pending, g)
			for _, t := range g {
				x.ids[t.ID()] = true
			}
		}
	}
	x.spOver = false
}

func (x *verifC44Ref) onNewBlock(blockRound basics.Round, committed map[transactions.Txid]bool) {
	if blockRound < x.round {
		return
	}
	switch x.whole {
	case 0:
		x.mult = x.mult / x.factor
	case 1:
	default:
		if x.mult == 0 {
			x.mult = 1
		} else {
			x.mult = x.mult * x.factor
		}
	}
	x.recompute(committed)
}

// ---------------------------------------------------------------------------------------------------------------------

type verifC44H struct {
	t         *testing.T
	l         *ledger.Ledger
	pool      *TransactionPool
	ref       *verifC44Ref
	proto     config.ConsensusParams
	addrs     []basics.Address
	secrets   []*crypto.SignatureSecrets
	nacc      int
	max       int
	syms      map[transactions.Txid]int
	created   [][]transactions.SignedTxn
	committed map[transactions.Txid]bool
	stash     *ledgercore.UnfinishedBlock
	lastBlk   *ledgercore.ValidatedBlock
	nreset    int
}

func (h *verifC44H) close() {
	if h.pool != nil {
		h.pool.Shutdown()
		h.pool = nil
	}
	if h.l != nil {
		h.l.Close()
		h.l = nil
	}
}

func (h *verifC44H) sym(id transactions.Txid) int {
	if v, ok := h.syms[id]; ok {
		return v
	}
	v := len(h.syms)
	h.syms[id] = v
	return v
}

func verifC44KV(f []string) map[string]uint64 {
	m := map[string]uint64{}
	for _, t := range f {
		if i := strings.IndexByte(t, '='); i > 0 {
			if n, err := strconv.ParseUint(t[i+1:], 10, 64); err == nil {
				m[t[:i]] = n
			}
		}
	}
	return m
}

func (h *verifC44H) freshEval() BlockEvaluator {
	prev, err := h.l.BlockHdr(h.l.Latest())
	if err != nil {
		panic(err)
	}
	next := bookkeeping.MakeBlock(prev)
	ev, err := h.l.StartEvaluator(next.BlockHeader, 0, 0, nil)
	if err != nil {
		panic(err)
	}
	return ev
}

func (h *verifC44H) reset(kv map[string]uint64) string {
	h.close()
	h.nreset++
	cv := verifC44Proto(kv["blk"], kv["life"])
	h.proto = config.Consensus[cv]
	h.nacc = int(kv["nacc"])
	if h.nacc < 2 {
		h.nacc = 2
	}
	if h.nacc > 12 {
		h.nacc = 12
	}
	h.max = int(kv["max"])
	const total = 16 // accounts nacc..15 exist as keys but are unfunded
	h.addrs, h.secrets = nil, nil
	accts := map[basics.Address]basics.AccountData{}
	for i := 0; i < total; i++ {
		var seed crypto.Seed
		seed[0], seed[1], seed[2] = 0xc4, 0x4c, byte(i)
		s := crypto.GenerateSignatureSecrets(seed)
		a := basics.Address(s.SignatureVerifier)
		h.secrets = append(h.secrets, s)
		h.addrs = append(h.addrs, a)
		if i < h.nacc {
			accts[a] = basics.AccountData{MicroAlgos: basics.MicroAlgos{Raw: 10 * verifC44Unit}}
		}
	}
	var sink, rpool basics.Address
	sink[0], sink[31] = 0xf5, 0x01
	rpool[0], rpool[31] = 0xf5, 0x02
	accts[sink] = basics.AccountData{MicroAlgos: basics.MicroAlgos{Raw: 1 << 32}, Status: basics.NotParticipating}
	accts[rpool] = basics.AccountData{MicroAlgos: basics.MicroAlgos{Raw: 1 << 32}, Status: basics.NotParticipating}
	var genHash crypto.Digest
	genHash[0], genHash[1] = 0xc4, 0x4c
	initBlock := bookkeeping.Block{
		BlockHeader: bookkeeping.BlockHeader{
			GenesisID:    "verifc44",
			GenesisHash:  genHash,
			UpgradeState: bookkeeping.UpgradeState{CurrentProtocol: cv},
			RewardsState: bookkeeping.RewardsState{FeeSink: sink, RewardsPool: rpool},
		},
	}
	var err error
	initBlock.TxnCommitments, err = initBlock.PaysetCommit()
	if err != nil {
		return "FAIL " + err.Error()
	}
	log := logging.NewLogger()
	log.SetOutput(io.Discard)
	lcfg := config.GetDefaultLocal()
	lcfg.Archival = true
	lcfg.DisableLedgerLRUCache = true // the account LRU caches (huge pre-allocated buffers) play no part in this property
	// in-memory sqlite runs in shared-cache mode: a tracker flush writing `accountbase` makes a concurrent account lookup of an
	// evaluator fail with "database table is locked".  Keep every account delta of the (short) case in memory instead.
	lcfg.MaxAcctLookback = 1024
	lcfg.TxPoolSize = 64
	lcfg.VerifiedTranscationsCacheSize = 64
	l, err := ledger.OpenLedger(log, fmt.Sprintf("verifc44-%d", h.nreset), true,
		ledgercore.InitState{Block: initBlock, Accounts: accts, GenesisHash: genHash}, lcfg)
	if err != nil {
		return "FAIL " + err.Error()
	}
	h.l = l
	pcfg := config.GetDefaultLocal()
	pcfg.TxPoolSize = h.max
	pcfg.TxPoolExponentialIncreaseFactor = kv["fac"]
	h.pool = MakeTransactionPool(l, pcfg, log, nil)
	h.syms = map[transactions.Txid]int{}
	h.created = nil
	h.committed = map[transactions.Txid]bool{}
	h.stash, h.lastBlk = nil, nil
	fac := kv["fac"]
	if fac < 1 {
		fac = 1
	}
	h.ref = &verifC44Ref{h: h, factor: fac, max: h.max, ids: map[transactions.Txid]bool{}}
	h.ref.ev = h.freshEval()
	h.ref.round = h.ref.ev.Round()
	return "ok"
}

func verifC44Off(round basics.Round, d int64) basics.Round {
	v := int64(round) + d
	if v < 0 {
		v = 0
	}
	return basics.Round(v)
}

// mkTxn builds the unsigned transaction of a <tx> token at the current evaluator round.
func (h *verifC44H) mkTxn(tok string, round basics.Round) (transactions.Transaction, int, bool) {
	p := strings.Split(tok, "/")
	num := func(i int) int64 {
		if i >= len(p) {
			return 0
		}
		v, _ := strconv.ParseInt(p[i], 10, 64)
		return v
	}
	switch p[0] {
	case "p", "c":
		if len(p) != 9 {
			return transactions.Transaction{}, 0, false
		}
		snd, rcv := int(num(1))%len(h.addrs), int(num(2))%len(h.addrs)
		if snd < 0 || rcv < 0 {
			return transactions.Transaction{}, 0, false
		}
		var lease [32]byte
		if num(8) != 0 {
			lease[0], lease[31] = byte(num(8)), 0x44
		}
		tx := transactions.Transaction{
			Type: protocol.PaymentTx,
			Header: transactions.Header{
				Sender:      h.addrs[snd],
				Fee:         basics.MicroAlgos{Raw: uint64(num(4))},
				FirstValid:  verifC44Off(round, num(5)),
				LastValid:   verifC44Off(round, num(6)),
				Note:        []byte(fmt.Sprintf("verif-c44-%d", num(7))),
				GenesisHash: h.l.GenesisHash(),
				Lease:       lease,
			},
			PaymentTxnFields: transactions.PaymentTxnFields{
				Receiver: h.addrs[rcv],
				Amount:   basics.MicroAlgos{Raw: uint64(num(3)) * verifC44Unit},
			},
		}
		if p[0] == "c" {
			tx.CloseRemainderTo = h.addrs[rcv]
		}
		return tx, snd, true
	case "s":
		if len(p) != 6 {
			return transactions.Transaction{}, 0, false
		}
		tx := transactions.Transaction{
			Type: protocol.StateProofTx,
			Header: transactions.Header{
				Sender:      transactions.StateProofSender,
				Fee:         basics.MicroAlgos{Raw: uint64(num(2))},
				FirstValid:  verifC44Off(round, num(3)),
				LastValid:   verifC44Off(round, num(4)),
				GenesisHash: h.l.GenesisHash(),
			},
		}
		tx.Message.LastAttestedRound = basics.Round(num(5))
		snd := -1
		if num(1) > 0 {
			snd = (int(num(1)) - 1) % len(h.addrs)
			tx.Sender = h.addrs[snd]
		}
		return tx, snd, true
	}
	return transactions.Transaction{}, 0, false
}

func (h *verifC44H) mkGroup(toks []string, round basics.Round) ([]transactions.SignedTxn, bool) {
	nogrp := false
	if len(toks) > 0 && toks[0] == "nogrp" {
		nogrp = true
		toks = toks[1:]
	}
	txs := make([]transactions.Transaction, len(toks))
	snds := make([]int, len(toks))
	for i, tok := range toks {
		tx, snd, ok := h.mkTxn(tok, round)
		if !ok {
			return nil, false
		}
		txs[i], snds[i] = tx, snd
	}
	if len(txs) > 1 && !nogrp {
		var g transactions.TxGroup
		for _, tx := range txs {
			g.TxGroupHashes = append(g.TxGroupHashes, crypto.Digest(tx.ID()))
		}
		gid := crypto.HashObj(g)
		for i := range txs {
			txs[i].Group = gid
		}
	}
	out := make([]transactions.SignedTxn, len(txs))
	for i, tx := range txs {
		if snds[i] >= 0 {
			out[i] = tx.Sign(h.secrets[snds[i]])
		} else {
			out[i] = transactions.SignedTxn{Txn: tx}
		}
	}
	return out, true
}

func (h *verifC44H) gidStr(g []transactions.SignedTxn) string {
	if len(g) == 0 {
		return "e"
	}
	s := make([]string, len(g))
	for i, t := range g {
		s[i] = strconv.Itoa(h.sym(t.ID()))
	}
	return strings.Join(s, "+")
}

func (h *verifC44H) pendStr(gs [][]transactions.SignedTxn) string {
	if len(gs) == 0 {
		return "-"
	}
	s := make([]string, len(gs))
	for i, g := range gs {
		s[i] = h.gidStr(g)
	}
	return strings.Join(s, ";")
}

func (h *verifC44H) annGroup(g []transactions.SignedTxn) string {
	if len(g) == 0 {
		return "-"
	}
	s := make([]string, len(g))
	for i, t := range g {
		sp := 0
		if t.Txn.Type == protocol.StateProofTx {
			sp = 1
			if t.Txn.Sender == transactions.StateProofSender {
				sp = 2
			}
		}
		s[i] = fmt.Sprintf("%d/%d/%d/%d/%d/%d", h.sym(t.ID()), t.Txn.FirstValid, t.Txn.LastValid, t.Txn.Fee.Raw, t.GetEncodedLength(), sp)
	}
	return strings.Join(s, ",")
}

func verifC44Join(s []string) string {
	if len(s) == 0 {
		return "-"
	}
	return strings.Join(s, ",")
}

// monitors: the property predicates evaluated on the implementation alone
func (h *verifC44H) monitors(before [][]transactions.SignedTxn, remembered []transactions.SignedTxn, isRem bool, class string) string {
	pend := h.pool.PendingTxGroups()
	var bad []string
	seen := map[transactions.Txid]bool{}
	count, sps := 0, 0
	evRound := h.pool.pendingBlockEvaluator.Round()
	for _, g := range pend {
		if len(g) == 1 && g[0].Txn.Type == protocol.StateProofTx {
			sps++
		}
		for _, t := range g {
			count++
			id := t.ID()
			if h.committed[id] {
				bad = append(bad, fmt.Sprintf("a:%d", h.sym(id)))
			}
			if seen[id] {
				bad = append(bad, fmt.Sprintf("c:%d", h.sym(id)))
			}
			seen[id] = true
			if t.Txn.LastValid < evRound {
				bad = append(bad, fmt.Sprintf("f:%d", h.sym(id)))
			}
		}
	}
	ids := h.pool.PendingTxIDs()
	if len(ids) != len(seen) {
		bad = append(bad, fmt.Sprintf("c:ids%d/%d", len(ids), len(seen)))
	}
	for _, id := range ids {
		if !seen[id] {
			bad = append(bad, fmt.Sprintf("c:stray%d", h.sym(id)))
		}
	}
	if count > h.max+sps {
		bad = append(bad, fmt.Sprintf("d:%d>%d+%d", count, h.max, sps))
	}
	// b: a fresh evaluator over the latest block accepts everything pending, in order
	ev := h.freshEval()
	if ev.Round() != evRound {
		bad = append(bad, fmt.Sprintf("b:round%d/%d", evRound, ev.Round()))
	}
	for _, g := range pend {
		err := ev.TransactionGroup(transactions.WrapSignedTxnsWithAD(g)...)
		if errors.Is(err, ledgercore.ErrNoSpace) {
			ev.ResetTxnBytes()
			err = ev.TransactionGroup(transactions.WrapSignedTxnsWithAD(g)...)
		}
		if err != nil {
			bad = append(bad, fmt.Sprintf("b:%s:%s", h.gidStr(g), verifC44Class(err)))
		}
	}
	if isRem {
		same := func(a, b [][]transactions.SignedTxn) bool {
			if len(a) != len(b) {
				return false
			}
			for i := range a {
				if h.gidStr(a[i]) != h.gidStr(b[i]) {
					return false
				}
			}
			return true
		}
		if class == "ok" {
			if len(pend) != len(before)+1 || !same(pend[:len(before)], before) || h.gidStr(pend[len(pend)-1]) != h.gidStr(remembered) {
				bad = append(bad, "g:not-appended")
			}
		} else if !same(pend, before) {
			bad = append(bad, "g:changed-on-error")
		}
	}
	if len(bad) == 0 {
		return "ok"
	}
	sort.Strings(bad)
	return strings.Join(bad, ",")
}

func (h *verifC44H) state(class string, mon string) string {
	so := 0
	if h.pool.stateproofOverflowed {
		so = 1
	}
	return fmt.Sprintf("%s p=%s n=%d w=%d m=%d so=%d r=%d mon=%s", class, h.pendStr(h.pool.PendingTxGroups()), len(h.pool.PendingTxIDs()),
		h.pool.numPendingWholeBlocks, h.pool.feeThresholdMultiplier, so, h.pool.pendingBlockEvaluator.Round(), mon)
}

func (h *verifC44H) evalRound() basics.Round { return h.pool.pendingBlockEvaluator.Round() }

// addBlock adds the block to the ledger, records its payset, tells the pool and the reference.
func (h *verifC44H) addBlock(ub *ledgercore.UnfinishedBlock, noids bool) (ann string, err error) {
	vb := ledgercore.MakeValidatedBlock(ub.UnfinishedBlock(), ub.UnfinishedDeltas())
	if err = h.l.AddValidatedBlock(vb, agreement.Certificate{}); err != nil {
		return "", err
	}
	h.lastBlk = &vb
	h.stash = nil
	blk := vb.Block()
	payset, err := blk.DecodePaysetFlat()
	if err != nil {
		return "", err
	}
	var cids []string
	committed := map[transactions.Txid]bool{}
	for _, t := range payset {
		id := t.ID()
		h.committed[id] = true
		committed[id] = true
		cids = append(cids, strconv.Itoa(h.sym(id)))
	}
	delta := vb.Delta()
	if noids {
		delta.Txids = nil
		committed = map[transactions.Txid]bool{}
		cids = nil
	}
	h.pool.OnNewBlock(blk, delta)
	h.ref.beginOp()
	h.ref.onNewBlock(blk.Round(), committed)
	return fmt.Sprintf("br=%d er=%d c=%s o=%s", blk.Round(), h.ref.round, verifC44Join(cids), verifC44Join(h.ref.oracle)), nil
}

// exec runs one op on the real pool; returns the annotated op line and the result line.
func (h *verifC44H) exec(line string) (string, string) {
	op := line
	if i := strings.Index(line, " | "); i >= 0 {
		op = line[:i]
	}
	op = strings.TrimSpace(op)
	ann, res := "", ""
	res = vh.Catch(func() string {
		f := strings.Fields(op)
		if len(f) == 0 {
			return "bad-op"
		}
		if f[0] == "reset" {
			r := h.reset(verifC44KV(f[1:]))
			if r != "ok" {
				return r
			}
			ann = fmt.Sprintf("er=%d", h.ref.round)
			return h.state("ok", h.monitors(nil, nil, false, ""))
		}
		if h.pool == nil {
			return "no-pool"
		}
		switch f[0] {
		case "rem":
			var g []transactions.SignedTxn
			if len(f) == 2 && strings.HasPrefix(f[1], "@") {
				k, err := strconv.Atoi(f[1][1:])
				if err != nil || k < 0 {
					return "bad-op"
				}
				if len(h.created) == 0 {
					g = nil
				} else {
					g = h.created[k%len(h.created)]
				}
			} else {
				var ok bool
				g, ok = h.mkGroup(f[1:], h.evalRound())
				if !ok {
					return "bad-op"
				}
				if len(g) > 0 {
					h.created = append(h.created, g)
				}
			}
			before := h.pool.PendingTxGroups()
			h.ref.beginOp()
			h.ref.remember(g)
			ann = fmt.Sprintf("g=%s o=%s", h.annGroup(g), verifC44Join(h.ref.oracle))
			class := verifC44Class(h.pool.Remember(g))
			return h.state(class, h.monitors(before, g, true, class))
		case "asm":
			ub, err := h.pool.AssembleBlock(h.evalRound(), time.Now().Add(2*time.Second))
			if err != nil || ub == nil {
				return h.state("asm-err", h.monitors(nil, nil, false, ""))
			}
			h.stash = ub
			return h.state("ok", h.monitors(nil, nil, false, ""))
		case "dev":
			ub, err := h.pool.AssembleDevModeBlock()
			h.ref.beginOp()
			h.ref.recompute(nil)
			ann = fmt.Sprintf("er=%d o=%s", h.ref.round, verifC44Join(h.ref.oracle))
			if err != nil || ub == nil {
				return h.state("asm-err", h.monitors(nil, nil, false, ""))
			}
			h.stash = ub
			return h.state("ok", h.monitors(nil, nil, false, ""))
		case "stale":
			if h.lastBlk == nil {
				ann = "br=0"
				return h.state("ok", h.monitors(nil, nil, false, ""))
			}
			h.pool.OnNewBlock(h.lastBlk.Block(), h.lastBlk.Delta())
			h.ref.beginOp()
			h.ref.onNewBlock(h.lastBlk.Block().Round(), nil)
			ann = fmt.Sprintf("br=%d", h.lastBlk.Block().Round())
			return h.state("ok", h.monitors(nil, nil, false, ""))
		case "blk":
			args := f[1:]
			noids := false
			if len(args) > 0 && args[0] == "noids" {
				noids = true
				args = args[1:]
			}
			if len(args) == 0 {
				return "bad-op"
			}
			var ub *ledgercore.UnfinishedBlock
			if args[0] == "stash" && h.stash != nil && h.stash.Round() == h.l.Latest()+1 {
				ub = h.stash
			} else {
				ev := h.freshEval()
				if args[0] == "pick" && len(args) >= 2 {
					pend := h.pool.PendingTxGroups()
					if args[1] != "-" && len(pend) > 0 {
						for _, s := range strings.Split(args[1], ",") {
							i, err := strconv.Atoi(s)
							if err != nil || i < 0 {
								return "bad-op"
							}
							_ = ev.TransactionGroup(transactions.WrapSignedTxnsWithAD(pend[i%len(pend)])...)
						}
					}
					rest := strings.Join(args[2:], " ")
					for _, part := range strings.Split(rest, ";") {
						toks := strings.Fields(part)
						if len(toks) == 0 {
							continue
						}
						g, ok := h.mkGroup(toks, ev.Round())
						if !ok {
							return "bad-op"
						}
						h.created = append(h.created, g)
						_ = ev.TransactionGroup(transactions.WrapSignedTxnsWithAD(g)...)
					}
				}
				var err error
				ub, err = ev.GenerateBlock(nil)
				if err != nil {
					return "FAIL generate"
				}
			}
			a, err := h.addBlock(ub, noids)
			if err != nil {
				return "FAIL addblock"
			}
			ann = a
			return h.state("ok", h.monitors(nil, nil, false, ""))
		}
		return "bad-op"
	})
	if ann != "" {
		op = op + " | " + ann
	}
	return op, res
}

// ---------------------------------------------------------------------------------------------------------------------
// generator: seed → op lines (no execution state needed: indices are taken modulo what exists at execution time)

type verifC44Gen struct {
	rng   *vh.Rng
	ops   []string
	note  int
	nacc  int
	life  int
	made  int
	stash bool
	small bool
}

func (g *verifC44Gen) tx() string {
	r := g.rng
	g.note++
	snd := r.Intn(g.nacc)
	rcv := r.Intn(g.nacc + 2) // sometimes an unfunded account
	if r.Chance(85) {
		rcv = r.Intn(g.nacc)
	}
	amt := r.Intn(3)
	if r.Chance(30) {
		amt = 3 + r.Intn(7)
	}
	fee := 1000
	switch r.Intn(12) {
	case 0:
		fee = 999
	case 1:
		fee = 0
	case 2, 3:
		fee = 1000 + r.Intn(3000)
	case 4:
		fee = 5000 + r.Intn(60000)
	}
	dfv := -r.Intn(3)
	if r.Chance(6) {
		dfv = 1 + r.Intn(2)
	}
	dlv := r.Intn(g.life + 1 + dfv) // lv - fv ≤ MaxTxnLife
	if dfv > 0 {
		dlv = dfv + r.Intn(g.life+1)
	}
	switch r.Intn(8) {
	case 0:
		dlv = 0
	case 1:
		dlv = 1
	case 2:
		dlv = dfv + g.life
	case 3:
		if r.Chance(30) {
			dlv = -1
		} else if r.Chance(30) {
			dlv = dfv + g.life + 1
		}
	}
	lease := 0
	if r.Chance(20) {
		lease = 1 + r.Intn(2)
	}
	kind := "p"
	if r.Chance(5) {
		kind = "c"
	}
	return fmt.Sprintf("%s/%d/%d/%d/%d/%d/%d/%d/%d", kind, snd, rcv, amt, fee, dfv, dlv, g.note, lease)
}

func (g *verifC44Gen) sp() string {
	r := g.rng
	g.note++
	snd, fee := 0, 0
	if r.Chance(15) {
		snd = 1 + r.Intn(g.nacc)
	}
	if r.Chance(15) {
		fee = 1000
	}
	return fmt.Sprintf("s/%d/%d/%d/%d/%d", snd, fee, -r.Intn(2), r.Intn(g.life+1), g.note)
}

func (g *verifC44Gen) group() string {
	r := g.rng
	n := 1
	if r.Chance(22) {
		n = 2 + r.Intn(3)
	}
	if r.Chance(1) {
		n = 17
	}
	toks := make([]string, 0, n+1)
	if n > 1 && r.Chance(6) {
		toks = append(toks, "nogrp")
	}
	for i := 0; i < n; i++ {
		if n > 1 && r.Chance(3) {
			toks = append(toks, g.sp())
		} else {
			toks = append(toks, g.tx())
		}
	}
	g.made++
	return strings.Join(toks, " ")
}

func (g *verifC44Gen) block() {
	r := g.rng
	noids := ""
	if r.Chance(20) {
		noids = "noids "
	}
	c := r.Intn(100)
	switch {
	case c < 30 && g.stash:
		g.ops = append(g.ops, "blk "+noids+"stash")
	case c < 45:
		if r.Bool() {
			g.ops = append(g.ops, "dev")
		} else {
			g.ops = append(g.ops, "asm")
		}
		g.ops = append(g.ops, "blk "+noids+"stash")
	case c < 55:
		g.ops = append(g.ops, "blk "+noids+"pick -")
	default:
		var idx []string
		for i, n := 0, r.Intn(5); i < n; i++ {
			idx = append(idx, strconv.Itoa(r.Intn(16)))
		}
		s := "blk " + noids + "pick " + verifC44Join(idx)
		for i, n := 0, r.Intn(3); i < n; i++ {
			s += " ; " + g.group()
		}
		g.ops = append(g.ops, s)
	}
	g.stash = false
}

func (g *verifC44Gen) oneCase(steps int) {
	r := g.rng
	g.nacc = 2 + r.Intn(5)
	g.life = []int{3, 5, 8, 20}[r.Intn(4)]
	max := 2 + r.Intn(15)
	blk := 0
	g.small = r.Chance(70)
	if g.small {
		blk = []int{250, 300, 520, 600, 850, 1100, 1700, 2500}[r.Intn(8)]
	}
	fac := []int{0, 1, 2, 2, 3, 4}[r.Intn(6)]
	g.made, g.stash = 0, false
	g.ops = append(g.ops, fmt.Sprintf("reset max=%d blk=%d life=%d fac=%d nacc=%d", max, blk, g.life, fac, g.nacc))
	blockPct := 8 + r.Intn(25)
	for i := 0; i < steps; i++ {
		c := r.Intn(100)
		switch {
		case c < blockPct:
			g.block()
		case c < blockPct+3:
			g.ops = append(g.ops, "stale")
		case c < blockPct+6:
			g.ops = append(g.ops, "dev")
			g.stash = true
		case c < blockPct+8:
			g.ops = append(g.ops, "asm")
			g.stash = true
		case c < blockPct+17 && g.made > 0:
			k := r.Intn(g.made)
			if r.Chance(50) {
				k = g.made - 1 - r.Intn(1+g.made/4)
			}
			g.ops = append(g.ops, fmt.Sprintf("rem @%d", k))
		case c < blockPct+24:
			g.ops = append(g.ops, "rem "+g.sp())
		case c < blockPct+25:
			g.ops = append(g.ops, "rem")
		default:
			g.ops = append(g.ops, "rem "+g.group())
		}
	}
}

func verifC44Generate(seed uint64) []string {
	g := &verifC44Gen{rng: vh.NewRng(seed)}
	cases := vh.Budget(120, 3000)
	for i := 0; i < cases; i++ {
		g.oneCase(25 + g.rng.Intn(50))
	}
	return g.ops
}

func TestVerifC44(t *testing.T) {
	t.Chdir(t.TempDir())
	out := vh.Open("c44")
	defer out.Close()
	ops, replay := vh.ReplayOps()
	if !replay {
		// VERIF_C44_PREFIX: op lines (the corpus) executed before the generated ones, in the same process
		if pf := os.Getenv("VERIF_C44_PREFIX"); pf != "" {
			b, err := os.ReadFile(pf)
			if err != nil {
				t.Fatal(err)
			}
			for _, l := range strings.Split(string(b), "\n") {
				if strings.TrimSpace(l) != "" {
					ops = append(ops, l)
				}
			}
		}
		ops = append(ops, verifC44Generate(vh.Seed())...)
	}
	h := &verifC44H{t: t}
	defer h.close()
	for _, line := range ops {
		op, res := h.exec(line)
		out.Emit(op, res)
	}
}
