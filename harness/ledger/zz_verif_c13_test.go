//go:build verif

package ledger

// C13 harness: histories of going online / offline, key expiry (VoteLastValid), suspension, balance changes, closes,
// heartbeats and protocol upgrades over many rounds (several MaxBalLookback windows; the tiny lookback comes from consensus
// versions injected into config.Consensus the way the package's own tests do), pushed through the REAL trackers
// (trackerRegistry.newBlock -> accountUpdates / onlineAccounts (+ votersTracker) / txTail) of a mockLedgerForTracker,
// interleaved with synchronous tracker commits (the real trackerRegistry.commitRound: prepareCommit / one DB transaction /
// postCommit), reloads (trackers closed, re-created, loadFromDisk + replay + the flush at the end of replay), LRU evictions
// and tiny onlineAccountsCache sizes. After every step REAL queries are executed and canonicalised:
// lookupOnlineAccountData (what Ledger.LookupAgreement calls), onlineCirculation (Ledger.OnlineCirculation),
// TopOnlineAccounts, votersTracker.VotersForStateProof (Ledger.VotersForStateProof), plus a white-box dump of the
// onlineaccounts / onlineroundparamstail tables and the onlineAccountsCache.
//
// Every history is executed under several schedules (variants): the block and query lines are identical across the
// variants of one history, only the commit / reload / evict lines and the cache configuration differ.
//
// Op grammar (one op per line; `reset` starts a new case, the executor keeps state between lines):
//   reset hist=<h> var=<v> n=<accounts> mbl=<MaxBalLookback> lb=<MaxAcctLookback> cache=<onlineAccountsCache size> lru=<0|1>
//         protos=<unit>/<excl>/<spInt>/<spLb>/<spTop>/<spRec>;...   sup=<online supply of round 0> gen=<id>:<acct>,...
//         <acct> = <status>/<microalgos>/<rewardsbase>/<votefirst>/<votelast>/<key>/<incentive>/<lastproposed>/<lastheartbeat>
//   block p=<proto idx> lvl=<RewardsLevel> sup=<Totals.Online.Money> spn=<StateProofNextRound> [| <id>:<acct>]*
//   commit r=<R>   reload   evict n=<k>   dump
//   q r=<rnd> a=<id>     qa r=<rnd>     circ r=<rnd> v=<voteRnd>     top r=<rnd> v=<voteRnd> n=<n> p=<proto idx> lvl=<level>
//   voters r=<rnd>
//   lockcirc r=<rnd> v=<voteRnd>    OnlineCirculation asked while another connection holds an open (later rolled back) write
//                                   transaction on the tracker DB: the answer must be the right one or an error
import (
	"context"
	"errors"
	"fmt"
	"sort"
	"strconv"
	"strings"
	"testing"
	"time"

	"github.com/algorand/go-algorand/agreement"
	"github.com/algorand/go-algorand/config"
	"github.com/algorand/go-algorand/crypto"
	"github.com/algorand/go-algorand/data/basics"
	"github.com/algorand/go-algorand/data/bookkeeping"
	"github.com/algorand/go-algorand/ledger/ledgercore"
	"github.com/algorand/go-algorand/ledger/store/trackerdb"
	"github.com/algorand/go-algorand/logging"
	"github.com/algorand/go-algorand/protocol"
	"github.com/algorand/go-algorand/zz_verif_tools/vh"
)

type verifC13Acct struct {
	st, bal, rb, vf, vl, key uint64
	ie                       bool
	lp, lh                   uint64
}

func (a verifC13Acct) String() string {
	ie := 0
	if a.ie {
		ie = 1
	}
	return fmt.Sprintf("%d/%d/%d/%d/%d/%d/%d/%d/%d", a.st, a.bal, a.rb, a.vf, a.vl, a.key, ie, a.lp, a.lh)
}

func verifC13ParseAcct(s string) verifC13Acct {
	p := strings.Split(s, "/")
	if len(p) != 9 {
		panic("bad acct " + s)
	}
	return verifC13Acct{st: vh.U(p[0]), bal: vh.U(p[1]), rb: vh.U(p[2]), vf: vh.U(p[3]), vl: vh.U(p[4]), key: vh.U(p[5]),
		ie: p[6] == "1", lp: vh.U(p[7]), lh: vh.U(p[8])}
}

type verifC13Proto struct {
	unit                       uint64
	excl                       bool
	spInt, spLb, spTop, spRec uint64
}

func (p verifC13Proto) String() string {
	e := 0
	if p.excl {
		e = 1
	}
	return fmt.Sprintf("%d/%d/%d/%d/%d/%d", p.unit, e, p.spInt, p.spLb, p.spTop, p.spRec)
}

func verifC13Addr(id uint64) (a basics.Address) {
	a[0] = byte(id)
	a[1] = 0xc1
	a[31] = 0x3d
	return
}

func verifC13AddrID(a basics.Address) string {
	if a[1] == 0xc1 && a[31] == 0x3d {
		return strconv.Itoa(int(a[0]))
	}
	return "?" + a.String()[:6]
}

// opaque key id <-> voting keys: VoteID / SelectionID / StateProofID / VoteKeyDilution all derive from one small number
func verifC13SetKeys(v *basics.VotingData, key uint64) {
	if key == 0 {
		return
	}
	v.VoteID[0], v.VoteID[1] = byte(key), 1
	v.SelectionID[0], v.SelectionID[1] = byte(key), 2
	v.StateProofID[0], v.StateProofID[1] = byte(key), 3
	v.VoteKeyDilution = key
}

func verifC13KeyOf(v basics.VotingData) string {
	var w basics.VotingData
	verifC13SetKeys(&w, v.VoteKeyDilution)
	if w.VoteID == v.VoteID && w.SelectionID == v.SelectionID && w.StateProofID == v.StateProofID && v.VoteKeyDilution < 256 {
		return strconv.FormatUint(v.VoteKeyDilution, 10)
	}
	return fmt.Sprintf("?%x.%x.%x.%d", v.VoteID[:2], v.SelectionID[:2], v.StateProofID[:2], v.VoteKeyDilution)
}

func (a verifC13Acct) toLedgercore() (ad ledgercore.AccountData) {
	ad.Status = basics.Status(a.st)
	ad.MicroAlgos.Raw = a.bal
	ad.RewardsBase = a.rb
	ad.VoteFirstValid = basics.Round(a.vf)
	ad.VoteLastValid = basics.Round(a.vl)
	verifC13SetKeys(&ad.VotingData, a.key)
	ad.IncentiveEligible = a.ie
	ad.LastProposed = basics.Round(a.lp)
	ad.LastHeartbeat = basics.Round(a.lh)
	return
}

func (a verifC13Acct) toBasics() (ad basics.AccountData) {
	ledgercore.AssignAccountData(&ad, a.toLedgercore())
	return
}

func verifC13B(b bool) string {
	if b {
		return "1"
	}
	return "0"
}

func verifC13OAD(d basics.OnlineAccountData) string {
	return fmt.Sprintf("%d/%d/%d/%s/%s/%d/%d", d.MicroAlgosWithRewards.Raw, d.VoteFirstValid, d.VoteLastValid, verifC13KeyOf(d.VotingData),
		verifC13B(d.IncentiveEligible), d.LastProposed, d.LastHeartbeat)
}

func verifC13Base(d trackerdb.BaseOnlineAccountData) string {
	v := basics.VotingData{VoteID: d.VoteID, SelectionID: d.SelectionID, StateProofID: d.StateProofID,
		VoteFirstValid: d.VoteFirstValid, VoteLastValid: d.VoteLastValid, VoteKeyDilution: d.VoteKeyDilution}
	return fmt.Sprintf("%d/%d/%d/%d/%s/%s/%d/%d", d.MicroAlgos.Raw, d.RewardsBase, d.VoteFirstValid, d.VoteLastValid, verifC13KeyOf(v),
		verifC13B(d.IncentiveEligible), d.LastProposed, d.LastHeartbeat)
}

func verifC13KV(tok string) map[string]string {
	m := map[string]string{}
	for _, f := range strings.Fields(tok) {
		if i := strings.IndexByte(f, '='); i > 0 {
			m[f[:i]] = f[i+1:]
		}
	}
	return m
}

func verifC13Err(err error) string {
	var roe *RoundOffsetError
	var stale *StaleDatabaseRoundError
	switch {
	case errors.As(err, &roe):
		return "err before-db"
	case errors.As(err, &stale):
		return "err stale-db"
	case errors.Is(err, trackerdb.ErrNotFound):
		return "err notfound"
	case strings.Contains(err.Error(), "too high"):
		return "err too-high"
	case strings.Contains(err.Error(), "is locked"):
		return "err locked"
	case strings.Contains(err.Error(), "overflow"):
		return "err overflow"
	}
	return "err other " + err.Error()
}

type verifC13Harness struct {
	t        *testing.T
	ml       *mockLedgerForTracker
	l        *Ledger          // variant L: a full Ledger (all trackers, block queue, its own commit syncer) instead of the mock
	trk      *trackerRegistry // the tracker registry of the mock ledger or of the Ledger
	au       *accountUpdates
	ao       *onlineAccounts
	conf     config.Local
	n        uint64
	cacheMax int
	lru      bool
	versions []protocol.ConsensusVersion
	protos   []config.ConsensusParams
	caseNo   int
}

func (h *verifC13Harness) closeCase() {
	if h.ml != nil {
		h.ml.Close()
		h.ml = nil
	}
	if h.l != nil {
		h.l.Close()
		h.l = nil
	}
	h.au, h.ao, h.trk = nil, nil, nil
	for _, v := range h.versions {
		delete(config.Consensus, v)
	}
	h.versions, h.protos = nil, nil
}

// shrinkCache replays the onlineAccountsCache part of initializeFromDisk with the constant onlineAccountsCacheMaxSize
// replaced by the case's tiny size.
func (h *verifC13Harness) shrinkCache() error {
	ao := h.ao
	ao.accountsMu.Lock()
	defer ao.accountsMu.Unlock()
	return ao.dbs.Snapshot(func(ctx context.Context, tx trackerdb.SnapshotScope) error {
		ar, err := tx.MakeAccountsReader()
		if err != nil {
			return err
		}
		accts, err := ar.OnlineAccountsAll(uint64(h.cacheMax))
		if err != nil {
			return err
		}
		ao.onlineAccountsCache.init(accts, h.cacheMax)
		return nil
	})
}

func (h *verifC13Harness) votersRounds() []basics.Round {
	vt := &h.ao.voters
	vt.votersMu.RLock()
	var rs []basics.Round
	for r := range vt.votersForRoundCache {
		rs = append(rs, r)
	}
	vt.votersMu.RUnlock()
	sort.Slice(rs, func(i, j int) bool { return rs[i] < rs[j] })
	return rs
}

// waitVoters waits for every background loadTree (TopOnlineAccounts in a goroutine) to finish
func (h *verifC13Harness) waitVoters() string {
	var out []string
	for _, r := range h.votersRounds() {
		tr, ok := h.ao.voters.getVoters(r)
		if !ok {
			continue
		}
		if err := tr.Wait(); err != nil {
			out = append(out, fmt.Sprintf("%d!", r))
		} else {
			out = append(out, strconv.FormatUint(uint64(r), 10))
		}
	}
	if len(out) == 0 {
		return "-"
	}
	return strings.Join(out, ",")
}

// start = the package's newAcctUpdates helper with errors returned instead of failing the test
func (h *verifC13Harness) start() error {
	au := &accountUpdates{}
	au.initialize(h.conf)
	ao := &onlineAccounts{}
	ao.initialize(h.conf)
	if _, err := trackerDBInitialize(h.ml, false, "."); err != nil {
		return err
	}
	if err := h.ml.trackers.initialize(h.ml, []ledgerTracker{au, ao, &txTail{}}, h.conf); err != nil {
		return err
	}
	h.au, h.ao, h.trk = au, ao, &h.ml.trackers
	if err := h.ml.trackers.loadFromDisk(h.ml); err != nil {
		return err
	}
	return h.finishStart()
}

func (h *verifC13Harness) finishStart() error {
	ao := h.ao
	h.waitVoters()
	if h.lru {
		ao.accountsMu.Lock()
		ao.baseOnlineAccounts = lruOnlineAccounts{}
		ao.baseOnlineAccounts.init(ao.log, 16, 1<<30)
		ao.accountsMu.Unlock()
	}
	return h.shrinkCache()
}

// startLedger opens a full in-memory Ledger over the genesis accounts (variant L)
func (h *verifC13Harness) startLedger(genesis map[basics.Address]basics.AccountData, log logging.Logger) error {
	var sink, pool basics.Address
	sink[0], sink[1], pool[0], pool[1] = 0xf1, 0xee, 0xf2, 0xee
	var hash crypto.Digest
	hash[0], hash[1] = 0xc1, 0x3d
	blk, err := bookkeeping.MakeGenesisBlock(h.versions[0], bookkeeping.MakeGenesisBalances(genesis, sink, pool), "verif-c13", hash)
	if err != nil {
		return err
	}
	cfg := h.conf
	l, err := OpenLedger(log, fmt.Sprintf("verifc13-%d", h.caseNo), true, ledgercore.InitState{Block: blk, Accounts: genesis, GenesisHash: hash}, cfg)
	if err != nil {
		return err
	}
	h.l = l
	h.au, h.ao, h.trk = &l.accts, &l.acctsOnline, &l.trackers
	return h.finishStart()
}

func (h *verifC13Harness) reset(op string) string {
	h.closeCase()
	h.caseNo++
	kv := verifC13KV(op)
	h.conf = config.GetDefaultLocal()
	h.conf.MaxAcctLookback = vh.U(kv["lb"])
	// the ledger is always opened with DisableLedgerLRUCache (the enabled caches allocate production-size pending-write
	// buffers on every start, ~0.5 s); lru=1 installs an enabled baseOnlineAccounts LRU with a small buffer right after
	h.conf.DisableLedgerLRUCache = true
	h.lru = kv["lru"] == "1"
	h.n = vh.U(kv["n"])
	h.cacheMax = int(vh.U(kv["cache"]))
	mbl := vh.U(kv["mbl"])
	for i, ps := range strings.Split(kv["protos"], ";") {
		p := strings.Split(ps, "/")
		params := config.Consensus[protocol.ConsensusCurrentVersion]
		params.MaxBalLookback = mbl
		params.RewardUnit = vh.U(p[0])
		params.ExcludeExpiredCirculation = p[1] == "1"
		params.StateProofInterval = vh.U(p[2])
		params.StateProofVotersLookback = vh.U(p[3])
		params.StateProofTopVoters = vh.U(p[4])
		params.StateProofMaxRecoveryIntervals = vh.U(p[5])
		ver := protocol.ConsensusVersion(fmt.Sprintf("verif-c13-%d-%d", h.caseNo, i))
		config.Consensus[ver] = params
		h.versions = append(h.versions, ver)
		h.protos = append(h.protos, params)
	}
	genesis := map[basics.Address]basics.AccountData{}
	if kv["gen"] != "" && kv["gen"] != "-" {
		for _, e := range strings.Split(kv["gen"], ",") {
			p := strings.SplitN(e, ":", 2)
			genesis[verifC13Addr(vh.U(p[0]))] = verifC13ParseAcct(p[1]).toBasics()
		}
	}
	log := logging.TestingLog(h.t)
	log.SetLevel(logging.Error)
	var err error
	if kv["var"] == "L" {
		err = h.startLedger(genesis, log)
	} else {
		h.ml = makeMockLedgerForTrackerWithLogger(h.t, true, 1, h.versions[0], []map[basics.Address]basics.AccountData{genesis}, log)
		err = h.start()
	}
	if err != nil {
		h.closeCase()
		return "err start " + err.Error()
	}
	p0 := h.ao.onlineRoundParamsData[len(h.ao.onlineRoundParamsData)-1]
	return fmt.Sprintf("ok sup=%d lvl=%d", p0.OnlineSupply, p0.RewardsLevel)
}

func (h *verifC13Harness) block(op string) string {
	items := strings.Split(op, " | ")
	kv := verifC13KV(items[0])
	rnd := h.ao.latest() + 1
	blk := bookkeeping.Block{BlockHeader: bookkeeping.BlockHeader{Round: rnd}}
	blk.CurrentProtocol = h.versions[vh.U(kv["p"])]
	blk.RewardsLevel = vh.U(kv["lvl"])
	if spn := vh.U(kv["spn"]); spn > 0 {
		blk.StateProofTracking = map[protocol.StateProofType]bookkeeping.StateProofTrackingData{
			protocol.StateProofBasic: {StateProofNextRound: basics.Round(spn)}}
	}
	delta := ledgercore.MakeStateDelta(&blk.BlockHeader, 0, len(items), 0)
	_, prevTotals, err := h.au.LatestTotals()
	if err != nil {
		return "err totals " + err.Error()
	}
	delta.Totals = prevTotals
	delta.Totals.Online.Money.Raw = vh.U(kv["sup"])
	delta.Totals.RewardsLevel = blk.RewardsLevel
	for _, it := range items[1:] {
		p := strings.SplitN(strings.TrimSpace(it), ":", 2)
		delta.Accts.Upsert(verifC13Addr(vh.U(p[0])), verifC13ParseAcct(p[1]).toLedgercore())
	}
	if h.l != nil {
		if err := h.l.AddValidatedBlock(ledgercore.MakeValidatedBlock(blk, delta), agreement.Certificate{}); err != nil {
			return "err addblock " + err.Error()
		}
	} else {
		h.ml.addBlock(blockEntry{block: blk}, delta)
	}
	return fmt.Sprintf("ok latest=%d voters=%s", h.ao.latest(), h.waitVoters())
}

// commit mirrors the package's commitSync helper: committedUpTo (lookback) -> produceCommittingTask of every tracker ->
// the real trackerRegistry.commitRound, synchronously.
func (h *verifC13Harness) commit(op string) string {
	kv := verifC13KV(op)
	rnd := basics.Round(vh.U(kv["r"]))
	trk := h.trk
	if h.l != nil {
		// variant L: the Ledger has its own committer (blockQ syncer -> notifyCommit -> scheduleCommit -> commitSyncer); a second
		// committer next to it would not be the node's behaviour. Ask THAT path to flush now and wait for it.
		h.l.WaitForCommit(h.l.Latest())
		trk.mu.Lock()
		trk.lastFlushTime = time.Time{}
		trk.mu.Unlock()
		h.l.notifyCommit(rnd)
		trk.waitAccountsWriting()
		return fmt.Sprintf("ok db=%d voters=%s", h.ao.cachedDBRoundOnline, h.waitVoters())
	}
	maxLookback := basics.Round(0)
	for _, lt := range trk.trackers {
		_, lb := lt.committedUpTo(rnd)
		if lb > maxLookback {
			maxLookback = lb
		}
	}
	dcc := &deferredCommitContext{deferredCommitRange: deferredCommitRange{lookback: maxLookback}}
	trk.mu.RLock()
	dbRound := trk.dbRound
	cdr := trk.produceCommittingTask(rnd, dbRound, &dcc.deferredCommitRange)
	trk.mu.RUnlock()
	if cdr != nil {
		dcc.deferredCommitRange = *cdr
		trk.accountsWriting.Add(1)
		if err := trk.commitRound(dcc); err != nil {
			return "err commit " + err.Error()
		}
	}
	return fmt.Sprintf("ok db=%d voters=%s", h.ao.cachedDBRoundOnline, h.waitVoters())
}

func (h *verifC13Harness) reload() string {
	if h.l != nil {
		return "err reload-unsupported" // Ledger.reloadLedger re-evaluates the stored blocks; the synthetic blocks carry no transactions
	}
	ml := h.ml
	h.waitVoters()
	ml.trackers.close()
	ml.trackers = trackerRegistry{log: ml.log}
	if err := h.start(); err != nil {
		h.closeCase()
		return "err start " + err.Error()
	}
	return fmt.Sprintf("ok db=%d latest=%d voters=%s", h.ao.cachedDBRoundOnline, h.ao.latest(), h.waitVoters())
}

func (h *verifC13Harness) evict(op string) string {
	kv := verifC13KV(op)
	ao := h.ao
	ao.accountsMu.Lock()
	defer ao.accountsMu.Unlock()
	ao.baseOnlineAccounts.flushPendingWrites()
	ao.baseOnlineAccounts.prune(int(vh.U(kv["n"])))
	return "ok"
}

func (h *verifC13Harness) lookup(rnd basics.Round, id uint64) string {
	var d basics.OnlineAccountData
	var err error
	if h.l != nil {
		d, err = h.l.LookupAgreement(rnd, verifC13Addr(id))
	} else {
		d, err = h.ao.lookupOnlineAccountData(rnd, verifC13Addr(id))
	}
	if err != nil {
		return verifC13Err(err)
	}
	return "ok " + verifC13OAD(d)
}

func (h *verifC13Harness) dump() string {
	ao := h.ao
	var rows, prm, cache []string
	var dbr basics.Round
	err := ao.dbs.Snapshot(func(ctx context.Context, tx trackerdb.SnapshotScope) error {
		ar, err := tx.MakeAccountsReader()
		if err != nil {
			return err
		}
		all, err := ar.OnlineAccountsAll(0)
		if err != nil {
			return err
		}
		for _, r := range all {
			rows = append(rows, fmt.Sprintf("%s@%d:%s", verifC13AddrID(r.Addr), r.UpdRound, verifC13Base(r.AccountData)))
		}
		ps, end, err := ar.AccountsOnlineRoundParams()
		if err != nil {
			return err
		}
		if len(ps) > 0 {
			prm = append(prm, fmt.Sprintf("%d..%d", uint64(end)+1-uint64(len(ps)), end))
		}
		dbr, err = ar.AccountsRound()
		return err
	})
	if err != nil {
		return verifC13Err(err)
	}
	ao.accountsMu.RLock()
	for id := uint64(1); id <= h.n; id++ {
		if l := ao.onlineAccountsCache.accounts[verifC13Addr(id)]; l != nil {
			var us []string
			for e := l.Front(); e != nil; e = e.Next() {
				us = append(us, strconv.FormatUint(uint64(e.Value.(*cachedOnlineAccount).updRound), 10))
			}
			cache = append(cache, fmt.Sprintf("%d:%s", id, strings.Join(us, "|")))
		}
	}
	mem := fmt.Sprintf("%d..%d", uint64(ao.latest())+1-uint64(len(ao.onlineRoundParamsData)), ao.latest())
	ao.accountsMu.RUnlock()
	j := func(xs []string) string {
		if len(xs) == 0 {
			return "-"
		}
		return strings.Join(xs, ",")
	}
	return fmt.Sprintf("ok db=%d rows=%s params=%s mem=%s cache=%s", dbr, j(rows), j(prm), mem, j(cache))
}

func (h *verifC13Harness) exec(op string) string {
	f := strings.Fields(op)
	if len(f) == 0 {
		return "bad-op"
	}
	if f[0] == "reset" {
		return h.reset(op)
	}
	if (h.ml == nil && h.l == nil) || h.ao == nil {
		return "err no-case"
	}
	kv := verifC13KV(op)
	switch f[0] {
	case "block":
		return h.block(op)
	case "commit":
		return h.commit(op)
	case "reload":
		return h.reload()
	case "evict":
		return h.evict(op)
	case "dump":
		return h.dump()
	case "q":
		return h.lookup(basics.Round(vh.U(kv["r"])), vh.U(kv["a"]))
	case "qa":
		var out []string
		for id := uint64(1); id <= h.n; id++ {
			r := h.lookup(basics.Round(vh.U(kv["r"])), id)
			if strings.HasPrefix(r, "ok ") {
				r = r[3:]
			} else {
				r = strings.ReplaceAll(r, " ", ":")
			}
			out = append(out, fmt.Sprintf("%d=%s", id, r))
		}
		return "ok " + strings.Join(out, " ")
	case "circ":
		var c basics.MicroAlgos
		var err error
		if h.l != nil {
			c, err = h.l.OnlineCirculation(basics.Round(vh.U(kv["r"])), basics.Round(vh.U(kv["v"])))
		} else {
			c, err = h.ao.onlineCirculation(basics.Round(vh.U(kv["r"])), basics.Round(vh.U(kv["v"])))
		}
		if err != nil {
			return verifC13Err(err)
		}
		return fmt.Sprintf("ok %d", c.Raw)
	case "lockcirc":
		inTx, release, done := make(chan error, 1), make(chan struct{}), make(chan struct{})
		go func() {
			defer close(done)
			_ = h.ao.dbs.Transaction(func(ctx context.Context, tx trackerdb.TransactionScope) error {
				w, err := tx.MakeOnlineAccountsOptimizedWriter(true)
				if err != nil {
					inTx <- err
					return err
				}
				defer w.Close()
				_, err = w.InsertOnlineAccount(verifC13Addr(250), 0, trackerdb.BaseOnlineAccountData{}, 0, 0)
				inTx <- err
				<-release
				return errors.New("verif: roll back")
			})
		}()
		if err := <-inTx; err != nil {
			close(release)
			<-done
			return "err lock-setup " + err.Error()
		}
		var c basics.MicroAlgos
		var err error
		if h.l != nil {
			c, err = h.l.OnlineCirculation(basics.Round(vh.U(kv["r"])), basics.Round(vh.U(kv["v"])))
		} else {
			c, err = h.ao.onlineCirculation(basics.Round(vh.U(kv["r"])), basics.Round(vh.U(kv["v"])))
		}
		close(release)
		<-done
		if err != nil {
			return verifC13Err(err)
		}
		return fmt.Sprintf("ok %d", c.Raw)
	case "top":
		params := h.protos[vh.U(kv["p"])]
		params.ExcludeExpiredCirculation = true // legacy total (invalidOnlineAccounts bookkeeping) not exercised
		top, tot, err := h.ao.TopOnlineAccounts(basics.Round(vh.U(kv["r"])), basics.Round(vh.U(kv["v"])), vh.U(kv["n"]), &params, vh.U(kv["lvl"]))
		if err != nil {
			return verifC13Err(err)
		}
		var out []string
		for _, oa := range top {
			out = append(out, fmt.Sprintf("%s:%d:%d:%d:%d:%d:%d", verifC13AddrID(oa.Address), oa.NormalizedOnlineBalance, oa.MicroAlgos.Raw,
				oa.RewardsBase, oa.VoteFirstValid, oa.VoteLastValid, oa.StateProofID[0]))
		}
		ts := "-" // the legacy (pre ExcludeExpiredCirculation) total is not part of the check
		if params.ExcludeExpiredCirculation {
			ts = strconv.FormatUint(tot.Raw, 10)
		}
		if len(out) == 0 {
			out = []string{"-"}
		}
		return fmt.Sprintf("ok tot=%s %s", ts, strings.Join(out, ","))
	case "voters":
		var tr *ledgercore.VotersForRound
		var err error
		if h.l != nil {
			tr, err = h.l.VotersForStateProof(basics.Round(vh.U(kv["r"])))
		} else {
			tr, err = h.ao.voters.VotersForStateProof(basics.Round(vh.U(kv["r"])))
		}
		if err != nil {
			return verifC13Err(err)
		}
		if tr == nil {
			return "none"
		}
		ids := make([]string, len(tr.Participants))
		for a, pos := range tr.AddrToPos {
			if int(pos) < len(ids) {
				ids[pos] = verifC13AddrID(a)
			}
		}
		var out []string
		for i, p := range tr.Participants {
			out = append(out, fmt.Sprintf("%s:%d:%d", ids[i], p.Weight, p.PK.Commitment[0]))
		}
		tw := "-"
		if tr.Proto.ExcludeExpiredCirculation {
			tw = strconv.FormatUint(tr.TotalWeight.Raw, 10)
		}
		if len(out) == 0 {
			out = []string{"-"}
		}
		return fmt.Sprintf("ok tw=%s %s", tw, strings.Join(out, ","))
	}
	return "bad-op"
}

// ---------------------------------------------------------------------------------------------------- generator

type verifC13Hist struct {
	n, mbl  uint64
	protos  []verifC13Proto
	gen     map[uint64]verifC13Acct
	sup0    uint64
	blocks  []string   // block lines, index i = round i+1
	queries [][]string // queries issued when latest = i (index 0 = after reset)
	final   []string
}

func verifC13WithRewards(a verifC13Acct, unit, lvl uint64) uint64 {
	if a.st == 2 {
		return a.bal
	}
	return a.bal + (a.bal/unit)*(lvl-a.rb)
}

func verifC13GenHistory(rng *vh.Rng, long bool) *verifC13Hist {
	h := &verifC13Hist{}
	h.n = uint64(3 + rng.Intn(4))
	h.mbl = []uint64{2, 3, 4, 5, 8}[rng.Intn(5)]
	np := []int{1, 1, 1, 2, 2, 3}[rng.Intn(6)]
	// state proof parameters are fixed for the chain; an upgrade may enable state proofs, never change their geometry
	spInt := []uint64{4, 6, 8}[rng.Intn(3)]
	spLb := uint64(1 + rng.Intn(3))
	spOn := rng.Chance(70)
	for i := 0; i < np; i++ {
		p := verifC13Proto{unit: []uint64{1, 2, 5, 10}[rng.Intn(4)], excl: rng.Chance(80), spLb: 1, spTop: 1, spRec: 1}
		if !spOn && i > 0 && rng.Chance(60) {
			spOn = true
		}
		if spOn {
			p.excl = true // the legacy total of TopOnlineAccounts (pre ExcludeExpiredCirculation) is not part of this check
			p.spInt, p.spLb = spInt, spLb
			p.spTop = []uint64{1, 2, 3, 50}[rng.Intn(4)]
			p.spRec = uint64(1 + rng.Intn(3))
		}
		h.protos = append(h.protos, p)
	}
	rounds := int(h.mbl) + 2 + rng.Intn(3*int(h.mbl)+8)
	if long {
		rounds += 20 + rng.Intn(40)
	}
	up := make([]int, np) // first round of proto i
	for i := 1; i < np; i++ {
		up[i] = up[i-1] + 1 + rng.Intn(rounds/np+1)
	}
	protoAt := func(r int) int {
		k := 0
		for i := 1; i < np; i++ {
			if r >= up[i] {
				k = i
			}
		}
		return k
	}
	keyCtr := uint64(h.n)
	cur := map[uint64]verifC13Acct{}
	h.gen = map[uint64]verifC13Acct{}
	vls := []uint64{}
	pickVl := func(r uint64) uint64 {
		switch rng.Intn(4) {
		case 0:
			return 1000 + uint64(rng.Intn(50))
		case 1:
			return r + h.mbl + uint64(rng.Intn(3))
		}
		return r + 1 + uint64(rng.Intn(int(2*h.mbl)+2))
	}
	fixOnline := func(a *verifC13Acct, unit uint64) {
		// an online account holds at least the minimum balance: its normalised balance is positive
		if a.bal*unit < a.rb+unit {
			a.bal = (a.rb+unit)/unit + 1 + uint64(rng.Intn(50))
		}
	}
	for id := uint64(1); id <= h.n; id++ {
		switch {
		case rng.Chance(60):
			a := verifC13Acct{st: 1, bal: 200 + uint64(rng.Intn(3000)), vf: 0, vl: pickVl(0), key: id}
			if rng.Chance(15) {
				a.bal = 1 + uint64(rng.Intn(4)) // still >= (0+unit)/unit only for unit<=bal; fixed below
			}
			fixOnline(&a, h.protos[0].unit)
			h.gen[id], cur[id] = a, a
			vls = append(vls, a.vl)
		case rng.Chance(60):
			a := verifC13Acct{st: 0, bal: 1 + uint64(rng.Intn(3000))}
			h.gen[id], cur[id] = a, a
		}
	}
	supply := func(unit, lvl uint64) (s uint64) {
		for _, a := range cur {
			if a.st == 1 {
				s += verifC13WithRewards(a, unit, lvl)
			}
		}
		return
	}
	h.sup0 = supply(h.protos[0].unit, 0)
	lvl := uint64(0)
	spn := uint64(0)
	lvlAt := []uint64{0}
	pAt := []int{0}
	win := func(b int) (lo, hi uint64) {
		hi = uint64(b)
		if uint64(b)+1 > h.mbl {
			lo = uint64(b) + 1 - h.mbl
		}
		return
	}
	pickV := func(r uint64) uint64 {
		switch rng.Intn(5) {
		case 0, 1:
			return r + h.mbl
		case 2:
			if len(vls) > 0 {
				return vls[rng.Intn(len(vls))] + uint64(rng.Intn(3))
			}
		case 3:
			return r + uint64(rng.Intn(int(2*h.mbl)+2))
		}
		return r + h.mbl + 1
	}
	mkQueries := func(b int, full bool) (qs []string) {
		lo, hi := win(b)
		var rs []uint64
		if full {
			for r := lo; r <= hi; r++ {
				rs = append(rs, r)
			}
		} else {
			rs = append(rs, lo+uint64(rng.Intn(int(hi-lo)+1)))
			if rng.Chance(50) {
				rs = append(rs, lo)
			}
			if rng.Chance(30) {
				rs = append(rs, hi)
			}
			if rng.Chance(12) && lo > 0 {
				rs = append(rs, lo-1-uint64(rng.Intn(int(lo))))
			}
			if rng.Chance(5) {
				rs = append(rs, hi+1)
			}
		}
		for _, r := range rs {
			ri := int(r)
			if ri >= len(lvlAt) {
				ri = len(lvlAt) - 1
			}
			qs = append(qs, fmt.Sprintf("qa r=%d", r))
			nv := 1
			if full {
				nv = 3
			}
			for k := 0; k < nv; k++ {
				v := pickV(r)
				if k == 0 {
					v = r + h.mbl
				}
				qs = append(qs, fmt.Sprintf("circ r=%d v=%d", r, v))
				if k == 0 || rng.Chance(50) {
					qs = append(qs, fmt.Sprintf("top r=%d v=%d n=%d p=%d lvl=%d", r, v, 1+rng.Intn(int(h.n)+1), pAt[ri], lvlAt[ri]))
				}
			}
		}
		// voters of the recent snapshot rounds
		if full || rng.Chance(40) {
			for r := b; r >= 0 && r > b-24; r-- {
				p := h.protos[pAt[r]]
				if p.spInt > 0 && (uint64(r)+p.spLb)%p.spInt == 0 && r > 0 {
					qs = append(qs, fmt.Sprintf("voters r=%d", r))
				}
			}
		}
		return
	}
	h.queries = append(h.queries, mkQueries(0, false))
	for r := 1; r <= rounds; r++ {
		pi := protoAt(r)
		p := h.protos[pi]
		lvl += []uint64{0, 0, 1, 1, 2, 5}[rng.Intn(6)]
		// state proof tracking as the evaluator maintains it: first set when the protocol enables state proofs, advanced when a proof lands
		if p.spInt > 0 {
			if spn == 0 {
				first := (uint64(r) + p.spLb + p.spInt - 1) / p.spInt * p.spInt
				spn = first + p.spInt
			} else if uint64(r) > spn+p.spInt/2 && rng.Chance(55) {
				spn += p.spInt
			}
		}
		k := []int{0, 1, 1, 1, 2, 2, 3}[rng.Intn(7)]
		touched := map[uint64]bool{}
		var items []string
		for j := 0; j < k; j++ {
			id := uint64(1 + rng.Intn(int(h.n)))
			if touched[id] {
				continue
			}
			touched[id] = true
			a, exists := cur[id]
			// touching an account applies its pending rewards
			if exists && a.st != 2 {
				a.bal = verifC13WithRewards(a, p.unit, lvl)
			}
			a.rb = lvl
			bump := func() {
				if rng.Bool() {
					a.bal += uint64(rng.Intn(500))
				} else {
					a.bal -= uint64(rng.Intn(int(a.bal/2) + 1))
				}
			}
			goOnline := func() {
				keyCtr++
				a.st, a.key = 1, keyCtr%250+1
				a.vf = uint64(r)
				if rng.Chance(25) && r > 1 {
					a.vf = uint64(r) - uint64(rng.Intn(r))
				} else if rng.Chance(10) {
					a.vf = uint64(r) + 1 + uint64(rng.Intn(int(h.mbl)+2))
				}
				a.vl = pickVl(uint64(r))
				if a.vl < a.vf {
					a.vl = a.vf + 1
				}
				a.ie = rng.Chance(40)
				if a.bal == 0 {
					a.bal = 100 + uint64(rng.Intn(1000))
				}
				vls = append(vls, a.vl)
			}
			if a.st == 1 {
				c := rng.Intn(100)
				switch {
				case a.vl < uint64(r) && c < 50, c < 12: // key expired and the block takes it offline / plain keyreg offline
					a.st, a.vf, a.vl, a.key, a.ie = 0, 0, 0, 0, false
				case c < 22: // suspension: offline but the voting material stays
					a.st, a.ie = 0, false
				case c < 55:
					bump()
				case c < 65:
					goOnline()
				case c < 75:
					a.lh = uint64(r)
				case c < 85:
					a.lp, a.bal = uint64(r), a.bal+uint64(rng.Intn(20))
				case c < 90:
					a = verifC13Acct{} // closed
				case c < 93:
					a.st = 2
				default:
					// touched, nothing else changes (rewards base moved)
				}
			} else {
				c := rng.Intn(100)
				switch {
				case c < 55:
					if a.st == 2 {
						a.st = 0
					}
					if a.st == 0 && a.key != 0 && rng.Bool() {
						a.st = 1 // a suspended account comes back with its old keys (heartbeat)
						a.lh = uint64(r)
					} else {
						goOnline()
					}
				case c < 88:
					bump()
					if !exists && a.bal == 0 {
						a.bal = 1 + uint64(rng.Intn(100))
					}
				default:
					a = verifC13Acct{}
				}
			}
			if a.st == 1 {
				fixOnline(&a, p.unit)
				fixOnline(&a, h.protos[0].unit) // the normalised balance is computed with the GENESIS reward unit
			}
			cur[id] = a
			items = append(items, fmt.Sprintf("%d:%s", id, a))
		}
		line := fmt.Sprintf("block p=%d lvl=%d sup=%d spn=%d", pi, lvl, supply(p.unit, lvl), spn)
		if len(items) > 0 {
			line += " | " + strings.Join(items, " | ")
		}
		h.blocks = append(h.blocks, line)
		lvlAt = append(lvlAt, lvl)
		pAt = append(pAt, pi)
		h.queries = append(h.queries, mkQueries(r, false))
	}
	h.final = mkQueries(rounds, true)
	return h
}

func (h *verifC13Hist) resetLine(hid int, v string, lb uint64, cache int, lru bool) string {
	var ps, gs []string
	for _, p := range h.protos {
		ps = append(ps, p.String())
	}
	for id := uint64(1); id <= h.n; id++ {
		if a, ok := h.gen[id]; ok {
			gs = append(gs, fmt.Sprintf("%d:%s", id, a))
		}
	}
	g := "-"
	if len(gs) > 0 {
		g = strings.Join(gs, ",")
	}
	return fmt.Sprintf("reset hist=%d var=%s n=%d mbl=%d lb=%d cache=%d lru=%s protos=%s sup=%d gen=%s", hid, v, h.n, h.mbl, lb, cache,
		verifC13B(lru), strings.Join(ps, ";"), h.sup0, g)
}

// one schedule of a history
func (h *verifC13Hist) emit(rng *vh.Rng, hid, v int) (ops []string) {
	lb := uint64(1000)
	cache, lru := 2500, true
	pCommit, pReload, pEvict, pDump := 0, 0, 0, 10
	switch v {
	case 0: // nothing is ever flushed
	case 1: // everything is flushed at once, no caches
		lb, cache, lru = 0, 0, rng.Bool()
		pCommit, pReload, pEvict, pDump = 100, 12, 50, 25
	default:
		lb = []uint64{0, 0, 1, 2, 4, 8}[rng.Intn(6)]
		cache = []int{0, 1, 2, 3, 2500}[rng.Intn(5)]
		lru = rng.Chance(75)
		pCommit, pReload, pEvict, pDump = 25+rng.Intn(50), rng.Intn(20), rng.Intn(40), 25
	}
	vs := strconv.Itoa(v)
	if v < 0 { // variant L: a full Ledger; no reloads (they would re-evaluate the synthetic blocks), no table dumps
		vs = "L"
		pReload, pDump = 0, 0
	}
	ops = append(ops, h.resetLine(hid, vs, lb, cache, lru))
	ops = append(ops, h.queries[0]...)
	for i, b := range h.blocks {
		latest := i + 1
		ops = append(ops, b)
		if rng.Chance(pCommit) {
			r := latest
			if v != 1 && rng.Chance(40) {
				r = latest - rng.Intn(latest+1)
			}
			ops = append(ops, fmt.Sprintf("commit r=%d", r))
			if rng.Chance(25) { // a multi-version range is flushed one version at a time
				ops = append(ops, fmt.Sprintf("commit r=%d", r))
			}
		}
		if rng.Chance(pEvict) {
			ops = append(ops, fmt.Sprintf("evict n=%d", rng.Intn(3)))
		}
		if rng.Chance(pReload) {
			ops = append(ops, "reload")
		}
		if rng.Chance(pDump) {
			ops = append(ops, "dump")
		}
		ops = append(ops, h.queries[latest]...)
	}
	if v > 0 && rng.Chance(50) {
		ops = append(ops, "reload")
	}
	if v >= 0 {
		ops = append(ops, "dump")
	}
	ops = append(ops, h.final...)
	return
}

func verifC13Generate(seed uint64, nhist, nvar int) (ops []string) {
	rng := vh.NewRng(seed ^ 0xc13c13)
	for hid := 0; hid < nhist; hid++ {
		h := verifC13GenHistory(rng, hid%7 == 6)
		for v := 0; v < nvar; v++ {
			ops = append(ops, h.emit(rng, hid, v)...)
		}
		if vh.Thorough() || hid%3 == 0 {
			ops = append(ops, h.emit(rng, hid, -1)...)
		}
	}
	return
}

func TestVerifC13(t *testing.T) {
	t.Chdir(t.TempDir())
	out := vh.Open("c13")
	defer out.Close()
	h := &verifC13Harness{t: t}
	defer h.closeCase()
	ops, replay := vh.ReplayOps()
	if !replay {
		ops = verifC13Generate(vh.Seed(), vh.Budget(30, 600), 4)
	}
	spent := map[string]time.Duration{}
	for _, op := range ops {
		t0 := time.Now()
		res := vh.Catch(func() string { return h.exec(op) })
		spent[strings.SplitN(op, " ", 2)[0]] += time.Since(t0)
		out.Emit(op, res)
		out.Flush() // a go-deadlock abort must not lose the lines that lead to it
	}
	for k, d := range spent {
		t.Logf("time %s %v", k, d)
	}
}
