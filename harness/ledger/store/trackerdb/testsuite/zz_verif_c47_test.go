//go:build verif

package testsuite

// C47 correspondence harness: the SAME seeded sequence of tracker-store write batches and queries is executed on
//   S = the SQLite driver            (sqlitedriver.Open on a scratch file)
//   P = the Pebble generic-KV driver (pebbledbdriver.Open on a scratch directory)
//   D = the dual driver              (dualdriver.MakeStore over a second SQLite + Pebble pair)
// and every answer is printed canonically (values, rounds, order, next-cursor/more flag, not-found / error class).
// The impl line of an op is   S{<answer>} P{<answer>} D{<answer>}.
// The Lean driver `c47` (Spec.TrackerStore) prints the spec's answer for the same op line; checks/C47.py compares
// S vs spec, P vs spec, S vs P and the dual driver's verdict.
//
// Op grammar (space separated; numbers decimal; byte strings hex, "_" = empty, "nil" = nil slice):
//   reset <mem|disk>                        fresh stores, migrations run
//   begin | commit | abort                  one write batch = one Transaction per back end
//   writes (inside a batch):
//     ains/aupd <addr> <acct>   adel <addr>
//     rins/rupd <addr> <aidx> <res>   rdel <addr> <aidx>
//     cins <cidx> <ctype> <addr>   cdel <cidx> <ctype>
//     kvput <key> <val>   kvdel <key>
//     oins <addr> <updround> <onl>   odel <forgetBefore>
//     rpput <start> <rp>,<rp>..   rpprune <rnd>
//     ttnew <base> <forgetBefore> <lv>,<lv>..
//     round <rnd>   totals <0|1> <tot>
//     spput <rnd>:<w>,..   spdel <rnd>
//     cpu64 <name> <v>  cpstr <name> <hex>  cpfsput <rnd> <n>  cpfsdel <maxrnd>  cpunfins <rnd> <n>  cpunfdel <rnd>  cpstore <rnd> <hex> <hex> <size>
//   reads (outside a batch; prefix "tx" + op = the same read through the open batch's own reader):
//     alook <addr>  arowid <addr>  rlook <addr> <aidx> <ctype>  rall <addr>  rlim <addr> <minIdx> <max> <ctype>  rdata <addr> <aidx>
//     clook <cidx> <ctype>  kvget <key>  kvpfx <prefix> <max> [<key>:<0|1>,..]  kvcur <prefix> <cursor> <limit> <maxBytes> <0|1> <key>,<key>..|-
//     olook <addr> <rnd>  ohist <addr>  odata <addr>  otop <rnd> <offset> <n>  oexp <rnd> <voteRnd>  oall <max>
//     rplook <rnd>  rpall  ttload <dbRound>  around  totalsget <0|1>  splook <rnd>  spall  count <accounts|resources|kvs|online|roundparams>
//     cpu64get <name>  cpstrget <name>  cpfsget <rnd>  cpfsold <maxrnd>  cpunfall  cpget <rnd>  cpoldest <count> <keep>
// tokens: <addr> = 4 hex digits (first and last byte of the 32-byte address, the rest zero);
//   <acct> = microalgos.updround.status; <res> = a|p . x . y . flags . upd (asset: amount,total; app: local-uints,global-uints);
//   <onl> = microalgos.votefirst.votelast.keydilution (0.0.0.0 = the offline marker row); <rp> = onlinesupply.rewardslevel;
//   <tot> = online.offline.notpart.level

import (
	"context"
	"database/sql"
	"encoding/hex"
	"errors"
	"fmt"
	"os"
	"path/filepath"
	"sort"
	"strconv"
	"strings"
	"testing"

	"github.com/algorand/go-algorand/config"
	"github.com/algorand/go-algorand/crypto"
	"github.com/algorand/go-algorand/data/basics"
	"github.com/algorand/go-algorand/ledger/ledgercore"
	"github.com/algorand/go-algorand/ledger/store/trackerdb"
	"github.com/algorand/go-algorand/ledger/store/trackerdb/dualdriver"
	"github.com/algorand/go-algorand/ledger/store/trackerdb/pebbledbdriver"
	"github.com/algorand/go-algorand/ledger/store/trackerdb/sqlitedriver"
	"github.com/algorand/go-algorand/logging"
	"github.com/algorand/go-algorand/protocol"
	"github.com/algorand/go-algorand/util/db"
	"github.com/algorand/go-algorand/zz_verif_tools/vh"
)

// ------------------------------------------------------------------ tokens

func c47Hex(b []byte) string {
	if b == nil {
		return "nil"
	}
	if len(b) == 0 {
		return "_"
	}
	return hex.EncodeToString(b)
}

func c47Unhex(s string) []byte {
	if s == "nil" {
		return nil
	}
	if s == "_" {
		return []byte{}
	}
	b, err := hex.DecodeString(s)
	if err != nil {
		panic("bad hex " + s)
	}
	return b
}

func c47Addr(s string) basics.Address {
	b := c47Unhex(s)
	if len(b) != 2 {
		panic("address token must be 4 hex digits")
	}
	var a basics.Address
	a[0], a[31] = b[0], b[1]
	return a
}

func c47AddrTok(a basics.Address) string {
	for i := 1; i < 31; i++ {
		if a[i] != 0 {
			return "?" + hex.EncodeToString(a[:])
		}
	}
	return hex.EncodeToString([]byte{a[0], a[31]})
}

func c47Nums(s string, n int) []uint64 {
	p := strings.Split(s, ".")
	if len(p) != n {
		panic("bad token " + s)
	}
	out := make([]uint64, n)
	for i := range p {
		out[i] = vh.U(p[i])
	}
	return out
}

func c47Acct(tok string) trackerdb.BaseAccountData {
	v := c47Nums(tok, 3)
	return trackerdb.BaseAccountData{MicroAlgos: basics.MicroAlgos{Raw: v[0]}, UpdateRound: v[1], Status: basics.Status(v[2])}
}

func c47AcctTok(d trackerdb.BaseAccountData) string {
	t := fmt.Sprintf("%d.%d.%d", d.MicroAlgos.Raw, d.UpdateRound, uint64(d.Status))
	if d != c47Acct(t) {
		t += "!"
	}
	return t
}

func c47Res(tok string) trackerdb.ResourcesData {
	p := strings.SplitN(tok, ".", 2)
	v := c47Nums(p[1], 4)
	d := trackerdb.ResourcesData{ResourceFlags: trackerdb.ResourceFlags(v[2]), UpdateRound: v[3]}
	switch p[0] {
	case "a":
		d.Amount, d.Total = v[0], v[1]
	case "p":
		d.SchemaNumUint, d.GlobalStateSchemaNumUint = v[0], v[1]
	default:
		if v[0] != 0 || v[1] != 0 {
			panic("bad resource token " + tok)
		}
	}
	return d
}

func c47ResTok(d trackerdb.ResourcesData) string {
	k, x, y := "x", uint64(0), uint64(0)
	switch {
	case d.IsAsset() && d.IsApp():
		k = "b"
	case d.IsAsset():
		k, x, y = "a", d.Amount, d.Total
	case d.IsApp():
		k, x, y = "p", d.SchemaNumUint, d.GlobalStateSchemaNumUint
	}
	t := fmt.Sprintf("%s.%d.%d.%d.%d", k, x, y, uint64(d.ResourceFlags), d.UpdateRound)
	if k != "b" {
		e := c47Res(t)
		// compare through the encoding (ResourcesData holds maps/slices)
		if string(protocol.Encode(&e)) != string(protocol.Encode(&d)) {
			t += "!"
		}
	}
	return t
}

func c47Onl(tok string) trackerdb.BaseOnlineAccountData {
	v := c47Nums(tok, 4)
	var d trackerdb.BaseOnlineAccountData
	d.MicroAlgos.Raw = v[0]
	d.VoteFirstValid, d.VoteLastValid, d.VoteKeyDilution = basics.Round(v[1]), basics.Round(v[2]), v[3]
	return d
}

func c47OnlTok(d trackerdb.BaseOnlineAccountData) string {
	t := fmt.Sprintf("%d.%d.%d.%d", d.MicroAlgos.Raw, uint64(d.VoteFirstValid), uint64(d.VoteLastValid), d.VoteKeyDilution)
	if d != c47Onl(t) {
		t += "!"
	}
	return t
}

func c47RP(tok string) ledgercore.OnlineRoundParamsData {
	v := c47Nums(tok, 2)
	return ledgercore.OnlineRoundParamsData{OnlineSupply: v[0], RewardsLevel: v[1]}
}

func c47RPTok(d ledgercore.OnlineRoundParamsData) string {
	t := fmt.Sprintf("%d.%d", d.OnlineSupply, d.RewardsLevel)
	if d.CurrentProtocol != "" {
		t += ".proto"
	}
	return t
}

func c47Tot(tok string) ledgercore.AccountTotals {
	v := c47Nums(tok, 4)
	var t ledgercore.AccountTotals
	t.Online.Money.Raw, t.Offline.Money.Raw, t.NotParticipating.Money.Raw, t.RewardsLevel = v[0], v[1], v[2], v[3]
	t.Online.RewardUnits = v[0] / 7
	return t
}

func c47TotTok(t ledgercore.AccountTotals) string {
	s := fmt.Sprintf("%d.%d.%d.%d", t.Online.Money.Raw, t.Offline.Money.Raw, t.NotParticipating.Money.Raw, t.RewardsLevel)
	if t != c47Tot(s) {
		s += "!"
	}
	return s
}

func c47TxTail(lv uint64) []byte {
	t := trackerdb.TxTailRound{LastValid: []basics.Round{basics.Round(lv)}}
	return protocol.Encode(&t)
}

func c47FSInfo(n uint64) trackerdb.CatchpointFirstStageInfo {
	return trackerdb.CatchpointFirstStageInfo{TotalAccounts: n, TotalKVs: n / 3}
}

func c47Digest(n uint64) (d crypto.Digest) {
	d[0], d[1], d[31] = byte(n>>8), byte(n), 0x5a
	return
}

func c47Err(err error) string {
	switch {
	case err == nil:
		return "ok"
	case errors.Is(err, dualdriver.ErrInconsistentResult):
		return "err:inconsistent"
	case errors.Is(err, trackerdb.ErrNotFound), errors.Is(err, sql.ErrNoRows):
		// "not found" is signalled by either value (ledger/acctdeltas.go accepts both: "TODO: phase out sql.ErrNoRows")
		return "err:notfound"
	case strings.Contains(err.Error(), "UNIQUE constraint"):
		return "err:unique"
	case strings.Contains(err.Error(), "not supported"):
		return "err:notsupported"
	}
	return "err:other"
}

// ------------------------------------------------------------------ back ends

type c47be struct {
	name  string
	store trackerdb.Store
	tx    trackerdb.Transaction
	refs  map[basics.Address]trackerdb.AccountRef
	last  error // last non-classified error (diagnostics only)
}

type c47world struct {
	t   *testing.T
	bes []*c47be
	n   int
}

var c47proto = config.Consensus[protocol.ConsensusCurrentVersion]

const c47RewardUnit = 1000000 // == proto.RewardUnit; normalized balance of an online row with RewardsBase 0 is its MicroAlgos

func (w *c47world) close() {
	for _, b := range w.bes {
		if b.tx != nil {
			b.tx.Close()
			b.tx = nil
		}
		if b.store != nil {
			b.store.Close()
		}
	}
	w.bes = nil
}

func (w *c47world) reset(mem bool) string {
	w.close()
	w.n++
	t := w.t
	log := logging.NewLogger()
	log.SetLevel(logging.Error)
	log.SetOutput(logging.TestLogWriter{TB: t})
	dir := filepath.Join(t.TempDir(), fmt.Sprintf("case%d", w.n))
	openS := func(tag string) trackerdb.Store {
		s, err := sqlitedriver.Open(filepath.Join(dir, tag+".sqlite"), mem, log)
		if err != nil {
			panic(err)
		}
		_ = s.SetSynchronousMode(context.Background(), db.SynchronousModeOff, false)
		return s
	}
	openP := func(tag string) trackerdb.Store {
		s, err := pebbledbdriver.Open(filepath.Join(dir, tag), mem, c47proto, log)
		if err != nil {
			panic(err)
		}
		return s
	}
	if err := os.MkdirAll(dir, 0o755); err != nil {
		panic(err)
	}
	w.bes = []*c47be{
		{name: "S", store: openS("s")},
		{name: "P", store: openP("p")},
		{name: "D", store: dualdriver.MakeStore(openS("ds"), openP("dp"))},
	}
	res := make([]string, len(w.bes))
	for i, b := range w.bes {
		b.refs = map[basics.Address]trackerdb.AccountRef{}
		params := trackerdb.Params{InitProto: protocol.ConsensusCurrentVersion}
		_, err := b.store.RunMigrations(context.Background(), params, log, trackerdb.AccountDBVersion)
		res[i] = c47Err(err)
	}
	return c47Join(w.bes, res)
}

func c47Join(bes []*c47be, res []string) string {
	var sb strings.Builder
	for i, b := range bes {
		if i > 0 {
			sb.WriteByte(' ')
		}
		sb.WriteString(b.name + "{" + res[i] + "}")
	}
	return sb.String()
}

func (w *c47world) exec(op string) string {
	f := strings.Fields(op)
	if len(f) == 0 {
		return "bad-op"
	}
	if f[0] == "reset" {
		return vh.Catch(func() string { return w.reset(len(f) < 2 || f[1] == "mem") })
	}
	if w.bes == nil {
		return "bad-op no-reset"
	}
	res := make([]string, len(w.bes))
	for i, b := range w.bes {
		b := b
		res[i] = vh.Catch(func() string { return b.exec(f) })
		if strings.HasPrefix(res[i], "PANIC") {
			if strings.Contains(res[i], "unimplemented") {
				res[i] = "PANIC:unimplemented"
			} else if strings.Contains(res[i], "nil pointer") || strings.Contains(res[i], "invalid memory") {
				res[i] = "PANIC:nil"
			} else if strings.Contains(res[i], "interface conversion") {
				res[i] = "PANIC:ref"
			}
		}
	}
	return c47Join(w.bes, res)
}

var c47ctx = context.Background()

func (b *c47be) exec(f []string) string {
	switch f[0] {
	case "begin":
		if b.tx != nil {
			return "bad-op nested"
		}
		tx, err := b.store.BeginTransaction(c47ctx)
		if err != nil {
			return c47Err(err)
		}
		b.tx = tx
		return "ok"
	case "commit", "abort":
		if b.tx == nil {
			return "bad-op no-batch"
		}
		var err error
		if f[0] == "commit" {
			err = b.tx.Commit()
		}
		cerr := b.tx.Close()
		b.tx = nil
		if err == nil && f[0] == "abort" {
			err = cerr
		}
		return c47Err(err)
	}
	if c47IsWrite(f[0]) {
		if b.tx == nil {
			return "bad-op no-batch"
		}
		return b.write(f)
	}
	if strings.HasPrefix(f[0], "tx") {
		if b.tx == nil {
			return "bad-op no-batch"
		}
		g := append([]string{f[0][2:]}, f[1:]...)
		return b.read(b.tx, g)
	}
	if b.tx != nil {
		return "bad-op in-batch"
	}
	var out string
	err := b.store.Snapshot(func(ctx context.Context, tx trackerdb.SnapshotScope) error {
		out = b.read(tx, f)
		return nil
	})
	if err != nil {
		return c47Err(err)
	}
	return out
}

func c47IsWrite(o string) bool {
	switch o {
	case "ains", "aupd", "adel", "rins", "rupd", "rdel", "cins", "cdel", "kvput", "kvdel", "oins", "odel", "rpput", "rpprune",
		"ttnew", "round", "totals", "spput", "spdel", "cpu64", "cpstr", "cpfsput", "cpfsdel", "cpunfins", "cpunfdel", "cpstore":
		return true
	}
	return false
}

func (b *c47be) ref(addr basics.Address) trackerdb.AccountRef {
	r, ok := b.refs[addr]
	if !ok {
		return nil
	}
	return r
}

func (b *c47be) write(f []string) string {
	tx := b.tx
	switch f[0] {
	case "ains", "aupd", "adel", "rins", "rupd", "rdel", "cins", "cdel", "kvput", "kvdel":
		aw, err := tx.MakeAccountsOptimizedWriter(true, true, true, true)
		if err != nil {
			return c47Err(err)
		}
		defer aw.Close()
		switch f[0] {
		case "ains":
			addr, d := c47Addr(f[1]), c47Acct(f[2])
			ref, err := aw.InsertAccount(addr, 0, d)
			if err == nil {
				b.refs[addr] = ref
			}
			return c47Err(err)
		case "aupd":
			addr, d := c47Addr(f[1]), c47Acct(f[2])
			n, err := aw.UpdateAccount(b.ref(addr), 0, d)
			if err != nil {
				return c47Err(err)
			}
			return fmt.Sprintf("rows=%d", n)
		case "adel":
			addr := c47Addr(f[1])
			n, err := aw.DeleteAccount(b.ref(addr))
			if err != nil {
				return c47Err(err)
			}
			delete(b.refs, addr)
			return fmt.Sprintf("rows=%d", n)
		case "rins":
			addr, aidx, d := c47Addr(f[1]), basics.CreatableIndex(vh.U(f[2])), c47Res(f[3])
			_, err := aw.InsertResource(b.ref(addr), aidx, d)
			return c47Err(err)
		case "rupd":
			addr, aidx, d := c47Addr(f[1]), basics.CreatableIndex(vh.U(f[2])), c47Res(f[3])
			n, err := aw.UpdateResource(b.ref(addr), aidx, d)
			if err != nil {
				return c47Err(err)
			}
			return fmt.Sprintf("rows=%d", n)
		case "rdel":
			addr, aidx := c47Addr(f[1]), basics.CreatableIndex(vh.U(f[2]))
			n, err := aw.DeleteResource(b.ref(addr), aidx)
			if err != nil {
				return c47Err(err)
			}
			return fmt.Sprintf("rows=%d", n)
		case "cins":
			creator := c47Addr(f[3])
			_, err := aw.InsertCreatable(basics.CreatableIndex(vh.U(f[1])), basics.CreatableType(vh.U(f[2])), creator[:])
			return c47Err(err)
		case "cdel":
			n, err := aw.DeleteCreatable(basics.CreatableIndex(vh.U(f[1])), basics.CreatableType(vh.U(f[2])))
			if err != nil {
				return c47Err(err)
			}
			return fmt.Sprintf("rows=%d", n)
		case "kvput":
			return c47Err(aw.UpsertKvPair(string(c47Unhex(f[1])), c47Unhex(f[2])))
		case "kvdel":
			return c47Err(aw.DeleteKvPair(string(c47Unhex(f[1]))))
		}
	case "oins":
		ow, err := tx.MakeOnlineAccountsOptimizedWriter(true)
		if err != nil {
			return c47Err(err)
		}
		defer ow.Close()
		addr, upd, d := c47Addr(f[1]), vh.U(f[2]), c47Onl(f[3])
		_, err = ow.InsertOnlineAccount(addr, d.NormalizedOnlineBalance(c47proto.RewardUnit), d, upd, uint64(d.VoteLastValid))
		return c47Err(err)
	case "odel", "rpput", "rpprune", "ttnew", "round", "totals":
		aw, err := tx.MakeAccountsWriter()
		if err != nil {
			return c47Err(err)
		}
		switch f[0] {
		case "odel":
			return c47Err(aw.OnlineAccountsDelete(basics.Round(vh.U(f[1]))))
		case "rpput":
			var ps []ledgercore.OnlineRoundParamsData
			for _, t := range strings.Split(f[2], ",") {
				ps = append(ps, c47RP(t))
			}
			return c47Err(aw.AccountsPutOnlineRoundParams(ps, basics.Round(vh.U(f[1]))))
		case "rpprune":
			return c47Err(aw.AccountsPruneOnlineRoundParams(basics.Round(vh.U(f[1]))))
		case "ttnew":
			var data [][]byte
			if f[3] != "-" {
				for _, t := range strings.Split(f[3], ",") {
					data = append(data, c47TxTail(vh.U(t)))
				}
			}
			return c47Err(aw.TxtailNewRound(c47ctx, basics.Round(vh.U(f[1])), data, basics.Round(vh.U(f[2]))))
		case "round":
			return c47Err(aw.UpdateAccountsRound(basics.Round(vh.U(f[1]))))
		case "totals":
			return c47Err(aw.AccountsPutTotals(c47Tot(f[2]), f[1] == "1"))
		}
	case "spput", "spdel":
		sw := tx.MakeSpVerificationCtxWriter()
		if f[0] == "spdel" {
			return c47Err(sw.DeleteOldSPContexts(c47ctx, basics.Round(vh.U(f[1]))))
		}
		var cs []*ledgercore.StateProofVerificationContext
		for _, t := range strings.Split(f[1], ",") {
			p := strings.Split(t, ":")
			cs = append(cs, &ledgercore.StateProofVerificationContext{LastAttestedRound: basics.Round(vh.U(p[0])), OnlineTotalWeight: basics.MicroAlgos{Raw: vh.U(p[1])}})
		}
		return c47Err(sw.StoreSPContexts(c47ctx, cs))
	case "cpu64", "cpstr", "cpfsput", "cpfsdel", "cpunfins", "cpunfdel", "cpstore":
		cw, err := tx.MakeCatchpointWriter()
		if err != nil {
			return c47Err(err)
		}
		switch f[0] {
		case "cpu64":
			return c47Err(cw.WriteCatchpointStateUint64(c47ctx, trackerdb.CatchpointState(f[1]), vh.U(f[2])))
		case "cpstr":
			return c47Err(cw.WriteCatchpointStateString(c47ctx, trackerdb.CatchpointState(f[1]), string(c47Unhex(f[2]))))
		case "cpfsput":
			info := c47FSInfo(vh.U(f[2]))
			return c47Err(cw.InsertOrReplaceCatchpointFirstStageInfo(c47ctx, basics.Round(vh.U(f[1])), &info))
		case "cpfsdel":
			return c47Err(cw.DeleteOldCatchpointFirstStageInfo(c47ctx, basics.Round(vh.U(f[1]))))
		case "cpunfins":
			return c47Err(cw.InsertUnfinishedCatchpoint(c47ctx, basics.Round(vh.U(f[1])), c47Digest(vh.U(f[2]))))
		case "cpunfdel":
			return c47Err(cw.DeleteUnfinishedCatchpoint(c47ctx, basics.Round(vh.U(f[1]))))
		case "cpstore":
			return c47Err(cw.StoreCatchpoint(c47ctx, basics.Round(vh.U(f[1])), string(c47Unhex(f[2])), string(c47Unhex(f[3])), vh.I(f[4])))
		}
	}
	return "bad-op"
}

type c47reader interface {
	MakeAccountsReader() (trackerdb.AccountsReaderExt, error)
	MakeAccountsOptimizedReader() (trackerdb.AccountsReader, error)
	MakeOnlineAccountsOptimizedReader() (trackerdb.OnlineAccountsReader, error)
	MakeSpVerificationCtxReader() trackerdb.SpVerificationCtxReader
	MakeCatchpointReader() (trackerdb.CatchpointReader, error)
}

func c47List(items []string) string { return "[" + strings.Join(items, ",") + "]" }

func (b *c47be) read(tx c47reader, f []string) string {
	switch f[0] {
	case "kvscan":
		return b.kvscan(tx, f)
	case "alook", "rlook", "rall", "rlim", "clook", "kvget", "kvpfx", "kvcur":
		ar, err := tx.MakeAccountsOptimizedReader()
		if err != nil {
			return c47Err(err)
		}
		defer ar.Close()
		switch f[0] {
		case "alook":
			d, err := ar.LookupAccount(c47Addr(f[1]))
			if err != nil {
				return c47Err(err)
			}
			if d.Addr != c47Addr(f[1]) {
				return "wrong-addr"
			}
			return fmt.Sprintf("rnd=%d ref=%s data=%s", d.Round, vh.B(d.Ref != nil), c47AcctTok(d.AccountData))
		case "rlook":
			d, err := ar.LookupResources(c47Addr(f[1]), basics.CreatableIndex(vh.U(f[2])), basics.CreatableType(vh.U(f[3])))
			if err != nil {
				return c47Err(err)
			}
			return fmt.Sprintf("rnd=%d ref=%s aidx=%d data=%s", d.Round, vh.B(d.AcctRef != nil), d.Aidx, c47ResTok(d.Data))
		case "rall":
			ds, rnd, err := ar.LookupAllResources(c47Addr(f[1]))
			if err != nil {
				return c47Err(err)
			}
			var it []string
			for _, d := range ds {
				s := fmt.Sprintf("%d:%s", d.Aidx, c47ResTok(d.Data))
				if d.Round != rnd || d.AcctRef == nil {
					s += "!"
				}
				it = append(it, s)
			}
			return fmt.Sprintf("rnd=%d %s", rnd, c47List(it))
		case "rlim":
			ds, rnd, err := ar.LookupLimitedResources(c47Addr(f[1]), basics.CreatableIndex(vh.U(f[2])), vh.U(f[3]), basics.CreatableType(vh.U(f[4])))
			if err != nil {
				return c47Err(err)
			}
			var it []string
			for _, d := range ds {
				s := fmt.Sprintf("%d:%s:%s", d.Aidx, c47ResTok(d.Data), c47AddrTok(d.Creator))
				if d.Round != rnd || d.AcctRef == nil {
					s += "!"
				}
				it = append(it, s)
			}
			return fmt.Sprintf("rnd=%d %s", rnd, c47List(it))
		case "clook":
			addr, ok, rnd, err := ar.LookupCreator(basics.CreatableIndex(vh.U(f[1])), basics.CreatableType(vh.U(f[2])))
			if err != nil {
				return c47Err(err)
			}
			return fmt.Sprintf("rnd=%d ok=%s addr=%s", rnd, vh.B(ok), c47AddrTok(addr))
		case "kvget":
			pv, err := ar.LookupKeyValue(string(c47Unhex(f[1])))
			if err != nil {
				return c47Err(err)
			}
			return fmt.Sprintf("rnd=%d val=%s", pv.Round, c47Hex(pv.Value))
		case "kvpfx":
			// optional 3rd field: the map the caller pre-populated from its in-memory deltas (key:0 = deleted, key:1 = present)
			results := map[string]bool{}
			count := uint64(0)
			if len(f) > 3 && f[3] != "-" {
				for _, e := range strings.Split(f[3], ",") {
					p := strings.Split(e, ":")
					results[string(c47Unhex(p[0]))] = p[1] == "1"
					if p[1] == "1" {
						count++
					}
				}
			}
			rnd, err := ar.LookupKeysByPrefix(string(c47Unhex(f[1])), vh.U(f[2]), results, count)
			if err != nil {
				return c47Err(err)
			}
			var ks []string
			for k := range results {
				ks = append(ks, k)
			}
			sort.Strings(ks) // Go string order = byte order
			var it []string
			for _, k := range ks {
				it = append(it, c47Hex([]byte(k))+":"+vh.B(results[k]))
			}
			return fmt.Sprintf("rnd=%d %s", rnd, c47List(it))
		case "kvcur":
			var excl map[string][]byte
			if f[6] != "-" {
				excl = map[string][]byte{}
				for _, k := range strings.Split(f[6], ",") {
					excl[string(c47Unhex(k))] = nil
				}
			}
			rnd, kvs, more, err := ar.LookupKeysByPrefixCursor(string(c47Unhex(f[1])), string(c47Unhex(f[2])), vh.U(f[3]), vh.U(f[4]), f[5] == "1", excl)
			if err != nil {
				return c47Err(err)
			}
			var it []string
			for _, kv := range kvs {
				it = append(it, c47Hex([]byte(kv.Key))+"="+c47Hex(kv.Value))
			}
			return fmt.Sprintf("rnd=%d %s more=%s", rnd, c47List(it), vh.B(more))
		}
	case "olook", "ohist", "rplook":
		or, err := tx.MakeOnlineAccountsOptimizedReader()
		if err != nil {
			return c47Err(err)
		}
		defer or.Close()
		switch f[0] {
		case "olook":
			d, err := or.LookupOnline(c47Addr(f[1]), basics.Round(vh.U(f[2])))
			if err != nil {
				return c47Err(err)
			}
			if d.Addr != c47Addr(f[1]) {
				return "wrong-addr"
			}
			return fmt.Sprintf("rnd=%d ref=%s upd=%d data=%s", d.Round, vh.B(d.Ref != nil), d.UpdRound, c47OnlTok(d.AccountData))
		case "ohist":
			ds, rnd, err := or.LookupOnlineHistory(c47Addr(f[1]))
			if err != nil {
				return c47Err(err)
			}
			var it []string
			for _, d := range ds {
				s := fmt.Sprintf("%d:%s", d.UpdRound, c47OnlTok(d.AccountData))
				if d.Addr != c47Addr(f[1]) || d.Ref == nil {
					s += "!"
				}
				it = append(it, s)
			}
			return fmt.Sprintf("rnd=%d %s", rnd, c47List(it))
		case "rplook":
			d, err := or.LookupOnlineRoundParams(basics.Round(vh.U(f[1])))
			if err != nil {
				return c47Err(err)
			}
			return c47RPTok(d)
		}
	case "arowid", "rdata", "odata", "otop", "oexp", "oall", "rpall", "ttload", "around", "totalsget", "count":
		ar, err := tx.MakeAccountsReader()
		if err != nil {
			return c47Err(err)
		}
		switch f[0] {
		case "arowid":
			ref, err := ar.LookupAccountRowID(c47Addr(f[1]))
			if err != nil {
				return c47Err(err)
			}
			return "found ref=" + vh.B(ref != nil)
		case "rdata":
			ref, err := ar.LookupAccountRowID(c47Addr(f[1]))
			if err != nil {
				return "acct:" + c47Err(err)
			}
			raw, err := ar.LookupResourceDataByAddrID(ref, basics.CreatableIndex(vh.U(f[2])))
			if err != nil {
				return c47Err(err)
			}
			var d trackerdb.ResourcesData
			if err := protocol.Decode(raw, &d); err != nil {
				return "undecodable"
			}
			return c47ResTok(d)
		case "odata":
			ref, raw, err := ar.LookupOnlineAccountDataByAddress(c47Addr(f[1]))
			if err != nil {
				return c47Err(err)
			}
			var d trackerdb.BaseOnlineAccountData
			if err := protocol.Decode(raw, &d); err != nil {
				return "undecodable"
			}
			return fmt.Sprintf("ref=%s data=%s", vh.B(ref != nil), c47OnlTok(d))
		case "otop":
			m, err := ar.AccountsOnlineTop(basics.Round(vh.U(f[1])), vh.U(f[2]), vh.U(f[3]), c47proto.RewardUnit)
			if err != nil {
				return c47Err(err)
			}
			var it []string
			for a, oa := range m {
				s := fmt.Sprintf("%s:%d.%d.%d", c47AddrTok(a), oa.MicroAlgos.Raw, uint64(oa.VoteFirstValid), uint64(oa.VoteLastValid))
				if oa.Address != a || oa.NormalizedOnlineBalance != oa.MicroAlgos.Raw || oa.RewardsBase != 0 {
					s += "!"
				}
				it = append(it, s)
			}
			sort.Strings(it)
			return c47List(it)
		case "oexp":
			m, err := ar.ExpiredOnlineAccountsForRound(basics.Round(vh.U(f[1])), basics.Round(vh.U(f[2])), c47proto.RewardUnit, 0)
			if err != nil {
				return c47Err(err)
			}
			var it []string
			for a, od := range m {
				it = append(it, fmt.Sprintf("%s:%d.%d.%d.%d", c47AddrTok(a), od.MicroAlgosWithRewards.Raw, uint64(od.VoteFirstValid), uint64(od.VoteLastValid), od.VoteKeyDilution))
			}
			sort.Strings(it)
			return c47List(it)
		case "oall":
			ds, err := ar.OnlineAccountsAll(vh.U(f[1]))
			if err != nil {
				return c47Err(err)
			}
			var it []string
			for _, d := range ds {
				s := fmt.Sprintf("%s/%d@%d:%s", c47AddrTok(d.Addr), d.UpdRound, d.Round, c47OnlTok(d.AccountData))
				if d.Ref == nil {
					s += "!"
				}
				it = append(it, s)
			}
			return c47List(it)
		case "rpall":
			ds, end, err := ar.AccountsOnlineRoundParams()
			if err != nil {
				return c47Err(err)
			}
			var it []string
			for _, d := range ds {
				it = append(it, c47RPTok(d))
			}
			return fmt.Sprintf("end=%d %s", end, c47List(it))
		case "ttload":
			tails, hashes, base, err := ar.LoadTxTail(c47ctx, basics.Round(vh.U(f[1])))
			if err != nil {
				return c47Err(err)
			}
			var it []string
			for i, tl := range tails {
				s := "?"
				if len(tl.LastValid) == 1 {
					s = strconv.FormatUint(uint64(tl.LastValid[0]), 10)
					if i >= len(hashes) || hashes[i] != crypto.Hash(c47TxTail(uint64(tl.LastValid[0]))) {
						s += "!"
					}
				}
				it = append(it, s)
			}
			return fmt.Sprintf("base=%d %s", base, c47List(it))
		case "around":
			r, err := ar.AccountsRound()
			if err != nil {
				return c47Err(err)
			}
			return fmt.Sprintf("rnd=%d", r)
		case "totalsget":
			tt, err := ar.AccountsTotals(c47ctx, f[1] == "1")
			if err != nil {
				return c47Err(err)
			}
			return c47TotTok(tt)
		case "count":
			var n uint64
			var err error
			switch f[1] {
			case "accounts":
				n, err = ar.TotalAccounts(c47ctx)
			case "resources":
				n, err = ar.TotalResources(c47ctx)
			case "kvs":
				n, err = ar.TotalKVs(c47ctx)
			case "online":
				n, err = ar.TotalOnlineAccountRows(c47ctx)
			case "roundparams":
				n, err = ar.TotalOnlineRoundParams(c47ctx)
			default:
				return "bad-op"
			}
			if err != nil {
				return c47Err(err)
			}
			return strconv.FormatUint(n, 10)
		}
	case "splook", "spall":
		sr := tx.MakeSpVerificationCtxReader()
		if f[0] == "splook" {
			c, err := sr.LookupSPContext(basics.Round(vh.U(f[1])))
			if err != nil {
				return c47Err(err)
			}
			return fmt.Sprintf("%d:%d", c.LastAttestedRound, c.OnlineTotalWeight.Raw)
		}
		cs, err := sr.GetAllSPContexts(c47ctx)
		if err != nil {
			return c47Err(err)
		}
		if cs == nil {
			return "nil"
		}
		var it []string
		for _, c := range cs {
			it = append(it, fmt.Sprintf("%d:%d", c.LastAttestedRound, c.OnlineTotalWeight.Raw))
		}
		return c47List(it)
	case "cpu64get", "cpstrget", "cpfsget", "cpfsold", "cpunfall", "cpget", "cpoldest":
		cr, err := tx.MakeCatchpointReader()
		if err != nil {
			return c47Err(err)
		}
		switch f[0] {
		case "cpu64get":
			v, err := cr.ReadCatchpointStateUint64(c47ctx, trackerdb.CatchpointState(f[1]))
			if err != nil {
				return c47Err(err)
			}
			return strconv.FormatUint(v, 10)
		case "cpstrget":
			v, err := cr.ReadCatchpointStateString(c47ctx, trackerdb.CatchpointState(f[1]))
			if err != nil {
				return c47Err(err)
			}
			return c47Hex([]byte(v))
		case "cpfsget":
			info, ok, err := cr.SelectCatchpointFirstStageInfo(c47ctx, basics.Round(vh.U(f[1])))
			if err != nil {
				return c47Err(err)
			}
			s := fmt.Sprintf("exists=%s n=%d", vh.B(ok), info.TotalAccounts)
			if info != c47FSInfo(info.TotalAccounts) {
				s += "!"
			}
			return s
		case "cpfsold":
			rs, err := cr.SelectOldCatchpointFirstStageInfoRounds(c47ctx, basics.Round(vh.U(f[1])))
			if err != nil {
				return c47Err(err)
			}
			var it []string
			for _, r := range rs {
				it = append(it, strconv.FormatUint(uint64(r), 10))
			}
			return c47List(it)
		case "cpunfall":
			rs, err := cr.SelectUnfinishedCatchpoints(c47ctx)
			if err != nil {
				return c47Err(err)
			}
			var it []string
			for _, r := range rs {
				it = append(it, fmt.Sprintf("%d:%d", r.Round, uint64(r.BlockHash[0])<<8|uint64(r.BlockHash[1])))
			}
			return c47List(it)
		case "cpget":
			fn, label, size, err := cr.GetCatchpoint(c47ctx, basics.Round(vh.U(f[1])))
			if err != nil {
				return c47Err(err)
			}
			return fmt.Sprintf("%s %s %d", c47Hex([]byte(fn)), c47Hex([]byte(label)), size)
		case "cpoldest":
			m, err := cr.GetOldestCatchpointFiles(c47ctx, int(vh.U(f[1])), int(vh.U(f[2])))
			if err != nil {
				return c47Err(err)
			}
			var rs []uint64
			for r := range m {
				rs = append(rs, uint64(r))
			}
			sort.Slice(rs, func(i, j int) bool { return rs[i] < rs[j] })
			var it []string
			for _, r := range rs {
				it = append(it, fmt.Sprintf("%d:%s", r, c47Hex([]byte(m[basics.Round(r)]))))
			}
			return c47List(it)
		}
	}
	return "bad-op"
}

// ------------------------------------------------------------------ generator

// c47gen keeps a shadow of what exists so that the generated writes respect the writers' calling contract
// (insert only what is absent, update/delete only what is present, resources only under existing accounts,
// an account is deleted only after its resources, rounds move forward, txtail / round params are contiguous).
type c47gen struct {
	r        *vh.Rng
	ops      []string
	accts    map[string]bool
	res      map[string]map[uint64]string // addr -> aidx -> kind
	creat    map[uint64]uint64            // cidx -> ctype
	kvs      map[string]bool
	round    uint64
	onl      map[string]string // addr -> last online token
	base     uint64 // the case's first round: rounds cross byte boundaries of the big-endian keys (255/256, 65535/65536, 2^32)
	rpNext   uint64
	ttNext   uint64
	sp       map[uint64]bool
	fs       map[uint64]bool
	unf      map[uint64]bool
	profile  string
	addrPool []string
	keyPool  []string
}

func (g *c47gen) emit(format string, a ...interface{}) { g.ops = append(g.ops, fmt.Sprintf(format, a...)) }

var c47AssetIdx = []uint64{1, 3, 5, 7, 255, 257, 65537, 4294967297}
var c47AppIdx = []uint64{2, 4, 6, 256, 65536, 4294967296}

func (g *c47gen) small() uint64 {
	switch g.r.Intn(5) {
	case 0:
		return 0
	case 1:
		return uint64(g.r.Intn(3))
	}
	return uint64(g.r.Intn(1000))
}

func (g *c47gen) newCase() {
	r := g.r
	g.accts, g.res, g.creat, g.kvs = map[string]bool{}, map[string]map[uint64]string{}, map[uint64]uint64{}, map[string]bool{}
	g.onl, g.sp, g.fs, g.unf = map[string]string{}, map[uint64]bool{}, map[uint64]bool{}, map[uint64]bool{}
	g.base = []uint64{0, 0, 0, 249, 505, 65529, 4294967289}[r.Intn(7)]
	g.round, g.rpNext, g.ttNext = g.base, g.base+1, g.base+1
	// addresses with shared first bytes (ordering is decided by the last byte) and extreme bytes
	all := []string{"0000", "0001", "00ff", "0100", "7f00", "7f01", "7fff", "8000", "80ff", "ff00", "fffe", "ffff", "1234", "1235"}
	g.addrPool = nil
	for _, i := range c47Perm(r, len(all))[:4+r.Intn(5)] {
		g.addrPool = append(g.addrPool, all[i])
	}
	// kv keys: shared prefixes, prefix-of-another-key, 0x00 and 0xff bytes, upper/lower case letters (raw byte order vs collation)
	base := [][]byte{[]byte("bx:"), []byte("bx:a"), []byte("bx:A"), []byte("bx:ab"), []byte("bx:aB"), []byte("bx:b"), {'b', 'x', ':', 0}, {'b', 'x', ':', 0, 0},
		{'b', 'x', ':', 0xff}, {'b', 'x', ':', 0xff, 0xff}, {'b', 'x', ':', 0xff, 0}, {'b', 'x', ';'}, {'b', 'x'}, {'b', 'y', ':'}, {0xff}, {0xff, 0xff}, {0xff, 0x01}, {0}, {'b', 'x', ':', 'a', 0xff},
		[]byte("bx:\xc3\xa9"), []byte("bx:\x80"), []byte("bx:a "), []byte("bx:a\x00b")}
	g.keyPool = nil
	for _, i := range c47Perm(r, len(base))[:6+r.Intn(len(base)-6)] {
		g.keyPool = append(g.keyPool, c47Hex(base[i]))
	}
	mode := "mem"
	if r.Intn(4) == 0 {
		mode = "disk"
	}
	g.emit("reset %s", mode)
}

func c47Perm(r *vh.Rng, n int) []int {
	p := make([]int, n)
	for i := range p {
		p[i] = i
	}
	for i := n - 1; i > 0; i-- {
		j := r.Intn(i + 1)
		p[i], p[j] = p[j], p[i]
	}
	return p
}

// qr picks a round for a query / a delete-before bound: around the rounds written so far, and the values whose low
// byte is 0xff or 0x00 next to them (last-byte arithmetic on big-endian keys)
func (g *c47gen) qr(slack int) uint64 {
	r := g.r
	span := int(g.round-g.base) + slack
	v := g.base + uint64(r.Intn(span))
	switch r.Intn(8) {
	case 0:
		return v | 0xff
	case 1:
		return (v | 0xff) + 1
	case 2:
		if v >= 256 {
			return (v &^ 0xff) - 1
		}
	case 3:
		return uint64(r.Intn(int(g.round) + slack))
	}
	return v
}

func (g *c47gen) addr() string { return g.addrPool[g.r.Intn(len(g.addrPool))] }
func (g *c47gen) key() string  { return g.keyPool[g.r.Intn(len(g.keyPool))] }

func (g *c47gen) acctTok() string {
	return fmt.Sprintf("%d.%d.%d", g.small(), g.round, g.r.Intn(3))
}

func (g *c47gen) resTok(kind string) string {
	x, y := g.small(), uint64(0)
	flags := uint64(0)
	if g.r.Intn(3) == 0 {
		y = g.small()
		flags |= 2
	}
	if x == 0 && y == 0 {
		if kind == "a" {
			flags |= 4
		} else {
			flags |= 8
		}
	}
	return fmt.Sprintf("%s.%d.%d.%d.%d", kind, x, y, flags, g.round)
}

func (g *c47gen) onlTok() string {
	r := g.r
	if r.Intn(4) == 0 {
		return "0.0.0.0"
	}
	m := uint64(0)
	switch r.Intn(6) {
	case 0:
		m = 0
	case 1, 2:
		m = uint64(1 + r.Intn(4)) // collisions of the normalized balance: the address breaks the tie
	default:
		m = uint64(r.Intn(2000))
	}
	vl := uint64(0)
	if r.Intn(8) != 0 {
		vl = g.round + uint64(r.Intn(12))
	}
	return fmt.Sprintf("%d.%d.%d.%d", m, r.Intn(3), vl, 1+r.Intn(3))
}

func (g *c47gen) writeBatch() {
	r := g.r
	g.round++
	g.emit("begin")
	n := 3 + r.Intn(12)
	onlThis := map[string]bool{}
	for i := 0; i < n; i++ {
		switch r.Intn(16) {
		case 0, 1, 2:
			a := g.addr()
			if !g.accts[a] {
				g.emit("ains %s %s", a, g.acctTok())
				g.accts[a] = true
				g.res[a] = map[uint64]string{}
			} else if r.Intn(4) == 0 {
				// delete (resources first)
				for idx := range g.res[a] {
					g.emit("rdel %s %d", a, idx)
				}
				g.emit("adel %s", a)
				delete(g.accts, a)
				delete(g.res, a)
			} else {
				g.emit("aupd %s %s", a, g.acctTok())
			}
		case 3, 4, 5:
			a := g.addr()
			if !g.accts[a] {
				continue
			}
			kind, pool := "a", c47AssetIdx
			if r.Bool() {
				kind, pool = "p", c47AppIdx
			}
			idx := pool[r.Intn(len(pool))]
			if _, ok := g.res[a][idx]; !ok {
				g.emit("rins %s %d %s", a, idx, g.resTok(kind))
				g.res[a][idx] = kind
			} else if r.Intn(3) == 0 {
				g.emit("rdel %s %d", a, idx)
				delete(g.res[a], idx)
			} else {
				g.emit("rupd %s %d %s", a, idx, g.resTok(kind))
			}
		case 6:
			kind, pool := uint64(0), c47AssetIdx
			if r.Bool() {
				kind, pool = 1, c47AppIdx
			}
			idx := pool[r.Intn(len(pool))]
			if ct, ok := g.creat[idx]; ok && r.Intn(4) == 0 {
				g.emit("cdel %d %d", idx, 1-ct) // the other creatable type: no row matches, nothing may be deleted
			} else if ok {
				g.emit("cdel %d %d", idx, ct)
				delete(g.creat, idx)
			} else if r.Intn(6) == 0 {
				g.emit("cdel %d %d", idx, kind) // absent: zero rows
			} else {
				g.emit("cins %d %d %s", idx, kind, g.addr())
				g.creat[idx] = kind
			}
		case 7, 8, 9, 10:
			k := g.key()
			if g.kvs[k] && r.Intn(3) == 0 {
				g.emit("kvdel %s", k)
				delete(g.kvs, k)
			} else {
				v := "_"
				switch r.Intn(5) {
				case 0, 1:
					v = "_" // a nil value is outside the writer's contract (nil = delete; NULL blobs were migrated away)
				default:
					v = c47Hex(r.Bytes(1 + r.Intn(6)))
				}
				g.emit("kvput %s %s", k, v)
				g.kvs[k] = true
			}
		case 11, 12, 13:
			a := g.addr()
			if onlThis[a] {
				continue
			}
			tok := g.onlTok()
			prev, had := g.onl[a]
			if tok == "0.0.0.0" && (!had || prev == "0.0.0.0") {
				continue // the ledger never writes an offline marker for an account that is not online
			}
			g.emit("oins %s %d %s", a, g.round, tok)
			g.onl[a] = tok
			onlThis[a] = true
		case 14:
			if r.Bool() {
				rnd := uint64(10 + r.Intn(40))
				for g.sp[rnd] {
					rnd++
				}
				g.sp[rnd] = true
				g.emit("spput %d:%d", rnd, g.small())
			} else {
				g.emit("spdel %d", 10+r.Intn(45))
			}
		case 15:
			switch r.Intn(6) {
			case 0:
				g.emit("cpu64 %s %d", []string{"catchpointLookback", "writingFirstStageInfo", "catchpointCatchupBlockRound"}[r.Intn(3)], g.small())
			case 1:
				g.emit("cpstr %s %s", []string{"lastCatchpoint", "catchpointCatchupLabel"}[r.Intn(2)], c47Hex(r.Bytes(r.Intn(4))))
			case 2:
				g.emit("cpfsput %d %d", r.Intn(12), g.small())
			case 3:
				g.emit("cpfsdel %d", r.Intn(12))
			case 4:
				rnd := uint64(r.Intn(12))
				if g.unf[rnd] {
					g.emit("cpunfdel %d", rnd)
					delete(g.unf, rnd)
				} else {
					g.emit("cpunfins %d %d", rnd, g.small())
					g.unf[rnd] = true
				}
			case 5:
				g.emit("cpstore %d %s %s %d", r.Intn(8), c47Hex(r.Bytes(r.Intn(3))), c47Hex(r.Bytes(r.Intn(3))), r.Intn(3))
			}
		}
	}
	// reads through the open transaction: they must see what the batch has written so far
	for i := r.Intn(4); i > 0; i-- {
		switch r.Intn(8) {
		case 0:
			g.emit("txalook %s", g.addr())
		case 1:
			g.emit("txkvget %s", g.key())
		case 2:
			g.emit("txolook %s %d", g.addr(), g.qr(3))
		case 3:
			g.emit("txohist %s", g.addr())
		case 4:
			g.emit("txrall %s", g.addr())
		case 5:
			g.emit("txkvcur %s _ %d 0 1 -", g.prefix(), 1+r.Intn(4))
		case 6:
			g.emit("txarowid %s", g.addr())
		case 7:
			g.emit("txoall 0")
		}
	}
	// per-round bookkeeping the ledger does in every commit
	if r.Intn(5) != 0 {
		k := 1
		if r.Intn(4) == 0 {
			k = 2
		}
		var toks []string
		for i := 0; i < k; i++ {
			toks = append(toks, fmt.Sprintf("%d.%d", g.small(), g.small()))
		}
		g.emit("rpput %d %s", g.rpNext, strings.Join(toks, ","))
		g.rpNext += uint64(k)
	}
	if r.Intn(3) == 0 {
		g.emit("rpprune %d", g.qr(3))
	}
	if r.Intn(5) != 0 {
		k := 1 + r.Intn(2)
		var toks []string
		for i := 0; i < k; i++ {
			toks = append(toks, strconv.FormatUint(g.small(), 10))
		}
		forget := uint64(0)
		if r.Intn(2) == 0 {
			forget = g.base + uint64(r.Intn(int(g.ttNext-g.base)+2))
		}
		g.emit("ttnew %d %d %s", g.ttNext, forget, strings.Join(toks, ","))
		g.ttNext += uint64(k)
	}
	odelAfter := -1
	if r.Intn(3) == 0 {
		// the ledger deletes in the same batch as the inserts (the deletion must see the rows the batch wrote);
		// half of the time the deletion gets its own batch
		if r.Bool() {
			g.emit("odel %d", g.qr(3))
		} else {
			odelAfter = int(g.qr(3))
		}
	}
	if r.Intn(3) == 0 {
		g.emit("totals %d %d.%d.%d.%d", r.Intn(2), g.small(), g.small(), g.small(), g.small())
	}
	g.emit("round %d", g.round)
	if r.Intn(12) == 0 {
		g.emit("abort")
		// the shadow is not rolled back: a case ends after an aborted batch
		return
	}
	g.emit("commit")
	if odelAfter >= 0 {
		g.emit("begin")
		g.emit("odel %d", odelAfter)
		g.emit("commit")
	}
}

func (g *c47gen) queries() {
	r := g.r
	n := 8 + r.Intn(14)
	for i := 0; i < n; i++ {
		switch r.Intn(30) {
		case 0:
			g.emit("alook %s", g.addr())
		case 1:
			a := g.addr()
			kind, pool := 0, c47AssetIdx
			if r.Bool() {
				kind, pool = 1, c47AppIdx
			}
			g.emit("rlook %s %d %d", a, pool[r.Intn(len(pool))], kind)
		case 2:
			g.emit("rall %s", g.addr())
		case 3, 4:
			idx := []uint64{0, 1, 2, 3, 5, 255, 256, 65536, 4294967296}[r.Intn(9)]
			g.emit("rlim %s %d %d %d", g.addr(), idx, []int{0, 1, 2, 3, 100}[r.Intn(5)], r.Intn(2))
		case 5:
			kind, pool := 0, c47AssetIdx
			if r.Bool() {
				kind, pool = 1, c47AppIdx
			}
			g.emit("clook %d %d", pool[r.Intn(len(pool))], kind)
		case 6, 7:
			g.emit("kvget %s", g.key())
		case 8, 9:
			// the caller only asks the store while it still needs keys: maxKeyNum > number of keys it already holds
			pre, have := "-", 0
			if r.Intn(3) == 0 {
				var es []string
				seen := map[string]bool{}
				for j := 0; j < 1+r.Intn(3); j++ {
					k := g.key()
					if seen[k] {
						continue
					}
					seen[k] = true
					b := r.Intn(2)
					have += b
					es = append(es, fmt.Sprintf("%s:%d", k, b))
				}
				pre = strings.Join(es, ",")
			}
			g.emit("kvpfx %s %d %s", g.prefix(), have+[]int{1, 1, 2, 3, 5, 100}[r.Intn(6)], pre)
		case 10, 11, 12, 13:
			cursor := "_"
			switch r.Intn(4) {
			case 0:
				cursor = g.key()
			case 1:
				cursor = g.prefix()
			case 2:
				cursor = c47Hex(append([]byte("xc-"), c47Unhex(g.key())...))
			}
			excl := "-"
			if r.Intn(3) == 0 {
				var ks []string
				for j := 0; j < 1+r.Intn(3); j++ {
					if r.Intn(4) == 0 {
						ks = append(ks, c47Hex(append([]byte("xc-"), c47Unhex(g.key())...)))
					} else {
						ks = append(ks, g.key())
					}
				}
				excl = strings.Join(ks, ",")
			}
			maxBytes := 0
			if r.Intn(3) == 0 {
				maxBytes = 1 + r.Intn(30)
			}
			g.emit("kvcur %s %s %d %d %d %s", g.prefix(), cursor, []int{0, 1, 2, 3, 5, 100}[r.Intn(6)], maxBytes, r.Intn(2), excl)
		case 14, 15:
			g.emit("olook %s %d", g.addr(), g.qr(3))
		case 16:
			g.emit("ohist %s", g.addr())
		case 17:
			g.emit("odata %s", g.addr())
		case 18, 19, 20:
			g.emit("otop %d %d %d", g.qr(2), []int{0, 0, 1, 2, 3}[r.Intn(5)], []int{0, 1, 2, 3, 5, 100}[r.Intn(6)])
		case 21:
			g.emit("oexp %d %d", g.qr(2), g.base+uint64(r.Intn(int(g.round-g.base)+14)))
		case 22:
			g.emit("oall %d", []int{0, 1, 2, 3, 100}[r.Intn(5)])
		case 23:
			if r.Bool() {
				g.emit("rplook %d", g.qr(3))
			} else {
				g.emit("rpall")
			}
		case 24:
			if r.Intn(4) == 0 {
				g.emit("ttload %d", g.qr(3))
			} else {
				g.emit("ttload %d", g.ttNext-1)
			}
		case 25:
			switch r.Intn(4) {
			case 0:
				g.emit("around")
			case 1:
				g.emit("totalsget %d", r.Intn(2))
			case 2:
				g.emit("arowid %s", g.addr())
			case 3:
				g.emit("rdata %s %d", g.addr(), c47AssetIdx[r.Intn(4)])
			}
		case 26:
			if r.Bool() {
				g.emit("splook %d", 10+r.Intn(45))
			} else {
				g.emit("spall")
			}
		case 27:
			g.emit("count %s", []string{"accounts", "resources", "kvs", "online", "roundparams"}[r.Intn(5)])
		case 28, 29:
			switch r.Intn(7) {
			case 0:
				g.emit("cpu64get %s", []string{"catchpointLookback", "writingFirstStageInfo", "catchpointCatchupBlockRound"}[r.Intn(3)])
			case 1:
				g.emit("cpstrget %s", []string{"lastCatchpoint", "catchpointCatchupLabel"}[r.Intn(2)])
			case 2:
				g.emit("cpfsget %d", r.Intn(12))
			case 3:
				g.emit("cpfsold %d", r.Intn(12))
			case 4:
				g.emit("cpunfall")
			case 5:
				g.emit("cpget %d", r.Intn(8))
			case 6:
				g.emit("cpoldest %d %d", r.Intn(4), r.Intn(3))
			}
		}
	}
}

func (g *c47gen) prefix() string {
	r := g.r
	switch r.Intn(8) {
	case 0:
		return c47Hex([]byte("bx:"))
	case 1:
		return c47Hex([]byte("bx:a"))
	case 2:
		return c47Hex([]byte{'b', 'x', ':', 0xff})
	case 3:
		return c47Hex([]byte("b"))
	case 4:
		return c47Hex([]byte{'b', 'x', ':', 0})
	case 5:
		k := c47Unhex(g.key())
		if len(k) > 1 {
			return c47Hex(k[:1+r.Intn(len(k)-1)])
		}
		return c47Hex(k)
	case 6:
		if r.Bool() {
			// the generic-KV driver's own name space for app kv pairs ("xc-" + key): no stored key starts like this
			k := c47Unhex(g.key())
			return c47Hex(append([]byte("xc-"), k[:r.Intn(len(k)+1)]...))
		}
		return c47Hex([]byte("by"))
	}
	return g.key()
}

// pagedScan walks one prefix page by page with the cursor protocol of the REST layer (cursor = last key returned);
// the check re-assembles the pages and compares them with the one-shot listing.
func (g *c47gen) pagedScan() {
	// the cursor of the next page depends on the answer, so this op is executed by a composite read
	g.emit("kvscan %s %d %d", g.prefix(), 1+g.r.Intn(3), g.r.Intn(2))
}

// c47Prologue is a fixed first case: directed probes whose answers tell the check which of the known deviations
// of the generic-KV driver the tree under test has (checks/C47.py, QUIRKS).
var c47Prologue = []string{
	"reset mem",
	"spall", "totalsget 1", "ohist 0003", "count accounts", "cpu64get catchpointLookback", "rlim 0001 0 10 0",
	"begin", "ains 0001 7.1.0", "rins 0001 3 a.5.0.0.1", "oins 0001 1 5.0.9.1", "kvput 62783a61 _", "kvput 62783a62 _", "kvput 62783a63 01", "round 1", "commit",
	"begin", "oins 0001 3 6.0.9.1", "oins 0002 3 900.0.9.1", "round 3", "commit",
	"begin", "oins 0001 5 7.0.9.1", "oins 0100 5 2.0.9.1", "round 5", "commit",
	"count accounts", "rlim 0001 0 10 0", "oall 0",
	"kvpfx 62783a 10", "kvpfx 62783a 10 62783a61:0,62783a70:1", "kvcur 62783a _ 2 0 1 -", "kvpfx 78632d62783a 10", "kvcur 78632d62783a _ 10 0 1 -",
	"otop 5 0 1", "otop 5 1 1", "otop 5 0 3",
	"begin", "odel 5", "commit",
	"ohist 0001", "olook 0001 4",
	"begin", "oins 0002 6 0.0.0.0", "round 6", "commit",
	"begin", "odel 6", "commit",
	"ohist 0002",
	// second part: LookupOnline at a round whose low byte is 0xff, a read through the open batch, DeleteCreatable with the other type
	"begin", "oins 0003 200 4.0.9.1", "cins 7 0 0001", "txolook 0003 200", "round 7", "commit",
	"olook 0003 255", "olook 0003 511",
	"begin", "cdel 7 1", "commit", "clook 7 0",
}

func c47Generate(seed uint64, cases int) []string {
	g := &c47gen{r: vh.NewRng(seed)}
	g.ops = append(g.ops, c47Prologue...)
	for c := 0; c < cases; c++ {
		g.newCase()
		nb := 2 + g.r.Intn(7)
		for b := 0; b < nb; b++ {
			g.writeBatch()
			if g.ops[len(g.ops)-1] == "abort" {
				g.queries()
				break
			}
			g.queries()
			if g.r.Intn(3) == 0 {
				g.pagedScan()
			}
		}
	}
	return g.ops
}

// kvscan <prefix> <limit> <incl>: pages through the prefix with LookupKeysByPrefixCursor until more=false (at most 64 pages)
func (b *c47be) kvscan(tx c47reader, f []string) string {
	ar, err := tx.MakeAccountsOptimizedReader()
	if err != nil {
		return c47Err(err)
	}
	defer ar.Close()
	prefix, limit, incl := string(c47Unhex(f[1])), vh.U(f[2]), f[3] == "1"
	cursor := ""
	var pages []string
	for i := 0; i < 64; i++ {
		rnd, kvs, more, err := ar.LookupKeysByPrefixCursor(prefix, cursor, limit, 0, incl, nil)
		if err != nil {
			return c47Err(err)
		}
		var it []string
		for _, kv := range kvs {
			it = append(it, c47Hex([]byte(kv.Key))+"="+c47Hex(kv.Value))
		}
		pages = append(pages, fmt.Sprintf("%d%s", rnd, c47List(it)))
		if !more || len(kvs) == 0 {
			return strings.Join(pages, ";") + " end"
		}
		cursor = kvs[len(kvs)-1].Key
	}
	return strings.Join(pages, ";") + " unfinished"
}

func TestVerifC47(t *testing.T) {
	t.Chdir(t.TempDir())
	out := vh.Open("c47")
	defer out.Close()
	w := &c47world{t: t}
	defer w.close()
	ops, replay := vh.ReplayOps()
	if !replay {
		ops = c47Generate(vh.Seed(), vh.Budget(40, 1200))
	}
	for _, op := range ops {
		out.Emit(op, w.exec(op))
	}
}
