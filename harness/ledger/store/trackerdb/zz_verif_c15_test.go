//go:build verif

package trackerdb

// C15 correspondence harness (leaf side): runs the REAL AccountHashBuilderV6 / ResourcesHashBuilderV6 /
// KvHashBuilderV6 (and apps.MakeBoxKey) on generated accounts, resources and boxes and prints the
// 36-byte trie leaves in hex.  The Lean driver `c15` recomputes the same leaves from the model
// (lean/AlgoVerif/Model/CatchpointHash.lean) with SHA-512/256 written in Lean; they must be byte-identical.
//
// Op grammar (fields space separated, bytes in hex, "_" = empty byte string, numbers decimal):
//   acct  <addr32> <updateRound> <rewardsBase> <enc>
//   res   <isAsset 0|1> <isApp 0|1> <addr32> <cidx> <updateRound> <enc>     → leaf | err
//   kv    <key> <value>
//   boxkv <app> <name> <value>                                            → <key> <leaf>
//   sw    <acct|asset|app|kv> <seed> <len> <mut|->                         → leaf
// `sw` (length sweep): the builder's arguments are expanded from (seed, len) by verifC15SweepInput — a
// 32-byte address, a creatable index, an update round and `len` encoded bytes; `mut` = position of ONE
// encoded byte that is xor-ed with 0x5a ("-" = none).  Same expansion in lean/AlgoVerif/Driver/C15.lean.
// `enc` is the encoded record handed to the builder.  When it decodes to a record whose relevant fields
// (UpdateRound/RewardsBase, resp. IsAsset/IsApp) agree with the op line the decoded record is the one passed
// to the builder (the callers' situation); otherwise a record carrying only those fields is passed (the
// builders read nothing else).
import (
	"encoding/hex"
	"fmt"
	"strings"
	"testing"

	"github.com/algorand/avm-abi/apps"
	"github.com/algorand/go-algorand/data/basics"
	"github.com/algorand/go-algorand/protocol"
	"github.com/algorand/go-algorand/zz_verif_tools/vh"
)

func verifC15Hex(b []byte) string {
	if len(b) == 0 {
		return "_"
	}
	return hex.EncodeToString(b)
}

func verifC15Unhex(s string) []byte {
	if s == "_" {
		return []byte{}
	}
	b, err := hex.DecodeString(s)
	if err != nil {
		panic("bad hex " + s)
	}
	return b
}

func verifC15Addr(s string) basics.Address {
	b := verifC15Unhex(s)
	if len(b) != 32 {
		panic("address must be 32 bytes")
	}
	var a basics.Address
	copy(a[:], b)
	return a
}

func verifC15Exec(op string) string {
	f := strings.Fields(op)
	return vh.Catch(func() string {
		switch f[0] {
		case "acct":
			addr, ur, rb, enc := verifC15Addr(f[1]), vh.U(f[2]), vh.U(f[3]), verifC15Unhex(f[4])
			var ad BaseAccountData
			if err := protocol.Decode(enc, &ad); err != nil || ad.UpdateRound != ur || ad.RewardsBase != rb {
				ad = BaseAccountData{UpdateRound: ur, RewardsBase: rb}
			}
			return verifC15Hex(AccountHashBuilderV6(addr, &ad, enc))
		case "res":
			isAsset, isApp := f[1] == "1", f[2] == "1"
			addr, cidx, ur, enc := verifC15Addr(f[3]), vh.U(f[4]), vh.U(f[5]), verifC15Unhex(f[6])
			var rd ResourcesData
			if err := protocol.Decode(enc, &rd); err != nil || rd.IsAsset() != isAsset || rd.IsApp() != isApp {
				rd = ResourcesData{}
				if isAsset {
					rd.ResourceFlags |= ResourceFlagsEmptyAsset
				}
				if isApp {
					rd.ResourceFlags |= ResourceFlagsEmptyApp
				}
				if rd.IsAsset() != isAsset || rd.IsApp() != isApp {
					return "bad-op"
				}
			}
			h, err := ResourcesHashBuilderV6(&rd, addr, basics.CreatableIndex(cidx), ur, enc)
			if err != nil {
				return "err"
			}
			return verifC15Hex(h)
		case "kv":
			return verifC15Hex(KvHashBuilderV6(string(verifC15Unhex(f[1])), verifC15Unhex(f[2])))
		case "sw":
			seed, n := vh.U(f[2]), int(vh.U(f[3]))
			addr, cidx, ur, enc, ok := verifC15SweepInput(seed, n, f[4])
			if !ok {
				return "bad-op"
			}
			switch f[1] {
			case "acct":
				ad := BaseAccountData{UpdateRound: ur}
				return verifC15Hex(AccountHashBuilderV6(addr, &ad, enc))
			case "asset", "app":
				rd := ResourcesData{ResourceFlags: ResourceFlagsEmptyAsset}
				if f[1] == "app" {
					rd.ResourceFlags = ResourceFlagsEmptyApp
				}
				h, err := ResourcesHashBuilderV6(&rd, addr, basics.CreatableIndex(cidx), ur, enc)
				if err != nil {
					return "err"
				}
				return verifC15Hex(h)
			case "kv":
				return verifC15Hex(KvHashBuilderV6(apps.MakeBoxKey(seed, "swp!"), enc))
			}
			return "bad-op"
		case "boxkv":
			key := apps.MakeBoxKey(vh.U(f[1]), string(verifC15Unhex(f[2])))
			return verifC15Hex([]byte(key)) + " " + verifC15Hex(KvHashBuilderV6(key, verifC15Unhex(f[3])))
		}
		return "bad-op"
	})
}

// ---------------------------------------------------------------- generators

func verifC15U64(r *vh.Rng) uint64 {
	switch r.Intn(8) {
	case 0:
		return 0
	case 1:
		return uint64(r.Intn(4))
	case 2: // around the 32-bit truncation of the affinity prefix
		return (uint64(1) << 32) + uint64(r.Intn(5)) - 2
	case 3:
		return uint64(r.Intn(1 << 24))
	case 4: // same low 32 bits, different high bits
		return uint64(r.Intn(1000)) | uint64(r.Intn(1000))<<32
	}
	return r.Biased64()
}

func verifC15RandAddr(r *vh.Rng) basics.Address {
	var a basics.Address
	switch r.Intn(6) {
	case 0: // zero address
	case 1:
		a[31] = byte(r.Intn(3))
	case 2:
		a[0] = byte(1 + r.Intn(3))
	default:
		copy(a[:], r.Bytes(32))
	}
	return a
}

func verifC15RandAccount(r *vh.Rng) BaseAccountData {
	var ad BaseAccountData
	if r.Chance(70) {
		ad.UpdateRound = verifC15U64(r)
	}
	if r.Chance(70) {
		ad.RewardsBase = verifC15U64(r)
	}
	ad.Status = basics.Status(r.Intn(3))
	if r.Chance(80) {
		ad.MicroAlgos.Raw = r.Biased64()
	}
	if r.Chance(30) {
		ad.RewardedMicroAlgos.Raw = r.Biased64()
	}
	if r.Chance(20) {
		ad.AuthAddr = verifC15RandAddr(r)
	}
	if r.Chance(30) {
		ad.TotalAppSchemaNumUint = uint64(r.Intn(70))
		ad.TotalAppSchemaNumByteSlice = uint64(r.Intn(70))
		ad.TotalExtraAppPages = uint32(r.Intn(4))
	}
	if r.Chance(40) {
		ad.TotalAssetParams = uint64(r.Intn(5))
		ad.TotalAssets = uint64(r.Intn(1200))
		ad.TotalAppParams = uint64(r.Intn(5))
		ad.TotalAppLocalStates = uint64(r.Intn(5))
	}
	if r.Chance(40) {
		ad.TotalBoxes = uint64(r.Intn(4))
		ad.TotalBoxBytes = uint64(r.Intn(300))
	}
	ad.IncentiveEligible = r.Chance(10)
	if r.Chance(20) {
		ad.LastProposed = basics.Round(r.Intn(1 << 20))
		ad.LastHeartbeat = basics.Round(r.Intn(1 << 20))
	}
	if ad.Status == basics.Online || r.Chance(10) {
		copy(ad.VoteID[:], r.Bytes(32))
		copy(ad.SelectionID[:], r.Bytes(32))
		ad.VoteFirstValid = basics.Round(r.Intn(1000))
		ad.VoteLastValid = basics.Round(1000 + r.Intn(3000000))
		ad.VoteKeyDilution = uint64(r.Intn(10001))
		if r.Bool() {
			copy(ad.StateProofID[:], r.Bytes(64))
		}
	}
	return ad
}

func verifC15RandTKV(r *vh.Rng) basics.TealKeyValue {
	n := r.Intn(4)
	if n == 0 {
		return nil
	}
	kv := basics.TealKeyValue{}
	for i := 0; i < n; i++ {
		k := string(r.Bytes(1 + r.Intn(6)))
		if r.Bool() {
			kv[k] = basics.TealValue{Type: basics.TealUintType, Uint: r.Biased64()}
		} else {
			kv[k] = basics.TealValue{Type: basics.TealBytesType, Bytes: string(r.Bytes(r.Intn(9)))}
		}
	}
	return kv
}

// verifC15RandResource returns a real resource record: asset holding / asset params / app local state /
// app params (and combinations the ledger produces: creator that also holds / opted in).
func verifC15RandResource(r *vh.Rng) ResourcesData {
	var rd ResourcesData
	rd.UpdateRound = verifC15U64(r)
	shape := r.Intn(8)
	owning, holding := shape&1 == 1 || shape == 6, shape&2 == 2
	if shape < 4 || shape == 6 { // asset
		if holding {
			rd.SetAssetHolding(basics.AssetHolding{Amount: r.Biased64() * uint64(r.Intn(2)), Frozen: r.Chance(20)})
		}
		if owning {
			p := basics.AssetParams{Total: r.Biased64(), Decimals: uint32(r.Intn(20)), DefaultFrozen: r.Chance(20),
				UnitName: string(r.Bytes(r.Intn(9))), AssetName: string(r.Bytes(r.Intn(20))), URL: string(r.Bytes(r.Intn(12)))}
			if r.Bool() {
				copy(p.MetadataHash[:], r.Bytes(32))
			}
			p.Manager, p.Reserve = verifC15RandAddr(r), verifC15RandAddr(r)
			if r.Bool() {
				p.Freeze, p.Clawback = verifC15RandAddr(r), verifC15RandAddr(r)
			}
			rd.SetAssetParams(p, holding)
		}
		if !owning && !holding {
			rd.SetAssetHolding(basics.AssetHolding{}) // opted in, zero balance: the "empty asset" flag case
		}
	} else { // app
		if holding {
			rd.SetAppLocalState(basics.AppLocalState{
				Schema:   basics.StateSchema{NumUint: uint64(r.Intn(17)), NumByteSlice: uint64(r.Intn(17))},
				KeyValue: verifC15RandTKV(r)})
		}
		if owning {
			p := basics.AppParams{ApprovalProgram: r.Bytes(1 + r.Intn(30)), ClearStateProgram: r.Bytes(1 + r.Intn(10)),
				GlobalState: verifC15RandTKV(r), ExtraProgramPages: uint32(r.Intn(4))}
			p.LocalStateSchema = basics.StateSchema{NumUint: uint64(r.Intn(17)), NumByteSlice: uint64(r.Intn(17))}
			p.GlobalStateSchema = basics.StateSchema{NumUint: uint64(r.Intn(65)), NumByteSlice: uint64(r.Intn(65))}
			rd.SetAppParams(p, holding)
		}
		if !owning && !holding {
			rd.SetAppLocalState(basics.AppLocalState{}) // opted in, nothing stored: the "empty app" flag case
		}
	}
	return rd
}

func verifC15B(b bool) string {
	if b {
		return "1"
	}
	return "0"
}

func verifC15AcctOp(addr basics.Address, ur, rb uint64, enc []byte) string {
	return fmt.Sprintf("acct %s %d %d %s", verifC15Hex(addr[:]), ur, rb, verifC15Hex(enc))
}

func verifC15ResOp(isAsset, isApp bool, addr basics.Address, cidx, ur uint64, enc []byte) string {
	return fmt.Sprintf("res %s %s %s %d %d %s", verifC15B(isAsset), verifC15B(isApp), verifC15Hex(addr[:]), cidx, ur, verifC15Hex(enc))
}

func verifC15Cidx(r *vh.Rng) uint64 {
	switch r.Intn(6) {
	case 0:
		return uint64(r.Intn(3))
	case 1:
		return []uint64{255, 256, 65535, 65536, 1<<32 - 1, 1 << 32, 1<<56 - 1, 1 << 56, ^uint64(0)}[r.Intn(9)]
	case 2: // byte-order sensitive: distinct bytes in every position
		return 0x0102030405060708 + uint64(r.Intn(3))
	}
	return 1000 + uint64(r.Intn(3000000000))
}

func verifC15Flip(r *vh.Rng, b []byte) []byte {
	c := append([]byte{}, b...)
	if len(c) == 0 {
		return []byte{byte(r.Intn(256))}
	}
	c[r.Intn(len(c))] ^= byte(1 << uint(r.Intn(8)))
	return c
}

// verifC15SweepInput expands a sweep op: addr[j] = seed*7+13j+1, cidx = seed*65536+len, updateRound = seed%1000+1,
// enc[i] = seed + 131 i + 17 (i/256)  (all mod 256); mut = index of the byte xor-ed with 0x5a.
func verifC15SweepInput(seed uint64, n int, mut string) (addr basics.Address, cidx, ur uint64, enc []byte, ok bool) {
	if seed >= 1<<31 || n < 0 || n > 1<<20 {
		return
	}
	for j := range addr {
		addr[j] = byte(seed*7 + uint64(j)*13 + 1)
	}
	cidx, ur = seed*65536+uint64(n), seed%1000+1
	enc = make([]byte, n)
	for i := range enc {
		enc[i] = byte(seed + 131*uint64(i) + 17*uint64(i/256))
	}
	if mut != "-" {
		m := vh.U(mut)
		if m >= uint64(n) {
			return
		}
		enc[m] ^= 0x5a
	}
	ok = true
	return
}

// verifC15SweepSizes: buffer-size neighbourhoods (powers of two and the common scratch sizes, ±41 = header of
// the resource pre-image + 1).
func verifC15SweepCenters() []int {
	return []int{32, 64, 128, 256, 512, 1024, 2048, 4096}
}

// verifC15SweepGenerate: every encoded length 0..4200 through every builder (base + mutations in the tail),
// and EVERY position of the last 48 bytes (plus a few positions elsewhere) around the buffer sizes.
func verifC15SweepGenerate() []string {
	var ops []string
	seed := vh.Seed()%1000 + 1
	add := func(kind string, n int, mut int) {
		m := "-"
		if mut >= 0 {
			m = fmt.Sprint(mut)
		}
		ops = append(ops, fmt.Sprintf("sw %s %d %d %s", kind, seed, n, m))
	}
	tail := 8
	if vh.Thorough() {
		tail = 64
	}
	for n := 0; n <= 4200; n++ {
		rk := []string{"asset", "app"}[n%2]
		add(rk, n, -1)
		add("acct", n, -1)
		add("kv", n, -1)
		if n == 0 {
			continue
		}
		add(rk, n, n-1)
		add("acct", n, n-1)
		add("kv", n, n-1)
		for d := 2; d <= tail && d <= n; d++ { // further tail positions (all of the last `tail` bytes in thorough)
			if vh.Thorough() || d == 2+n%47 || d == 40 || d == 41 {
				add(rk, n, n-d)
			}
		}
		if n > 100 {
			add(rk, n, (n*7)%(n-64)) // somewhere in the body
			add(rk, n, 0)
		}
	}
	for _, c := range verifC15SweepCenters() {
		for n := c - 41; n <= c+41; n++ {
			if n <= 0 {
				continue
			}
			for d := 1; d <= 48 && d <= n; d++ {
				add("asset", n, n-d)
				add("app", n, n-d)
				if d <= 4 || d%8 == 0 {
					add("acct", n, n-d)
					add("kv", n, n-d)
				}
			}
		}
	}
	return ops
}

// verifC15BigApp: a real application-params row (approval program + global state) whose msgpack encoding is
// about `target` bytes; `owner` is the value of the lexicographically last global key.
func verifC15BigApp(r *vh.Rng, target int, owner []byte, ur uint64, nbs uint64) ResourcesData {
	p := basics.AppParams{ClearStateProgram: []byte{0x0a, 0x81, 0x01},
		GlobalState: basics.TealKeyValue{
			"counter": basics.TealValue{Type: basics.TealUintType, Uint: 7},
			"owner":   basics.TealValue{Type: basics.TealBytesType, Bytes: string(owner)},
		}}
	p.GlobalStateSchema = basics.StateSchema{NumUint: 1, NumByteSlice: nbs}
	plen := target - 100 - len(owner)
	if plen < 1 {
		plen = 1
	}
	p.ApprovalProgram = make([]byte, plen)
	for i := range p.ApprovalProgram {
		p.ApprovalProgram[i] = byte(0x81 + i%7)
	}
	var rd ResourcesData
	rd.SetAppParams(p, false)
	rd.UpdateRound = ur
	return rd
}

// verifC15BigGenerate: real ~1 KB / ~4 KB application rows, each with siblings that differ only near the END of
// the encoding (tail of the last global-state value, a schema count, the update round).
func verifC15BigGenerate(r *vh.Rng) []string {
	var ops []string
	targets := []int{500, 900, 960, 984, 985, 990, 1000, 1010, 1020, 1023, 1024, 1025, 1040, 1064, 1100, 2040, 2048, 2090, 4000, 4090, 4096, 4140, 4200}
	for i := 0; i < vh.Budget(12, 300); i++ {
		targets = append(targets, 880+r.Intn(240), 3950+r.Intn(300), 400+r.Intn(4000))
	}
	for _, t := range targets {
		owner := r.Bytes(32)
		ur := 1 + uint64(r.Intn(1<<20))
		addr, cidx := verifC15RandAddr(r), verifC15Cidx(r)
		emit := func(rd ResourcesData) {
			ops = append(ops, verifC15ResOp(rd.IsAsset(), rd.IsApp(), addr, cidx, rd.UpdateRound, protocol.Encode(&rd)))
		}
		emit(verifC15BigApp(r, t, owner, ur, 1))
		o2 := append([]byte{}, owner...)
		o2[31] ^= 0x01 // last byte of the last global value
		emit(verifC15BigApp(r, t, o2, ur, 1))
		o3 := append([]byte{}, owner...)
		for j := 16; j < 32; j++ {
			o3[j] = 0xee
		}
		emit(verifC15BigApp(r, t, o3, ur, 1))
		emit(verifC15BigApp(r, t, owner, ur, 2))         // schema count (encoded after the state)
		emit(verifC15BigApp(r, t, owner, ur+(1<<32), 1)) // update round, same low 32 bits of the affinity
	}
	return ops
}

func verifC15Generate() []string {
	r := vh.NewRng(vh.Seed())
	var ops []string
	add := func(s string) { ops = append(ops, s) }

	// the design-time witness and its neighbours, first
	for _, app := range []uint64{77, 0, 1 << 40} {
		add(fmt.Sprintf("boxkv %d %s %s", app, verifC15Hex([]byte("ab")), verifC15Hex([]byte("c"))))
		add(fmt.Sprintf("boxkv %d %s %s", app, verifC15Hex([]byte("a")), verifC15Hex([]byte("bc"))))
		add(fmt.Sprintf("boxkv %d %s %s", app, verifC15Hex([]byte("abc")), "_"))
		add(fmt.Sprintf("boxkv %d %s %s", app, "_", verifC15Hex([]byte("abc"))))
	}

	ops = append(ops, verifC15BigGenerate(r)...)
	ops = append(ops, verifC15SweepGenerate()...)

	n := vh.Budget(1500, 60000)
	for i := 0; i < n; i++ {
		switch r.Intn(10) {
		case 0, 1, 2: // real account record + siblings differing in exactly one component
			ad := verifC15RandAccount(r)
			enc := protocol.Encode(&ad)
			addr := verifC15RandAddr(r)
			add(verifC15AcctOp(addr, ad.UpdateRound, ad.RewardsBase, enc))
			if r.Chance(50) { // other address, same record
				add(verifC15AcctOp(verifC15RandAddr(r), ad.UpdateRound, ad.RewardsBase, enc))
				a2 := addr
				a2[r.Intn(32)] ^= byte(1 << uint(r.Intn(8)))
				add(verifC15AcctOp(a2, ad.UpdateRound, ad.RewardsBase, enc))
			}
			if r.Chance(50) { // same address, one field changed
				ad2 := ad
				switch r.Intn(4) {
				case 0:
					ad2.MicroAlgos.Raw++
				case 1:
					ad2.TotalBoxBytes++
				case 2:
					ad2.UpdateRound++
				case 3:
					ad2.RewardsBase += 1 << 32 // same low 32 bits of the affinity
				}
				add(verifC15AcctOp(addr, ad2.UpdateRound, ad2.RewardsBase, protocol.Encode(&ad2)))
			}
		case 3, 4, 5: // real resource record + siblings
			rd := verifC15RandResource(r)
			enc := protocol.Encode(&rd)
			addr, cidx := verifC15RandAddr(r), verifC15Cidx(r)
			add(verifC15ResOp(rd.IsAsset(), rd.IsApp(), addr, cidx, rd.UpdateRound, enc))
			if r.Chance(60) { // other creatable index, same everything else (incl. byte-swapped index)
				add(verifC15ResOp(rd.IsAsset(), rd.IsApp(), addr, cidx+1, rd.UpdateRound, enc))
				sw := cidx<<56 | cidx>>56 | cidx&0x00ffffffffffff00
				add(verifC15ResOp(rd.IsAsset(), rd.IsApp(), addr, sw, rd.UpdateRound, enc))
			}
			if r.Chance(40) { // other address
				add(verifC15ResOp(rd.IsAsset(), rd.IsApp(), verifC15RandAddr(r), cidx, rd.UpdateRound, enc))
			}
			if r.Chance(40) { // one field changed
				rd2 := rd
				if rd2.IsAsset() {
					rd2.Amount++
				} else {
					rd2.SchemaNumUint++
				}
				add(verifC15ResOp(rd2.IsAsset(), rd2.IsApp(), addr, cidx, rd2.UpdateRound, protocol.Encode(&rd2)))
			}
		case 6, 7: // boxes of one app: a box and its key/value boundary shifts
			app := []uint64{0, 1, 77, 1 << 32, ^uint64(0), uint64(r.Intn(100000))}[r.Intn(6)]
			name := r.Bytes(r.Intn(9))
			val := r.Bytes(r.Intn(12))
			if r.Chance(30) { // low-entropy bytes: more accidental overlaps
				for j := range name {
					name[j] = byte('a' + r.Intn(2))
				}
				for j := range val {
					val[j] = byte('a' + r.Intn(2))
				}
			}
			add(fmt.Sprintf("boxkv %d %s %s", app, verifC15Hex(name), verifC15Hex(val)))
			if len(val) > 0 { // first value byte moved into the name
				add(fmt.Sprintf("boxkv %d %s %s", app, verifC15Hex(append(append([]byte{}, name...), val[0])), verifC15Hex(val[1:])))
			}
			if len(name) > 0 { // last name byte moved into the value
				add(fmt.Sprintf("boxkv %d %s %s", app, verifC15Hex(name[:len(name)-1]), verifC15Hex(append([]byte{name[len(name)-1]}, val...))))
			}
			if r.Chance(50) { // same name, other app; same box, value changed
				add(fmt.Sprintf("boxkv %d %s %s", app+1, verifC15Hex(name), verifC15Hex(val)))
				add(fmt.Sprintf("boxkv %d %s %s", app, verifC15Hex(name), verifC15Hex(verifC15Flip(r, val))))
			}
			if r.Chance(30) { // the same through the raw kv builder
				key := apps.MakeBoxKey(app, string(name))
				add(fmt.Sprintf("kv %s %s", verifC15Hex([]byte(key)), verifC15Hex(val)))
			}
		case 8: // cross-kind adjacency: ONE pre-image addr ‖ le64(cidx) ‖ e presented as account, asset, app and kv
			addr, cidx := verifC15RandAddr(r), verifC15Cidx(r)
			e := r.Bytes(r.Intn(12))
			ur := uint64(0)
			if r.Bool() {
				ur = verifC15U64(r)
			}
			le := make([]byte, 8)
			for j := 0; j < 8; j++ {
				le[j] = byte(cidx >> (8 * uint(j)))
			}
			tail := append(le, e...)
			add(verifC15AcctOp(addr, ur, 0, tail))
			add(verifC15ResOp(true, false, addr, cidx, ur, e))
			add(verifC15ResOp(false, true, addr, cidx, ur, e))
			add(verifC15ResOp(true, true, addr, cidx, ur, e))
			add(fmt.Sprintf("kv %s %s", verifC15Hex(addr[:]), verifC15Hex(tail)))
			add(fmt.Sprintf("kv %s %s", verifC15Hex(append(addr[:], le...)), verifC15Hex(e)))
			if r.Chance(30) {
				add(verifC15ResOp(false, false, addr, cidx, ur, e)) // neither asset nor app: the error return
			}
		case 9: // malformed / arbitrary bytes
			addr := verifC15RandAddr(r)
			enc := r.Bytes(r.Intn(40))
			add(verifC15AcctOp(addr, verifC15U64(r), verifC15U64(r), enc))
			add(verifC15ResOp(r.Bool(), r.Bool(), addr, verifC15Cidx(r), verifC15U64(r), enc))
			add(fmt.Sprintf("kv %s %s", verifC15Hex(r.Bytes(r.Intn(20))), verifC15Hex(r.Bytes(r.Intn(20)))))
		}
	}
	return ops
}

func TestVerifC15(t *testing.T) {
	ops, replay := vh.ReplayOps()
	if !replay {
		ops = verifC15Generate()
	}
	out := vh.Open("c15")
	defer out.Close()
	for _, op := range ops {
		out.Emit(op, verifC15Exec(op))
	}
	t.Logf("c15: %d ops", out.N)
}
