//go:build verif

package ledger

// C08 / C10 harness ("au"): delta-level block histories (HistGen) pushed through the REAL trackers
// (trackerRegistry.newBlock -> accountUpdates / onlineAccounts / txTail) of a mockLedgerForTracker, interleaved
// (SchedGen) with synchronous tracker commits of chosen prefixes (the real trackerRegistry.commitRound driven as
// the package's commitSync helper does), reloads (trackers closed, re-created, loadFromDisk + replay from the block
// store), cache evictions (the tail of newBlockImpl: flushPendingWrites + prune with a small size) and flushCaches.
// After every step a batch of REAL queries (LookupWithoutRewards / LookupResource / LookupKv / GetCreatorForRound /
// lookupLatest) and REAL page calls / page iterations (LookupAssetResources / LookupApplicationResources /
// LookupKvPairsByPrefix) is executed and canonicalised.
//
// Op grammar (one op per line; a `reset` line starts a new case, the executor keeps state between lines):
//   reset hist=<h> var=<v> lb=<MaxAcctLookback> cache=<0|1> pa=<n> pr=<n> pk=<n> gen=<id>:<bal>,...
//   block v=<0|1> [| <item>]*       items:  A <id> <bal> <ta> <tap> <tal> <tapp>      account record (all 0 = closed)
//                                           S <id> <cidx> <P> <H>                     asset record, parts: - absent, x deleted, <n>
//                                           L <id> <cidx> <P> <H>                     app record (P params, H local state)
//                                           K <keyhex> <data> <old>                   kv mod, - = nil, _ = empty, else hex
//                                           C <cidx> <S|L> <0|1 created> <creator id>
//   commit r=<R>      commit as if blocks up to R were persisted (lookback = MaxAcctLookback)
//   reload | flush | evict a=<n> r=<n> k=<n>
//   q acct r=<rnd> <id> | q res r=<rnd> <id> <cidx> <S|L> | q kv r=<rnd> <keyhex> | q creator r=<rnd> <cidx> <S|L> | q latest <id>
//   page assets <id> gt=<n> limit=<n> | page apps <id> gt=<n> limit=<n> params=<0|1>
//   page kv r=<rnd> prefix=<hex> cursor=<hex|_> limit=<n> maxb=<n> vals=<0|1>
//   iter assets <id> limits=<n,n,..> | iter apps <id> limits=<..> params=<0|1>
//   iter kv r=<rnd> prefix=<hex> cursor=<hex|_> limits=<..> maxb=<n> vals=<0|1>
//   full kv r=<rnd> | full res <id>           reference listings obtained by point lookups over the whole universe
import (
	"encoding/hex"
	"errors"
	"fmt"
	"sort"
	"strconv"
	"strings"
	"testing"

	"github.com/stretchr/testify/require"

	"github.com/algorand/go-algorand/config"
	"github.com/algorand/go-algorand/data/basics"
	"github.com/algorand/go-algorand/data/bookkeeping"
	"github.com/algorand/go-algorand/ledger/ledgercore"
	"github.com/algorand/go-algorand/logging"
	"github.com/algorand/go-algorand/protocol"
	"github.com/algorand/go-algorand/zz_verif_tools/vh"
)

const (
	vauMaxAcct  = 12
	vauNAsset   = 5 // creatable ids 1..5 are assets
	vauNApp     = 3 // creatable ids 6..8 are apps
	vauMaxPages = 200
)

func vauAddr(id uint64) (a basics.Address) {
	a[0] = byte(id)
	a[1] = 0xa5
	a[31] = 0x5a
	return
}

func vauAddrID(a basics.Address) string {
	if a.IsZero() {
		return "-"
	}
	if a[1] == 0xa5 && a[31] == 0x5a {
		return strconv.Itoa(int(a[0]))
	}
	return "?" + hex.EncodeToString(a[:4])
}

func vauCtype(s string) basics.CreatableType {
	if s == "L" {
		return basics.AppCreatable
	}
	return basics.AssetCreatable
}

func vauIsApp(cidx uint64) bool { return cidx > vauNAsset }

func vauHexB(b []byte) string {
	if b == nil {
		return "-"
	}
	if len(b) == 0 {
		return "_"
	}
	return hex.EncodeToString(b)
}

func vauUnhexB(s string) []byte {
	if s == "-" {
		return nil
	}
	if s == "_" {
		return []byte{}
	}
	b, err := hex.DecodeString(s)
	if err != nil {
		panic("bad hex " + s)
	}
	return b
}

func vauKV(tok string) map[string]string {
	m := map[string]string{}
	for _, f := range strings.Fields(tok) {
		if i := strings.IndexByte(f, '='); i > 0 {
			m[f[:i]] = f[i+1:]
		}
	}
	return m
}

func vauErr(err error) string {
	var roe *RoundOffsetError
	var stale *StaleDatabaseRoundError
	var mism *MismatchingDatabaseRoundError
	switch {
	case errors.As(err, &roe):
		return "err before-db"
	case errors.As(err, &stale):
		return "err stale-db"
	case errors.As(err, &mism):
		return "err mismatch-db"
	case strings.Contains(err.Error(), "too high"):
		return "err too-high"
	case strings.Contains(err.Error(), "asked for an asset but got"), strings.Contains(err.Error(), "asked for an app but got"):
		return "err wrong-type"
	}
	return "err other " + err.Error()
}

type vauHarness struct {
	t     *testing.T
	ml    *mockLedgerForTracker
	au    *accountUpdates
	conf  config.Local
	cache bool
	pend  [3]int
	// universe of the case (for the reference listings)
	accts []uint64
	keys  map[string]bool
	// dead: an operation of this case panicked inside the trackers (possibly while holding their locks): the case is
	// abandoned — no further call into it, not even Close — until the next reset
	dead bool
}

var vauVersions = []protocol.ConsensusVersion{protocol.ConsensusCurrentVersion, protocol.ConsensusFuture}

func (h *vauHarness) closeCase() {
	if h.dead {
		h.ml, h.au, h.dead = nil, nil, false
		return
	}
	if h.ml != nil {
		h.ml.Close()
		h.ml = nil
		h.au = nil
	}
}

// tinyCaches replaces the LRU caches (allocated by initializeFromDisk with the production buffer sizes) by empty
// ones with tiny pending-write buffers; with cache=0 the ledger runs with DisableLedgerLRUCache.
func (h *vauHarness) tinyCaches() {
	if !h.cache {
		return
	}
	au := h.au
	au.accountsMu.Lock()
	defer au.accountsMu.Unlock()
	au.baseAccounts = lruAccounts{}
	au.baseAccounts.init(au.log, h.pend[0], 1<<30)
	au.baseResources = lruResources{}
	au.baseResources.init(au.log, h.pend[1], 1<<30)
	au.baseKVs = lruKV{}
	au.baseKVs.init(au.log, h.pend[2], 1<<30)
}

func (h *vauHarness) startTrackers() {
	h.au, _ = newAcctUpdates(h.t, h.ml, h.conf)
	h.tinyCaches()
}

func (h *vauHarness) reset(op string) string {
	h.closeCase()
	kv := vauKV(op)
	h.conf = config.GetDefaultLocal()
	h.conf.MaxAcctLookback = vh.U(kv["lb"])
	h.cache = kv["cache"] == "1"
	h.conf.DisableLedgerLRUCache = !h.cache
	h.pend = [3]int{int(vh.U(kv["pa"])), int(vh.U(kv["pr"])), int(vh.U(kv["pk"]))}
	genesis := map[basics.Address]basics.AccountData{}
	h.accts = nil
	h.keys = map[string]bool{}
	for _, e := range strings.Split(kv["gen"], ",") {
		p := strings.Split(e, ":")
		id, bal := vh.U(p[0]), vh.U(p[1])
		genesis[vauAddr(id)] = basics.AccountData{MicroAlgos: basics.MicroAlgos{Raw: bal}}
	}
	for id := uint64(1); id <= vauMaxAcct; id++ {
		h.accts = append(h.accts, id)
	}
	log := logging.TestingLog(h.t)
	log.SetLevel(logging.Error)
	h.ml = makeMockLedgerForTrackerWithLogger(h.t, true, 1, vauVersions[0], []map[basics.Address]basics.AccountData{genesis}, log)
	h.startTrackers()
	return "ok"
}

func vauPartU64(s string) (val *uint64, deleted bool) {
	switch s {
	case "-":
		return nil, false
	case "x":
		return nil, true
	}
	v := vh.U(s)
	return &v, false
}

func (h *vauHarness) block(op string) string {
	items := strings.Split(op, " | ")
	kv := vauKV(items[0])
	rnd := h.au.latest() + 1
	blk := bookkeeping.Block{BlockHeader: bookkeeping.BlockHeader{Round: rnd}}
	blk.CurrentProtocol = vauVersions[vh.U(kv["v"])]
	delta := ledgercore.MakeStateDelta(&blk.BlockHeader, 0, len(items), 0)
	_, prevTotals, err := h.au.LatestTotals()
	require.NoError(h.t, err)
	delta.Totals = prevTotals
	for _, it := range items[1:] {
		f := strings.Fields(it)
		switch f[0] {
		case "A":
			var ad ledgercore.AccountData
			ad.MicroAlgos.Raw = vh.U(f[2])
			ad.TotalAssets, ad.TotalAssetParams = vh.U(f[3]), vh.U(f[4])
			ad.TotalAppLocalStates, ad.TotalAppParams = vh.U(f[5]), vh.U(f[6])
			delta.Accts.Upsert(vauAddr(vh.U(f[1])), ad)
		case "S":
			var pd ledgercore.AssetParamsDelta
			var hd ledgercore.AssetHoldingDelta
			if v, del := vauPartU64(f[3]); v != nil {
				pd.Params = &basics.AssetParams{Total: *v}
			} else {
				pd.Deleted = del
			}
			if v, del := vauPartU64(f[4]); v != nil {
				hd.Holding = &basics.AssetHolding{Amount: *v}
			} else {
				hd.Deleted = del
			}
			delta.Accts.UpsertAssetResource(vauAddr(vh.U(f[1])), basics.AssetIndex(vh.U(f[2])), pd, hd)
		case "L":
			var pd ledgercore.AppParamsDelta
			var sd ledgercore.AppLocalStateDelta
			if v, del := vauPartU64(f[3]); v != nil {
				ap := basics.AppParams{}
				ap.GlobalStateSchema.NumUint = *v
				pd.Params = &ap
			} else {
				pd.Deleted = del
			}
			if v, del := vauPartU64(f[4]); v != nil {
				ls := basics.AppLocalState{}
				ls.Schema.NumUint = *v
				sd.LocalState = &ls
			} else {
				sd.Deleted = del
			}
			delta.Accts.UpsertAppResource(vauAddr(vh.U(f[1])), basics.AppIndex(vh.U(f[2])), pd, sd)
		case "K":
			key := string(vauUnhexB(f[1]))
			h.keys[key] = true
			delta.AddKvMod(key, ledgercore.KvValueDelta{Data: vauUnhexB(f[2]), OldData: vauUnhexB(f[3])})
		case "C":
			delta.AddCreatable(basics.CreatableIndex(vh.U(f[1])), ledgercore.ModifiedCreatable{
				Ctype: vauCtype(f[2]), Created: f[3] == "1", Creator: vauAddr(vh.U(f[4]))})
		default:
			return "bad-item " + it
		}
	}
	h.ml.addBlock(blockEntry{block: blk}, delta)
	return fmt.Sprintf("ok latest=%d", h.au.latest())
}

// commit mirrors the package's commitSync helper: committedUpTo (lookback) -> produceCommittingTask of every
// tracker -> the real trackerRegistry.commitRound (prepareCommit / one DB transaction / postCommit), synchronously.
func (h *vauHarness) commit(op string) string {
	kv := vauKV(op)
	rnd := basics.Round(vh.U(kv["r"]))
	ml := h.ml
	maxLookback := basics.Round(0)
	for _, lt := range ml.trackers.trackers {
		_, lb := lt.committedUpTo(rnd)
		if lb > maxLookback {
			maxLookback = lb
		}
	}
	dcc := &deferredCommitContext{deferredCommitRange: deferredCommitRange{lookback: maxLookback}}
	cdr := ml.trackers.produceCommittingTask(rnd, ml.trackers.dbRound, &dcc.deferredCommitRange)
	if cdr != nil {
		dcc.deferredCommitRange = *cdr
		ml.trackers.accountsWriting.Add(1)
		if err := ml.trackers.commitRound(dcc); err != nil {
			return "err commit " + err.Error()
		}
	}
	return fmt.Sprintf("ok db=%d", h.au.cachedDBRound)
}

func (h *vauHarness) reload() string {
	ml := h.ml
	ml.trackers.close()
	ml.trackers = trackerRegistry{log: ml.log}
	h.startTrackers()
	return fmt.Sprintf("ok db=%d latest=%d", h.au.cachedDBRound, h.au.latest())
}

func (h *vauHarness) evict(op string) string {
	kv := vauKV(op)
	au := h.au
	au.accountsMu.Lock()
	defer au.accountsMu.Unlock()
	// the tail of newBlockImpl with a small target size
	au.baseAccounts.flushPendingWrites()
	au.baseResources.flushPendingWrites()
	au.baseKVs.flushPendingWrites()
	au.baseAccounts.prune(int(vh.U(kv["a"])))
	au.baseResources.prune(int(vh.U(kv["r"])))
	au.baseKVs.prune(int(vh.U(kv["k"])))
	return "ok"
}

func vauAcct(ad ledgercore.AccountData) string {
	return fmt.Sprintf("%d/%d/%d/%d/%d", ad.MicroAlgos.Raw, ad.TotalAssets, ad.TotalAssetParams, ad.TotalAppLocalStates, ad.TotalAppParams)
}

func vauOptU(p *uint64) string {
	if p == nil {
		return "-"
	}
	return strconv.FormatUint(*p, 10)
}

// projection of an AccountResource to (params, holding/local) of one creatable type, as Ledger.LookupAsset /
// Ledger.LookupApplication do.
func vauResParts(r ledgercore.AccountResource, ctype basics.CreatableType) (p, hh *uint64) {
	if ctype == basics.AssetCreatable {
		if r.AssetParams != nil {
			v := r.AssetParams.Total
			p = &v
		}
		if r.AssetHolding != nil {
			v := r.AssetHolding.Amount
			hh = &v
		}
		return
	}
	if r.AppParams != nil {
		v := r.AppParams.GlobalStateSchema.NumUint
		p = &v
	}
	if r.AppLocalState != nil {
		v := r.AppLocalState.Schema.NumUint
		hh = &v
	}
	return
}

func (h *vauHarness) query(f []string) string {
	au := h.au
	switch f[1] {
	case "acct":
		rnd := basics.Round(vh.U(strings.TrimPrefix(f[2], "r=")))
		d, vt, err := au.LookupWithoutRewards(rnd, vauAddr(vh.U(f[3])))
		if err != nil {
			return vauErr(err)
		}
		return fmt.Sprintf("ok %s vt=%d", vauAcct(d), vt)
	case "res":
		rnd := basics.Round(vh.U(strings.TrimPrefix(f[2], "r=")))
		ctype := vauCtype(f[5])
		r, vt, err := au.LookupResource(rnd, vauAddr(vh.U(f[3])), basics.CreatableIndex(vh.U(f[4])), ctype)
		if err != nil {
			return vauErr(err)
		}
		p, hh := vauResParts(r, ctype)
		return fmt.Sprintf("ok P%s H%s vt=%d", vauOptU(p), vauOptU(hh), vt)
	case "kv":
		rnd := basics.Round(vh.U(strings.TrimPrefix(f[2], "r=")))
		v, err := au.LookupKv(rnd, string(vauUnhexB(f[3])))
		if err != nil {
			return vauErr(err)
		}
		return "ok " + vauHexB(v)
	case "creator":
		rnd := basics.Round(vh.U(strings.TrimPrefix(f[2], "r=")))
		c, ok, err := au.GetCreatorForRound(rnd, basics.CreatableIndex(vh.U(f[3])), vauCtype(f[4]))
		if err != nil {
			return vauErr(err)
		}
		if !ok {
			return "none"
		}
		return "ok " + vauAddrID(c)
	case "latest":
		d, rnd, _, err := au.lookupLatest(vauAddr(vh.U(f[2])))
		if err != nil {
			return vauErr(err)
		}
		return fmt.Sprintf("ok r=%d %s", rnd, vauFullAcct(d))
	}
	return "bad-op"
}

// canonical print of a basics.AccountData with its resource maps
func vauFullAcct(d basics.AccountData) string {
	var ap, ah, lp, lh []string
	for _, id := range vauSortedKeys(d.AssetParams) {
		ap = append(ap, fmt.Sprintf("%d:%d", id, d.AssetParams[basics.AssetIndex(id)].Total))
	}
	for _, id := range vauSortedKeys(d.Assets) {
		ah = append(ah, fmt.Sprintf("%d:%d", id, d.Assets[basics.AssetIndex(id)].Amount))
	}
	for _, id := range vauSortedKeys(d.AppParams) {
		lp = append(lp, fmt.Sprintf("%d:%d", id, d.AppParams[basics.AppIndex(id)].GlobalStateSchema.NumUint))
	}
	for _, id := range vauSortedKeys(d.AppLocalStates) {
		lh = append(lh, fmt.Sprintf("%d:%d", id, d.AppLocalStates[basics.AppIndex(id)].Schema.NumUint))
	}
	return fmt.Sprintf("%d AP[%s] AH[%s] LP[%s] LH[%s]", d.MicroAlgos.Raw, strings.Join(ap, ","), strings.Join(ah, ","),
		strings.Join(lp, ","), strings.Join(lh, ","))
}

func vauSortedKeys[K ~uint64, V any](m map[K]V) []uint64 {
	var ks []uint64
	for k := range m {
		ks = append(ks, uint64(k))
	}
	sort.Slice(ks, func(i, j int) bool { return ks[i] < ks[j] })
	return ks
}

func vauAssetItem(r ledgercore.AssetResourceWithIDs) string {
	var p, hh *uint64
	if r.AssetParams != nil {
		v := r.AssetParams.Total
		p = &v
	}
	if r.AssetHolding != nil {
		v := r.AssetHolding.Amount
		hh = &v
	}
	return fmt.Sprintf("%d:H%s:C%s:P%s", r.AssetID, vauOptU(hh), vauAddrID(r.Creator), vauOptU(p))
}

func vauAppItem(r ledgercore.AppResourceWithIDs) string {
	var p, hh *uint64
	if r.AppParams != nil {
		v := r.AppParams.GlobalStateSchema.NumUint
		p = &v
	}
	if r.AppLocalState != nil {
		v := r.AppLocalState.Schema.NumUint
		hh = &v
	}
	return fmt.Sprintf("%d:H%s:C%s:P%s", r.AppID, vauOptU(hh), vauAddrID(r.Creator), vauOptU(p))
}

func vauKvItem(r ledgercore.KvPairResult) string {
	return vauHexB([]byte(r.Key)) + "=" + vauHexB(r.Value)
}

func vauJoin(xs []string) string {
	if len(xs) == 0 {
		return "-"
	}
	return strings.Join(xs, ",")
}

func vauLimits(s string) []uint64 {
	var ls []uint64
	for _, x := range strings.Split(s, ",") {
		ls = append(ls, vh.U(x))
	}
	return ls
}

func (h *vauHarness) page(f []string, iter bool) string {
	au := h.au
	kv := vauKV(strings.Join(f, " "))
	switch f[1] {
	case "assets", "apps":
		addr := vauAddr(vh.U(f[2]))
		isApp := f[1] == "apps"
		call := func(gt, limit uint64) (items []string, last uint64, rnd basics.Round, err error) {
			if isApp {
				var rs []ledgercore.AppResourceWithIDs
				rs, rnd, err = au.LookupApplicationResources(addr, basics.AppIndex(gt), limit, kv["params"] == "1")
				for _, r := range rs {
					items = append(items, vauAppItem(r))
					last = uint64(r.AppID)
				}
				return
			}
			var rs []ledgercore.AssetResourceWithIDs
			rs, rnd, err = au.LookupAssetResources(addr, basics.AssetIndex(gt), limit)
			for _, r := range rs {
				items = append(items, vauAssetItem(r))
				last = uint64(r.AssetID)
			}
			return
		}
		if !iter {
			items, _, rnd, err := call(vh.U(kv["gt"]), vh.U(kv["limit"]))
			if err != nil {
				return vauErr(err)
			}
			return fmt.Sprintf("ok r=%d %s", rnd, vauJoin(items))
		}
		// iterate from the start: the next page starts after the last id returned; a page shorter than its limit ends the listing
		limits := vauLimits(kv["limits"])
		var pages []string
		gt := uint64(0)
		for i := 0; ; i++ {
			if i >= vauMaxPages {
				return "STUCK " + strings.Join(pages, "|")
			}
			limit := limits[i%len(limits)]
			items, last, _, err := call(gt, limit)
			if err != nil {
				return vauErr(err)
			}
			pages = append(pages, vauJoin(items))
			if uint64(len(items)) < limit {
				break
			}
			gt = last
		}
		return "ok " + strings.Join(pages, "|")
	case "kv":
		rnd := basics.Round(vh.U(kv["r"]))
		prefix := string(vauUnhexB(kv["prefix"]))
		cursor := string(vauUnhexB(kv["cursor"]))
		vals := kv["vals"] == "1"
		maxb := vh.U(kv["maxb"])
		call := func(cursor string, limit uint64) (items []string, last string, more bool, r basics.Round, err error) {
			var rs []ledgercore.KvPairResult
			rs, r, more, err = au.LookupKvPairsByPrefix(rnd, prefix, cursor, limit, maxb, vals)
			for _, x := range rs {
				items = append(items, vauKvItem(x))
				last = x.Key
			}
			return
		}
		if !iter {
			items, _, more, r, err := call(cursor, vh.U(kv["limit"]))
			if err != nil {
				return vauErr(err)
			}
			return fmt.Sprintf("ok r=%d more=%s %s", r, vh.B(more), vauJoin(items))
		}
		limits := vauLimits(kv["limits"])
		var pages []string
		for i := 0; ; i++ {
			if i >= vauMaxPages {
				return "STUCK " + strings.Join(pages, "|")
			}
			items, last, more, _, err := call(cursor, limits[i%len(limits)])
			if err != nil {
				return vauErr(err)
			}
			pages = append(pages, vauJoin(items))
			// as the REST handler does: a next-token exists only when moreData and the page is non-empty
			if !more || len(items) == 0 {
				if more {
					pages = append(pages, "MORE-BUT-EMPTY")
				}
				break
			}
			cursor = last
		}
		return "ok " + strings.Join(pages, "|")
	}
	return "bad-op"
}

// full: the reference listing obtained from the implementation by point lookups over the whole universe
func (h *vauHarness) full(f []string) string {
	au := h.au
	switch f[1] {
	case "kv":
		rnd := basics.Round(vh.U(strings.TrimPrefix(f[2], "r=")))
		if _, err := au.LookupKv(rnd, "\x00verif-no-such-key"); err != nil { // the round check, also when the universe is still empty
			return vauErr(err)
		}
		var keys []string
		for k := range h.keys {
			keys = append(keys, k)
		}
		sort.Strings(keys)
		var items []string
		for _, k := range keys {
			v, err := au.LookupKv(rnd, k)
			if err != nil {
				return vauErr(err)
			}
			if v != nil {
				items = append(items, vauHexB([]byte(k))+"="+vauHexB(v))
			}
		}
		return "ok " + vauJoin(items)
	case "res":
		id := vh.U(f[2])
		addr := vauAddr(id)
		rnd := au.latest()
		var items []string
		for cidx := uint64(1); cidx <= vauNAsset+vauNApp; cidx++ {
			ctype := basics.AssetCreatable
			if vauIsApp(cidx) {
				ctype = basics.AppCreatable
			}
			r, _, err := au.LookupResource(rnd, addr, basics.CreatableIndex(cidx), ctype)
			if err != nil {
				return vauErr(err)
			}
			_, hh := vauResParts(r, ctype)
			creator, ok, err := au.GetCreatorForRound(rnd, basics.CreatableIndex(cidx), ctype)
			if err != nil {
				return vauErr(err)
			}
			var p *uint64
			cs := "-"
			if ok {
				cs = vauAddrID(creator)
				cr, _, err := au.LookupResource(rnd, creator, basics.CreatableIndex(cidx), ctype)
				if err != nil {
					return vauErr(err)
				}
				p, _ = vauResParts(cr, ctype)
			}
			listed := hh != nil || (vauIsApp(cidx) && ok && creator == addr)
			if listed {
				items = append(items, fmt.Sprintf("%d:H%s:C%s:P%s", cidx, vauOptU(hh), cs, vauOptU(p)))
			}
		}
		return fmt.Sprintf("ok r=%d %s", rnd, vauJoin(items))
	}
	return "bad-op"
}

func (h *vauHarness) exec(op string) string {
	f := strings.Fields(op)
	if len(f) == 0 {
		return "bad-op"
	}
	if f[0] != "reset" && h.dead {
		return "dead"
	}
	if f[0] != "reset" && h.au == nil {
		return "no-case"
	}
	switch f[0] {
	case "reset":
		return h.reset(op)
	case "block":
		return h.block(op)
	case "commit":
		return h.commit(op)
	case "reload":
		return h.reload()
	case "flush":
		h.au.flushCaches()
		return "ok"
	case "evict":
		return h.evict(op)
	case "q":
		return h.query(f)
	case "page":
		return h.page(f, false)
	case "iter":
		return h.page(f, true)
	case "full":
		return h.full(f)
	}
	return "bad-op"
}

// ------------------------------------------------------------------------------------------------ HistGen

type vauRes struct{ p, h *uint64 }

type vauAcctSt struct{ bal, ta, tap, tal, tapp uint64 }

func (a vauAcctSt) empty() bool { return a == vauAcctSt{} }

type vauRK struct{ id, cidx uint64 }

// vauHist is the generator's shadow state: it makes the generated deltas well formed (full resource records, account
// counters matching the resources, OldData = previous value, creatables created once) — it is NOT used as an oracle.
type vauHist struct {
	r       *vh.Rng
	nAcct   uint64
	accts   map[uint64]vauAcctSt
	res     map[vauRK]vauRes
	kv      map[string][]byte
	creator map[uint64]uint64 // live creatables
	used    map[uint64]bool   // creatable ids ever created
	names   [][]byte
	apps    []byte
	latest  uint64
	ver     uint64
	// everything ever touched (query targets: present, deleted, re-created)
	seenRes map[vauRK]bool
	seenKey map[string]bool
	// recent creations (account created / re-created, holding or local state or params appearing): targets of the
	// directed "lookup before its creation round, then flush, then commit, then lookup again" sequences
	recent []vauCreated
}

type vauCreated struct {
	id, cidx uint64 // cidx 0 = an account
	round    uint64
}

func vauU(v uint64) *uint64 { return &v }

func vauNewHist(r *vh.Rng) (*vauHist, string) {
	g := &vauHist{r: r, accts: map[uint64]vauAcctSt{}, res: map[vauRK]vauRes{}, kv: map[string][]byte{}, creator: map[uint64]uint64{},
		used: map[uint64]bool{}, seenRes: map[vauRK]bool{}, seenKey: map[string]bool{}}
	g.nAcct = uint64(6 + r.Intn(7))
	var gen []string
	for id := uint64(1); id <= g.nAcct; id++ {
		if r.Chance(75) {
			bal := uint64(1 + r.Intn(1000))
			g.accts[id] = vauAcctSt{bal: bal}
			gen = append(gen, fmt.Sprintf("%d:%d", id, bal))
		}
	}
	if len(gen) == 0 {
		g.accts[1] = vauAcctSt{bal: 7}
		gen = append(gen, "1:7")
	}
	// box names: a small alphabet with shared prefixes and the 0xff carry edge
	alphabet := []byte{0x00, 0x61, 0x62, 0xff}
	seen := map[string]bool{}
	want := 4 + r.Intn(7)
	for len(g.names) < want {
		n := make([]byte, r.Intn(4))
		for i := range n {
			n[i] = alphabet[r.Intn(len(alphabet))]
		}
		if !seen[string(n)] {
			seen[string(n)] = true
			g.names = append(g.names, n)
		}
	}
	g.apps = []byte{0x41, 0x42, 0xfe}[:2+r.Intn(2)]
	return g, strings.Join(gen, ",")
}

func (g *vauHist) anyAcct() uint64 { return uint64(1 + g.r.Intn(int(g.nAcct))) }

func (g *vauHist) pickAcct(ok func(id uint64, a vauAcctSt) bool) (uint64, bool) {
	var ids []uint64
	for id := uint64(1); id <= g.nAcct; id++ {
		if a := g.accts[id]; !a.empty() && ok(id, a) {
			ids = append(ids, id)
		}
	}
	if len(ids) == 0 {
		return 0, false
	}
	return ids[g.r.Intn(len(ids))], true
}

func (g *vauHist) liveAcct() (uint64, bool) {
	return g.pickAcct(func(uint64, vauAcctSt) bool { return true })
}

// pickRes picks a resource key satisfying ok among all (live account, creatable) pairs of the given type
func (g *vauHist) pickRes(app bool, ok func(k vauRK, x vauRes) bool) (vauRK, bool) {
	var ks []vauRK
	lo, hi := uint64(1), uint64(vauNAsset)
	if app {
		lo, hi = vauNAsset+1, vauNAsset+vauNApp
	}
	for id := uint64(1); id <= g.nAcct; id++ {
		if g.accts[id].empty() {
			continue
		}
		for c := lo; c <= hi; c++ {
			k := vauRK{id, c}
			if ok(k, g.res[k]) {
				ks = append(ks, k)
			}
		}
	}
	if len(ks) == 0 {
		return vauRK{}, false
	}
	return ks[g.r.Intn(len(ks))], true
}

func (g *vauHist) unusedCidx(app bool) (uint64, bool) {
	lo, hi := uint64(1), uint64(vauNAsset)
	if app {
		lo, hi = vauNAsset+1, vauNAsset+vauNApp
	}
	var cs []uint64
	for c := lo; c <= hi; c++ {
		if !g.used[c] {
			cs = append(cs, c)
		}
	}
	if len(cs) == 0 {
		return 0, false
	}
	return cs[g.r.Intn(len(cs))], true
}

func (g *vauHist) key() string {
	return string(append([]byte{g.apps[g.r.Intn(len(g.apps))]}, g.names[g.r.Intn(len(g.names))]...))
}

func (g *vauHist) liveKey() (string, bool) {
	var ks []string
	for k := range g.kv {
		ks = append(ks, k)
	}
	if len(ks) == 0 {
		return "", false
	}
	sort.Strings(ks)
	return ks[g.r.Intn(len(ks))], true
}

// genBlock applies a few random events to the shadow state and returns the block op line (the net delta of the round).
func (g *vauHist) genBlock() string {
	r := g.r
	dirtyA := map[uint64]bool{}
	dirtyR := map[vauRK]vauRes{} // value at the start of the round
	everP, everH := map[vauRK]bool{}, map[vauRK]bool{}
	dirtyK := map[string][]byte{}
	hadK := map[string]bool{}
	creat := map[uint64]string{} // net creatable change of the round (the last one wins, as in StateDelta.Creatables)
	touchR := func(k vauRK) {
		if _, ok := dirtyR[k]; !ok {
			dirtyR[k] = g.res[k]
		}
		g.seenRes[k] = true
	}
	touchK := func(k string) {
		if _, ok := dirtyK[k]; !ok {
			dirtyK[k], hadK[k] = g.kv[k], g.kv[k] != nil
		}
		g.seenKey[k] = true
	}
	startEmpty := map[uint64]bool{}
	setA := func(id uint64, f func(a *vauAcctSt)) {
		a := g.accts[id]
		if _, seen := startEmpty[id]; !seen && !dirtyA[id] {
			startEmpty[id] = a.empty()
		}
		f(&a)
		g.accts[id] = a
		dirtyA[id] = true
	}
	nev := 1 + r.Intn(7)
	if r.Chance(8) {
		nev = 0
	}
	for e := 0; e < nev; e++ {
		switch w := r.Intn(36); {
		case w < 3: // payment (possibly creating / re-creating the receiver)
			id := g.anyAcct()
			setA(id, func(a *vauAcctSt) { a.bal = uint64(1 + r.Intn(1000)) })
		case w < 4: // close an account that holds nothing
			if id, ok := g.pickAcct(func(_ uint64, a vauAcctSt) bool { return a.ta == 0 && a.tap == 0 && a.tal == 0 && a.tapp == 0 }); ok {
				setA(id, func(a *vauAcctSt) { *a = vauAcctSt{} })
			}
		case w < 6: // asset create
			c, ok := g.liveAcct()
			cidx, ok2 := g.unusedCidx(false)
			if ok && ok2 {
				g.used[cidx] = true
				g.creator[cidx] = c
				k := vauRK{c, cidx}
				touchR(k)
				g.res[k] = vauRes{p: vauU(uint64(r.Intn(3))), h: vauU(uint64(r.Intn(50)))}
				setA(c, func(a *vauAcctSt) { a.ta++; a.tap++ })
				creat[cidx] = fmt.Sprintf("C %d S 1 %d", cidx, c)
			}
		case w < 10: // asset opt-in
			if k, ok := g.pickRes(false, func(k vauRK, x vauRes) bool { _, live := g.creator[k.cidx]; return live && x.h == nil }); ok {
				touchR(k)
				x := g.res[k]
				x.h = vauU(0)
				g.res[k] = x
				setA(k.id, func(a *vauAcctSt) { a.ta++ })
			}
		case w < 12: // asset transfer / holding change
			if k, ok := g.pickRes(false, func(k vauRK, x vauRes) bool { return x.h != nil }); ok {
				touchR(k)
				x := g.res[k]
				x.h = vauU(uint64(r.Intn(60)))
				g.res[k] = x
				dirtyA[k.id] = true
			}
		case w < 15: // asset opt-out (also of a destroyed asset)
			if k, ok := g.pickRes(false, func(k vauRK, x vauRes) bool { return x.h != nil && x.p == nil }); ok {
				touchR(k)
				g.res[k] = vauRes{}
				setA(k.id, func(a *vauAcctSt) { a.ta-- })
			}
		case w < 17: // asset reconfigure or destroy
			if k, ok := g.pickRes(false, func(k vauRK, x vauRes) bool { return x.p != nil }); ok {
				touchR(k)
				if r.Chance(60) {
					x := g.res[k]
					x.p = vauU(uint64(r.Intn(4)))
					g.res[k] = x
					dirtyA[k.id] = true
				} else {
					g.res[k] = vauRes{}
					delete(g.creator, k.cidx)
					setA(k.id, func(a *vauAcctSt) { a.ta--; a.tap-- })
					creat[k.cidx] = fmt.Sprintf("C %d S 0 %d", k.cidx, k.id)
				}
			}
		case w < 19: // app create
			c, ok := g.liveAcct()
			cidx, ok2 := g.unusedCidx(true)
			if ok && ok2 {
				g.used[cidx] = true
				g.creator[cidx] = c
				k := vauRK{c, cidx}
				touchR(k)
				x := g.res[k]
				x.p = vauU(uint64(r.Intn(3)))
				g.res[k] = x
				setA(c, func(a *vauAcctSt) { a.tapp++ })
				creat[cidx] = fmt.Sprintf("C %d L 1 %d", cidx, c)
			}
		case w < 22: // app opt-in / local state change
			if k, ok := g.pickRes(true, func(k vauRK, x vauRes) bool { _, live := g.creator[k.cidx]; return live || x.h != nil }); ok {
				touchR(k)
				x := g.res[k]
				if x.h == nil {
					setA(k.id, func(a *vauAcctSt) { a.tal++ })
				}
				x.h = vauU(uint64(r.Intn(3)))
				g.res[k] = x
				dirtyA[k.id] = true
			}
		case w < 23: // app close-out
			if k, ok := g.pickRes(true, func(k vauRK, x vauRes) bool { return x.h != nil }); ok {
				touchR(k)
				x := g.res[k]
				x.h = nil
				g.res[k] = x
				setA(k.id, func(a *vauAcctSt) { a.tal-- })
			}
		case w < 24: // app update or delete
			if k, ok := g.pickRes(true, func(k vauRK, x vauRes) bool { return x.p != nil }); ok {
				touchR(k)
				x := g.res[k]
				if r.Chance(60) {
					x.p = vauU(uint64(r.Intn(4)))
					dirtyA[k.id] = true
				} else {
					x.p = nil
					delete(g.creator, k.cidx)
					setA(k.id, func(a *vauAcctSt) { a.tapp-- })
					creat[k.cidx] = fmt.Sprintf("C %d L 0 %d", k.cidx, k.id)
				}
				g.res[k] = x
			}
		case w < 33: // box create / resize / rewrite
			k := g.key()
			touchK(k)
			g.kv[k] = r.Bytes(r.Intn(5))
			if r.Chance(12) {
				g.kv[k] = append([]byte{}, dirtyK[k]...) // rewrite of the same value (or empty)
			}
		default: // box delete
			if k, ok := g.liveKey(); ok {
				touchK(k)
				delete(g.kv, k)
			}
		}
		for k := range dirtyR {
			if g.res[k].p != nil {
				everP[k] = true
			}
			if g.res[k].h != nil {
				everH[k] = true
			}
		}
	}
	_ = everP
	if r.Chance(2) && g.ver == 0 && g.latest > 2 {
		g.ver = 1 // one protocol upgrade per history at most (versions never repeat)
	}
	items := []string{fmt.Sprintf("block v=%d", g.ver)}
	for _, id := range vauSortedKeys(dirtyA) {
		a := g.accts[id]
		items = append(items, fmt.Sprintf("A %d %d %d %d %d %d", id, a.bal, a.ta, a.tap, a.tal, a.tapp))
	}
	var rks []vauRK
	for k := range dirtyR {
		rks = append(rks, k)
	}
	sort.Slice(rks, func(i, j int) bool {
		if rks[i].id != rks[j].id {
			return rks[i].id < rks[j].id
		}
		return rks[i].cidx < rks[j].cidx
	})
	part := func(now, before *uint64, ever bool) string {
		if now != nil {
			return strconv.FormatUint(*now, 10)
		}
		if before != nil || ever {
			return "x" // deleted in this round (or created and deleted within it)
		}
		return "-"
	}
	for _, k := range rks {
		now, before := g.res[k], dirtyR[k]
		tag := "S"
		if vauIsApp(k.cidx) {
			tag = "L"
		}
		items = append(items, fmt.Sprintf("%s %d %d %s %s", tag, k.id, k.cidx, part(now.p, before.p, everP[k]), part(now.h, before.h, everH[k])))
	}
	var ks []string
	for k := range dirtyK {
		ks = append(ks, k)
	}
	sort.Strings(ks)
	for _, k := range ks {
		var old []byte
		if hadK[k] {
			old = append([]byte{}, dirtyK[k]...)
		}
		var now []byte
		if v, ok := g.kv[k]; ok {
			now = append([]byte{}, v...)
		}
		items = append(items, fmt.Sprintf("K %s %s %s", vauHexB([]byte(k)), vauHexB(now), vauHexB(old)))
	}
	for _, c := range vauSortedKeys(creat) {
		items = append(items, creat[c])
	}
	g.latest++
	for _, id := range vauSortedKeys(dirtyA) {
		if !g.accts[id].empty() && startEmpty[id] {
			g.recent = append(g.recent, vauCreated{id: id, round: g.latest})
		}
	}
	for _, k := range rks {
		now, before := g.res[k], dirtyR[k]
		if (now.h != nil && before.h == nil) || (now.p != nil && before.p == nil) {
			g.recent = append(g.recent, vauCreated{id: k.id, cidx: k.cidx, round: g.latest})
		}
	}
	for len(g.recent) > 0 && g.recent[0].round+12 < g.latest {
		g.recent = g.recent[1:]
	}
	return strings.Join(items, " | ")
}

func vauLimitList(r *vh.Rng) string {
	n := 1 + r.Intn(3)
	var ls []string
	for i := 0; i < n; i++ {
		ls = append(ls, strconv.Itoa(1+r.Intn(7)))
	}
	return strings.Join(ls, ",")
}

// genQueries: a batch of queries for the current history prefix; it depends only on the history generator's state,
// so that the same history under another schedule is asked exactly the same questions.
func (g *vauHist) genQueries(n int) []string {
	r := g.r
	var qs []string
	rnd := func() uint64 {
		var back uint64
		switch w := r.Intn(100); {
		case w < 35:
			back = 0
		case w < 65:
			back = uint64(1 + r.Intn(2))
		case w < 90:
			back = uint64(3 + r.Intn(3))
		case w < 97:
			back = uint64(6 + r.Intn(5))
		default:
			return g.latest + 1 + uint64(r.Intn(2)) // too high
		}
		if back > g.latest {
			return 0
		}
		return g.latest - back
	}
	seenRes := func() (vauRK, bool) {
		var ks []vauRK
		for k := range g.seenRes {
			ks = append(ks, k)
		}
		if len(ks) == 0 {
			return vauRK{}, false
		}
		sort.Slice(ks, func(i, j int) bool {
			if ks[i].id != ks[j].id {
				return ks[i].id < ks[j].id
			}
			return ks[i].cidx < ks[j].cidx
		})
		return ks[r.Intn(len(ks))], true
	}
	seenKey := func() (string, bool) {
		var ks []string
		for k := range g.seenKey {
			ks = append(ks, k)
		}
		if len(ks) == 0 {
			return "", false
		}
		sort.Strings(ks)
		return ks[r.Intn(len(ks))], true
	}
	anyKey := func() string {
		if k, ok := seenKey(); ok && r.Chance(75) {
			return vauHexB([]byte(k))
		}
		if r.Chance(70) {
			return vauHexB([]byte(g.key()))
		}
		return vauHexB(r.Bytes(1 + r.Intn(3)))
	}
	cursor := func() string {
		switch r.Intn(6) {
		case 0:
			return "_"
		case 1:
			return vauHexB(r.Bytes(1 + r.Intn(3)))
		case 2:
			return vauHexB([]byte(g.key()))
		}
		if k, ok := seenKey(); ok {
			return vauHexB([]byte(k))
		}
		return "_"
	}
	prefix := func() string {
		k := []byte(g.key())
		if kk, ok := seenKey(); ok && r.Chance(60) {
			k = []byte(kk)
		}
		if r.Chance(50) {
			return vauHexB(k[:1])
		}
		return vauHexB(k[:1+r.Intn(len(k))])
	}
	maxb := func() uint64 {
		switch r.Intn(6) {
		case 0:
			return 0
		case 1:
			return 1
		case 2:
			return uint64(2 + r.Intn(6))
		case 3:
			return uint64(8 + r.Intn(12))
		}
		return 1000
	}
	typeOf := func(c uint64) string {
		t := "S"
		if vauIsApp(c) {
			t = "L"
		}
		if r.Chance(3) { // wrong creatable type for this index
			if t == "S" {
				t = "L"
			} else {
				t = "S"
			}
		}
		return t
	}
	resTarget := func() (uint64, uint64) {
		if k, ok := seenRes(); ok && r.Chance(75) {
			return k.id, k.cidx
		}
		return g.anyAcct(), uint64(1 + r.Intn(vauNAsset+vauNApp))
	}
	holder := func() uint64 {
		if k, ok := seenRes(); ok && r.Chance(80) {
			return k.id
		}
		return g.anyAcct()
	}
	for i := 0; i < n; i++ {
		kind := r.Intn(20)
		switch vh.Profile() { // C08 asks point queries only, C10 pages only; default: both
		case "c08":
			kind = r.Intn(13)
		case "c10":
			kind = 13 + r.Intn(7)
		}
		switch kind {
		case 0, 1, 2:
			qs = append(qs, fmt.Sprintf("q acct r=%d %d", rnd(), g.anyAcct()))
		case 3, 4, 5, 6:
			id, c := resTarget()
			qs = append(qs, fmt.Sprintf("q res r=%d %d %d %s", rnd(), id, c, typeOf(c)))
		case 7, 8, 9:
			qs = append(qs, fmt.Sprintf("q kv r=%d %s", rnd(), anyKey()))
		case 10, 11:
			c := uint64(1 + r.Intn(vauNAsset+vauNApp))
			qs = append(qs, fmt.Sprintf("q creator r=%d %d %s", rnd(), c, typeOf(c)))
		case 12:
			qs = append(qs, fmt.Sprintf("q latest %d", holder()))
		case 13:
			qs = append(qs, fmt.Sprintf("page assets %d gt=%d limit=%d", holder(), r.Intn(vauNAsset+1), r.Intn(8)))
		case 14:
			qs = append(qs, fmt.Sprintf("page apps %d gt=%d limit=%d params=%d", holder(), r.Intn(vauNAsset+vauNApp+1), r.Intn(8), r.Intn(2)))
		case 15, 16:
			qs = append(qs, fmt.Sprintf("page kv r=%d prefix=%s cursor=%s limit=%d maxb=%d vals=%d", rnd(), prefix(), cursor(), r.Intn(8), maxb(), r.Intn(2)))
		case 17:
			id := holder()
			qs = append(qs, fmt.Sprintf("iter assets %d limits=%s", id, vauLimitList(r)))
			qs = append(qs, fmt.Sprintf("iter apps %d limits=%s params=%d", id, vauLimitList(r), r.Intn(2)))
			qs = append(qs, fmt.Sprintf("full res %d", id))
		case 18, 19:
			rr := rnd()
			qs = append(qs, fmt.Sprintf("iter kv r=%d prefix=%s cursor=_ limits=%s maxb=%d vals=%d", rr, vauHexB([]byte{g.apps[r.Intn(len(g.apps))]}), vauLimitList(r), maxb(), r.Intn(2)))
			qs = append(qs, fmt.Sprintf("full kv r=%d", rr))
		}
	}
	return qs
}

// directed: for a few recent creations, a lookup just before the creation round (a miss that leaves a not-found mark
// while that round is still served) and lookups at / after the creation round up to the latest one
func (g *vauHist) directed() (hist, now []string) {
	r := g.r
	if len(g.recent) == 0 {
		return
	}
	for i := 0; i < 1+r.Intn(3); i++ {
		c := g.recent[r.Intn(len(g.recent))]
		if c.round == 0 {
			continue
		}
		before := c.round - 1
		if r.Chance(25) && before > 0 {
			before--
		}
		at := c.round + uint64(r.Intn(int(g.latest-c.round)+1))
		if c.cidx == 0 {
			hist = append(hist, fmt.Sprintf("q acct r=%d %d", before, c.id))
			now = append(now, fmt.Sprintf("q acct r=%d %d", g.latest, c.id), fmt.Sprintf("q acct r=%d %d", at, c.id))
		} else {
			t := "S"
			if vauIsApp(c.cidx) {
				t = "L"
			}
			hist = append(hist, fmt.Sprintf("q res r=%d %d %d %s", before, c.id, c.cidx, t))
			now = append(now, fmt.Sprintf("q res r=%d %d %d %s", g.latest, c.id, c.cidx, t), fmt.Sprintf("q res r=%d %d %d %s", at, c.id, c.cidx, t))
		}
	}
	return
}

// vauGenerate: for every history, `variants` cases = the same blocks and the same queries under different
// configurations and flush / reload / eviction schedules.
func vauGenerate(seed uint64, nhist, variants, rounds int) []string {
	var ops []string
	for hi := 0; hi < nhist; hi++ {
		for v := 0; v < variants; v++ {
			hr := vh.NewRng(seed*1000003 + uint64(hi)*7919 + 1) // history stream: identical for all variants
			sr := vh.NewRng(seed*1000003 + uint64(hi)*7919 + 1000 + uint64(v))
			g, gen := vauNewHist(hr)
			lb := []uint64{1, 2, 4, 8}[sr.Intn(4)]
			if sr.Chance(8) {
				lb = 0
			}
			cache := 1
			if sr.Chance(12) {
				cache = 0
			}
			ops = append(ops, fmt.Sprintf("reset hist=%d var=%d lb=%d cache=%d pa=%d pr=%d pk=%d gen=%s", hi, v, lb, cache,
				1+sr.Intn(4), 1+sr.Intn(4), 1+sr.Intn(4), gen))
			style := sr.Intn(4) // 0 eager commits, 1 lazy, 2 never (deltas only), 3 mixed with reloads
			nr := rounds/2 + hr.Intn(rounds/2+1)
			for rd := 0; rd < nr; rd++ {
				ops = append(ops, g.genBlock())
				// what is asked (history stream: the same for every variant) ...
				qs := g.genQueries(6 + hr.Intn(8))
				var dh, dn []string
				if vh.Profile() != "c10" {
					dh, dn = g.directed()
				}
				// ... and the schedule operations of this window between two blocks (schedule stream), in ANY order
				// relative to the queries: commits, reloads, evictions and flushCaches may come before, between and
				// after lookups, in particular lookup -> flushCaches -> commit -> lookup with no newBlock in between
				var sched []string
				commitPct := []int{70, 15, 0, 40}[style]
				if sr.Chance(commitPct) {
					back := uint64(sr.Intn(3))
					if back > g.latest {
						back = g.latest
					}
					sched = append(sched, fmt.Sprintf("commit r=%d", g.latest-back))
				}
				if sr.Chance([]int{3, 3, 2, 12}[style]) {
					sched = append(sched, "reload")
				}
				if sr.Chance(15) {
					sched = append(sched, fmt.Sprintf("evict a=%d r=%d k=%d", sr.Intn(3), sr.Intn(3), sr.Intn(3)))
				}
				if sr.Chance(20) {
					sched = append(sched, "flush")
				}
				if sr.Chance(10) {
					sched = append(sched, "flush")
				}
				if len(dh) > 0 && style != 2 && sr.Chance(35) {
					// directed window: miss before the creation round, make the mark visible, flush the creation to the DB,
					// ask again — all without a newBlock
					ops = append(ops, dh...)
					ops = append(ops, "flush", fmt.Sprintf("commit r=%d", g.latest))
					ops = append(ops, dn...)
					dh, dn = nil, nil
				}
				all := append(append(append([]string{}, dh...), qs...), dn...)
				for _, so := range sched {
					pos := sr.Intn(len(all) + 1)
					all = append(all[:pos], append([]string{so}, all[pos:]...)...)
				}
				ops = append(ops, all...)
			}
		}
	}
	return ops
}

func TestVerifAu(t *testing.T) {
	t.Chdir(t.TempDir())
	out := vh.Open("au")
	defer out.Close()
	h := &vauHarness{t: t}
	defer h.closeCase()
	ops, replay := vh.ReplayOps()
	if !replay {
		nhist := vh.Budget(24, 400)
		ops = vauGenerate(vh.Seed(), nhist, 2, 36)
	}
	for _, op := range ops {
		res := vh.Catch(func() string { return h.exec(op) })
		if strings.HasPrefix(res, "PANIC") {
			h.dead = true
		}
		out.Emit(op, res)
	}
}
