//go:build verif

package ledger

// C09 crash-image harness (model lean/AlgoVerif/Model/Durable.lean, acceptor exe `c09`, check checks/C09.py).
//
// A REAL ledger on on-disk SQLite files (under t.TempDir()) is driven through a generated history of real blocks while
// the two background goroutines that write the databases are single-stepped:
//
//   blockQueue.syncer      stops at `pre` (workQ taken, before Wdb.Atomic), `mid` (inside the transaction, after the last
//                          BlockPut of the batch; an injected error rolls the batch back), `post` (Atomic returned),
//                          `fpost` (after the BlockForgetBefore transaction).  These calls (verifC09BQ / verifC09BlockPut /
//                          verifC09Notify) are inserted into an overlay COPY of blockqueue.go by checks/C09.py.
//   tracker DB             every write transaction of l.trackerDBs stops at `tpre` (before it starts), `tround` (inside it,
//                          right before AccountsWriterExt.UpdateAccountsRound; an injected error rolls it back), `tpost`
//                          (after it returned) - by wrapping the trackerdb.Store interface (verifC09Store).
//
// At every stop the files of that database (+ -wal, -shm) are copied: crash images (those taken at mid / tround contain an
// open transaction).  All events are logged by the test goroutine when it receives the stop, so that the log is a total
// order in which only one goroutine runs at a time; the order is a function of the op list.
//
// Op grammar (one line each; the result line is what the real code did):
//   hist id=<n> lookback=<MaxAcctLookback> cp=<CatchpointTracking 0|1|2>   fresh on-disk ledger      -> ok
//   blk <spec>;<spec>...                        build one block with the real evaluator and AddValidatedBlock it
//                                               -> events (`put r h`, and `bbegin lo hi` when the idle syncer picked it up)
//   bq | tr                                     release the syncer / the tracker committer to its next stop -> events
//   flushok 0|1                                 whether scheduleCommit's time condition holds at the next notifyCommit
//   failput | failround                         inject an error at the next mid / tround stop
//   reload                                      step everything to idle, then Ledger.reloadLedger()  -> events
//   end                                         stop recording, close; build the replay oracle       -> oracle digests
//   open b=<img> t=<img> kind=rt|lag            reopen the pair with OpenLedger                       -> measurements
// Events: ack r (the channel of Ledger.Wait(r) is closed) | lcack n (LatestCommitted() = (n, _)) | put r h | bbegin lo hi | bmid r | bimg id | bend ok|err | notify c | fend e | conf r | tbegin a | tround n |
//         timg id | tend ok|err | tdone d | reload d lc | aux (a tracker transaction without UpdateAccountsRound)

import (
	"context"
	"crypto/sha256"
	"database/sql"
	"encoding/hex"
	"errors"
	"fmt"
	"io"
	"os"
	"path/filepath"
	"sort"
	"strconv"
	"strings"
	"sync"
	"sync/atomic"
	"testing"
	"time"

	"github.com/algorand/go-algorand/agreement"
	"github.com/algorand/go-algorand/config"
	"github.com/algorand/go-algorand/crypto"
	"github.com/algorand/go-algorand/crypto/merklesignature"
	"github.com/algorand/go-algorand/data/basics"
	"github.com/algorand/go-algorand/data/bookkeeping"
	"github.com/algorand/go-algorand/data/committee"
	"github.com/algorand/go-algorand/data/transactions"
	"github.com/algorand/go-algorand/data/txntest"
	"github.com/algorand/go-algorand/ledger/eval"
	"github.com/algorand/go-algorand/ledger/ledgercore"
	"github.com/algorand/go-algorand/ledger/store/blockdb"
	"github.com/algorand/go-algorand/ledger/store/trackerdb"
	"github.com/algorand/go-algorand/ledger/store/trackerdb/sqlitedriver"
	"github.com/algorand/go-algorand/logging"
	"github.com/algorand/go-algorand/protocol"
	"github.com/algorand/go-algorand/util/db"
	"github.com/algorand/go-algorand/zz_verif_tools/vh"
)

// ------------------------------------------------------------------------------------------------ hook plumbing

var verifC09Active atomic.Pointer[verifC09Run]

var errVerifC09Injected = errors.New("verifC09: injected failure")

// verifC09Arr is one stop of a background goroutine, delivered to the test goroutine.
type verifC09Arr struct {
	src    byte // 'b' syncer, 't' tracker committer
	point  string
	events []string
}

type verifC09Img struct {
	id    int
	store byte // 'b' | 't'
	dir   string
	mid   bool
	ver   int // number of commits of this store before the image (logical content)
	at    int // event index when the image entered the log
	raw   int64
	rawOK bool
}

type verifC09Run struct {
	t        *testing.T
	l        *Ledger
	dir      string
	prefix   string
	cfg      config.Local
	genesis  ledgercore.InitState
	stepping atomic.Bool
	record   atomic.Bool

	arrB, arrT chan verifC09Arr
	goB, goT   chan struct{}
	bqAt, trAt string

	mu      sync.Mutex // protects async, confs, imgs, pendB, pendT
	async   []verifC09Arr
	confs   map[basics.Round]bool
	confLog map[basics.Round]bool
	imgs    []*verifC09Img
	pendB   []string
	pendT   []string

	failPut, failRound atomic.Bool
	flushOK            bool
	inTxn              bool // tracker goroutine only
	sawRound           bool

	events  []string
	verB    int
	verT    int
	commitB []int // event index of the k-th block store commit (k>=1); commitB[0]=0
	commitT []int
	confAt  map[basics.Round]int
	acked   map[basics.Round]bool          // Ledger.Wait(r) seen closed
	waitCh  map[basics.Round]chan struct{} // the channel Ledger.Wait(r) returned right after the block was added
	lcAck   basics.Round                   // highest first component of LatestCommitted() seen
	waiters []chan struct{}

	// history
	blocks  []bookkeeping.Block // blocks[r] (0 = genesis)
	u       *verifC09Universe
	oracle  []string // digest per round
	oracleD [][]string
	hist    int
	broken  bool // the live ledger failed (reload / add block): no further scheduling ops in this history
}

func (h *verifC09Run) liveFor(bq *blockQueue) bool {
	return h != nil && h.l != nil && bq == h.l.blockQ
}

// verifC09BQ is called from the overlay copy of blockQueue.syncer.
func verifC09BQ(bq *blockQueue, point string, workQ []blockEntry, err error) {
	h := verifC09Active.Load()
	if !h.liveFor(bq) || !h.stepping.Load() {
		return
	}
	var ev []string
	h.mu.Lock()
	ev = append(ev, h.pendB...)
	h.pendB = nil
	h.mu.Unlock()
	switch point {
	case "pre":
		ev = append(ev, fmt.Sprintf("bbegin %d %d", workQ[0].block.Round(), workQ[len(workQ)-1].block.Round()))
	case "post":
		if err == nil {
			ev = append(ev, "bend ok", fmt.Sprintf("bimg %d", h.image('b', false)))
		} else {
			ev = append(ev, "bend err")
		}
	case "fpost":
		var earliest basics.Round
		_ = bq.l.blockDBs.Rdb.Atomic(func(ctx context.Context, tx *sql.Tx) error {
			var e0 error
			earliest, e0 = blockdb.BlockEarliest(tx)
			return e0
		})
		ev = append(ev, fmt.Sprintf("fend %d", earliest))
		if earliest > 0 {
			ev = append(ev, fmt.Sprintf("bimg %d", h.image('b', false)))
		}
	}
	h.arrB <- verifC09Arr{'b', point, ev}
	<-h.goB
}

// verifC09BlockPut replaces blockdb.BlockPut inside the syncer's transaction.
func verifC09BlockPut(bq *blockQueue, tx *sql.Tx, workQ []blockEntry, blk bookkeeping.Block, cert agreement.Certificate) error {
	err := blockdb.BlockPut(tx, blk, cert)
	h := verifC09Active.Load()
	if err != nil || !h.liveFor(bq) || !h.stepping.Load() {
		return err
	}
	if blk.Round() != workQ[len(workQ)-1].block.Round() {
		return nil
	}
	ev := []string{fmt.Sprintf("bmid %d", blk.Round()), fmt.Sprintf("bimg %d", h.image('b', true))}
	h.arrB <- verifC09Arr{'b', "mid", ev}
	<-h.goB
	if h.failPut.CompareAndSwap(true, false) {
		return errVerifC09Injected
	}
	return nil
}

// verifC09Notify records the argument of notifyCommit (no stop).
func verifC09Notify(bq *blockQueue, committed basics.Round) {
	h := verifC09Active.Load()
	if !h.liveFor(bq) || !h.stepping.Load() {
		return
	}
	h.mu.Lock()
	h.pendB = append(h.pendB, fmt.Sprintf("notify %d", committed))
	h.mu.Unlock()
}

// ---- tracker DB: interface wrappers

type verifC09Store struct {
	trackerdb.Store
	h *verifC09Run
}

type verifC09Scope struct {
	trackerdb.TransactionScope
	h *verifC09Run
}

type verifC09Writer struct {
	trackerdb.AccountsWriterExt
	h *verifC09Run
}

func (s *verifC09Scope) MakeAccountsWriter() (trackerdb.AccountsWriterExt, error) {
	w, err := s.TransactionScope.MakeAccountsWriter()
	if err != nil {
		return w, err
	}
	return &verifC09Writer{w, s.h}, nil
}

func (w *verifC09Writer) UpdateAccountsRound(rnd basics.Round) error {
	h := w.h
	if h.record.Load() {
		h.sawRound = true
		h.stopT("tround", []string{fmt.Sprintf("tround %d", rnd), fmt.Sprintf("timg %d", h.image('t', true))})
		if h.failRound.CompareAndSwap(true, false) {
			return errVerifC09Injected
		}
	}
	return w.AccountsWriterExt.UpdateAccountsRound(rnd)
}

// registryLocked: is trackerRegistry.mu write-locked right now?  Every other goroutine is stopped or waiting for this one
// when a tracker transaction runs, so a held lock is held by the transaction's own goroutine (a tracker that writes from
// postCommit): stopping there would block everybody else, so such a transaction is recorded without a stop.
func (h *verifC09Run) registryLocked() bool {
	ok := make(chan struct{})
	go func() {
		h.l.trackers.mu.RLock()
		h.l.trackers.mu.RUnlock() //nolint:staticcheck
		close(ok)
	}()
	select {
	case <-ok:
		return false
	case <-time.After(2 * time.Second):
		return true
	}
}

func (h *verifC09Run) stopT(point string, ev []string) {
	h.mu.Lock()
	ev = append(append([]string{}, h.pendT...), ev...)
	h.pendT = nil
	h.mu.Unlock()
	a := verifC09Arr{'t', point, ev}
	if h.stepping.Load() && !h.registryLocked() {
		h.arrT <- a
		<-h.goT
		return
	}
	h.mu.Lock()
	h.async = append(h.async, a)
	h.mu.Unlock()
}

func (s *verifC09Store) around(run func(wrap func(trackerdb.TransactionScope) trackerdb.TransactionScope, end func(error) error) error) error {
	h := s.h
	if !h.record.Load() {
		return run(func(tx trackerdb.TransactionScope) trackerdb.TransactionScope { return tx }, func(e error) error { return e })
	}
	// (no lock: the goroutine that runs a tracker transaction is the only writer of dbRound at that moment, and a tracker
	// that opens a transaction while the registry lock is held must not deadlock the harness)
	a := h.l.trackers.dbRound
	h.sawRound = false
	h.stopT("tpre", []string{fmt.Sprintf("tbegin %d", a)})
	err := run(func(tx trackerdb.TransactionScope) trackerdb.TransactionScope { return &verifC09Scope{tx, h} },
		func(e error) error {
			if e == nil && !h.sawRound {
				// a transaction without UpdateAccountsRound (catchpoint bookkeeping, ...): image it while it is open
				id := h.image('t', true)
				h.mu.Lock()
				h.pendT = append(h.pendT, "aux", fmt.Sprintf("timg %d", id))
				h.mu.Unlock()
			}
			return e
		})
	if err == nil {
		h.stopT("tpost", []string{"tend ok", fmt.Sprintf("timg %d", h.image('t', false))})
	} else {
		h.stopT("tpost", []string{"tend err"})
	}
	return err
}

func (s *verifC09Store) Transaction(fn trackerdb.TransactionFn) error {
	return s.around(func(wrap func(trackerdb.TransactionScope) trackerdb.TransactionScope, end func(error) error) error {
		return s.Store.Transaction(func(ctx context.Context, tx trackerdb.TransactionScope) error { return end(fn(ctx, wrap(tx))) })
	})
}

func (s *verifC09Store) TransactionContext(ctx context.Context, fn trackerdb.TransactionFn) error {
	return s.around(func(wrap func(trackerdb.TransactionScope) trackerdb.TransactionScope, end func(error) error) error {
		return s.Store.TransactionContext(ctx, func(ctx context.Context, tx trackerdb.TransactionScope) error { return end(fn(ctx, wrap(tx))) })
	})
}

func (s *verifC09Store) TransactionWithRetryClearFn(fn trackerdb.TransactionFn, clr trackerdb.RetryClearFn) error {
	return s.around(func(wrap func(trackerdb.TransactionScope) trackerdb.TransactionScope, end func(error) error) error {
		return s.Store.TransactionWithRetryClearFn(func(ctx context.Context, tx trackerdb.TransactionScope) error { return end(fn(ctx, wrap(tx))) }, clr)
	})
}

func (s *verifC09Store) TransactionContextWithRetryClearFn(ctx context.Context, fn trackerdb.TransactionFn, clr trackerdb.RetryClearFn) error {
	return s.around(func(wrap func(trackerdb.TransactionScope) trackerdb.TransactionScope, end func(error) error) error {
		return s.Store.TransactionContextWithRetryClearFn(ctx, func(ctx context.Context, tx trackerdb.TransactionScope) error { return end(fn(ctx, wrap(tx))) }, clr)
	})
}

func (s *verifC09Store) Batch(fn trackerdb.BatchFn) error {
	return s.around(func(wrap func(trackerdb.TransactionScope) trackerdb.TransactionScope, end func(error) error) error {
		return s.Store.Batch(func(ctx context.Context, tx trackerdb.BatchScope) error { return end(fn(ctx, tx)) })
	})
}

func (s *verifC09Store) BatchContext(ctx context.Context, fn trackerdb.BatchFn) error {
	return s.around(func(wrap func(trackerdb.TransactionScope) trackerdb.TransactionScope, end func(error) error) error {
		return s.Store.BatchContext(ctx, func(ctx context.Context, tx trackerdb.BatchScope) error { return end(fn(ctx, tx)) })
	})
}

func (s *verifC09Store) BeginTransaction(ctx context.Context) (trackerdb.Transaction, error) {
	if s.h.record.Load() {
		s.h.mu.Lock()
		s.h.pendT = append(s.h.pendT, "unhooked BeginTransaction")
		s.h.mu.Unlock()
	}
	return s.Store.BeginTransaction(ctx)
}

func (s *verifC09Store) BeginBatch(ctx context.Context) (trackerdb.Batch, error) {
	if s.h.record.Load() {
		s.h.mu.Lock()
		s.h.pendT = append(s.h.pendT, "unhooked BeginBatch")
		s.h.mu.Unlock()
	}
	return s.Store.BeginBatch(ctx)
}

// ------------------------------------------------------------------------------------------------ images

func verifC09CopyFile(src, dst string) error {
	in, err := os.Open(src)
	if err != nil {
		if os.IsNotExist(err) {
			return nil
		}
		return err
	}
	defer in.Close()
	out, err := os.Create(dst)
	if err != nil {
		return err
	}
	if _, err = io.Copy(out, in); err != nil {
		out.Close()
		return err
	}
	return out.Close()
}

func verifC09StoreFile(store byte) string {
	if store == 'b' {
		return ".block.sqlite"
	}
	return ".tracker.sqlite"
}

func verifC09CopyDB(srcPrefix, dstPrefix string, store byte) error {
	base := verifC09StoreFile(store)
	for _, suf := range []string{"", "-wal", "-shm", "-journal"} {
		if err := verifC09CopyFile(srcPrefix+base+suf, dstPrefix+base+suf); err != nil {
			return err
		}
	}
	return nil
}

// image copies the files of one store; called by the goroutine that owns all writes to that store (or while it is idle).
func (h *verifC09Run) image(store byte, mid bool) int {
	h.mu.Lock()
	id := len(h.imgs)
	im := &verifC09Img{id: id, store: store, mid: mid, dir: filepath.Join(h.dir, fmt.Sprintf("img%d", id))}
	h.imgs = append(h.imgs, im)
	h.mu.Unlock()
	if err := os.MkdirAll(im.dir, 0o755); err != nil {
		panic(err)
	}
	if err := verifC09CopyDB(h.prefix, filepath.Join(im.dir, "ledger"), store); err != nil {
		panic(err)
	}
	return id
}

// ------------------------------------------------------------------------------------------------ event log (test goroutine)

func (h *verifC09Run) logEv(evs ...string) {
	for _, e := range evs {
		f := strings.Fields(e)
		switch f[0] {
		case "bend":
			if f[1] == "ok" {
				h.verB++
				h.commitB = append(h.commitB, len(h.events))
			}
		case "fend":
			// BlockForgetBefore is a block store commit only when it deleted something (earliest > 0 is imaged)
		case "tend":
			if f[1] == "ok" {
				h.verT++
				h.commitT = append(h.commitT, len(h.events))
			}
		case "bimg", "timg":
			id, _ := strconv.Atoi(f[1])
			h.mu.Lock()
			im := h.imgs[id]
			h.mu.Unlock()
			im.at = len(h.events)
			if im.store == 'b' {
				im.ver = h.verB
			} else {
				im.ver = h.verT
			}
		case "conf", "ack", "lcack":
			// every kind of durability acknowledgement: WaitForCommit returned / the Ledger.Wait channel is closed /
			// LatestCommitted's first component; the earliest one counts
			r, _ := strconv.Atoi(f[1])
			if _, seen := h.confAt[basics.Round(r)]; !seen {
				h.confAt[basics.Round(r)] = len(h.events)
			}
		}
		h.events = append(h.events, e)
	}
}

func (h *verifC09Run) takeNew(from int) string {
	if from >= len(h.events) {
		return "-"
	}
	return strings.Join(h.events[from:], " ; ")
}

const verifC09Timeout = 60 * time.Second

func (h *verifC09Run) waitB() {
	select {
	case a := <-h.arrB:
		h.bqAt = a.point
		h.logEv(a.events...)
	case <-time.After(verifC09Timeout):
		h.t.Fatalf("c09: HANG waiting for the block queue syncer (events so far: %v)", h.events)
	}
}

// collectConfs logs `conf r` for every r <= upTo whose WaitForCommit has returned, waiting for them.
func (h *verifC09Run) collectConfs() {
	lc, _ := h.l.LatestCommitted()
	deadline := time.Now().Add(verifC09Timeout)
	for r := basics.Round(1); r <= lc; r++ {
		if h.confLog[r] {
			continue
		}
		for {
			h.mu.Lock()
			ok := h.confs[r]
			h.mu.Unlock()
			if ok {
				break
			}
			if time.Now().After(deadline) {
				h.t.Fatalf("c09: WaitForCommit(%d) did not return although lastCommitted=%d", r, lc)
			}
			time.Sleep(200 * time.Microsecond)
		}
		h.confLog[r] = true
		h.logEv(fmt.Sprintf("conf %d", r))
	}
	// a confirmation of a round beyond lastCommitted is logged as well (the monitor will flag it)
	h.mu.Lock()
	var early []int
	for r := range h.confs {
		if !h.confLog[r] && r > lc {
			early = append(early, int(r))
		}
	}
	h.mu.Unlock()
	sort.Ints(early)
	for _, r := range early {
		h.confLog[basics.Round(r)] = true
		h.logEv(fmt.Sprintf("conf %d", r))
	}
}

// collectAcks records what the ledger ACKNOWLEDGES as durable at this instant, through its two other interfaces:
// `<-Ledger.Wait(r)` ("will not lose round r after a crash"; agreement, catchup and the state proof builder rely on it) —
// both the channel obtained right after the block was added and a fresh call — and LatestCommitted()'s first component.
func (h *verifC09Run) collectAcks() {
	if h.l == nil || h.broken {
		return
	}
	closed := func(ch chan struct{}) bool {
		select {
		case <-ch:
			return true
		default:
			return false
		}
	}
	for r := basics.Round(1); int(r) < len(h.blocks); r++ {
		if h.acked[r] {
			continue
		}
		if ch, ok := h.waitCh[r]; ok && closed(ch) {
			h.acked[r] = true
		} else if closed(h.l.Wait(r)) {
			h.acked[r] = true
		}
		if h.acked[r] {
			h.logEv(fmt.Sprintf("ack %d", r))
		}
	}
	if lc, _ := h.l.LatestCommitted(); lc > h.lcAck {
		h.lcAck = lc
		h.logEv(fmt.Sprintf("lcack %d", lc))
	}
}

// settleT waits until the tracker committer either stops at a hook or has nothing in flight.
// afterPost: the committer was just released from a `tpost` stop, i.e. a transaction function returned to its caller.
func (h *verifC09Run) settleT(afterPost bool) {
	if h.trAt != "" {
		return
	}
	done := make(chan struct{})
	go func() {
		h.l.trackers.accountsWriting.Wait()
		close(done)
	}()
	select {
	case a := <-h.arrT:
		if afterPost {
			h.logEv(fmt.Sprintf("tdone %d", h.dbRoundMem()))
		}
		h.trAt = a.point
		h.logEv(a.events...)
		h.waiters = append(h.waiters, done)
	case <-done:
		// the wait group is at zero: every earlier waiter has been woken; let all of them return before anything is added again
		for _, w := range h.waiters {
			<-w
		}
		h.waiters = nil
		h.flushAsyncT()
		if afterPost {
			h.logEv(fmt.Sprintf("tdone %d", h.dbRoundMem()))
		}
	case <-time.After(verifC09Timeout):
		h.t.Fatalf("c09: HANG waiting for the tracker committer (events so far: %v)", h.events)
	}
}

func (h *verifC09Run) flushAsyncT() {
	h.mu.Lock()
	as := h.async
	h.async = nil
	pend := h.pendT
	h.pendT = nil
	h.mu.Unlock()
	for _, a := range as {
		h.logEv(a.events...)
	}
	h.logEv(pend...)
}

func (h *verifC09Run) dbRoundMem() basics.Round {
	// read after a stop of the committer was received (channel synchronisation), or while it is idle
	return h.l.trackers.dbRound
}

func (h *verifC09Run) qlen() int {
	h.l.blockQ.mu.Lock()
	defer h.l.blockQ.mu.Unlock()
	return len(h.l.blockQ.q)
}

// stepB releases the syncer to its next stop.
func (h *verifC09Run) stepB() {
	at := h.bqAt
	if at == "" {
		return
	}
	if at == "post" {
		// the next thing the syncer does is notifyCommit -> scheduleCommit: fix its time condition
		h.l.trackers.mu.Lock()
		if h.flushOK {
			h.l.trackers.lastFlushTime = time.Time{}
		} else {
			h.l.trackers.lastFlushTime = time.Now().Add(time.Hour)
		}
		h.l.trackers.mu.Unlock()
	}
	expectIdle := at == "fpost" && h.qlen() == 0
	h.bqAt = ""
	h.goB <- struct{}{}
	if expectIdle {
		return
	}
	h.waitB()
	if at == "post" {
		h.collectConfs()
		h.settleT(false)
	}
}

// stepT releases the tracker committer to its next stop.
func (h *verifC09Run) stepT() {
	at := h.trAt
	if at == "" {
		return
	}
	h.trAt = ""
	h.goT <- struct{}{}
	if at == "tpost" {
		// the transaction function has returned to its caller: either commitRound completes and the committer picks up the
		// next deferred commit (if any), or another transaction of the same commitRound starts
		h.settleT(true)
		return
	}
	select {
	case a := <-h.arrT:
		h.trAt = a.point
		h.logEv(a.events...)
	case <-time.After(verifC09Timeout):
		h.t.Fatalf("c09: HANG waiting for the tracker committer after %s (events so far: %v)", at, h.events)
	}
}

// ------------------------------------------------------------------------------------------------ universe / blocks

const verifC09Source = `#pragma version 8
txn ApplicationID
bz end
txn NumAppArgs
bz end
txn ApplicationArgs 0; byte "bput"; ==; bz n1
txn ApplicationArgs 1; txn ApplicationArgs 2; box_put; b end
n1:
txn ApplicationArgs 0; byte "bdel"; ==; bz n2
txn ApplicationArgs 1; box_del; pop; b end
n2:
txn ApplicationArgs 0; byte "gput"; ==; bz n3
txn ApplicationArgs 1; txn ApplicationArgs 2; app_global_put; b end
n3:
txn ApplicationArgs 0; byte "gdel"; ==; bz n4
txn ApplicationArgs 1; app_global_del; b end
n4:
txn ApplicationArgs 0; byte "lput"; ==; bz end
txn Sender; txn ApplicationArgs 1; txn ApplicationArgs 2; app_local_put
end:
int 1
`

type verifC09Universe struct {
	addrs  []basics.Address
	assets []basics.AssetIndex
	apps   []basics.AppIndex
	txids  []transactions.Txid
	txinfo map[transactions.Txid][3]uint64 // fv, lv, round
	leases []ledgercore.Txlease
	note   uint64
}

var verifC09BoxNames = []string{"a", "bb", "ccc", "dddd"}

func verifC09Addr(i int) basics.Address {
	var seed crypto.Seed
	seed[0] = byte(i)
	seed[1] = 0xC9
	s := crypto.GenerateSignatureSecrets(seed)
	return basics.Address(s.SignatureVerifier)
}

const verifC09NGenesis = 8
const verifC09NAddr = 12

func verifC09Genesis(hist int) (ledgercore.InitState, *verifC09Universe) {
	u := &verifC09Universe{txinfo: map[transactions.Txid][3]uint64{}}
	accts := make(map[basics.Address]basics.AccountData)
	for i := 0; i < verifC09NAddr; i++ {
		u.addrs = append(u.addrs, verifC09Addr(i))
	}
	for i := 0; i < verifC09NGenesis; i++ {
		ad := basics.AccountData{MicroAlgos: basics.MicroAlgos{Raw: 500_000_000_000 + uint64(i)*1_000_000}, Status: basics.Offline}
		if i < 2 {
			ad.Status = basics.Online
			ad.VoteLastValid = 1_000_000
			ad.VoteKeyDilution = 100
			ad.VoteID[0], ad.VoteID[1] = byte(i+1), 0x11
			ad.SelectionID[0], ad.SelectionID[1] = byte(i+1), 0x22
			ad.StateProofID[0], ad.StateProofID[1] = byte(i+1), 0x33
		}
		accts[u.addrs[i]] = ad
	}
	sink, _ := basics.UnmarshalChecksumAddress("YTPRLJ2KK2JRFSZZNAF57F3K5Y2KCG36FZ5OSYLW776JJGAUW5JXJBBD7Q")
	pool, _ := basics.UnmarshalChecksumAddress("242H5OXHUEBYCGGWB3CQ6AZAMQB5TMCWJGHCGQOZPEIVQJKOO7NZXUXDQA")
	accts[sink] = basics.AccountData{MicroAlgos: basics.MicroAlgos{Raw: 1_000_000_000_000}, Status: basics.NotParticipating}
	accts[pool] = basics.AccountData{MicroAlgos: basics.MicroAlgos{Raw: 1_000_000_000_000}}
	u.addrs = append(u.addrs, sink, pool)
	bal := bookkeeping.MakeTimestampedGenesisBalances(accts, sink, pool, 1_700_000_000)
	var gh crypto.Digest
	gh[0], gh[1], gh[31] = byte(hist), byte(hist>>8), 0xC9
	gb, err := bookkeeping.MakeGenesisBlock(protocol.ConsensusCurrentVersion, bal, "verifc09", gh)
	if err != nil {
		panic(err)
	}
	return ledgercore.InitState{Block: gb, Accounts: bal.Balances, GenesisHash: gh}, u
}

func (u *verifC09Universe) asset(k int) (basics.AssetIndex, bool) {
	if len(u.assets) == 0 {
		return 0, false
	}
	return u.assets[k%len(u.assets)], true
}

func (u *verifC09Universe) app(k int) (basics.AppIndex, bool) {
	if len(u.apps) == 0 {
		return 0, false
	}
	return u.apps[k%len(u.apps)], true
}

func verifC09Atoi(s string) int {
	n, err := strconv.Atoi(s)
	if err != nil {
		panic("c09: bad number " + s)
	}
	return n
}

// txnOf turns one spec into a transaction (nil: not applicable in the current universe)
func (u *verifC09Universe) txnOf(spec string) *txntest.Txn {
	f := strings.Split(spec, ":")
	a := func(i int) basics.Address { return u.addrs[verifC09Atoi(f[i])%verifC09NAddr] }
	n := func(i int) int { return verifC09Atoi(f[i]) }
	u.note++
	tx := &txntest.Txn{Note: fmt.Sprintf("n%d", u.note)}
	switch f[0] {
	case "pay":
		tx.Type, tx.Sender, tx.Receiver, tx.Amount = "pay", a(1), a(2), uint64(n(3))
		if len(f) > 4 && f[4] != "0" {
			tx.Lease[0], tx.Lease[1] = byte(n(4)), 0xC9
			tx.LastValid = 0
		}
	case "payclose":
		tx.Type, tx.Sender, tx.Receiver, tx.Amount, tx.CloseRemainderTo = "pay", a(1), a(2), uint64(0), a(2)
	case "keyreg":
		tx.Type, tx.Sender = "keyreg", a(1)
		if f[2] == "on" {
			tx.VotePK[0], tx.VotePK[1] = byte(n(1)+1), byte(u.note)
			tx.SelectionPK[0], tx.SelectionPK[1] = byte(n(1)+1), byte(u.note)
			var sp merklesignature.Commitment
			sp[0], sp[1] = byte(n(1)+1), byte(u.note)
			tx.StateProofPK = sp
			tx.VoteLast = 900_000
			tx.VoteKeyDilution = 77
		}
	case "acfg":
		tx.Type, tx.Sender = "acfg", a(1)
		tx.AssetParams = basics.AssetParams{Total: 1_000_000, Decimals: 2, UnitName: "u" + f[1], AssetName: fmt.Sprintf("asset%d", u.note),
			Manager: a(1), Reserve: a(1), Freeze: a(1), Clawback: a(1)}
	case "adel":
		id, ok := u.asset(n(2))
		if !ok {
			return nil
		}
		tx.Type, tx.Sender, tx.ConfigAsset = "acfg", a(1), id
	case "aopt":
		id, ok := u.asset(n(2))
		if !ok {
			return nil
		}
		tx.Type, tx.Sender, tx.AssetReceiver, tx.XferAsset = "axfer", a(1), a(1), id
	case "axfer":
		id, ok := u.asset(n(3))
		if !ok {
			return nil
		}
		tx.Type, tx.Sender, tx.AssetReceiver, tx.XferAsset, tx.AssetAmount = "axfer", a(1), a(2), id, uint64(n(4))
	case "aclose":
		id, ok := u.asset(n(3))
		if !ok {
			return nil
		}
		tx.Type, tx.Sender, tx.AssetReceiver, tx.AssetCloseTo, tx.XferAsset = "axfer", a(1), a(2), a(2), id
	case "appc":
		tx.Type, tx.Sender, tx.ApprovalProgram = "appl", a(1), verifC09Source
		tx.GlobalStateSchema = basics.StateSchema{NumByteSlice: 4}
		tx.LocalStateSchema = basics.StateSchema{NumByteSlice: 2}
	case "appfund":
		id, ok := u.app(n(2))
		if !ok {
			return nil
		}
		tx.Type, tx.Sender, tx.Receiver, tx.Amount = "pay", a(1), id.Address(), uint64(2_000_000)
	case "appopt", "appclose", "appdel":
		id, ok := u.app(n(2))
		if !ok {
			return nil
		}
		tx.Type, tx.Sender, tx.ApplicationID = "appl", a(1), id
		tx.OnCompletion = map[string]transactions.OnCompletion{"appopt": transactions.OptInOC, "appclose": transactions.CloseOutOC, "appdel": transactions.DeleteApplicationOC}[f[0]]
	case "bput", "bdel":
		id, ok := u.app(n(2))
		if !ok {
			return nil
		}
		name := verifC09BoxNames[n(3)%len(verifC09BoxNames)]
		tx.Type, tx.Sender, tx.ApplicationID = "appl", a(1), id
		tx.Boxes = []transactions.BoxRef{{Index: 0, Name: []byte(name)}}
		if f[0] == "bput" {
			tx.ApplicationArgs = [][]byte{[]byte("bput"), []byte(name), []byte(strings.Repeat("v", 1+n(4)%6) + f[4])}
		} else {
			tx.ApplicationArgs = [][]byte{[]byte("bdel"), []byte(name)}
		}
	case "gput", "lput":
		id, ok := u.app(n(2))
		if !ok {
			return nil
		}
		tx.Type, tx.Sender, tx.ApplicationID = "appl", a(1), id
		tx.ApplicationArgs = [][]byte{[]byte(f[0]), []byte("k" + f[3]), []byte("val" + f[4])}
	case "gdel":
		id, ok := u.app(n(2))
		if !ok {
			return nil
		}
		tx.Type, tx.Sender, tx.ApplicationID = "appl", a(1), id
		tx.ApplicationArgs = [][]byte{[]byte("gdel"), []byte("k" + f[3])}
	default:
		panic("c09: unknown txn spec " + spec)
	}
	return tx
}

// learn records what a block created
func (u *verifC09Universe) learn(blk bookkeeping.Block) {
	ps, err := blk.DecodePaysetFlat()
	if err != nil {
		panic(err)
	}
	for _, stxn := range ps {
		id := stxn.ID()
		u.txids = append(u.txids, id)
		u.txinfo[id] = [3]uint64{uint64(stxn.Txn.FirstValid), uint64(stxn.Txn.LastValid), uint64(blk.Round())}
		if stxn.Txn.Lease != [32]byte{} {
			u.leases = append(u.leases, ledgercore.Txlease{Sender: stxn.Txn.Sender, Lease: stxn.Txn.Lease})
		}
		if stxn.Txn.Type == protocol.AssetConfigTx && stxn.Txn.ConfigAsset == 0 && stxn.ApplyData.ConfigAsset != 0 {
			u.assets = append(u.assets, stxn.ApplyData.ConfigAsset)
		}
		if stxn.Txn.Type == protocol.ApplicationCallTx && stxn.Txn.ApplicationID == 0 && stxn.ApplyData.ApplicationID != 0 {
			u.apps = append(u.apps, stxn.ApplyData.ApplicationID)
			u.addrs = append(u.addrs, stxn.ApplyData.ApplicationID.Address())
		}
	}
}

// addBlock builds the next block with the real evaluator from the specs and adds it (no WaitForCommit)
func (h *verifC09Run) addBlock(specs []string) (basics.Round, int, error) {
	t, l := h.t, h.l
	rnd := l.Latest()
	hdr, err := l.BlockHdr(rnd)
	if err != nil {
		return 0, 0, fmt.Errorf("BlockHdr(%d): %w", rnd, err)
	}
	nextHdr := bookkeeping.MakeBlock(hdr).BlockHeader
	nextHdr.TimeStamp = hdr.TimeStamp + 1
	ev, err := eval.StartEvaluator(l, nextHdr, eval.EvaluatorOptions{Generate: true, Validate: true})
	if err != nil {
		return 0, 0, fmt.Errorf("StartEvaluator(%d): %w", rnd+1, err)
	}
	n := 0
	for _, s := range specs {
		if s == "" {
			continue
		}
		tx := h.u.txnOf(s)
		if tx == nil {
			continue
		}
		if err := txgroup(t, l, ev, tx); err == nil {
			n++
		}
	}
	ub, err := ev.GenerateBlock(nil)
	if err != nil {
		return 0, 0, fmt.Errorf("GenerateBlock: %w", err)
	}
	blk := ub.UnfinishedBlock()
	prp := blk.BlockHeader.FeeSink
	if l.GenesisProto().Payouts.Enabled {
		blk = blk.WithProposer(committee.Seed(prp), prp, true)
	} else {
		blk = blk.WithProposer(committee.Seed(prp), basics.Address{}, false)
	}
	vvb, err := validateWithoutSignatures(t, l, blk)
	if err != nil {
		return 0, 0, fmt.Errorf("validate: %w", err)
	}
	if err = l.AddValidatedBlock(*vvb, agreement.Certificate{}); err != nil {
		return 0, 0, fmt.Errorf("AddValidatedBlock: %w", err)
	}
	b := vvb.Block()
	h.blocks = append(h.blocks, b)
	h.u.learn(b)
	r := b.Round()
	h.waitCh[r] = l.Wait(r)
	go func() {
		l.WaitForCommit(r)
		h.mu.Lock()
		h.confs[r] = true
		h.mu.Unlock()
	}()
	return r, n, nil
}

// ------------------------------------------------------------------------------------------------ dump

func verifC09Err(err error) string {
	if err == nil {
		return "ok"
	}
	return "ERR"
}

func verifC09H(b []byte) string {
	s := sha256.Sum256(b)
	return hex.EncodeToString(s[:6])
}

// verifC09Dump prints everything the ledger answers at its latest round for the universe.
func verifC09Dump(l *Ledger, u *verifC09Universe) []string {
	var out []string
	p := func(format string, a ...any) { out = append(out, fmt.Sprintf(format, a...)) }
	B := l.Latest()
	p("latest %d", B)
	for i, addr := range u.addrs {
		ad, rnd, wo, err := l.LookupLatest(addr)
		if err != nil {
			p("acct %d ERR", i)
			continue
		}
		p("acct %d rnd=%d enc=%s bal=%d wo=%d st=%d assets=%d params=%d apps=%d locals=%d boxes=%d/%d", i, rnd, verifC09H(protocol.Encode(&ad)), ad.MicroAlgos.Raw, wo.Raw, ad.Status,
			len(ad.Assets), len(ad.AssetParams), len(ad.AppParams), len(ad.AppLocalStates), ad.TotalBoxes, ad.TotalBoxBytes)
		la, vt, wo2, err := l.LookupAccount(B, addr)
		p("lacct %d %s vt=%d wo=%d %s", i, verifC09Err(err), vt, wo2.Raw, verifC09H([]byte(fmt.Sprintf("%+v", la))))
	}
	for _, aid := range u.assets {
		cr, ok, err := l.GetCreator(basics.CreatableIndex(aid), basics.AssetCreatable)
		p("acreator %d %v %s %s", aid, ok, verifC09Err(err), verifC09H(cr[:]))
		for i, addr := range u.addrs {
			r, err := l.LookupAsset(B, addr, aid)
			if err != nil {
				p("asset %d@%d ERR", aid, i)
				continue
			}
			s := ""
			if r.AssetHolding != nil {
				s += fmt.Sprintf(" h=%d,%v", r.AssetHolding.Amount, r.AssetHolding.Frozen)
			}
			if r.AssetParams != nil {
				s += " p=" + verifC09H(protocol.Encode(r.AssetParams))
			}
			if s != "" {
				p("asset %d@%d%s", aid, i, s)
			}
		}
	}
	for _, app := range u.apps {
		cr, ok, err := l.GetCreator(basics.CreatableIndex(app), basics.AppCreatable)
		p("appcreator %d %v %s %s", app, ok, verifC09Err(err), verifC09H(cr[:]))
		for i, addr := range u.addrs {
			r, err := l.LookupApplication(B, addr, app)
			if err != nil {
				p("app %d@%d ERR", app, i)
				continue
			}
			s := ""
			if r.AppLocalState != nil {
				s += " l=" + verifC09H(protocol.Encode(r.AppLocalState))
			}
			if r.AppParams != nil {
				s += " p=" + verifC09H(protocol.Encode(r.AppParams))
			}
			if s != "" {
				p("app %d@%d%s", app, i, s)
			}
		}
		for _, name := range verifC09BoxNames {
			v, err := l.LookupKv(B, apps_MakeBoxKeyC09(app, name))
			if err != nil {
				p("kv %d/%s ERR", app, name)
			} else if v != nil {
				p("kv %d/%s %s", app, name, hex.EncodeToString(v))
			}
		}
	}
	for r := basics.Round(0); r <= B; r++ {
		c, err := l.OnlineCirculation(r, r+320)
		s := fmt.Sprintf("online %d circ=%d/%s", r, c.Raw, verifC09Err(err))
		for i := 0; i < 4; i++ {
			oa, err := l.LookupAgreement(r, u.addrs[i])
			s += fmt.Sprintf(" %d:%s/%s", i, verifC09H([]byte(fmt.Sprintf("%+v", oa))), verifC09Err(err))
		}
		if r == B {
			// (historical totals / balances below the tracker DB round are not served; only the latest is compared)
			tot, err := l.Totals(r)
			s += fmt.Sprintf(" totals=%s/%s", verifC09H(protocol.Encode(&tot)), verifC09Err(err))
		}
		hdr, err := l.BlockHdr(r)
		s += fmt.Sprintf(" hdr=%s/%s", verifC09H(protocol.Encode(&hdr)), verifC09Err(err))
		p("%s", s)
	}
	lr, lt, err := l.LatestTotals()
	p("latesttotals %d %s %s", lr, verifC09H(protocol.Encode(&lt)), verifC09Err(err))
	proto := config.Consensus[protocol.ConsensusCurrentVersion]
	for k, id := range u.txids {
		inf := u.txinfo[id]
		err := l.CheckDup(proto, B+1, basics.Round(inf[0]), basics.Round(inf[1]), id, ledgercore.Txlease{})
		cr, cok := l.CheckConfirmedTail(id)
		var tle *ledgercore.TransactionInLedgerError
		p("txid %d r=%d dup=%v conf=%d/%v", k, inf[2], errors.As(err, &tle), cr, cok)
	}
	for k, tl := range u.leases {
		err := l.CheckDup(proto, B+1, B+1, B+2, transactions.Txid{}, tl)
		p("lease %d %v", k, err != nil)
	}
	return out
}

func apps_MakeBoxKeyC09(app basics.AppIndex, name string) string {
	// apps.MakeBoxKey: "bx:" + 8 byte big endian app id + name
	key := make([]byte, 0, 11+len(name))
	key = append(key, 'b', 'x', ':')
	var b [8]byte
	for i := 0; i < 8; i++ {
		b[7-i] = byte(uint64(app) >> (8 * i))
	}
	key = append(key, b[:]...)
	key = append(key, name...)
	return string(key)
}

func verifC09Digest(lines []string) string {
	s := sha256.Sum256([]byte(strings.Join(lines, "\n")))
	return hex.EncodeToString(s[:8])
}

func verifC09FirstDiff(a, b []string) string {
	for i := 0; i < len(a) || i < len(b); i++ {
		x, y := "<none>", "<none>"
		if i < len(a) {
			x = a[i]
		}
		if i < len(b) {
			y = b[i]
		}
		if x != y {
			return fmt.Sprintf("[%s] vs oracle [%s]", x, y)
		}
	}
	return "-"
}

// ------------------------------------------------------------------------------------------------ executor

func (h *verifC09Run) closeLive() {
	if h.l == nil {
		return
	}
	h.record.Store(false)
	h.stepping.Store(false)
	if h.bqAt != "" {
		h.bqAt = ""
		h.goB <- struct{}{}
	}
	if h.trAt != "" {
		h.trAt = ""
		h.goT <- struct{}{}
	}
	// stops that were reached while stepping was being switched off
	deadline := time.After(verifC09Timeout)
	quiet := time.NewTimer(50 * time.Millisecond)
drain:
	for {
		select {
		case <-h.arrB:
			h.goB <- struct{}{}
		case <-h.arrT:
			h.goT <- struct{}{}
		case <-quiet.C:
			break drain
		case <-deadline:
			break drain
		}
	}
	verifC09Active.Store(nil)
	closed := make(chan struct{})
	go func() { h.l.Close(); close(closed) }()
	for {
		select {
		case <-h.arrB:
			h.goB <- struct{}{}
			continue
		case <-h.arrT:
			h.goT <- struct{}{}
			continue
		case <-closed:
		case <-time.After(verifC09Timeout):
			h.t.Fatalf("c09: HANG closing the ledger")
		}
		break
	}
	h.l = nil
}

func (h *verifC09Run) open(prefix string) (*Ledger, error) {
	log := logging.NewLogger()
	log.SetLevel(logging.Panic)
	log.SetOutput(io.Discard)
	return OpenLedger(log, prefix, false, h.genesis, h.cfg)
}

func (h *verifC09Run) opHist(f map[string]string) string {
	h.closeLive()
	if h.dir != "" {
		os.RemoveAll(h.dir)
	}
	h.hist = verifC09Atoi(f["id"])
	h.dir = filepath.Join(h.t.TempDir(), fmt.Sprintf("h%d", h.hist))
	if err := os.MkdirAll(filepath.Join(h.dir, "live"), 0o755); err != nil {
		h.t.Fatal(err)
	}
	h.prefix = filepath.Join(h.dir, "live", "ledger")
	h.cfg = config.GetDefaultLocal()
	h.cfg.MaxAcctLookback = uint64(verifC09Atoi(f["lookback"]))
	h.cfg.Archival = false
	if cp := f["cp"]; cp == "1" || cp == "2" {
		// catchpoint tracking (1) / tracking + data files (2): first-stage rounds are those with (r + CatchpointLookback) %
		// interval == 0, so with interval 4 every 4th round of the history is a first stage: the catchpoint tracker's trie and
		// hash round ride in the commit transaction, finishFirstStage writes its bookkeeping in transactions of its own, and
		// recoverFromCrash has work to do on the crash images taken in between
		h.cfg.CatchpointTracking = int64(verifC09Atoi(cp))
		h.cfg.CatchpointInterval = 4
	}
	// the crash of this harness is a PROCESS crash (the files are copied while the process lives), for which SQLite's
	// consistency does not depend on fsync; synchronous=OFF only removes the fsync cost (the machine is shared)
	h.cfg.LedgerSynchronousMode = int(db.SynchronousModeOff)
	h.cfg.AccountsRebuildSynchronousMode = int(db.SynchronousModeOff)
	h.genesis, h.u = verifC09Genesis(h.hist)
	h.blocks = []bookkeeping.Block{h.genesis.Block}
	h.events, h.imgs, h.async, h.pendB, h.pendT = nil, nil, nil, nil, nil
	h.confs, h.confLog, h.confAt = map[basics.Round]bool{}, map[basics.Round]bool{}, map[basics.Round]int{}
	h.acked, h.waitCh, h.lcAck = map[basics.Round]bool{}, map[basics.Round]chan struct{}{}, 0
	h.verB, h.verT, h.commitB, h.commitT = 0, 0, []int{0}, []int{0}
	h.bqAt, h.trAt, h.waiters = "", "", nil
	h.flushOK = true
	h.failPut.Store(false)
	h.failRound.Store(false)
	h.oracle, h.oracleD = nil, nil
	h.broken = false
	h.arrB, h.arrT = make(chan verifC09Arr), make(chan verifC09Arr)
	h.goB, h.goT = make(chan struct{}), make(chan struct{})
	l, err := h.open(h.prefix)
	if err != nil {
		h.t.Fatalf("c09: OpenLedger: %v", err)
	}
	h.l = l
	// interpose on the tracker store and let the ledger rebuild its trackers on top of it (the code path of OpenLedger)
	l.trackerDBs = &verifC09Store{l.trackerDBs, h}
	if err = l.reloadLedger(); err != nil {
		h.t.Fatalf("c09: reloadLedger: %v", err)
	}
	verifC09Active.Store(h)
	h.logEv(fmt.Sprintf("bimg %d", h.image('b', false)), fmt.Sprintf("timg %d", h.image('t', false)))
	h.record.Store(true)
	h.stepping.Store(true)
	return "ok " + h.takeNew(0)
}

func (h *verifC09Run) opBlk(specs string) string {
	from := len(h.events)
	idle := h.bqAt == ""
	r, n, err := h.addBlock(strings.Split(specs, ";"))
	if err != nil {
		// the LIVE ledger cannot take another block: the history ends here (its images are still reopened)
		h.broken = true
		return "LIVEERR " + strings.ReplaceAll(err.Error(), "\n", " ")
	}
	h.logEv(fmt.Sprintf("put %d %s", r, verifC09H(protocol.Encode(&h.blocks[r]))))
	if idle {
		h.waitB()
	}
	return fmt.Sprintf("ntx=%d ; %s", n, h.takeNew(from))
}

// stepToIdle runs both goroutines until nothing is in flight (deterministic order)
func (h *verifC09Run) stepToIdle() {
	h.flushOK = true
	for i := 0; h.bqAt != "" || h.trAt != ""; i++ {
		if h.bqAt != "" {
			h.stepB()
		}
		if h.trAt != "" {
			h.stepT()
		}
		if i > 10000 {
			h.t.Fatalf("c09: stepToIdle does not terminate")
		}
	}
}

func (h *verifC09Run) opReload() string {
	from := len(h.events)
	h.stepToIdle()
	h.stepping.Store(false)
	err := h.l.reloadLedger()
	h.flushAsyncT()
	h.stepping.Store(true)
	lc, _ := h.l.LatestCommitted()
	h.logEv(fmt.Sprintf("reload %d %d %s", h.dbRoundMem(), lc, verifC09Err(err)))
	if err != nil {
		h.broken = true
		return h.takeNew(from) + " ; RELOADERR " + strings.ReplaceAll(err.Error(), "\n", " ")
	}
	return h.takeNew(from)
}

func (h *verifC09Run) opEnd() string {
	h.closeLive()
	// the replay oracle: a fresh ledger that is simply given blocks 1..N, dumped after every block
	log := logging.NewLogger()
	log.SetLevel(logging.Panic)
	log.SetOutput(io.Discard)
	// (on disk as well: with the in-memory shared-cache SQLite a read that meets the oracle's own background writers fails
	// with "table is locked", which would show up as a spurious ERR in its dump)
	if err := os.MkdirAll(filepath.Join(h.dir, "oracle"), 0o755); err != nil {
		h.t.Fatal(err)
	}
	ol, err := OpenLedger(log, filepath.Join(h.dir, "oracle", "ledger"), false, h.genesis, h.cfg)
	if err != nil {
		h.t.Fatalf("c09: oracle ledger: %v", err)
	}
	defer ol.Close()
	for r := 0; r < len(h.blocks); r++ {
		if r > 0 {
			if err := ol.AddBlock(h.blocks[r], agreement.Certificate{}); err != nil {
				h.t.Fatalf("c09: oracle AddBlock(%d): %v", r, err)
			}
			ol.WaitForCommit(basics.Round(r))
		}
		d := verifC09Dump(ol, h.u)
		for try := 0; try < 3; try++ {
			// (two equal consecutive dumps: a read that failed under load must not become the reference)
			d2 := verifC09Dump(ol, h.u)
			same := verifC09Digest(d2) == verifC09Digest(d)
			d = d2
			if same {
				break
			}
		}
		h.oracleD = append(h.oracleD, d)
		h.oracle = append(h.oracle, verifC09Digest(d))
	}
	return fmt.Sprintf("images=%d events=%d oracle=%s", len(h.imgs), len(h.events), strings.Join(h.oracle, ","))
}

// rawRound reads the durable round of an image directly from a throw-away copy of its files
func (h *verifC09Run) rawRound(im *verifC09Img) (int64, error) {
	if im.rawOK {
		return im.raw, nil
	}
	tmp := filepath.Join(h.dir, fmt.Sprintf("raw%d", im.id))
	if err := os.MkdirAll(tmp, 0o755); err != nil {
		return 0, err
	}
	defer os.RemoveAll(tmp)
	if err := verifC09CopyDB(filepath.Join(im.dir, "ledger"), filepath.Join(tmp, "ledger"), im.store); err != nil {
		return 0, err
	}
	var r basics.Round
	if im.store == 'b' {
		acc, err := db.MakeAccessor(filepath.Join(tmp, "ledger.block.sqlite"), false, false)
		if err != nil {
			return 0, err
		}
		defer acc.Close()
		err = acc.Atomic(func(ctx context.Context, tx *sql.Tx) error {
			var e0 error
			r, e0 = blockdb.BlockLatest(tx)
			return e0
		})
		if err != nil {
			return 0, err
		}
	} else {
		log := logging.NewLogger()
		log.SetOutput(io.Discard)
		st, err := sqlitedriver.Open(filepath.Join(tmp, "ledger.tracker.sqlite"), false, log)
		if err != nil {
			return 0, err
		}
		defer st.Close()
		err = st.Snapshot(func(ctx context.Context, tx trackerdb.SnapshotScope) error {
			ar, e0 := tx.MakeAccountsReader()
			if e0 != nil {
				return e0
			}
			r, e0 = ar.AccountsRound()
			return e0
		})
		if err != nil {
			return 0, err
		}
	}
	im.raw, im.rawOK = int64(r), true
	return im.raw, nil
}

var verifC09OpenSeq int

func (h *verifC09Run) opOpen(f map[string]string) (res string) {
	bi, ti := verifC09Atoi(f["b"]), verifC09Atoi(f["t"])
	if bi >= len(h.imgs) || ti >= len(h.imgs) || h.imgs[bi].store != 'b' || h.imgs[ti].store != 't' {
		return "NOIMAGE"
	}
	ib, it := h.imgs[bi], h.imgs[ti]
	B, err := h.rawRound(ib)
	if err != nil {
		return "RAWERR block " + err.Error()
	}
	T, err := h.rawRound(it)
	if err != nil {
		return "RAWERR tracker " + err.Error()
	}
	verifC09OpenSeq++
	dir := filepath.Join(h.dir, fmt.Sprintf("open%d", verifC09OpenSeq))
	if err := os.MkdirAll(dir, 0o755); err != nil {
		h.t.Fatal(err)
	}
	defer os.RemoveAll(dir)
	prefix := filepath.Join(dir, "ledger")
	if err := verifC09CopyDB(filepath.Join(ib.dir, "ledger"), prefix, 'b'); err != nil {
		h.t.Fatal(err)
	}
	if err := verifC09CopyDB(filepath.Join(it.dir, "ledger"), prefix, 't'); err != nil {
		h.t.Fatal(err)
	}
	head := fmt.Sprintf("B=%d T=%d confirmed=%d bmid=%v tmid=%v", B, T, h.confirmedBy(ib, it), ib.mid, it.mid)
	defer func() {
		if r := recover(); r != nil {
			res = head + " PANIC " + strings.ReplaceAll(fmt.Sprint(r), "\n", " ")
		}
	}()
	l, err := h.open(prefix)
	if err != nil {
		msg := strings.ReplaceAll(err.Error(), "\n", " ")
		if len(msg) > 200 {
			msg = msg[:200]
		}
		return head + " OPENERR " + msg
	}
	defer l.Close()
	latest := l.Latest()
	hashes := "ok"
	for r := basics.Round(0); r <= latest; r++ {
		blk, err := l.Block(r)
		if err != nil || int(r) >= len(h.blocks) || blk.Hash() != h.blocks[r].Hash() {
			hashes = fmt.Sprintf("BAD@%d", r)
			break
		}
	}
	next := "absent"
	if _, err := l.Block(latest + 1); err == nil {
		next = "PRESENT"
	}
	d := verifC09Dump(l, h.u)
	dig := verifC09Digest(d)
	for try := 0; try < 3 && int(latest) < len(h.oracle) && dig != h.oracle[latest]; try++ {
		// a read that failed under load ("database table is locked") shows as ERR in the dump: read again; a real difference stays
		time.Sleep(100 * time.Millisecond)
		d = verifC09Dump(l, h.u)
		dig = verifC09Digest(d)
	}
	want, diff := "none", "-"
	if int(latest) < len(h.oracle) {
		want = h.oracle[latest]
		if want != dig {
			diff = verifC09FirstDiff(d, h.oracleD[latest])
		}
	}
	// (read BEFORE the ledger is given another block: a later commit legitimately sets the marker again for a while)
	// catchpoint bookkeeping after recoverFromCrash: the "writing first stage info" marker must be clear, and when the tracker DB
	// round is a first-stage round of this configuration its first stage info must be recorded
	cpx := ""
	if h.cfg.CatchpointInterval > 0 && h.cfg.CatchpointTracking > 0 && l.catchpoint.catchpointStore != nil {
		mark, err1 := l.catchpoint.catchpointStore.ReadCatchpointStateUint64(context.Background(), trackerdb.CatchpointStateWritingFirstStageInfo)
		_, fs, err2 := l.catchpoint.catchpointStore.SelectCatchpointFirstStageInfo(context.Background(), basics.Round(T))
		proto := config.Consensus[protocol.ConsensusCurrentVersion]
		lb := proto.CatchpointLookback
		if lb == 0 {
			lb = proto.MaxBalLookback
		}
		isFS := T > 0 && (uint64(T)+lb)%h.cfg.CatchpointInterval == 0
		cpx = fmt.Sprintf(" cpmark=%d/%s cpfs=%v/%v/%s", mark, verifC09Err(err1), fs, isFS, verifC09Err(err2))
	}
	// the recovered ledger must be able to continue with the next block of the chain
	cont := "end"
	if int(latest)+1 < len(h.blocks) {
		if err := l.AddBlock(h.blocks[latest+1], agreement.Certificate{}); err != nil {
			cont = "ADDERR"
		} else if d2 := verifC09Dump(l, h.u); verifC09Digest(d2) != h.oracle[latest+1] {
			cont = "DIFF " + verifC09FirstDiff(d2, h.oracleD[latest+1])
		} else {
			cont = "ok"
		}
	}
	return fmt.Sprintf("%s latest=%d hashes=%s next=%s dump=%s want=%s cont=%s%s diff=%s", head, latest, hashes, next, dig, want, cont, cpx, diff)
}

func verifC09KV(f []string) map[string]string {
	m := map[string]string{}
	for _, t := range f {
		if i := strings.IndexByte(t, '='); i > 0 {
			m[t[:i]] = t[i+1:]
		}
	}
	return m
}

func (h *verifC09Run) exec(op string) string {
	f := strings.Fields(op)
	if len(f) == 0 {
		return "-"
	}
	from := len(h.events)
	if h.broken && (f[0] == "blk" || f[0] == "bq" || f[0] == "tr" || f[0] == "reload") {
		return "SKIP"
	}
	switch f[0] {
	case "hist":
		return h.opHist(verifC09KV(f[1:]))
	case "blk":
		specs := ""
		if len(f) > 1 {
			specs = f[1]
		}
		res := h.opBlk(specs)
		at := len(h.events)
		h.collectAcks()
		if at < len(h.events) {
			res += " ; " + h.takeNew(at)
		}
		return res
	case "bq":
		h.stepB()
		h.collectAcks()
		return h.takeNew(from)
	case "tr":
		h.stepT()
		h.collectAcks()
		return h.takeNew(from)
	case "flushok":
		h.flushOK = f[1] == "1"
		return "ok"
	case "failput":
		h.failPut.Store(true)
		return "ok"
	case "failround":
		h.failRound.Store(true)
		return "ok"
	case "reload":
		res := h.opReload()
		at := len(h.events)
		h.collectAcks()
		if at < len(h.events) {
			res += " ; " + h.takeNew(at)
		}
		return res
	case "end":
		return h.opEnd()
	case "open":
		return h.opOpen(verifC09KV(f[1:]))
	}
	return "BADOP"
}

// ------------------------------------------------------------------------------------------------ generator

type verifC09Gen struct {
	r *vh.Rng
}

func (g *verifC09Gen) spec(nblk int) string {
	r := g.r
	acct := func() int { return r.Intn(verifC09NAddr) }
	gen := func() int { return r.Intn(verifC09NGenesis) }
	switch r.Intn(20) {
	case 0, 1, 2:
		lease := 0
		if r.Chance(25) {
			lease = 1 + r.Intn(3)
		}
		return fmt.Sprintf("pay:%d:%d:%d:%d", gen(), acct(), 100_000+r.Intn(5_000_000), lease)
	case 3:
		return fmt.Sprintf("payclose:%d:%d", 4+r.Intn(verifC09NAddr-4), gen())
	case 4, 5:
		return fmt.Sprintf("keyreg:%d:%s", r.Intn(4), []string{"on", "off"}[r.Intn(2)])
	case 6, 7:
		return fmt.Sprintf("acfg:%d", gen())
	case 8:
		return fmt.Sprintf("adel:%d:%d", gen(), r.Intn(4))
	case 9, 10:
		return fmt.Sprintf("aopt:%d:%d", acct(), r.Intn(4))
	case 11:
		return fmt.Sprintf("axfer:%d:%d:%d:%d", gen(), acct(), r.Intn(4), 1+r.Intn(1000))
	case 12:
		return fmt.Sprintf("aclose:%d:%d:%d", acct(), gen(), r.Intn(4))
	case 13:
		return fmt.Sprintf("appc:%d", gen())
	case 14:
		return fmt.Sprintf("appfund:%d:%d", gen(), r.Intn(3))
	case 15:
		return fmt.Sprintf("%s:%d:%d", []string{"appopt", "appopt", "appclose", "appdel"}[r.Intn(4)], acct(), r.Intn(3))
	case 16, 17:
		return fmt.Sprintf("bput:%d:%d:%d:%d", gen(), r.Intn(3), r.Intn(4), r.Intn(50))
	case 18:
		return fmt.Sprintf("bdel:%d:%d:%d", gen(), r.Intn(3), r.Intn(4))
	}
	return fmt.Sprintf("%s:%d:%d:%d:%d", []string{"gput", "gput", "lput", "gdel"}[r.Intn(4)], gen(), r.Intn(3), r.Intn(3), r.Intn(50))
}

func (g *verifC09Gen) block(nblk int) string {
	var specs []string
	if nblk == 0 {
		// seed the universe early
		specs = append(specs, "acfg:0", "appc:1")
	}
	if nblk == 1 {
		specs = append(specs, "appfund:0:0", "aopt:2:0")
	}
	for i, n := 0, g.r.Intn(5); i < n; i++ {
		specs = append(specs, g.spec(nblk))
	}
	return "blk " + strings.Join(specs, ";")
}

// history drives one generated history through the executor, emitting every op
func (g *verifC09Gen) history(h *verifC09Run, out *vh.Out, id, nblocks, maxPairs int) {
	r := g.r
	emit := func(op string) string {
		t0 := time.Now()
		res := h.exec(op)
		if d := time.Since(t0); d > 2*time.Second {
			h.t.Logf("c09: slow op (%v): %s", d, op)
		}
		out.Emit(op, res)
		out.Flush()
		return res
	}
	lookback := []int{1, 1, 2, 2, 3, 4, 8}[r.Intn(7)]
	cp := 0
	if id%3 == 2 {
		cp = 1
	} else if id%3 == 0 {
		cp = 2
	}
	emit(fmt.Sprintf("hist id=%d lookback=%d cp=%d", id, lookback, cp))
	added, reloaded := 0, false
	burst, stall, stalled := 0, 0, false
	for steps := 0; steps < 4000; steps++ {
		var ch []string
		// (while the committer stands between its transaction and postCommit, readers that reach the tracker DB wait for
		// postCommit on accountsReadCond - acctupdates.go lookupWithoutRewards - so no block is evaluated at that stop)
		if added < nblocks && h.trAt != "tpost" {
			w := 2
			if burst > 0 {
				w = 10
			}
			for i := 0; i < w; i++ {
				ch = append(ch, "add")
			}
		}
		if h.bqAt != "" {
			for i := 0; i < 5; i++ {
				ch = append(ch, "bq")
			}
			if h.bqAt == "pre" && stall > 0 {
				// a persistently failing block DB: every flush attempt of this period is rolled back while blocks pile up
				stall--
				emit("failput")
				emit("bq")
				continue
			}
			if h.bqAt == "pre" && r.Chance(6) {
				ch = append(ch, "failput")
			}
			if h.bqAt == "pre" && !stalled && r.Chance(10) {
				stalled = true
				stall = 2 + r.Intn(4)
			}
		}
		if h.trAt != "" {
			ch = append(ch, "tr", "tr", "tr", "tr")
			if h.trAt == "tpre" && r.Chance(10) {
				ch = append(ch, "failround")
			}
		}
		if added < nblocks {
			ch = append(ch, "flush")
		}
		if !reloaded && added >= 3 && added < nblocks && r.Chance(3) {
			ch = append(ch, "reload")
		}
		if len(ch) == 0 || h.broken {
			break
		}
		switch ch[r.Intn(len(ch))] {
		case "add":
			if burst == 0 && r.Chance(25) {
				burst = 2 + r.Intn(6)
			}
			if burst > 0 {
				burst--
			}
			emit(g.block(added))
			added++
		case "bq":
			emit("bq")
		case "tr":
			emit("tr")
		case "failput":
			emit("failput")
			emit("bq")
		case "failround":
			emit("failround")
			emit("tr")
		case "flush":
			if added+4 >= nblocks || r.Chance(85) {
				emit("flushok 1")
			} else {
				emit("flushok 0")
			}
		case "reload":
			reloaded = true
			emit("reload")
		}
	}
	emit("end")
	for _, p := range h.pairs(r, maxPairs) {
		emit(p)
	}
}

// span: the event indices [lo, hi) during which version v of a store (commit indices `commits`) was its content
func (h *verifC09Run) span(commits []int, v int) (int, int) {
	lo := commits[v]
	hi := len(h.events) + 1
	if v+1 < len(commits) {
		hi = commits[v+1]
	}
	return lo, hi
}

// confirmedBy: the highest round whose WaitForCommit had returned before the (latest possible) crash instant of the pair
func (h *verifC09Run) confirmedBy(ib, it *verifC09Img) int {
	blo, bhi := h.span(h.commitB, ib.ver)
	tlo, thi := h.span(h.commitT, it.ver)
	inst := bhi // (a pair with an older tracker image: the crash instant lies in the block version's interval)
	if blo < thi && tlo < bhi && thi < bhi {
		inst = thi
	}
	best := 0
	for r, at := range h.confAt {
		if at < inst && int(r) > best {
			best = int(r)
		}
	}
	return best
}

// pairs enumerates the crash image pairs to reopen: every pair of logical versions that coexisted at some instant
// (real-time-consistent), one physical image combination each (all of them in the thorough tier), plus a few pairs with an
// OLDER tracker image (the tracker store lagging behind the crash instant).
func (h *verifC09Run) pairs(r *vh.Rng, maxPairs int) []string {
	span := h.span
	byVer := map[byte]map[int][]*verifC09Img{'b': {}, 't': {}}
	for _, im := range h.imgs {
		byVer[im.store][im.ver] = append(byVer[im.store][im.ver], im)
	}
	var rt, lag []string
	for vb := 0; vb <= h.verB; vb++ {
		blo, bhi := span(h.commitB, vb)
		for vt := 0; vt <= h.verT; vt++ {
			tlo, thi := span(h.commitT, vt)
			ibs, its := byVer['b'][vb], byVer['t'][vt]
			if len(ibs) == 0 || len(its) == 0 {
				continue
			}
			if blo < thi && tlo < bhi {
				if vh.Thorough() {
					for _, ib := range ibs {
						for _, it := range its {
							rt = append(rt, fmt.Sprintf("open b=%d t=%d kind=rt", ib.id, it.id))
						}
					}
				} else {
					// prefer images taken inside an open transaction
					pick := func(xs []*verifC09Img) *verifC09Img {
						var mids []*verifC09Img
						for _, x := range xs {
							if x.mid {
								mids = append(mids, x)
							}
						}
						if len(mids) > 0 && r.Chance(60) {
							return mids[r.Intn(len(mids))]
						}
						return xs[r.Intn(len(xs))]
					}
					rt = append(rt, fmt.Sprintf("open b=%d t=%d kind=rt", pick(ibs).id, pick(its).id))
				}
			} else if thi <= blo {
				lag = append(lag, fmt.Sprintf("open b=%d t=%d kind=lag", ibs[r.Intn(len(ibs))].id, its[r.Intn(len(its))].id))
			}
		}
	}
	pickN := func(xs []string, n int) []string {
		if len(xs) <= n {
			return xs
		}
		// keep first and last, sample the rest evenly with a random phase
		out := []string{xs[0]}
		step := float64(len(xs)-1) / float64(n-1)
		ph := float64(r.Intn(1000)) / 1000 * 0.5
		for i := 1; i < n-1; i++ {
			out = append(out, xs[int((float64(i)+ph)*step)])
		}
		return append(out, xs[len(xs)-1])
	}
	nlag := 3
	if vh.Thorough() {
		nlag = 12
	}
	return append(pickN(rt, maxPairs), pickN(lag, nlag)...)
}

// ------------------------------------------------------------------------------------------------ test

func TestVerifC09(t *testing.T) {
	t.Chdir(t.TempDir())
	logging.Base().SetLevel(logging.Panic)
	logging.Base().SetOutput(io.Discard)
	out := vh.Open("c09")
	defer out.Close()
	h := &verifC09Run{t: t}
	defer func() {
		h.closeLive()
		verifC09Active.Store(nil)
	}()
	if os.Getenv("VERIF_C09_HOOKED") != "1" {
		out.Emit("nohooks", "the overlay copy of ledger/blockqueue.go with the syncer hooks is not installed")
		return
	}
	if ops, ok := vh.ReplayOps(); ok {
		for _, op := range ops {
			out.Emit(op, h.exec(op))
		}
		return
	}
	nhist := vh.Budget(6, 24)
	for i := 0; i < nhist; i++ {
		g := &verifC09Gen{r: vh.NewRng(vh.Seed()*1000003 + uint64(i)*7919 + 9)}
		nblocks := 10 + g.r.Intn(12)
		maxPairs := 22
		if vh.Thorough() {
			nblocks = 12 + g.r.Intn(30)
			maxPairs = 150
		}
		g.history(h, out, i+1, nblocks, maxPairs)
		out.Flush()
	}
	_ = eval.Eval
}
