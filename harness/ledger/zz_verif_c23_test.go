//go:build verif

package ledger

// C23 — application storage accounting matches stored state (model lean/AlgoVerif/Model/AppStorage.lean, driver `c23`).
//
// A real Ledger (on-disk sqlite in t.TempDir(), ConsensusFuture; generated cases share one ledger for up to 60 cases — opening
// one costs seconds — a replay always starts on a fresh one) is used; for every block a real BlockEvaluator is started with
// a tracer; every generated transaction group is fed to the real eval.TransactionGroup.  Application calls carry EFFECT
// SCRIPTS which this harness compiles into straight-line TEAL (one opcode per effect, see c23Teal) and installs as the
// approval program of the called application (by an UpdateApplication transaction in a preparatory group; the installed
// program skips the effects on UpdateApplication), so the REAL AVM (logic/box.go, opAppGlobalPut, …) and the REAL
// evaluator storage code (ledger/eval/appcow.go, applications.go) execute what the model applies.
// After every group the harness ENUMERATES, through the evaluator's top-level cow, every application of the case:
// params flags, schemas, the evaluator's usage counters (getStorageCounts), all global / local keys, all boxes (kv store
// keys with the application's prefix: committed ones through Ledger.LookupKeysByPrefix plus the pending kv modifications),
// and the application ACCOUNT's TotalBoxes / TotalBoxBytes.  After every block the same dump is produced from the committed
// Ledger alone (LookupApplication / LookupKeysByPrefix / LookupKv / LookupAccount).
// The tracer checks after EVERY opcode executed by the real AVM that  dirtyBytes = Σ over boxes marked dirty of their
// current length  and  dirtyBytes ≤ ioBudget  (token I=…).
//
// Universe: accounts 1..4 (lcAddr of the lcore harness), fee sink 7, rewards pool 8.  Applications are named by ORDINALS:
// the n-th application created (by a successful group) in the case is application n; the harness maps ordinals to the real
// application ids (txn counter + 1) when it builds transactions and compiles scripts, so a case replays on a fresh ledger.
// Ordinals that name no application map to an id that does not exist.
//
// Op grammar:
//   reset                          new case: fresh applications (fresh ledger on replay)            → ok
//   block                          end the running block if any, start the next one               → ok
//   group T;T;…                    one transaction group                                           → CLS[@i] L=… D=dirty/budget I=ok | DUMP
//   endblock                       GenerateBlock + Validate + AddValidatedBlock                    → end | DUMP (committed ledger)
// Transactions (',' separated):
//   create,SND,gU,gB,lU,lB,ACCTS,REFS,SCRIPT      application creation (the script runs at creation)
//   call,SND,APP,OC,ACCTS,REFS,SCRIPT             OC ∈ noop optin closeout delete clear   (clear: SCRIPT must be -)
//   update,SND,APP,gU,gB                          UpdateApplication carrying a new global schema (size update iff non-zero)
//   fund,SND,APP,AMT                              payment to the application account of APP
//   ACCTS = a+b… | -      REFS = APP.NAMEHEX+… | -   (APP 0 = the called / created application; "0." = the empty reference)
//   SCRIPT = effect/effect… | -      values V = HEX_N (the bytes HEX followed by N zero bytes)
//   effects: gp.K.u.N  gp.K.b.V  gd.K  lp.A.K.u.N  lp.A.K.b.V  ld.A.K      (K hex; A account id)
//            bc.O.NAME.N  br.O.NAME.N  bp.O.NAME.V  bw.O.NAME.START.V  bs.O.NAME.START.LEN.V  bd.O.NAME  bl.O.NAME
//                 (O = 0: box_* on the own application; O ≠ 0: app_box_* with owner application id O)
//            fam.B  fbr.B      app_params_set AppFamilyBoxAccess / AppForeignBoxReads
//   bc, bd log their result, bl logs "exists" then "length" (8-byte big-endian each).
// Dump tokens (sorted): T<app>=boxes,bytes  X<app>=creator,fba,fbr,gU.gB,lU.lB,cu.cb  G<app>:K=u<N>|b<HEX>
//   L<app>@<acct>=lU.lB,cu.cb  L<app>@<acct>:K=…  B<app>:NAME=<rle>      rle = runs HEXBYTE*count joined by '.'

import (
	"encoding/binary"
	"encoding/hex"
	"errors"
	"fmt"
	"os"
	"sort"
	"strconv"
	"strings"
	"testing"

	"github.com/algorand/avm-abi/apps"

	"github.com/algorand/go-algorand/agreement"
	"github.com/algorand/go-algorand/config"
	"github.com/algorand/go-algorand/crypto"
	"github.com/algorand/go-algorand/data/basics"
	"github.com/algorand/go-algorand/data/bookkeeping"
	"github.com/algorand/go-algorand/data/committee"
	"github.com/algorand/go-algorand/data/transactions"
	"github.com/algorand/go-algorand/data/transactions/logic"
	"github.com/algorand/go-algorand/ledger/eval"
	"github.com/algorand/go-algorand/ledger/ledgercore"
	"github.com/algorand/go-algorand/logging"
	"github.com/algorand/go-algorand/protocol"
	"github.com/algorand/go-algorand/zz_verif_tools/vh"
)

const c23Users = 4

// ----------------------------------------------------------------------------------------------- tracer (dirty bytes monitor)

type c23Tracer struct {
	logic.NullEvalTracer
	bad    string   // first violation of the dirty-bytes invariant in the current group
	logs   []string // per transaction of the current group
	dirty  uint64
	budget uint64
	ops    int
}

func (tr *c23Tracer) BeforeTxnGroup(ep *logic.EvalParams) {
	tr.bad, tr.logs, tr.dirty, tr.budget = "", make([]string, len(ep.TxnGroup)), 0, 0
}

func (tr *c23Tracer) AfterTxn(ep *logic.EvalParams, gi int, ad transactions.ApplyData, evalError error) {
	var ls []string
	for _, l := range ad.EvalDelta.Logs {
		if len(l) == 8 {
			ls = append(ls, strconv.FormatUint(binary.BigEndian.Uint64([]byte(l)), 10))
		} else {
			ls = append(ls, "x"+hex.EncodeToString([]byte(l)))
		}
	}
	if gi < len(tr.logs) {
		tr.logs[gi] = strings.Join(ls, ".")
	}
}

func (tr *c23Tracer) AfterOpcode(cx *logic.EvalContext, evalError error) {
	tr.ops++
	if evalError != nil || tr.bad != "" {
		return
	}
	ep := cx.EvalParams
	d, b := ep.DirtyByteCount(), ep.GetIOBudget()
	var sum uint64
	for br, dirty := range ep.VerifC23DirtyBoxes() {
		if !dirty {
			continue
		}
		v, ok, err := cx.Ledger.GetBox(br.App, br.Name)
		if err != nil || !ok {
			tr.bad = fmt.Sprintf("BAD:dirty-box-missing:%d.%x", br.App, br.Name)
			return
		}
		sum += uint64(len(v))
	}
	if sum != d {
		tr.bad = fmt.Sprintf("BAD:dirtyBytes=%d,sum-of-dirty-boxes=%d", d, sum)
	} else if d > b {
		tr.bad = fmt.Sprintf("BAD:dirtyBytes=%d>ioBudget=%d", d, b)
	}
}

func (tr *c23Tracer) AfterTxnGroup(ep *logic.EvalParams, deltas *ledgercore.StateDelta, evalError error) {
	tr.dirty, tr.budget = ep.DirtyByteCount(), ep.GetIOBudget()
}

// ----------------------------------------------------------------------------------------------- harness state

type c23H struct {
	t         testing.TB
	l         *Ledger
	ev        *eval.BlockEvaluator
	tr        *c23Tracer
	genHash   crypto.Digest
	cases     int
	apps      []uint64          // real application ids by ordinal (ordinal n = apps[n-1])
	installed map[uint64]string // by ordinal: the compiled approval program (as a string)
	fresh     map[uint64]uint64 // ordinals of the applications the current group creates -> their future real ids
	ledgerAge int
	nonce     uint64
	ver       uint64
	replay    bool
}

func (h *c23H) closeLedger() {
	if h.l != nil {
		h.l.Close()
		h.l, h.ev = nil, nil
	}
}

func (h *c23H) reset() string {
	h.apps, h.installed, h.fresh = nil, map[uint64]string{}, nil
	if h.l != nil && h.ev == nil && h.ledgerAge < 60 && !h.replay {
		// opening a ledger costs seconds (cache allocation): generated cases share one ledger; the applications of earlier
		// cases are simply never named again.  A replay always starts on a fresh ledger (ordinals make that equivalent).
		h.ledgerAge++
		return "ok"
	}
	h.closeLedger()
	h.ledgerAge = 0
	accts := make(map[basics.Address]basics.AccountData)
	for id := uint64(1); id <= c23Users; id++ {
		accts[lcAddr(id)] = basics.AccountData{MicroAlgos: basics.MicroAlgos{Raw: 1000000000000000}}
	}
	accts[lcAddr(lcSink)] = basics.AccountData{Status: basics.NotParticipating, MicroAlgos: basics.MicroAlgos{Raw: 1000000}}
	accts[lcAddr(lcPool)] = basics.AccountData{Status: basics.NotParticipating, MicroAlgos: basics.MicroAlgos{Raw: 1000000}}
	bal := bookkeeping.MakeTimestampedGenesisBalances(accts, lcAddr(lcSink), lcAddr(lcPool), 1700000000)
	h.cases++
	binary.BigEndian.PutUint64(h.genHash[0:8], uint64(h.cases))
	h.genHash[31] = 23
	h.l = newSimpleLedgerFull(h.t, bal, protocol.ConsensusFuture, h.genHash, config.GetDefaultLocal(), simpleLedgerOnDisk())
	return "ok"
}

// real application id of an ordinal
func (h *c23H) real(ord uint64) uint64 {
	if id, ok := h.fresh[ord]; ok {
		return id
	}
	if ord >= 1 && ord <= uint64(len(h.apps)) {
		return h.apps[ord-1]
	}
	return 4000000000 + ord
}

func (h *c23H) startBlock() string {
	if h.ev != nil {
		if r := h.endblock(); !strings.HasPrefix(r, "end") {
			return r
		}
	}
	rnd := h.l.Latest()
	hdr, err := h.l.BlockHdr(rnd)
	if err != nil {
		return "block-error " + err.Error()
	}
	next := bookkeeping.MakeBlock(hdr).BlockHeader
	next.TimeStamp = hdr.TimeStamp + 1
	h.tr = &c23Tracer{}
	opts := eval.EvaluatorOptions{Generate: true, Validate: true, Tracer: h.tr}
	if os.Getenv("VERIF_C23_NOTRACER") != "" { // debugging aid: rule the tracer out as the cause of an observation
		opts.Tracer = nil
	}
	ev, err := eval.StartEvaluator(h.l, next, opts)
	if err != nil {
		return "block-error " + err.Error()
	}
	h.ev = ev
	h.ver = ev.ConsensusParams().LogicSigVersion - 1 // the newest released TEAL version with app_box_* (13)
	return "ok"
}

// ----------------------------------------------------------------------------------------------- TEAL

func c23Value(v string) (string, error) {
	i := strings.IndexByte(v, '_')
	if i < 0 {
		return "", fmt.Errorf("bad value %q", v)
	}
	if _, err := hex.DecodeString(v[:i]); err != nil {
		return "", err
	}
	n, err := strconv.ParseUint(v[i+1:], 10, 32)
	if err != nil {
		return "", err
	}
	s := "pushbytes 0x" + v[:i] + "\n"
	if n > 0 {
		s += fmt.Sprintf("pushint %d\nbzero\nconcat\n", n)
	}
	return s, nil
}

func c23Hex(k string) (string, error) {
	if _, err := hex.DecodeString(k); err != nil {
		return "", err
	}
	return "pushbytes 0x" + k + "\n", nil
}

// c23Teal compiles an effect script into straight-line TEAL
func c23Teal(ver uint64, script string, real func(uint64) uint64) (string, error) {
	var sb strings.Builder
	fmt.Fprintf(&sb, "#pragma version %d\n#pragma typetrack false\ntxn OnCompletion\nint UpdateApplication\n==\nbnz done\n", ver)
	if script != "-" && script != "" {
		for _, e := range strings.Split(script, "/") {
			f := strings.Split(e, ".")
			bad := fmt.Errorf("bad effect %q", e)
			need := map[string]int{"gp": 4, "gd": 2, "lp": 5, "ld": 3, "bc": 4, "br": 4, "bp": 4, "bw": 5, "bs": 6, "bd": 3, "bl": 3, "fam": 2, "fbr": 2}[f[0]]
			if need == 0 || len(f) != need {
				return "", bad
			}
			val := func(ty, v string) (string, error) {
				if ty == "u" {
					n, err := strconv.ParseUint(v, 10, 64)
					return fmt.Sprintf("pushint %d\n", n), err
				} else if ty == "b" {
					return c23Value(v)
				}
				return "", bad
			}
			owner := func(o string) (string, string, error) { // (prefix pushing the owner id, opcode prefix)
				n, err := strconv.ParseUint(o, 10, 64)
				if err != nil {
					return "", "", err
				}
				if n == 0 {
					return "", "box_", nil
				}
				return fmt.Sprintf("pushint %d\n", real(n)), "app_box_", nil
			}
			var code string
			var err error
			switch f[0] {
			case "gp":
				var k, v string
				if k, err = c23Hex(f[1]); err == nil {
					if v, err = val(f[2], f[3]); err == nil {
						code = k + v + "app_global_put\n"
					}
				}
			case "gd":
				var k string
				if k, err = c23Hex(f[1]); err == nil {
					code = k + "app_global_del\n"
				}
			case "lp", "ld":
				a := lcAddr(vh.U(f[1]))
				var k, v string
				if k, err = c23Hex(f[2]); err == nil {
					code = "pushbytes 0x" + hex.EncodeToString(a[:]) + "\n" + k
					if f[0] == "ld" {
						code += "app_local_del\n"
					} else if v, err = val(f[3], f[4]); err == nil {
						code += v + "app_local_put\n"
					}
				}
			case "fam":
				code = fmt.Sprintf("pushint %d\napp_params_set AppFamilyBoxAccess\n", vh.U(f[1]))
			case "fbr":
				code = fmt.Sprintf("pushint %d\napp_params_set AppForeignBoxReads\n", vh.U(f[1]))
			default: // box ops
				var o, opc, name string
				if o, opc, err = owner(f[1]); err != nil {
					break
				}
				if name, err = c23Hex(f[2]); err != nil {
					break
				}
				code = o + name
				switch f[0] {
				case "bc":
					code += fmt.Sprintf("pushint %d\n%screate\nitob\nlog\n", vh.U(f[3]), opc)
				case "br":
					code += fmt.Sprintf("pushint %d\n%sresize\n", vh.U(f[3]), opc)
				case "bp":
					var v string
					if v, err = c23Value(f[3]); err == nil {
						code += v + opc + "put\n"
					}
				case "bw":
					var v string
					if v, err = c23Value(f[4]); err == nil {
						code += fmt.Sprintf("pushint %d\n", vh.U(f[3])) + v + opc + "replace\n"
					}
				case "bs":
					var v string
					if v, err = c23Value(f[5]); err == nil {
						code += fmt.Sprintf("pushint %d\npushint %d\n", vh.U(f[3]), vh.U(f[4])) + v + opc + "splice\n"
					}
				case "bd":
					code += opc + "del\nitob\nlog\n"
				case "bl":
					code += opc + "len\nitob\nlog\nitob\nlog\n"
				}
			}
			if err != nil {
				return "", err
			}
			sb.WriteString(code)
		}
	}
	sb.WriteString("done:\nint 1\n")
	return sb.String(), nil
}

func (h *c23H) program(script string) ([]byte, error) {
	src, err := c23Teal(h.ver, script, h.real)
	if err != nil {
		return nil, err
	}
	ops, err := logic.AssembleString(src)
	if err != nil {
		return nil, fmt.Errorf("assemble: %v", err)
	}
	return ops.Program, nil
}

func (h *c23H) clearProgram() []byte {
	ops, err := logic.AssembleString(fmt.Sprintf("#pragma version %d\nint 1", h.ver))
	if err != nil {
		panic(err)
	}
	return ops.Program
}

// ----------------------------------------------------------------------------------------------- transactions

func (h *c23H) hdr(snd uint64) transactions.Header {
	h.nonce++
	note := make([]byte, 8)
	binary.BigEndian.PutUint64(note, h.nonce)
	return transactions.Header{Sender: lcAddr(snd), Fee: basics.MicroAlgos{Raw: 200000}, FirstValid: h.ev.Round(), LastValid: h.ev.Round() + 10,
		GenesisHash: h.l.GenesisHash(), Note: note}
}

// refs → (ForeignApps, Boxes); self = the called application (0 for a creation)
func (h *c23H) refs(refs string, self uint64, fapps []basics.AppIndex) ([]basics.AppIndex, []transactions.BoxRef, error) {
	var boxes []transactions.BoxRef
	if refs == "-" || refs == "" {
		return fapps, nil, nil
	}
	for _, r := range strings.Split(refs, "+") {
		i := strings.IndexByte(r, '.')
		if i < 0 {
			return nil, nil, fmt.Errorf("bad ref %q", r)
		}
		app := vh.U(r[:i])
		name, err := hex.DecodeString(r[i+1:])
		if err != nil {
			return nil, nil, err
		}
		idx := uint64(0)
		if app != 0 && app != self {
			app = h.real(app)
			for j, a := range fapps {
				if uint64(a) == app {
					idx = uint64(j + 1)
				}
			}
			if idx == 0 {
				fapps = append(fapps, basics.AppIndex(app))
				idx = uint64(len(fapps))
			}
		}
		if len(name) == 0 {
			name = nil // as a decoded transaction has it: BoxRef.Empty() tests Name == nil
		}
		boxes = append(boxes, transactions.BoxRef{Index: idx, Name: name})
	}
	return fapps, boxes, nil
}

func c23Accts(s string) []basics.Address {
	if s == "-" || s == "" {
		return nil
	}
	var out []basics.Address
	for _, a := range strings.Split(s, "+") {
		out = append(out, lcAddr(vh.U(a)))
	}
	return out
}

// parse one transaction; prep receives (app, script) pairs whose program must be installed before the group runs
func (h *c23H) parseTxn(s string, prep *[][2]string) (tx transactions.Transaction, err error) {
	f := strings.Split(s, ",")
	need := map[string]int{"create": 9, "call": 7, "update": 5, "fund": 4}[f[0]]
	if need == 0 || len(f) != need {
		return tx, fmt.Errorf("bad txn %q", s)
	}
	tx.Header = h.hdr(vh.U(f[1]))
	switch f[0] {
	case "fund":
		tx.Type = protocol.PaymentTx
		tx.Receiver = basics.AppIndex(h.real(vh.U(f[2]))).Address()
		tx.Amount = basics.MicroAlgos{Raw: vh.U(f[3])}
	case "create":
		tx.Type = protocol.ApplicationCallTx
		tx.GlobalStateSchema = basics.StateSchema{NumUint: vh.U(f[2]), NumByteSlice: vh.U(f[3])}
		tx.LocalStateSchema = basics.StateSchema{NumUint: vh.U(f[4]), NumByteSlice: vh.U(f[5])}
		tx.Accounts = c23Accts(f[6])
		if tx.ForeignApps, tx.Boxes, err = h.refs(f[7], 0, nil); err != nil {
			return
		}
		if tx.ApprovalProgram, err = h.program(f[8]); err != nil {
			return
		}
		tx.ClearStateProgram = h.clearProgram()
	case "call":
		app := vh.U(f[2])
		tx.Type = protocol.ApplicationCallTx
		tx.ApplicationID = basics.AppIndex(h.real(app))
		oc, ok := map[string]transactions.OnCompletion{"noop": transactions.NoOpOC, "optin": transactions.OptInOC, "closeout": transactions.CloseOutOC,
			"delete": transactions.DeleteApplicationOC, "clear": transactions.ClearStateOC}[f[3]]
		if !ok {
			return tx, fmt.Errorf("bad oc")
		}
		tx.OnCompletion = oc
		tx.Accounts = c23Accts(f[4])
		if tx.ForeignApps, tx.Boxes, err = h.refs(f[5], app, nil); err != nil {
			return
		}
		if oc != transactions.ClearStateOC {
			*prep = append(*prep, [2]string{f[2], f[6]})
		}
	case "update":
		app := vh.U(f[2])
		tx.Type = protocol.ApplicationCallTx
		tx.ApplicationID = basics.AppIndex(h.real(app))
		tx.OnCompletion = transactions.UpdateApplicationOC
		tx.GlobalStateSchema = basics.StateSchema{NumUint: vh.U(f[3]), NumByteSlice: vh.U(f[4])}
		if prog, ok := h.installed[app]; ok {
			tx.ApprovalProgram = []byte(prog) // the update keeps the installed program
		} else if tx.ApprovalProgram, err = h.program("-"); err != nil {
			return
		}
		tx.ClearStateProgram = h.clearProgram()
	}
	return
}

func c23Classify(err error) string {
	if err == nil {
		return "ok"
	}
	var nwf *ledgercore.TxnNotWellFormedError
	var mb *ledgercore.MinBalanceError
	var rej *ledgercore.ApprovalProgramRejectedError
	var pan ledgercore.EvalPanicError
	if os.Getenv("VERIF_C23_DEBUG") != "" {
		fmt.Fprintln(os.Stderr, "ERR0:", err)
	}
	switch {
	case errors.As(err, &nwf):
		return "malformed"
	case errors.As(err, &mb):
		return "minbal"
	case errors.As(err, &rej):
		return "rejected"
	case errors.As(err, &pan):
		return "panic"
	}
	m := err.Error()
	if os.Getenv("VERIF_C23_DEBUG") != "" {
		fmt.Fprintln(os.Stderr, "ERR:", m)
	}
	for _, p := range [][2]string{
		{"unable to change global schema", "schemashrink"},
		{"store integer count", "schemauint"},
		{"store bytes count", "schemabytes"},
		{"invalid Box reference", "boxref"},
		{"write budget exceeded", "wbudget"},
		{"read budget exceeded", "rbudget"},
		{"box size mismatch", "sizemismatch"},
		{"no such box", "nobox"},
		{"may not write box", "denied"},
		{"may not read box", "denied"},
		{"box names may not be zero length", "emptyname"},
		{"name too long", "longname"},
		{"box size too large", "toolarge"},
		{"attempt to box_put wrong size", "putsize"},
		{"replacement start", "range"},
		{"replacement end", "range"},
		{"splice end", "range"},
		{"splice inserted bytes too long", "range"},
		{"key too long", "longkey"},
		{"value too long", "longval"},
		{"key/value total too long", "longsum"},
		{"has already opted in", "alreadyopted"},
		{"has not opted in to app", "notopted"},
		{"is not opted in", "notopted"},
		{"not currently opted in", "notopted"},
		{"only ClearState is supported", "noapp"},
		{"unavailable Account", "unavail"},
		{"unavailable Local State", "unavail"},
		{"unavailable App", "unavail"},
		{"does not exist", "noapp"},
		{"boxes may not be accessed from ClearState", "clearbox"},
	} {
		if strings.Contains(m, p[0]) {
			return p[1]
		}
	}
	if len(m) > 100 {
		m = m[:100]
	}
	if os.Getenv("VERIF_C23_DEBUG") != "" {
		fmt.Fprintln(os.Stderr, "ERR:", err)
	}
	return "other:" + strings.ReplaceAll(m, " ", "_")
}

func (h *c23H) runGroup(txns []transactions.Transaction) (error, int) {
	stxns := make([]transactions.SignedTxn, len(txns))
	if len(txns) > 1 {
		var tg transactions.TxGroup
		for i := range txns {
			tg.TxGroupHashes = append(tg.TxGroupHashes, crypto.Digest(txns[i].ID()))
		}
		gid := crypto.HashObj(tg)
		for i := range txns {
			txns[i].Group = gid
		}
	}
	for i := range txns {
		stxns[i] = transactions.SignedTxn{Txn: txns[i]}
	}
	err := h.ev.TransactionGroup(transactions.WrapSignedTxnsWithAD(stxns)...)
	at := -1
	if err != nil {
		m := err.Error()
		for i := range stxns {
			if strings.Contains(m, "transaction "+stxns[i].Txn.ID().String()+":") {
				at = i
				break
			}
		}
	}
	return err, at
}

func (h *c23H) group(op string) string {
	f := strings.Fields(op)
	var specs []string
	if len(f) >= 2 {
		specs = strings.Split(f[1], ";")
	}
	h.fresh = nil
	// 1. collect the programs to install
	var prep [][2]string
	for _, s := range specs {
		tf := strings.Split(s, ",")
		if tf[0] == "call" && len(tf) == 7 && tf[3] != "clear" {
			prep = append(prep, [2]string{tf[2], tf[6]})
		}
	}
	// 2. which scripts have to be installed (one UpdateApplication each, separate single-transaction groups).  `installed`
	//    remembers the compiled program, not the script text: a script that names an application created in this group
	//    compiles to different bytes when the future id differs.  The future ids depend on the number of preparatory
	//    transactions, which depends on the compiled programs: iterate to the fixed point (it moves at most a few times).
	type prepItem struct {
		app  uint64
		prog []byte
	}
	var needed []prepItem
	var freshOrd []uint64
	base := h.ev.VerifC23Counter()
	nprep := 0
	for iter := 0; ; iter++ {
		ctr := base + uint64(nprep)
		h.fresh = map[uint64]uint64{}
		freshOrd = nil
		for i, s := range specs {
			if strings.HasPrefix(s, "create,") {
				ord := uint64(len(h.apps) + len(freshOrd) + 1)
				h.fresh[ord] = ctr + uint64(i) + 1
				freshOrd = append(freshOrd, ord)
			}
		}
		needed = nil
		pending := map[uint64]string{}
		for _, p := range prep {
			app := vh.U(p[0])
			cur, ok := h.installed[app]
			if q, ok2 := pending[app]; ok2 {
				cur = q
			}
			if !ok {
				continue // not an application of the case (the call will fail by itself)
			}
			if _, _, err := h.ev.VerifC23AppParams(basics.AppIndex(h.real(app))); err != nil {
				continue // deleted
			}
			prog, err := h.program(p[1])
			if err != nil {
				h.fresh = nil
				return "bad-op " + err.Error()
			}
			if cur == string(prog) {
				continue // already installed
			}
			pending[app] = string(prog)
			needed = append(needed, prepItem{app, prog})
		}
		if len(needed) == nprep {
			break
		}
		if iter > 6 {
			h.fresh = nil
			return "prep-failed no fixed point"
		}
		nprep = len(needed)
	}
	ctr := base + uint64(nprep)
	for _, p := range needed {
		var tx transactions.Transaction
		tx.Header = h.hdr(1)
		tx.Type = protocol.ApplicationCallTx
		tx.ApplicationID = basics.AppIndex(h.real(p.app))
		tx.OnCompletion = transactions.UpdateApplicationOC
		tx.ApprovalProgram, tx.ClearStateProgram = p.prog, h.clearProgram()
		if err, _ := h.runGroup([]transactions.Transaction{tx}); err != nil {
			h.fresh = nil
			return "prep-failed " + c23Classify(err)
		}
		h.installed[p.app] = string(p.prog)
	}
	if got := h.ev.VerifC23Counter(); got != ctr {
		h.fresh = nil
		return fmt.Sprintf("prep-failed counter %d != %d", got, ctr)
	}
	var unused [][2]string
	txns := make([]transactions.Transaction, 0, len(specs))
	for _, s := range specs {
		tx, err := h.parseTxn(s, &unused)
		if err != nil {
			h.fresh = nil
			return "bad-op " + err.Error()
		}
		txns = append(txns, tx)
	}
	// 4. the group itself
	err, at := h.runGroup(txns)
	cls := c23Classify(err)
	if err != nil && at >= 0 {
		cls += "@" + strconv.Itoa(at)
	}
	var sb strings.Builder
	sb.WriteString(cls)
	if err == nil {
		k := 0
		for _, s := range specs {
			if strings.HasPrefix(s, "create,") {
				ord := freshOrd[k]
				k++
				h.apps = append(h.apps, h.fresh[ord])
				if prog, perr := h.program(strings.Split(s, ",")[8]); perr == nil {
					h.installed[ord] = string(prog)
				}
			}
		}
		fmt.Fprintf(&sb, " L=%s D=%d/%d", strings.Join(h.tr.logs, ";"), h.tr.dirty, h.tr.budget)
	}
	h.fresh = nil
	inv := "ok"
	if h.tr.bad != "" {
		inv = h.tr.bad
	}
	fmt.Fprintf(&sb, " I=%s | %s", inv, h.dumpEval())
	return sb.String()
}

// ----------------------------------------------------------------------------------------------- dumps

func c23RLE(b []byte) string {
	if len(b) == 0 {
		return "-"
	}
	var sb strings.Builder
	for i := 0; i < len(b); {
		j := i
		for j < len(b) && b[j] == b[i] {
			j++
		}
		if sb.Len() > 0 {
			sb.WriteByte('.')
		}
		fmt.Fprintf(&sb, "%02x*%d", b[i], j-i)
		i = j
	}
	return sb.String()
}

func c23TV(v basics.TealValue) string {
	switch v.Type {
	case basics.TealUintType:
		return "u" + strconv.FormatUint(v.Uint, 10)
	case basics.TealBytesType:
		return "b" + hex.EncodeToString([]byte(v.Bytes))
	}
	return "?type" + strconv.Itoa(int(v.Type))
}

func c23Sch(s basics.StateSchema) string { return fmt.Sprintf("%d.%d", s.NumUint, s.NumByteSlice) }

func c23B(b bool) string {
	if b {
		return "1"
	}
	return "0"
}

// dumpEval: the state as the in-progress evaluator sees it
func (h *c23H) dumpEval() string {
	var toks []string
	prev := h.l.Latest()
	mods := h.ev.VerifC23KvModKeys()
	for i, id := range h.apps {
		a := uint64(i + 1)
		aidx := basics.AppIndex(id)
		rec, err := h.ev.VerifC23Lookup(aidx.Address())
		if err != nil {
			toks = append(toks, fmt.Sprintf("T%d=ERR", a))
		} else {
			toks = append(toks, fmt.Sprintf("T%d=%d,%d", a, rec.TotalBoxes, rec.TotalBoxBytes))
		}
		if p, cr, err := h.ev.VerifC23AppParams(aidx); err == nil {
			cnt, e1 := h.ev.VerifC23Counts(cr, aidx, true)
			lim, e2 := h.ev.VerifC23Limits(cr, aidx, true)
			x := fmt.Sprintf("X%d=%s,%s,%s,%s,%s,%s", a, lcAddrID(cr), c23B(p.FamilyBoxAccess), c23B(p.ForeignBoxReads), c23Sch(p.GlobalStateSchema), c23Sch(p.LocalStateSchema), c23Sch(cnt))
			if e1 != nil || e2 != nil || lim != p.GlobalStateSchema {
				x += ",LIMITS-DIFFER"
			}
			toks = append(toks, x)
			keys, err := h.ev.VerifC23Keys(cr, aidx, true)
			if err != nil {
				toks = append(toks, fmt.Sprintf("G%d:ERR", a))
			}
			for _, k := range keys {
				if v, ok, err := h.ev.VerifC23GetKey(cr, aidx, true, k); err != nil {
					toks = append(toks, fmt.Sprintf("G%d:%x=ERR", a, k))
				} else if ok {
					toks = append(toks, fmt.Sprintf("G%d:%x=%s", a, k, c23TV(v)))
				}
			}
		}
		for u := uint64(1); u <= c23Users; u++ {
			addr := lcAddr(u)
			alloc, err := h.ev.VerifC23Allocated(addr, aidx, false)
			if err != nil {
				toks = append(toks, fmt.Sprintf("L%d@%d=ERR", a, u))
				continue
			}
			if !alloc {
				continue
			}
			sch, _, e0 := h.ev.VerifC23LocalSchema(addr, aidx)
			cnt, e1 := h.ev.VerifC23Counts(addr, aidx, false)
			x := fmt.Sprintf("L%d@%d=%s,%s", a, u, c23Sch(sch), c23Sch(cnt))
			if e0 != nil || e1 != nil {
				x += ",ERR"
			}
			toks = append(toks, x)
			keys, err := h.ev.VerifC23Keys(addr, aidx, false)
			if err != nil {
				toks = append(toks, fmt.Sprintf("L%d@%d:ERR", a, u))
			}
			for _, k := range keys {
				if v, ok, err := h.ev.VerifC23GetKey(addr, aidx, false, k); err != nil {
					toks = append(toks, fmt.Sprintf("L%d@%d:%x=ERR", a, u, k))
				} else if ok {
					toks = append(toks, fmt.Sprintf("L%d@%d:%x=%s", a, u, k, c23TV(v)))
				}
			}
		}
		// boxes: committed keys with the application's prefix + pending kv modifications
		prefix := apps.MakeBoxKey(id, "")
		names := map[string]bool{}
		ks, err := h.l.LookupKeysByPrefix(prev, prefix, 1000000)
		if err != nil {
			if os.Getenv("VERIF_C23_DEBUG") != "" {
				fmt.Fprintln(os.Stderr, "ERR: LookupKeysByPrefix", prev, err)
			}
			toks = append(toks, fmt.Sprintf("B%d:ERR", a))
		}
		for _, k := range ks {
			names[k[len(prefix):]] = true
		}
		for _, k := range mods {
			if strings.HasPrefix(k, prefix) {
				names[k[len(prefix):]] = true
			}
		}
		for n := range names {
			if v, ok, err := h.ev.VerifC23Box(aidx, n); err != nil {
				toks = append(toks, fmt.Sprintf("B%d:%x=ERR", a, n))
			} else if ok {
				toks = append(toks, fmt.Sprintf("B%d:%x=%s", a, n, c23RLE(v)))
			}
		}
	}
	sort.Strings(toks)
	return strings.Join(toks, " ")
}

// dumpLedger: the same dump from the committed ledger alone
func (h *c23H) dumpLedger() string {
	var toks []string
	rnd := h.l.Latest()
	for i, id := range h.apps {
		a := uint64(i + 1)
		aidx := basics.AppIndex(id)
		rec, _, _, err := h.l.LookupAccount(rnd, aidx.Address())
		if err != nil {
			toks = append(toks, fmt.Sprintf("T%d=ERR", a))
		} else {
			toks = append(toks, fmt.Sprintf("T%d=%d,%d", a, rec.TotalBoxes, rec.TotalBoxBytes))
		}
		if cr, ok, err := h.l.GetCreator(basics.CreatableIndex(id), basics.AppCreatable); err != nil {
			toks = append(toks, fmt.Sprintf("X%d=ERR", a))
		} else if ok {
			res, err := h.l.LookupApplication(rnd, cr, aidx)
			if err != nil || res.AppParams == nil {
				toks = append(toks, fmt.Sprintf("X%d=ERR", a))
			} else {
				p := res.AppParams
				cnt, err := p.GlobalState.ToStateSchema()
				x := fmt.Sprintf("X%d=%s,%s,%s,%s,%s,%s", a, lcAddrID(cr), c23B(p.FamilyBoxAccess), c23B(p.ForeignBoxReads), c23Sch(p.GlobalStateSchema), c23Sch(p.LocalStateSchema), c23Sch(cnt))
				if err != nil {
					x += ",ERR"
				}
				toks = append(toks, x)
				for k, v := range p.GlobalState {
					toks = append(toks, fmt.Sprintf("G%d:%x=%s", a, k, c23TV(v)))
				}
			}
		}
		for u := uint64(1); u <= c23Users; u++ {
			res, err := h.l.LookupApplication(rnd, lcAddr(u), aidx)
			if err != nil {
				toks = append(toks, fmt.Sprintf("L%d@%d=ERR", a, u))
				continue
			}
			if res.AppLocalState == nil {
				continue
			}
			cnt, err := res.AppLocalState.KeyValue.ToStateSchema()
			x := fmt.Sprintf("L%d@%d=%s,%s", a, u, c23Sch(res.AppLocalState.Schema), c23Sch(cnt))
			if err != nil {
				x += ",ERR"
			}
			toks = append(toks, x)
			for k, v := range res.AppLocalState.KeyValue {
				toks = append(toks, fmt.Sprintf("L%d@%d:%x=%s", a, u, k, c23TV(v)))
			}
		}
		prefix := apps.MakeBoxKey(id, "")
		ks, err := h.l.LookupKeysByPrefix(rnd, prefix, 1000000)
		if err != nil {
			toks = append(toks, fmt.Sprintf("B%d:ERR", a))
		}
		for _, k := range ks {
			v, err := h.l.LookupKv(rnd, k)
			if err != nil || v == nil {
				toks = append(toks, fmt.Sprintf("B%d:%x=ERR", a, k[len(prefix):]))
			} else {
				toks = append(toks, fmt.Sprintf("B%d:%x=%s", a, k[len(prefix):], c23RLE(v)))
			}
		}
	}
	sort.Strings(toks)
	return strings.Join(toks, " ")
}

func (h *c23H) endblock() string {
	ub, err := h.ev.GenerateBlock(nil)
	if err != nil {
		return "end-error generate:" + c23Classify(err)
	}
	vb := ledgercore.MakeValidatedBlock(ub.UnfinishedBlock(), ub.UnfinishedDeltas())
	prp := vb.Block().BlockHeader.FeeSink
	if h.l.GenesisProto().Payouts.Enabled {
		vb = ledgercore.MakeValidatedBlock(vb.Block().WithProposer(committee.Seed(prp), prp, true), vb.Delta())
	} else {
		vb = ledgercore.MakeValidatedBlock(vb.Block().WithProposer(committee.Seed(prp), basics.Address{}, false), vb.Delta())
	}
	vvb, err := validateWithoutSignatures(h.t, h.l, vb.Block())
	if err != nil {
		return "end-error validate:" + c23Classify(err)
	}
	if err = h.l.AddValidatedBlock(*vvb, agreement.Certificate{}); err != nil {
		return "end-error add:" + c23Classify(err)
	}
	h.l.WaitForCommit(h.l.Latest())
	// let the tracker flush finish: the dumps query the kv store by prefix, and the sqlite reader of
	// LookupKeysByPrefix does not look at rows.Err(), so a concurrent flush can cut its result short
	h.l.trackers.waitAccountsWriting()
	h.ev = nil
	return "end | " + h.dumpLedger()
}

func (h *c23H) exec(op string) string {
	return vh.Catch(func() string {
		switch {
		case op == "reset":
			return h.reset()
		case h.l == nil:
			return "bad-op"
		case op == "block":
			return h.startBlock()
		case h.ev == nil:
			return "bad-op"
		case op == "group" || strings.HasPrefix(op, "group "):
			return h.group(op)
		case op == "endblock":
			return h.endblock()
		}
		return "bad-op"
	})
}

// ----------------------------------------------------------------------------------------------- generator

// The generator keeps a rough picture of the case (updated only when a group succeeded) so that most effects are valid:
// which applications exist, their schemas and creators, who opted in, which boxes exist with which size.
type c23GApp struct {
	ord, creator   uint64
	gU, gB, lU, lB uint64
	opted          map[uint64]bool
	boxes          map[string]uint64
	gkeys          map[string]byte // 'u' / 'b'
	fam            bool
	dead           bool
}

type c23Gen struct {
	r     *vh.Rng
	h     *c23H
	apps  []*c23GApp
	keys  []string
	names []string
	multi bool // the group being generated has more than one application call
}

func (g *c23Gen) pick(xs ...uint64) uint64 { return xs[g.r.Intn(len(xs))] }
func (g *c23Gen) user() uint64             { return uint64(1 + g.r.Intn(c23Users)) }

func (g *c23Gen) key() string {
	switch g.r.Intn(60) {
	case 0:
		return strings.Repeat("6b", 64) // max length
	case 1:
		return strings.Repeat("6b", 65) // too long
	case 2:
		return "" // the empty key is legal for global / local state
	}
	return g.keys[g.r.Intn(len(g.keys))]
}

func (g *c23Gen) freshName() string {
	switch g.r.Intn(60) {
	case 0:
		return strings.Repeat("6e", 64)
	case 1:
		return strings.Repeat("6e", 65)
	case 2:
		return ""
	}
	return g.names[g.r.Intn(len(g.names))]
}

func (g *c23Gen) existingName(a *c23GApp) (string, bool) {
	if len(a.boxes) == 0 {
		return "", false
	}
	var ns []string
	for n := range a.boxes {
		ns = append(ns, n)
	}
	sort.Strings(ns)
	return ns[g.r.Intn(len(ns))], true
}

func (g *c23Gen) smallVal() string {
	switch g.r.Intn(30) {
	case 0:
		return "_0"
	case 1:
		return "ff_127" // 128 bytes: the maximum value length
	case 2:
		return "ff_128" // too long
	case 3:
		return "aa_63" // 64 bytes: with a 64/65-byte key the sum limit (128) matters
	}
	return hex.EncodeToString(g.r.Bytes(1+g.r.Intn(3))) + "_" + strconv.Itoa(g.r.Intn(3))
}

func (g *c23Gen) size() uint64 {
	switch g.r.Intn(24) {
	case 0:
		return 0
	case 1:
		return 2048
	case 2:
		return 2049
	case 3:
		return 4096
	case 4:
		return 4097
	case 5:
		return 6144
	case 6:
		return 32768
	case 7:
		return 32769
	case 8:
		return 2047
	case 9:
		return 1024
	}
	return uint64(g.r.Intn(40))
}

func (g *c23Gen) boxVal() string {
	switch g.r.Intn(12) {
	case 0:
		return fmt.Sprintf("01_%d", 2047)
	case 1:
		return fmt.Sprintf("01_%d", 2048)
	case 2:
		return "_0"
	case 3:
		return fmt.Sprintf("02_%d", 4095)
	}
	return hex.EncodeToString(g.r.Bytes(1+g.r.Intn(4))) + "_" + strconv.Itoa(g.r.Intn(30))
}

// one box effect of application `self` on a box of `owner`
func (g *c23Gen) boxEffect(self, owner *c23GApp, used map[string]bool) string {
	o := uint64(0)
	if owner.ord != self.ord || g.r.Chance(10) {
		o = owner.ord
	}
	n, have := g.existingName(owner)
	k := g.r.Intn(100)
	if !have || g.r.Chance(12) {
		n = g.freshName()
		if k >= 45 && g.r.Chance(70) {
			k = g.r.Intn(45) // a box that (probably) does not exist: create / put it
		}
	}
	used[fmt.Sprintf("%d.%s", owner.ord, n)] = true
	cur := owner.boxes[n]
	switch {
	case k < 25:
		sz := g.size()
		if have && g.r.Chance(50) {
			sz = cur // create of an existing box with the same size is a no-op
		}
		return fmt.Sprintf("bc.%d.%s.%d", o, n, sz)
	case k < 45:
		v := g.boxVal()
		if have && cur <= 4096 && g.r.Chance(75) {
			v = fmt.Sprintf("%s_%d", hex.EncodeToString(g.r.Bytes(int(cur)%3)), cur-cur%3) // the existing size
		}
		return fmt.Sprintf("bp.%d.%s.%s", o, n, v)
	case k < 62:
		sz := g.size()
		if g.r.Chance(40) {
			sz = g.pick(cur+1, cur+2048, cur/2, 0, cur)
		}
		return fmt.Sprintf("br.%d.%s.%d", o, n, sz)
	case k < 74:
		st := g.pick(0, 0, 1, 5, 40)
		if cur > 4 && g.r.Chance(60) {
			st = g.pick(cur-1, cur-2, cur/2, cur)
		}
		return fmt.Sprintf("bw.%d.%s.%d.%s_0", o, n, st, hex.EncodeToString(g.r.Bytes(1+g.r.Intn(3))))
	case k < 80:
		return fmt.Sprintf("bs.%d.%s.%d.%d.%s_0", o, n, g.pick(0, 1, 3, cur), g.pick(0, 1, 2, 5), hex.EncodeToString(g.r.Bytes(g.r.Intn(4))))
	case k < 93:
		return fmt.Sprintf("bd.%d.%s", o, n)
	}
	return fmt.Sprintf("bl.%d.%s", o, n)
}

func (g *c23Gen) globalEffect(a *c23GApp) string {
	switch k := g.r.Intn(100); {
	case k < 40:
		return fmt.Sprintf("gp.%s.u.%d", g.key(), g.pick(0, 1, 7, ^uint64(0)))
	case k < 75:
		return fmt.Sprintf("gp.%s.b.%s", g.key(), g.smallVal())
	}
	if len(a.gkeys) > 0 && g.r.Chance(80) {
		var ks []string
		for k := range a.gkeys {
			ks = append(ks, k)
		}
		sort.Strings(ks)
		return "gd." + ks[g.r.Intn(len(ks))]
	}
	return "gd." + g.key()
}

func (g *c23Gen) localEffect(a *c23GApp, targets []uint64) string {
	// prefer targets that are opted in
	t := targets[g.r.Intn(len(targets))]
	for try := 0; try < 4 && !a.opted[t]; try++ {
		t = targets[g.r.Intn(len(targets))]
	}
	switch k := g.r.Intn(100); {
	case k < 40:
		return fmt.Sprintf("lp.%d.%s.u.%d", t, g.key(), g.pick(0, 1, 9))
	case k < 78:
		return fmt.Sprintf("lp.%d.%s.b.%s", t, g.key(), g.smallVal())
	}
	return fmt.Sprintf("ld.%d.%s", t, g.key())
}

func (g *c23Gen) alive() []*c23GApp {
	var out []*c23GApp
	for _, a := range g.apps {
		if !a.dead {
			out = append(out, a)
		}
	}
	return out
}

func (g *c23Gen) script(self *c23GApp, snd uint64, accts []uint64, oc string, maxLen int) (string, map[string]bool) {
	used := map[string]bool{}
	n := g.r.Intn(maxLen + 1)
	targets := append([]uint64{snd}, accts...)
	if g.r.Chance(4) && !g.multi {
		// maybe unavailable.  Only in single-call groups: with several calls in a group the accounts and locals of the
		// other members are shared (resources.go), which the model does not follow.
		targets = append(targets, g.user())
	}
	anyOpted := oc == "optin"
	for _, t := range targets {
		anyOpted = anyOpted || self.opted[t]
	}
	if oc == "optin" {
		self = &c23GApp{ord: self.ord, creator: self.creator, opted: map[uint64]bool{snd: true}, boxes: self.boxes, gkeys: self.gkeys, fam: self.fam}
		if self.ord >= 1 && self.ord <= uint64(len(g.apps)) {
			for k := range g.apps[self.ord-1].opted {
				self.opted[k] = true
			}
		}
	}
	var owners []*c23GApp
	for _, o := range g.alive() {
		if o.ord != self.ord {
			owners = append(owners, o)
		}
	}
	var es []string
	for i := 0; i < n; i++ {
		k := g.r.Intn(100)
		switch {
		case k < 28:
			es = append(es, g.globalEffect(self))
		case k < 48 && (anyOpted || g.r.Chance(10)):
			es = append(es, g.localEffect(self, targets))
		case k < 52:
			es = append(es, fmt.Sprintf("fam.%d", g.pick(0, 1, 1, 1, 2)))
		case k < 54:
			es = append(es, fmt.Sprintf("fbr.%d", g.pick(0, 1, 1)))
		default:
			owner := self
			if len(owners) > 0 && g.r.Chance(30) {
				owner = owners[g.r.Intn(len(owners))]
				// prefer owners the caller may write: same creator with the family flag
				for try := 0; try < 3 && !(owner.fam && owner.creator == self.creator); try++ {
					owner = owners[g.r.Intn(len(owners))]
				}
			} else if g.r.Chance(2) {
				owner = &c23GApp{ord: 77} // no such application
			}
			es = append(es, g.boxEffect(self, owner, used))
		}
	}
	if len(es) == 0 {
		return "-", used
	}
	return strings.Join(es, "/"), used
}

// refs for the boxes a script touches: mostly complete, sometimes one missing, sometimes extra (budget) references
func (g *c23Gen) refs(self uint64, used map[string]bool, script string, maxRefs int) string {
	var rs []string
	var ks []string
	for k := range used {
		ks = append(ks, k)
	}
	sort.Strings(ks)
	for _, k := range ks {
		if g.r.Chance(4) {
			continue // missing reference
		}
		i := strings.IndexByte(k, '.')
		app := vh.U(k[:i])
		if len(k[i+1:]) > 128 || len(k[i+1:]) == 0 {
			continue // over-long / empty names cannot be referenced usefully
		}
		if app == self && g.r.Bool() {
			app = 0
		}
		rs = append(rs, fmt.Sprintf("%d.%s", app, k[i+1:]))
	}
	// budget: big sizes in the script want more references
	want := 0
	for _, e := range strings.Split(script, "/") {
		f := strings.Split(e, ".")
		if (f[0] == "bc" || f[0] == "br") && len(f) == 4 {
			want += int(vh.U(f[3]) / 2048)
		}
		if f[0] == "bp" && len(f) == 4 {
			if j := strings.IndexByte(f[3], '_'); j >= 0 {
				want += int(vh.U(f[3][j+1:]) / 2048)
			}
		}
	}
	for len(rs) < maxRefs && (want > 0 && g.r.Chance(85) || g.r.Chance(15)) {
		rs = append(rs, "0.") // empty reference: more i/o budget, one unnamed access
		want--
	}
	if len(rs) > maxRefs {
		rs = rs[:maxRefs]
	}
	if len(rs) == 0 {
		return "-"
	}
	return strings.Join(rs, "+")
}

func (g *c23Gen) acctList(a *c23GApp, snd uint64) ([]uint64, string) {
	var out []uint64
	for u := uint64(1); u <= c23Users; u++ {
		p := 15
		if a.opted[u] {
			p = 45
		}
		if u != snd && g.r.Chance(p) && len(out) < 2 {
			out = append(out, u)
		}
	}
	if len(out) == 0 {
		return nil, "-"
	}
	var s []string
	for _, u := range out {
		s = append(s, strconv.FormatUint(u, 10))
	}
	return out, strings.Join(s, "+")
}

// distinct foreign applications named by a reference list (they count against the 8 total references)
func c23ForeignCount(refs string, self uint64) int {
	seen := map[string]bool{}
	if refs == "-" {
		return 0
	}
	for _, r := range strings.Split(refs, "+") {
		a := r[:strings.IndexByte(r, '.')]
		if a != "0" && a != strconv.FormatUint(self, 10) {
			seen[a] = true
		}
	}
	return len(seen)
}

func c23RefCount(refs string) int {
	if refs == "-" {
		return 0
	}
	return len(strings.Split(refs, "+"))
}

// fit: drop references until accounts + foreign apps + boxes ≤ 8
func c23Fit(refs string, self uint64, naccts int) string {
	for refs != "-" && naccts+c23ForeignCount(refs, self)+c23RefCount(refs) > 8 {
		rs := strings.Split(refs, "+")
		rs = rs[:len(rs)-1]
		if len(rs) == 0 {
			refs = "-"
		} else {
			refs = strings.Join(rs, "+")
		}
	}
	return refs
}

func (g *c23Gen) genCreate(ord uint64) (string, *c23GApp) {
	snd := g.user()
	if g.r.Chance(65) {
		snd = 1 // a common creator makes families
	}
	a := &c23GApp{ord: ord, creator: snd, gU: uint64(g.r.Intn(4)), gB: uint64(g.r.Intn(4)), lU: uint64(g.r.Intn(3)), lB: uint64(g.r.Intn(3)),
		opted: map[uint64]bool{}, boxes: map[string]uint64{}, gkeys: map[string]byte{}}
	script, refs := "-", "-"
	switch k := g.r.Intn(100); {
	case k < 30:
		script = "fam.1"
	case k < 60:
		var used map[string]bool
		script, used = g.script(a, snd, nil, "noop", 4)
		// local effects at creation always fail (nobody is opted in): keep them rare
		if (strings.Contains(script, "lp.") || strings.Contains(script, "ld.")) && g.r.Chance(90) {
			script, used = "fam.1/gp.61.u.1", map[string]bool{}
		}
		refs = c23Fit(g.refs(a.ord, used, script, 5), a.ord, 0)
		refs = strings.ReplaceAll("+"+refs, fmt.Sprintf("+%d.", a.ord), "+0.")[1:] // the application being created is index 0
	}
	return fmt.Sprintf("create,%d,%d,%d,%d,%d,-,%s,%s", snd, a.gU, a.gB, a.lU, a.lB, refs, script), a
}

func (g *c23Gen) genCall(self *c23GApp) string {
	snd := g.user()
	ocs := []string{"noop", "noop", "noop", "noop", "noop", "noop", "noop", "optin", "optin", "closeout", "clear", "delete"}
	oc := ocs[g.r.Intn(len(ocs))]
	switch {
	case oc == "optin" && g.r.Chance(85): // somebody not yet opted in
		for try := 0; try < 4 && self.opted[snd]; try++ {
			snd = g.user()
		}
	case (oc == "closeout" || oc == "clear") && g.r.Chance(85):
		for try := 0; try < 4 && !self.opted[snd]; try++ {
			snd = g.user()
		}
	case oc == "delete" && g.r.Chance(60):
		oc = "noop"
	}
	if oc == "clear" {
		return fmt.Sprintf("call,%d,%d,clear,-,-,-", snd, self.ord)
	}
	if oc == "optin" && snd == self.creator {
		// a creator that opts in to its own application and closes out makes later app-params writes of the same block
		// panic in the evaluator (corpus/C23/observations): not C23's subject, and it would mask the correspondence
		oc = "noop"
	}
	accts, as := g.acctList(self, snd)
	script, used := g.script(self, snd, accts, oc, 7)
	refs := c23Fit(g.refs(self.ord, used, script, 7), self.ord, len(accts))
	return fmt.Sprintf("call,%d,%d,%s,%s,%s,%s", snd, self.ord, oc, as, refs, script)
}

// directed scenarios for the rules the property names (each returns the groups of one scenario)
func (g *c23Gen) scenario(a *c23GApp) []string {
	snd := g.user()
	for snd == a.creator { // see genCall: creators do not opt in to their own application
		snd = g.user()
	}
	one := func(script, refs string) string {
		return fmt.Sprintf("group call,%d,%d,noop,-,%s,%s", snd, a.ord, refs, script)
	}
	switch g.r.Intn(5) {
	case 0: // fill the global schema exactly, then one more of each type, then type changes at the limit
		var es []string
		for i := uint64(0); i < a.gU; i++ {
			es = append(es, fmt.Sprintf("gp.%s.u.%d", g.keys[i], i))
		}
		for i := uint64(0); i < a.gB; i++ {
			es = append(es, fmt.Sprintf("gp.%s.b.0%d_1", g.keys[3+i], i))
		}
		out := []string{}
		if len(es) > 0 {
			out = append(out, one(strings.Join(es, "/"), "-"))
		}
		out = append(out, one("gp.7a.u.1", "-"), one("gp.7a.b.01_0", "-"))
		if a.gU > 0 {
			out = append(out, one(fmt.Sprintf("gp.%s.b.aa_0", g.keys[0]), "-"), one(fmt.Sprintf("gp.%s.b.aa_0/gd.%s/gp.7a.u.3", g.keys[0], g.keys[3]), "-"))
		}
		if a.gB > 0 {
			out = append(out, one(fmt.Sprintf("gp.%s.u.5", g.keys[3]), "-"), one(fmt.Sprintf("gd.%s/gp.%s.u.5/gp.79.u.1", g.keys[0], g.keys[3]), "-"))
		}
		return out
	case 1: // box life cycle with sizes around the budget of one reference
		n := g.names[g.r.Intn(len(g.names))]
		r1, r2 := "0."+n, "0."+n+"+0."
		return []string{one(fmt.Sprintf("bc.0.%s.%d", n, g.pick(10, 2048, 1000)), r1), one(fmt.Sprintf("br.0.%s.%d", n, g.pick(2048, 2049, 11, 0)), r1),
			one(fmt.Sprintf("br.0.%s.%d", n, g.pick(4096, 4097, 5)), r2), one(fmt.Sprintf("bw.0.%s.1.ff_0/br.0.%s.%d/bl.0.%s", n, n, g.pick(3, 100, 2048), n), r2),
			one(fmt.Sprintf("bd.0.%s/bc.0.%s.%d/bd.0.%s", n, n, g.pick(2048, 4096, 4097), n), r2), one(fmt.Sprintf("bp.0.%s.0102_%d", n, g.pick(1, 2046, 2047)), r1),
			one(fmt.Sprintf("br.0.%s.%d/br.0.%s.%d/bd.0.%s", n, g.pick(1, 2048), n, g.pick(2048, 10), n), r1)}
	case 2: // many dirty boxes sharing the group budget
		n1, n2, n3 := g.names[0], g.names[1], g.names[2]
		refs := fmt.Sprintf("0.%s+0.%s+0.%s", n1, n2, n3)
		return []string{one(fmt.Sprintf("bc.0.%s.2048/bc.0.%s.2048/bc.0.%s.%d", n1, n2, n3, g.pick(2048, 2049)), refs),
			one(fmt.Sprintf("bc.0.%s.2048/bc.0.%s.2048/bd.0.%s/bc.0.%s.%d", n1, n2, n1, n3, g.pick(4096, 4097)), refs),
			one(fmt.Sprintf("bw.0.%s.0.01_0/br.0.%s.%d/bw.0.%s.0.02_0", n1, n1, g.pick(4096, 6144, 100), n2), refs)}
	case 3: // local schema at the limit for the sender
		var es []string
		for i := uint64(0); i < a.lU; i++ {
			es = append(es, fmt.Sprintf("lp.%d.%s.u.%d", snd, g.keys[i], i))
		}
		for i := uint64(0); i < a.lB; i++ {
			es = append(es, fmt.Sprintf("lp.%d.%s.b.0%d_1", snd, g.keys[2+i], i))
		}
		out := []string{}
		if !a.opted[snd] {
			out = append(out, fmt.Sprintf("group call,%d,%d,optin,-,-,-", snd, a.ord))
		}
		if len(es) > 0 {
			out = append(out, one(strings.Join(es, "/"), "-"))
		}
		out = append(out, one(fmt.Sprintf("lp.%d.7a.u.1", snd), "-"), one(fmt.Sprintf("lp.%d.7a.b.01_0", snd), "-"))
		if a.lU > 0 {
			out = append(out, one(fmt.Sprintf("lp.%d.%s.b.aa_0", snd, g.keys[0]), "-"))
		}
		if a.lB > 0 {
			out = append(out, one(fmt.Sprintf("lp.%d.%s.u.5/lp.%d.79.u.6", snd, g.keys[2], snd), "-"))
		}
		return out
	}
	// 4: schema shrink / grow by a size update
	return []string{fmt.Sprintf("group update,%d,%d,%d,%d", snd, a.ord, g.r.Intn(4), g.r.Intn(4)), one("gp.61.u.1/gp.62.b.01_0", "-"),
		fmt.Sprintf("group update,%d,%d,%d,%d", snd, a.ord, g.r.Intn(3), g.r.Intn(3))}
}

// learn: update the rough picture after a successful group
func (g *c23Gen) learn(op string, fresh []*c23GApp) {
	g.apps = append(g.apps, fresh...)
	for _, t := range strings.Split(strings.TrimPrefix(op, "group "), ";") {
		f := strings.Split(t, ",")
		var self *c23GApp
		var script, oc string
		var snd uint64
		switch f[0] {
		case "create":
			for _, a := range fresh {
				if a.ord <= uint64(len(g.apps)) {
					self = a
				}
			}
			// the k-th create of the group is the k-th fresh application
			k := 0
			for _, t2 := range strings.Split(strings.TrimPrefix(op, "group "), ";") {
				if t2 == t {
					break
				}
				if strings.HasPrefix(t2, "create,") {
					k++
				}
			}
			if k < len(fresh) {
				self = fresh[k]
			}
			script, oc, snd = f[8], "noop", vh.U(f[1])
		case "call":
			ord := vh.U(f[2])
			if ord < 1 || ord > uint64(len(g.apps)) {
				continue
			}
			self, script, oc, snd = g.apps[ord-1], f[6], f[3], vh.U(f[1])
		case "update":
			ord := vh.U(f[2])
			if ord >= 1 && ord <= uint64(len(g.apps)) && (f[3] != "0" || f[4] != "0") {
				g.apps[ord-1].gU, g.apps[ord-1].gB = vh.U(f[3]), vh.U(f[4])
			}
			continue
		default:
			continue
		}
		if self == nil {
			continue
		}
		if oc == "optin" {
			self.opted[snd] = true
		}
		if script != "-" {
			for _, e := range strings.Split(script, "/") {
				ef := strings.Split(e, ".")
				owner := self
				if len(ef) > 2 && ef[0][0] == 'b' {
					if o := vh.U(ef[1]); o != 0 {
						if o > uint64(len(g.apps)) {
							continue
						}
						owner = g.apps[o-1]
					}
				}
				switch ef[0] {
				case "gp":
					self.gkeys[ef[1]] = ef[2][0]
				case "gd":
					delete(self.gkeys, ef[1])
				case "fam":
					self.fam = ef[1] != "0"
				case "bc":
					if _, ok := owner.boxes[ef[2]]; !ok {
						owner.boxes[ef[2]] = vh.U(ef[3])
					}
				case "br":
					owner.boxes[ef[2]] = vh.U(ef[3])
				case "bp":
					if _, ok := owner.boxes[ef[2]]; !ok {
						j := strings.IndexByte(ef[3], '_')
						owner.boxes[ef[2]] = uint64(j/2) + vh.U(ef[3][j+1:])
					}
				case "bd":
					delete(owner.boxes, ef[2])
				}
			}
		}
		switch oc {
		case "closeout", "clear":
			delete(self.opted, snd)
		case "delete":
			self.dead = true
		}
	}
}

func TestVerifC23(t *testing.T) {
	t.Chdir(t.TempDir())
	logging.Base().SetLevel(logging.Panic)
	out := vh.Open("c23")
	defer out.Close()
	h := &c23H{t: t}
	defer h.closeLedger()
	if ops, ok := vh.ReplayOps(); ok {
		h.replay = true
		for _, op := range ops {
			out.Emit(op, h.exec(op))
		}
		return
	}
	g := &c23Gen{r: vh.NewRng(vh.Seed()*1000003 + 23), h: h}
	cases := vh.Budget(200, 12000)
	if os.Getenv("VERIF_C23_CASES") != "" {
		cases = int(vh.U(os.Getenv("VERIF_C23_CASES")))
	}
	for c := 0; c < cases; c++ {
		g.runCase(out)
	}
}

func (g *c23Gen) emit(out *vh.Out, op string) string {
	res := g.h.exec(op)
	out.Emit(op, res)
	return res
}

func (g *c23Gen) runCase(out *vh.Out) {
	g.emit(out, "reset")
	g.apps = nil
	g.keys = []string{"61", "62", "63", "64", "6565", "66"}
	g.names = []string{"78", "79", "7a7a", "77"}
	blocks := 1 + g.r.Intn(3)
	for b := 0; b < blocks; b++ {
		if r := g.emit(out, "block"); r != "ok" {
			return
		}
		ngroups := 5 + g.r.Intn(10)
		var queue []string
		for i := 0; i < ngroups || len(queue) > 0; i++ {
			var op string
			var fresh []*c23GApp
			alive := g.alive()
			switch k := g.r.Intn(100); {
			case len(queue) > 0:
				op, queue = queue[0], queue[1:]
			case len(alive) == 0 || (len(g.apps) < 3 && k < 30):
				// create (+ fund so that the application account can hold boxes), sometimes with a call of an existing
				// same-creator application in the same group that reaches the new application's boxes through unnamed references
				ord := uint64(len(g.apps) + 1)
				g.multi = true // the fund transaction shares its sender with the whole group
				c, a := g.genCreate(ord)
				txs := []string{fmt.Sprintf("fund,%d,%d,%d", g.user(), ord, 200000000), c}
				fresh = append(fresh, a)
				if len(alive) > 0 && g.r.Chance(45) {
					self := alive[g.r.Intn(len(alive))]
					var es []string
					for j := 0; j < 1+g.r.Intn(3); j++ {
						nm := g.names[g.r.Intn(len(g.names))]
						switch g.r.Intn(5) {
						case 0, 1:
							es = append(es, fmt.Sprintf("bc.%d.%s.%d", ord, nm, g.pick(0, 8, 2048, 2049, 30)))
						case 2:
							es = append(es, fmt.Sprintf("bp.%d.%s.%s", ord, nm, g.boxVal()))
						case 3:
							es = append(es, fmt.Sprintf("bd.%d.%s", ord, nm))
						case 4:
							es = append(es, fmt.Sprintf("br.%d.%s.%d", ord, nm, g.pick(0, 8, 2048, 30)))
						}
					}
					refs := "-"
					if nref := g.r.Intn(4); nref > 0 {
						refs = strings.TrimSuffix(strings.Repeat("0.+", nref), "+")
					}
					txs = append(txs, fmt.Sprintf("call,%d,%d,noop,-,%s,%s", g.user(), self.ord, refs, strings.Join(es, "/")))
				}
				op = "group " + strings.Join(txs, ";")
			case k < 18:
				queue = g.scenario(alive[g.r.Intn(len(alive))])
				continue
			case k < 22:
				a := alive[g.r.Intn(len(alive))]
				op = fmt.Sprintf("group update,%d,%d,%d,%d", g.user(), a.ord, g.r.Intn(4), g.r.Intn(4))
			default:
				n := 1
				if g.r.Chance(30) {
					n = 2 + g.r.Intn(3)
				}
				var txs []string
				seen := map[uint64]bool{}
				g.multi = n > 1
				for j := 0; j < n; j++ {
					a := alive[g.r.Intn(len(alive))]
					if g.r.Chance(2) {
						a = &c23GApp{ord: 55, opted: map[uint64]bool{}, boxes: map[string]uint64{}, gkeys: map[string]byte{}} // no such application
					}
					if seen[a.ord] {
						continue // one script per application and group (the script IS the installed program)
					}
					seen[a.ord] = true
					txs = append(txs, g.genCall(a))
				}
				op = "group " + strings.Join(txs, ";")
			}
			res := g.emit(out, op)
			if strings.HasPrefix(res, "ok ") {
				g.learn(op, fresh)
			}
		}
		if r := g.emit(out, "endblock"); !strings.HasPrefix(r, "end |") {
			return
		}
	}
}
