//go:build verif

package apply

// C27 — the challenge arithmetic of challenge.go (package-internal: bitsMatch, challenge) on the real code.
//
//   bm <hexA> <hexB> <n>                                   ⇒ true | false | PANIC       (bitsMatch; '-' = empty slice)
//   fch <ci> <cg> <cb> <current> <period> <hdr> <seedhex>  ⇒ none | <round> <bits> <seedhex>
//        period 0 = ChRisky, 1 = ChActive; hdr 0 = BlockHdr fails, 1 = header with the same payout rules, 2 = different rules
//   failed <round> <bits> <seedhex> <addrhex> <lastSeen>   ⇒ true | false                (challenge.Failed; 32-byte hex)

import (
	"encoding/hex"
	"errors"
	"fmt"
	"strings"
	"testing"

	"github.com/algorand/go-algorand/config"
	"github.com/algorand/go-algorand/data/basics"
	"github.com/algorand/go-algorand/data/bookkeeping"
	"github.com/algorand/go-algorand/protocol"
	"github.com/algorand/go-algorand/zz_verif_tools/vh"
)

type c27Hdrs struct {
	mode  int
	seed  []byte
	asked []basics.Round
}

const (
	c27Same  = protocol.ConsensusVersion("verif-c27ch-same")
	c27Other = protocol.ConsensusVersion("verif-c27ch-other")
)

func (h *c27Hdrs) BlockHdr(r basics.Round) (bookkeeping.BlockHeader, error) {
	h.asked = append(h.asked, r)
	if h.mode == 0 {
		return bookkeeping.BlockHeader{}, errors.New("no such header")
	}
	var hdr bookkeeping.BlockHeader
	hdr.Round = r
	copy(hdr.Seed[:], h.seed)
	hdr.CurrentProtocol = c27Same
	if h.mode == 2 {
		hdr.CurrentProtocol = c27Other
	}
	return hdr, nil
}

func c27Unhex(s string) []byte {
	if s == "-" {
		return nil
	}
	b, err := hex.DecodeString(s)
	if err != nil {
		panic(err)
	}
	return b
}

func c27ChExec(op string) string {
	f := strings.Fields(op)
	res := vh.Catch(func() string {
		switch f[0] {
		case "bm":
			return vh.B(bitsMatch(c27Unhex(f[1]), c27Unhex(f[2]), int(vh.I(f[3]))))
		case "fch":
			rules := config.Consensus[protocol.ConsensusFuture].Payouts
			rules.ChallengeInterval, rules.ChallengeGracePeriod, rules.ChallengeBits = vh.U(f[1]), vh.U(f[2]), int(vh.I(f[3]))
			p := config.Consensus[protocol.ConsensusFuture]
			p.Payouts = rules
			config.Consensus[c27Same] = p
			p.Payouts.GoOnlineFee++
			config.Consensus[c27Other] = p
			period := ChRisky
			if f[5] == "1" {
				period = ChActive
			}
			h := &c27Hdrs{mode: int(vh.I(f[6])), seed: c27Unhex(f[7])}
			ch := FindChallenge(rules, basics.Round(vh.U(f[4])), h, period)
			if ch.IsZero() {
				return "none"
			}
			return fmt.Sprintf("%d %d %s", uint64(ch.round), ch.bits, hex.EncodeToString(ch.seed[:]))
		case "failed":
			var ch challenge
			ch.round, ch.bits = basics.Round(vh.U(f[1])), int(vh.I(f[2]))
			copy(ch.seed[:], c27Unhex(f[3]))
			var a basics.Address
			copy(a[:], c27Unhex(f[4]))
			return vh.B(ch.Failed(a, basics.Round(vh.U(f[5]))))
		}
		return "bad-op"
	})
	if strings.HasPrefix(res, "PANIC") {
		return "PANIC"
	}
	return res
}

func c27ChGenerate() []string {
	rng := vh.NewRng(vh.Seed() + 2727)
	var ops []string
	n := vh.Budget(6000, 400000)
	hx := func(b []byte) string {
		if len(b) == 0 {
			return "-"
		}
		return hex.EncodeToString(b)
	}
	for i := 0; i < n; i++ {
		switch i % 3 {
		case 0: // bitsMatch: equal prefix of a chosen length, then a flipped bit at a chosen position
			la := []int{32, 32, 32, 1, 2, 0, 5}[rng.Intn(7)]
			lb := la
			if rng.Chance(15) {
				lb = []int{32, 1, 0, 3, 31}[rng.Intn(5)]
			}
			a, b := rng.Bytes(la), rng.Bytes(lb)
			copy(b, a)
			if m := min(la, lb) * 8; m > 0 && rng.Chance(80) {
				bit := rng.Intn(m)
				b[bit/8] ^= 0x80 >> uint(bit%8)
				if rng.Chance(30) {
					b[bit/8] ^= byte(rng.U64()) & (0xFF >> uint(bit%8))
				}
				nn := []int{bit, bit + 1, bit - 1, bit + 2, rng.Intn(m + 1), m, m + 1, -1, 0, 8 * (bit / 8), 8*(bit/8) + 8}[rng.Intn(11)]
				ops = append(ops, fmt.Sprintf("bm %s %s %d", hx(a), hx(b), nn))
			} else {
				nn := []int{0, 5, 8, min(la, lb) * 8, min(la, lb)*8 + 1, max(la, lb) * 8, -3, 256, 257, rng.Intn(260)}[rng.Intn(10)]
				ops = append(ops, fmt.Sprintf("bm %s %s %d", hx(a), hx(b), nn))
			}
		case 1: // FindChallenge around the window boundaries
			ci := []uint64{1000, 50, 0, 1, 64, 7, 1000}[rng.Intn(7)]
			cg := []uint64{200, 10, 0, 1, 16, 3, 500, 700, rng.Biased64()}[rng.Intn(9)]
			cb := []int{5, 0, 8, 11, 256, 3}[rng.Intn(6)]
			cur := uint64(rng.Intn(5000))
			if ci > 0 {
				lc := uint64(rng.Intn(6)) * ci
				g := cg
				if g > 100000 {
					g = 7
				}
				cur = lc + []uint64{0, 1, g / 2, g/2 + 1, g, g + 1, 2 * g, 2*g + 1, uint64(rng.Intn(int(ci))), ci - 1, g + 1 + uint64(rng.Intn(int(g)+1)), g/2 + 1 + uint64(rng.Intn(int(g/2)+1)), g + 2}[rng.Intn(13)]
			}
			if rng.Chance(3) {
				cur = rng.Biased64()
			}
			hdr := []int{1, 1, 1, 1, 0, 2}[rng.Intn(6)]
			ops = append(ops, fmt.Sprintf("fch %d %d %d %d %d %d %s", ci, cg, cb, cur, rng.Intn(2), hdr, hx(rng.Bytes(32))))
		default: // Failed
			seed, addr := rng.Bytes(32), rng.Bytes(32)
			bits := []int{5, 0, 8, 11, 16, 3, 1, 256, 255, 300, -1}[rng.Intn(11)]
			if rng.Chance(70) {
				copy(addr, seed)
				if bits > 0 && bits <= 256 && rng.Chance(60) {
					bit := min(255, max(0, bits-1+rng.Intn(3)-1))
					addr[bit/8] ^= 0x80 >> uint(bit%8)
				}
			}
			round := []uint64{1000, 0, 50, uint64(rng.Intn(5000))}[rng.Intn(4)]
			ls := []uint64{round, round - 1, round + 1, 0, uint64(rng.Intn(5000))}[rng.Intn(5)]
			ops = append(ops, fmt.Sprintf("failed %d %d %s %s %d", round, bits, hx(seed), hx(addr), ls))
		}
	}
	return ops
}

func TestVerifC27Challenge(t *testing.T) {
	ops, replay := vh.ReplayOps()
	if !replay {
		ops = c27ChGenerate()
	}
	out := vh.Open("c27ch")
	defer out.Close()
	for _, op := range ops {
		if f := strings.Fields(op); len(f) == 0 || (f[0] != "bm" && f[0] != "fch" && f[0] != "failed") {
			continue
		}
		out.Emit(op, c27ChExec(op))
	}
}
