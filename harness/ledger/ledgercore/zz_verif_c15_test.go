//go:build verif

package ledgercore

// C15 correspondence harness (label side): runs the REAL CatchpointLabelMakerV6/V7/Current.buffer() and
// MakeLabel on generated label components and prints the hashed buffer (hex) and the label string.
// The Lean driver `c15` recomputes both from the model (buffer layout, SHA-512/256, base32).
//
// Op grammar:  label <ver 6|7|8> <round> <blockHash32> <balancesRoot32> <msgpack totals> <spver32> <onlineAccts32> <onlineRoundParams32>
//              → <buffer hex> <label>
import (
	"bytes"
	"encoding/hex"
	"fmt"
	"strings"
	"testing"

	"github.com/algorand/go-algorand/crypto"
	"github.com/algorand/go-algorand/data/basics"
	"github.com/algorand/go-algorand/protocol"
	"github.com/algorand/go-algorand/zz_verif_tools/vh"
)

func verifC15Hex(b []byte) string {
	if len(b) == 0 {
		return "_"
	}
	return hex.EncodeToString(b)
}

func verifC15Digest(s string) crypto.Digest {
	b, err := hex.DecodeString(s)
	if err != nil || len(b) != crypto.DigestSize {
		panic("bad digest " + s)
	}
	var d crypto.Digest
	copy(d[:], b)
	return d
}

func verifC15LabelExec(op string) string {
	f := strings.Fields(op)
	return vh.Catch(func() string {
		if len(f) != 9 || f[0] != "label" {
			return "bad-op"
		}
		ver, rnd := vh.U(f[1]), basics.Round(vh.U(f[2]))
		bh, root := verifC15Digest(f[3]), verifC15Digest(f[4])
		enc, err := hex.DecodeString(f[5])
		if err != nil {
			return "bad-op"
		}
		var totals AccountTotals
		if err = protocol.DecodeReflect(enc, &totals); err != nil {
			return "bad-totals"
		}
		if !bytes.Equal(protocol.EncodeReflect(&totals), enc) {
			return "noncanonical-totals"
		}
		sp, oa, orp := verifC15Digest(f[6]), verifC15Digest(f[7]), verifC15Digest(f[8])
		var m CatchpointLabelMaker
		switch ver {
		case 6:
			m = MakeCatchpointLabelMakerV6(rnd, &bh, &root, totals)
		case 7:
			m = MakeCatchpointLabelMakerV7(rnd, &bh, &root, totals, &sp)
		case 8:
			m = MakeCatchpointLabelMakerCurrent(rnd, &bh, &root, totals, &sp, &oa, &orp)
		default:
			return "bad-op"
		}
		return verifC15Hex(m.buffer()) + " " + MakeLabel(m)
	})
}

func verifC15RandTotals(r *vh.Rng) AccountTotals {
	var t AccountTotals
	cnt := func() AlgoCount {
		var c AlgoCount
		if r.Chance(70) {
			c.Money.Raw = r.Biased64()
		}
		if r.Chance(70) {
			c.RewardUnits = r.Biased64()
		}
		return c
	}
	if r.Chance(80) {
		t.Online = cnt()
	}
	if r.Chance(80) {
		t.Offline = cnt()
	}
	if r.Chance(80) {
		t.NotParticipating = cnt()
	}
	if r.Chance(70) {
		t.RewardsLevel = r.Biased64()
	}
	return t
}

func verifC15LabelGenerate() []string {
	r := vh.NewRng(vh.Seed() + 1515)
	var ops []string
	dg := func() []byte {
		switch r.Intn(5) {
		case 0:
			return make([]byte, 32)
		case 1:
			b := make([]byte, 32)
			b[r.Intn(32)] = byte(1 + r.Intn(255))
			return b
		}
		return r.Bytes(32)
	}
	line := func(ver int, rnd uint64, c [6][]byte) string {
		return fmt.Sprintf("label %d %d %s %s %s %s %s %s", ver, rnd, verifC15Hex(c[0]), verifC15Hex(c[1]), verifC15Hex(c[2]),
			verifC15Hex(c[3]), verifC15Hex(c[4]), verifC15Hex(c[5]))
	}
	n := vh.Budget(300, 10000)
	for i := 0; i < n; i++ {
		tot := verifC15RandTotals(r)
		// components: blockHash, root, totals, spver, onlineAccounts, onlineRoundParams
		c := [6][]byte{dg(), dg(), protocol.EncodeReflect(&tot), dg(), dg(), dg()}
		rnd := []uint64{0, 1, uint64(r.Intn(100000000)), r.Biased64()}[r.Intn(4)]
		ver := 6 + r.Intn(3)
		ops = append(ops, line(ver, rnd, c))
		if r.Chance(60) { // the same components under the other label versions
			ops = append(ops, line(6+(ver-6+1)%3, rnd, c), line(6+(ver-6+2)%3, rnd, c))
		}
		if r.Chance(60) { // one digest changed in one bit
			k := []int{0, 1, 3, 4, 5}[r.Intn(5)]
			d := c
			d[k] = append([]byte{}, c[k]...)
			d[k][r.Intn(32)] ^= byte(1 << uint(r.Intn(8)))
			ops = append(ops, line(8, rnd, d))
			ops = append(ops, line(8, rnd, c))
		}
		if r.Chance(60) { // two digests exchanged (what a reordered buffer would confuse)
			p := [][2]int{{0, 1}, {3, 4}, {4, 5}, {3, 5}, {1, 3}}[r.Intn(5)]
			d := c
			d[p[0]], d[p[1]] = c[p[1]], c[p[0]]
			ops = append(ops, line(8, rnd, d))
			ops = append(ops, line(8, rnd, c))
		}
		if r.Chance(50) { // totals changed in one field (encoded length may change)
			t2 := tot
			switch r.Intn(4) {
			case 0:
				t2.RewardsLevel++
			case 1:
				t2.Online.Money.Raw ^= 1 << uint(r.Intn(64))
			case 2:
				t2.Offline.RewardUnits = 0
			case 3:
				t2.NotParticipating, t2.Offline = t2.Offline, t2.NotParticipating
			}
			d := c
			d[2] = protocol.EncodeReflect(&t2)
			ops = append(ops, line(ver, rnd, d))
		}
	}
	return ops
}

func TestVerifC15Label(t *testing.T) {
	ops, replay := vh.ReplayOps()
	if !replay {
		ops = verifC15LabelGenerate()
	}
	out := vh.Open("c15label")
	defer out.Close()
	for _, op := range ops {
		out.Emit(op, verifC15LabelExec(op))
	}
	t.Logf("c15label: %d ops", out.N)
}
