//go:build verif

package eval

// Read-only accessors for the LedgerCore correspondence harness (harness/ledger/zz_verif_lcore_test.go, package ledger).
// Injected into this package only through the /verif go-overlay with -tags verif; never part of /repo.
// They expose what the in-progress evaluator's top-level roundCowState sees, through the same lookup functions
// the transaction code uses (cow.go / cow_creatables.go).

import (
	"github.com/algorand/go-algorand/data/basics"
	"github.com/algorand/go-algorand/data/transactions"
	"github.com/algorand/go-algorand/ledger/ledgercore"
)

// VerifLcoreLookup is eval.state.lookup (no pending rewards applied).
func (eval *BlockEvaluator) VerifLcoreLookup(addr basics.Address) (ledgercore.AccountData, error) {
	return eval.state.lookup(addr)
}

// VerifLcoreHolding is eval.state.GetAssetHolding.
func (eval *BlockEvaluator) VerifLcoreHolding(addr basics.Address, aidx basics.AssetIndex) (basics.AssetHolding, bool, error) {
	return eval.state.GetAssetHolding(addr, aidx)
}

// VerifLcoreParams is eval.state.GetAssetParams.
func (eval *BlockEvaluator) VerifLcoreParams(addr basics.Address, aidx basics.AssetIndex) (basics.AssetParams, bool, error) {
	return eval.state.GetAssetParams(addr, aidx)
}

// VerifLcoreCreator is eval.state.GetCreator for assets.
func (eval *BlockEvaluator) VerifLcoreCreator(aidx basics.AssetIndex) (basics.Address, bool, error) {
	return eval.state.GetCreator(basics.CreatableIndex(aidx), basics.AssetCreatable)
}

// VerifLcoreFees is eval.state.feesCollected.
func (eval *BlockEvaluator) VerifLcoreFees() uint64 { return eval.state.feesCollected.Raw }

// VerifLcoreCounter is eval.state.Counter().
func (eval *BlockEvaluator) VerifLcoreCounter() uint64 { return eval.state.Counter() }

// VerifLcoreRewardsLevel is the rewards level of the block being evaluated.
func (eval *BlockEvaluator) VerifLcoreRewardsLevel() uint64 { return eval.state.rewardsLevel() }

// VerifLcoreSpecials returns the fee sink and rewards pool of the block being evaluated.
func (eval *BlockEvaluator) VerifLcoreSpecials() (basics.Address, basics.Address) {
	return eval.block.FeeSink, eval.block.RewardsPool
}

// VerifLcoreSpace returns the evaluator's block-space accounting: bytes charged so far and the limit.
func (eval *BlockEvaluator) VerifLcoreSpace() (int, int) {
	return eval.blockTxBytes, eval.maxTxnBytesPerBlock
}

// VerifLcoreEncodedLen is the encoded length of the SignedTxnInBlock this block would hold for (stxn, ad).
func (eval *BlockEvaluator) VerifLcoreEncodedLen(stxn transactions.SignedTxn, ad transactions.ApplyData) int {
	txib, err := eval.block.EncodeSignedTxn(stxn, ad)
	if err != nil {
		return -1
	}
	return txib.GetEncodedLength()
}
