//go:build verif

package eval

// C29, evaluator layer: transaction groups through the REAL BlockEvaluator.TransactionGroup and
// BlockEvaluator.TestTransactionGroup (Validate on) — the group-id check "every member carries
// H(TxGroup{ids of the members with Group zeroed})".
//
// One self-contained case per op line:
//
//	grp <mut> <hex msgpack(Transaction)> ...
//
// The members are decoded from the op line (so a replay is exactly the recorded bytes), evaluated as one group by a
// fresh evaluator for round 1 of a fixed ledger (8 funded accounts with fixed addresses, fixed genesis hash).  <mut>
// names how the generator obtained the member list from an honest group; it is used by the property monitor only.
//
// Result: `tg=<verdict> ttg=<verdict> gid=<hex>` where tg / ttg are the verdicts of TransactionGroup /
// TestTransactionGroup (ok | toolarge | inconsistent | emptygid | incomplete | dup | other(<msg>)) and gid is
// crypto.HashObj(TxGroup{TxGroupHashes: ID() of every member with Group zeroed}) computed by the real types.
import (
	"encoding/hex"
	"errors"
	"fmt"
	"strings"
	"testing"

	"github.com/algorand/go-algorand/config"
	"github.com/algorand/go-algorand/crypto"
	"github.com/algorand/go-algorand/data/basics"
	"github.com/algorand/go-algorand/data/bookkeeping"
	"github.com/algorand/go-algorand/data/transactions"
	"github.com/algorand/go-algorand/ledger/ledgercore"
	"github.com/algorand/go-algorand/protocol"
	"github.com/algorand/go-algorand/zz_verif_tools/vh"
)

const verifC29NA = 8

func verifC29Addr(i int) basics.Address {
	return basics.Address(crypto.Hash([]byte(fmt.Sprintf("verif-c29-acct-%d", i))))
}

func verifC29GenesisHash() crypto.Digest { return crypto.Hash([]byte("verif-c29-genesis")) }

// verifC29Ledger is newTestLedger with a fixed genesis hash and fixed account addresses (the op lines carry encodings).
func verifC29Ledger(t testing.TB) *evalTestLedger {
	bal := make(map[basics.Address]basics.AccountData)
	for i := 0; i < verifC29NA; i++ {
		bal[verifC29Addr(i)] = basics.AccountData{MicroAlgos: basics.MicroAlgos{Raw: 1000000000000}}
	}
	bal[testPoolAddr] = basics.AccountData{MicroAlgos: basics.MicroAlgos{Raw: 1000000000000}, Status: basics.NotParticipating}
	bal[testSinkAddr] = basics.AccountData{MicroAlgos: basics.MicroAlgos{Raw: 1000000000000}, Status: basics.NotParticipating}
	balances := bookkeeping.GenesisBalances{Balances: bal, FeeSink: testSinkAddr, RewardsPool: testPoolAddr}
	l := &evalTestLedger{
		blocks:        make(map[basics.Round]bookkeeping.Block),
		roundBalances: make(map[basics.Round]map[basics.Address]basics.AccountData),
		feeSink:       balances.FeeSink,
		rewardsPool:   balances.RewardsPool,
		boxes:         make(map[string][]byte),
	}
	protoVersion := protocol.ConsensusFuture
	proto := config.Consensus[protoVersion]
	l.genesisHash = verifC29GenesisHash()
	genBlock, err := bookkeeping.MakeGenesisBlock(protoVersion, balances, "test", l.genesisHash)
	if err != nil {
		t.Fatal(err)
	}
	l.roundBalances[0] = balances.Balances
	l.blocks[0] = genBlock
	var ot basics.OverflowTracker
	for _, acctData := range balances.Balances {
		l.latestTotals.AddAccount(proto.RewardUnit, ledgercore.ToAccountData(acctData), &ot)
	}
	l.genesisProto = proto
	l.genesisProtoVersion = protoVersion
	return l
}

func verifC29Verdict(err error) string {
	if err == nil {
		return "ok"
	}
	var ge *ledgercore.TxGroupMalformedError
	if errors.As(err, &ge) {
		switch ge.Reason {
		case ledgercore.TxGroupMalformedErrorReasonExceedMaxSize:
			return "toolarge"
		case ledgercore.TxGroupMalformedErrorReasonInconsistentGroupID:
			return "inconsistent"
		case ledgercore.TxGroupMalformedErrorReasonEmptyGroupID:
			return "emptygid"
		case ledgercore.TxGroupMalformedErrorReasonIncompleteGroup:
			return "incomplete"
		}
	}
	var le *ledgercore.TransactionInLedgerError
	if errors.As(err, &le) {
		return "dup"
	}
	var le2 ledgercore.TransactionInLedgerError
	if errors.As(err, &le2) {
		return "dup"
	}
	m := err.Error()
	if len(m) > 120 {
		m = m[:120]
	}
	return "other(" + strings.ReplaceAll(m, " ", "_") + ")"
}

func verifC29Exec(t testing.TB, l *evalTestLedger, line string) string {
	f := strings.Fields(line)
	if len(f) < 3 || f[0] != "grp" {
		return "bad-op"
	}
	var grp []transactions.SignedTxnWithAD
	var plain []transactions.SignedTxn
	var tg transactions.TxGroup
	for _, hx := range f[2:] {
		b, err := hex.DecodeString(hx)
		if err != nil {
			return "bad-op"
		}
		var tx transactions.Transaction
		if err := protocol.Decode(b, &tx); err != nil {
			return "bad-op"
		}
		st := transactions.SignedTxn{Txn: tx}
		grp = append(grp, transactions.SignedTxnWithAD{SignedTxn: st})
		plain = append(plain, st)
		z := tx
		z.Group = crypto.Digest{}
		tg.TxGroupHashes = append(tg.TxGroupHashes, crypto.Digest(z.ID()))
	}
	gid := crypto.HashObj(tg)
	ev1 := l.nextBlock(t)
	ttg := verifC29Verdict(ev1.TestTransactionGroup(plain))
	ev2 := l.nextBlock(t)
	tgv := verifC29Verdict(ev2.TransactionGroup(grp...))
	if tgv == "ok" && len(ev2.block.Payset) != len(grp) {
		tgv = "other(payset-length)"
	}
	return fmt.Sprintf("tg=%s ttg=%s gid=%s", tgv, ttg, hex.EncodeToString(gid[:]))
}

type verifC29Gen struct {
	r   *vh.Rng
	ctr uint64
	fee uint64
}

func (g *verifC29Gen) tx() transactions.Transaction {
	r := g.r
	g.ctr++
	note := []byte(fmt.Sprintf("n%d", g.ctr))
	if r.Chance(40) {
		note = append(note, r.Bytes(r.Intn(40))...)
	}
	fee := g.fee
	if r.Chance(30) {
		fee += uint64(r.Intn(5000))
	}
	tx := transactions.Transaction{
		Type: protocol.PaymentTx,
		Header: transactions.Header{Sender: verifC29Addr(r.Intn(verifC29NA)), Fee: basics.MicroAlgos{Raw: fee},
			FirstValid: 1, LastValid: basics.Round(1 + r.Intn(900)), GenesisHash: verifC29GenesisHash(), Note: note},
		PaymentTxnFields: transactions.PaymentTxnFields{Receiver: verifC29Addr(r.Intn(verifC29NA)), Amount: basics.MicroAlgos{Raw: r.Biased64() % 1000000}},
	}
	if r.Chance(15) {
		tx.GenesisID = "test"
	}
	if r.Chance(10) {
		tx.FirstValid = 0
	}
	return tx
}

func verifC29Assign(txs []transactions.Transaction) {
	var tg transactions.TxGroup
	for i := range txs {
		z := txs[i]
		z.Group = crypto.Digest{}
		tg.TxGroupHashes = append(tg.TxGroupHashes, crypto.Digest(z.ID()))
	}
	gid := crypto.HashObj(tg)
	for i := range txs {
		txs[i].Group = gid
	}
}

// alter changes exactly one field of the transaction (other than Group) to a different, still well-formed value.
func (g *verifC29Gen) alter(tx *transactions.Transaction) string {
	r := g.r
	switch r.Intn(7) {
	case 0:
		tx.Amount.Raw++
		return "amt"
	case 1:
		tx.Note = append(append([]byte{}, tx.Note...), byte(r.Intn(256)))
		return "note+"
	case 2:
		n := append([]byte{}, tx.Note...)
		n[r.Intn(len(n))] ^= byte(1 << uint(r.Intn(8)))
		tx.Note = n
		return "notebit"
	case 3:
		old := tx.Receiver
		for tx.Receiver == old {
			tx.Receiver = verifC29Addr(r.Intn(verifC29NA))
		}
		return "rcv"
	case 4:
		old := tx.Sender
		for tx.Sender == old {
			tx.Sender = verifC29Addr(r.Intn(verifC29NA))
		}
		return "snd"
	case 5:
		tx.Fee.Raw++
		return "fee"
	}
	tx.LastValid++
	return "lv"
}

func verifC29Line(mut string, txs []transactions.Transaction) string {
	var sb strings.Builder
	sb.WriteString("grp ")
	sb.WriteString(mut)
	for i := range txs {
		sb.WriteByte(' ')
		sb.WriteString(hex.EncodeToString(protocol.Encode(&txs[i])))
	}
	return sb.String()
}

func verifC29Generate(seed uint64, cases int, minFee uint64, maxGroup int) []string {
	g := &verifC29Gen{r: vh.NewRng(seed), fee: minFee}
	r := g.r
	var lines []string
	size := func() int {
		switch r.Intn(10) {
		case 0:
			return 1
		case 1:
			return maxGroup
		case 2:
			return maxGroup - 1
		case 3, 4:
			return 2
		}
		return 2 + r.Intn(maxGroup-1)
	}
	for c := 0; c < cases; c++ {
		n := size()
		txs := make([]transactions.Transaction, n)
		for i := range txs {
			txs[i] = g.tx()
		}
		verifC29Assign(txs)
		cp := func() []transactions.Transaction { return append([]transactions.Transaction{}, txs...) }
		lines = append(lines, verifC29Line("honest", txs))
		// each honest group spawns a handful of altered member lists
		for k, nk := 0, 2+r.Intn(3); k < nk; k++ {
			m := cp()
			switch r.Intn(14) {
			case 0: // drop one member
				if n < 2 {
					continue
				}
				i := r.Intn(n)
				m = append(m[:i], m[i+1:]...)
				lines = append(lines, verifC29Line(fmt.Sprintf("drop:%d", i), m))
			case 1: // add a foreign member carrying the same group id
				if n >= maxGroup && r.Chance(50) {
					continue
				}
				x := g.tx()
				x.Group = txs[0].Group
				i := r.Intn(n + 1)
				m = append(m[:i], append([]transactions.Transaction{x}, m[i:]...)...)
				lines = append(lines, verifC29Line(fmt.Sprintf("add:%d", i), m))
			case 2: // duplicate a member
				if n >= maxGroup {
					continue
				}
				i := r.Intn(n)
				j := r.Intn(n + 1)
				m = append(m[:j], append([]transactions.Transaction{txs[i]}, m[j:]...)...)
				lines = append(lines, verifC29Line(fmt.Sprintf("dup:%d@%d", i, j), m))
			case 3: // swap two members
				if n < 2 {
					continue
				}
				i := r.Intn(n)
				j := (i + 1 + r.Intn(n-1)) % n
				m[i], m[j] = m[j], m[i]
				lines = append(lines, verifC29Line(fmt.Sprintf("swap:%d,%d", i, j), m))
			case 4: // rotate / reverse
				if n < 3 {
					continue
				}
				if r.Bool() {
					m = append(m[1:], m[0])
					lines = append(lines, verifC29Line("rot", m))
				} else {
					for a, b := 0, n-1; a < b; a, b = a+1, b-1 {
						m[a], m[b] = m[b], m[a]
					}
					lines = append(lines, verifC29Line("rev", m))
				}
			case 5, 6, 7: // single-field mutation of one member, group field kept
				i := r.Intn(n)
				what := g.alter(&m[i])
				lines = append(lines, verifC29Line(fmt.Sprintf("alter:%d:%s", i, what), m))
			case 8: // one bit of one member's Group field
				i := r.Intn(n)
				m[i].Group[r.Intn(32)] ^= byte(1 << uint(r.Intn(8)))
				lines = append(lines, verifC29Line(fmt.Sprintf("gflip:%d", i), m))
			case 9: // every member carries the same wrong id
				bi, bb := r.Intn(32), byte(1<<uint(r.Intn(8)))
				for i := range m {
					m[i].Group[bi] ^= bb
				}
				lines = append(lines, verifC29Line("gflipall", m))
			case 10: // one / all members without group id
				if r.Bool() {
					i := r.Intn(n)
					m[i].Group = crypto.Digest{}
					if n == 1 {
						lines = append(lines, verifC29Line("single", m)) // a lone transaction without group id is an ordinary transaction
					} else {
						lines = append(lines, verifC29Line(fmt.Sprintf("gzero:%d", i), m))
					}
				} else {
					for i := range m {
						m[i].Group = crypto.Digest{}
					}
					if n == 1 {
						lines = append(lines, verifC29Line("single", m))
					} else {
						lines = append(lines, verifC29Line("gzeroall", m))
					}
				}
			case 11: // group id computed WITHOUT zeroing the Group field first (a self-referential attempt)
				var tg transactions.TxGroup
				for i := range m {
					tg.TxGroupHashes = append(tg.TxGroupHashes, crypto.Digest(m[i].ID()))
				}
				gid := crypto.HashObj(tg)
				for i := range m {
					m[i].Group = gid
				}
				lines = append(lines, verifC29Line("gnozero", m))
			case 12: // group id over the SORTED ids (set, not list)
				if n < 2 {
					continue
				}
				ids := make([]crypto.Digest, n)
				for i := range m {
					z := m[i]
					z.Group = crypto.Digest{}
					ids[i] = crypto.Digest(z.ID())
				}
				sorted := true
				for a := 0; a < n; a++ {
					for b := a + 1; b < n; b++ {
						if string(ids[b][:]) < string(ids[a][:]) {
							ids[a], ids[b] = ids[b], ids[a]
							sorted = false
						}
					}
				}
				if sorted {
					continue
				}
				gid := crypto.HashObj(transactions.TxGroup{TxGroupHashes: ids})
				for i := range m {
					m[i].Group = gid
				}
				lines = append(lines, verifC29Line("gsorted", m))
			case 13: // altered, then every member re-assigned the new id: a different but honest group
				i := r.Intn(n)
				what := g.alter(&m[i])
				if r.Bool() && n >= 2 {
					j := (i + 1) % n
					m[i], m[j] = m[j], m[i]
				}
				verifC29Assign(m)
				lines = append(lines, verifC29Line("regroup:"+what, m))
			}
		}
		if c%9 == 0 { // over-long groups
			big := make([]transactions.Transaction, maxGroup+1+r.Intn(2))
			for i := range big {
				big[i] = g.tx()
			}
			verifC29Assign(big)
			lines = append(lines, verifC29Line("toolarge", big))
		}
		if c%7 == 0 { // ungrouped single transaction
			x := g.tx()
			lines = append(lines, verifC29Line("single", []transactions.Transaction{x}))
		}
	}
	return lines
}

func TestVerifC29Eval(t *testing.T) {
	t.Chdir(t.TempDir())
	l := verifC29Ledger(t)
	out := vh.Open("c29g")
	defer out.Close()
	lines, replay := vh.ReplayOps()
	if !replay {
		proto := config.Consensus[protocol.ConsensusFuture]
		lines = verifC29Generate(vh.Seed(), vh.Budget(150, 4000), proto.MinTxnFee, proto.MaxTxGroupSize)
	}
	for _, ln := range lines {
		ln := ln
		out.Emit(ln, vh.Catch(func() string { return verifC29Exec(t, l, ln) }))
	}
}
