//go:build verif

package eval

// C27 — suspension and expiry lists are justified.  Correspondence harness on the REAL block evaluator.
//
// Every op line is a complete case: consensus limits, the round, the challenge configuration, a population of
// accounts (state at round R-1 and voting stake at the balance round R-320) and either candidate lists or a
// generator request.  The harness builds an in-memory evalTestLedger holding exactly that population, produces a
// coherent block for round R with the real StartEvaluator/GenerateBlock, places the candidate lists in the
// header and runs the real eval.Eval(validate) on it.
//
//   ev  <v> <R> <maxExp> <maxAbs> <ci> <cg> <cb> <seed> <rules> <S> <n> <acct>*n E <list> A <list>
//        ⇒ ok <post> | err <class>
//   gen <R> <maxExp> <maxAbs> <ci> <cg> <cb> <seed> <rules> <S> <n> <acct>*n P <list> M <list>
//        ⇒ E=<list> A=<list> val=<ok|class> post=<post> | generr <class>
//
//   v      1: Eval validates (Ledger.Validate), 0: Eval applies a trusted block (AddBlock path, validators off)
//   ci/cg/cb  Payouts.ChallengeInterval / ChallengeGracePeriod / ChallengeBits
//   seed   first two bytes (hex) of the seed of the challenge round's header; rules: 1 the header's Payouts equal
//          the current ones, 0 they differ, 2 the header cannot be fetched
//   S      total online stake at the balance round
//   acct   p0p1/status/bal/key/vfirst/vlast/elig/lastProposed/lastHeartbeat/stake   (p0p1 = first two address bytes, hex)
//   list   '-' or comma separated indices into the population (index ≥ n: an address unknown to the ledger)
//   P      participating addresses handed to GenerateBlock;  M  accounts receiving a zero payment in the block (the
//          evaluator records a zero-amount receiver as modified only if it holds at least one reward unit, 1 Algo)
//   post   per account <status><k|-><e|->/<voteLastValid> joined by ','

import (
	"context"
	"fmt"
	"os"
	"sort"
	"strconv"
	"strings"
	"testing"

	"github.com/algorand/go-algorand/config"
	"github.com/algorand/go-algorand/crypto"
	"github.com/algorand/go-algorand/data/basics"
	"github.com/algorand/go-algorand/data/bookkeeping"
	"github.com/algorand/go-algorand/data/committee"
	"github.com/algorand/go-algorand/data/transactions"
	"github.com/algorand/go-algorand/data/transactions/verify"
	"github.com/algorand/go-algorand/ledger/ledgercore"
	"github.com/algorand/go-algorand/protocol"
	"github.com/algorand/go-algorand/zz_verif_tools/vh"
)

type c27Acct struct {
	p0, p1        byte
	status        int
	bal           uint64
	hasKey        bool
	vfirst, vlast uint64
	elig          bool
	lp, lhb       uint64
	stake         uint64
}

type c27Case struct {
	kind       string
	validate   bool
	R          uint64
	me, ma     int
	ci, cg     uint64
	cb         int
	seed       [2]byte
	rules      int
	S          uint64
	accts      []c27Acct
	l1, l2     []int // ev: E, A; gen: P, M
}

func c27List(l []int) string {
	if len(l) == 0 {
		return "-"
	}
	s := make([]string, len(l))
	for i, v := range l {
		s[i] = strconv.Itoa(v)
	}
	return strings.Join(s, ",")
}

func c27ParseList(s string) []int {
	if s == "-" {
		return nil
	}
	var out []int
	for _, x := range strings.Split(s, ",") {
		out = append(out, int(vh.I(x)))
	}
	return out
}

func c27B(b bool) string {
	if b {
		return "1"
	}
	return "0"
}

func (c *c27Case) line() string {
	var sb strings.Builder
	if c.kind == "ev" {
		fmt.Fprintf(&sb, "ev %s ", c27B(c.validate))
	} else {
		sb.WriteString("gen ")
	}
	fmt.Fprintf(&sb, "%d %d %d %d %d %d %02x%02x %d %d %d", c.R, c.me, c.ma, c.ci, c.cg, c.cb, c.seed[0], c.seed[1], c.rules, c.S, len(c.accts))
	for _, a := range c.accts {
		fmt.Fprintf(&sb, " %02x%02x/%d/%d/%s/%d/%d/%s/%d/%d/%d", a.p0, a.p1, a.status, a.bal, c27B(a.hasKey), a.vfirst, a.vlast, c27B(a.elig), a.lp, a.lhb, a.stake)
	}
	if c.kind == "ev" {
		fmt.Fprintf(&sb, " E %s A %s", c27List(c.l1), c27List(c.l2))
	} else {
		fmt.Fprintf(&sb, " P %s M %s", c27List(c.l1), c27List(c.l2))
	}
	return sb.String()
}

func c27Hex2(s string) (byte, byte) {
	v, err := strconv.ParseUint(s, 16, 16)
	if err != nil || len(s) != 4 {
		panic("bad hex " + s)
	}
	return byte(v >> 8), byte(v)
}

func c27Parse(op string) *c27Case {
	f := strings.Fields(op)
	c := &c27Case{kind: f[0], validate: true}
	i := 1
	if c.kind == "ev" {
		c.validate = f[1] == "1"
		i = 2
	}
	c.R = vh.U(f[i])
	c.me, c.ma = int(vh.I(f[i+1])), int(vh.I(f[i+2]))
	c.ci, c.cg = vh.U(f[i+3]), vh.U(f[i+4])
	c.cb = int(vh.I(f[i+5]))
	c.seed[0], c.seed[1] = c27Hex2(f[i+6])
	c.rules = int(vh.I(f[i+7]))
	c.S = vh.U(f[i+8])
	n := int(vh.I(f[i+9]))
	i += 10
	for k := 0; k < n; k++ {
		p := strings.Split(f[i+k], "/")
		var a c27Acct
		a.p0, a.p1 = c27Hex2(p[0])
		a.status = int(vh.I(p[1]))
		a.bal = vh.U(p[2])
		a.hasKey = p[3] == "1"
		a.vfirst, a.vlast = vh.U(p[4]), vh.U(p[5])
		a.elig = p[6] == "1"
		a.lp, a.lhb = vh.U(p[7]), vh.U(p[8])
		a.stake = vh.U(p[9])
		c.accts = append(c.accts, a)
	}
	i += n
	c.l1 = c27ParseList(f[i+1])
	c.l2 = c27ParseList(f[i+3])
	return c
}

func (c *c27Case) addr(i int) basics.Address {
	var a basics.Address
	if i >= 0 && i < len(c.accts) {
		a[0], a[1] = c.accts[i].p0, c.accts[i].p1
		a[2], a[3], a[4] = byte(i+1), 0xC2, 0x07
	} else {
		a[0], a[1] = 0xEE, 0xEE
		a[2], a[3], a[4] = byte(i+1), 0xC2, 0x99
	}
	return a
}

var (
	c27Funder = basics.Address{0xF0, 0x01, 0xFF, 0xC2}
	c27Filler = basics.Address{0xF0, 0x02, 0xFF, 0xC2}
)

// c27Proto registers (once) a consensus version equal to vFuture except for the limits and challenge rules under test.
func c27Proto(me, ma int, ci, cg uint64, cb int, variant bool) protocol.ConsensusVersion {
	name := protocol.ConsensusVersion(fmt.Sprintf("verif-c27-%d-%d-%d-%d-%d-%v", me, ma, ci, cg, cb, variant))
	if _, ok := config.Consensus[name]; !ok {
		p := config.Consensus[protocol.ConsensusFuture]
		p.MaxProposedExpiredOnlineAccounts = me
		p.Payouts.MaxMarkAbsent = ma
		p.Payouts.ChallengeInterval = ci
		p.Payouts.ChallengeGracePeriod = cg
		p.Payouts.ChallengeBits = cb
		if variant {
			p.Payouts.GoOnlineFee++ // any difference in the payout rules voids the challenge
		}
		p.ApprovedUpgrades = map[protocol.ConsensusVersion]uint64{}
		config.Consensus[name] = p
	}
	return name
}

// c27L is the package's in-memory test ledger with an explicit latest round (its own Latest() counts blocks, the
// harness stores only the headers the evaluator asks for).
type c27L struct {
	*evalTestLedger
	latest basics.Round
}

func (l *c27L) Latest() basics.Round { return l.latest }
func (l *c27L) LatestTotals() (basics.Round, ledgercore.AccountTotals, error) {
	return l.latest, l.latestTotals, nil
}

func c27BuildLedger(c *c27Case) (*c27L, bookkeeping.BlockHeader) {
	ver := c27Proto(c.me, c.ma, c.ci, c.cg, c.cb, false)
	proto := config.Consensus[ver]
	cur := make(map[basics.Address]basics.AccountData)
	old := make(map[basics.Address]basics.AccountData)
	sum := uint64(0)
	for i, a := range c.accts {
		ad := basics.AccountData{Status: basics.Status(a.status), MicroAlgos: basics.MicroAlgos{Raw: a.bal}, IncentiveEligible: a.elig,
			LastProposed: basics.Round(a.lp), LastHeartbeat: basics.Round(a.lhb)}
		if a.hasKey {
			ad.VoteID[0], ad.VoteID[5] = byte(i+1), 0x27
			ad.SelectionID[0], ad.SelectionID[5] = byte(i+1), 0x28
			ad.StateProofID[0], ad.StateProofID[5] = byte(i+1), 0x29
			ad.VoteKeyDilution = 10000
		}
		ad.VoteFirstValid, ad.VoteLastValid = basics.Round(a.vfirst), basics.Round(a.vlast)
		cur[c.addr(i)] = ad
		if a.stake > 0 {
			old[c.addr(i)] = basics.AccountData{Status: basics.Online, MicroAlgos: basics.MicroAlgos{Raw: a.stake}}
			sum += a.stake
		}
	}
	if c.S > sum {
		old[c27Filler] = basics.AccountData{Status: basics.Online, MicroAlgos: basics.MicroAlgos{Raw: c.S - sum}}
	}
	cur[c27Funder] = basics.AccountData{Status: basics.Offline, MicroAlgos: basics.MicroAlgos{Raw: 1_000_000_000_000}}
	cur[testSinkAddr] = basics.AccountData{Status: basics.NotParticipating, MicroAlgos: basics.MicroAlgos{Raw: 10_000_000}}
	cur[testPoolAddr] = basics.AccountData{Status: basics.NotParticipating, MicroAlgos: basics.MicroAlgos{Raw: proto.MinBalance}}

	l := &evalTestLedger{
		blocks:              make(map[basics.Round]bookkeeping.Block),
		roundBalances:       make(map[basics.Round]map[basics.Address]basics.AccountData),
		feeSink:             testSinkAddr,
		rewardsPool:         testPoolAddr,
		boxes:               make(map[string][]byte),
		genesisProto:        proto,
		genesisProtoVersion: ver,
	}
	l.genesisHash = crypto.Digest{0xC2, 0x70}
	gen, err := bookkeeping.MakeGenesisBlock(ver, bookkeeping.GenesisBalances{Balances: cur, FeeSink: testSinkAddr, RewardsPool: testPoolAddr}, "verif-c27", l.genesisHash)
	if err != nil {
		panic(err)
	}
	var ot basics.OverflowTracker
	for _, ad := range cur {
		l.latestTotals.AddAccount(proto.RewardUnit, ledgercore.ToAccountData(ad), &ot)
	}
	R := basics.Round(c.R)
	hdrAt := func(r basics.Round) bookkeeping.BlockHeader {
		h := gen.BlockHeader
		h.Round = r
		h.TimeStamp = 1
		return h
	}
	l.blocks[R-1] = bookkeeping.Block{BlockHeader: hdrAt(R - 1)}
	l.blocks[R-2] = bookkeeping.Block{BlockHeader: hdrAt(R - 2)}
	if c.ci > 0 && c.rules != 2 {
		lc := R - R%basics.Round(c.ci)
		if lc+2 < R {
			h := hdrAt(lc)
			for i := range h.Seed {
				h.Seed[i] = 0
			}
			h.Seed[0], h.Seed[1] = c.seed[0], c.seed[1]
			if c.rules == 0 {
				h.CurrentProtocol = c27Proto(c.me, c.ma, c.ci, c.cg, c.cb, true)
			}
			l.blocks[lc] = bookkeeping.Block{BlockHeader: h}
		}
	}
	l.roundBalances[R-1] = cur
	l.roundBalances[R-320] = old
	return &c27L{evalTestLedger: l, latest: R - 1}, l.blocks[R-1].BlockHeader
}

func c27ErrClass(err error) string {
	s := err.Error()
	for _, p := range [][2]string{
		{"length of expired accounts", "explen"}, {"duplicate address found", "dup"}, {"had no vote key", "nokey"},
		{"was not less than current round", "notexpired"}, {"length of absent accounts", "abslen"}, {"not Online", "notonline"},
		{"with zero algos", "zeroalgos"}, {"not IncentiveEligible", "ineligible"}, {"is not absent in", "notabsent"}} {
		if strings.Contains(s, p[0]) {
			return p[1]
		}
	}
	if len(s) > 120 {
		s = s[:120]
	}
	return "other:" + strings.ReplaceAll(s, " ", "_")
}

func (c *c27Case) post(l *c27L, delta ledgercore.StateDelta) string {
	parts := make([]string, len(c.accts))
	for i := range c.accts {
		ad, ok := delta.Accts.GetData(c.addr(i))
		if !ok {
			ad = ledgercore.ToAccountData(l.roundBalances[l.latest][c.addr(i)])
		}
		k, e := "-", "-"
		if !ad.VoteID.IsEmpty() {
			k = "k"
		}
		if ad.IncentiveEligible {
			e = "e"
		}
		parts[i] = fmt.Sprintf("%d%s%s/%d", int(ad.Status), k, e, uint64(ad.VoteLastValid))
	}
	return strings.Join(parts, ",")
}

func (c *c27Case) addrs(l []int) []basics.Address {
	out := make([]basics.Address, 0, len(l))
	for _, i := range l {
		out = append(out, c.addr(i))
	}
	return out
}

// c27Exec runs one case on the real evaluator.
func c27Exec(op string) string {
	c := c27Parse(op)
	l, prev := c27BuildLedger(c)
	nb := bookkeeping.MakeBlock(prev)
	gev, err := StartEvaluator(l, nb.BlockHeader, EvaluatorOptions{Validate: true, Generate: true})
	if err != nil {
		return "starterr " + c27ErrClass(err)
	}
	var part []basics.Address
	if c.kind == "ev" {
		// base block: every population account "participates", so the generator lists nobody
		for i := range c.accts {
			part = append(part, c.addr(i))
		}
	} else {
		part = c.addrs(c.l1)
		for k, i := range c.l2 {
			tx := transactions.Transaction{
				Type: protocol.PaymentTx,
				Header: transactions.Header{Sender: c27Funder, Fee: basics.MicroAlgos{Raw: gev.proto.MinTxnFee}, FirstValid: basics.Round(c.R - 1),
					LastValid: basics.Round(c.R), GenesisHash: l.GenesisHash(), Note: []byte{byte(k)}},
				PaymentTxnFields: transactions.PaymentTxnFields{Receiver: c.addr(i)},
			}
			if err := gev.TransactionGroup(transactions.SignedTxn{Txn: tx}.WithAD()); err != nil {
				return "txerr " + c27ErrClass(err)
			}
		}
	}
	ub, err := gev.GenerateBlock(part)
	if err != nil {
		return "generr " + c27ErrClass(err)
	}
	blk := ub.UnfinishedBlock().WithProposer(committee.Seed{0x5e}, testPoolAddr, true)
	if c.kind == "ev" {
		if len(blk.ExpiredParticipationAccounts)+len(blk.AbsentParticipationAccounts) != 0 {
			return "generr base-block-not-empty"
		}
		blk.ExpiredParticipationAccounts = c.addrs(c.l1)
		blk.AbsentParticipationAccounts = c.addrs(c.l2)
		delta, err := Eval(context.Background(), l, blk, c.validate, verify.GetMockedCache(true), nil, nil)
		if err != nil {
			return "err " + c27ErrClass(err)
		}
		return "ok " + c.post(l, delta)
	}
	idx := make(map[basics.Address]int)
	for i := range c.accts {
		idx[c.addr(i)] = i
	}
	toIdx := func(as []basics.Address) string {
		var out []int
		for _, a := range as {
			if i, ok := idx[a]; ok {
				out = append(out, i)
			} else {
				out = append(out, 999)
			}
		}
		sort.Ints(out)
		return c27List(out)
	}
	delta, err := Eval(context.Background(), l, blk, true, verify.GetMockedCache(true), nil, nil)
	val, post := "ok", "-"
	if err != nil {
		val = c27ErrClass(err)
	} else {
		post = c.post(l, delta)
	}
	return fmt.Sprintf("E=%s A=%s val=%s post=%s", toIdx(blk.ExpiredParticipationAccounts), toIdx(blk.AbsentParticipationAccounts), val, post)
}

// ---- generator (aims at the justification boundaries; the oracle below is only used for aiming) ----

func c27Lag(S, s uint64) (uint64, bool) {
	if s == 0 {
		return 0, false
	}
	hi, lo := mul64(20, S)
	if hi >= s {
		return 0, false
	}
	q, _ := div64(hi, lo, s)
	return q, q <= 4294967295
}

func (c *c27Case) challengeRound() uint64 {
	if c.ci == 0 || c.R < c.ci || c.rules != 1 {
		return 0
	}
	lc := c.R - c.R%c.ci
	if c.R <= lc+c.cg || c.R > lc+2*c.cg {
		return 0
	}
	return lc
}

func c27Prefix(s0, s1, a0, a1 byte, bits int) bool {
	if bits < 0 || bits > 16 {
		return false
	}
	x := (uint16(s0)<<8 | uint16(s1)) ^ (uint16(a0)<<8 | uint16(a1))
	return bits == 0 || x>>(16-uint(bits)) == 0
}

func (c *c27Case) aimExpired(i int) bool {
	a := c.accts[i]
	return a.hasKey && a.vlast < c.R
}

func (c *c27Case) aimAbsent(i int) bool {
	a := c.accts[i]
	if a.status != 1 || a.bal == 0 || !a.elig {
		return false
	}
	ls := max(a.lp, a.lhb)
	if lag, ok := c27Lag(c.S, a.stake); ok && ls != 0 && ls+lag < c.R {
		return true
	}
	lc := c.challengeRound()
	return lc != 0 && c27Prefix(c.seed[0], c.seed[1], a.p0, a.p1, c.cb) && ls < lc
}

func c27GenCase(rng *vh.Rng, kind string) *c27Case {
	c := &c27Case{kind: kind, validate: true}
	c.me = []int{32, 3, 1, 0, 2, 3}[rng.Intn(6)]
	c.ma = []int{32, 2, 1, 0, 3, 2}[rng.Intn(6)]
	cfg := [][2]uint64{{1000, 200}, {50, 10}, {64, 16}, {0, 200}, {1000, 200}, {40, 4}}[rng.Intn(6)]
	c.ci, c.cg = cfg[0], cfg[1]
	c.cb = []int{5, 5, 0, 1, 8, 11, 16, 3, 9}[rng.Intn(9)]
	if c.ci > 0 {
		k := uint64(1 + rng.Intn(4))
		if c.ci < 322 {
			k = 322/c.ci + 1 + uint64(rng.Intn(40))
		}
		lc := k * c.ci
		off := []uint64{c.cg, c.cg + 1, 2 * c.cg, 2*c.cg + 1, c.cg + 1 + uint64(rng.Intn(int(c.cg))), uint64(rng.Intn(int(c.ci))), c.cg + 2}[rng.Intn(7)]
		c.R = lc + off%c.ci
	} else {
		c.R = 322 + uint64(rng.Intn(4000))
	}
	if c.R < 322 {
		c.R += 322
	}
	c.seed[0], c.seed[1] = byte(rng.U64()), byte(rng.U64())
	c.rules = 1
	if rng.Chance(15) {
		c.rules = []int{0, 0, 2}[rng.Intn(3)]
	}
	c.S = []uint64{1_000_000_000, 1_000_000_000_000, 2_000_000_000_000_000, 6_000_000_000_000_000, 37_000_000}[rng.Intn(5)] + uint64(rng.Intn(1000000))
	n := 2 + rng.Intn(7)
	if kind == "gen" && rng.Chance(30) {
		n = 6 + rng.Intn(6)
	}
	lc := c.challengeRound()
	for i := 0; i < n; i++ {
		var a c27Acct
		a.p0, a.p1 = byte(rng.U64()), byte(rng.U64())
		a.status, a.hasKey, a.elig = 1, true, true
		a.bal = []uint64{100000, 5_000_000, 1, 1_000_000_000, 99999, uint64(100000 + rng.Intn(1000000000))}[rng.Intn(6)]
		a.vfirst = uint64(rng.Intn(300))
		a.vlast = c.R + 1000 + uint64(rng.Intn(3000000))
		// stake: an n-th of the total at most, so that the population never exceeds the total
		k := uint64(n + rng.Intn(40))
		a.stake = c.S / k
		if rng.Chance(40) {
			a.bal = a.stake
		}
		seen := c.R - 1 - uint64(rng.Intn(15))
		switch rng.Intn(14) {
		case 0: // keys expired
			a.vlast = []uint64{c.R - 1, c.R - 2, uint64(rng.Intn(int(c.R))), a.vfirst}[rng.Intn(4)]
		case 1: // keys at the boundary, not yet expired
			a.vlast = []uint64{c.R, c.R + 1}[rng.Intn(2)]
		case 2: // suspended earlier (offline, keys kept), keys expired or not
			a.status, a.elig = 0, false
			a.vlast = []uint64{c.R - 1, c.R, c.R - 3, c.R + 5000}[rng.Intn(4)]
		case 3, 4, 5: // around the stake-proportional lag
			if lag, ok := c27Lag(c.S, a.stake); ok && c.R > lag+3 {
				seen = c.R - lag - 1 + uint64(rng.Intn(3)) - 1
			}
		case 6, 7: // challenged: address prefix equal to the seed's, last seen around the challenge round
			a.p0, a.p1 = c.seed[0], c.seed[1]
			if c.cb > 0 && c.cb <= 16 && rng.Chance(50) { // flip one bit at / just after the end of the prefix
				bit := c.cb - 1 + rng.Intn(2)
				if bit < 8 {
					a.p0 ^= 0x80 >> uint(bit)
				} else if bit < 16 {
					a.p1 ^= 0x80 >> uint(bit-8)
				}
			} else if rng.Chance(50) {
				a.p1 ^= byte(rng.U64())
			}
			if lc != 0 {
				seen = []uint64{lc - 1, lc, lc + 1, lc - 1 - uint64(rng.Intn(15))}[rng.Intn(4)]
			} else if c.ci > 0 {
				seen = c.R - c.R%c.ci - 1
			}
		case 8: // absent but not eligible
			a.elig = false
			seen = 1 + uint64(rng.Intn(20))
		case 9: // absent by the numbers but no balance left / never seen / no stake
			seen = 1 + uint64(rng.Intn(20))
			switch rng.Intn(3) {
			case 0:
				a.bal = 0
			case 1:
				seen = 0
			case 2:
				a.stake = []uint64{0, 1, c.S/4294967295 + uint64(rng.Intn(2))}[rng.Intn(3)]
			}
		case 10: // plain offline / non-participating, no keys
			a.status, a.hasKey, a.elig = []int{0, 2}[rng.Intn(2)], false, false
			a.vfirst, a.vlast = 0, 0
			if rng.Chance(30) {
				a.vlast = uint64(rng.Intn(int(c.R))) // stale validity window without a key
			}
		case 11: // long gone: absent and expired at once
			seen = 1 + uint64(rng.Intn(20))
			a.vlast = uint64(rng.Intn(int(c.R)))
		case 12: // online without a key (cannot be expired)
			a.hasKey = false
			seen = 1 + uint64(rng.Intn(20))
		default: // present
		}
		if rng.Bool() {
			a.lp, a.lhb = seen, uint64(rng.Intn(int(seen)+1))
		} else {
			a.lhb, a.lp = seen, uint64(rng.Intn(int(seen)+1))
		}
		if rng.Chance(20) {
			a.lp, a.lhb = max(a.lp, a.lhb), 0
		}
		c.accts = append(c.accts, a)
	}
	return c
}

func c27Shuffle(rng *vh.Rng, l []int) {
	for i := len(l) - 1; i > 0; i-- {
		j := rng.Intn(i + 1)
		l[i], l[j] = l[j], l[i]
	}
}

func c27Insert(rng *vh.Rng, l []int, v int) []int {
	p := rng.Intn(len(l) + 1)
	out := append([]int{}, l[:p]...)
	out = append(out, v)
	return append(out, l[p:]...)
}

func c27GenEv(rng *vh.Rng) *c27Case {
	c := c27GenCase(rng, "ev")
	n := len(c.accts)
	var E, A []int
	inE := map[int]bool{}
	for i := 0; i < n; i++ {
		if c.aimExpired(i) && rng.Chance(80) {
			E = append(E, i)
			inE[i] = true
		}
	}
	for i := 0; i < n; i++ {
		if !inE[i] && c.aimAbsent(i) && rng.Chance(85) {
			A = append(A, i)
		}
	}
	c27Shuffle(rng, E)
	c27Shuffle(rng, A)
	if len(E) > c.me {
		E = E[:c.me]
	}
	if len(A) > c.ma {
		A = A[:c.ma]
	}
	other := func() int { // a member chosen without regard to its justification (sometimes unknown to the ledger)
		if rng.Chance(15) {
			return n + rng.Intn(3)
		}
		return rng.Intn(n)
	}
	switch rng.Intn(12) {
	case 0, 1, 2, 3: // justified lists
	case 4: // one extra member
		if rng.Bool() {
			E = c27Insert(rng, E, other())
		} else {
			A = c27Insert(rng, A, other())
		}
	case 5: // a duplicate
		if len(E) > 0 && (rng.Bool() || len(A) == 0) {
			E = c27Insert(rng, E, E[rng.Intn(len(E))])
		} else if len(A) > 0 {
			A = c27Insert(rng, A, A[rng.Intn(len(A))])
		}
	case 6: // one too many
		if rng.Bool() {
			for len(E) <= c.me && len(E) < 40 {
				E = c27Insert(rng, E, n+3+len(E))
			}
		} else {
			for len(A) <= c.ma && len(A) < 40 {
				A = c27Insert(rng, A, n+3+len(A))
			}
		}
	case 7: // a member on both lists
		if len(E) > 0 {
			A = c27Insert(rng, A, E[rng.Intn(len(E))])
		}
	case 8: // arbitrary lists
		E, A = nil, nil
		for k := rng.Intn(3); k > 0; k-- {
			E = append(E, other())
		}
		for k := rng.Intn(3); k > 0; k-- {
			A = append(A, other())
		}
	case 9: // every account on the absent list that is absent by the numbers, whatever else holds
		A = nil
		for i := 0; i < n && len(A) < c.ma; i++ {
			if !inE[i] && rng.Chance(60) {
				A = append(A, i)
			}
		}
	case 10: // only absentees
		E = nil
	case 11: // only expired
		A = nil
	}
	c.l1, c.l2 = E, A
	if rng.Chance(4) {
		c.validate = false
	}
	return c
}

func c27GenGen(rng *vh.Rng) *c27Case {
	c := c27GenCase(rng, "gen")
	n := len(c.accts)
	var P, M []int
	for i := 0; i < n; i++ {
		if rng.Chance(15) {
			P = append(P, i)
		}
		if c.accts[i].bal >= 1000000 && rng.Chance(45) {
			M = append(M, i)
		}
	}
	c.l1, c.l2 = P, M
	return c
}

func TestVerifC27(t *testing.T) {
	t.Chdir(t.TempDir())
	ops, replay := vh.ReplayOps()
	if !replay {
		// seed corpus first (boundary cases, one per realistic code change; see corpus/C27/seed.ops)
		if p := os.Getenv("VERIF_C27_CORPUS"); p != "" {
			if b, err := os.ReadFile(p); err == nil {
				for _, l := range strings.Split(string(b), "\n") {
					if l = strings.TrimSpace(l); l != "" && !strings.HasPrefix(l, "#") {
						ops = append(ops, l)
					}
				}
			}
		}
		rng := vh.NewRng(vh.Seed() + 27)
		n := vh.Budget(4000, 150000)
		for i := 0; i < n; i++ {
			if i%4 == 3 {
				ops = append(ops, c27GenGen(rng).line())
			} else {
				ops = append(ops, c27GenEv(rng).line())
			}
		}
	}
	out := vh.Open("c27")
	defer out.Close()
	for _, op := range ops {
		if f := strings.Fields(op); len(f) == 0 || (f[0] != "ev" && f[0] != "gen") {
			continue
		}
		res := vh.Catch(func() string { return c27Exec(op) })
		if strings.HasPrefix(res, "PANIC") {
			res = strings.ReplaceAll(res, " ", "_")
		}
		out.Emit(op, res)
	}
}
