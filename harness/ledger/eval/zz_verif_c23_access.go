//go:build verif

package eval

// Read-only accessors for the C23 harness (harness/ledger/zz_verif_c23_test.go, package ledger).
// Injected only through the /verif go-overlay with -tags verif; never part of /repo.
// They expose what the in-progress evaluator's top-level roundCowState sees through the same functions the
// application code uses (appcow.go / applications.go / cow.go), plus the raw key sets needed to ENUMERATE
// (the evaluator itself has no enumeration of global / local keys or boxes).

import (
	"sort"

	"github.com/algorand/go-algorand/data/basics"
	"github.com/algorand/go-algorand/ledger/ledgercore"
)

// VerifC23Counts is roundCowState.getStorageCounts: the evaluator's stored usage counters of {addr, aidx, global}.
func (eval *BlockEvaluator) VerifC23Counts(addr basics.Address, aidx basics.AppIndex, global bool) (basics.StateSchema, error) {
	return eval.state.getStorageCounts(addr, aidx, global)
}

// VerifC23Limits is roundCowState.getStorageLimits.
func (eval *BlockEvaluator) VerifC23Limits(addr basics.Address, aidx basics.AppIndex, global bool) (basics.StateSchema, error) {
	return eval.state.getStorageLimits(addr, aidx, global)
}

// VerifC23Allocated is roundCowState.allocated.
func (eval *BlockEvaluator) VerifC23Allocated(addr basics.Address, aidx basics.AppIndex, global bool) (bool, error) {
	return eval.state.allocated(addr, aidx, global)
}

// VerifC23GetKey is roundCowState.getKey.
func (eval *BlockEvaluator) VerifC23GetKey(addr basics.Address, aidx basics.AppIndex, global bool, key string) (basics.TealValue, bool, error) {
	return eval.state.getKey(addr, aidx, global, key, 0)
}

// VerifC23Keys returns every key that MAY exist in {addr, aidx, global}: the keys of the record below the evaluator
// (roundCowBase: AppParams.GlobalState / AppLocalState.KeyValue) and every key with a pending delta in the top-level cow.
// The caller asks VerifC23GetKey for each of them.
func (eval *BlockEvaluator) VerifC23Keys(addr basics.Address, aidx basics.AppIndex, global bool) ([]string, error) {
	seen := map[string]bool{}
	if lsd, ok := eval.state.sdeltas[addr][storagePtr{aidx, global}]; ok {
		for k := range lsd.kvCow {
			seen[k] = true
		}
	}
	if global {
		p, ok, err := eval.state.lookupParent.lookupAppParams(addr, aidx, false)
		if err != nil {
			return nil, err
		}
		if ok && p.Params != nil {
			for k := range p.Params.GlobalState {
				seen[k] = true
			}
		}
	} else {
		s, ok, err := eval.state.lookupParent.lookupAppLocalState(addr, aidx, false)
		if err != nil {
			return nil, err
		}
		if ok && s.LocalState != nil {
			for k := range s.LocalState.KeyValue {
				seen[k] = true
			}
		}
	}
	out := make([]string, 0, len(seen))
	for k := range seen {
		out = append(out, k)
	}
	sort.Strings(out)
	return out, nil
}

// VerifC23LocalSchema returns AppLocalState.Schema of the (addr, aidx) record as the evaluator sees it.
func (eval *BlockEvaluator) VerifC23LocalSchema(addr basics.Address, aidx basics.AppIndex) (basics.StateSchema, bool, error) {
	s, ok, err := eval.state.GetAppLocalState(addr, aidx)
	return s.Schema, ok, err
}

// VerifC23AppParams is roundCowState.AppParams (params + creator; error when the app does not exist).
func (eval *BlockEvaluator) VerifC23AppParams(aidx basics.AppIndex) (basics.AppParams, basics.Address, error) {
	return eval.state.AppParams(aidx)
}

// VerifC23Box is roundCowState.GetBox.
func (eval *BlockEvaluator) VerifC23Box(aidx basics.AppIndex, name string) ([]byte, bool, error) {
	return eval.state.GetBox(aidx, name)
}

// VerifC23KvModKeys returns the full kv keys with a pending modification in the top-level cow (sorted).
func (eval *BlockEvaluator) VerifC23KvModKeys() []string {
	out := make([]string, 0, len(eval.state.mods.KvMods))
	for k := range eval.state.mods.KvMods {
		out = append(out, k)
	}
	sort.Strings(out)
	return out
}

// VerifC23Lookup is eval.state.lookup (no pending rewards applied).
func (eval *BlockEvaluator) VerifC23Lookup(addr basics.Address) (ledgercore.AccountData, error) {
	return eval.state.lookup(addr)
}

// VerifC23Counter is eval.state.Counter().
func (eval *BlockEvaluator) VerifC23Counter() uint64 { return eval.state.Counter() }
