//go:build verif

package eval

// Correspondence harness for the pure fee / payout / absence arithmetic of the evaluator (C24, C27).
//   cgf <paid> <usage> <minFee>                         ⇒ ok | err
//   load <blockSize> <maxSize>                          ⇒ <micros>
//   absent <totalStake> <stake> <lastSeen> <current>    ⇒ true | false
//   payout <pct> <fees> <bonus> <sinkBal> <minBal> [nAssetsOfSink] ⇒ <microalgos> | err       (real BlockEvaluator.proposerPayout)
//   vpay <claimed> <pct> <fees> <bonus> <sinkBal> <minBal> ⇒ ok | err             (real validateForPayouts, generate mode)
import (
	"fmt"
	"strings"
	"testing"

	"github.com/algorand/go-algorand/config"
	"github.com/algorand/go-algorand/data/basics"
	"github.com/algorand/go-algorand/data/bookkeeping"
	"github.com/algorand/go-algorand/ledger/ledgercore"
	"github.com/algorand/go-algorand/protocol"
	"github.com/algorand/go-algorand/zz_verif_tools/vh"
)

func verifFeesEval(pct, fees, bonus, sinkBal, minBal, claimed, nassets uint64) *BlockEvaluator {
	proto := config.Consensus[protocol.ConsensusFuture]
	proto.Payouts.Enabled = true
	proto.Payouts.Percent = pct
	proto.MinBalance = minBal
	var sink basics.Address
	sink[0] = 0x7
	sinkData := basics.AccountData{MicroAlgos: basics.MicroAlgos{Raw: sinkBal}}
	if nassets > 0 {
		// the fee sink may hold assets (it can opt in): its own minimum balance is then above proto.MinBalance
		sinkData.Assets = make(map[basics.AssetIndex]basics.AssetHolding)
		for i := uint64(1); i <= nassets; i++ {
			sinkData.Assets[basics.AssetIndex(i)] = basics.AssetHolding{}
		}
	}
	ml := &mockLedger{balanceMap: map[basics.Address]basics.AccountData{sink: sinkData}}
	var hdr bookkeeping.BlockHeader
	hdr.FeeSink = sink
	hdr.FeesCollected = basics.MicroAlgos{Raw: fees}
	hdr.Bonus = basics.MicroAlgos{Raw: bonus}
	hdr.ProposerPayout = basics.MicroAlgos{Raw: claimed}
	ev := &BlockEvaluator{proto: proto, generate: true}
	ev.block = bookkeeping.Block{BlockHeader: hdr}
	ev.state = makeRoundCowState(ml, hdr, proto, 0, ledgercore.AccountTotals{}, 0)
	ev.state.feesCollected = basics.MicroAlgos{Raw: fees}
	return ev
}

func verifFeesExec(op string) string {
	f := strings.Fields(op)
	res := vh.Catch(func() string {
		switch f[0] {
		case "cgf":
			if err := CheckGroupFees(basics.MicroAlgos{Raw: vh.U(f[1])}, basics.Micros(vh.U(f[2])), basics.MicroAlgos{Raw: vh.U(f[3])}); err != nil {
				return "err"
			}
			return "ok"
		case "load":
			return fmt.Sprintf("%d", uint64(ComputeLoad(int(vh.I(f[1])), int(vh.I(f[2])))))
		case "absent":
			return vh.B(isAbsent(basics.MicroAlgos{Raw: vh.U(f[1])}, basics.MicroAlgos{Raw: vh.U(f[2])}, basics.Round(vh.U(f[3])), basics.Round(vh.U(f[4]))))
		case "payout":
			na := uint64(0)
			if len(f) > 6 {
				na = vh.U(f[6])
			}
			ev := verifFeesEval(vh.U(f[1]), vh.U(f[2]), vh.U(f[3]), vh.U(f[4]), vh.U(f[5]), 0, na)
			p, err := ev.proposerPayout()
			if err != nil {
				return "err"
			}
			return fmt.Sprintf("%d", p.Raw)
		case "vpay":
			na := uint64(0)
			if len(f) > 7 {
				na = vh.U(f[7])
			}
			ev := verifFeesEval(vh.U(f[2]), vh.U(f[3]), vh.U(f[4]), vh.U(f[5]), vh.U(f[6]), vh.U(f[1]), na)
			if err := ev.validateForPayouts(); err != nil {
				return "err"
			}
			return "ok"
		}
		return "bad-op"
	})
	if strings.HasPrefix(res, "PANIC") {
		return "PANIC"
	}
	return res
}

func verifFeesGenerate() []string {
	rng := vh.NewRng(vh.Seed() + 24)
	var ops []string
	profile := vh.Profile()
	n := vh.Budget(40000, 2000000)
	for i := 0; i < n; i++ {
		switch {
		case profile == "absent" || (profile == "" && i%5 == 4):
			S := rng.Biased64()
			s := []uint64{0, 1, rng.Biased64(), S / uint64(1+rng.Intn(5000)), S/4294967295 + uint64(rng.Intn(3)), 1 + S/214748364}[rng.Intn(6)]
			ls := []uint64{0, 1, uint64(rng.Intn(100000000)), rng.Biased64()}[rng.Intn(4)]
			lag := uint64(0)
			if s != 0 {
				hi, lo := mul64(20, S)
				if hi < s {
					lag, _ = div64(hi, lo, s)
				}
			}
			r := []uint64{ls + lag, ls + lag + 1, ls + lag - 1, rng.Biased64(), ls + 21}[rng.Intn(5)]
			ops = append(ops, fmt.Sprintf("absent %d %d %d %d", S, s, ls, r))
		case i%5 == 0:
			minFee := []uint64{1000, 0, 1, rng.Biased64()}[rng.Intn(4)]
			usage := []uint64{1000000, 2000000, 1000001, 999999, 16000000, rng.Biased64(), uint64(rng.Intn(20000000))}[rng.Intn(7)]
			hi, lo := mul64(minFee, usage)
			need := uint64(0)
			if hi < 1000000 {
				need, _ = div64(hi, lo, 1000000)
			}
			paid := []uint64{need, need + 1, need - 1, 0, rng.Biased64()}[rng.Intn(5)]
			ops = append(ops, fmt.Sprintf("cgf %d %d %d", paid, usage, minFee))
		case i%5 == 1:
			bs, ms := int64(rng.Intn(6000000)), int64(1+rng.Intn(5500000))
			if rng.Chance(10) {
				bs = int64(rng.Biased64() >> 1)
			}
			if rng.Chance(5) {
				ms = int64(rng.Biased64()>>1) | 1
			}
			ops = append(ops, fmt.Sprintf("load %d %d", bs, ms))
		default:
			pct := uint64(rng.Intn(101))
			fees := []uint64{0, 1000, uint64(rng.Intn(100000000)), rng.Biased64()}[rng.Intn(4)]
			bonus := []uint64{0, 10000000, uint64(rng.Intn(20000000)), rng.Biased64()}[rng.Intn(4)]
			minBal := []uint64{100000, 0, uint64(rng.Intn(1000000))}[rng.Intn(3)]
			want := fees/100*pct + bonus
			na := uint64(0)
			if rng.Chance(50) {
				na = uint64(1 + rng.Intn(4))
			}
			sinkMin := minBal * (1 + na)
			sink := []uint64{sinkMin, sinkMin + want, sinkMin + want/2, sinkMin - 1, 0, rng.Biased64(), sinkMin + 1, minBal + want, minBal + 1}[rng.Intn(9)]
			if i%5 == 2 {
				ops = append(ops, fmt.Sprintf("payout %d %d %d %d %d %d", pct, fees, bonus, sink, minBal, na))
			} else {
				avail := uint64(0)
				if sink > sinkMin {
					avail = sink - sinkMin
				}
				mx := want
				if avail < mx {
					mx = avail
				}
				claimed := []uint64{mx, mx + 1, mx - 1, 0, rng.Biased64(), want, avail}[rng.Intn(7)]
				ops = append(ops, fmt.Sprintf("vpay %d %d %d %d %d %d %d", claimed, pct, fees, bonus, sink, minBal, na))
			}
		}
	}
	return ops
}

func mul64(a, b uint64) (uint64, uint64) {
	const mask = 1<<32 - 1
	a0, a1, b0, b1 := a&mask, a>>32, b&mask, b>>32
	w0 := a0 * b0
	t := a1*b0 + w0>>32
	w1, w2 := t&mask, t>>32
	w1 += a0 * b1
	return a1*b1 + w2 + w1>>32, a * b
}

func div64(hi, lo, y uint64) (uint64, uint64) {
	// only used by the generator to aim at boundaries; hi < y guaranteed by callers
	q, r := uint64(0), hi
	for i := 63; i >= 0; i-- {
		top := r >> 63
		r = r<<1 | (lo>>uint(i))&1
		if top == 1 || r >= y {
			r -= y
			q |= 1 << uint(i)
		}
	}
	return q, r
}

func TestVerifFees(t *testing.T) {
	ops, replay := vh.ReplayOps()
	if !replay {
		ops = verifFeesGenerate()
	}
	out := vh.Open("fees")
	defer out.Close()
	for _, op := range ops {
		out.Emit(op, verifFeesExec(op))
	}
}
