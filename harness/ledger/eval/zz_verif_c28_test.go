//go:build verif

package eval

// C28, evaluator layer: the REAL BlockEvaluator.TransactionGroup (Validate + Generate) on payment groups whose members name
// an AuthAddr and may carry a RekeyTo — "does the address that authorized the transaction match what the sender has
// rekeyed to" (eval.go:transaction) and apply.Rekey.  Signatures are not the evaluator's business (verify.TxnGroup's, see
// the other c28 harness), so the transactions are unsigned.
//
// Op lines (stateful):
//
//	reset                          fresh ledger, 6 funded accounts a0..a5, fresh evaluator for round 1
//	grp <snd>:<auth>:<rekey> ...   one transaction group; snd = a<i>; auth / rekey = 0 | a<i> | x<i> (x0..x2 unfunded addresses)
//	block                          finish the block, add it to the ledger, start the next one
//
// Result: `ok <AuthAddr of each member's sender after the group>` | `rej auth <index of the refused member>` | `rej other <msg>`.
import (
	"encoding/binary"
	"fmt"
	"os"
	"strings"
	"testing"

	"github.com/algorand/go-algorand/crypto"
	"github.com/algorand/go-algorand/data/basics"
	"github.com/algorand/go-algorand/data/bookkeeping"
	"github.com/algorand/go-algorand/data/transactions"
	ledgertesting "github.com/algorand/go-algorand/ledger/testing"
	"github.com/algorand/go-algorand/protocol"
	"github.com/algorand/go-algorand/zz_verif_tools/vh"
)

const verifC28NA, verifC28NX = 6, 3

type verifC28EvalState struct {
	t     *testing.T
	l     *evalTestLedger
	ev    *BlockEvaluator
	addrs []basics.Address
	xs    []basics.Address
	ctr   uint64
}

func (st *verifC28EvalState) addr(tok string) (basics.Address, bool) {
	if tok == "0" {
		return basics.Address{}, true
	}
	if len(tok) == 2 && tok[0] == 'a' && tok[1] >= '0' && int(tok[1]-'0') < verifC28NA {
		return st.addrs[tok[1]-'0'], true
	}
	if len(tok) == 2 && tok[0] == 'x' && tok[1] >= '0' && int(tok[1]-'0') < verifC28NX {
		return st.xs[tok[1]-'0'], true
	}
	return basics.Address{}, false
}

func (st *verifC28EvalState) tok(a basics.Address) string {
	if a.IsZero() {
		return "0"
	}
	for i, x := range st.addrs {
		if x == a {
			return fmt.Sprintf("a%d", i)
		}
	}
	for i, x := range st.xs {
		if x == a {
			return fmt.Sprintf("x%d", i)
		}
	}
	return "?"
}

func (st *verifC28EvalState) reset() {
	genesisInitState, addrs, _ := ledgertesting.Genesis(verifC28NA)
	st.l = newTestLedger(st.t, bookkeeping.GenesisBalances{Balances: genesisInitState.Accounts, FeeSink: testSinkAddr, RewardsPool: testPoolAddr})
	st.addrs = addrs
	st.xs = nil
	for i := 0; i < verifC28NX; i++ {
		st.xs = append(st.xs, basics.Address(crypto.Hash([]byte(fmt.Sprintf("verif-c28-x%d", i)))))
	}
	st.ev = st.l.nextBlock(st.t)
}

func (st *verifC28EvalState) exec(line string) string {
	f := strings.Fields(line)
	if len(f) == 0 {
		return "bad-op"
	}
	switch f[0] {
	case "reset":
		st.reset()
		return "ok"
	case "block":
		if st.ev == nil {
			return "bad-op"
		}
		st.l.endBlock(st.t, st.ev)
		st.ev = st.l.nextBlock(st.t)
		return "ok"
	case "grp":
		if st.ev == nil || len(f) < 2 {
			return "bad-op"
		}
		n := len(f) - 1
		grp := make([]transactions.SignedTxnWithAD, n)
		senders := make([]basics.Address, n)
		for i, t := range f[1:] {
			p := strings.Split(t, ":")
			if len(p) != 3 {
				return "bad-op"
			}
			snd, ok1 := st.addr(p[0])
			auth, ok2 := st.addr(p[1])
			rk, ok3 := st.addr(p[2])
			if !ok1 || !ok2 || !ok3 || p[0][0] != 'a' {
				return "bad-op"
			}
			st.ctr++
			note := make([]byte, 8)
			binary.BigEndian.PutUint64(note, st.ctr)
			senders[i] = snd
			grp[i].SignedTxn = transactions.SignedTxn{AuthAddr: auth, Txn: transactions.Transaction{
				Type: protocol.PaymentTx,
				Header: transactions.Header{Sender: snd, Fee: basics.MicroAlgos{Raw: st.ev.proto.MinTxnFee}, FirstValid: st.ev.Round(), LastValid: st.ev.Round(),
					GenesisHash: st.l.GenesisHash(), Note: note, RekeyTo: rk},
				PaymentTxnFields: transactions.PaymentTxnFields{Receiver: st.addrs[(int(p[0][1]-'0')+1)%verifC28NA], Amount: basics.MicroAlgos{Raw: 1}},
			}}
		}
		if n > 1 {
			var tg transactions.TxGroup
			for i := range grp {
				tg.TxGroupHashes = append(tg.TxGroupHashes, crypto.Digest(grp[i].Txn.ID()))
			}
			gid := crypto.HashObj(tg)
			for i := range grp {
				grp[i].Txn.Group = gid
			}
		}
		err := st.ev.TransactionGroup(grp...)
		if err != nil {
			m := err.Error()
			if strings.Contains(m, "should have been authorized by") {
				for i := range grp {
					if strings.Contains(m, "transaction "+grp[i].Txn.ID().String()+":") {
						return fmt.Sprintf("rej auth %d", i)
					}
				}
				return "rej auth ?"
			}
			return "rej other " + m
		}
		out := "ok"
		for _, s := range senders {
			d, err := st.ev.state.lookup(s)
			if err != nil {
				return "rej other lookup " + err.Error()
			}
			out += " " + st.tok(d.AuthAddr)
		}
		return out
	}
	return "bad-op"
}

// generator: mostly-valid sequences — it tracks which AuthAddr each account should have by now (only to choose inputs;
// the verdicts come from the real evaluator and, independently, from the Lean model)
func verifC28EvalGenerate(seed uint64, cases int) []string {
	r := vh.NewRng(seed)
	var lines []string
	other := func() string {
		if r.Chance(40) {
			return fmt.Sprintf("x%d", r.Intn(verifC28NX))
		}
		return fmt.Sprintf("a%d", r.Intn(verifC28NA))
	}
	for c := 0; c < cases; c++ {
		lines = append(lines, "reset")
		auth := map[string]string{}
		for g, ng := 0, 8+r.Intn(30); g < ng; g++ {
			if r.Chance(8) {
				lines = append(lines, "block")
				continue
			}
			n := 1
			if r.Chance(35) {
				n = 2 + r.Intn(3)
			}
			tmp := map[string]string{}
			for k, v := range auth {
				tmp[k] = v
			}
			ok := true
			var toks []string
			for i := 0; i < n; i++ {
				snd := fmt.Sprintf("a%d", r.Intn(verifC28NA))
				cur := tmp[snd]
				if cur == "" {
					cur = "0"
				}
				a := cur // the right AuthAddr field: the current AuthAddr ("0" when not rekeyed)
				switch x := r.Intn(100); {
				case x < 70:
				case x < 78:
					a = "0"
				case x < 86:
					a = snd
				default:
					a = other()
				}
				eff := a
				if eff == "0" {
					eff = snd
				}
				want := cur
				if want == "0" {
					want = snd
				}
				if eff != want {
					ok = false
				}
				rk := "0"
				switch x := r.Intn(100); {
				case x < 60:
				case x < 72:
					rk = snd
				default:
					rk = other()
				}
				if rk != "0" {
					if rk == snd {
						tmp[snd] = "0"
					} else {
						tmp[snd] = rk
					}
				}
				toks = append(toks, snd+":"+a+":"+rk)
			}
			if ok {
				auth = tmp
			}
			lines = append(lines, "grp "+strings.Join(toks, " "))
		}
	}
	return lines
}

func TestVerifC28Eval(t *testing.T) {
	out := vh.Open("c28eval")
	defer out.Close()
	lines, replay := vh.ReplayOps()
	if !replay {
		lines = verifC28EvalGenerate(vh.Seed(), vh.Budget(60, 1500))
		if b, err := os.ReadFile(os.Getenv("VERIF_C28_EVAL_CORPUS")); err == nil { // corpus/C28/eval.ops, run first
			var c []string
			for _, l := range strings.Split(string(b), "\n") {
				if strings.TrimSpace(l) != "" && !strings.HasPrefix(l, "#") {
					c = append(c, l)
				}
			}
			lines = append(c, lines...)
		}
	}
	st := &verifC28EvalState{t: t}
	for _, l := range lines {
		out.Emit(l, vh.Catch(func() string { return st.exec(l) }))
	}
}
