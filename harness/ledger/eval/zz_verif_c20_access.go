//go:build verif

package eval

// Accessors for the C20 harness (harness/ledger/zz_verif_c20_test.go, package ledger).  Injected into this package only
// through the /verif go-overlay with -tags verif; never part of /repo.

import (
	"fmt"

	"github.com/algorand/go-algorand/data/bookkeeping"
	"github.com/algorand/go-algorand/ledger/ledgercore"
)

// VerifC20EvalNoPrefetch evaluates blk exactly as Eval does (StartEvaluator with Generate=false, the payset groups of
// DecodePaysetGroups through TransactionGroup in order, endOfBlock, the Load check) but WITHOUT the prefetcher (every
// account / resource is read through the roundCowBase on demand) and WITHOUT the parallel signature validator.  It is
// the sequential reference the prefetching, pooled Eval is compared with.
func VerifC20EvalNoPrefetch(l LedgerForEvaluator, blk bookkeeping.Block, validate bool) (deltas ledgercore.StateDelta, err error) {
	defer func() {
		if r := recover(); r != nil {
			deltas = ledgercore.StateDelta{}
			err = ledgercore.EvalPanicError{Round: blk.Round(), Cause: fmt.Sprintf("%v", r)}
		}
	}()
	l.FlushCaches()
	ev, err := StartEvaluator(l, blk.BlockHeader, EvaluatorOptions{PaysetHint: len(blk.Payset), Validate: validate, Generate: false})
	if err != nil {
		return ledgercore.StateDelta{}, err
	}
	groups, err := blk.DecodePaysetGroups()
	if err != nil {
		return ledgercore.StateDelta{}, err
	}
	for _, g := range groups {
		if err = ev.TransactionGroup(g...); err != nil {
			return ledgercore.StateDelta{}, err
		}
	}
	if err = ev.endOfBlock(); err != nil {
		return ledgercore.StateDelta{}, err
	}
	if validate && ev.proto.LoadTracking {
		expectedLoad := ComputeLoad(ev.blockTxBytes, ev.proto.MaxTxnBytesPerBlock)
		if ev.block.BlockHeader.Load != expectedLoad {
			return ledgercore.StateDelta{}, fmt.Errorf("bad load: %d != %d", ev.block.BlockHeader.Load, expectedLoad)
		}
	}
	return ev.state.deltas(), nil
}

// VerifC20StateProofNext is eval.state.GetStateProofNextRound().
func (eval *BlockEvaluator) VerifC20StateProofNext() uint64 { return uint64(eval.state.GetStateProofNextRound()) }
