//go:build verif

package ledger

// C12 harness — "Reported account totals equal the sum over accounts"
// (model lean/AlgoVerif/Model/Totals.lean, driver `c12`, check checks/C12.py).
//
// A real Ledger is built from a generated genesis with a FUNDED rewards pool (the rewards level really moves from block
// to block).  Blocks are produced by the real BlockEvaluator from groups of payments (incl. closes), key registrations
// (online / offline / non-participating) and a few asset transactions (helpers of the LedgerCore harness
// zz_verif_lcore_test.go: lcHarness / lcGen), finished by GenerateBlock / Validate / AddValidatedBlock.  Between blocks
// the tracker registry is flushed synchronously with a chosen lookback and the ledger is reloaded.  After every block,
// commit and reload the harness prints Ledger.Totals(rnd) for EVERY served round (plus one round below and one above)
// together with the sums it recomputes itself over the whole universe (ids 0..9) at that round.
//
// Op grammar:
//   reset proto=<future|current> unit=<RewardUnit> A<id>=…      fresh ledger (lcore genesis tokens)             → ok | DIVERGED unit=<u>
//   begin                                                       start the evaluator of round latest+1           → r=<rnd> level=<block's RewardsLevel>
//   group t;t;…                                                 eval.TransactionGroup (lcore txn grammar)       → <class>
//   end rnd=<R> level=<L'> D<id>=ost,obal,obase>nst,nbal,nbase … GenerateBlock+Validate+AddValidatedBlock; the line carries the account
//                                                               deltas OBSERVED in the validated block's StateDelta (in the order
//                                                               CalculateTotals walks them; old = ledger at R-1); compared on replay
//                                                                                                               → T=<totals of StateDelta.Totals> | DIVERGED … | end-error …
//   commit lb=<k>                                               synchronous trackerRegistry.commitRound with lookback k → db=<dbRound>
//   reload lb=<cfg.MaxAcctLookback>                             Ledger.reloadLedger (its replay ends with a flush at that lookback when the
//                                                               DB round is more than lb behind)                → latest=<r> db=<dbRound> | DIVERGED lb=<..>
//   q                                                           for r in dbRound-1 .. latest+1:                  → latest=<r>:<T> <r>=<T>/<S>/<S2> …   (err for unserved rounds)
//       T  = Ledger.Totals(r)                     on,onu,off,offu,np,npu,lvl   (money, reward units per status; rewards level)
//       S  = Σ over ids 0..9 of LookupAccount(r) money with pending rewards as applied by the ledger, units from the raw balance,
//            level = BlockHdr(r).RewardsLevel
//       S2 = the same sums recomputed by the harness from LookupWithoutRewards(r) (raw balance, rewards base) and the header level
// Model lines "-" = not modelled (begin / group: inputs to the real evaluator only).

import (
	"fmt"
	"strconv"
	"strings"
	"testing"
	"time"

	"github.com/algorand/go-algorand/agreement"
	"github.com/algorand/go-algorand/config"
	"github.com/algorand/go-algorand/data/basics"
	"github.com/algorand/go-algorand/data/bookkeeping"
	"github.com/algorand/go-algorand/data/committee"
	"github.com/algorand/go-algorand/data/transactions/logic"
	"github.com/algorand/go-algorand/ledger/eval"
	"github.com/algorand/go-algorand/ledger/ledgercore"
	"github.com/algorand/go-algorand/logging"
	"github.com/algorand/go-algorand/protocol"
	"github.com/algorand/go-algorand/zz_verif_tools/vh"
)

type c12Harness struct {
	lc   *lcHarness
	unit uint64
}

func c12Tot(t ledgercore.AccountTotals) string {
	return fmt.Sprintf("%d,%d,%d,%d,%d,%d,%d", t.Online.Money.Raw, t.Online.RewardUnits, t.Offline.Money.Raw, t.Offline.RewardUnits,
		t.NotParticipating.Money.Raw, t.NotParticipating.RewardUnits, t.RewardsLevel)
}

// holdFlushes keeps the asynchronous commitSyncer quiet: tracker commits happen only on `commit` / `reload`.
func (h *c12Harness) holdFlushes() {
	h.lc.l.trackers.mu.Lock()
	h.lc.l.trackers.lastFlushTime = time.Now().Add(24 * time.Hour)
	h.lc.l.trackers.mu.Unlock()
}

func (h *c12Harness) dbRound() basics.Round {
	h.lc.l.trackers.mu.RLock()
	defer h.lc.l.trackers.mu.RUnlock()
	return h.lc.l.trackers.dbRound
}

func c12KV(f []string) map[string]string {
	m := map[string]string{}
	for _, t := range f {
		if i := strings.IndexByte(t, '='); i > 0 {
			m[t[:i]] = t[i+1:]
		}
	}
	return m
}

func (h *c12Harness) reset(op string) string {
	kv := c12KV(strings.Fields(op))
	cv := protocol.ConsensusFuture
	if kv["proto"] == "current" {
		cv = protocol.ConsensusCurrentVersion
	}
	h.unit = config.Consensus[cv].RewardUnit
	res := h.lc.reset(op)
	if res != "ok" {
		return res
	}
	h.holdFlushes()
	if strconv.FormatUint(h.unit, 10) != kv["unit"] {
		return fmt.Sprintf("DIVERGED unit=%d", h.unit)
	}
	return "ok"
}

// begin is the package's nextBlock helper without its require.NoError (a failing StartEvaluator is an output, not a test abort)
func (h *c12Harness) begin() string {
	l := h.lc.l
	hdr, err := l.BlockHdr(l.Latest())
	if err != nil {
		return "begin-error hdr:" + lcClassify(err)
	}
	nextHdr := bookkeeping.MakeBlock(hdr).BlockHeader
	nextHdr.TimeStamp = hdr.TimeStamp + 1
	ev, err := eval.StartEvaluator(l, nextHdr, eval.EvaluatorOptions{Generate: true, Validate: true, Tracer: logic.EvalErrorDetailsTracer{}})
	if err != nil {
		return "begin-error start:" + lcClassify(err)
	}
	h.lc.ev = ev
	return fmt.Sprintf("r=%d level=%d", h.lc.ev.Round(), h.lc.ev.VerifLcoreRewardsLevel())
}

func c12Acct(d ledgercore.AccountData) string {
	return fmt.Sprintf("%d,%d,%d", uint64(d.Status), d.MicroAlgos.Raw, d.RewardsBase)
}

// end finishes the block; returns (observed delta description, result line)
func (h *c12Harness) end() (string, string) {
	l := h.lc.l
	ub, err := h.lc.ev.GenerateBlock(nil)
	if err != nil {
		return "?", "end-error generate:" + lcClassify(err)
	}
	vb := ledgercore.MakeValidatedBlock(ub.UnfinishedBlock(), ub.UnfinishedDeltas())
	prp := vb.Block().BlockHeader.FeeSink
	if l.GenesisProto().Payouts.Enabled {
		vb = ledgercore.MakeValidatedBlock(vb.Block().WithProposer(committee.Seed(prp), prp, true), vb.Delta())
	} else {
		vb = ledgercore.MakeValidatedBlock(vb.Block().WithProposer(committee.Seed(prp), basics.Address{}, false), vb.Delta())
	}
	vvb, err := validateWithoutSignatures(h.lc.t, l, vb.Block())
	if err != nil {
		return "?", "end-error validate:" + lcClassify(err)
	}
	delta := vvb.Delta()
	rnd := vvb.Block().Round()
	var sb strings.Builder
	fmt.Fprintf(&sb, "rnd=%d level=%d", uint64(rnd), vvb.Block().RewardsLevel)
	for i := 0; i < delta.Accts.Len(); i++ {
		addr, nd := delta.Accts.GetByIdx(i)
		od, _, lerr := l.LookupWithoutRewards(rnd-1, addr)
		if lerr != nil {
			return "?", "end-error lookup-prev:" + lerr.Error()
		}
		fmt.Fprintf(&sb, " D%s=%s>%s", lcAddrID(addr), c12Acct(od), c12Acct(nd))
	}
	if err = l.AddValidatedBlock(*vvb, agreement.Certificate{}); err != nil {
		return "?", "end-error add:" + lcClassify(err)
	}
	l.WaitForCommit(l.Latest())
	h.lc.ev = nil
	return sb.String(), "T=" + c12Tot(delta.Totals)
}

// commit: the commit flow of the tracker registry executed synchronously with the given lookback
// (cf. triggerTrackerFlush in ledger_test.go and commitRoundLookback in applications_test.go).
func (h *c12Harness) commit(lb uint64) string {
	l := h.lc.l
	rnd := l.Latest()
	l.trackerMu.Lock()
	for _, lt := range l.trackers.trackers {
		lt.committedUpTo(rnd)
	}
	l.trackerMu.Unlock()
	dcc := &deferredCommitContext{deferredCommitRange: deferredCommitRange{lookback: basics.Round(lb)}}
	l.trackers.mu.RLock()
	dbRound := l.trackers.dbRound
	cdr := l.trackers.produceCommittingTask(rnd, dbRound, &dcc.deferredCommitRange)
	if cdr != nil {
		dcc.deferredCommitRange = *cdr
	} else {
		dcc = nil
	}
	l.trackers.mu.RUnlock()
	if dcc != nil {
		l.trackers.accountsWriting.Add(1)
		if err := l.trackers.commitRound(dcc); err != nil {
			return "other commitRound: " + err.Error()
		}
	}
	h.holdFlushes()
	return fmt.Sprintf("db=%d", uint64(h.dbRound()))
}

func (h *c12Harness) reload(lb string) string {
	l := h.lc.l
	if lb != strconv.FormatUint(l.cfg.MaxAcctLookback, 10) {
		return fmt.Sprintf("DIVERGED lb=%d", l.cfg.MaxAcctLookback)
	}
	h.lc.ev = nil
	l.WaitForCommit(l.Latest())
	l.trackers.waitAccountsWriting()
	if err := l.reloadLedger(); err != nil {
		return "other reload: " + err.Error()
	}
	l.trackers.waitAccountsWriting()
	h.holdFlushes()
	return fmt.Sprintf("latest=%d db=%d", uint64(l.Latest()), uint64(h.dbRound()))
}

type c12Sum struct {
	m, u [3]uint64 // by basics.Status: 0 offline, 1 online, 2 not participating
	bad  string
}

func (s *c12Sum) add(st basics.Status, money, units uint64) {
	if st > 2 {
		s.bad = "status"
		return
	}
	var o1, o2 bool
	s.m[st], o1 = basics.OAdd(s.m[st], money)
	s.u[st], o2 = basics.OAdd(s.u[st], units)
	if o1 || o2 {
		s.bad = "overflow"
	}
}
func (s *c12Sum) str(level uint64) string {
	if s.bad != "" {
		return "bad:" + s.bad
	}
	return fmt.Sprintf("%d,%d,%d,%d,%d,%d,%d", s.m[1], s.u[1], s.m[0], s.u[0], s.m[2], s.u[2], level)
}

func (h *c12Harness) sums(r basics.Round) (string, string) {
	l := h.lc.l
	hdr, err := l.BlockHdr(r)
	if err != nil {
		return "nohdr", "nohdr"
	}
	unit := config.Consensus[hdr.CurrentProtocol].RewardUnit
	lvl := hdr.RewardsLevel
	var s1, s2 c12Sum
	for id := uint64(0); id < lcN; id++ {
		ad, _, raw, err := l.LookupAccount(r, lcAddr(id))
		if err != nil {
			s1.bad = "lookup"
		} else {
			s1.add(ad.Status, ad.MicroAlgos.Raw, raw.Raw/unit)
		}
		wd, _, err := l.LookupWithoutRewards(r, lcAddr(id))
		if err != nil {
			s2.bad = "lookup"
			continue
		}
		money := wd.MicroAlgos.Raw
		if wd.Status != basics.NotParticipating {
			if lvl < wd.RewardsBase {
				s2.bad = "level-below-base"
				continue
			}
			rw, o1 := basics.OMul(wd.MicroAlgos.Raw/unit, lvl-wd.RewardsBase)
			var o2 bool
			money, o2 = basics.OAdd(money, rw)
			if o1 || o2 {
				s2.bad = "overflow"
				continue
			}
		}
		s2.add(wd.Status, money, wd.MicroAlgos.Raw/unit)
	}
	return s1.str(lvl), s2.str(lvl)
}

func (h *c12Harness) query() string {
	l := h.lc.l
	db, latest := h.dbRound(), l.Latest()
	var sb strings.Builder
	lr, lt, err := l.LatestTotals()
	if err != nil {
		sb.WriteString("latest=err")
	} else {
		fmt.Fprintf(&sb, "latest=%d:%s", uint64(lr), c12Tot(lt))
	}
	lo := db
	if lo > 0 {
		lo--
	}
	for r := lo; r <= latest+1; r++ {
		t, err := l.Totals(r)
		if err != nil {
			fmt.Fprintf(&sb, " %d=err", uint64(r))
			continue
		}
		s1, s2 := h.sums(r)
		fmt.Fprintf(&sb, " %d=%s/%s/%s", uint64(r), c12Tot(t), s1, s2)
	}
	return sb.String()
}

// exec runs one op line on the real code; for `end` the observed delta description is returned too.
func (h *c12Harness) exec(op string) (obs string, res string) {
	res = vh.Catch(func() string {
		f := strings.Fields(op)
		if len(f) == 0 {
			return "bad-op"
		}
		if f[0] == "reset" {
			return h.reset(op)
		}
		if h.lc.l == nil {
			return "bad-op"
		}
		switch f[0] {
		case "begin":
			if h.lc.ev != nil {
				return "bad-op"
			}
			return h.begin()
		case "group":
			if h.lc.ev == nil {
				return "bad-op"
			}
			r := h.lc.group(op)
			if i := strings.Index(r, " | "); i >= 0 {
				r = r[:i]
			}
			return r
		case "end":
			if h.lc.ev == nil {
				return "bad-op"
			}
			var r string
			obs, r = h.end()
			if len(f) > 1 && f[1] != "?" && strings.HasPrefix(r, "T=") && obs != strings.TrimPrefix(op, "end ") {
				return "DIVERGED " + obs
			}
			return r
		case "commit":
			if h.lc.ev != nil {
				return "bad-op"
			}
			return h.commit(vh.U(c12KV(f)["lb"]))
		case "reload":
			return h.reload(c12KV(f)["lb"])
		case "q":
			return h.query()
		}
		return "bad-op"
	})
	if strings.HasPrefix(res, "PANIC") {
		// a panic inside the ledger may have left locks held: abandon this ledger (never touch or close it again)
		h.lc.l, h.lc.ev = nil, nil
	}
	return
}

// ----------------------------------------------------------------------------------------------- generator

func c12Genesis(g *lcGen, cv protocol.ConsensusVersion) string {
	var sb strings.Builder
	name := "future"
	if cv == protocol.ConsensusCurrentVersion {
		name = "current"
	}
	p := config.Consensus[cv]
	fmt.Fprintf(&sb, "reset proto=%s unit=%d", name, p.RewardUnit)
	mb := p.MinBalance
	huge := false
	for id := uint64(1); id <= 6; id++ {
		var bal uint64
		switch g.r.Intn(10) {
		case 0:
			bal = 0
		case 1:
			bal = mb + uint64(g.r.Intn(3000))
		case 2:
			bal = p.RewardUnit - 1 // no reward unit at all
		case 3:
			bal = p.RewardUnit + uint64(g.r.Intn(2000000))
		case 4, 5, 6, 7:
			// just below a reward-unit boundary: a few rounds of pending rewards carry the balance across it, so a touch that only
			// folds the pending rewards into the balance changes the account's reward units without changing its money
			bal = uint64(2+g.r.Intn(300))*p.RewardUnit - g.pick(1, 1, 7, 100, 999, uint64(1+g.r.Intn(5000)))
		default:
			bal = uint64(5+g.r.Intn(300)) * 1000000
		}
		if g.r.Chance(3) && !huge { // at most one: the total supply must stay below 2^63 for the ledger DB
			bal = 1 << 62
			huge = true
		}
		st, vid, sid, spid, vf, vl, vkd, ie := 0, 0, 0, 0, 0, 0, 0, "0"
		if bal >= mb && g.r.Chance(40) {
			st, vid, sid, spid, vf, vl, vkd = 1, int(10+id), int(20+id), int(30+id), 1, 3+g.r.Intn(40), 100
			if g.r.Chance(55) {
				vl = 2 + g.r.Intn(7) // keys expire within the case: an untouched account is knocked offline by the block itself, its rewards unapplied
			} else if g.r.Chance(40) {
				vl = 100 + g.r.Intn(5000)
			}
			if g.r.Chance(50) {
				ie = "1"
			}
		} else if g.r.Chance(15) {
			st = 2
		}
		fmt.Fprintf(&sb, " A%d=%d,%d,0,0,%s,0,0,0,0,%d,%d,%d,%d,%d,%d", id, st, bal, ie, vid, sid, spid, vf, vl, vkd)
	}
	sink := g.pick(mb, 1000000, 50000000)
	fmt.Fprintf(&sb, " A%d=2,%d,0,0,0,0,0,0,0,0,0,0,0,0,0", lcSink, sink)
	// the rewards pool is funded: rate = (pool - MinBalance) / RewardsRateRefreshInterval per round
	pool := g.pick(1000000000, 500000000000, 500000000000, 50000000000000, 50000000000000, 3000000000000000)
	if g.r.Chance(6) {
		pool = g.pick(mb, 1000000) // no rewards at all
	}
	pst := 2
	if g.r.Chance(12) {
		pst = 0 // a participating rewards pool earns rewards itself
	}
	fmt.Fprintf(&sb, " A%d=%d,%d,0,0,0,0,0,0,0,0,0,0,0,0,0", lcPool, pst, pool)
	return sb.String()
}

// c12Touches: zero-net touches (the account's holdings with pending rewards are unchanged by the block) of participating accounts,
// preferably of those whose pending rewards have carried them across a reward-unit boundary: receiver of a 0-amount payment,
// or fee-pooled 0-fee sender of a 0-amount payment to itself.
func c12Touches(g *lcGen, v *lcView) []string {
	var out []string
	for id := uint64(1); id <= 6; id++ {
		d := v.acct[id]
		if d.Status == basics.NotParticipating || d.MicroAlgos.Raw == 0 || g.unit == 0 {
			continue
		}
		crosses := g.balWP(d)/g.unit != d.MicroAlgos.Raw/g.unit
		pct := 60
		if d.Status == basics.Online {
			pct = 15 // online accounts are mostly left alone: an untouched one with unapplied rewards may be knocked offline (expired keys) by the block itself
		}
		if !(crosses && g.r.Chance(pct)) && !g.r.Chance(3) {
			continue
		}
		payer := uint64(0)
		for k := uint64(0); k < 6; k++ {
			c := 1 + (id+k)%6
			if c != id && g.balWP(v.acct[c]) >= g.minBal+4*g.minFee {
				payer = c
				break
			}
		}
		if payer == 0 {
			continue
		}
		g.nonce += 2
		if g.r.Chance(50) {
			out = append(out, fmt.Sprintf("group pay,%d,%d,%d,%d,%d,0,%d,0,0", payer, g.minFee, g.round, g.round+10, g.nonce, id))
		} else if d.MicroAlgos.Raw >= g.minBal {
			out = append(out, fmt.Sprintf("group pay,%d,%d,%d,%d,%d,1,%d,0,0;pay,%d,0,%d,%d,%d,1,%d,0,0",
				payer, 2*g.minFee, g.round, g.round+10, g.nonce, g.pick(id, payer), id, g.round, g.round+10, g.nonce+1, id))
		}
	}
	return out
}

func c12GenTxn(g *lcGen, v *lcView) string {
	switch x := g.r.Intn(100); {
	case x < 48:
		return g.genPay(v)
	case x < 88:
		return g.genKeyreg(v)
	}
	return g.genTxn(v)
}

func c12GenGroup(g *lcGen, v *lcView) string {
	n := 1
	if g.r.Chance(20) {
		n = 2 + g.r.Intn(3)
	}
	var ts []string
	for i := 0; i < n; i++ {
		ts = append(ts, c12GenTxn(g, v))
	}
	tag := "1"
	if n == 1 {
		tag = "0"
	}
	for i := range ts {
		ts[i] = strings.Replace(lcRetag(ts[i]), "GRP", tag, 1)
	}
	return "group " + strings.Join(ts, ";")
}

func TestVerifC12(t *testing.T) {
	t.Chdir(t.TempDir())
	logging.Base().SetLevel(logging.Panic)
	out := vh.Open("c12")
	defer out.Close()
	h := &c12Harness{lc: &lcHarness{t: t}}
	defer func() {
		if h.lc.l != nil {
			h.lc.l.trackers.waitAccountsWriting()
		}
		h.lc.closeLedger()
	}()
	if ops, ok := vh.ReplayOps(); ok {
		for _, op := range ops {
			_, res := h.exec(op)
			out.Emit(op, res)
		}
		return
	}
	g := &lcGen{r: vh.NewRng(vh.Seed()*1000003 + 12), profile: "c18", h: h.lc}
	run := func(op string) string {
		_, res := h.exec(op)
		out.Emit(op, res)
		return res
	}
	cases := vh.Budget(22, 800)
	for c := 0; c < cases; c++ {
		cv := protocol.ConsensusFuture
		if g.r.Chance(25) {
			cv = protocol.ConsensusCurrentVersion
		}
		if res := run(c12Genesis(g, cv)); res != "ok" {
			continue
		}
		run("q")
		blocks := 5 + g.r.Intn(12)
		dead := func() bool { return h.lc.l == nil } // a PANIC abandoned the ledger: the case ends (the monitor reports the PANIC line)
		lb := h.lc.l.cfg.MaxAcctLookback
		for b := 0; b < blocks && !dead(); b++ {
			if res := run("begin"); !strings.HasPrefix(res, "r=") || dead() || h.lc.ev == nil {
				break
			}
			p := h.lc.ev.ConsensusParams()
			g.round, g.minFee, g.minBal, g.level, g.unit = uint64(h.lc.ev.Round()), p.MinFee().Raw, p.MinBalance, h.lc.ev.VerifLcoreRewardsLevel(), p.RewardUnit
			g.okTxns = nil
			ngroups := g.r.Intn(9)
			if g.r.Chance(10) {
				ngroups = 0 // an empty block: rewards only
			}
			touchAt := g.r.Intn(ngroups + 1) // the zero-net touches go before, between or after the random groups
			for i := 0; i <= ngroups && !dead() && h.lc.ev != nil; i++ {
				if i == touchAt {
					for _, op := range c12Touches(g, h.lc.view()) {
						if dead() || h.lc.ev == nil {
							break
						}
						run(op)
					}
				}
				if i < ngroups && !dead() && h.lc.ev != nil {
					run(c12GenGroup(g, h.lc.view()))
				}
			}
			if dead() || h.lc.ev == nil {
				break
			}
			obs, res := h.exec("end")
			out.Emit("end "+obs, res)
			if !strings.HasPrefix(res, "T=") || dead() {
				break
			}
			run("q")
			for !dead() && g.r.Chance(35) {
				if g.r.Chance(70) {
					run(fmt.Sprintf("commit lb=%d", g.pick(0, 0, 1, 1, 2, 3, 4, 4, 8)))
				} else {
					run(fmt.Sprintf("reload lb=%d", lb))
				}
				if !dead() {
					run("q")
				}
			}
		}
	}
}
