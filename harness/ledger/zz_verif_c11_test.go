//go:build verif

package ledger

// C11 correspondence harness (model lean/AlgoVerif/Model/TxTail.lean, driver `c11`).
//
// A real Ledger (in-memory sqlite) is opened on a consensus version derived from the current one with a SMALL MaxTxnLife
// (so that validity windows, the txTail retention and the persisted tail all turn over within a few dozen rounds).
// Blocks are built by the real BlockEvaluator (Generate+Validate) from real signed payment transactions with
// overlapping validity windows and leases, finished with GenerateBlock / Validate (signatures verified) /
// AddValidatedBlock.  Between blocks the harness asks the real Ledger.CheckDup and the real evaluator
// (TestTransactionGroup / TransactionGroup) about committed and fresh transactions, flushes the trackers synchronously
// (the real trackerRegistry.commitRound, as the package's triggerTrackerFlush does) and restarts the ledger
// (reloadLedger: txTail.loadFromDisk from the persisted tail + replay of the unflushed blocks).
//
// Op grammar (one op per line; `reset` starts a new case, the executor keeps state between lines):
//   reset life=<MaxTxnLife> fix=<0|1> sup=<0|1> dh=<DeeperBlockHeaderHistory> lb=<MaxAcctLookback>
//   begin                         start the evaluator for round latest+1                       → r=<round>
//   test <tx> [<tx>..]            eval.TestTransactionGroup (no state change)                  → <class>
//   add <tx> [<tx>..]             eval.TransactionGroup (a real group when more than one tx)   → <class>
//   abort                         drop the evaluator without finishing the block               → ok
//   end                           GenerateBlock + Validate + AddValidatedBlock + wait for the block queue and for
//                                 txTail.committedUpTo(latest)                                 → r=<round> n=<#txns> lwm=<lowWaterMark> db=<dbRound>
//   q cur=<round> i=<k> <tx>..    Ledger.CheckDup(proto, cur, tx.fv, tx.lv, txid, lease) for member k of the composition → <class>
//   commit                        synchronous tracker flush (lookback = MaxAcctLookback)       → db=<dbRound> lo=<lowest persisted tail round>
//   reload                        Ledger.reloadLedger                                          → latest=<r> lwm=<lowWaterMark> db=<dbRound> lo=<..>
//   facts                         tail parameters of the current / future consensus versions   → current life=.. fix=.. sup=.. dh=.. ; future …
// <tx> = id/sender/firstValid/lastValid/lease   (decimal; lease 0 = none; the same token is the same signed transaction,
//        hence the same txid; inside a group the txid also depends on the group, the generator never reuses an id
//        across different group compositions)
// <class> = ok | txdup:blk | txdup:tail | lease:blk | lease:tail | dead:early | dead:late | malformed | missing | other …
//           (":blk" = InBlockEvaluator, i.e. found by a roundCowState; ":tail" = found by txTail.checkDup)

import (
	"context"
	"errors"
	"fmt"
	"strconv"
	"strings"
	"testing"
	"time"

	"github.com/stretchr/testify/require"

	"github.com/algorand/go-algorand/agreement"
	"github.com/algorand/go-algorand/config"
	"github.com/algorand/go-algorand/crypto"
	"github.com/algorand/go-algorand/data/basics"
	"github.com/algorand/go-algorand/data/bookkeeping"
	"github.com/algorand/go-algorand/data/committee"
	"github.com/algorand/go-algorand/data/transactions"
	"github.com/algorand/go-algorand/ledger/eval"
	"github.com/algorand/go-algorand/ledger/ledgercore"
	"github.com/algorand/go-algorand/ledger/store/trackerdb"
	ledgertesting "github.com/algorand/go-algorand/ledger/testing"
	"github.com/algorand/go-algorand/logging"
	"github.com/algorand/go-algorand/protocol"
	"github.com/algorand/go-algorand/util/execpool"
	"github.com/algorand/go-algorand/zz_verif_tools/vh"
)

const verifC11Senders = 6 // sender ids 0..5; id 9 is the receiver of every payment

type verifC11Tx struct {
	id, snd, fv, lv, lease uint64
}

func verifC11ParseTx(tok string) (verifC11Tx, bool) {
	p := strings.Split(tok, "/")
	if len(p) != 5 {
		return verifC11Tx{}, false
	}
	var v [5]uint64
	for i, s := range p {
		n, err := strconv.ParseUint(s, 10, 64)
		if err != nil {
			return verifC11Tx{}, false
		}
		v[i] = n
	}
	if v[1] >= verifC11Senders {
		return verifC11Tx{}, false
	}
	return verifC11Tx{v[0], v[1], v[2], v[3], v[4]}, true
}

func verifC11KV(f []string) map[string]uint64 {
	m := map[string]uint64{}
	for _, t := range f {
		if i := strings.IndexByte(t, '='); i > 0 {
			if n, err := strconv.ParseUint(t[i+1:], 10, 64); err == nil {
				m[t[:i]] = n
			}
		}
	}
	return m
}

func verifC11Class(err error) string {
	if err == nil {
		return "ok"
	}
	var til *ledgercore.TransactionInLedgerError
	var lil *ledgercore.LeaseInLedgerError
	var dead *bookkeeping.TxnDeadError
	var nwf *ledgercore.TxnNotWellFormedError
	var miss *errTxTailMissingRound
	where := func(b bool) string {
		if b {
			return ":blk"
		}
		return ":tail"
	}
	switch {
	case errors.As(err, &til):
		return "txdup" + where(til.InBlockEvaluator)
	case errors.As(err, &lil):
		return "lease" + where(lil.InBlockEvaluator)
	case errors.As(err, &dead):
		if dead.Early {
			return "dead:early"
		}
		return "dead:late"
	case errors.As(err, &nwf):
		return "malformed"
	case errors.As(err, &miss):
		return "missing"
	}
	return "other " + err.Error()
}

// verifC11Facts: the tail parameters of the shipped consensus versions (tie F: the theorems are parametric in them,
// lease_exclusive needs both lease flags)
func verifC11Facts() string {
	var out []string
	for _, v := range []protocol.ConsensusVersion{protocol.ConsensusCurrentVersion, protocol.ConsensusFuture} {
		p := config.Consensus[v]
		b := func(x bool) int {
			if x {
				return 1
			}
			return 0
		}
		name := "current"
		if v == protocol.ConsensusFuture {
			name = "future"
		}
		out = append(out, fmt.Sprintf("%s life=%d fix=%d sup=%d dh=%d", name, p.MaxTxnLife, b(p.FixTransactionLeases), b(p.SupportTransactionLeases), p.DeeperBlockHeaderHistory))
	}
	// the hand-grown per-LastValid list of loadFromDisk starts at this capacity and doubles: the fat-LastValid stream
	// of the generator is sized around these thresholds
	out = append(out, fmt.Sprintf("lvcap=%d", initialLastValidArrayLen))
	return strings.Join(out, " ; ")
}

type verifC11Harness struct {
	t       *testing.T
	l       *Ledger
	ev      *eval.BlockEvaluator
	proto   config.ConsensusParams
	addrs   []basics.Address
	secrets []*crypto.SignatureSecrets
	pool    execpool.BacklogPool
	seen    map[uint64]string // tx id -> the token + group composition it was used with
	nreset  int
	wedged  bool
}

func (h *verifC11Harness) close() {
	if h.l != nil {
		h.l.Close()
		h.l = nil
	}
	h.ev = nil
}

// verifC11Proto registers (once) a consensus version = current with the given tail parameters.
func verifC11Proto(life, fix, sup, dh uint64) protocol.ConsensusVersion {
	name := protocol.ConsensusVersion(fmt.Sprintf("verifC11-life%d-fix%d-sup%d-dh%d", life, fix, sup, dh))
	if _, ok := config.Consensus[name]; ok {
		return name
	}
	p := config.Consensus[protocol.ConsensusCurrentVersion]
	p.MaxTxnLife = life
	p.FixTransactionLeases = fix == 1
	p.SupportTransactionLeases = sup == 1
	p.DeeperBlockHeaderHistory = dh
	p.ApprovedUpgrades = map[protocol.ConsensusVersion]uint64{}
	// features looking back over many block headers are outside this property; keep them from reaching past the short tail
	p.Payouts.Enabled = false
	p.Payouts.ChallengeInterval = 0
	config.Consensus[name] = p
	return name
}

// holdFlushes keeps the asynchronous commitSyncer quiet: tracker commits happen only on `commit` / `reload`.
func (h *verifC11Harness) holdFlushes() {
	h.l.trackers.mu.Lock()
	h.l.trackers.lastFlushTime = time.Now().Add(24 * time.Hour)
	h.l.trackers.mu.Unlock()
}

func (h *verifC11Harness) tailState() (lwm basics.Round) {
	h.l.txTail.tailMu.RLock()
	defer h.l.txTail.tailMu.RUnlock()
	return h.l.txTail.lowWaterMark
}

func (h *verifC11Harness) dbState() (db basics.Round, lo string) {
	h.l.trackers.mu.RLock()
	db = h.l.trackers.dbRound
	h.l.trackers.mu.RUnlock()
	lo = "-"
	err := h.l.trackerDBs.Snapshot(func(ctx context.Context, tx trackerdb.SnapshotScope) error {
		ar, err := tx.MakeAccountsReader()
		if err != nil {
			return err
		}
		_, _, base, err := ar.LoadTxTail(ctx, db)
		if err == nil {
			lo = strconv.FormatUint(uint64(base), 10)
		}
		return err
	})
	if err != nil {
		lo = "err"
	}
	return
}

func (h *verifC11Harness) reset(kv map[string]uint64) string {
	h.close()
	h.nreset++
	cv := verifC11Proto(kv["life"], kv["fix"], kv["sup"], kv["dh"])
	h.proto = config.Consensus[cv]
	genBalances, addrs, secrets := ledgertesting.NewTestGenesis()
	h.addrs, h.secrets = addrs, secrets
	var genHash crypto.Digest
	genHash[0], genHash[1] = 0xc1, 0x1c
	cfg := config.GetDefaultLocal()
	cfg.MaxAcctLookback = kv["lb"]
	cfg.DisableLedgerLRUCache = true // the account LRU caches (huge pre-allocated buffers, re-made on every reload) play no part in duplicate detection
	l := newSimpleLedgerFull(h.t, genBalances, cv, genHash, cfg)
	h.l = l
	h.holdFlushes()
	h.seen = map[uint64]string{}
	return "ok"
}

func (h *verifC11Harness) mkTxn(x verifC11Tx) transactions.Transaction {
	var lease [32]byte
	if x.lease != 0 {
		lease[0] = byte(x.lease)
		lease[31] = 0x11
	}
	return transactions.Transaction{
		Type: protocol.PaymentTx,
		Header: transactions.Header{
			Sender:      h.addrs[x.snd],
			Fee:         basics.MicroAlgos{Raw: h.proto.MinTxnFee},
			FirstValid:  basics.Round(x.fv),
			LastValid:   basics.Round(x.lv),
			Note:        []byte(fmt.Sprintf("verif-c11-%d", x.id)),
			GenesisHash: h.l.GenesisHash(),
			Lease:       lease,
		},
		PaymentTxnFields: transactions.PaymentTxnFields{
			Receiver: h.addrs[9],
			Amount:   basics.MicroAlgos{Raw: 1},
		},
	}
}

// group builds the signed transactions of the tokens (a real transaction group when there is more than one).
func (h *verifC11Harness) group(toks []string) ([]transactions.SignedTxn, bool) {
	xs := make([]verifC11Tx, len(toks))
	for i, tok := range toks {
		x, ok := verifC11ParseTx(tok)
		if !ok {
			return nil, false
		}
		xs[i] = x
	}
	comp := ""
	if len(toks) > 1 {
		comp = strings.Join(toks, " ")
	}
	for i, x := range xs {
		key := toks[i] + "|" + comp
		if prev, ok := h.seen[x.id]; ok && prev != key {
			return nil, false // the same id must always denote the same transaction
		}
		h.seen[x.id] = key
	}
	txs := make([]transactions.Transaction, len(xs))
	for i, x := range xs {
		txs[i] = h.mkTxn(x)
	}
	if len(txs) > 1 {
		var g transactions.TxGroup
		for _, tx := range txs {
			g.TxGroupHashes = append(g.TxGroupHashes, crypto.Digest(tx.ID()))
		}
		gid := crypto.HashObj(g)
		for i := range txs {
			txs[i].Group = gid
		}
	}
	out := make([]transactions.SignedTxn, len(txs))
	for i, tx := range txs {
		out[i] = tx.Sign(h.secrets[xs[i].snd])
	}
	return out, true
}

func (h *verifC11Harness) begin() string {
	rnd := h.l.Latest()
	hdr, err := h.l.BlockHdr(rnd)
	if err != nil {
		return "other " + err.Error()
	}
	nextHdr := bookkeeping.MakeBlock(hdr).BlockHeader
	nextHdr.TimeStamp = hdr.TimeStamp + 1
	ev, err := eval.StartEvaluator(h.l, nextHdr, eval.EvaluatorOptions{Generate: true, Validate: true})
	if err != nil {
		return "other " + err.Error()
	}
	h.ev = ev
	return fmt.Sprintf("r=%d", ev.Round())
}

// waitTail waits until the block queue has written `rnd` and the syncer's notifyCommit has reached txTail.committedUpTo.
func (h *verifC11Harness) waitTail(rnd basics.Round) bool {
	h.l.WaitForCommit(rnd)
	for i := 0; i < 20000; i++ {
		if h.tailState() >= rnd {
			h.l.trackers.waitAccountsWriting()
			return true
		}
		time.Sleep(50 * time.Microsecond)
	}
	return false
}

func (h *verifC11Harness) end() string {
	ub, err := h.ev.GenerateBlock(nil)
	h.ev = nil
	if err != nil {
		return "other generate: " + err.Error()
	}
	blk := ub.UnfinishedBlock()
	blk = blk.WithProposer(committee.Seed(blk.FeeSink), basics.Address{}, false)
	// the block goes through the full validation path (signatures included), as a block received from the network would
	vb, err := h.l.Validate(context.Background(), blk, h.pool)
	if err != nil {
		return "other validate: " + verifC11Class(err)
	}
	if err = h.l.AddValidatedBlock(*vb, agreement.Certificate{}); err != nil {
		return "other addblock: " + err.Error()
	}
	rnd := h.l.Latest()
	if !h.waitTail(rnd) {
		return "other committedUpTo never reached the tail"
	}
	db, _ := h.dbState()
	return fmt.Sprintf("r=%d n=%d lwm=%d db=%d", rnd, len(blk.Payset), h.tailState(), db)
}

// commit: the commit flow of the tracker registry executed synchronously (cf. triggerTrackerFlush in ledger_test.go).
func (h *verifC11Harness) commit() string {
	l := h.l
	rnd := l.Latest()
	l.trackerMu.Lock()
	maxLookback := basics.Round(0)
	for _, lt := range l.trackers.trackers {
		_, lookback := lt.committedUpTo(rnd)
		if lookback > maxLookback {
			maxLookback = lookback
		}
	}
	l.trackerMu.Unlock()
	dcc := &deferredCommitContext{deferredCommitRange: deferredCommitRange{lookback: maxLookback}}
	l.trackers.mu.RLock()
	dbRound := l.trackers.dbRound
	cdr := l.trackers.produceCommittingTask(rnd, dbRound, &dcc.deferredCommitRange)
	if cdr != nil {
		dcc.deferredCommitRange = *cdr
	} else {
		dcc = nil
	}
	l.trackers.mu.RUnlock()
	if dcc != nil {
		l.trackers.accountsWriting.Add(1)
		if err := l.trackers.commitRound(dcc); err != nil {
			return "other commitRound: " + err.Error()
		}
	}
	h.holdFlushes()
	db, lo := h.dbState()
	return fmt.Sprintf("db=%d lo=%s", db, lo)
}

func (h *verifC11Harness) reload() string {
	h.ev = nil
	h.l.WaitForCommit(h.l.Latest())
	h.l.trackers.waitAccountsWriting()
	if err := h.l.reloadLedger(); err != nil {
		return "other reload: " + err.Error()
	}
	h.l.trackers.waitAccountsWriting()
	h.holdFlushes()
	db, lo := h.dbState()
	return fmt.Sprintf("latest=%d lwm=%d db=%d lo=%s", h.l.Latest(), h.tailState(), db, lo)
}

func (h *verifC11Harness) exec(op string) string {
	f := strings.Fields(op)
	if len(f) == 0 {
		return "bad-op"
	}
	res := h.exec1(f)
	if strings.HasPrefix(res, "PANIC") && h.l != nil {
		// a panic inside the ledger may have left locks held: abandon this ledger (never touch or close it again)
		h.l, h.ev, h.wedged = nil, nil, true
	}
	return res
}

func (h *verifC11Harness) exec1(f []string) string {
	return vh.Catch(func() string {
		if f[0] == "reset" {
			h.wedged = false
			return h.reset(verifC11KV(f[1:]))
		}
		if f[0] == "facts" {
			return verifC11Facts()
		}
		if h.wedged {
			return "skipped: the ledger of this case panicked earlier"
		}
		if h.l == nil {
			return "bad-op no ledger"
		}
		switch f[0] {
		case "begin":
			return h.begin()
		case "abort":
			h.ev = nil
			return "ok"
		case "test", "add":
			if h.ev == nil || len(f) < 2 {
				return "bad-op"
			}
			g, ok := h.group(f[1:])
			if !ok {
				return "bad-op"
			}
			if f[0] == "test" {
				return verifC11Class(h.ev.TestTransactionGroup(g))
			}
			return verifC11Class(h.ev.TransactionGroup(transactions.WrapSignedTxnsWithAD(g)...))
		case "end":
			if h.ev == nil {
				return "bad-op"
			}
			return h.end()
		case "q":
			if len(f) < 4 {
				return "bad-op"
			}
			kv := verifC11KV(f[1:3])
			g, ok := h.group(f[3:])
			if !ok || kv["i"] >= uint64(len(g)) {
				return "bad-op"
			}
			tx := g[kv["i"]].Txn
			err := h.l.CheckDup(h.proto, basics.Round(kv["cur"]), tx.FirstValid, tx.LastValid, tx.ID(),
				ledgercore.Txlease{Sender: tx.Sender, Lease: tx.Lease})
			return verifC11Class(err)
		case "commit":
			return h.commit()
		case "reload":
			return h.reload()
		}
		return "bad-op"
	})
}

// ---------------------------------------------------------------------------------------------------------------------
// generator (adaptive: it sees the result of every op it issues; a replay is just the recorded op lines)

type verifC11Rec struct {
	toks  []string // the composition (one token = a single transaction)
	round uint64   // round it was committed in
}

type verifC11Gen struct {
	rng                   *vh.Rng
	run                   func(op string) string
	life, fix, sup, dh, lb uint64
	latest                uint64
	nextID                uint64
	committed             []verifC11Rec // accepted into a block that was added
	pending               []verifC11Rec // accepted by the running evaluator
	tried                 []verifC11Rec // every composition ever submitted
	sinceFlush            int
}

func verifC11Tok(id, snd, fv, lv, lease uint64) string {
	return fmt.Sprintf("%d/%d/%d/%d/%d", id, snd, fv, lv, lease)
}

func (g *verifC11Gen) id() uint64 { g.nextID++; return g.nextID }

func (g *verifC11Gen) sender() uint64 {
	if g.rng.Chance(85) {
		return uint64(g.rng.Intn(3))
	}
	return uint64(g.rng.Intn(verifC11Senders))
}

func (g *verifC11Gen) leaseID() uint64 {
	switch g.rng.Intn(10) {
	case 0, 1, 2, 3, 4:
		return 0
	case 5, 6, 7:
		return 1
	case 8:
		return 2
	}
	return uint64(1 + g.rng.Intn(3))
}

// window picks (fv, lv) around round r: mostly alive and within MaxTxnLife, boundary heavy.
func (g *verifC11Gen) window(r uint64) (fv, lv uint64) {
	d := uint64(g.rng.Intn(int(g.life) + 1))
	switch g.rng.Intn(10) {
	case 0, 1, 2:
		d = g.life
	case 3:
		d = 0
	}
	back := uint64(g.rng.Intn(int(d) + 1))
	switch g.rng.Intn(8) {
	case 0:
		back = 0 // fv = r
	case 1:
		back = d // lv = r
	}
	if back >= r {
		back = r - 1
		if r == 0 {
			back = 0
		}
	}
	fv = r - back
	lv = fv + d
	switch g.rng.Intn(40) {
	case 0:
		lv = fv + g.life + 1 // window too long
	case 1:
		fv, lv = r+1+uint64(g.rng.Intn(2)), r+1+g.life // not yet valid
	case 2:
		if r >= 2 { // expired
			lv = r - 1
			fv = lv - uint64(g.rng.Intn(int(min(lv, g.life)+1)))
		}
	case 3:
		if lv > fv {
			fv, lv = lv, fv // lastValid < firstValid
		}
	}
	return
}

func (g *verifC11Gen) fresh(r uint64) string {
	fv, lv := g.window(r)
	return verifC11Tok(g.id(), g.sender(), fv, lv, g.leaseID())
}

// sibling: a new transaction holding the same (sender, lease) as an existing one, valid around round r
func (g *verifC11Gen) sibling(tok string, r uint64) string {
	x, _ := verifC11ParseTx(tok)
	fv, lv := g.window(r)
	if g.rng.Chance(30) { // same window as the holder
		fv, lv = x.fv, x.lv
	}
	return verifC11Tok(g.id(), x.snd, fv, lv, x.lease)
}

func (g *verifC11Gen) leased(recs []verifC11Rec) []string {
	var out []string
	for _, c := range recs {
		for _, tok := range c.toks {
			if x, _ := verifC11ParseTx(tok); x.lease != 0 {
				out = append(out, tok)
			}
		}
	}
	return out
}

// composition picks what the next test/add submits
func (g *verifC11Gen) composition(r uint64) []string {
	k := g.rng.Intn(100)
	switch {
	case k < 30:
		return []string{g.fresh(r)}
	case k < 45 && len(g.committed) > 0: // something committed before (recent ones preferred)
		n := len(g.committed)
		i := n - 1 - g.rng.Intn(min(n, 2*int(g.life)+2))
		return g.committed[i].toks
	case k < 55 && len(g.pending) > 0: // something already in this block
		return g.pending[g.rng.Intn(len(g.pending))].toks
	case k < 62 && len(g.tried) > 0: // something submitted before, accepted or not
		n := len(g.tried)
		return g.tried[n-1-g.rng.Intn(min(n, 10))].toks
	case k < 80: // a transaction competing for a lease held in the ledger or in this block
		var pool []string
		n := len(g.committed)
		pool = append(pool, g.leased(g.committed[max(0, n-3*int(g.life)-3):])...)
		pool = append(pool, g.leased(g.pending)...)
		if len(pool) > 0 {
			return []string{g.sibling(pool[g.rng.Intn(len(pool))], r)}
		}
		return []string{g.fresh(r)}
	default: // a group
		n := 2 + g.rng.Intn(2)
		var toks []string
		for i := 0; i < n; i++ {
			switch {
			case i > 0 && g.rng.Chance(15):
				toks = append(toks, toks[g.rng.Intn(len(toks))]) // the same transaction twice in one group
			case i > 0 && g.rng.Chance(20):
				toks = append(toks, g.sibling(toks[g.rng.Intn(len(toks))], r)) // two members, same sender and lease
			default:
				toks = append(toks, g.fresh(r))
			}
		}
		return toks
	}
}

func (g *verifC11Gen) queryOp(cur uint64, toks []string, i int) string {
	if len(toks) == 1 {
		return fmt.Sprintf("q cur=%d i=0 %s", cur, toks[0])
	}
	return fmt.Sprintf("q cur=%d i=%d %s", cur, i, strings.Join(toks, " "))
}

// sweep asks Ledger.CheckDup about every committed transaction and every lease still in window (and the ones that just
// left it), as the evaluator of the next round would, plus a few off-window rounds.
func (g *verifC11Gen) sweep(pct int) {
	cur := g.latest + 1
	for _, c := range g.committed {
		for i, tok := range c.toks {
			x, _ := verifC11ParseTx(tok)
			if x.lv+1 < cur || !g.rng.Chance(pct) {
				continue
			}
			g.run(g.queryOp(cur, c.toks, i))
			if x.lease != 0 && g.rng.Chance(60) {
				g.run(g.queryOp(cur, []string{g.sibling(tok, cur)}, 0))
			}
			if g.rng.Chance(8) {
				alt := []uint64{g.latest, cur + 1, x.lv, x.lv + 1, x.fv, 0, cur + g.life}
				g.run(g.queryOp(alt[g.rng.Intn(len(alt))], c.toks, i))
			}
		}
	}
	if g.rng.Chance(pct) {
		g.run(g.queryOp(cur, []string{g.fresh(cur)}, 0))
	}
}

func (g *verifC11Gen) block() {
	g.run("begin")
	r := g.latest + 1
	g.pending = nil
	n := g.rng.Intn(5)
	if g.rng.Chance(15) {
		n = 0
	}
	for i := 0; i < n; i++ {
		toks := g.composition(r)
		// keep a block small: the account-delta threshold of scheduleCommit must never trigger a background flush
		cnt := 0
		for _, p := range g.pending {
			cnt += len(p.toks)
		}
		if cnt+len(toks) > 5 {
			break
		}
		line := strings.Join(toks, " ")
		g.tried = append(g.tried, verifC11Rec{toks: toks})
		if g.rng.Chance(35) {
			g.run("test " + line)
		}
		if g.run("add "+line) == "ok" {
			g.pending = append(g.pending, verifC11Rec{toks: toks, round: r})
		}
	}
	if g.rng.Chance(5) {
		g.run("abort")
		g.pending = nil
		return
	}
	res := g.run("end")
	if strings.HasPrefix(res, "r=") {
		g.latest = r
		g.committed = append(g.committed, g.pending...)
		g.sinceFlush++
	}
	g.pending = nil
}

// fatCase: the "fat LastValid" stream. k committed transactions share ONE LastValid (and a third of them hold a lease
// each), spread over `split` rounds; everything is flushed to the tracker DB, the ledger is restarted (loadFromDisk
// rebuilds the per-LastValid txid lists, growing them by hand at initialLastValidArrayLen, 2x, 4x, ...), and the first,
// the ones around every growth threshold, the last and a few random ones are re-submitted — to Ledger.CheckDup and to
// the evaluator — in every remaining round of their window, with a second restart on the way.
func (g *verifC11Gen) fatCase(k, split int) {
	const life = 6
	g.life, g.fix, g.sup, g.dh, g.lb = life, 1, 1, uint64(g.rng.Intn(2)), uint64(g.rng.Intn(2))
	g.latest, g.nextID = 0, 0
	g.committed, g.pending, g.tried = nil, nil, nil
	g.run(fmt.Sprintf("reset life=%d fix=%d sup=%d dh=%d lb=%d", g.life, g.fix, g.sup, g.dh, g.lb))
	lv := uint64(1 + life)
	var toks []string
	for r := 1; r <= split; r++ {
		g.run("begin")
		n := k / split
		if r == split {
			n = k - len(toks)
		}
		for i := 0; i < n; i++ {
			j := len(toks)
			snd, lease := uint64(j%verifC11Senders), uint64(0)
			if j%3 == 0 { // a distinct (sender, lease) each: lease ids stay below 256 (one byte in the harness encoding)
				snd, lease = uint64((j/3)%verifC11Senders), uint64(1+(j/3)/verifC11Senders)
			}
			tok := verifC11Tok(g.id(), snd, 1, lv, lease)
			if g.run("add "+tok) == "ok" {
				toks = append(toks, tok)
			}
		}
		if strings.HasPrefix(g.run("end"), "r=") {
			g.latest++
		}
	}
	// the probes: positions around the growth thresholds c, 2c, 4c of the rebuilt list, both ends, a few random
	c := initialLastValidArrayLen
	pos := []int{0, 1, c - 2, c - 1, c, c + 1, 2*c - 1, 2 * c, 2*c + 1, 3*c - 1, 3 * c, 4*c - 1, 4 * c, len(toks) - 2, len(toks) - 1}
	for i := 0; i < 6; i++ {
		pos = append(pos, g.rng.Intn(max(len(toks), 1)))
	}
	probe := func(evalToo bool) {
		cur := g.latest + 1
		seen := map[int]bool{}
		for _, p := range pos {
			if p < 0 || p >= len(toks) || seen[p] {
				continue
			}
			seen[p] = true
			g.run(g.queryOp(cur, []string{toks[p]}, 0))
			if x, _ := verifC11ParseTx(toks[p]); x.lease != 0 {
				g.run(g.queryOp(cur, []string{g.sibling(toks[p], cur)}, 0))
			}
		}
		g.run(g.queryOp(cur, []string{g.fresh(cur)}, 0))
		g.run("begin")
		if evalToo {
			for p := range seen {
				g.run("test " + toks[p])
				g.run("add " + toks[p])
			}
			g.run("add " + g.fresh(cur))
		}
		if strings.HasPrefix(g.run("end"), "r=") {
			g.latest++
		}
	}
	probe(false) // round split+1, before any restart (an empty block, so that the flush below covers the fat rounds)
	for g.latest < uint64(split)+g.lb {
		g.run("begin")
		if strings.HasPrefix(g.run("end"), "r=") {
			g.latest++
		}
	}
	g.run("commit")
	g.run("reload")
	probe(true)
	g.run("commit")
	g.run("reload")
	for g.latest < lv {
		probe(g.latest+1 == lv || g.rng.Chance(50)) // up to the last round of the window, and one past it
	}
	g.sinceFlush = 0
}

func (g *verifC11Gen) oneCase() {
	lives := []uint64{1, 2, 2, 3, 3, 4, 4, 5, 6, 8}
	g.life = lives[g.rng.Intn(len(lives))]
	g.fix, g.sup, g.dh = 1, 1, 1
	if g.rng.Chance(12) {
		g.fix = 0
	}
	if g.rng.Chance(6) {
		g.sup = 0
	}
	if g.rng.Chance(35) {
		g.dh = uint64(g.rng.Intn(3))
	}
	g.lb = []uint64{0, 1, 2, 2, 4, 4, 8}[g.rng.Intn(7)]
	tight := g.rng.Chance(12) // the persisted tail at its minimum: everything flushed, nothing replayed, no extra history
	if tight {
		g.dh, g.lb = 0, 0
	}
	g.latest, g.nextID, g.sinceFlush = 0, 0, 0
	g.committed, g.pending, g.tried = nil, nil, nil
	g.run(fmt.Sprintf("reset life=%d fix=%d sup=%d dh=%d lb=%d", g.life, g.fix, g.sup, g.dh, g.lb))
	rounds := int(2*g.life) + 4 + g.rng.Intn(int(2*g.life)+8)
	flushPct, reloadPct := 10+g.rng.Intn(50), 5+g.rng.Intn(35)
	if tight {
		flushPct, reloadPct = 100, 40+g.rng.Intn(40)
	}
	for i := 0; i < rounds; i++ {
		g.block()
		g.sweep(55)
		if g.rng.Chance(flushPct) || g.sinceFlush >= 8 {
			g.run("commit")
			g.sinceFlush = 0
		}
		if g.rng.Chance(reloadPct) {
			g.run("reload")
			g.sinceFlush = 0
			g.sweep(100)
		}
	}
}

func TestVerifC11(t *testing.T) {
	t.Chdir(t.TempDir())
	logging.Base().SetLevel(logging.Error)
	out := vh.Open("c11")
	defer out.Close()
	h := &verifC11Harness{t: t, pool: execpool.MakeBacklog(nil, 0, execpool.LowPriority, nil)}
	defer h.close()
	spent := map[string]time.Duration{}
	run := func(op string) string {
		t0 := time.Now()
		res := h.exec(op)
		spent[strings.SplitN(op, " ", 2)[0]] += time.Since(t0)
		out.Emit(op, res)
		if strings.HasPrefix(res, "PANIC") || strings.HasPrefix(op, "reset") {
			out.Flush()
		}
		return res
	}
	defer func() { t.Logf("time per op kind: %v", spent) }()
	if ops, replay := vh.ReplayOps(); replay {
		for _, op := range ops {
			run(op)
		}
	} else {
		run("facts")
		g := &verifC11Gen{rng: vh.NewRng(vh.Seed()), run: run}
		// fat-LastValid stream first: list sizes around every growth threshold of loadFromDisk's hand-grown lists
		c := initialLastValidArrayLen
		fat := []int{c - 1, c, c + 1, 2*c - 1, 2 * c, 2*c + 1, 4*c + 1}
		if vh.Thorough() {
			fat = append(fat, c+1, 2*c+1, 3*c+1, 4*c, 4*c+1, 8*c+1)
		}
		for _, k := range fat {
			g.fatCase(k, []int{1, 3}[g.rng.Intn(2)])
		}
		for i, n := 0, vh.Budget(100, 1500); i < n; i++ {
			g.oneCase()
		}
	}
	require.NotZero(t, out.N)
}
