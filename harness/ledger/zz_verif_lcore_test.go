//go:build verif

package ledger

// LedgerCore correspondence harness (properties C18, C19, C21, C22; model lean/AlgoVerif/Model/LedgerCore.lean, driver `lcore`).
//
// A real Ledger on an in-memory DB is created from a generated genesis; for every block a real BlockEvaluator is started
// (the package's own nextBlock helper: Generate+Validate), every generated transaction group is fed to the real
// eval.TransactionGroup, and after every group the error class and a canonical dump of ALL accounts of a small universe
// as seen through the evaluator's top-level cow (balances, rewards fields, status, voting fields, asset counters, asset
// params / holdings / creators, payset length, fees collected, txn counter) are printed.  Blocks are ended with the real
// GenerateBlock / Validate / AddValidatedBlock.
//
// Universe: address id 0 = zero address, 1..6 ordinary accounts, 7 = fee sink, 8 = rewards pool, 9 = StateProofSender.
// Key tag n (vote / selection / state proof key) = key bytes starting with the big-endian n (0 = empty key).
//
// Op grammar (one line each):
//   reset proto=<future|current> <A..> <P..> <H..>   fresh ledger from this genesis (input).            → ok
//   block <k=v params> <dump tokens>                 end the running block if any, start the next one; the line carries the
//                                                    consensus/header constants and the state OBSERVED on the real evaluator
//                                                    (the model is (re)seeded from it; on replay it is compared).   → ok | DIVERGED
//   group t;t;…                                      eval.TransactionGroup on the real evaluator               → <class>[@i] | <dump>
//   dump                                                                                                        → <dump>
//   endblock                                         GenerateBlock + Validate + AddValidatedBlock               → end payset=N ctr=C all=<Totals.All()>
// Transactions (comma separated, decimal):
//   pay,snd,fee,fv,lv,note,grp,rcv,amt,close | keyreg,snd,fee,fv,lv,note,grp,vpk,spk,sppk,vf,vl,vkd,nonpart
//   acfg,snd,fee,fv,lv,note,grp,asset,total,dec,df,m,r,f,c | axfer,snd,fee,fv,lv,note,grp,asset,amt,asnd,arcv,aclose
//   afrz,snd,fee,fv,lv,note,grp,asset,acct,frozen
//   grp: 0 = zero group id, 1 = the correct group hash, k>=2 = another digest derived from (correct hash, k).
// Dump tokens: payset=N fees=F ctr=C A<id>=st,bal,base,rewarded,ie,ta,tap,lp,lhb,vid,sid,spid,vf,vl,vkd (ids 0..9)
//   C<asset>=<creator> P<asset>@<creator>=total,dec,df,m,r,f,c H<asset>@<addr>=amount,frozen (existing ones, sorted).
//
// Generator profiles (env VERIF_LCORE_PROFILE): c18 money movement, c19 failing groups, c21 min-balance boundaries, c22 assets.

import (
	"encoding/binary"
	"errors"
	"fmt"
	"os"
	"runtime/debug"
	"sort"
	"strconv"
	"strings"
	"testing"

	"github.com/algorand/go-algorand/agreement"
	"github.com/algorand/go-algorand/config"
	"github.com/algorand/go-algorand/crypto"
	"github.com/algorand/go-algorand/crypto/merklesignature"
	"github.com/algorand/go-algorand/data/basics"
	"github.com/algorand/go-algorand/data/bookkeeping"
	"github.com/algorand/go-algorand/data/committee"
	"github.com/algorand/go-algorand/data/transactions"
	"github.com/algorand/go-algorand/data/transactions/logic"
	"github.com/algorand/go-algorand/ledger/eval"
	"github.com/algorand/go-algorand/ledger/ledgercore"
	"github.com/algorand/go-algorand/logging"
	"github.com/algorand/go-algorand/protocol"
	"github.com/algorand/go-algorand/zz_verif_tools/vh"
)

const (
	lcN    = 10 // universe size
	lcSink = 7
	lcPool = 8
	lcSP   = 9
)

func lcAddr(id uint64) (a basics.Address) {
	switch id {
	case 0:
		return basics.Address{}
	case lcSP:
		return transactions.StateProofSender
	}
	binary.BigEndian.PutUint64(a[0:8], id)
	a[31] = 0x5a
	return
}

func lcAddrID(a basics.Address) string {
	for i := uint64(0); i < lcN; i++ {
		if lcAddr(i) == a {
			return strconv.FormatUint(i, 10)
		}
	}
	return "?"
}

func lcKey32(tag uint64) (k [32]byte) {
	if tag != 0 {
		binary.BigEndian.PutUint64(k[0:8], tag)
		k[31] = 1
	}
	return
}
func lcKey64(tag uint64) (k merklesignature.Commitment) {
	if tag != 0 {
		binary.BigEndian.PutUint64(k[0:8], tag)
		k[63] = 1
	}
	return
}
func lcTag32(k [32]byte) string {
	t := binary.BigEndian.Uint64(k[0:8])
	if lcKey32(t) == k {
		return strconv.FormatUint(t, 10)
	}
	return "?"
}
func lcTag64(k merklesignature.Commitment) string {
	t := binary.BigEndian.Uint64(k[0:8])
	if lcKey64(t) == k {
		return strconv.FormatUint(t, 10)
	}
	return "?"
}

func lcB(b bool) string {
	if b {
		return "1"
	}
	return "0"
}

// ----------------------------------------------------------------------------------------------- harness state

type lcHarness struct {
	t        testing.TB
	l        *Ledger
	ev       *eval.BlockEvaluator
	known    []uint64 // asset ids that may exist (genesis + created)
	genHash  crypto.Digest
	cases    int
	maxBytes int       // EvaluatorOptions.MaxTxnBytesPerBlock of this case (0 = the protocol's)
	tracer   *lcTracer // records the ApplyData of every member the evaluator reached
	lastSz   string    // " #sz=…" annotation of the last group executed
	// spaceObs: the block-space accounting is part of the protocol (space= in dumps, #sz= on group ops, load= at the end of
	// a block).  Only TestVerifLcore sets it; other harnesses embedding lcHarness keep the plain format.
	spaceObs bool
}

// lcTracer records, per group, the ApplyData of the members that were evaluated successfully (the sizes of their
// SignedTxnInBlock are what the block-space accounting adds up).
type lcTracer struct {
	logic.NullEvalTracer
	ads map[int]transactions.ApplyData
}

func (tr *lcTracer) BeforeTxnGroup(ep *logic.EvalParams) { tr.ads = map[int]transactions.ApplyData{} }
func (tr *lcTracer) AfterTxn(ep *logic.EvalParams, gi int, ad transactions.ApplyData, err error) {
	if err == nil && tr.ads != nil {
		tr.ads[gi] = ad
	}
}

func (h *lcHarness) closeLedger() {
	if h.l != nil {
		h.l.Close()
		h.l = nil
		h.ev = nil
	}
}

func lcFields(tok string) (string, []string) {
	i := strings.IndexByte(tok, '=')
	if i < 0 {
		return tok, nil
	}
	return tok[:i], strings.Split(tok[i+1:], ",")
}

// reset: build a fresh ledger from the genesis tokens
func (h *lcHarness) reset(op string) string {
	h.closeLedger()
	h.known = nil
	h.maxBytes = 0
	f := strings.Fields(op)
	cv := protocol.ConsensusFuture
	accts := make(map[basics.Address]basics.AccountData)
	for _, tok := range f[1:] {
		k, v := lcFields(tok)
		switch {
		case k == "proto":
			if v[0] == "current" {
				cv = protocol.ConsensusCurrentVersion
			}
		case k == "maxbytes":
			h.maxBytes = int(vh.U(v[0]))
		case k[0] == 'A':
			id := vh.U(k[1:])
			ad := basics.AccountData{Status: basics.Status(vh.U(v[0])), MicroAlgos: basics.MicroAlgos{Raw: vh.U(v[1])}}
			ad.IncentiveEligible = v[4] == "1"
			ad.VoteID = lcKey32(vh.U(v[9]))
			ad.SelectionID = lcKey32(vh.U(v[10]))
			ad.StateProofID = lcKey64(vh.U(v[11]))
			ad.VoteFirstValid = basics.Round(vh.U(v[12]))
			ad.VoteLastValid = basics.Round(vh.U(v[13]))
			ad.VoteKeyDilution = vh.U(v[14])
			accts[lcAddr(id)] = ad
		}
	}
	for _, tok := range f[1:] {
		k, v := lcFields(tok)
		switch k[0] {
		case 'P':
			at := strings.IndexByte(k, '@')
			aid, cr := vh.U(k[1:at]), vh.U(k[at+1:])
			ad := accts[lcAddr(cr)]
			if ad.AssetParams == nil {
				ad.AssetParams = make(map[basics.AssetIndex]basics.AssetParams)
			}
			ad.AssetParams[basics.AssetIndex(aid)] = basics.AssetParams{Total: vh.U(v[0]), Decimals: uint32(vh.U(v[1])), DefaultFrozen: v[2] == "1",
				Manager: lcAddr(vh.U(v[3])), Reserve: lcAddr(vh.U(v[4])), Freeze: lcAddr(vh.U(v[5])), Clawback: lcAddr(vh.U(v[6]))}
			accts[lcAddr(cr)] = ad
			h.addKnown(aid)
		case 'H':
			at := strings.IndexByte(k, '@')
			aid, who := vh.U(k[1:at]), vh.U(k[at+1:])
			ad := accts[lcAddr(who)]
			if ad.Assets == nil {
				ad.Assets = make(map[basics.AssetIndex]basics.AssetHolding)
			}
			ad.Assets[basics.AssetIndex(aid)] = basics.AssetHolding{Amount: vh.U(v[0]), Frozen: v[1] == "1"}
			accts[lcAddr(who)] = ad
			h.addKnown(aid)
		}
	}
	bal := bookkeeping.MakeTimestampedGenesisBalances(accts, lcAddr(lcSink), lcAddr(lcPool), 1700000000)
	h.cases++
	binary.BigEndian.PutUint64(h.genHash[0:8], uint64(h.cases))
	h.genHash[31] = 7
	cfg := config.GetDefaultLocal()
	h.l = newSimpleLedgerFull(h.t, bal, cv, h.genHash, cfg)
	return "ok"
}

func (h *lcHarness) addKnown(aid uint64) {
	for _, k := range h.known {
		if k == aid {
			return
		}
	}
	h.known = append(h.known, aid)
	sort.Slice(h.known, func(i, j int) bool { return h.known[i] < h.known[j] })
}

// startBlock starts the evaluator of the next round and returns the observed constants + state
func (h *lcHarness) startBlock() string {
	// as the package's nextBlock helper, plus the block-space limit of the case and the recording tracer
	prev, err := h.l.BlockHdr(h.l.Latest())
	if err != nil {
		panic(err)
	}
	nextHdr := bookkeeping.MakeBlock(prev).BlockHeader
	nextHdr.TimeStamp = prev.TimeStamp + 1
	h.tracer = &lcTracer{}
	h.ev, err = eval.StartEvaluator(h.l, nextHdr, eval.EvaluatorOptions{Generate: true, Validate: true, MaxTxnBytesPerBlock: h.maxBytes, Tracer: h.tracer})
	if err != nil {
		panic(err)
	}
	p := h.ev.ConsensusParams()
	r := p.BalanceRequirements()
	sink, pool := h.ev.VerifLcoreSpecials()
	var sb strings.Builder
	fmt.Fprintf(&sb, "rnd=%d level=%d unit=%d minfee=%d reqs=%d,%d,%d,%d,%d,%d,%d,%d maxmb=%d life=%d maxgrp=%d maxassets=%d maxdec=%d unfunded=%s payouts=%s goonline=%d lookback=%d coh=%s spchk=%s nonpart=%s maxkv=%d sink=%s pool=%s sp=%d maxbytes=%d protobytes=%d loadtrack=%s ",
		h.ev.Round(), h.ev.VerifLcoreRewardsLevel(), p.RewardUnit, p.MinFee().Raw,
		r.MinBalance, r.AppFlatParamsMinBalance, r.AppFlatOptInMinBalance, r.BoxFlatMinBalance, r.BoxByteMinBalance, r.SchemaMinBalancePerEntry, r.SchemaUintMinBalance, r.SchemaBytesMinBalance,
		p.MaximumMinimumBalance, p.MaxTxnLife, p.MaxTxGroupSize, p.MaxAssetsPerAccount, p.MaxAssetDecimals, lcB(p.UnfundedSenders), lcB(p.Payouts.Enabled), p.Payouts.GoOnlineFee,
		uint64(agreement.BalanceLookback(p)), lcB(p.EnableKeyregCoherencyCheck), lcB(p.EnableStateProofKeyregCheck), lcB(p.SupportBecomeNonParticipatingTransactions), p.MaxKeyregValidPeriod,
		lcAddrID(sink), lcAddrID(pool), lcSP, func() int { _, m := h.ev.VerifLcoreSpace(); return m }(), p.MaxTxnBytesPerBlock, lcB(p.LoadTracking))
	if h.spaceObs {
		sb.WriteString("spaceobs=1 ")
	}
	sb.WriteString(h.dump())
	return sb.String()
}

func (h *lcHarness) acctTok(id uint64) string {
	d, err := h.ev.VerifLcoreLookup(lcAddr(id))
	if err != nil {
		return fmt.Sprintf("A%d=ERR", id)
	}
	s := fmt.Sprintf("A%d=%d,%d,%d,%d,%s,%d,%d,%d,%d,%s,%s,%s,%d,%d,%d", id, uint64(d.Status), d.MicroAlgos.Raw, d.RewardsBase, d.RewardedMicroAlgos.Raw,
		lcB(d.IncentiveEligible), d.TotalAssets, d.TotalAssetParams, uint64(d.LastProposed), uint64(d.LastHeartbeat),
		lcTag32(d.VoteID), lcTag32(d.SelectionID), lcTag64(d.StateProofID), uint64(d.VoteFirstValid), uint64(d.VoteLastValid), d.VoteKeyDilution)
	if !d.AuthAddr.IsZero() || d.TotalAppSchema != (basics.StateSchema{}) || d.TotalExtraAppPages != 0 || d.TotalAppParams != 0 || d.TotalAppLocalStates != 0 || d.TotalBoxes != 0 || d.TotalBoxBytes != 0 {
		s += ",UNMODELLED"
	}
	return s
}

func (h *lcHarness) dump() string {
	var sb strings.Builder
	fmt.Fprintf(&sb, "payset=%d fees=%d ctr=%d", h.ev.PaySetSize(), h.ev.VerifLcoreFees(), h.ev.VerifLcoreCounter())
	if h.spaceObs {
		used, _ := h.ev.VerifLcoreSpace()
		fmt.Fprintf(&sb, " space=%d", used)
	}
	for id := uint64(0); id < lcN; id++ {
		sb.WriteByte(' ')
		sb.WriteString(h.acctTok(id))
	}
	for _, aid := range h.known {
		cr, ok, err := h.ev.VerifLcoreCreator(basics.AssetIndex(aid))
		if err != nil {
			fmt.Fprintf(&sb, " C%d=ERR", aid)
		} else if ok {
			fmt.Fprintf(&sb, " C%d=%s", aid, lcAddrID(cr))
		}
	}
	for _, aid := range h.known {
		for id := uint64(0); id < lcN; id++ {
			p, ok, err := h.ev.VerifLcoreParams(lcAddr(id), basics.AssetIndex(aid))
			if err != nil {
				fmt.Fprintf(&sb, " P%d@%d=ERR", aid, id)
			} else if ok {
				fmt.Fprintf(&sb, " P%d@%d=%d,%d,%s,%s,%s,%s,%s", aid, id, p.Total, p.Decimals, lcB(p.DefaultFrozen), lcAddrID(p.Manager), lcAddrID(p.Reserve), lcAddrID(p.Freeze), lcAddrID(p.Clawback))
				if p.UnitName != "" || p.AssetName != "" || p.URL != "" || p.MetadataHash != [32]byte{} {
					sb.WriteString(",UNMODELLED")
				}
			}
		}
	}
	for _, aid := range h.known {
		for id := uint64(0); id < lcN; id++ {
			hd, ok, err := h.ev.VerifLcoreHolding(lcAddr(id), basics.AssetIndex(aid))
			if err != nil {
				fmt.Fprintf(&sb, " H%d@%d=ERR", aid, id)
			} else if ok {
				fmt.Fprintf(&sb, " H%d@%d=%d,%s", aid, id, hd.Amount, lcB(hd.Frozen))
			}
		}
	}
	return sb.String()
}

// ----------------------------------------------------------------------------------------------- transactions

func (h *lcHarness) parseTxn(s string) (transactions.Transaction, uint64, error) {
	f := strings.Split(s, ",")
	if len(f) < 7 {
		return transactions.Transaction{}, 0, fmt.Errorf("short txn")
	}
	u := func(i int) uint64 { return vh.U(f[i]) }
	var tx transactions.Transaction
	tx.Header = transactions.Header{Sender: lcAddr(u(1)), Fee: basics.MicroAlgos{Raw: u(2)}, FirstValid: basics.Round(u(3)), LastValid: basics.Round(u(4)), GenesisHash: h.l.GenesisHash()}
	if n := u(5); n != 0 { // note number = nonce + 2^40·pad: the 8-byte nonce followed by `pad` zero bytes (sizes the transaction)
		tx.Note = make([]byte, 8+int(n>>40))
		binary.BigEndian.PutUint64(tx.Note, n&(1<<40-1))
	}
	need := map[string]int{"pay": 10, "keyreg": 14, "acfg": 15, "axfer": 12, "afrz": 10}[f[0]]
	if need == 0 || len(f) != need {
		return tx, 0, fmt.Errorf("bad txn %q", s)
	}
	switch f[0] {
	case "pay":
		tx.Type = protocol.PaymentTx
		tx.Receiver = lcAddr(u(7))
		tx.Amount = basics.MicroAlgos{Raw: u(8)}
		tx.CloseRemainderTo = lcAddr(u(9))
	case "keyreg":
		tx.Type = protocol.KeyRegistrationTx
		tx.VotePK = crypto.OneTimeSignatureVerifier(lcKey32(u(7)))
		tx.SelectionPK = crypto.VRFVerifier(lcKey32(u(8)))
		tx.StateProofPK = lcKey64(u(9))
		tx.VoteFirst = basics.Round(u(10))
		tx.VoteLast = basics.Round(u(11))
		tx.VoteKeyDilution = u(12)
		tx.Nonparticipation = f[13] == "1"
	case "acfg":
		tx.Type = protocol.AssetConfigTx
		tx.ConfigAsset = basics.AssetIndex(u(7))
		tx.AssetParams = basics.AssetParams{Total: u(8), Decimals: uint32(u(9)), DefaultFrozen: f[10] == "1",
			Manager: lcAddr(u(11)), Reserve: lcAddr(u(12)), Freeze: lcAddr(u(13)), Clawback: lcAddr(u(14))}
	case "axfer":
		tx.Type = protocol.AssetTransferTx
		tx.XferAsset = basics.AssetIndex(u(7))
		tx.AssetAmount = u(8)
		tx.AssetSender = lcAddr(u(9))
		tx.AssetReceiver = lcAddr(u(10))
		tx.AssetCloseTo = lcAddr(u(11))
	case "afrz":
		tx.Type = protocol.AssetFreezeTx
		tx.FreezeAsset = basics.AssetIndex(u(7))
		tx.FreezeAccount = lcAddr(u(8))
		tx.AssetFrozen = f[9] == "1"
	}
	return tx, u(6), nil
}

func lcClassify(err error) string {
	if err == nil {
		return "ok"
	}
	var dead *bookkeeping.TxnDeadError
	var dup *ledgercore.TransactionInLedgerError
	var nwf *ledgercore.TxnNotWellFormedError
	var gm *ledgercore.TxGroupMalformedError
	var pan ledgercore.EvalPanicError
	var ovs *ledgercore.OverspendError
	var mb *ledgercore.MinBalanceError
	var ab *ledgercore.AssetBalanceError
	switch {
	case errors.As(err, &dead):
		return "dead"
	case errors.As(err, &dup):
		return "dup"
	case errors.As(err, &nwf):
		return "malformed"
	case errors.As(err, &gm):
		switch gm.Reason {
		case ledgercore.TxGroupMalformedErrorReasonExceedMaxSize:
			return "grpsize"
		case ledgercore.TxGroupMalformedErrorReasonInconsistentGroupID:
			return "grpinconsistent"
		case ledgercore.TxGroupMalformedErrorReasonEmptyGroupID:
			return "grpempty"
		case ledgercore.TxGroupMalformedErrorReasonIncompleteGroup:
			return "grpincomplete"
		case ledgercore.TxGroupErrorReasonInvalidFee:
			return "fee"
		}
		return "grpother"
	case errors.As(err, &pan):
		return "panic"
	case errors.Is(err, ledgercore.ErrEvaluatorCorruptedState):
		return "corrupted"
	case errors.Is(err, ledgercore.ErrNoSpace):
		return "nospace"
	case errors.As(err, &ovs):
		return "overspend"
	case errors.As(err, &mb):
		return "minbal"
	case errors.As(err, &ab):
		return "assetoverspend"
	}
	m := err.Error()
	for _, p := range [][2]string{
		{"balance overflow", "overflow"},
		{"still not zero after CloseRemainderTo", "closenz"},
		{"outstanding created assets", "closeassetparams"},
		{"outstanding assets", "closeassets"},
		{"cannot change online/offline status of non-participating", "nonpart"},
		{"last voting round in the past", "keyexpired"},
		{"first voting round beyond", "keyfuture"},
		{"nonparticipating, but that transaction is not supported", "nonpartunsup"},
		{"already found asset", "assetexists"},
		{"too many assets", "toomanyassets"},
		{"does not exist or has been deleted", "noasset"},
		{"asset index", "noassetparams"},
		{"should be issued by the manager", "notmanager"},
		{"holds no assets", "destroynoassets"},
		{"created no assets", "destroynoparams"},
		{"creator is holding only", "destroyheld"},
		{"not found in deltas", "notindeltas"},
		{"clawback not allowed", "noclawback"},
		{"receiver error: must optin", "rcvoptin"},
		{"missing from", "missing"},
		{"frozen in recipient", "rcvfrozen"},
		{"frozen in", "frozen"},
		{"overflow on adding", "assetoverflow"},
		{"cannot close asset by clawback", "closebyclawback"},
		{"account is not opted in asset", "closenotopted"},
		{"cannot close asset ID in allocating account", "closecreator"},
		{"not present in account", "closemissing"},
		{"after closing", "assetclosenz"},
		{"freeze not allowed", "nofreeze"},
		{"asset not found in account", "frznotfound"},
		{"would use too much space", "maxminbal"},
	} {
		if strings.Contains(m, p[0]) {
			return p[1]
		}
	}
	if len(m) > 80 {
		m = m[:80]
	}
	return "other:" + strings.ReplaceAll(m, " ", "_")
}

// buildGroup parses a group op (an optional " #sz=…" annotation is returned separately) into unsigned transactions with
// their group ids set
func (h *lcHarness) buildGroup(op string) ([]transactions.SignedTxn, string, bool) {
	ann := ""
	if i := strings.Index(op, " #sz="); i >= 0 {
		op, ann = op[:i], op[i:]
	}
	rest := strings.TrimSpace(strings.TrimPrefix(op, "group"))
	var stxns []transactions.SignedTxn
	var tags []uint64
	if rest != "" {
		for _, s := range strings.Split(rest, ";") {
			tx, tag, err := h.parseTxn(s)
			if err != nil {
				return nil, ann, false
			}
			stxns = append(stxns, transactions.SignedTxn{Txn: tx})
			tags = append(tags, tag)
		}
	}
	// group ids
	var tg transactions.TxGroup
	for i := range stxns {
		tg.TxGroupHashes = append(tg.TxGroupHashes, crypto.Digest(stxns[i].Txn.ID()))
	}
	correct := crypto.HashObj(tg)
	for i := range stxns {
		switch tags[i] {
		case 0:
		case 1:
			stxns[i].Txn.Group = correct
		default:
			var b [40]byte
			copy(b[:32], correct[:])
			binary.BigEndian.PutUint64(b[32:], tags[i])
			stxns[i].Txn.Group = crypto.Hash(b[:])
		}
	}
	return stxns, ann, true
}

func (h *lcHarness) group(op string) string {
	stxns, ann, ok := h.buildGroup(op)
	if !ok {
		return "bad-op"
	}
	ctrBefore := h.ev.VerifLcoreCounter()
	if h.tracer != nil {
		h.tracer.ads = nil
	}
	err := h.ev.TransactionGroup(transactions.WrapSignedTxnsWithAD(stxns)...)
	cls := lcClassify(err)
	// the encoded size of every member that was evaluated (0 for the others): an input of the model's space accounting
	sz := make([]string, len(stxns))
	for i := range stxns {
		sz[i] = "0"
		if h.tracer == nil || !h.spaceObs {
			continue
		}
		if ad, reached := h.tracer.ads[i]; reached {
			sz[i] = strconv.Itoa(h.ev.VerifLcoreEncodedLen(stxns[i], ad))
		}
	}
	h.lastSz = ""
	if len(stxns) > 0 && h.spaceObs {
		h.lastSz = " #sz=" + strings.Join(sz, ",")
	}
	if h.spaceObs && ann != "" && ann != h.lastSz { // replay: the recorded sizes of the members reached NOW must be the ones measured now
		rec := strings.Split(strings.TrimPrefix(ann, " #sz="), ",")
		for i := range sz {
			if sz[i] != "0" && (i >= len(rec) || rec[i] != sz[i]) {
				cls = "DIVERGED-SZ" + strings.ReplaceAll(h.lastSz, " ", "") + " " + cls
				break
			}
		}
	}
	if err != nil {
		m := err.Error()
		if strings.HasPrefix(m, "transaction ") {
			for i := range stxns {
				if strings.HasPrefix(m, "transaction "+stxns[i].Txn.ID().String()+":") {
					cls += "@" + strconv.Itoa(i)
					break
				}
			}
		}
	} else {
		for i := range stxns {
			if stxns[i].Txn.Type == protocol.AssetConfigTx && stxns[i].Txn.ConfigAsset == 0 {
				h.addKnown(ctrBefore + uint64(i) + 1)
			}
		}
	}
	return cls + " | " + h.dump()
}

func (h *lcHarness) endblock() string {
	ub, err := h.ev.GenerateBlock(nil)
	if err != nil {
		return "end-error generate:" + lcClassify(err)
	}
	vb := ledgercore.MakeValidatedBlock(ub.UnfinishedBlock(), ub.UnfinishedDeltas())
	prp := vb.Block().BlockHeader.FeeSink
	if h.l.GenesisProto().Payouts.Enabled {
		vb = ledgercore.MakeValidatedBlock(vb.Block().WithProposer(committee.Seed(prp), prp, true), vb.Delta())
	} else {
		vb = ledgercore.MakeValidatedBlock(vb.Block().WithProposer(committee.Seed(prp), basics.Address{}, false), vb.Delta())
	}
	vvb, err := validateWithoutSignatures(h.t, h.l, vb.Block())
	if err != nil {
		return "end-error validate:" + lcClassify(err)
	}
	if err = h.l.AddValidatedBlock(*vvb, agreement.Certificate{}); err != nil {
		return "end-error add:" + lcClassify(err)
	}
	h.l.WaitForCommit(h.l.Latest())
	tot := vvb.Delta().Totals
	res := fmt.Sprintf("end payset=%d ctr=%d all=%d", len(vvb.Block().Payset), vvb.Block().TxnCounter, tot.All().Raw)
	if h.spaceObs {
		res += fmt.Sprintf(" load=%d", uint64(vvb.Block().Load))
	}
	h.ev = nil
	return res
}

func (h *lcHarness) exec(op string) string {
	return vh.Catch(func() string {
		if os.Getenv("VERIF_LCORE_DEBUG") != "" {
			defer func() {
				if r := recover(); r != nil {
					fmt.Fprintf(os.Stderr, "panic: %v\n%s\n", r, debug.Stack())
					panic(r)
				}
			}()
		}
		switch {
		case strings.HasPrefix(op, "reset"):
			return h.reset(op)
		case strings.HasPrefix(op, "block "):
			if h.l == nil {
				return "bad-op"
			}
			obs := h.startBlock()
			if obs != strings.TrimPrefix(op, "block ") {
				return "DIVERGED " + obs
			}
			return "ok"
		case h.ev == nil:
			return "bad-op"
		case strings.HasPrefix(op, "group"):
			return h.group(op)
		case op == "dump":
			return h.dump()
		case op == "endblock":
			return h.endblock()
		}
		return "bad-op"
	})
}

// ----------------------------------------------------------------------------------------------- generator

type lcView struct {
	acct   [lcN]ledgercore.AccountData
	params map[uint64]basics.AssetParams
	creat  map[uint64]uint64
	hold   map[[2]uint64]basics.AssetHolding
	assets []uint64 // existing
}

func (h *lcHarness) view() *lcView {
	v := &lcView{params: map[uint64]basics.AssetParams{}, creat: map[uint64]uint64{}, hold: map[[2]uint64]basics.AssetHolding{}}
	for id := uint64(0); id < lcN; id++ {
		v.acct[id], _ = h.ev.VerifLcoreLookup(lcAddr(id))
	}
	for _, aid := range h.known {
		if cr, ok, _ := h.ev.VerifLcoreCreator(basics.AssetIndex(aid)); ok {
			c, _ := strconv.ParseUint(lcAddrID(cr), 10, 64)
			v.creat[aid] = c
			if p, ok2, _ := h.ev.VerifLcoreParams(cr, basics.AssetIndex(aid)); ok2 {
				v.params[aid] = p
				v.assets = append(v.assets, aid)
			}
		}
		for id := uint64(0); id < lcN; id++ {
			if hd, ok, _ := h.ev.VerifLcoreHolding(lcAddr(id), basics.AssetIndex(aid)); ok {
				v.hold[[2]uint64{id, aid}] = hd
			}
		}
	}
	return v
}

type lcGen struct {
	r       *vh.Rng
	profile string
	h       *lcHarness
	nonce   uint64
	round   uint64
	minFee  uint64
	minBal  uint64
	level   uint64
	unit    uint64
	okTxns  []string // members of groups that succeeded in this block (for duplicates)
	// accounts / assets written by ACCEPTED groups of the block under construction: the evaluator's block-level cow holds
	// records for them, which a later child cow may alias
	tAccts     map[uint64]bool
	tAssets    map[uint64]bool
	forceAsset uint64 // directed stream: the next forceN groups are touch-then-fail groups on this asset
	forceN     int
	// rewards-band stream (C21): a case whose rewards level really moves, with a non-participating account that keeps
	// transacting; bandQ holds the pending (account, mode) spends of the current block
	bandCase  bool
	bandAccts []uint64
	bandQ     [][2]string
	// block-space stream (C19): a case with a small MaxTxnBytesPerBlock; when the block is nearly full, groups sized to land
	// exactly on / one byte over / one byte under the remaining space
	spaceCase bool
	spaceQ    []string
	spaceDone bool
}

func (g *lcGen) pick(xs ...uint64) uint64 { return xs[g.r.Intn(len(xs))] }
func (g *lcGen) user() uint64             { return uint64(1 + g.r.Intn(6)) }
func (g *lcGen) anyAddr() uint64 {
	if g.r.Chance(75) {
		return g.user()
	}
	return uint64(g.r.Intn(lcN))
}
func (g *lcGen) addrOr0() uint64 {
	if g.r.Chance(35) {
		return 0
	}
	return g.user()
}

// balance with pending rewards as the evaluator will see it
func (g *lcGen) balWP(d ledgercore.AccountData) uint64 {
	return d.WithUpdatedRewards(g.unit, g.level).MicroAlgos.Raw
}

func (g *lcGen) hdr(kind string, snd uint64, fee uint64) string {
	g.nonce++
	fv, lv := g.round, g.round+uint64(g.r.Intn(20))
	switch g.r.Intn(60) {
	case 0:
		fv, lv = g.round+1, g.round+5 // early
	case 1:
		if g.round > 1 {
			fv, lv = g.round-1, g.round-1 // late
		}
	case 2:
		fv, lv = g.round+3, g.round+1 // lv < fv
	case 3:
		fv, lv = g.round, g.round+1001 // window too large
	case 4:
		fv, lv = 1, g.round+999
	case 5:
		fv, lv = g.round, g.round
	}
	return fmt.Sprintf("%s,%d,%d,%d,%d,%d,GRP", kind, snd, fee, fv, lv, g.nonce)
}

func (g *lcGen) fee(v *lcView, snd uint64) uint64 {
	switch g.r.Intn(40) {
	case 0:
		return 0
	case 1:
		return g.minFee - 1
	case 2:
		return 2 * g.minFee
	case 3:
		return g.balWP(v.acct[snd]) + 1
	case 4:
		return g.balWP(v.acct[snd])
	case 5:
		return 2000000
	}
	return g.minFee
}

// a sender that can usually pay: funded accounts are preferred
func (g *lcGen) payer(v *lcView) uint64 {
	snd := g.user()
	for try := 0; try < 3 && g.balWP(v.acct[snd]) < g.minBal+g.minFee; try++ {
		snd = g.user()
	}
	return snd
}

func (g *lcGen) genPay(v *lcView) string {
	snd := g.payer(v)
	switch g.r.Intn(90) {
	case 0:
		snd = lcSink
	case 1:
		snd = lcPool
	case 2:
		snd = 0
	}
	fee := g.fee(v, snd)
	bal := g.balWP(v.acct[snd])
	mb := g.minBal * (1 + v.acct[snd].TotalAssets)
	rcv := g.anyAddr()
	var amt uint64
	avail := uint64(0)
	if bal > fee+mb {
		avail = bal - fee - mb
	}
	switch g.r.Intn(14) {
	case 0:
		amt = 0
	case 1:
		amt = 1
	case 2, 3:
		amt = avail
	case 4:
		amt = avail + 1
	case 5:
		if avail > 0 {
			amt = avail - 1
		}
	case 6:
		if bal > fee {
			amt = bal - fee
		}
	case 7:
		amt = bal
	case 8:
		amt = g.minBal
	case 9:
		amt = g.minBal - 1
	case 10:
		amt = g.pick(1<<63, ^uint64(0), 1<<62)
	default:
		if avail > 0 {
			amt = g.r.U64() % (avail + 1)
		}
	}
	cl := uint64(0)
	if g.r.Chance(18) || (g.profile == "c18" && g.r.Chance(15)) {
		cl = g.anyAddr()
		if g.r.Chance(40) {
			amt = g.pick(0, 1, amt)
		}
	}
	return g.hdr("pay", snd, fee) + fmt.Sprintf(",%d,%d,%d", rcv, amt, cl)
}

func (g *lcGen) genKeyreg(v *lcView) string {
	snd := g.payer(v)
	if g.r.Chance(3) {
		snd = lcSink
	}
	fee := g.fee(v, snd)
	if g.r.Chance(30) {
		fee = 2000000
	}
	h := g.hdr("keyreg", snd, fee)
	switch g.r.Intn(12) {
	case 0, 1, 2: // offline
		return h + ",0,0,0,0,0,0,0"
	case 3: // nonpart
		return h + ",0,0,0,0,0,0,1"
	case 4: // malformed mixes
		return h + fmt.Sprintf(",%d,%d,%d,%d,%d,%d,%d", g.pick(0, 3), g.pick(0, 4), g.pick(0, 5), g.pick(0, g.round), g.pick(0, g.round+100), g.pick(0, 10), g.pick(0, 1))
	case 5: // expired / future
		return h + fmt.Sprintf(",%d,%d,%d,%d,%d,%d,0", 10+snd, 20+snd, 30+snd, g.pick(0, g.round, g.round+1, g.round+2, g.round+30), g.pick(g.round, g.round+1, g.round+40), 100)
	}
	return h + fmt.Sprintf(",%d,%d,%d,%d,%d,%d,0", 10+uint64(g.r.Intn(50)), 100+uint64(g.r.Intn(50)), 200+uint64(g.r.Intn(50)), g.pick(1, g.round, g.round+1), g.round+1+uint64(g.r.Intn(3000)), 1+uint64(g.r.Intn(1000)))
}

func (g *lcGen) someAsset(v *lcView) uint64 {
	if len(g.h.known) > 0 && g.r.Chance(90) {
		if len(v.assets) > 0 && g.r.Chance(85) {
			return v.assets[g.r.Intn(len(v.assets))]
		}
		return g.h.known[g.r.Intn(len(g.h.known))]
	}
	return g.pick(0, 1, 999, 5000)
}

func (g *lcGen) genAcfg(v *lcView) string {
	snd := g.payer(v)
	kind := g.r.Intn(10)
	if len(v.assets) == 0 || kind < 4 || (len(v.assets) < 3 && kind < 7) {
		total := g.pick(0, 1, 10, 100, 1000, 1000000, ^uint64(0), 1<<63)
		dec := g.pick(0, 0, 0, 6, 19)
		if g.r.Chance(3) {
			dec = 20
		}
		m, rs, f, c := g.addrOr0(), g.addrOr0(), g.addrOr0(), g.addrOr0()
		if g.r.Chance(70) {
			m = snd
		}
		return g.hdr("acfg", snd, g.fee(v, snd)) + fmt.Sprintf(",0,%d,%d,%s,%d,%d,%d,%d", total, dec, lcB(g.r.Chance(25)), m, rs, f, c)
	}
	aid := g.someAsset(v)
	p, ok := v.params[aid]
	if ok && g.r.Chance(80) {
		if m, e := strconv.ParseUint(lcAddrID(p.Manager), 10, 64); e == nil && m != 0 {
			snd = m
		}
	}
	if kind < 8 || !ok { // destroy
		return g.hdr("acfg", snd, g.fee(v, snd)) + fmt.Sprintf(",%d,0,0,0,0,0,0,0", aid)
	}
	// reconfigure
	return g.hdr("acfg", snd, g.fee(v, snd)) + fmt.Sprintf(",%d,%d,%d,%s,%d,%d,%d,%d", aid, g.pick(0, p.Total, 5), g.pick(0, uint64(p.Decimals)), lcB(g.r.Bool()), g.addrOr0(), g.addrOr0(), g.addrOr0(), g.addrOr0())
}

func (g *lcGen) genAxfer(v *lcView) string {
	aid := g.someAsset(v)
	p, exists := v.params[aid]
	cr := v.creat[aid]
	holders := []uint64{}
	for id := uint64(0); id < lcN; id++ {
		if _, ok := v.hold[[2]uint64{id, aid}]; ok {
			holders = append(holders, id)
		}
	}
	snd := g.payer(v)
	switch k := g.r.Intn(20); {
	case k < 5: // opt-in
		return g.hdr("axfer", snd, g.fee(v, snd)) + fmt.Sprintf(",%d,0,0,%d,0", aid, snd)
	case k < 12 && len(holders) > 0: // transfer
		snd = holders[g.r.Intn(len(holders))]
		if g.r.Chance(10) {
			snd = g.user()
		}
		hd := v.hold[[2]uint64{snd, aid}]
		rcv := g.anyAddr()
		if len(holders) > 1 && g.r.Chance(75) {
			rcv = holders[g.r.Intn(len(holders))]
		}
		amt := g.pick(0, 1, hd.Amount, hd.Amount+1, hd.Amount/2, ^uint64(0))
		cl := uint64(0)
		if g.r.Chance(12) {
			cl = g.anyAddr()
		}
		return g.hdr("axfer", snd, g.fee(v, snd)) + fmt.Sprintf(",%d,%d,0,%d,%d", aid, amt, rcv, cl)
	case k < 15 && len(holders) > 0: // clawback
		if exists && g.r.Chance(85) {
			if c, e := strconv.ParseUint(lcAddrID(p.Clawback), 10, 64); e == nil && c != 0 {
				snd = c
			}
		}
		from := holders[g.r.Intn(len(holders))]
		hd := v.hold[[2]uint64{from, aid}]
		rcv := holders[g.r.Intn(len(holders))]
		if g.r.Chance(15) {
			rcv = g.anyAddr()
		}
		cl := uint64(0)
		if g.r.Chance(5) {
			cl = g.user()
		}
		return g.hdr("axfer", snd, g.fee(v, snd)) + fmt.Sprintf(",%d,%d,%d,%d,%d", aid, g.pick(0, 1, hd.Amount, hd.Amount+1, hd.Amount/2), from, rcv, cl)
	case k < 19 && len(holders) > 0: // close-out
		snd = holders[g.r.Intn(len(holders))]
		to := cr
		if g.r.Chance(45) && len(holders) > 0 {
			to = holders[g.r.Intn(len(holders))]
		}
		if g.r.Chance(10) {
			to = g.anyAddr()
		}
		hd := v.hold[[2]uint64{snd, aid}]
		rcv := g.pick(0, to, snd, cr)
		amt := g.pick(0, 0, 0, 1, hd.Amount)
		if rcv == 0 && g.r.Chance(90) {
			amt = 0
		}
		if to == 0 {
			to = g.user()
		}
		return g.hdr("axfer", snd, g.fee(v, snd)) + fmt.Sprintf(",%d,%d,0,%d,%d", aid, amt, rcv, to)
	}
	return g.hdr("axfer", snd, g.fee(v, snd)) + fmt.Sprintf(",%d,%d,%d,%d,%d", g.pick(0, aid), g.pick(0, 1), g.pick(0, 0, g.user()), g.anyAddr(), g.pick(0, 0, g.user()))
}

func (g *lcGen) genAfrz(v *lcView) string {
	aid := g.someAsset(v)
	snd := g.user()
	if p, ok := v.params[aid]; ok && g.r.Chance(85) {
		if f, e := strconv.ParseUint(lcAddrID(p.Freeze), 10, 64); e == nil && f != 0 {
			snd = f
		}
	}
	acct := g.user()
	if g.r.Chance(5) {
		acct = uint64(g.r.Intn(lcN))
	}
	if g.r.Chance(3) {
		aid = 0
	}
	return g.hdr("afrz", snd, g.fee(v, snd)) + fmt.Sprintf(",%d,%d,%s", aid, acct, lcB(g.r.Chance(60)))
}

func (g *lcGen) genTxn(v *lcView) string {
	var w [5]int // pay keyreg acfg axfer afrz
	switch g.profile {
	case "c18":
		w = [5]int{70, 12, 5, 10, 3}
	case "c19":
		w = [5]int{45, 8, 12, 28, 7}
	case "c21":
		w = [5]int{55, 5, 15, 22, 3}
	default: // c22
		w = [5]int{12, 2, 22, 50, 14}
	}
	x := g.r.Intn(w[0] + w[1] + w[2] + w[3] + w[4])
	switch {
	case x < w[0]:
		return g.genPay(v)
	case x < w[0]+w[1]:
		return g.genKeyreg(v)
	case x < w[0]+w[1]+w[2]:
		return g.genAcfg(v)
	case x < w[0]+w[1]+w[2]+w[3]:
		return g.genAxfer(v)
	}
	return g.genAfrz(v)
}

// a payment that is valid by construction (used to pad groups whose failing member is chosen)
func (g *lcGen) goodPay(v *lcView) string {
	for try := 0; try < 8; try++ {
		snd := g.user()
		bal := g.balWP(v.acct[snd])
		mb := g.minBal * (1 + v.acct[snd].TotalAssets)
		if bal >= mb+20*g.minFee+16*g.minBal+16 {
			g.nonce++
			rcv := g.user()
			amt := g.minBal + uint64(g.r.Intn(1000))
			if v.acct[rcv].MicroAlgos.Raw >= g.minBal {
				amt = uint64(g.r.Intn(1000))
			}
			return fmt.Sprintf("pay,%d,%d,%d,%d,%d,GRP,%d,%d,0", snd, g.minFee, g.round, g.round+10, g.nonce, rcv, amt)
		}
	}
	return g.genPay(v)
}

// a member that is valid in the state v: a payment, or (when assets exist) a reconfigure / transfer / freeze / clawback /
// opt-in on an asset, preferring assets written earlier in this block
func (g *lcGen) goodMember(v *lcView) string {
	if len(v.assets) > 0 && g.r.Chance(45) {
		aid := v.assets[g.r.Intn(len(v.assets))]
		for _, a := range v.assets {
			if g.tAssets[a] && g.r.Chance(50) {
				aid = a
			}
		}
		reconf, cw, other := g.assetMembers(v, aid)
		all := append(append(reconf, cw...), other...)
		if len(all) > 0 {
			return all[g.r.Intn(len(all))]
		}
	}
	return g.goodPay(v)
}

func (g *lcGen) genGroup(v *lcView) string {
	n := 1
	multi := 25
	if g.profile == "c19" {
		multi = 60
	}
	if g.r.Chance(multi) {
		n = 2 + g.r.Intn(4)
		if g.r.Chance(20) {
			n = 2 + g.r.Intn(15)
		}
		if g.r.Chance(3) {
			n = 17
		}
	}
	if g.r.Chance(1) {
		return "group"
	}
	var ts []string
	failAt := -1
	if n > 1 && g.r.Chance(70) {
		failAt = g.r.Intn(n) // the other members are valid (payments and asset traffic): the (possibly) failing member and its position vary
	}
	for i := 0; i < n; i++ {
		var t string
		switch {
		case failAt >= 0 && i != failAt:
			t = g.goodMember(v)
		case len(g.okTxns) > 0 && g.r.Chance(3):
			t = g.okTxns[g.r.Intn(len(g.okTxns))] // duplicate of a committed transaction of this block
		case i > 0 && g.r.Chance(2):
			t = ts[g.r.Intn(len(ts))] // duplicate inside the group
		default:
			t = g.genTxn(v)
		}
		ts = append(ts, t)
	}
	// group tags
	tag := "1"
	if n == 1 {
		tag = "0"
		if g.r.Chance(5) {
			tag = g.pick1("1", "2")
		}
	}
	for i := range ts {
		ts[i] = strings.Replace(lcRetag(ts[i]), "GRP", tag, 1)
	}
	if n > 1 && g.r.Chance(10) {
		i := g.r.Intn(n)
		switch g.r.Intn(4) {
		case 0: // a zero group id in a multi-member group
			ts[i] = lcSetTag(ts[i], "0")
		case 1: // inconsistent
			ts[i] = lcSetTag(ts[i], "2")
		case 2: // all zero
			for j := range ts {
				ts[j] = lcSetTag(ts[j], "0")
			}
		case 3: // consistent but not the hash of the members
			for j := range ts {
				ts[j] = lcSetTag(ts[j], "3")
			}
		}
	}
	// fee pooling: move all fees to one member
	if n > 1 && g.r.Chance(15) {
		i := g.r.Intn(n)
		tot := uint64(0)
		for j := range ts {
			f := strings.Split(ts[j], ",")
			tot += vh.U(f[2])
			f[2] = "0"
			ts[j] = strings.Join(f, ",")
		}
		if tot < uint64(n)*g.minFee && g.r.Chance(80) {
			tot = uint64(n) * g.minFee
		}
		if g.r.Chance(10) && tot > 0 {
			tot--
		}
		f := strings.Split(ts[i], ",")
		f[2] = strconv.FormatUint(tot, 10)
		ts[i] = strings.Join(f, ",")
	}
	return "group " + strings.Join(ts, ";")
}

func (g *lcGen) pick1(xs ...string) string { return xs[g.r.Intn(len(xs))] }

// a recorded (already tagged) transaction gets its tag field replaced by the placeholder again
func lcRetag(t string) string {
	f := strings.Split(t, ",")
	f[6] = "GRP"
	return strings.Join(f, ",")
}
func lcSetTag(t, tag string) string {
	f := strings.Split(t, ",")
	f[6] = tag
	return strings.Join(f, ",")
}

// plain header: valid window, min fee, fresh nonce, no group
func (g *lcGen) ph(kind string, snd uint64) string {
	g.nonce++
	return fmt.Sprintf("%s,%d,%d,%d,%d,%d,0", kind, snd, g.minFee, g.round, g.round+10, g.nonce)
}

// funded returns up to n distinct ordinary accounts holding at least `need` microalgos
func (g *lcGen) funded(v *lcView, n int, need uint64) []uint64 {
	var out []uint64
	start := g.r.Intn(6)
	for k := 0; k < 6 && len(out) < n; k++ {
		id := uint64(1 + (start+k)%6)
		if g.balWP(v.acct[id]) >= need && v.acct[id].Status != basics.NotParticipating {
			out = append(out, id)
		}
	}
	return out
}

// scriptAssets: a directed life cycle of one asset that meets every holder rule: create, opt-ins, distribution, freeze,
// transfer out of / into a frozen holding, clawback, destroy while held, close-out to creator / to another holder while
// frozen, destroy.  Returned as single-transaction groups (some merged into one group).
func (g *lcGen) scriptAssets(v *lcView) []string {
	u := g.funded(v, 3, 3000000)
	if len(u) < 3 {
		return nil
	}
	a, b, c := u[0], u[1], u[2]
	aid := g.h.ev.VerifLcoreCounter() + 1
	total := g.pick(100, 1000, ^uint64(0))
	df := g.r.Chance(30)
	frz, clw := a, a
	if g.r.Chance(25) {
		frz = c
	}
	if g.r.Chance(25) {
		clw = b
	}
	x := g.pick(1, 10, total/2, total)
	mgr := a
	if g.r.Chance(25) { // the manager is not the creator and will hold the whole supply when it tries to destroy
		mgr, x = b, total
	}
	var out []string
	one := func(t string) { out = append(out, "group "+t) }
	one(g.ph("acfg", a) + fmt.Sprintf(",0,%d,0,%s,%d,0,%d,%d", total, lcB(df), mgr, frz, clw))
	optb := g.ph("axfer", b) + fmt.Sprintf(",%d,0,0,%d,0", aid, b)
	optc := g.ph("axfer", c) + fmt.Sprintf(",%d,0,0,%d,0", aid, c)
	if g.r.Chance(40) {
		out = append(out, "group "+lcSetTag(optb, "1")+";"+lcSetTag(optc, "1"))
	} else {
		one(optb)
		one(optc)
	}
	if df { // unfreeze b (and sometimes c) so that the distribution can happen; otherwise it is rejected
		if g.r.Chance(80) {
			one(g.ph("afrz", frz) + fmt.Sprintf(",%d,%d,0", aid, b))
		}
		if g.r.Chance(60) {
			one(g.ph("afrz", frz) + fmt.Sprintf(",%d,%d,0", aid, c))
		}
	}
	one(g.ph("axfer", a) + fmt.Sprintf(",%d,%d,0,%d,0", aid, x, b))
	one(g.ph("afrz", frz) + fmt.Sprintf(",%d,%d,1", aid, b))
	one(g.ph("axfer", b) + fmt.Sprintf(",%d,%d,0,%d,0", aid, g.pick(0, 1, x), c)) // out of a frozen holding
	if g.r.Chance(60) {                                                           // the frozen holder pays a third party (or the creator) a positive amount while closing out to the creator: must be rejected
		one(g.ph("axfer", b) + fmt.Sprintf(",%d,%d,0,%d,%d", aid, g.pick(1, x/2+1, x), g.pick(c, c, a), a))
	}
	one(g.ph("axfer", a) + fmt.Sprintf(",%d,%d,0,%d,0", aid, g.pick(0, 1), b))            // into a frozen holding
	one(g.ph("axfer", clw) + fmt.Sprintf(",%d,%d,%d,%d,0", aid, g.pick(1, x/2, x), b, c)) // clawback from frozen b
	one(g.ph("axfer", g.pick(a, b, c)) + fmt.Sprintf(",%d,1,%d,%d,0", aid, b, c))         // clawback by somebody (maybe not the clawback address)
	one(g.ph("acfg", mgr) + fmt.Sprintf(",%d,0,0,0,0,0,0,0", aid))                        // destroy while others hold
	if g.r.Chance(50) {
		one(g.ph("axfer", b) + fmt.Sprintf(",%d,0,0,%d,%d", aid, g.pick(0, a, c), c)) // frozen b closes to a non-creator (the zero transfer may name the creator)
	}
	one(g.ph("axfer", b) + fmt.Sprintf(",%d,0,0,0,%d", aid, a)) // frozen b closes to the creator
	if g.r.Chance(30) {
		one(g.ph("axfer", c) + fmt.Sprintf(",%d,0,0,0,%d", aid, c)) // close to self
	}
	if g.r.Chance(70) {
		one(g.ph("axfer", c) + fmt.Sprintf(",%d,0,0,0,%d", aid, a))
	}
	one(g.ph("acfg", g.pick(mgr, mgr, a, b)) + fmt.Sprintf(",%d,0,0,0,0,0,0,0", aid)) // destroy (by the manager or not)
	if g.r.Chance(50) {
		one(g.ph("axfer", c) + fmt.Sprintf(",%d,0,0,0,%d", aid, g.pick(a, b))) // close out of a destroyed asset
	}
	return out
}

func lcID(a basics.Address) uint64 {
	n, err := strconv.ParseUint(lcAddrID(a), 10, 64)
	if err != nil {
		return 0
	}
	return n
}

// noteTouched records what an accepted group wrote (ctrBefore = txn counter before the group, for created asset ids)
func (g *lcGen) noteTouched(op string, ctrBefore uint64) {
	if len(op) <= 6 {
		return
	}
	for i, t := range strings.Split(op[6:], ";") {
		f := strings.Split(t, ",")
		g.tAccts[vh.U(f[1])] = true
		switch f[0] {
		case "pay":
			g.tAccts[vh.U(f[7])] = true
			g.tAccts[vh.U(f[9])] = true
		case "acfg":
			if f[7] == "0" {
				g.tAssets[ctrBefore+uint64(i)+1] = true
			} else {
				g.tAssets[vh.U(f[7])] = true
			}
		case "axfer":
			g.tAssets[vh.U(f[7])] = true
			g.tAccts[vh.U(f[9])], g.tAccts[vh.U(f[10])], g.tAccts[vh.U(f[11])] = true, true, true
		case "afrz":
			g.tAssets[vh.U(f[7])] = true
			g.tAccts[vh.U(f[8])] = true
		}
	}
}

// mh: member header (valid window, min fee, fresh nonce, group tag placeholder)
func (g *lcGen) mh(kind string, snd uint64) string {
	g.nonce++
	return fmt.Sprintf("%s,%d,%d,%d,%d,%d,GRP", kind, snd, g.minFee, g.round, g.round+10, g.nonce)
}

// assetMembers builds transactions on asset aid that are valid in the state v: a reconfigure by the manager (a params
// write: putAssetParams copies the sibling holding of (creator, asset) found through the parents), writers of the CREATOR's
// holding (transfer out of / into it, freeze toggle, clawback from / to it) and other traffic on the asset.
func (g *lcGen) assetMembers(v *lcView, aid uint64) (reconf, creatorW, other []string) {
	p, ok := v.params[aid]
	if !ok {
		return
	}
	cr := v.creat[aid]
	mgr, frz, clw, rsv := lcID(p.Manager), lcID(p.Freeze), lcID(p.Clawback), lcID(p.Reserve)
	if mgr != 0 {
		r2 := g.pick(rsv, g.user(), 0)
		reconf = append(reconf, g.mh("acfg", mgr)+fmt.Sprintf(",%d,0,0,0,%d,%d,%d,%d", aid, mgr, r2, frz, clw))
	}
	crH, crOK := v.hold[[2]uint64{cr, aid}]
	for id := uint64(1); id <= 6; id++ {
		h, isHolder := v.hold[[2]uint64{id, aid}]
		if id == cr {
			continue
		}
		if !isHolder {
			if g.balWP(v.acct[id]) >= 3*g.minBal+10*g.minFee {
				other = append(other, g.mh("axfer", id)+fmt.Sprintf(",%d,0,0,%d,0", aid, id)) // opt-in
			}
			continue
		}
		if crOK && !crH.Frozen && !h.Frozen && crH.Amount > 0 {
			creatorW = append(creatorW, g.mh("axfer", cr)+fmt.Sprintf(",%d,%d,0,%d,0", aid, g.pick(1, 1+crH.Amount/7, crH.Amount), id))
		}
		if crOK && !crH.Frozen && !h.Frozen && h.Amount > 0 {
			creatorW = append(creatorW, g.mh("axfer", id)+fmt.Sprintf(",%d,%d,0,%d,0", aid, g.pick(1, h.Amount), cr))
		}
		if crOK && clw != 0 && crH.Amount > 0 {
			creatorW = append(creatorW, g.mh("axfer", clw)+fmt.Sprintf(",%d,%d,%d,%d,0", aid, g.pick(1, crH.Amount), cr, id))
		}
		if crOK && clw != 0 && h.Amount > 0 {
			creatorW = append(creatorW, g.mh("axfer", clw)+fmt.Sprintf(",%d,%d,%d,%d,0", aid, g.pick(1, h.Amount), id, cr))
		}
		if frz != 0 {
			other = append(other, g.mh("afrz", frz)+fmt.Sprintf(",%d,%d,%s", aid, id, lcB(!h.Frozen)))
		}
	}
	if crOK && frz != 0 {
		creatorW = append(creatorW, g.mh("afrz", frz)+fmt.Sprintf(",%d,%d,%s", aid, cr, lcB(!crH.Frozen)))
	}
	return
}

// genTouchFail: the "written earlier in this block, then written again by a group that FAILS" stream.  The group mixes, in a
// random order, a params write and holding writes on one asset (preferably one created / touched by an accepted group of this
// block, else an untouched one), payments / keyreg of accounts touched earlier in the block, and a failure: an overspending
// or dead member at a random position, or a late group-level failure (wrong group hash, fee shortfall).  One in ten has no
// failure and is accepted, so that later groups find its records in the block-level cow.
func (g *lcGen) genTouchFail(v *lcView, force uint64) string {
	var cand, touched []uint64
	for _, aid := range v.assets {
		cand = append(cand, aid)
		if g.tAssets[aid] {
			touched = append(touched, aid)
		}
	}
	var ms []string
	if force != 0 {
		cand, touched = []uint64{force}, []uint64{force}
	}
	if len(cand) > 0 {
		aid := cand[g.r.Intn(len(cand))]
		if len(touched) > 0 && g.r.Chance(65) {
			aid = touched[g.r.Intn(len(touched))]
		}
		reconf, cw, other := g.assetMembers(v, aid)
		if len(reconf) > 0 && g.r.Chance(85) {
			ms = append(ms, reconf[0])
		}
		for k := 0; k < 1+g.r.Intn(2) && len(cw) > 0; k++ {
			ms = append(ms, cw[g.r.Intn(len(cw))])
		}
		if len(other) > 0 && g.r.Chance(40) {
			ms = append(ms, other[g.r.Intn(len(other))])
		}
	}
	// accounts touched earlier in the block: payments and key registrations
	var ta []uint64
	for id := uint64(1); id <= 6; id++ {
		if g.tAccts[id] && g.balWP(v.acct[id]) >= g.minBal*(2+v.acct[id].TotalAssets)+20*g.minFee && v.acct[id].Status != basics.NotParticipating {
			ta = append(ta, id)
		}
	}
	for k := 0; k < g.r.Intn(3) || len(ms) == 0; k++ {
		if len(ta) == 0 {
			ms = append(ms, g.goodPay(v))
			continue
		}
		a := ta[g.r.Intn(len(ta))]
		switch g.r.Intn(3) {
		case 0:
			ms = append(ms, g.mh("keyreg", a)+",0,0,0,0,0,0,0")
		case 1:
			ms = append(ms, g.mh("keyreg", a)+fmt.Sprintf(",%d,%d,%d,%d,%d,%d,0", 40+a, 50+a, 60+a, g.round, g.round+500, 100))
		default:
			rcv := ta[g.r.Intn(len(ta))]
			ms = append(ms, g.mh("pay", a)+fmt.Sprintf(",%d,%d,0", rcv, g.r.Intn(1000)))
		}
	}
	// random order
	for i := len(ms) - 1; i > 0; i-- {
		j := g.r.Intn(i + 1)
		ms[i], ms[j] = ms[j], ms[i]
	}
	tag := "1"
	switch k := g.r.Intn(10); {
	case k < 4: // an overspending member at a random position (mostly late, so that the writes happened)
		bad := g.mh("pay", g.user()) + fmt.Sprintf(",%d,%d,0", g.user(), uint64(1)<<63)
		pos := len(ms)
		if g.r.Chance(35) {
			pos = g.r.Intn(len(ms) + 1)
		}
		ms = append(ms[:pos], append([]string{bad}, ms[pos:]...)...)
	case k < 6: // a member whose window has not opened yet
		g.nonce++
		bad := fmt.Sprintf("pay,%d,%d,%d,%d,%d,GRP,%d,1,0", g.user(), g.minFee, g.round+1, g.round+9, g.nonce, g.user())
		pos := len(ms)
		if g.r.Chance(35) {
			pos = g.r.Intn(len(ms) + 1)
		}
		ms = append(ms[:pos], append([]string{bad}, ms[pos:]...)...)
	case k < 8: // every member is applied, then the group id turns out not to be the hash of the members
		tag = "3"
	case k < 9: // every member is applied, then the fees turn out to be short
		for i := range ms {
			f := strings.Split(ms[i], ",")
			f[2] = "0"
			ms[i] = strings.Join(f, ",")
		}
	}
	if len(ms) == 1 && tag == "1" {
		tag = "0"
	}
	if len(ms) > 16 {
		ms = ms[:16]
	}
	for i := range ms {
		ms[i] = strings.Replace(ms[i], "GRP", tag, 1)
	}
	return "group " + strings.Join(ms, ";")
}

// scriptAliasSetup: an asset created in THIS block (all roles at the creator), a second holder, optionally a first transfer;
// the touch-then-fail stream is then forced onto it.
func (g *lcGen) scriptAliasSetup(v *lcView) []string {
	u := g.funded(v, 2, 3000000)
	if len(u) < 2 {
		return nil
	}
	a, b := u[0], u[1]
	aid := g.h.ev.VerifLcoreCounter() + 1
	out := []string{
		"group " + g.ph("acfg", a) + fmt.Sprintf(",0,%d,0,0,%d,%d,%d,%d", g.pick(1000, 1000000), a, a, a, a),
		"group " + g.ph("axfer", b) + fmt.Sprintf(",%d,0,0,%d,0", aid, b),
	}
	if g.r.Chance(50) {
		out = append(out, "group "+g.ph("axfer", a)+fmt.Sprintf(",%d,10,0,%d,0", aid, b))
	}
	g.forceAsset, g.forceN = aid, 3+g.r.Intn(3)
	return out
}

// genFrozenClose: the "frozen + close-to" stream (single-transaction groups, so that the monitor can attribute every change).
// For an asset with a frozen holder H: a transfer H→R of a ∈ {0, 1, part, all, all+1} with AssetCloseTo ∈ {creator, another
// holder, H itself, none}, sent by H or by the clawback address (AssetSender = H), to a receiver that is frozen / unfrozen /
// not opted in / the creator / H.  Legitimate shapes (zero amount + close-out to the creator, clawback moves) and forbidden
// ones (a positive amount out of the frozen holding without clawback, whatever the close-to) both occur.  Without a frozen
// holder it freezes one.
func (g *lcGen) genFrozenClose(v *lcView) string {
	type fh struct{ h, aid uint64 }
	var frozen []fh
	var freezable []string
	for _, aid := range v.assets {
		cr := v.creat[aid]
		frz := lcID(v.params[aid].Freeze)
		for id := uint64(1); id <= 6; id++ {
			hd, ok := v.hold[[2]uint64{id, aid}]
			if !ok || id == cr {
				continue
			}
			if hd.Frozen {
				frozen = append(frozen, fh{id, aid})
			} else if frz != 0 {
				freezable = append(freezable, g.ph("afrz", frz)+fmt.Sprintf(",%d,%d,1", aid, id))
			}
		}
	}
	if len(frozen) == 0 || (len(freezable) > 0 && g.r.Chance(15)) {
		if len(freezable) == 0 {
			return ""
		}
		return "group " + freezable[g.r.Intn(len(freezable))]
	}
	f := frozen[g.r.Intn(len(frozen))]
	H, aid := f.h, f.aid
	cr := v.creat[aid]
	clw := lcID(v.params[aid].Clawback)
	hd := v.hold[[2]uint64{H, aid}]
	var holders, others []uint64
	for id := uint64(1); id <= 6; id++ {
		if id == H {
			continue
		}
		if _, ok := v.hold[[2]uint64{id, aid}]; ok {
			holders = append(holders, id)
		} else {
			others = append(others, id)
		}
	}
	rcv := cr
	switch k := g.r.Intn(10); {
	case k < 6 && len(holders) > 0:
		rcv = holders[g.r.Intn(len(holders))]
	case k < 7 && len(others) > 0:
		rcv = others[g.r.Intn(len(others))]
	case k < 8:
		rcv = H
	}
	amt := g.pick(0, 1, 1, hd.Amount/2, hd.Amount, hd.Amount, hd.Amount+1)
	cl := cr
	switch k := g.r.Intn(10); {
	case k < 5:
	case k < 7 && len(holders) > 0:
		cl = holders[g.r.Intn(len(holders))]
	case k < 8:
		cl = H
	default:
		cl = 0
	}
	if clw != 0 && g.r.Chance(20) { // the clawback address moves units out of the frozen holding
		if g.r.Chance(90) {
			cl = 0
		}
		return "group " + g.ph("axfer", clw) + fmt.Sprintf(",%d,%d,%d,%d,%d", aid, amt, H, rcv, cl)
	}
	return "group " + g.ph("axfer", H) + fmt.Sprintf(",%d,%d,0,%d,%d", aid, amt, rcv, cl)
}

// settled funded accounts: their payments carry an empty ApplyData (no pending rewards), so their encoded size is known
func (g *lcGen) settled(v *lcView) []uint64 {
	var out []uint64
	for id := uint64(1); id <= 6; id++ {
		d := v.acct[id]
		if (d.RewardsBase == g.level || d.Status == basics.NotParticipating || d.MicroAlgos.Raw < g.unit) && d.MicroAlgos.Raw >= 3000000 {
			out = append(out, id)
		}
	}
	return out
}

// estimate the bytes a group would be charged (empty ApplyData)
func (g *lcGen) estimate(op string) int {
	stxns, _, ok := g.h.buildGroup(op)
	if !ok {
		return -1
	}
	n := 0
	for i := range stxns {
		n += g.h.ev.VerifLcoreEncodedLen(stxns[i], transactions.ApplyData{})
	}
	return n
}

// genSpace: a group of payments between settled accounts whose total encoded size is the remaining block space (mode
// "exact": accepted, the block is then full), one byte more ("over1": ErrNoSpace at the last member), one byte less
// ("under1"), or crosses the limit at member k of a longer group ("overk"); "tiny": one more payment.  Amount widths
// (1, 2, 3, 5 msgpack bytes) tune the size byte by byte.
func (g *lcGen) genSpace(v *lcView, mode string) string {
	used, max := g.h.ev.VerifLcoreSpace()
	R := max - used
	st := g.settled(v)
	if len(st) < 2 {
		u := g.funded(v, 2, 3000000)
		if len(u) < 2 {
			return ""
		}
		g.spaceQ = append([]string{mode}, g.spaceQ...) // prime: settle two accounts first, then retry
		return "group " + g.ph("pay", u[0]) + fmt.Sprintf(",%d,1,0", u[1])
	}
	a, b := st[0], st[1]
	if g.r.Bool() {
		a, b = b, a
	}
	// members: payments a→b of 1 µAlgo; the LAST of the first n members carries `pad` extra note bytes
	build := func(n int, pad uint64, extra int) string {
		var ts []string
		tag := "1"
		if n+extra == 1 {
			tag = "0"
		}
		for i := 0; i < n+extra; i++ {
			t := lcSetTag(g.ph("pay", a)+fmt.Sprintf(",%d,1,0", b), tag)
			if i == n-1 && pad > 0 {
				f := strings.Split(t, ",")
				f[5] = strconv.FormatUint(vh.U(f[5])+pad<<40, 10)
				t = strings.Join(f, ",")
			}
			ts = append(ts, t)
		}
		return "group " + strings.Join(ts, ";")
	}
	// bytes charged for the first n members of the group
	first := func(op string, n int) int {
		stxns, _, ok := g.h.buildGroup(op)
		if !ok {
			return -1
		}
		tot := 0
		for i := 0; i < n && i < len(stxns); i++ {
			tot += g.h.ev.VerifLcoreEncodedLen(stxns[i], transactions.ApplyData{})
		}
		return tot
	}
	T := R
	switch mode {
	case "over1", "overk":
		T = R + 1
	case "under1":
		T = R - 1
	case "tiny":
		return build(1, 0, 0)
	}
	extra := 0
	if mode == "overk" {
		extra = 1 + g.r.Intn(3)
	}
	one := first(build(2, 0, 0), 1)
	if one <= 0 || T < first(build(1, 0, 0), 1) {
		return build(1, 0, 0) // not even one payment fits
	}
	n := 1 + g.r.Intn(3)
	for n > 1 && n*one > T {
		n--
	}
	if n+extra == 1 && T > 126+900 {
		n = 2
	}
	pad := uint64(0)
	for it := 0; it < 6; it++ {
		est := first(build(n, pad, extra), n)
		if est == T {
			break
		}
		np := int64(pad) + int64(T-est)
		if np < 0 || np > 900 {
			break
		}
		pad = uint64(np)
	}
	return build(n, pad, extra)
}

// manyAssets: one group in which `a` creates n assets, raising its min balance above one reward unit
func (g *lcGen) manyAssets(a uint64, n int) string {
	var ts []string
	for i := 0; i < n; i++ {
		ts = append(ts, lcSetTag(g.ph("acfg", a)+fmt.Sprintf(",0,%d,0,0,%d,0,0,0", 10+i, a), "1"))
	}
	return "group " + strings.Join(ts, ";")
}

// genBand: a payment by `a` whose post-state sits at min balance − k.  For a participating account the balance counts its
// pending rewards (they are credited by the payment itself); for a NON-PARTICIPATING account nothing is pending, and
// p = floor(post/RewardUnit)·(level − RewardsBase) is what a status-blind rewards formula would wrongly add.
// modes: "p+1", "p", "1" (all must be rejected), "0", "-1" (accepted).
func (g *lcGen) genBand(v *lcView, a uint64, mode string) string {
	d := v.acct[a]
	min := g.minBal * (1 + d.TotalAssets)
	eff := d.MicroAlgos.Raw
	if d.Status != basics.NotParticipating {
		eff = g.balWP(d)
	}
	var delta uint64
	if g.level > d.RewardsBase {
		delta = g.level - d.RewardsBase
	}
	p := (min / g.unit) * delta
	if p > 0 && ((min-minU(p, min))/g.unit)*delta < p { // the phantom amount shrinks with the balance: land on whole units
		p = min - (min/g.unit)*g.unit
		if p == 0 || delta < p {
			p = minU(delta, min)
		}
	}
	var post uint64
	switch mode {
	case "p+1":
		post = min - minU(p+1, min)
	case "p":
		post = min - minU(maxU(p, 1), min)
	case "1":
		post = min - 1
	case "0":
		post = min
	default:
		post = min + 1
	}
	if eff < post+g.minFee {
		return ""
	}
	rcv := uint64(0)
	for try := 0; try < 12 && rcv == 0; try++ {
		r := g.user()
		if r != a && v.acct[r].MicroAlgos.Raw >= g.minBal {
			rcv = r
		}
	}
	if rcv == 0 {
		return ""
	}
	return "group " + g.ph("pay", a) + fmt.Sprintf(",%d,%d,0", rcv, eff-g.minFee-post)
}

func minU(a, b uint64) uint64 {
	if a < b {
		return a
	}
	return b
}
func maxU(a, b uint64) uint64 {
	if a > b {
		return a
	}
	return b
}

// scriptManagerDestroy: the manager is not the creator; it tries to destroy while IT holds the whole supply (rejected: the
// creator must), then hands the supply back and destroys.
func (g *lcGen) scriptManagerDestroy(v *lcView) []string {
	u := g.funded(v, 2, 3000000)
	if len(u) < 2 {
		return nil
	}
	a, b := u[0], u[1]
	aid := g.h.ev.VerifLcoreCounter() + 1
	total := g.pick(1, 100, ^uint64(0))
	var out []string
	one := func(t string) { out = append(out, "group "+t) }
	one(g.ph("acfg", a) + fmt.Sprintf(",0,%d,0,0,%d,0,0,0", total, b))
	one(g.ph("axfer", b) + fmt.Sprintf(",%d,0,0,%d,0", aid, b))
	one(g.ph("axfer", a) + fmt.Sprintf(",%d,%d,0,%d,0", aid, total, b))
	one(g.ph("acfg", b) + fmt.Sprintf(",%d,0,0,0,0,0,0,0", aid)) // the manager holds everything, the creator nothing
	one(g.ph("axfer", b) + fmt.Sprintf(",%d,%d,0,%d,0", aid, g.pick(total, total, total-1), a))
	one(g.ph("acfg", b) + fmt.Sprintf(",%d,0,0,0,0,0,0,0", aid))
	return out
}

// scriptMinBal: an account is brought to exactly its min balance, then its requirement is raised / lowered
func (g *lcGen) scriptMinBal(v *lcView) []string {
	u := g.funded(v, 1, 5000000)
	if len(u) < 1 {
		return nil
	}
	a := u[0]
	z := uint64(0)
	for id := uint64(1); id <= 6; id++ {
		if v.acct[id].MicroAlgos.Raw == 0 && v.acct[id].Status == basics.Offline {
			z = id
		}
	}
	if z == 0 || z == a {
		z = g.pick(0, lcSP) // the zero address (checked) or the exempt state-proof sender
	}
	aid := g.h.ev.VerifLcoreCounter() + 1
	mb, fee := g.minBal, g.minFee
	var out []string
	one := func(t string) { out = append(out, "group "+t) }
	one(g.ph("acfg", a) + fmt.Sprintf(",0,1000,0,0,%d,0,0,0", a))
	one(g.ph("pay", a) + fmt.Sprintf(",%d,%d,0", z, mb-1)) // receiver below min balance
	one(g.ph("pay", a) + fmt.Sprintf(",%d,%d,0", z, mb))   // exactly at it
	if z >= 1 && z <= 6 {
		one(g.ph("axfer", z) + fmt.Sprintf(",%d,0,0,%d,0", aid, z))                   // cannot even pay the fee
		one(g.ph("pay", a) + fmt.Sprintf(",%d,%d,0", z, mb+fee-1))                    // one short for an opt-in
		one(g.ph("axfer", z) + fmt.Sprintf(",%d,0,0,%d,0", aid, z))                   // rejected: below the raised requirement
		one(g.ph("pay", a) + fmt.Sprintf(",%d,%d,0", z, 1+fee*uint64(2+g.r.Intn(3)))) // now enough
		one(g.ph("axfer", z) + fmt.Sprintf(",%d,0,0,%d,0", aid, z))                   // accepted: exactly at 2·mb (+ spare fees)
		one(g.ph("pay", z) + fmt.Sprintf(",%d,1,%d", a, a))                           // close with an asset outstanding
		one(g.ph("axfer", z) + fmt.Sprintf(",%d,0,0,0,%d", aid, a))                   // close the holding out
		one(g.ph("pay", z) + fmt.Sprintf(",%d,0,%d", a, a))                           // close the account: zero record
	}
	return out
}

func (g *lcGen) genesis() string {
	var sb strings.Builder
	sb.WriteString("reset proto=")
	if g.r.Chance(25) {
		sb.WriteString("current")
	} else {
		sb.WriteString("future")
	}
	g.spaceCase = (g.profile == "c19" && g.r.Chance(40)) || (g.profile != "c19" && g.r.Chance(8))
	if g.spaceCase {
		fmt.Fprintf(&sb, " maxbytes=%d", g.pick(700, 1500, 1500, 3000))
	}
	mb := uint64(100000)
	var gbal [lcN]uint64
	huge := false
	// band case: one funded NON-PARTICIPATING account (rewards base frozen at 0), a large non-participating pool and a small
	// participating stake, so that the rewards level rises by thousands per round
	g.bandCase = (g.profile == "c21" && g.r.Chance(50)) || (g.profile != "c21" && g.r.Chance(12))
	g.bandAccts = nil
	np := uint64(0)
	if g.bandCase {
		np = g.user()
		g.bandAccts = []uint64{np}
		huge = true
	}
	for id := uint64(1); id <= 6; id++ {
		var bal uint64
		switch g.r.Intn(10) {
		case 0:
			bal = 0
		case 1:
			bal = mb
		case 2:
			bal = mb + uint64(g.r.Intn(3000))
		case 3:
			bal = 999999
		case 4:
			bal = 1000000 + uint64(g.r.Intn(2000000))
		default:
			bal = uint64(5+g.r.Intn(200)) * 1000000
		}
		if g.r.Chance(4) && !huge { // at most one: the total supply must stay below 2^63 for the ledger DB
			bal = 1 << 62
			huge = true
		}
		st, vid, sid, spid, vf, vl, vkd, ie := 0, 0, 0, 0, 0, 0, 0, "0"
		if bal >= mb && g.r.Chance(25) {
			st, vid, sid, spid, vf, vl, vkd = 1, int(10+id), int(20+id), int(30+id), 1, 100+g.r.Intn(5000), 100
			if g.r.Chance(50) {
				ie = "1"
			}
		} else if g.r.Chance(8) {
			st = 2
		}
		if id == np {
			st, vid, sid, spid, vf, vl, vkd, ie = 2, 0, 0, 0, 0, 0, 0, "0"
			bal = uint64(5+g.r.Intn(60))*1000000 + uint64(g.r.Intn(1000000))
		}
		gbal[id] = bal
		fmt.Fprintf(&sb, " A%d=%d,%d,0,0,%s,0,0,0,0,%d,%d,%d,%d,%d,%d", id, st, bal, ie, vid, sid, spid, vf, vl, vkd)
	}
	sink := g.pick(mb, mb+5000, 1000000, 50000000)
	fmt.Fprintf(&sb, " A%d=2,%d,0,0,0,0,0,0,0,0,0,0,0,0,0", lcSink, sink)
	pool := g.pick(mb, 1000000, 1000000000, 500000000000, 50000000000000)
	pst := 2
	if g.r.Chance(10) {
		pst = 0
	}
	if g.bandCase {
		pool, pst = g.pick(1000000000, 500000000000, 500000000000, 2000000000000), 2
	}
	fmt.Fprintf(&sb, " A%d=%d,%d,0,0,0,0,0,0,0,0,0,0,0,0,0", lcPool, pst, pool)
	// genesis assets (ids below the txn counter)
	// (genesis assets are not used: the genesis initialisation registers no creator for them, a state no history reaches)
	na := 0
	for a := 1; a <= na; a++ {
		cr := g.user()
		if gbal[cr] == 0 {
			continue
		}
		total := g.pick(100, 1000, 1000000, ^uint64(0))
		fmt.Fprintf(&sb, " P%d@%d=%d,0,%s,%d,%d,%d,%d", a, cr, total, lcB(g.r.Chance(25)), g.pick(cr, g.user()), g.addrOr0(), g.addrOr0(), g.addrOr0())
		left := total
		for id := uint64(1); id <= 6; id++ {
			if id != cr && gbal[id] > 0 && g.r.Chance(40) { // an account without algos is not stored by the genesis initialisation
				amt := g.pick(0, 1, left/3, left)
				left -= amt
				fmt.Fprintf(&sb, " H%d@%d=%d,%s", a, id, amt, lcB(g.r.Chance(25)))
			}
		}
		fmt.Fprintf(&sb, " H%d@%d=%d,%s", a, cr, left, lcB(g.r.Chance(10)))
	}
	return sb.String()
}

func TestVerifLcore(t *testing.T) {
	logging.Base().SetLevel(logging.Panic)
	out := vh.Open("lcore")
	defer out.Close()
	h := &lcHarness{t: t, spaceObs: true}
	defer h.closeLedger()
	if ops, ok := vh.ReplayOps(); ok {
		for _, op := range ops {
			out.Emit(op, h.exec(op))
		}
		return
	}
	profile := os.Getenv("VERIF_LCORE_PROFILE")
	if profile == "" {
		profile = "c18"
	}
	seed := vh.Seed()
	for _, c := range profile {
		seed = seed*131 + uint64(c)
	}
	g := &lcGen{r: vh.NewRng(seed), profile: profile, h: h, nonce: 0}
	cases := vh.Budget(100, 5000)
	for c := 0; c < cases; c++ {
		op := g.genesis()
		out.Emit(op, h.exec(op))
		blocks := 1 + g.r.Intn(3)
		if g.bandCase {
			blocks = 2 + g.r.Intn(2)
		}
		for b := 0; b < blocks; b++ {
			obs := vh.Catch(func() string { return h.startBlock() })
			if strings.HasPrefix(obs, "PANIC") {
				out.Emit("block ?", obs)
				break
			}
			out.Emit("block "+obs, "ok")
			out.Emit("dump", h.exec("dump"))
			p := h.ev.ConsensusParams()
			g.round, g.minFee, g.minBal, g.level, g.unit = uint64(h.ev.Round()), p.MinFee().Raw, p.MinBalance, h.ev.VerifLcoreRewardsLevel(), p.RewardUnit
			g.okTxns = nil
			g.tAccts, g.tAssets, g.forceN = map[uint64]bool{}, map[uint64]bool{}, 0
			ngroups := 6 + g.r.Intn(18)
			fc := 3 // share of frozen + close-to groups
			if profile == "c22" {
				fc = 16
			}
			tf := 6 // share of touch-then-fail groups
			if profile == "c19" || profile == "c22" {
				tf = 18
			}
			var script []string
			g.bandQ = nil
			g.spaceQ, g.spaceDone = nil, false
			if g.bandCase {
				v0 := h.view()
				if b == 0 {
					// raise the non-participating account's requirement above one reward unit; sometimes a second account
					// goes non-participating by keyreg now (its base freezes at this block's level) and does the same
					script = append(script, g.manyAssets(g.bandAccts[0], 10+g.r.Intn(4)))
					if u := g.funded(v0, 2, 4000000); g.r.Chance(60) && len(u) > 0 && u[0] != g.bandAccts[0] && v0.acct[u[0]].Status == basics.Offline {
						script = append(script, "group "+g.ph("keyreg", u[0])+",0,0,0,0,0,0,1", g.manyAssets(u[0], 10+g.r.Intn(3)))
						g.bandAccts = append(g.bandAccts, u[0])
					}
				}
				accts := append([]uint64{}, g.bandAccts...)
				if u := g.funded(v0, 1, 2000000); len(u) > 0 { // and one participating account with a stale rewards base
					accts = append(accts, u[0])
				}
				for _, a := range accts {
					for _, m := range []string{"p+1", "p", "1", g.pick1("0", "-1")} {
						g.bandQ = append(g.bandQ, [2]string{strconv.FormatUint(a, 10), m})
					}
				}
			} else if ((profile == "c19" || profile == "c22") && g.r.Chance(35)) || g.r.Chance(8) {
				script = g.scriptAliasSetup(h.view())
			} else if profile == "c22" && g.r.Chance(15) {
				script = g.scriptManagerDestroy(h.view())
			} else if (profile == "c22" && g.r.Chance(60)) || (profile != "c22" && g.r.Chance(15)) {
				script = g.scriptAssets(h.view())
			} else if (profile == "c21" && g.r.Chance(60)) || (profile != "c21" && g.r.Chance(10)) {
				script = g.scriptMinBal(h.view())
			}
			total := ngroups + len(script) + len(g.bandQ)
			for i := 0; i < total; i++ {
				v := h.view()
				var op string
				if g.spaceCase && !g.spaceDone && i >= len(script) {
					if used, max := h.ev.VerifLcoreSpace(); max-used < 900 {
						g.spaceDone = true
						if g.r.Chance(65) {
							g.spaceQ = []string{"over1", "overk", "exact", "tiny"}
						} else {
							g.spaceQ = []string{"overk", "under1", "over1", "tiny"}
						}
						total += len(g.spaceQ) + 2
					}
				}
				for op == "" && i >= len(script) && len(g.spaceQ) > 0 {
					m := g.spaceQ[0]
					g.spaceQ = g.spaceQ[1:]
					op = g.genSpace(v, m)
				}
				for op == "" && i >= len(script) && len(g.bandQ) > 0 {
					q := g.bandQ[0]
					g.bandQ = g.bandQ[1:]
					op = g.genBand(v, vh.U(q[0]), q[1])
				}
				switch {
				case op != "":
				case i < len(script):
					op = script[i]
				case g.forceN > 0:
					g.forceN--
					op = g.genTouchFail(v, g.forceAsset)
				case g.r.Chance(fc):
					if op = g.genFrozenClose(v); op == "" {
						op = g.genGroup(v)
					}
				case g.r.Chance(tf):
					op = g.genTouchFail(v, 0)
				default:
					op = g.genGroup(v)
				}
				ctrBefore := h.ev.VerifLcoreCounter()
				res := h.exec(op)
				if strings.HasPrefix(op, "group") {
					out.Emit(op+h.lastSz, res)
				} else {
					out.Emit(op, res)
				}
				if strings.HasPrefix(res, "ok ") && len(op) > 6 {
					g.okTxns = append(g.okTxns, strings.Split(op[6:], ";")...)
					g.noteTouched(op, ctrBefore)
				}
			}
			res := h.exec("endblock")
			out.Emit("endblock", res)
			if !strings.HasPrefix(res, "end ") {
				break
			}
		}
	}
}
