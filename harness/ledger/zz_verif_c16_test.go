//go:build verif

package ledger

// C16 harness. Builds on the C14 infrastructure (vcp*: real block histories, gate-scheduled real ledgers, dumps).
//
// Producer: a real ledger that STORES catchpoints (CatchpointTracking = 2) processes a real history and flushes after
// every block; the real catchpointTracker drives the real catchpointFileWriter (generateCatchpointData →
// FileWriteSPVerificationContext / FileWriteStep → repackCatchpoint) and writes the real catchpoint file with the real
// label. The producer's tracker DB is dumped at every round, so the state at the catchpoint's accounts round is known.
// Consumer: a fresh real ledger + the real CatchpointCatchupAccessor, driven exactly as catchup/catchpointService.go
// does: SetLabel(label) → ResetStagingBalances → ProcessStagingBalances for every tar section (with the size checks of
// ledgerFetcher) → BuildMerkleTrie → VerifyCatchpoint(block at GetCatchupBlockRound, after the service's genesis-hash and
// ContentsMatchHeader checks) → StoreBalancesRound → StoreFirstBlock → StoreBlock for the earlier blocks (each checked
// against its successor's Branch) → CompleteCatchup. The restored ledger's tracker DB dump is compared with the
// producer's; then the remaining blocks are added to the restored ledger and its later labels compared too.
// Tamper stream: the file is decoded with the real types, ONE thing is changed (header field, version, totals, one record
// field, dropped / duplicated / reordered record or chunk, kv edits, split account records, raw byte flips), re-encoded
// with the real encoders and restored the same way.
//
// Emitted lines:
//   case16 seed=<s> n=<n> I=<i> L=<l>                                                          → ok
//   file r=<round> label=<label> bh=<digest> <file text>           honest file                 → accept same label=<label> later=<labels>
//   mut <id> r=<round> label=<label> bh=<digest> <file text>       tampered file               → reject <stage> | accept same | accept DIFF <what>
// <file text> = sections `:: <name> <content>` in tar order (record level; see vc16FileText) for the Lean model.
import (
	"archive/tar"
	"bytes"
	"compress/gzip"
	"context"
	"fmt"
	"path/filepath"
	"sort"
	"strings"
	"testing"

	"github.com/algorand/msgp/msgp"
	"github.com/stretchr/testify/require"

	"github.com/algorand/go-algorand/agreement"
	"github.com/algorand/go-algorand/config"
	"github.com/algorand/go-algorand/crypto"
	"github.com/algorand/go-algorand/data/basics"
	"github.com/algorand/go-algorand/data/bookkeeping"
	"github.com/algorand/go-algorand/ledger/encoded"
	"github.com/algorand/go-algorand/ledger/ledgercore"
	"github.com/algorand/go-algorand/ledger/store/trackerdb"
	"github.com/algorand/go-algorand/protocol"
	"github.com/algorand/go-algorand/zz_verif_tools/vh"
)

type vc16Section struct {
	name string
	data []byte
}

func vc16ReadFile(t *testing.T, path string) []vc16Section {
	var out []vc16Section
	for _, c := range readCatchpointFile(t, path) {
		out = append(out, vc16Section{c.headerName, c.data})
	}
	return out
}

// ---------------------------------------------------------------------------------------------------------------
// the consumer, as catchpointService drives the accessor

type vc16Outcome struct {
	stage string // "" = accepted
	err   error
	l     *Ledger
	dump  *vcpDump // the tracker DB right after finishBalances (what the node adopted), before the ledger reload
}

const vc16MaxChunk = 100 * 1024 * 1024 // catchup.maxCatchpointFileChunkSize

func vc16Restore(t *testing.T, h *vcpHist, label string, file []vc16Section, reload bool) (o vc16Outcome) {
	lcfg := config.GetDefaultLocal()
	lcfg.Archival = true
	lcfg.MaxAcctLookback = 1
	lcfg.CatchpointInterval = h.interval
	lcfg.CatchpointTracking = 1
	log := vcpNewLogger()
	// on disk: with an in-memory (shared cache) database the concurrent staging writers of processStagingBalances
	// fail sporadically with "database table is locked"
	l, err := OpenLedger(log, filepath.Join(t.TempDir(), "cons"), false, h.initState(), lcfg)
	require.NoError(t, err)
	o.l = l
	fail := func(stage string, err error) vc16Outcome {
		o.stage, o.err = stage, err
		return o
	}
	ctx := context.Background()
	acc := MakeCatchpointCatchupAccessor(l, log)
	// processStageInactive
	if err := acc.SetLabel(ctx, label); err != nil {
		return fail("label", err)
	}
	// processStageLedgerDownload / ledgerFetcher.getPeerLedger
	if err := acc.ResetStagingBalances(ctx, true); err != nil {
		return fail("reset", err)
	}
	var progress CatchpointCatchupAccessorProgress
	for _, s := range file {
		if len(s.data) > vc16MaxChunk || len(s.data) < 1 {
			return fail("process", fmt.Errorf("getPeerLedger received a tar header with data size of %d", len(s.data)))
		}
		if err := acc.ProcessStagingBalances(ctx, s.name, s.data, &progress); err != nil {
			return fail("process", err)
		}
	}
	if err := acc.BuildMerkleTrie(ctx, nil); err != nil {
		return fail("trie", err)
	}
	// processStageLatestBlockDownload
	rnd, err := acc.GetCatchupBlockRound(ctx)
	if err != nil {
		return fail("blockround", err)
	}
	if rnd < 1 || int(rnd) > len(h.blocks) {
		return fail("noblock", fmt.Errorf("no block for round %d", rnd))
	}
	blk := h.blocks[rnd-1]
	if blk.GenesisHash() != l.GenesisHash() || !blk.ContentsMatchHeader() {
		return fail("noblock", fmt.Errorf("block does not fit"))
	}
	if err := acc.VerifyCatchpoint(ctx, &blk); err != nil {
		return fail("verify", err)
	}
	if err := acc.StoreBalancesRound(ctx, &blk); err != nil {
		return fail("store", err)
	}
	cert := agreement.Certificate{}
	if err := acc.StoreFirstBlock(ctx, &blk, &cert); err != nil {
		return fail("store", err)
	}
	// processStageBlocksDownload
	top, err := acc.EnsureFirstBlock(ctx)
	if err != nil {
		return fail("store", err)
	}
	prev := &top
	for k := int(top.Round()) - 1; k >= 1; k-- {
		b := h.blocks[k-1]
		if prev.BlockHeader.Branch != b.Hash() {
			return fail("store", fmt.Errorf("block %d does not match its successor", k))
		}
		if err := acc.StoreBlock(ctx, &b, &cert); err != nil {
			return fail("store", err)
		}
		prev = &b
	}
	// processStageSwitch: CompleteCatchup = FinishBlocks(true) ; finishBalances ; reloadLedger — the dump is taken before
	// the reload (the reloaded trackers may flush the replayed blocks)
	if err := acc.FinishBlocks(ctx, true); err != nil {
		return fail("complete-blocks", err)
	}
	if err := acc.(*catchpointCatchupAccessorImpl).finishBalances(ctx); err != nil {
		return fail("complete-balances", err)
	}
	o.dump = vcpDumpLedger(t, l, h.params)
	if !reload {
		return o
	}
	if err := l.reloadLedger(); err != nil {
		return fail("reload", err)
	}
	return o
}

// the real catchpointFileWriter over the ledger's tracker DB as it is now, with a small resources-per-chunk limit (the
// limit is a parameter of makeCatchpointFileWriter; the tracker passes the constant 100000): accounts with more
// resources than that are written as several records with ExpectingMoreEntries set
func vc16WriteSmallChunks(t *testing.T, l *Ledger, params config.ConsensusParams, path string, maxRes int) {
	err := l.trackerDB().Transaction(func(ctx context.Context, tx trackerdb.TransactionScope) error {
		ar, err := tx.MakeAccountsReader()
		if err != nil {
			return err
		}
		rnd, err := ar.AccountsRound()
		if err != nil {
			return err
		}
		w, err := makeCatchpointFileWriter(context.Background(), params, path, tx, maxRes, rnd, 0)
		if err != nil {
			return err
		}
		raw, err := tx.MakeSpVerificationCtxReader().GetAllSPContexts(ctx)
		if err != nil {
			return err
		}
		_, enc := crypto.EncodeAndHash(catchpointStateProofVerificationContext{Data: raw})
		if err := w.FileWriteSPVerificationContext(enc); err != nil {
			return err
		}
		for {
			more, err := w.FileWriteStep(context.Background())
			if err != nil {
				return err
			}
			if !more {
				return nil
			}
		}
	})
	require.NoError(t, err)
}

// ---------------------------------------------------------------------------------------------------------------
// decoded file

type vc16File struct {
	order  []string // section names in tar order; "H" header, "S" sp, "B<i>" balances chunk i, "U<i>" unknown/raw i
	header *CatchpointFileHeader
	sp     *catchpointStateProofVerificationContext
	chunks map[string]*CatchpointSnapshotChunkV6
	raw    map[string]vc16Section // sections kept as raw bytes (unknown names, byte-level mutations)
	names  map[string]string     // tar names
}

func vc16Decode(t *testing.T, secs []vc16Section) *vc16File {
	f := &vc16File{chunks: map[string]*CatchpointSnapshotChunkV6{}, raw: map[string]vc16Section{}, names: map[string]string{}}
	for i, s := range secs {
		switch {
		case s.name == CatchpointContentFileName:
			var hd CatchpointFileHeader
			require.NoError(t, protocol.Decode(s.data, &hd))
			f.header = &hd
			f.order = append(f.order, "H")
			f.names["H"] = s.name
		case s.name == catchpointSPVerificationFileName:
			var sp catchpointStateProofVerificationContext
			require.NoError(t, protocol.Decode(s.data, &sp))
			f.sp = &sp
			f.order = append(f.order, "S")
			f.names["S"] = s.name
		case strings.HasPrefix(s.name, catchpointBalancesFileNamePrefix):
			var c CatchpointSnapshotChunkV6
			require.NoError(t, protocol.Decode(s.data, &c))
			id := fmt.Sprintf("B%d", i)
			f.chunks[id] = &c
			f.order = append(f.order, id)
			f.names[id] = s.name
		default:
			id := fmt.Sprintf("U%d", i)
			f.raw[id] = s
			f.order = append(f.order, id)
		}
	}
	return f
}

func (f *vc16File) clone() *vc16File {
	g := &vc16File{order: append([]string{}, f.order...), chunks: map[string]*CatchpointSnapshotChunkV6{}, raw: map[string]vc16Section{}, names: map[string]string{}}
	if f.header != nil {
		h := *f.header
		g.header = &h
	}
	if f.sp != nil {
		s := catchpointStateProofVerificationContext{Data: append([]ledgercore.StateProofVerificationContext{}, f.sp.Data...)}
		g.sp = &s
	}
	for k, c := range f.chunks {
		n := &CatchpointSnapshotChunkV6{}
		for _, b := range c.Balances {
			nb := b
			nb.AccountData = append(msgp.Raw{}, b.AccountData...)
			if b.Resources != nil {
				nb.Resources = map[uint64]msgp.Raw{}
				for ci, r := range b.Resources {
					nb.Resources[ci] = append(msgp.Raw{}, r...)
				}
			}
			n.Balances = append(n.Balances, nb)
		}
		for _, kv := range c.KVs {
			n.KVs = append(n.KVs, encoded.KVRecordV6{Key: append([]byte{}, kv.Key...), Value: append([]byte{}, kv.Value...)})
		}
		for _, oa := range c.OnlineAccounts {
			no := oa
			no.Data = append(msgp.Raw{}, oa.Data...)
			n.OnlineAccounts = append(n.OnlineAccounts, no)
		}
		for _, p := range c.OnlineRoundParams {
			np := p
			np.Data = append(msgp.Raw{}, p.Data...)
			n.OnlineRoundParams = append(n.OnlineRoundParams, np)
		}
		g.chunks[k] = n
	}
	for k, v := range f.raw {
		g.raw[k] = v
	}
	for k, v := range f.names {
		g.names[k] = v
	}
	return g
}

func (f *vc16File) encode() []vc16Section {
	var out []vc16Section
	for _, id := range f.order {
		switch {
		case id == "H" || strings.HasPrefix(id, "H+"):
			out = append(out, vc16Section{CatchpointContentFileName, protocol.Encode(f.header)})
		case id == "S":
			out = append(out, vc16Section{catchpointSPVerificationFileName, protocol.Encode(f.sp)})
		case strings.HasPrefix(id, "B"):
			base := strings.SplitN(id, "+", 2)[0]
			if r, ok := f.raw[id]; ok {
				out = append(out, r)
			} else {
				out = append(out, vc16Section{f.names[base], protocol.Encode(f.chunks[base])})
			}
		default:
			out = append(out, f.raw[id])
		}
	}
	return out
}

// chunk ids by content kind
func (f *vc16File) chunksWith(kind string) []string {
	var out []string
	for _, id := range f.order {
		c, ok := f.chunks[id]
		if !ok {
			continue
		}
		switch kind {
		case "bal":
			if len(c.Balances) > 0 {
				out = append(out, id)
			}
		case "kv":
			if len(c.KVs) > 0 {
				out = append(out, id)
			}
		case "oa":
			if len(c.OnlineAccounts) > 0 {
				out = append(out, id)
			}
		case "orp":
			if len(c.OnlineRoundParams) > 0 {
				out = append(out, id)
			}
		}
	}
	return out
}

// record-level text of a (possibly tampered) file for the Lean model. Sections that the typed decoders of the
// accessor would not read the same way (raw / unknown) are printed as `U`.
func vc16FileText(secs []vc16Section) string {
	var parts []string
	for _, s := range secs {
		switch {
		case len(s.data) == 0:
			parts = append(parts, ":: Z")
		case s.name == CatchpointContentFileName:
			var hd CatchpointFileHeader
			if err := protocol.Decode(s.data, &hd); err != nil {
				parts = append(parts, ":: X header")
				continue
			}
			parts = append(parts, fmt.Sprintf(":: H ver=%d br=%d totals=%s", hd.Version, hd.BlocksRound, vcpHex(protocol.EncodeReflect(&hd.Totals))))
		case s.name == catchpointSPVerificationFileName:
			var sp catchpointStateProofVerificationContext
			if err := protocol.Decode(s.data, &sp); err != nil {
				parts = append(parts, ":: X sp")
				continue
			}
			parts = append(parts, fmt.Sprintf(":: S %d %s", len(sp.Data), vcpHex(protocol.Encode(&sp))))
		case strings.HasPrefix(s.name, catchpointBalancesFileNamePrefix) && strings.HasSuffix(s.name, catchpointBalancesFileNameSuffix):
			var c CatchpointSnapshotChunkV6
			if err := protocol.Decode(s.data, &c); err != nil {
				parts = append(parts, ":: X chunk")
				continue
			}
			var recs []string
			bad := false
			for _, b := range c.Balances {
				var ad trackerdb.BaseAccountData
				if err := protocol.Decode(b.AccountData, &ad); err != nil {
					bad = true
					break
				}
				more := 0
				if b.ExpectingMoreEntries {
					more = 1
				}
				rec := fmt.Sprintf("A %s %d %d %d %d %d %d %d %s", vcpHex(b.Address[:]), more, ad.UpdateRound, ad.RewardsBase,
					ad.TotalAppParams, ad.TotalAppLocalStates, ad.TotalAssetParams, ad.TotalAssets, vcpHex(b.AccountData))
				cidxs := make([]uint64, 0, len(b.Resources))
				for ci := range b.Resources {
					cidxs = append(cidxs, ci)
				}
				sort.Slice(cidxs, func(i, j int) bool { return cidxs[i] < cidxs[j] })
				for _, ci := range cidxs {
					var rd trackerdb.ResourcesData
					if err := protocol.Decode(b.Resources[ci], &rd); err != nil {
						bad = true
						break
					}
					fl := func(x bool) int {
						if x {
							return 1
						}
						return 0
					}
					rec += fmt.Sprintf(" r %d %d%d%d%d %d %s", ci, fl(rd.IsAsset()), fl(rd.IsApp()), fl(rd.IsOwning()), fl(rd.IsHolding()), rd.UpdateRound, vcpHex(b.Resources[ci]))
				}
				recs = append(recs, rec)
			}
			if bad {
				parts = append(parts, ":: X chunk")
				continue
			}
			for _, kv := range c.KVs {
				recs = append(recs, fmt.Sprintf("K %s %s", vcpHex(kv.Key), vcpHex(kv.Value)))
			}
			for _, oa := range c.OnlineAccounts {
				o := oa
				recs = append(recs, fmt.Sprintf("O %s %d %s", vcpHex(oa.Address[:]), oa.UpdateRound, vcpHex(protocol.Encode(&o))))
			}
			for _, p := range c.OnlineRoundParams {
				q := p
				recs = append(recs, fmt.Sprintf("P %d %s", p.Round, vcpHex(protocol.Encode(&q))))
			}
			parts = append(parts, ":: B "+strings.Join(recs, " ; "))
		default:
			parts = append(parts, ":: U")
		}
	}
	return strings.Join(parts, " ")
}

// ---------------------------------------------------------------------------------------------------------------
// mutations

type vc16Mut struct {
	id    string
	apply func(f *vc16File) bool // false = not applicable to this file
	raw   func(secs []vc16Section) []vc16Section
}

func vc16EditAccount(raw msgp.Raw, edit func(*trackerdb.BaseAccountData)) msgp.Raw {
	var ad trackerdb.BaseAccountData
	if err := protocol.Decode(raw, &ad); err != nil {
		panic(err)
	}
	edit(&ad)
	return protocol.Encode(&ad)
}

func vc16EditResource(raw msgp.Raw, edit func(*trackerdb.ResourcesData)) msgp.Raw {
	var rd trackerdb.ResourcesData
	if err := protocol.Decode(raw, &rd); err != nil {
		panic(err)
	}
	edit(&rd)
	return protocol.Encode(&rd)
}

func vc16Mutations(r *vh.Rng, f0 *vc16File) []vc16Mut {
	var ms []vc16Mut
	add := func(id string, ap func(f *vc16File) bool) { ms = append(ms, vc16Mut{id: id, apply: ap}) }
	bal, kvc, oac, orpc := f0.chunksWith("bal"), f0.chunksWith("kv"), f0.chunksWith("oa"), f0.chunksWith("orp")
	pickBal := func(f *vc16File) (*CatchpointSnapshotChunkV6, int) {
		c := f.chunks[bal[r.Intn(len(bal))]]
		return c, r.Intn(len(c.Balances))
	}
	// ---- header
	for _, v := range []uint64{CatchpointFileVersionV7, CatchpointFileVersionV6, CatchpointFileVersionV5, CatchpointFileVersionV8 + 1} {
		v := v
		add(fmt.Sprintf("hdr-version-%04o", v), func(f *vc16File) bool { f.header.Version = v; return true })
	}
	add("hdr-totals-online-money", func(f *vc16File) bool { f.header.Totals.Online.Money.Raw++; return true })
	add("hdr-totals-offline-money", func(f *vc16File) bool { f.header.Totals.Offline.Money.Raw += 1000; return true })
	add("hdr-totals-rewardslevel", func(f *vc16File) bool { f.header.Totals.RewardsLevel++; return true })
	add("hdr-totals-notpart-units", func(f *vc16File) bool { f.header.Totals.NotParticipating.RewardUnits++; return true })
	add("hdr-blocksround-plus1", func(f *vc16File) bool { f.header.BlocksRound++; return true })
	add("hdr-blocksround-minus1", func(f *vc16File) bool { f.header.BlocksRound--; return true })
	add("hdr-ignored-balancesround", func(f *vc16File) bool { f.header.BalancesRound += 3; return true })
	add("hdr-ignored-counts", func(f *vc16File) bool {
		f.header.TotalAccounts += 5
		f.header.TotalKVs++
		f.header.TotalChunks += 2
		f.header.TotalOnlineAccounts++
		f.header.TotalOnlineRoundParams++
		return true
	})
	add("hdr-ignored-label-digest", func(f *vc16File) bool {
		f.header.Catchpoint = "1#AAAA"
		f.header.BlockHeaderDigest[0] ^= 1
		return true
	})
	add("hdr-dropped", func(f *vc16File) bool { f.order = f.order[1:]; return true })
	add("hdr-duplicated", func(f *vc16File) bool { f.order = append([]string{"H", "H+dup"}, f.order[1:]...); return true })
	add("hdr-after-first-chunk", func(f *vc16File) bool {
		if len(f.order) < 3 {
			return false
		}
		o := append([]string{}, f.order[1:3]...)
		o = append(o, "H")
		f.order = append(o, f.order[3:]...)
		return true
	})
	// ---- state proof verification data
	add("sp-dropped", func(f *vc16File) bool {
		for i, id := range f.order {
			if id == "S" {
				f.order = append(append([]string{}, f.order[:i]...), f.order[i+1:]...)
				return true
			}
		}
		return false
	})
	add("sp-added-context", func(f *vc16File) bool {
		f.sp.Data = append(f.sp.Data, ledgercore.StateProofVerificationContext{LastAttestedRound: 512, OnlineTotalWeight: basics.MicroAlgos{Raw: 7}})
		return true
	})
	// ---- accounts
	if len(bal) > 0 {
		for _, field := range []string{"microalgos", "rewardsbase", "status", "authaddr", "totalboxes", "totalboxbytes", "updateround", "votelast"} {
			field := field
			add("acct-field-"+field, func(f *vc16File) bool {
				c, i := pickBal(f)
				c.Balances[i].AccountData = vc16EditAccount(c.Balances[i].AccountData, func(ad *trackerdb.BaseAccountData) {
					switch field {
					case "microalgos":
						ad.MicroAlgos.Raw += 1_000_000
					case "rewardsbase":
						ad.RewardsBase++
					case "status":
						ad.Status = (ad.Status + 1) % 3
					case "authaddr":
						ad.AuthAddr[5] ^= 0x40
					case "totalboxes":
						ad.TotalBoxes++
					case "totalboxbytes":
						ad.TotalBoxBytes += 3
					case "updateround":
						ad.UpdateRound++
					case "votelast":
						ad.VoteLastValid += 10
					}
				})
				return true
			})
		}
		add("acct-address-bit", func(f *vc16File) bool { c, i := pickBal(f); c.Balances[i].Address[7] ^= 2; return true })
		add("acct-dropped", func(f *vc16File) bool {
			c, i := pickBal(f)
			if len(c.Balances) < 2 {
				return false
			}
			c.Balances = append(c.Balances[:i:i], c.Balances[i+1:]...)
			return true
		})
		add("acct-duplicated", func(f *vc16File) bool {
			c, i := pickBal(f)
			c.Balances = append(c.Balances, c.Balances[i])
			return true
		})
		add("acct-added", func(f *vc16File) bool {
			c, i := pickBal(f)
			nb := c.Balances[i]
			nb.Address[3] ^= 0x11
			nb.Resources = nil
			nb.AccountData = vc16EditAccount(nb.AccountData, func(ad *trackerdb.BaseAccountData) {
				ad.TotalAppParams, ad.TotalAppLocalStates, ad.TotalAssetParams, ad.TotalAssets = 0, 0, 0, 0
			})
			c.Balances = append(c.Balances, nb)
			return true
		})
		add("acct-reordered", func(f *vc16File) bool {
			c, _ := pickBal(f)
			if len(c.Balances) < 2 {
				return false
			}
			for i, j := 0, len(c.Balances)-1; i < j; i, j = i+1, j-1 {
				c.Balances[i], c.Balances[j] = c.Balances[j], c.Balances[i]
			}
			return true
		})
		add("acct-more-flag-set", func(f *vc16File) bool { c, i := pickBal(f); c.Balances[i].ExpectingMoreEntries = true; return true })
		add("acct-more-flag-set-last", func(f *vc16File) bool {
			c := f.chunks[bal[len(bal)-1]]
			c.Balances[len(c.Balances)-1].ExpectingMoreEntries = true
			return true
		})
		// an account presented in two records: [tampered data, no resources, "more entries follow"] then the honest record
		for _, field := range []string{"microalgos", "authaddr", "status"} {
			field := field
			add("acct-split-first-record-tampered-"+field, func(f *vc16File) bool {
				c, i := pickBal(f)
				first := c.Balances[i]
				first.Resources = nil
				first.ExpectingMoreEntries = true
				first.AccountData = vc16EditAccount(first.AccountData, func(ad *trackerdb.BaseAccountData) {
					switch field {
					case "microalgos":
						ad.MicroAlgos.Raw += 777_000_000
					case "authaddr":
						ad.AuthAddr[0] ^= 0x55
					case "status":
						ad.Status = (ad.Status + 1) % 3
					}
				})
				nb := append([]encoded.BalanceRecordV6{}, c.Balances[:i]...)
				nb = append(nb, first)
				nb = append(nb, c.Balances[i:]...)
				c.Balances = nb
				return true
			})
		}
		add("acct-split-honest-benign", func(f *vc16File) bool {
			// honest split of one account over two records (what the writer does for big accounts)
			for _, id := range bal {
				c := f.chunks[id]
				for i, b := range c.Balances {
					if len(b.Resources) >= 2 {
						first, second := b, b
						first.Resources, second.Resources = map[uint64]msgp.Raw{}, map[uint64]msgp.Raw{}
						n := 0
						for ci, rr := range b.Resources {
							if n%2 == 0 {
								first.Resources[ci] = rr
							} else {
								second.Resources[ci] = rr
							}
							n++
						}
						first.ExpectingMoreEntries = true
						nb := append([]encoded.BalanceRecordV6{}, c.Balances[:i]...)
						nb = append(nb, first, second)
						nb = append(nb, c.Balances[i+1:]...)
						c.Balances = nb
						return true
					}
				}
			}
			return false
		})
		// resources
		withRes := func(f *vc16File) (*encoded.BalanceRecordV6, uint64, bool) {
			var cands [][2]int
			for bi, id := range bal {
				for i, b := range f.chunks[id].Balances {
					if len(b.Resources) > 0 {
						cands = append(cands, [2]int{bi, i})
					}
				}
			}
			if len(cands) == 0 {
				return nil, 0, false
			}
			p := cands[r.Intn(len(cands))]
			b := &f.chunks[bal[p[0]]].Balances[p[1]]
			cs := make([]uint64, 0, len(b.Resources))
			for ci := range b.Resources {
				cs = append(cs, ci)
			}
			sort.Slice(cs, func(i, j int) bool { return cs[i] < cs[j] })
			return b, cs[r.Intn(len(cs))], true
		}
		add("res-field-amount", func(f *vc16File) bool {
			b, ci, ok := withRes(f)
			if !ok {
				return false
			}
			b.Resources[ci] = vc16EditResource(b.Resources[ci], func(rd *trackerdb.ResourcesData) {
				if rd.IsAsset() {
					rd.Amount += 5
				} else {
					rd.GlobalStateSchemaNumUint++
				}
			})
			return true
		})
		add("res-field-updateround", func(f *vc16File) bool {
			b, ci, ok := withRes(f)
			if !ok {
				return false
			}
			b.Resources[ci] = vc16EditResource(b.Resources[ci], func(rd *trackerdb.ResourcesData) { rd.UpdateRound++ })
			return true
		})
		add("res-cidx-changed", func(f *vc16File) bool {
			b, ci, ok := withRes(f)
			if !ok {
				return false
			}
			b.Resources[ci+1000] = b.Resources[ci]
			delete(b.Resources, ci)
			return true
		})
		add("res-dropped", func(f *vc16File) bool {
			b, ci, ok := withRes(f)
			if !ok {
				return false
			}
			delete(b.Resources, ci)
			return true
		})
		add("res-dropped-counts-adjusted", func(f *vc16File) bool {
			b, ci, ok := withRes(f)
			if !ok {
				return false
			}
			var rd trackerdb.ResourcesData
			if err := protocol.Decode(b.Resources[ci], &rd); err != nil {
				return false
			}
			delete(b.Resources, ci)
			b.AccountData = vc16EditAccount(b.AccountData, func(ad *trackerdb.BaseAccountData) {
				if rd.IsApp() && rd.IsOwning() {
					ad.TotalAppParams--
				}
				if rd.IsApp() && rd.IsHolding() {
					ad.TotalAppLocalStates--
				}
				if rd.IsAsset() && rd.IsOwning() {
					ad.TotalAssetParams--
				}
				if rd.IsAsset() && rd.IsHolding() {
					ad.TotalAssets--
				}
			})
			return true
		})
		add("res-moved-to-other-account", func(f *vc16File) bool {
			b, ci, ok := withRes(f)
			if !ok {
				return false
			}
			c, i := pickBal(f)
			o := &c.Balances[i]
			if o.Address == b.Address {
				return false
			}
			if o.Resources == nil {
				o.Resources = map[uint64]msgp.Raw{}
			}
			if _, dup := o.Resources[ci]; dup {
				return false
			}
			o.Resources[ci] = b.Resources[ci]
			delete(b.Resources, ci)
			return true
		})
	}
	// ---- kvs
	if len(kvc) > 0 {
		pickKV := func(f *vc16File) (*CatchpointSnapshotChunkV6, int) {
			c := f.chunks[kvc[r.Intn(len(kvc))]]
			return c, r.Intn(len(c.KVs))
		}
		add("kv-value-byte", func(f *vc16File) bool {
			c, i := pickKV(f)
			if len(c.KVs[i].Value) == 0 {
				return false
			}
			c.KVs[i].Value[len(c.KVs[i].Value)-1] ^= 1
			return true
		})
		add("kv-key-byte", func(f *vc16File) bool { c, i := pickKV(f); c.KVs[i].Key[len(c.KVs[i].Key)-1] ^= 1; return true })
		add("kv-key-app-byte", func(f *vc16File) bool { c, i := pickKV(f); c.KVs[i].Key[9] ^= 1; return true })
		add("kv-dropped", func(f *vc16File) bool {
			c, i := pickKV(f)
			if len(c.KVs) < 2 {
				return false
			}
			c.KVs = append(c.KVs[:i:i], c.KVs[i+1:]...)
			return true
		})
		add("kv-duplicated", func(f *vc16File) bool { c, i := pickKV(f); c.KVs = append(c.KVs, c.KVs[i]); return true })
		add("kv-added", func(f *vc16File) bool {
			c, i := pickKV(f)
			k := append(append([]byte{}, c.KVs[i].Key...), 'Z')
			c.KVs = append(c.KVs, encoded.KVRecordV6{Key: k, Value: []byte{1, 2, 3}})
			return true
		})
		add("kv-value-appended", func(f *vc16File) bool { c, i := pickKV(f); c.KVs[i].Value = append(c.KVs[i].Value, 0); return true })
		add("kv-reordered", func(f *vc16File) bool {
			c, _ := pickKV(f)
			if len(c.KVs) < 2 {
				return false
			}
			c.KVs[0], c.KVs[len(c.KVs)-1] = c.KVs[len(c.KVs)-1], c.KVs[0]
			return true
		})
		// the known class: key/value boundary moved by one byte, both directions
		add("kv-boundary-shift-key-to-value", func(f *vc16File) bool {
			c, i := pickKV(f)
			k := c.KVs[i].Key
			if len(k) < 12 {
				return false
			}
			c.KVs[i].Value = append([]byte{k[len(k)-1]}, c.KVs[i].Value...)
			c.KVs[i].Key = k[:len(k)-1]
			return true
		})
		add("kv-boundary-shift-value-to-key", func(f *vc16File) bool {
			c, i := pickKV(f)
			if len(c.KVs[i].Value) < 1 {
				return false
			}
			c.KVs[i].Key = append(append([]byte{}, c.KVs[i].Key...), c.KVs[i].Value[0])
			c.KVs[i].Value = c.KVs[i].Value[1:]
			return true
		})
		add("kv-swap-values", func(f *vc16File) bool {
			c, _ := pickKV(f)
			if len(c.KVs) < 2 || bytes.Equal(c.KVs[0].Value, c.KVs[1].Value) {
				return false
			}
			c.KVs[0].Value, c.KVs[1].Value = c.KVs[1].Value, c.KVs[0].Value
			return true
		})
	}
	// ---- online accounts / online round params
	if len(oac) > 0 {
		pick := func(f *vc16File) (*CatchpointSnapshotChunkV6, int) {
			c := f.chunks[oac[r.Intn(len(oac))]]
			return c, r.Intn(len(c.OnlineAccounts))
		}
		add("oa-field-balance", func(f *vc16File) bool { c, i := pick(f); c.OnlineAccounts[i].NormalizedOnlineBalance++; return true })
		add("oa-field-updround", func(f *vc16File) bool { c, i := pick(f); c.OnlineAccounts[i].UpdateRound += 1; return true })
		add("oa-field-votelast", func(f *vc16File) bool { c, i := pick(f); c.OnlineAccounts[i].VoteLastValid += 1; return true })
		add("oa-field-data-byte", func(f *vc16File) bool {
			c, i := pick(f)
			d := c.OnlineAccounts[i].Data
			if len(d) < 8 {
				return false
			}
			d[len(d)-1] ^= 1
			return true
		})
		add("oa-dropped", func(f *vc16File) bool {
			c, i := pick(f)
			if len(c.OnlineAccounts) < 2 {
				return false
			}
			c.OnlineAccounts = append(c.OnlineAccounts[:i:i], c.OnlineAccounts[i+1:]...)
			return true
		})
		add("oa-duplicated", func(f *vc16File) bool { c, i := pick(f); c.OnlineAccounts = append(c.OnlineAccounts, c.OnlineAccounts[i]); return true })
		add("oa-reordered", func(f *vc16File) bool {
			c, _ := pick(f)
			n := len(c.OnlineAccounts)
			if n < 2 {
				return false
			}
			c.OnlineAccounts[0], c.OnlineAccounts[n-1] = c.OnlineAccounts[n-1], c.OnlineAccounts[0]
			return true
		})
	}
	if len(orpc) > 0 {
		pick := func(f *vc16File) (*CatchpointSnapshotChunkV6, int) {
			c := f.chunks[orpc[r.Intn(len(orpc))]]
			return c, r.Intn(len(c.OnlineRoundParams))
		}
		add("orp-field-round", func(f *vc16File) bool { c, i := pick(f); c.OnlineRoundParams[i].Round += 1000; return true })
		add("orp-field-data-byte", func(f *vc16File) bool {
			c, i := pick(f)
			d := c.OnlineRoundParams[i].Data
			if len(d) < 4 {
				return false
			}
			d[len(d)-1] ^= 1
			return true
		})
		add("orp-dropped", func(f *vc16File) bool {
			c, i := pick(f)
			if len(c.OnlineRoundParams) < 2 {
				return false
			}
			c.OnlineRoundParams = append(c.OnlineRoundParams[:i:i], c.OnlineRoundParams[i+1:]...)
			return true
		})
		add("orp-duplicated", func(f *vc16File) bool {
			c, i := pick(f)
			c.OnlineRoundParams = append(c.OnlineRoundParams, c.OnlineRoundParams[i])
			return true
		})
		add("orp-reordered", func(f *vc16File) bool {
			c, _ := pick(f)
			n := len(c.OnlineRoundParams)
			if n < 2 {
				return false
			}
			c.OnlineRoundParams[0], c.OnlineRoundParams[n-1] = c.OnlineRoundParams[n-1], c.OnlineRoundParams[0]
			return true
		})
	}
	// ---- whole chunks
	chunkIDs := func(f *vc16File) []int {
		var out []int
		for i, id := range f.order {
			if strings.HasPrefix(id, "B") {
				out = append(out, i)
			}
		}
		return out
	}
	for _, kind := range []string{"bal", "kv", "oa", "orp"} {
		kind := kind
		add("chunk-dropped-"+kind, func(f *vc16File) bool {
			ids := f.chunksWith(kind)
			if len(ids) == 0 {
				return false
			}
			id := ids[r.Intn(len(ids))]
			for i, x := range f.order {
				if x == id {
					f.order = append(append([]string{}, f.order[:i]...), f.order[i+1:]...)
					return true
				}
			}
			return false
		})
		add("chunk-duplicated-"+kind, func(f *vc16File) bool {
			ids := f.chunksWith(kind)
			if len(ids) == 0 {
				return false
			}
			f.order = append(f.order, ids[r.Intn(len(ids))]+"+dup")
			return true
		})
		add("chunk-renamed-unknown-"+kind, func(f *vc16File) bool {
			ids := f.chunksWith(kind)
			if len(ids) == 0 {
				return false
			}
			f.names[ids[r.Intn(len(ids))]] = "extra.1.msgpack"
			return true
		})
	}
	add("chunks-reversed", func(f *vc16File) bool {
		ix := chunkIDs(f)
		if len(ix) < 2 {
			return false
		}
		for i, j := 0, len(ix)-1; i < j; i, j = i+1, j-1 {
			f.order[ix[i]], f.order[ix[j]] = f.order[ix[j]], f.order[ix[i]]
		}
		return true
	})
	add("chunk-empty-inserted", func(f *vc16File) bool {
		f.raw["Bempty"] = vc16Section{fmt.Sprintf(catchpointBalancesFileNameTemplate, 99), protocol.Encode(&CatchpointSnapshotChunkV6{})}
		f.order = append(f.order, "Bempty")
		return true
	})
	add("section-unknown-added", func(f *vc16File) bool {
		f.raw["Uextra"] = vc16Section{"notes.txt", []byte("hello")}
		f.order = append(f.order, "Uextra")
		return true
	})
	add("section-zero-size", func(f *vc16File) bool {
		f.raw["Uzero"] = vc16Section{"zero.msgpack", []byte{}}
		f.order = append(f.order, "Uzero")
		return true
	})
	// ---- raw byte flips in the encoded sections
	for i := 0; i < 6; i++ {
		ms = append(ms, vc16Mut{id: fmt.Sprintf("raw-byte-flip-%d", i), raw: func(secs []vc16Section) []vc16Section {
			out := append([]vc16Section{}, secs...)
			si := r.Intn(len(out))
			d := append([]byte{}, out[si].data...)
			d[r.Intn(len(d))] ^= byte(1 << uint(r.Intn(8)))
			out[si].data = d
			return out
		}})
	}
	return ms
}

// ---------------------------------------------------------------------------------------------------------------

func vc16DiffDumps(a, b *vcpDump) string {
	var d []string
	if a.round != b.round {
		d = append(d, fmt.Sprintf("round %d/%d", a.round, b.round))
	}
	if !bytes.Equal(a.totals, b.totals) {
		d = append(d, "totals")
	}
	if a.sp != b.sp {
		d = append(d, "sp")
	}
	if a.oa != b.oa {
		d = append(d, "onlineaccounts")
	}
	if a.orp != b.orp {
		d = append(d, "onlineroundparams")
	}
	keys := map[string]bool{}
	for k := range a.rows {
		keys[k] = true
	}
	for k := range b.rows {
		keys[k] = true
	}
	ks := make([]string, 0, len(keys))
	for k := range keys {
		ks = append(ks, k)
	}
	sort.Strings(ks)
	for _, k := range ks {
		if a.rows[k] != b.rows[k] {
			kind := strings.Fields(k)[0]
			d = append(d, fmt.Sprintf("row[%s] producer{%s} restored{%s}", kind, a.rows[k], b.rows[k]))
		}
	}
	return strings.Join(d, " ; ")
}

func vc16Gz(secs []vc16Section) []byte {
	var buf bytes.Buffer
	gz := gzip.NewWriter(&buf)
	tw := tar.NewWriter(gz)
	for _, s := range secs {
		_ = tw.WriteHeader(&tar.Header{Name: s.name, Mode: 0600, Size: int64(len(s.data))})
		_, _ = tw.Write(s.data)
	}
	tw.Close()
	gz.Close()
	return buf.Bytes()
}

type vc16Case struct {
	seed     uint64
	n        int
	interval uint64
	lookback uint64
	muts     int
	only     string // replay: run only the mutation with this id ("" = all, "-" = none)
}

func (c vc16Case) line() string {
	s := fmt.Sprintf("case16 seed=%d n=%d I=%d L=%d muts=%d", c.seed, c.n, c.interval, c.lookback, c.muts)
	if c.only != "" {
		s += " only=" + c.only
	}
	return s
}

func vc16RunCase(t *testing.T, out *vh.Out, c vc16Case) {
	out.Emit(c.line(), "ok")
	h := vcpMakeHist(t, c.seed, c.n, c.interval, c.lookback, nil)
	acts := map[int]string{}
	for k := 1; k <= c.n; k++ {
		acts[k] = "f"
	}
	// the producer runs a while WITHOUT catchpoint tracking (real restart, commits of account changes) and then with it again:
	// the files it produces afterwards must still be files its own label verifies
	tr := vh.NewRng(c.seed*131 + 7)
	togOff := 3 + tr.Intn(4)
	togOn := togOff + 2 + tr.Intn(4)
	prod := vcpOpenRep(t, h, vcpRepCfg{name: "producer", mal: 1, trk: 2, npp: 116, cache: 9000, onDisk: true, actions: acts})
	defer func() { prod.close() }()
	dumps := map[basics.Round]*vcpDump{0: vcpDumpLedger(t, prod.l, h.params)}
	smallDir := t.TempDir()
	for k, blk := range h.blocks {
		prod.addBlock(blk)
		prod.drain(basics.Round(k + 1))
		if k+1 == togOff {
			prod.reopen(false)
		}
		if k+1 == togOn {
			prod.reopen(true)
		}
		d := vcpDumpLedger(t, prod.l, h.params)
		if _, seen := dumps[d.round]; !seen && (uint64(d.round)+h.lookback)%h.interval == 0 {
			vc16WriteSmallChunks(t, prod.l, h.params, filepath.Join(smallDir, fmt.Sprintf("%d.data", d.round)), 1)
		}
		dumps[d.round] = d
	}
	labels := map[basics.Round]string{}
	var rounds []basics.Round
	for _, lb := range prod.log.take() {
		rnd, _, err := ledgercore.ParseCatchpointLabel(lb)
		require.NoError(t, err)
		labels[rnd] = lb
		rounds = append(rounds, rnd)
	}
	require.NotEmpty(t, rounds, "the producer created no catchpoint")
	r := vh.NewRng(c.seed*31 + 16)
	// the catchpoint to work with: one whose accounts round lies after the period without tracking, with later catchpoints
	// after it when possible
	var after []basics.Round
	for _, x := range rounds {
		if uint64(x) > uint64(togOn)+h.lookback {
			after = append(after, x)
		}
	}
	require.NotEmpty(t, after, "no catchpoint after the period without tracking (%d..%d): %v", togOff, togOn, rounds)
	rnd := after[r.Intn((len(after)+1)/2)]
	t.Logf("producer without tracking during rounds %d..%d; catchpoints %v; using %d", togOff, togOn, rounds, rnd)
	label := labels[rnd]
	path := filepath.Join(prod.dir, "led", trackerdb.CatchpointDirName, trackerdb.MakeCatchpointFilePath(rnd))
	secs := vc16ReadFile(t, path)
	want := dumps[rnd-basics.Round(h.lookback)]
	require.NotNil(t, want)
	bh := h.blocks[rnd-1].Digest()
	pre := fmt.Sprintf("r=%d label=%s bh=%s ", rnd, strings.Replace(label, "#", ":", 1), vcpHex(bh[:]))

	// honest round trip, completed, then the restored ledger keeps going
	o := vc16Restore(t, h, label, secs, true)
	res := "reject " + o.stage
	if o.stage == "" {
		if diff := vc16DiffDumps(want, o.dump); diff != "" {
			res = "accept DIFF " + diff
		} else {
			res = "accept same"
		}
		// later labels of the restored ledger
		rp := &vcpRep{t: t, h: h, cfg: vcpRepCfg{mal: 1, npp: 116, cache: 9000}, l: o.l, log: o.l.log.(*vcpLogger)}
		rp.installGate()
		for k := int(rnd) + 1; k <= c.n; k++ {
			rp.addBlock(h.blocks[k-1])
			rp.drain(basics.Round(k))
		}
		var later, wantLater []string
		for _, lb := range rp.log.take() {
			later = append(later, strings.Replace(lb, "#", ":", 1))
		}
		for _, x := range rounds {
			if x >= rnd+basics.Round(h.interval) {
				wantLater = append(wantLater, strings.Replace(labels[x], "#", ":", 1))
			}
		}
		res += " later=" + strings.Join(later, ",")
		if strings.Join(later, ",") != strings.Join(wantLater, ",") {
			res += " LATER-DIFF producer=" + strings.Join(wantLater, ",")
		}
	} else {
		t.Logf("honest file rejected at %s: %v", o.stage, o.err)
	}
	o.l.Close()
	out.Emit("file "+pre+vc16FileText(secs), res)

	if c.only == "-" {
		return
	}
	f0 := vc16Decode(t, secs)
	muts := vc16Mutations(r, f0)
	// the same state written by the real writer with 1 resource per record: genuinely split accounts
	small := []vc16Section{secs[0]}
	nsplit := 0
	for _, c := range readCatchpointDataFile(t, filepath.Join(smallDir, fmt.Sprintf("%d.data", uint64(rnd)-h.lookback))) {
		small = append(small, vc16Section{c.headerName, c.data})
	}
	for _, id := range vc16Decode(t, small).chunksWith("bal") {
		for _, b := range vc16Decode(t, small).chunks[id].Balances {
			if b.ExpectingMoreEntries {
				nsplit++
			}
		}
	}
	t.Logf("small-chunk file: %d sections, %d continuation records", len(small), nsplit)
	muts = append([]vc16Mut{{id: fmt.Sprintf("honest-writer-1-resource-per-record-%dsplit", nsplit), raw: func([]vc16Section) []vc16Section { return small }}}, muts...)
	stages := map[string]int{}
	done := 0
	for _, m := range muts {
		if c.only != "" && m.id != c.only {
			// keep the random stream aligned with the recorded run: the mutation still draws its choices
			if m.raw != nil {
				m.raw(secs)
			} else {
				m.apply(f0.clone())
			}
			continue
		}
		var msecs []vc16Section
		if m.raw != nil {
			msecs = m.raw(secs)
		} else {
			f := f0.clone()
			if !m.apply(f) {
				continue
			}
			msecs = f.encode()
		}
		if bytes.Equal(vc16Gz(msecs), vc16Gz(secs)) {
			continue // nothing changed
		}
		if c.muts > 0 && done >= c.muts && c.only == "" {
			break
		}
		done++
		res := vh.Catch(func() string {
			o := vc16Restore(t, h, label, msecs, false)
			defer o.l.Close()
			if o.dump == nil {
				stages[o.stage]++
				t.Logf("mut %s: rejected at %s: %v", m.id, o.stage, o.err)
				return "reject " + o.stage
			}
			// verification passed and the staged balances were applied: look at what the node adopted
			post := ""
			if o.stage != "" {
				post = " then-" + o.stage + "-failed"
			}
			if diff := vc16DiffDumps(want, o.dump); diff != "" {
				stages["ACCEPT-DIFF"]++
				return "accept DIFF" + post + " " + diff
			}
			stages["accept-same"]++
			return "accept same" + post
		})
		out.Emit("mut "+m.id+" "+pre+vc16FileText(msecs), res)
	}
	t.Logf("case16 seed=%d catchpoint %d: %d mutations, outcomes %v", c.seed, rnd, done, stages)
}

func vc16ParseCase(op string) (c vc16Case, ok bool) {
	f := strings.Fields(op)
	if len(f) < 2 || f[0] != "case16" {
		return c, false
	}
	for _, x := range f[1:] {
		kv := strings.SplitN(x, "=", 2)
		if len(kv) != 2 {
			continue
		}
		if kv[0] == "only" {
			c.only = kv[1]
			continue
		}
		v := vh.U(kv[1])
		switch kv[0] {
		case "seed":
			c.seed = v
		case "n":
			c.n = int(v)
		case "I":
			c.interval = v
		case "L":
			c.lookback = v
		case "muts":
			c.muts = int(v)
		}
	}
	return c, c.n > 0 && c.interval > 0 && c.lookback > 0
}

func vc16Generate() []vc16Case {
	r := vh.NewRng(vh.Seed() + 1600)
	n := vh.Budget(1, 14)
	var cs []vc16Case
	for i := 0; i < n; i++ {
		interval := uint64(4 + r.Intn(5))
		lookback := uint64(2 + r.Intn(9))
		cs = append(cs, vc16Case{seed: r.U64() % 1_000_000, n: int(4*interval) + 8 + int(lookback) + r.Intn(6), interval: interval, lookback: lookback})
	}
	return cs
}

func TestVerifC16(t *testing.T) {
	t.Chdir(t.TempDir())
	var cases []vc16Case
	if ops, replay := vh.ReplayOps(); replay {
		for _, op := range ops {
			if c, ok := vc16ParseCase(op); ok {
				cases = append(cases, c)
			}
		}
	} else {
		cases = vc16Generate()
	}
	out := vh.Open("c16")
	defer out.Close()
	for i, c := range cases {
		ok := t.Run(fmt.Sprintf("case%dx", i), func(t *testing.T) { vc16RunCase(t, out, c) })
		if !ok {
			out.Emit(fmt.Sprintf("file FAILED-%d", i), "FAILED (see test log)")
		}
	}
	t.Logf("c16: %d lines", out.N)
}

var _ = bookkeeping.Block{}
var _ = crypto.Digest{}
