//go:build verif

package ledger

// C18 block-level harness — "Blocks neither create nor destroy Algos", the WHOLE block (model lean/AlgoVerif/Model/BlockMoney.lean,
// theorems lean/AlgoVerif/Props/C18Block.lean, driver `c18b`, monitor checks/c18b_monitor.py).
//
// A real Ledger is created from a generated genesis with a FUNDED rewards pool (the rewards level moves every round), a funded
// fee sink, online / offline / non-participating accounts, some incentive-eligible, some with voting keys that expire within the
// history.  For every block: a real BlockEvaluator is started (eval.StartEvaluator, Generate+Validate: the rewards withdrawal
// really happens), random valid / invalid transaction groups of the LedgerCore generator are fed to the real
// eval.TransactionGroup, the block is produced as the node produces it (GenerateBlock(participating) → UnfinishedBlock.FinishBlock
// (seed, proposer, eligible): payouts with a real, incentive-eligible proposer, real expired / absent lists), validated with the
// real Ledger.Validate and added with AddValidatedBlock.  Printed per block, from the REAL ledger / evaluator only:
//   Σ over ALL accounts of balance + pending rewards at the previous level BEFORE the block (ledger at round−1),
//   the same sum at the block's level right after StartEvaluator, the pool debit, prevTotals.RewardUnits(), the level step,
//   after every group the whole account dump, and after the block the sum over the ledger at the new round together with the
//   fee-sink debit, the proposer credit, the header's payout and AccountTotals.All().
//
// Universe and transaction grammar: those of zz_verif_lcore_test.go (ids 0..9; 7 = fee sink, 8 = rewards pool).
// Op grammar:
//   reset proto=<future|current|fast|v39> <A..>                fresh ledger                                              → ok
//   block <consts> plevel=<prev level> tot=<onM,onU,offM,offU,npM,npU> poolmin= pct= maxexp= maxabs= bonus= payset=0 fees=0 ctr=<c>
//         <A tokens of the ledger at round−1> <C/P/H tokens>   (observed; compared on replay)
//        → ok pre=<Σ old level> post=<Σ new level after start> debit=<pool debit> units=<RewardUnits()> dl=<level step> chain=<Σ after previous block|-> | <dump>
//   group t;t;…                                                → <class>[@i] | <dump>
//   gen prp=<id> elig=<0|1>                                    GenerateBlock([prp]) + FinishBlock                        → gen fees=<FeesCollected> maxpayout=<proposerPayout()>
//   end exp=<ids|-> abs=<ids|-> prp=<id> payout=<P> fees=<F> bonus=<B>     (the finished header's fields, observed; compared on replay)
//        Validate + AddValidatedBlock                          → end payset=N ctr=C all=<Totals.All()> pre= post=<Σ ledger at the new round> level= unit= sinkdebit= prpcredit= | A0=… A9=…

import (
	"encoding/binary"
	"fmt"
	"math/big"
	"sort"
	"strconv"
	"strings"
	"testing"
	"time"

	"github.com/algorand/go-algorand/agreement"
	"github.com/algorand/go-algorand/config"
	"github.com/algorand/go-algorand/data/basics"
	"github.com/algorand/go-algorand/data/bookkeeping"
	"github.com/algorand/go-algorand/data/committee"
	"github.com/algorand/go-algorand/data/transactions/logic"
	"github.com/algorand/go-algorand/ledger/eval"
	"github.com/algorand/go-algorand/ledger/ledgercore"
	"github.com/algorand/go-algorand/logging"
	"github.com/algorand/go-algorand/protocol"
	"github.com/algorand/go-algorand/zz_verif_tools/vh"
)

var c18bProtos = map[string]protocol.ConsensusVersion{
	"future": protocol.ConsensusFuture, "current": protocol.ConsensusCurrentVersion, "fast": c20Fast, "v39": protocol.ConsensusV39,
}

type c18bH struct {
	lcHarness
	blk     bookkeeping.Block
	haveBlk bool
	pre     *big.Int // Σ at the start of the running block (previous level, ledger at round−1)
	chain   string   // Σ after the previous block of this case
	level   uint64
	unit    uint64
}

func c18bIDs(as []basics.Address, sorted bool) string {
	if len(as) == 0 {
		return "-"
	}
	var ids []string
	for _, a := range as {
		ids = append(ids, lcAddrID(a))
	}
	if sorted {
		sort.Strings(ids)
	}
	return strings.Join(ids, ",")
}

// balance with pending rewards at `level`, exact
func c18bWP(d ledgercore.AccountData, unit, level uint64) *big.Int {
	b := new(big.Int).SetUint64(d.MicroAlgos.Raw)
	if d.Status == basics.NotParticipating || unit == 0 {
		return b
	}
	if level < d.RewardsBase {
		return b // never: reported through the dump
	}
	u := new(big.Int).SetUint64(d.MicroAlgos.Raw / unit)
	u.Mul(u, new(big.Int).SetUint64(level-d.RewardsBase))
	return b.Add(b, u)
}

func (h *c18bH) reset(op string) string {
	h.closeLedger()
	h.known = nil
	h.haveBlk = false
	h.chain = "-"
	c20Init()
	f := strings.Fields(op)
	cv := protocol.ConsensusFuture
	accts := make(map[basics.Address]basics.AccountData)
	for _, tok := range f[1:] {
		k, v := lcFields(tok)
		switch {
		case k == "proto":
			p, ok := c18bProtos[v[0]]
			if !ok {
				return "bad-op"
			}
			cv = p
		case k[0] == 'A' && len(v) >= 15:
			id := vh.U(k[1:])
			ad := basics.AccountData{Status: basics.Status(vh.U(v[0])), MicroAlgos: basics.MicroAlgos{Raw: vh.U(v[1])}}
			ad.IncentiveEligible = v[4] == "1"
			ad.VoteID = lcKey32(vh.U(v[9]))
			ad.SelectionID = lcKey32(vh.U(v[10]))
			ad.StateProofID = lcKey64(vh.U(v[11]))
			ad.VoteFirstValid = basics.Round(vh.U(v[12]))
			ad.VoteLastValid = basics.Round(vh.U(v[13]))
			ad.VoteKeyDilution = vh.U(v[14])
			accts[lcAddr(id)] = ad
		}
	}
	bal := bookkeeping.MakeTimestampedGenesisBalances(accts, lcAddr(lcSink), lcAddr(lcPool), 1700000000)
	h.cases++
	binary.BigEndian.PutUint64(h.genHash[0:8], uint64(h.cases))
	h.genHash[31] = 0x18
	cfg := config.GetDefaultLocal()
	cfg.TxPoolSize, cfg.VerifiedTranscationsCacheSize = 1000, 1000
	h.l = newSimpleLedgerFull(h.t, bal, cv, h.genHash, cfg)
	return "ok"
}

// sumAt: Σ over the universe of the ledger's accounts of round rnd, pending rewards at `level`
// (The in-memory tracker DB runs sqlite in shared-cache mode: a read racing with the asynchronous tracker commit can fail with
// "database table is locked" — an artefact of the test DB, not of the evaluator.  The harness waits for the commit in flight
// and retries such a read.)
func (h *c18bH) sumAt(rnd basics.Round, unit, level uint64) (*big.Int, [lcN]ledgercore.AccountData, error) {
	var ds [lcN]ledgercore.AccountData
	s := new(big.Int)
	for id := uint64(0); id < lcN; id++ {
		var d ledgercore.AccountData
		var err error
		for try := 0; try < 50; try++ {
			h.l.trackers.waitAccountsWriting()
			d, _, err = h.l.LookupWithoutRewards(rnd, lcAddr(id))
			if err == nil || !strings.Contains(err.Error(), "locked") {
				break
			}
			time.Sleep(2 * time.Millisecond)
		}
		if err != nil {
			return nil, ds, err
		}
		ds[id] = d
		s.Add(s, c18bWP(d, unit, level))
	}
	return s, ds, nil
}

// startBlock starts the producing evaluator of the next round; returns (op payload, result)
func (h *c18bH) startBlock() (string, string) {
	rnd := h.l.Latest()
	prev, err := h.l.BlockHdr(rnd)
	if err != nil {
		return "?", "start-error hdr"
	}
	next := bookkeeping.MakeBlock(prev).BlockHeader
	next.TimeStamp = prev.TimeStamp + 1
	_, totals, err := h.l.LatestTotals()
	if err != nil {
		return "?", "start-error totals"
	}
	prevProto := config.Consensus[prev.CurrentProtocol]
	preSum, pre, err := h.sumAt(rnd, prevProto.RewardUnit, prev.RewardsLevel)
	if err != nil {
		return "?", "start-error lookup"
	}
	h.haveBlk = false
	h.ev, err = eval.StartEvaluator(h.l, next, eval.EvaluatorOptions{Generate: true, Validate: true, Tracer: logic.EvalErrorDetailsTracer{}})
	p := config.Consensus[next.CurrentProtocol]
	r := p.BalanceRequirements()
	level := uint64(0)
	sink, pool := next.FeeSink, next.RewardsPool
	if err == nil {
		level = h.ev.VerifLcoreRewardsLevel()
		sink, pool = h.ev.VerifLcoreSpecials()
	}
	var sb strings.Builder
	fmt.Fprintf(&sb, "rnd=%d level=%d unit=%d minfee=%d reqs=%d,%d,%d,%d,%d,%d,%d,%d maxmb=%d life=%d maxgrp=%d maxassets=%d maxdec=%d unfunded=%s payouts=%s goonline=%d lookback=%d coh=%s spchk=%s nonpart=%s maxkv=%d sink=%s pool=%s sp=%d ",
		uint64(next.Round), level, p.RewardUnit, p.MinFee().Raw,
		r.MinBalance, r.AppFlatParamsMinBalance, r.AppFlatOptInMinBalance, r.BoxFlatMinBalance, r.BoxByteMinBalance, r.SchemaMinBalancePerEntry, r.SchemaUintMinBalance, r.SchemaBytesMinBalance,
		p.MaximumMinimumBalance, p.MaxTxnLife, p.MaxTxGroupSize, p.MaxAssetsPerAccount, p.MaxAssetDecimals, lcB(p.UnfundedSenders), lcB(p.Payouts.Enabled), p.Payouts.GoOnlineFee,
		uint64(agreement.BalanceLookback(p)), lcB(p.EnableKeyregCoherencyCheck), lcB(p.EnableStateProofKeyregCheck), lcB(p.SupportBecomeNonParticipatingTransactions), p.MaxKeyregValidPeriod,
		lcAddrID(sink), lcAddrID(pool), lcSP)
	fmt.Fprintf(&sb, "plevel=%d tot=%d,%d,%d,%d,%d,%d poolmin=%d pct=%d maxexp=%d maxabs=%d bonus=%d ",
		prev.RewardsLevel, totals.Online.Money.Raw, totals.Online.RewardUnits, totals.Offline.Money.Raw, totals.Offline.RewardUnits,
		totals.NotParticipating.Money.Raw, totals.NotParticipating.RewardUnits, p.MinBalance, p.Payouts.Percent,
		p.MaxProposedExpiredOnlineAccounts, p.Payouts.MaxMarkAbsent, next.Bonus.Raw)
	if err != nil {
		h.ev = nil
		fmt.Fprintf(&sb, "payset=0 fees=0 ctr=%d", prev.TxnCounter)
		for id := uint64(0); id < lcN; id++ {
			sb.WriteByte(' ')
			sb.WriteString(c20AcctTok(strconv.FormatUint(id, 10), pre[id]))
		}
		return sb.String(), "start-error " + strings.ReplaceAll(c20Short(err.Error()), " ", "_")
	}
	// the state at round−1: accounts from the ledger, assets as the fresh evaluator sees them (nothing written yet)
	dump := h.dump()
	first := true
	for _, tok := range strings.Fields(dump) {
		if tok[0] == 'A' {
			if first {
				first = false
				for id := uint64(0); id < lcN; id++ {
					sb.WriteString(c20AcctTok(strconv.FormatUint(id, 10), pre[id]))
					sb.WriteByte(' ')
				}
			}
			continue
		}
		sb.WriteString(tok)
		sb.WriteByte(' ')
	}
	opPayload := strings.TrimSpace(sb.String())
	// after StartEvaluator: every account through the evaluator, pending rewards at the NEW level
	post := new(big.Int)
	var poolNow ledgercore.AccountData
	for id := uint64(0); id < lcN; id++ {
		d, lerr := h.ev.VerifLcoreLookup(lcAddr(id))
		if lerr != nil {
			return opPayload, "start-error evlookup"
		}
		if id == lcPool {
			poolNow = d
		}
		post.Add(post, c18bWP(d, p.RewardUnit, level))
	}
	debit := new(big.Int).Sub(c18bWP(pre[lcPool], p.RewardUnit, level), c18bWP(poolNow, p.RewardUnit, level))
	h.pre, h.level, h.unit = preSum, level, p.RewardUnit
	return opPayload, fmt.Sprintf("ok pre=%s post=%s debit=%s units=%d dl=%d chain=%s | %s", preSum, post, debit, totals.RewardUnits(), level-prev.RewardsLevel, h.chain, dump)
}

func (h *c18bH) gen(op string) string {
	var prp uint64
	elig := false
	for _, tok := range strings.Fields(op)[1:] {
		k, v := lcFields(tok)
		switch k {
		case "prp":
			prp = vh.U(v[0])
		case "elig":
			elig = v[0] == "1"
		}
	}
	prpAddr := lcAddr(prp)
	ub, err := h.ev.GenerateBlock([]basics.Address{prpAddr})
	if err != nil {
		h.ev = nil
		return "gen-error " + strings.ReplaceAll(c20Short(err.Error()), " ", "_")
	}
	h.blk = ub.FinishBlock(committee.Seed(prpAddr), prpAddr, elig)
	h.haveBlk = true
	return fmt.Sprintf("gen fees=%d maxpayout=%d", h.blk.FeesCollected.Raw, ub.UnfinishedBlock().ProposerPayout().Raw)
}

// endOp: the `end` op carrying the finished header's fields
func (h *c18bH) endOp() string {
	b := h.blk
	return fmt.Sprintf("end exp=%s abs=%s prp=%s payout=%d fees=%d bonus=%d",
		c18bIDs(b.ParticipationUpdates.ExpiredParticipationAccounts, false), c18bIDs(b.ParticipationUpdates.AbsentParticipationAccounts, false),
		lcAddrID(b.Proposer()), b.ProposerPayout().Raw, b.FeesCollected.Raw, b.Bonus.Raw)
}

func c18bSortedIDs(s string) string {
	if s == "-" {
		return s
	}
	x := strings.Split(s, ",")
	sort.Strings(x)
	return strings.Join(x, ",")
}

func (h *c18bH) end(op string) string {
	if !h.haveBlk || h.ev == nil {
		return "bad-op"
	}
	// on replay the recorded header fields must be those of the block just produced (lists as sets)
	want := strings.Fields(h.endOp())
	got := strings.Fields(op)
	if len(want) != len(got) {
		return "DIVERGED " + h.endOp()
	}
	for i := range want {
		w, g := want[i], got[i]
		if strings.HasPrefix(w, "exp=") || strings.HasPrefix(w, "abs=") {
			w, g = w[:4]+c18bSortedIDs(w[4:]), g[:4]+c18bSortedIDs(g[4:])
		}
		if w != g {
			return "DIVERGED " + h.endOp()
		}
	}
	b := h.blk
	// the fee sink and the proposer as the evaluator leaves them after the last group (pending rewards at the block's level)
	var sink0, prp0 *big.Int
	if d, err := h.ev.VerifLcoreLookup(b.FeeSink); err == nil {
		sink0 = c18bWP(d, h.unit, h.level)
	}
	if d, err := h.ev.VerifLcoreLookup(b.Proposer()); err == nil {
		prp0 = c18bWP(d, h.unit, h.level)
	}
	h.ev = nil
	h.haveBlk = false
	vvb, err := validateWithoutSignatures(h.t, h.l, b)
	if err != nil {
		return "end-error validate:" + strings.ReplaceAll(c20Short(err.Error()), " ", "_")
	}
	if err = h.l.AddValidatedBlock(*vvb, agreement.Certificate{}); err != nil {
		return "end-error add:" + strings.ReplaceAll(c20Short(err.Error()), " ", "_")
	}
	h.l.WaitForCommit(h.l.Latest())
	rnd := h.l.Latest()
	post, ds, err := h.sumAt(rnd, h.unit, h.level)
	if err != nil || sink0 == nil || prp0 == nil {
		return fmt.Sprintf("end-error lookup err=%v sink=%v prp=%v", err, sink0 != nil, prp0 != nil)
	}
	sinkdebit := new(big.Int).Sub(sink0, c18bWP(ds[lcSink], h.unit, h.level))
	prpcredit := new(big.Int)
	if id, perr := strconv.ParseUint(lcAddrID(b.Proposer()), 10, 64); perr == nil {
		prpcredit.Sub(c18bWP(ds[id], h.unit, h.level), prp0)
	}
	tot := vvb.Delta().Totals
	var sb strings.Builder
	fmt.Fprintf(&sb, "end payset=%d ctr=%d all=%d pre=%s post=%s level=%d unit=%d sinkdebit=%s prpcredit=%s |",
		len(vvb.Block().Payset), vvb.Block().TxnCounter, tot.All().Raw, h.pre, post, h.level, h.unit, sinkdebit, prpcredit)
	for id := uint64(0); id < lcN; id++ {
		sb.WriteByte(' ')
		sb.WriteString(c20AcctTok(strconv.FormatUint(id, 10), ds[id]))
	}
	h.chain = post.String()
	return sb.String()
}

func (h *c18bH) exec(op string) string {
	return vh.Catch(func() string {
		switch {
		case strings.HasPrefix(op, "reset"):
			return h.reset(op)
		case strings.HasPrefix(op, "block "):
			if h.l == nil {
				return "bad-op"
			}
			obs, res := h.startBlock()
			if obs != strings.TrimPrefix(op, "block ") {
				return "DIVERGED " + obs
			}
			return res
		case h.ev == nil:
			return "bad-op"
		case strings.HasPrefix(op, "group"):
			return h.group(op)
		case op == "dump":
			return h.dump()
		case strings.HasPrefix(op, "gen "):
			return h.gen(op)
		case strings.HasPrefix(op, "end "):
			return h.end(op)
		}
		return "bad-op"
	})
}

// ----------------------------------------------------------------------------------------------- generator

// genesis: rewards active (pool funded far above its minimum so that the level moves every round), fee sink funded (payouts
// possible), several online accounts — incentive-eligible ones, ones whose keys expire in round 1..4 — boundary balances.
func c18bGenesis(r *vh.Rng) string {
	var sb strings.Builder
	sb.WriteString("reset proto=")
	switch x := r.Intn(100); {
	case x < 45:
		sb.WriteString("future")
	case x < 75:
		sb.WriteString("fast")
	case x < 90:
		sb.WriteString("current")
	default:
		sb.WriteString("v39")
	}
	mb := uint64(100000)
	huge := false
	for id := uint64(1); id <= 6; id++ {
		var bal uint64
		switch r.Intn(12) {
		case 0:
			bal = 0
		case 1:
			bal = mb + uint64(r.Intn(3000))
		case 2:
			bal = 999999
		case 3:
			bal = 1000000 + uint64(r.Intn(2000000))
		case 4:
			bal = uint64(30000+r.Intn(100000)) * 1000000 // within the payout-eligible stake range
		default:
			bal = uint64(5+r.Intn(500)) * 1000000
		}
		if r.Chance(2) && !huge {
			bal = 1 << 62
			huge = true
		}
		st, vid, sid, spid, vf, vl, vkd, ie := 0, 0, 0, 0, 0, 0, 0, "0"
		if bal >= mb && r.Chance(55) {
			st, vid, sid, spid, vf, vkd = 1, int(10+id), int(20+id), int(30+id), 1, 100
			if r.Chance(35) {
				vl = 1 + r.Intn(4) // expires inside the history
			} else {
				vl = 100 + r.Intn(5000)
			}
			if r.Chance(60) {
				ie = "1"
			}
		} else if r.Chance(10) {
			st = 2
		}
		fmt.Fprintf(&sb, " A%d=%d,%d,0,0,%s,0,0,0,0,%d,%d,%d,%d,%d,%d", id, st, bal, ie, vid, sid, spid, vf, vl, vkd)
	}
	sinks := []uint64{mb, mb + 5000, 1000000, 50000000, 2000000000}
	fmt.Fprintf(&sb, " A%d=2,%d,0,0,0,0,0,0,0,0,0,0,0,0,0", lcSink, sinks[r.Intn(len(sinks))])
	pools := []uint64{mb, 1000000000, 500000000000, 50000000000000, 50000000000000, 900000000000000, 900000000000000, 900000000000000}
	pst := 2
	if r.Chance(10) {
		pst = 0
	}
	fmt.Fprintf(&sb, " A%d=%d,%d,0,0,0,0,0,0,0,0,0,0,0,0,0", lcPool, pst, pools[r.Intn(len(pools))])
	return sb.String()
}

// proposer: mostly an online incentive-eligible account holding Algos, sometimes any account, the fee sink, or a closed one
func c18bProposer(r *vh.Rng, v *lcView, quiet bool) (uint64, bool) {
	var good []uint64
	for id := uint64(1); id <= 6; id++ {
		if v.acct[id].Status == basics.Online && v.acct[id].IncentiveEligible && v.acct[id].MicroAlgos.Raw > 0 {
			good = append(good, id)
		}
	}
	prp := uint64(1 + r.Intn(6))
	lim := 60
	if quiet {
		lim = 15 // leave the eligible accounts unseen until the challenge round: they become absent
	}
	switch x := r.Intn(100); {
	case x < lim && len(good) > 0:
		prp = good[r.Intn(len(good))]
	case x < 70:
		prp = lcSink
	}
	return prp, r.Chance(85)
}

func TestVerifC18Block(t *testing.T) {
	t.Chdir(t.TempDir())
	logging.Base().SetLevel(logging.Panic)
	out := vh.Open("c18b")
	defer out.Close()
	h := &c18bH{lcHarness: lcHarness{t: t}}
	defer h.closeLedger()
	if ops, ok := vh.ReplayOps(); ok {
		for _, op := range ops {
			out.Emit(op, h.exec(op))
		}
		return
	}
	r := vh.NewRng(vh.Seed()*131 + 0x18b)
	g := &lcGen{r: r, profile: "c18", h: &h.lcHarness}
	cases := vh.Budget(40, 1500)
	for c := 0; c < cases; c++ {
		op := c18bGenesis(r)
		out.Emit(op, h.exec(op))
		blocks := 2 + r.Intn(4)
		if strings.Contains(op, "proto=fast") {
			blocks = 5 + r.Intn(4) // the absentee challenge of the fast protocol becomes active in rounds 5 and 8
		}
		for b := 0; b < blocks; b++ {
			var obs, res string
			if pan := vh.Catch(func() string { obs, res = h.startBlock(); return "" }); pan != "" {
				out.Emit("block ?", pan)
				break
			}
			out.Emit("block "+obs, res)
			if !strings.HasPrefix(res, "ok ") {
				break
			}
			p := h.ev.ConsensusParams()
			g.round, g.minFee, g.minBal, g.level, g.unit = uint64(h.ev.Round()), p.MinFee().Raw, p.MinBalance, h.ev.VerifLcoreRewardsLevel(), p.RewardUnit
			g.okTxns = nil
			g.tAccts, g.tAssets, g.forceN = map[uint64]bool{}, map[uint64]bool{}, 0
			ngroups := 2 + r.Intn(9)
			for i := 0; i < ngroups; i++ {
				v := h.view()
				var gop string
				if r.Chance(6) {
					gop = g.genTouchFail(v, 0)
				} else {
					gop = g.genGroup(v)
				}
				ctrBefore := h.ev.VerifLcoreCounter()
				gres := h.exec(gop)
				out.Emit(gop, gres)
				if strings.HasPrefix(gres, "ok ") && len(gop) > 6 {
					g.okTxns = append(g.okTxns, strings.Split(gop[6:], ";")...)
					g.noteTouched(gop, ctrBefore)
				}
			}
			prp, elig := c18bProposer(r, h.view(), strings.Contains(op, "proto=fast") && (g.round <= 5 || g.round == 8))
			gen := fmt.Sprintf("gen prp=%d elig=%s", prp, lcB(elig))
			gres := h.exec(gen)
			out.Emit(gen, gres)
			if !strings.HasPrefix(gres, "gen ") {
				break
			}
			eop := h.endOp()
			eres := h.exec(eop)
			out.Emit(eop, eres)
			if !strings.HasPrefix(eres, "end ") {
				break
			}
		}
	}
}
