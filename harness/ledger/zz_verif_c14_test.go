//go:build verif

package ledger

// C14 harness (and the catchpoint infrastructure shared with C16; identifiers vcp* / vc14*).
//
// ONE history of REAL blocks (real transactions evaluated by the real BlockEvaluator on a generator ledger: payments,
// account creation / close-out, asset create / opt-in / transfer / close-out / destroy, key registration on/off line,
// box put / delete of a real app) is replayed with AddBlock on 4–6 REAL ledgers (`*Ledger`, all real trackers) that
// differ in
//   * flush schedule: the harness owns the schedule — a harness-only gate tracker at the head of the tracker list
//     answers produceCommittingTask with nil while closed, so the automatic trackerRegistry.committedUpTo calls of the
//     block queue schedule nothing; a flush is the real committedUpTo(rnd) with the gate open (as the package's
//     testCatchpointFlushRound does), so commit ranges that SPAN a first-stage round are produced deterministically;
//   * MaxAcctLookback, CatchpointTracking (labels only / files), trie configuration (TrieMemoryConfig: nodes per
//     page, cached nodes);
//   * restarts (reloadLedger: trackers closed, re-created, loadFromDisk, recoverFromCrash, replay) and crashes: an
//     on-disk ledger whose files are copied from the gate's postCommitUnlocked callback — i.e. after the commit
//     transaction and BEFORE the catchpoint tracker's finishFirstStage / finishCatchpoint — and reopened from the copy
//     (recoverFromCrash has to complete or delete the unfinished records).
// Every label a ledger creates is captured from the tracker's own log call in createCatchpoint.
//
// Emitted lines (one case = everything from a `case` line to the next):
//   case seed=<s> n=<rounds> I=<interval> L=<lookback> ver=<label version> reps=<n>     → ok
//   gen | <row> | <row> …                         state before round 1 (reference ledger dump)      → ok <rows>
//   rnd <k> bh=<block digest> totals=<hex> sp=<hex> oa=<hex> orp=<hex> | +<row> | -<key> …
//                                                 block k: digest, the row changes it caused, and the totals /
//                                                 verification hashes of the state after it     → ok <rows>
//   run <name> mal=<MaxAcctLookback> cfg=<text> ev=<events>   events: b (block added) c<t> (commit requested up to
//                                                 t, post-commit work done) X<t> (commit up to t, crash before the
//                                                 post-commit work, recovery) r (restart) d / e (restart with catchpoint
//                                                 tracking disabled / enabled again); the commit that
//                                                 trackerRegistry.replay performs itself at the end of a (re)load is
//                                                 recorded as a c<t> event after the r / X
//                                                 → labels=<round>:<label>,…   every label the ledger created, in order
// rows:  A <addr> <updateRound> <rewardsBase> <enc> | R <a|p> <addr> <cidx> <updateRound> <enc> | K <key> <value>
// keys:  A <addr> | R <addr> <cidx> | K <key>
// The reference ledger flushes after every block, so its tracker DB passes through every round; the dump is read
// with the iterators the catchpoint writer itself uses.
import (
	"context"
	"encoding/hex"
	"fmt"
	"io"
	"os"
	"path/filepath"
	"sort"
	"strconv"
	"strings"
	"sync"
	"testing"
	"time"

	"github.com/stretchr/testify/require"

	"github.com/algorand/go-algorand/agreement"
	"github.com/algorand/go-algorand/config"
	"github.com/algorand/go-algorand/crypto"
	"github.com/algorand/go-algorand/data/basics"
	"github.com/algorand/go-algorand/data/bookkeeping"
	"github.com/algorand/go-algorand/data/transactions"
	"github.com/algorand/go-algorand/data/txntest"
	"github.com/algorand/go-algorand/ledger/eval"
	"github.com/algorand/go-algorand/ledger/ledgercore"
	"github.com/algorand/go-algorand/ledger/store/trackerdb"
	ledgertesting "github.com/algorand/go-algorand/ledger/testing"
	"github.com/algorand/go-algorand/logging"
	"github.com/algorand/go-algorand/protocol"
	"github.com/algorand/go-algorand/zz_verif_tools/vh"
)

func vcpHex(b []byte) string {
	if len(b) == 0 {
		return "_"
	}
	return hex.EncodeToString(b)
}

// ---------------------------------------------------------------------------------------------------------------
// consensus version with a tiny catchpoint lookback (as the package tests inject one)

func vcpProto(lookback uint64) (protocol.ConsensusVersion, config.ConsensusParams) {
	name := protocol.ConsensusVersion(fmt.Sprintf("verif-c1416-lookback-%d", lookback))
	p, ok := config.Consensus[name]
	if !ok {
		p = config.Consensus[protocol.ConsensusFuture]
		p.CatchpointLookback = lookback
		p.ApprovedUpgrades = map[protocol.ConsensusVersion]uint64{}
		config.Consensus[name] = p
	}
	return name, p
}

func vcpGenesis() (bookkeeping.GenesisBalances, []basics.Address) {
	gen, addrs, _ := ledgertesting.NewTestGenesis()
	for i := 0; i < 3; i++ {
		ad := gen.Balances[addrs[i]]
		ad.Status = basics.Online
		ad.VoteFirstValid = 0
		ad.VoteLastValid = 1_000_000
		ad.VoteKeyDilution = 10000
		for j := range ad.VoteID {
			ad.VoteID[j] = byte(17*i + j + 1)
		}
		for j := range ad.SelectionID {
			ad.SelectionID[j] = byte(29*i + j + 3)
		}
		for j := range ad.StateProofID {
			ad.StateProofID[j] = byte(31*i + j + 5)
		}
		gen.Balances[addrs[i]] = ad
	}
	return gen, addrs
}

// ---------------------------------------------------------------------------------------------------------------
// logger: quiet, and it captures the labels announced by createCatchpoint

type vcpLogger struct {
	logging.Logger
	mu     sync.Mutex
	labels []string
}

func vcpNewLogger() *vcpLogger {
	inner := logging.NewLogger()
	inner.SetOutput(io.Discard)
	inner.SetLevel(logging.Error)
	return &vcpLogger{Logger: inner}
}

func (l *vcpLogger) Infof(format string, args ...any) {
	// catchpointtracker.go createCatchpoint: "creating catchpoint round: %d accountsRound: %d label: %s"
	if strings.HasPrefix(format, "creating catchpoint round:") && len(args) == 3 {
		l.mu.Lock()
		l.labels = append(l.labels, fmt.Sprint(args[2]))
		l.mu.Unlock()
	}
}

func (l *vcpLogger) take() []string {
	l.mu.Lock()
	defer l.mu.Unlock()
	return append([]string{}, l.labels...)
}

// ---------------------------------------------------------------------------------------------------------------
// gate tracker (harness only; no real tracker is replaced)

type vcpGate struct {
	mu      sync.Mutex
	open    bool
	capture func(*deferredCommitContext) // called once from postCommitUnlocked, before the real trackers' callbacks
	commits []string                     // "oldBase-newBase[F][S]" of every commit that ran
}

func (g *vcpGate) loadFromDisk(ledgerForTracker, basics.Round) error { return nil }
func (g *vcpGate) newBlock(bookkeeping.Block, ledgercore.StateDelta)  {}
func (g *vcpGate) committedUpTo(r basics.Round) (basics.Round, basics.Round) {
	return r, 0
}
func (g *vcpGate) produceCommittingTask(_ basics.Round, _ basics.Round, dcr *deferredCommitRange) *deferredCommitRange {
	g.mu.Lock()
	defer g.mu.Unlock()
	if !g.open {
		return nil
	}
	return dcr
}
func (g *vcpGate) prepareCommit(*deferredCommitContext) error { return nil }
func (g *vcpGate) commitRound(context.Context, trackerdb.TransactionScope, *deferredCommitContext) error {
	return nil
}
func (g *vcpGate) postCommit(context.Context, *deferredCommitContext) {}
func (g *vcpGate) close()                                            {}
func (g *vcpGate) postCommitUnlocked(_ context.Context, dcc *deferredCommitContext) {
	g.mu.Lock()
	s := fmt.Sprintf("%d-%d", dcc.oldBase, dcc.newBase())
	if dcc.catchpointFirstStage {
		s += "F"
	}
	if dcc.catchpointSecondStage {
		s += "S"
	}
	g.commits = append(g.commits, s)
	c := g.capture
	g.capture = nil
	g.mu.Unlock()
	if c != nil {
		c(dcc)
	}
}
func (g *vcpGate) handleUnorderedCommit(*deferredCommitContext)                      {}
func (g *vcpGate) handlePrepareCommitError(*deferredCommitContext)                   {}
func (g *vcpGate) handleCommitError(*deferredCommitContext)                          {}
func (g *vcpGate) clearCommitRoundRetry(context.Context, *deferredCommitContext)     {}
func (g *vcpGate) setOpen(b bool)                                                    { g.mu.Lock(); g.open = b; g.mu.Unlock() }
func (g *vcpGate) setCapture(f func(*deferredCommitContext))                         { g.mu.Lock(); g.capture = f; g.mu.Unlock() }

// ---------------------------------------------------------------------------------------------------------------
// history

type vcpHist struct {
	seed     uint64
	n        int
	interval uint64
	lookback uint64
	proto    protocol.ConsensusVersion
	params   config.ConsensusParams
	gen      bookkeeping.GenesisBalances
	genHash  crypto.Digest
	blocks   []bookkeeping.Block // blocks[k-1] = round k
	boxApp   basics.AppIndex
	kinds    map[string]int // transaction kinds that made it into a block
}

type vcpAsset struct {
	id      basics.AssetIndex
	creator basics.Address
	holders map[basics.Address]bool
}

type vcpGen struct {
	t       *testing.T
	l       *Ledger
	r       *vh.Rng
	h       *vcpHist
	addrs   []basics.Address
	extra   []basics.Address
	alive   map[basics.Address]bool
	assets  []*vcpAsset
	boxes   map[string]int
	counter uint64
	nonce   int
	online  map[basics.Address]bool
}

func (g *vcpGen) try(ev *eval.BlockEvaluator, kind string, tx *txntest.Txn) bool {
	g.nonce++
	tx.Note = fmt.Sprintf("n%d", g.nonce)
	fillDefaults(g.t, g.l, ev, tx)
	grp := []transactions.SignedTxn{tx.SignedTxn()}
	if err := ev.TestTransactionGroup(grp); err != nil {
		return false
	}
	if err := ev.TransactionGroup(transactions.WrapSignedTxnsWithAD(grp)...); err != nil {
		return false
	}
	g.counter++
	g.h.kinds[kind]++
	return true
}

func (g *vcpGen) pick(as []basics.Address) basics.Address { return as[g.r.Intn(len(as))] }

// no name is a prefix of another one (and none starts with "q", the directed clash case's names): with zero-length values in
// the alphabet, box "ab"="" and box "a"="b" would otherwise be an accidental instance of the known finding F2
var vcpBoxNames = []string{"a1", "m", "b1", "xyz", "k0", "k1", "long-box-name"}

func (g *vcpGen) boxTxn(args ...[]byte) *txntest.Txn {
	return &txntest.Txn{Type: "appl", Sender: g.pick(g.addrs), ApplicationID: g.h.boxApp, ApplicationArgs: args,
		Boxes: []transactions.BoxRef{{Index: 0, Name: args[1]}}}
}

// one random transaction; returns false when the choice was not applicable
func (g *vcpGen) step(ev *eval.BlockEvaluator) bool {
	r := g.r
	switch r.Intn(17) {
	case 0, 1: // payment between genesis accounts
		a, b := g.pick(g.addrs), g.pick(g.addrs)
		return g.try(ev, "pay", &txntest.Txn{Type: "pay", Sender: a, Receiver: b, Amount: 1000 + uint64(r.Intn(5_000_000))})
	case 2: // create / fund an extra account
		b := g.pick(g.extra)
		if g.try(ev, "pay-new", &txntest.Txn{Type: "pay", Sender: g.pick(g.addrs), Receiver: b, Amount: 300_000 + uint64(r.Intn(2_000_000))}) {
			g.alive[b] = true
			return true
		}
	case 3: // close an extra account (fails while it holds assets)
		for _, b := range g.extra {
			if g.alive[b] && r.Chance(50) {
				if g.try(ev, "pay-close", &txntest.Txn{Type: "pay", Sender: b, Receiver: g.pick(g.addrs), Amount: 1, CloseRemainderTo: g.pick(g.addrs)}) {
					g.alive[b] = false
					return true
				}
			}
		}
	case 4: // asset create
		if len(g.assets) < 5 {
			c := g.addrs[r.Intn(3)] // few creators / holders: accounts with several resources (split account records)
			if g.try(ev, "acfg-create", &txntest.Txn{Type: "acfg", Sender: c, AssetParams: basics.AssetParams{
				Total: 1000 + uint64(r.Intn(1000)), Decimals: uint32(r.Intn(3)), UnitName: fmt.Sprintf("u%d", g.nonce), Manager: c, Reserve: c}}) {
				g.assets = append(g.assets, &vcpAsset{id: basics.AssetIndex(g.counter), creator: c, holders: map[basics.Address]bool{}})
				return true
			}
		}
	case 5: // opt in
		if len(g.assets) > 0 {
			a := g.assets[r.Intn(len(g.assets))]
			cands := append(append([]basics.Address{}, g.addrs[:5]...), g.extra...)
			h := g.pick(cands)
			if h != a.creator && !a.holders[h] && g.try(ev, "axfer-optin", &txntest.Txn{Type: "axfer", Sender: h, XferAsset: a.id, AssetReceiver: h}) {
				a.holders[h] = true
				return true
			}
		}
	case 6, 7: // transfer
		if len(g.assets) > 0 {
			a := g.assets[r.Intn(len(g.assets))]
			for h := range a.holders {
				_ = h
			}
			hs := vcpSortedAddrs(a.holders)
			if len(hs) > 0 {
				h := hs[r.Intn(len(hs))]
				return g.try(ev, "axfer", &txntest.Txn{Type: "axfer", Sender: a.creator, XferAsset: a.id, AssetReceiver: h, AssetAmount: uint64(1 + r.Intn(5))})
			}
		}
	case 8: // close out a holding
		if len(g.assets) > 0 {
			a := g.assets[r.Intn(len(g.assets))]
			hs := vcpSortedAddrs(a.holders)
			if len(hs) > 0 {
				h := hs[r.Intn(len(hs))]
				if g.try(ev, "axfer-close", &txntest.Txn{Type: "axfer", Sender: h, XferAsset: a.id, AssetReceiver: a.creator, AssetCloseTo: a.creator}) {
					delete(a.holders, h)
					return true
				}
			}
		}
	case 9: // destroy an asset nobody else holds
		for i, a := range g.assets {
			if len(a.holders) == 0 && r.Chance(40) {
				if g.try(ev, "acfg-destroy", &txntest.Txn{Type: "acfg", Sender: a.creator, ConfigAsset: a.id}) {
					g.assets = append(g.assets[:i], g.assets[i+1:]...)
					return true
				}
			}
		}
	case 10, 11: // box put (same size as before, or new)
		name := vcpBoxNames[r.Intn(len(vcpBoxNames))]
		n, ok := g.boxes[name]
		if !ok {
			n = 1 + r.Intn(9)
			if r.Chance(25) {
				n = 0 // a box that exists with a zero-length value
			}
		}
		val := r.Bytes(n)
		tx := txntest.Txn{Type: "appl", Sender: g.pick(g.addrs), ApplicationID: g.h.boxApp,
			ApplicationArgs: [][]byte{[]byte("put"), []byte(name), val}, Boxes: []transactions.BoxRef{{Index: 0, Name: []byte(name)}}}
		if g.try(ev, "box-put", &tx) {
			g.boxes[name] = n
			return true
		}
	case 12: // box delete
		names := make([]string, 0, len(g.boxes))
		for n := range g.boxes {
			names = append(names, n)
		}
		sort.Strings(names)
		if len(names) > 0 {
			name := names[r.Intn(len(names))]
			tx := txntest.Txn{Type: "appl", Sender: g.pick(g.addrs), ApplicationID: g.h.boxApp,
				ApplicationArgs: [][]byte{[]byte("delete"), []byte(name)}, Boxes: []transactions.BoxRef{{Index: 0, Name: []byte(name)}}}
			if g.try(ev, "box-del", &tx) {
				delete(g.boxes, name)
				return true
			}
		}
	case 14: // zero-length value: create an empty box / overwrite an empty box with the empty value
		name := vcpBoxNames[r.Intn(len(vcpBoxNames))]
		if n, ok := g.boxes[name]; !ok || n == 0 {
			if g.try(ev, "box-put-empty", g.boxTxn([]byte("put"), []byte(name), []byte{})) {
				g.boxes[name] = 0
				return true
			}
		}
	case 15, 16: // delete and re-create in the SAME block with another size, preferring transitions to / from length 0
		names := make([]string, 0, len(g.boxes))
		for n := range g.boxes {
			names = append(names, n)
		}
		sort.Strings(names)
		if len(names) > 0 {
			name := names[r.Intn(len(names))]
			old := g.boxes[name]
			if !g.try(ev, "box-del", g.boxTxn([]byte("delete"), []byte(name))) {
				return false
			}
			delete(g.boxes, name)
			n := 0
			if old == 0 || r.Chance(30) {
				n = 1 + r.Intn(6)
			}
			kind := "box-recreate-empty"
			if n > 0 {
				kind = "box-recreate"
			}
			if g.try(ev, kind, g.boxTxn([]byte("put"), []byte(name), r.Bytes(n))) {
				g.boxes[name] = n
			}
			return true
		}
	case 13: // key registration on / off line
		a := g.addrs[3+r.Intn(4)]
		if g.online[a] {
			if g.try(ev, "keyreg-off", &txntest.Txn{Type: "keyreg", Sender: a}) {
				g.online[a] = false
				return true
			}
		} else {
			tx := txntest.Txn{Type: "keyreg", Sender: a, VoteLast: 100_000 + basics.Round(r.Intn(1000)), VoteKeyDilution: 1000}
			copy(tx.VotePK[:], r.Bytes(32))
			copy(tx.SelectionPK[:], r.Bytes(32))
			copy(tx.StateProofPK[:], r.Bytes(64))
			if g.try(ev, "keyreg-on", &tx) {
				g.online[a] = true
				return true
			}
		}
	}
	return false
}

func vcpSortedAddrs(m map[basics.Address]bool) []basics.Address {
	out := make([]basics.Address, 0, len(m))
	for a := range m {
		out = append(out, a)
	}
	sort.Slice(out, func(i, j int) bool { return string(out[i][:]) < string(out[j][:]) })
	return out
}

// vcpMakeHist builds the real blocks of one history on a generator ledger. `script` (optional) gets the chance to add
// directed transactions at the start of each round.
func vcpMakeHist(t *testing.T, seed uint64, n int, interval, lookback uint64, script func(g *vcpGen, ev *eval.BlockEvaluator, rnd int)) *vcpHist {
	r := vh.NewRng(seed)
	h := &vcpHist{seed: seed, n: n, interval: interval, lookback: lookback, kinds: map[string]int{}}
	h.proto, h.params = vcpProto(lookback)
	var addrs []basics.Address
	h.gen, addrs = vcpGenesis()
	copy(h.genHash[:], r.Bytes(32))
	cfg := config.GetDefaultLocal()
	cfg.CatchpointTracking = -1
	gl := newSimpleLedgerFull(t, h.gen, h.proto, h.genHash, cfg, simpleLedgerLogger(vcpNewLogger()))
	defer gl.Close()
	g := &vcpGen{t: t, l: gl, r: r, h: h, addrs: addrs, alive: map[basics.Address]bool{}, boxes: map[string]int{}, online: map[basics.Address]bool{}}
	for i := 0; i < 5; i++ {
		var a basics.Address
		copy(a[:], r.Bytes(32))
		g.extra = append(g.extra, a)
	}
	for k := 1; k <= n; k++ {
		hdr, err := gl.BlockHdr(gl.Latest())
		require.NoError(t, err)
		g.counter = hdr.TxnCounter
		ev := nextBlock(t, gl)
		switch {
		case k == 1:
			require.True(t, g.try(ev, "appl-create", &txntest.Txn{Type: "appl", Sender: addrs[1], ApprovalProgram: boxAppSource}))
			h.boxApp = basics.AppIndex(g.counter)
		case k == 2:
			require.True(t, g.try(ev, "pay", &txntest.Txn{Type: "pay", Sender: addrs[1], Receiver: h.boxApp.Address(), Amount: 5_000_000}))
		case k == 3:
			// one box that stays: every catchpoint state has kv rows
			name := "seedbox"
			require.True(t, g.try(ev, "box-put", &txntest.Txn{Type: "appl", Sender: addrs[2], ApplicationID: h.boxApp,
				ApplicationArgs: [][]byte{[]byte("put"), []byte(name), r.Bytes(5)}, Boxes: []transactions.BoxRef{{Index: 0, Name: []byte(name)}}}))
		default:
			if script != nil {
				script(g, ev, k)
			}
			want := r.Intn(4) // some rounds are empty
			for tries := 0; want > 0 && tries < 12; tries++ {
				if g.step(ev) {
					want--
				}
			}
		}
		vb := endBlock(t, gl, ev)
		h.blocks = append(h.blocks, vb.Block())
	}
	return h
}

// ---------------------------------------------------------------------------------------------------------------
// replica ledgers

type vcpRepCfg struct {
	name    string
	mal     uint64
	trk     int64
	npp     int64
	cache   int
	onDisk  bool
	actions map[int]string // after block k: "f" flush+drain up to k, "p" one flush call only (partial), "r" restart, "x" crash image
}

func (c vcpRepCfg) text() string {
	return fmt.Sprintf("trk%d/npp%d/cache%d/disk%v", c.trk, c.npp, c.cache, c.onDisk)
}

type vcpRep struct {
	t      *testing.T
	h      *vcpHist
	cfg    vcpRepCfg
	lcfg   config.Local
	dir    string
	l      *Ledger
	gate   *vcpGate
	log    *vcpLogger
	events []string
	images int
	failure string // why the ledger could not go on (the real code returned an error)
}

// must stops this ledger's run when the real code returns an error; the case goes on with the other ledgers
func (rp *vcpRep) must(err error, what string) {
	if err != nil {
		rp.failure = what + ": " + strings.ReplaceAll(err.Error(), "\n", " ")
		rp.t.Errorf("%s: %s", rp.cfg.name, rp.failure)
		rp.t.FailNow()
	}
}

func (h *vcpHist) initState() ledgercore.InitState {
	genBlock, err := bookkeeping.MakeGenesisBlock(h.proto, h.gen, "test", h.genHash)
	if err != nil {
		panic(err)
	}
	return ledgercore.InitState{Block: genBlock, Accounts: h.gen.Balances, GenesisHash: h.genHash}
}

func vcpOpenRep(t *testing.T, h *vcpHist, c vcpRepCfg) *vcpRep {
	return vcpOpenRepInto(&vcpRep{}, t, h, c)
}

func vcpOpenRepInto(rp *vcpRep, t *testing.T, h *vcpHist, c vcpRepCfg) *vcpRep {
	rp.t, rp.h, rp.cfg, rp.log = t, h, c, vcpNewLogger()
	rp.lcfg = config.GetDefaultLocal()
	rp.lcfg.Archival = true
	rp.lcfg.MaxAcctLookback = c.mal
	rp.lcfg.CatchpointInterval = h.interval
	rp.lcfg.CatchpointTracking = c.trk
	rp.lcfg.CatchpointFileHistoryLength = -1
	rp.dir = t.TempDir()
	rp.open(filepath.Join(rp.dir, "led"))
	return rp
}

func (rp *vcpRep) open(prefix string) {
	trackerdb.TrieMemoryConfig.NodesCountPerPage = rp.cfg.npp
	trackerdb.TrieMemoryConfig.CachedNodesCount = rp.cfg.cache
	l, err := OpenLedger(rp.log, prefix, !rp.cfg.onDisk, rp.h.initState(), rp.lcfg)
	rp.must(err, "OpenLedger")
	rp.l = l
	rp.installGate()
}

func (rp *vcpRep) installGate() {
	rp.gate = &vcpGate{}
	rp.l.trackerMu.Lock()
	rp.l.trackers.mu.Lock()
	rp.l.trackers.trackers = append([]ledgerTracker{rp.gate}, rp.l.trackers.trackers...)
	rp.l.trackers.mu.Unlock()
	rp.l.trackerMu.Unlock()
}

func (rp *vcpRep) dbRound() basics.Round { return rp.l.LatestTrackerCommitted() }

func (rp *vcpRep) addBlock(blk bookkeeping.Block) {
	rp.must(rp.l.AddBlock(blk, agreement.Certificate{}), fmt.Sprintf("AddBlock %d", blk.Round()))
	rp.l.WaitForCommit(blk.Round())
	rp.events = append(rp.events, "b")
}

// one real committedUpTo(rnd) with the gate open; returns whether the tracker DB round moved
func (rp *vcpRep) flushOnce(rnd basics.Round, crash bool) bool {
	before := rp.dbRound()
	if uint64(rnd) < rp.cfg.mal || rnd-basics.Round(rp.cfg.mal) <= before {
		return false
	}
	l := rp.l
	l.trackerMu.Lock()
	l.trackers.mu.Lock()
	l.trackers.lastFlushTime = time.Time{}
	l.trackers.mu.Unlock()
	rp.gate.setOpen(true)
	l.trackers.committedUpTo(rnd)
	rp.gate.setOpen(false)
	l.trackers.waitAccountsWriting()
	l.trackerMu.Unlock()
	after := rp.dbRound()
	if after == before {
		return false
	}
	tag := "c"
	if crash {
		tag = "X"
	}
	rp.events = append(rp.events, fmt.Sprintf("%s%d", tag, uint64(rnd)-rp.cfg.mal))
	return true
}

func (rp *vcpRep) drain(rnd basics.Round) {
	for i := 0; i < 64 && rp.flushOnce(rnd, false); i++ {
	}
}

func (rp *vcpRep) restart() {
	trackerdb.TrieMemoryConfig.NodesCountPerPage = rp.cfg.npp
	trackerdb.TrieMemoryConfig.CachedNodesCount = rp.cfg.cache
	before := rp.dbRound()
	rp.must(rp.l.reloadLedger(), "reloadLedger")
	rp.installGate()
	rp.events = append(rp.events, "r")
	rp.noteReplayCommit(before)
}

// trackerRegistry.replay (part of loadFromDisk) ends with its own scheduleCommit(latest, MaxAcctLookback) when the DB round
// is more than MaxAcctLookback behind: a commit of the schedule like any other (it runs before the gate is re-installed)
func (rp *vcpRep) noteReplayCommit(before basics.Round) {
	rp.l.trackers.waitAccountsWriting()
	if rp.dbRound() != before {
		rp.events = append(rp.events, fmt.Sprintf("c%d", uint64(rp.l.Latest())-rp.cfg.mal))
	}
}

// a real restart (Close + OpenLedger on the same files) with catchpoint tracking switched off (CatchpointTracking = -1: the
// tracker's interval is 0, commitRound leaves the balances trie alone and stamps accounts hash round 0) or on again
// (initializeHashes has to notice hash round != DB round and rebuild the trie)
func (rp *vcpRep) reopen(enabled bool) {
	require.True(rp.t, rp.cfg.onDisk, "switching tracking needs an on-disk ledger")
	before := rp.dbRound()
	rp.l.Close()
	ev := "e"
	rp.lcfg.CatchpointTracking = rp.cfg.trk
	if !enabled {
		ev = "d"
		rp.lcfg.CatchpointTracking = -1
	}
	rp.open(filepath.Join(rp.dir, "led"))
	rp.events = append(rp.events, ev)
	rp.noteReplayCommit(before)
}

func vcpCopyTree(src, dst string) error {
	return filepath.Walk(src, func(p string, info os.FileInfo, err error) error {
		if err != nil {
			return err
		}
		rel, _ := filepath.Rel(src, p)
		out := filepath.Join(dst, rel)
		if info.IsDir() {
			return os.MkdirAll(out, 0700)
		}
		b, err := os.ReadFile(p)
		if err != nil {
			return err
		}
		return os.WriteFile(out, b, 0600)
	})
}

// crash: the next commit is performed, the ledger's files are copied from the gate's postCommitUnlocked (after the
// commit transaction, before the catchpoint tracker finishes the first stage / the catchpoints), the running ledger
// is discarded and a new one is opened from the copy.
func (rp *vcpRep) crashAt(rnd basics.Round) bool {
	require.True(rp.t, rp.cfg.onDisk, "crash images need an on-disk ledger")
	rp.images++
	imgDir := filepath.Join(rp.t.TempDir(), fmt.Sprintf("img%d", rp.images))
	var cerr error
	var labelsAtCapture []string
	var imageRound basics.Round
	copied := false
	rp.gate.setCapture(func(dcc *deferredCommitContext) {
		imageRound = dcc.newBase()
		// labels are created in the catchpoint tracker's postCommitUnlocked, which runs after this callback: what
		// is logged so far is the crashed node's history, what the abandoned ledger logs afterwards is not
		labelsAtCapture = rp.log.take()
		cerr = vcpCopyTree(rp.dir, imgDir)
		copied = true
	})
	moved := rp.flushOnce(rnd, true)
	rp.gate.setCapture(nil)
	if !copied {
		require.False(rp.t, moved)
		return false
	}
	require.NoError(rp.t, cerr)
	rp.l.Close()
	rp.log = vcpNewLogger()
	rp.log.labels = labelsAtCapture
	rp.dir = imgDir
	rp.open(filepath.Join(imgDir, "led"))
	rp.noteReplayCommit(imageRound)
	return true
}

func (rp *vcpRep) close() { rp.l.Close() }

// labels created so far, "round:label" in creation order
func (rp *vcpRep) labels() string {
	var out []string
	for _, lb := range rp.log.take() {
		out = append(out, strings.Replace(lb, "#", ":", 1))
	}
	if len(out) == 0 {
		return "labels=-"
	}
	return "labels=" + strings.Join(out, ",")
}

// run the whole history on this replica
func (rp *vcpRep) run() {
	for k, blk := range rp.h.blocks {
		rnd := basics.Round(k + 1)
		rp.addBlock(blk)
		for _, a := range rp.cfg.actions[k+1] {
			switch a {
			case 'f':
				rp.drain(rnd)
			case 'p':
				rp.flushOnce(rnd, false)
			case 'r':
				rp.restart()
			case 'd':
				rp.reopen(false)
			case 'e':
				rp.reopen(true)
			case 'x':
				rp.crashAt(rnd)
				rp.drain(rnd)
			}
		}
	}
	rp.drain(basics.Round(len(rp.h.blocks)))
}

// ---------------------------------------------------------------------------------------------------------------
// dump of the tracker DB (state at its round), read with the catchpoint writer's own iterators

type vcpDump struct {
	round  basics.Round
	rows   map[string]string // key text -> row text
	totals []byte
	sp     crypto.Digest
	oa     crypto.Digest
	orp    crypto.Digest
}

func vcpDumpLedger(t *testing.T, l *Ledger, params config.ConsensusParams) *vcpDump {
	d := &vcpDump{rows: map[string]string{}}
	err := l.trackerDB().Snapshot(func(ctx context.Context, tx trackerdb.SnapshotScope) error {
		ar, err := tx.MakeAccountsReader()
		if err != nil {
			return err
		}
		d.round, err = ar.AccountsRound()
		if err != nil {
			return err
		}
		totals, err := ar.AccountsTotals(ctx, false)
		if err != nil {
			return err
		}
		d.totals = protocol.EncodeReflect(&totals)
		it := tx.MakeEncodedAccountsBatchIter()
		defer it.Close()
		for {
			bals, _, err := it.Next(ctx, 64, 1000)
			if err != nil {
				return err
			}
			if len(bals) == 0 {
				break
			}
			for _, b := range bals {
				var ad trackerdb.BaseAccountData
				if err := protocol.Decode(b.AccountData, &ad); err != nil {
					return err
				}
				a := vcpHex(b.Address[:])
				d.rows["A "+a] = fmt.Sprintf("A %s %d %d %s", a, ad.UpdateRound, ad.RewardsBase, vcpHex(b.AccountData))
				for cidx, raw := range b.Resources {
					var rd trackerdb.ResourcesData
					if err := protocol.Decode(raw, &rd); err != nil {
						return err
					}
					kind := "p"
					if rd.IsAsset() {
						kind = "a"
					} else if !rd.IsApp() {
						kind = "?"
					}
					d.rows[fmt.Sprintf("R %s %d", a, cidx)] = fmt.Sprintf("R %s %s %d %d %s", kind, a, cidx, rd.UpdateRound, vcpHex(raw))
				}
			}
		}
		kvs, err := tx.MakeKVsIter(ctx)
		if err != nil {
			return err
		}
		defer kvs.Close()
		for kvs.Next() {
			k, v, err := kvs.KeyValue()
			if err != nil {
				return err
			}
			d.rows["K "+vcpHex(k)] = fmt.Sprintf("K %s %s", vcpHex(k), vcpHex(v))
		}
		d.oa, _, err = calculateVerificationHash(ctx, makeCatchpointOrderedOnlineAccountsIterFactory(tx.MakeOrderedOnlineAccountsIter, d.round, params), 0, false)
		if err != nil {
			return err
		}
		d.orp, _, err = calculateVerificationHash(ctx, tx.MakeOnlineRoundParamsIter, 0, false)
		return err
	})
	require.NoError(t, err)
	_, d.sp, err = l.catchpoint.getSPVerificationData()
	require.NoError(t, err)
	return d
}

func (d *vcpDump) sortedKeys() []string {
	ks := make([]string, 0, len(d.rows))
	for k := range d.rows {
		ks = append(ks, k)
	}
	sort.Strings(ks)
	return ks
}

func vcpDeltaLine(prev, cur *vcpDump, rnd int, bh crypto.Digest) string {
	parts := []string{fmt.Sprintf("rnd %d bh=%s totals=%s sp=%s oa=%s orp=%s", rnd, vcpHex(bh[:]), vcpHex(cur.totals), vcpHex(cur.sp[:]), vcpHex(cur.oa[:]), vcpHex(cur.orp[:]))}
	for _, k := range prev.sortedKeys() {
		if _, ok := cur.rows[k]; !ok {
			parts = append(parts, "-"+k)
		}
	}
	for _, k := range cur.sortedKeys() {
		if cur.rows[k] != prev.rows[k] {
			parts = append(parts, "+"+cur.rows[k])
		}
	}
	return strings.Join(parts, " | ")
}

// ---------------------------------------------------------------------------------------------------------------
// one case

type vc14Case struct {
	seed     uint64
	n        int
	interval uint64
	lookback uint64
	reps     int
	clash    bool // directed history: two boxes of one app with the same name‖content concatenation (known finding F2)
}

func (c vc14Case) line() string {
	s := fmt.Sprintf("case seed=%d n=%d I=%d L=%d ver=8 reps=%d", c.seed, c.n, c.interval, c.lookback, c.reps)
	if c.clash {
		s += " clash=1"
	}
	return s
}

func vc14ParseCase(op string) (c vc14Case, ok bool) {
	f := strings.Fields(op)
	if len(f) < 2 || f[0] != "case" {
		return c, false
	}
	for _, x := range f[1:] {
		kv := strings.SplitN(x, "=", 2)
		if len(kv) != 2 {
			continue
		}
		v, _ := strconv.ParseUint(kv[1], 10, 64)
		switch kv[0] {
		case "seed":
			c.seed = v
		case "n":
			c.n = int(v)
		case "I":
			c.interval = v
		case "L":
			c.lookback = v
		case "reps":
			c.reps = int(v)
		case "clash":
			c.clash = v == 1
		}
	}
	return c, c.n > 0 && c.interval > 0 && c.lookback > 0
}

// directed history for the known finding: round 6 creates box "qq"="r", round 7 box "q"="qr" (same key‖value bytes, same
// trie leaf), round 9 deletes "qq". A ledger that commits rounds 6..9 one by one adds the leaf, finds it already present,
// and then deletes it; a ledger that commits 6..12 in one range never sees "qq" ("came and went") and adds the leaf once.
func vc14ClashScript(g *vcpGen, ev *eval.BlockEvaluator, rnd int) {
	box := func(args ...string) {
		tx := txntest.Txn{Type: "appl", Sender: g.addrs[2], ApplicationID: g.h.boxApp, Boxes: []transactions.BoxRef{{Index: 0, Name: []byte(args[1])}}}
		for _, a := range args {
			tx.ApplicationArgs = append(tx.ApplicationArgs, []byte(a))
		}
		require.True(g.t, g.try(ev, "box-clash-"+args[0], &tx))
	}
	switch rnd {
	case 6:
		box("put", "qq", "r")
	case 7:
		box("put", "q", "qr")
	case 9:
		box("delete", "qq")
	}
}

func vc14ClashReplicas(c vc14Case) []vcpRepCfg {
	acts := map[int]string{6: "f"}
	for k := 13; k <= c.n; k++ {
		acts[k] = "f"
	}
	return []vcpRepCfg{{name: "span", mal: 1, trk: 1, npp: 116, cache: 9000, actions: acts}}
}

// the replica configurations of a case are a function of the case line (seed): schedules compatible with the
// interval (gaps between drains <= interval) except the last, sparse one
func vc14Replicas(c vc14Case) []vcpRepCfg {
	r := vh.NewRng(c.seed*7919 + 14)
	trie := [][2]int{{116, 9000}, {2, 0}, {3, 1}, {8, 20}, {16, 100}}
	var out []vcpRepCfg
	for i := 1; i < c.reps; i++ {
		tc := trie[r.Intn(len(trie))]
		rc := vcpRepCfg{name: fmt.Sprintf("rep%d", i), mal: uint64([]int{1, 2, 4, 8}[r.Intn(4)]), trk: int64(1 + r.Intn(2)), npp: int64(tc[0]), cache: tc[1],
			actions: map[int]string{}}
		sparse := i == c.reps-1 && c.reps >= 4
		rc.onDisk = i == 2
		maxGap := int(c.interval)
		if sparse {
			maxGap = int(3 * c.interval)
			rc.name = "sparse"
		}
		k := 0
		for {
			k += 1 + r.Intn(maxGap)
			if k > c.n {
				break
			}
			act := "f"
			switch {
			case rc.onDisk && r.Chance(35):
				act = "x"
			case r.Chance(15):
				act = "fr"
			case r.Chance(10):
				act = "rf"
			case r.Chance(10):
				act = "pr"
			}
			rc.actions[k] = act
		}
		out = append(out, rc)
	}
	// a ledger that runs a while WITHOUT catchpoint tracking (committing account changes) and then with it again: its
	// later labels must be the history's
	tc := trie[r.Intn(len(trie))]
	tg := vcpRepCfg{name: "toggle", mal: uint64([]int{1, 2, 4}[r.Intn(3)]), trk: int64(1 + r.Intn(2)), npp: int64(tc[0]), cache: tc[1],
		onDisk: true, actions: map[int]string{}}
	off := 3 + r.Intn(c.n/3)
	on := off + 2 + r.Intn(int(c.interval)+2)
	for k := 1; k <= c.n; {
		act := "f"
		switch {
		case k == off:
			act = "fd"
		case k == on:
			act = "fe"
		case k > on && r.Chance(12):
			act = "fr"
		}
		tg.actions[k] = act
		if k >= off && k < on {
			k += 1 + r.Intn(2)
			if k > on {
				k = on
			}
		} else {
			step := 1 + r.Intn(int(c.interval))
			if k < off && k+step > off {
				step = off - k
			}
			k += step
		}
	}
	out = append(out, tg)
	return out
}

func vc14RunCase(t *testing.T, out *vh.Out, c vc14Case) {
	out.Emit(c.line(), "ok")
	var script func(g *vcpGen, ev *eval.BlockEvaluator, rnd int)
	if c.clash {
		script = vc14ClashScript
	}
	h := vcpMakeHist(t, c.seed, c.n, c.interval, c.lookback, script)
	defer func(npp int64, cache int) {
		trackerdb.TrieMemoryConfig.NodesCountPerPage = npp
		trackerdb.TrieMemoryConfig.CachedNodesCount = cache
	}(trackerdb.TrieMemoryConfig.NodesCountPerPage, trackerdb.TrieMemoryConfig.CachedNodesCount)

	// reference ledger: flush after every block, dump every round
	refActs := map[int]string{}
	for k := 1; k <= c.n; k++ {
		refActs[k] = "f"
	}
	ref := vcpOpenRep(t, h, vcpRepCfg{name: "ref", mal: 1, trk: 2, npp: 116, cache: 9000, actions: refActs})
	prev := vcpDumpLedger(t, ref.l, h.params)
	require.EqualValues(t, 0, prev.round)
	gl := []string{"gen"}
	for _, k := range prev.sortedKeys() {
		gl = append(gl, prev.rows[k])
	}
	out.Emit(strings.Join(gl, " | "), fmt.Sprintf("ok %d", len(prev.rows)))
	for k, blk := range h.blocks {
		ref.addBlock(blk)
		ref.drain(basics.Round(k + 1))
		if ref.dbRound() == prev.round {
			continue
		}
		require.EqualValues(t, prev.round+1, ref.dbRound(), "the reference ledger must pass through every round")
		cur := vcpDumpLedger(t, ref.l, h.params)
		out.Emit(vcpDeltaLine(prev, cur, int(cur.round), h.blocks[cur.round-1].Digest()), fmt.Sprintf("ok %d", len(cur.rows)))
		prev = cur
	}
	out.Emit(fmt.Sprintf("run ref mal=1 cfg=%s ev=%s", ref.cfg.text(), strings.Join(ref.events, ",")), ref.labels())
	ref.close()

	reps := vc14Replicas(c)
	if c.clash {
		reps = vc14ClashReplicas(c)
	}
	for _, rc := range reps {
		var rp *vcpRep
		ok := t.Run(rc.name+"x", func(t *testing.T) {
			rp = &vcpRep{t: t, cfg: rc}
			rp = vcpOpenRepInto(rp, t, h, rc)
			rp.run()
			rp.close()
		})
		res := rp.labels()
		if !ok {
			// the real ledger returned an error on this history / schedule: a failing input of its own
			res = "FAILED " + rp.failure
		}
		out.Emit(fmt.Sprintf("run %s mal=%d cfg=%s ev=%s", rc.name, rc.mal, rc.text(), strings.Join(rp.events, ",")), res)
	}
	t.Logf("case seed=%d: transaction kinds %v", c.seed, h.kinds)
}

func vc14Generate() []vc14Case {
	r := vh.NewRng(vh.Seed() + 1400)
	n := vh.Budget(2, 30)
	var cs []vc14Case
	for i := 0; i < n; i++ {
		interval := uint64(4 + r.Intn(5))
		lookback := uint64(2 + r.Intn(9))
		cs = append(cs, vc14Case{seed: r.U64() % 1_000_000, n: int(5*interval) + 6 + r.Intn(8), interval: interval, lookback: lookback, reps: 4 + r.Intn(2)})
	}
	// the known finding replayed as a schedule dependence (first-stage rounds 5, 13, 21 with I=8, L=3)
	cs = append(cs, vc14Case{seed: r.U64() % 1_000_000, n: 27, interval: 8, lookback: 3, reps: 2, clash: true})
	return cs
}

func TestVerifC14(t *testing.T) {
	t.Chdir(t.TempDir())
	var cases []vc14Case
	if ops, replay := vh.ReplayOps(); replay {
		for _, op := range ops {
			if c, ok := vc14ParseCase(op); ok {
				cases = append(cases, c)
			}
		}
	} else {
		cases = vc14Generate()
	}
	out := vh.Open("c14")
	defer out.Close()
	for i, c := range cases {
		ok := t.Run(fmt.Sprintf("case%dx", i), func(t *testing.T) { vc14RunCase(t, out, c) })
		if !ok {
			out.Emit(fmt.Sprintf("run FAILED-%d", i), "FAILED (see test log)")
		}
	}
	t.Logf("c14: %d lines", out.N)
}
