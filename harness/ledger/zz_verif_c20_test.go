//go:build verif

package ledger

// C20 harness — "Proposed blocks validate and evaluation is deterministic" (model lean/AlgoVerif/Model/BlockEval.lean, driver `c20`).
//
// A real Ledger A (the producing node; in memory, or on disk so that it can be closed and reopened) and an independent real
// Ledger B (a second node that replays the same history through AddBlock) are created from the same generated genesis.  For
// every block a pool of random valid / invalid transaction groups (the LedgerCore generator of zz_verif_lcore_test.go, signed
// with real ed25519 keys) is driven through the real evaluator exactly as data/pools' AssembleBlock drives it
// (Ledger.StartEvaluator(MakeBlock(prev)) → TransactionGroup per group, failing groups dropped → GenerateBlock(participating)
// → UnfinishedBlock.FinishBlock(seed, proposer, eligible)).  The finished block is then validated by the real
// Ledger.Validate / eval.Eval in many configurations (real execution pool, 1-, 3- and 7-worker pools with seeded jitter, a slow pool, warm
// verified-transaction cache, signatures mocked, prefetcher off, validate=false as AddBlock evaluates, ledger A reloaded /
// reopened from disk, the independent ledger B) and the canonical dump of the resulting StateDelta is printed for each;
// single-field mutations of the header / payset must be rejected; finally the block is added to both ledgers.
//
// Universe: address id 0 = zero address, 1..6 ordinary accounts, 7 = fee sink, 8 = rewards pool (ids 1..8 are ed25519 public
// keys of fixed seeds), 9 = StateProofSender.
//
// Op grammar (one line each); the transaction grammar and the dump tokens are those of the LedgerCore harness:
//   reset proto=<name> disk=<0|1> lookback=<n> nolru=<a><b> apps=<0|1> <A..>  (apps=1: the case carries application calls — outside the Lean model, the driver answers `-`)  fresh ledgers A and B from this genesis; nolru: the account LRU caches of A / of B are disabled → ok
//   block <k=v params> <dump tokens>                       start the producing evaluator of the next round; the line carries
//                                                          the constants and the state OBSERVED on the real evaluator   → ok | DIVERGED
//   group t;t;…                                            eval.TransactionGroup on the producing evaluator        → <class>[@i] | <dump>
//   gen prp=<id> elig=<0|1> part=<id,id,…|->               GenerateBlock(part) + FinishBlock(seed, prp, elig)
//        → gen exp=<ids|-> abs=<ids|-> | bonus=… load=… spnext=… commit=…     (the lists the producer chose, in its order)
//   hdr exp=<ids|-> abs=<ids|->                            the header fields the model derives, given the producer's lists
//        → hdr payset=N ctr=C fees=F maxpayout=M payout=P rs=level,rate,residue,recalc prp=<id>
//   validate cfg=<name>                                    evaluate the finished block in configuration <name>
//        → ok x=<digest of the whole canonical delta> | D: <delta in model terms> | T: <totals …>   or   reject <class>
//   mutate <what> [<arg>]                                  validate a single-field mutation of the finished block → rejected <class> | ACCEPTED
//   commit flush=<0|1>                                     AddValidatedBlock on A, AddBlock on B                   → ok rnd=N sa=<digest> sb=<digest>

import (
	"context"
	"crypto/sha256"
	"encoding/binary"
	"encoding/hex"
	"fmt"
	"os"
	"path/filepath"
	"sort"
	"strconv"
	"strings"
	"sync"
	"testing"
	"time"

	"github.com/algorand/avm-abi/apps"

	"github.com/algorand/go-algorand/agreement"
	"github.com/algorand/go-algorand/config"
	"github.com/algorand/go-algorand/crypto"
	"github.com/algorand/go-algorand/data/basics"
	"github.com/algorand/go-algorand/data/bookkeeping"
	"github.com/algorand/go-algorand/data/committee"
	"github.com/algorand/go-algorand/data/transactions"
	"github.com/algorand/go-algorand/data/transactions/logic"
	"github.com/algorand/go-algorand/data/transactions/verify"
	"github.com/algorand/go-algorand/ledger/eval"
	"github.com/algorand/go-algorand/ledger/ledgercore"
	"github.com/algorand/go-algorand/logging"
	"github.com/algorand/go-algorand/protocol"
	"github.com/algorand/go-algorand/util/execpool"
	"github.com/algorand/go-algorand/zz_verif_tools/vh"
)

// ----------------------------------------------------------------------------------------------- universe

var (
	c20Keys  [lcN]*crypto.SignatureSecrets
	c20Addrs [lcN]basics.Address
	c20Once  sync.Once
)

const c20Fast = protocol.ConsensusVersion("verif-c20-fast")

func c20Init() {
	c20Once.Do(func() {
		for id := 1; id <= lcPool; id++ {
			var seed crypto.Seed
			binary.BigEndian.PutUint64(seed[0:8], uint64(id))
			seed[31] = 0xc2
			c20Keys[id] = crypto.GenerateSignatureSecrets(seed)
			c20Addrs[id] = basics.Address(c20Keys[id].SignatureVerifier)
		}
		c20Addrs[lcSP] = transactions.StateProofSender
		// a protocol whose rewards rate is recalculated every 3 rounds and whose absentee challenges come every 3 rounds
		// (grace 1, every address challenged): the recalculation branch of NextRewardsState and the absent list are reachable
		// in histories of a few blocks.  Registered in the test process only.
		p := config.Consensus[protocol.ConsensusFuture]
		p.ApprovedUpgrades = map[protocol.ConsensusVersion]uint64{}
		p.RewardsRateRefreshInterval = 3
		p.Payouts.ChallengeInterval = 3
		p.Payouts.ChallengeGracePeriod = 1
		p.Payouts.ChallengeBits = 0
		config.Consensus[c20Fast] = p
	})
}

func c20Addr(id uint64) basics.Address {
	if id < lcN {
		return c20Addrs[id]
	}
	if id >= 1000 {
		return basics.AppIndex(id).Address() // the account of application <id>
	}
	var a basics.Address
	binary.BigEndian.PutUint64(a[0:8], id)
	a[31] = 0x77
	return a
}

// The application of the `apps` cases (TEAL v8).  Creation: when the creating call is an OptIn, the creator's local counter
// starts at 7.  NoOp calls: no argument = bump the sender's local counter; "copy" = copy the CREATOR's local counter into
// the global "seen"; "set" = plain global write; "box" <8 bytes> = box "b" := the bytes.  Every other completion approves.
const c20AppSrc = `#pragma version 8
txn ApplicationID
bz create
txn OnCompletion
int NoOp
!=
bnz done
txn NumAppArgs
bz bump
txna ApplicationArgs 0
byte "copy"
==
bnz copy
txna ApplicationArgs 0
byte "set"
==
bnz set
txna ApplicationArgs 0
byte "box"
==
bnz box
b done
copy:
byte "seen"
global CreatorAddress
byte "cnt"
app_local_get
app_global_put
b done
bump:
txn Sender
byte "cnt"
txn Sender
byte "cnt"
app_local_get
int 1
+
app_local_put
b done
set:
byte "seen"
txn FirstValid
app_global_put
b done
box:
byte "b"
txna ApplicationArgs 1
box_put
b done
create:
txn OnCompletion
int OptIn
==
bz done
txn Sender
byte "cnt"
int 7
app_local_put
done:
int 1
`

var (
	c20AppProg, c20ClearProg []byte
	c20ProgOnce              sync.Once
)

func c20Programs() ([]byte, []byte) {
	c20ProgOnce.Do(func() {
		ops, err := logic.AssembleString(c20AppSrc)
		if err != nil {
			panic(err)
		}
		c20AppProg = ops.Program
		ops, err = logic.AssembleString("#pragma version 8\nint 1")
		if err != nil {
			panic(err)
		}
		c20ClearProg = ops.Program
	})
	return c20AppProg, c20ClearProg
}

func c20ID(a basics.Address) string {
	for i := uint64(0); i < lcN; i++ {
		if c20Addrs[i] == a {
			return strconv.FormatUint(i, 10)
		}
	}
	return "?"
}

func c20IDn(a basics.Address) (uint64, bool) {
	for i := uint64(0); i < lcN; i++ {
		if c20Addrs[i] == a {
			return i, true
		}
	}
	return 0, false
}

var c20Protos = map[string]protocol.ConsensusVersion{
	"future": protocol.ConsensusFuture, "current": protocol.ConsensusCurrentVersion, "v41": protocol.ConsensusV41,
	"v40": protocol.ConsensusV40, "v39": protocol.ConsensusV39, "fast": c20Fast,
}

// ----------------------------------------------------------------------------------------------- a worker pool of chosen size

// c20Pool is an execpool.ExecutionPool with a chosen number of workers; every task is delayed by a seeded pseudo-random
// number of microseconds so that completion order varies between configurations.
type c20Pool struct {
	in      chan c20Task
	wg      sync.WaitGroup
	workers int
}
type c20Task struct {
	f   execpool.ExecFunc
	arg any
	out chan any
}

func c20MakePool(workers int, seed uint64, maxDelayMicros int) *c20Pool {
	p := &c20Pool{in: make(chan c20Task), workers: workers}
	for w := 0; w < workers; w++ {
		p.wg.Add(1)
		r := vh.NewRng(seed*977 + uint64(w))
		go func() {
			defer p.wg.Done()
			for t := range p.in {
				time.Sleep(time.Duration(maxDelayMicros/2+r.Intn(maxDelayMicros/2+1)) * time.Microsecond)
				res := t.f(t.arg)
				if t.out != nil {
					t.out <- res
				}
			}
		}()
	}
	return p
}
func (p *c20Pool) Enqueue(ctx context.Context, t execpool.ExecFunc, arg any, _ execpool.Priority, out chan any) error {
	select {
	case p.in <- c20Task{t, arg, out}:
		return nil
	case <-ctx.Done():
		return ctx.Err()
	}
}
func (p *c20Pool) GetOwner() any       { return nil }
func (p *c20Pool) Shutdown()           { close(p.in); p.wg.Wait() }
func (p *c20Pool) GetParallelism() int { return p.workers }

// ----------------------------------------------------------------------------------------------- harness state

type c20H struct {
	t        *testing.T
	a, b     *Ledger
	aPath    string
	onDisk   bool
	cfg      config.Local
	init     ledgercore.InitState
	ev       *eval.BlockEvaluator
	known    []uint64
	apps     []uint64 // application ids created so far in this case
	created  []uint64 // application ids created by the last accepted group
	cases    int
	blk      bookkeeping.Block
	haveBlk  bool
	maxPay   uint64
	vb       *ledgercore.ValidatedBlock
	realPool execpool.BacklogPool
	genHash  crypto.Digest
}

func (h *c20H) closeLedgers() {
	h.ev = nil
	h.haveBlk = false
	h.vb = nil
	if h.a != nil {
		h.a.Close()
		h.a = nil
	}
	if h.b != nil {
		h.b.Close()
		h.b = nil
	}
}

func (h *c20H) addKnown(aid uint64) {
	for _, k := range h.known {
		if k == aid {
			return
		}
	}
	h.known = append(h.known, aid)
	sort.Slice(h.known, func(i, j int) bool { return h.known[i] < h.known[j] })
}

func (h *c20H) reset(op string) string {
	t0 := time.Now()
	h.closeLedgers()
	c20Time["reset:close"] += time.Since(t0)
	h.known = nil
	h.apps = nil
	f := strings.Fields(op)
	cv := protocol.ConsensusFuture
	h.onDisk = false
	h.cfg = config.GetDefaultLocal()
	h.cfg.Archival = true
	h.cfg.TxPoolSize, h.cfg.VerifiedTranscationsCacheSize = 1000, 1000 // (the default 150000-entry maps cost more to allocate than a case takes)
	accts := make(map[basics.Address]basics.AccountData)
	nolruB := true
	for _, tok := range f[1:] {
		k, v := lcFields(tok)
		switch {
		case k == "proto":
			p, ok := c20Protos[v[0]]
			if !ok {
				return "bad-op"
			}
			cv = p
		case k == "disk":
			h.onDisk = v[0] == "1"
		case k == "lookback":
			h.cfg.MaxAcctLookback = vh.U(v[0])
		case k == "nolru":
			h.cfg.DisableLedgerLRUCache = v[0][0] == '1'
			nolruB = len(v[0]) > 1 && v[0][1] == '1'
		case k[0] == 'A':
			id := vh.U(k[1:])
			ad := basics.AccountData{Status: basics.Status(vh.U(v[0])), MicroAlgos: basics.MicroAlgos{Raw: vh.U(v[1])}}
			ad.IncentiveEligible = v[4] == "1"
			ad.VoteID = lcKey32(vh.U(v[9]))
			ad.SelectionID = lcKey32(vh.U(v[10]))
			ad.StateProofID = lcKey64(vh.U(v[11]))
			ad.VoteFirstValid = basics.Round(vh.U(v[12]))
			ad.VoteLastValid = basics.Round(vh.U(v[13]))
			ad.VoteKeyDilution = vh.U(v[14])
			accts[c20Addr(id)] = ad
		}
	}
	bal := bookkeeping.MakeTimestampedGenesisBalances(accts, c20Addr(lcSink), c20Addr(lcPool), 1700000000)
	h.cases++
	binary.BigEndian.PutUint64(h.genHash[0:8], uint64(h.cases))
	h.genHash[31] = 0x20
	genBlock, err := bookkeeping.MakeGenesisBlock(cv, bal, "verif-c20", h.genHash)
	if err != nil {
		return "reset-error " + err.Error()
	}
	h.init = ledgercore.InitState{Block: genBlock, Accounts: bal.Balances, GenesisHash: h.genHash}
	dir := h.t.TempDir()
	h.aPath = filepath.Join(dir, fmt.Sprintf("c20a-%d", h.cases))
	h.a, err = OpenLedger(logging.Base(), h.aPath, !h.onDisk, h.init, h.cfg)
	if err != nil {
		return "reset-error " + err.Error()
	}
	cfgB := config.GetDefaultLocal()
	cfgB.Archival = true
	cfgB.TxPoolSize, cfgB.VerifiedTranscationsCacheSize = 1000, 1000
	cfgB.DisableLedgerLRUCache = nolruB
	h.b, err = OpenLedger(logging.Base(), filepath.Join(dir, fmt.Sprintf("c20b-%d", h.cases)), true, h.init, cfgB)
	if err != nil {
		return "reset-error " + err.Error()
	}
	return "ok"
}

// startBlock starts the producing evaluator as data/pools' recomputeBlockEvaluator does and returns the observed constants + state
func (h *c20H) startBlock(hint int) string {
	rnd := h.a.Latest()
	prev, err := h.a.BlockHdr(rnd)
	if err != nil {
		return "start-error " + err.Error()
	}
	next := bookkeeping.MakeBlock(prev).BlockHeader
	next.TimeStamp = prev.TimeStamp + 1 // deterministic
	h.ev, err = h.a.StartEvaluator(next, hint, 0, nil)
	if err != nil {
		h.ev = nil
		return "start-error " + lcClassify(err)
	}
	h.haveBlk = false
	h.vb = nil
	p := h.ev.ConsensusParams()
	prevProto := config.Consensus[prev.CurrentProtocol]
	r := p.BalanceRequirements()
	sink, pool := h.ev.VerifLcoreSpecials()
	_, totals, _ := h.a.LatestTotals()
	poolPre, _, _ := h.a.LookupWithoutRewards(rnd, prev.RewardsPool) // the pool account before the rewards withdrawal of this block
	poolData := poolPre.WithUpdatedRewards(prevProto.RewardUnit, prev.RewardsLevel)
	var sb strings.Builder
	fmt.Fprintf(&sb, "rnd=%d level=%d unit=%d minfee=%d reqs=%d,%d,%d,%d,%d,%d,%d,%d maxmb=%d life=%d maxgrp=%d maxassets=%d maxdec=%d unfunded=%s payouts=%s goonline=%d lookback=%d coh=%s spchk=%s nonpart=%s maxkv=%d sink=%s pool=%s sp=%d ",
		h.ev.Round(), h.ev.VerifLcoreRewardsLevel(), p.RewardUnit, p.MinFee().Raw,
		r.MinBalance, r.AppFlatParamsMinBalance, r.AppFlatOptInMinBalance, r.BoxFlatMinBalance, r.BoxByteMinBalance, r.SchemaMinBalancePerEntry, r.SchemaUintMinBalance, r.SchemaBytesMinBalance,
		p.MaximumMinimumBalance, p.MaxTxnLife, p.MaxTxGroupSize, p.MaxAssetsPerAccount, p.MaxAssetDecimals, lcB(p.UnfundedSenders), lcB(p.Payouts.Enabled), p.Payouts.GoOnlineFee,
		uint64(agreement.BalanceLookback(p)), lcB(p.EnableKeyregCoherencyCheck), lcB(p.EnableStateProofKeyregCheck), lcB(p.SupportBecomeNonParticipatingTransactions), p.MaxKeyregValidPeriod,
		c20ID(sink), c20ID(pool), lcSP)
	// block-level constants (lower-case keys: the LedgerCore driver ignores them)
	fmt.Fprintf(&sb, "prs=%d,%d,%d,%d pbal=%d units=%d refresh=%d pendres=%s calcfix=%s pct=%d bonus=%d ctron=%s maxexp=%d maxabs=%d %s ",
		prev.RewardsLevel, prev.RewardsRate, prev.RewardsResidue, uint64(prev.RewardsRecalculationRound), poolData.MicroAlgos.Raw, totals.RewardUnits(),
		p.RewardsRateRefreshInterval, lcB(p.PendingResidueRewards), lcB(p.RewardsCalculationFix), p.Payouts.Percent, next.Bonus.Raw, lcB(p.TxnCounter),
		p.MaxProposedExpiredOnlineAccounts, p.Payouts.MaxMarkAbsent, "poolpre="+strings.TrimPrefix(c20AcctTok("x", poolPre), "Ax="))
	sb.WriteString(h.dump())
	return sb.String()
}

func c20AcctTok(id string, d ledgercore.AccountData) string {
	s := fmt.Sprintf("A%s=%d,%d,%d,%d,%s,%d,%d,%d,%d,%s,%s,%s,%d,%d,%d", id, uint64(d.Status), d.MicroAlgos.Raw, d.RewardsBase, d.RewardedMicroAlgos.Raw,
		lcB(d.IncentiveEligible), d.TotalAssets, d.TotalAssetParams, uint64(d.LastProposed), uint64(d.LastHeartbeat),
		lcTag32(d.VoteID), lcTag32(d.SelectionID), lcTag64(d.StateProofID), uint64(d.VoteFirstValid), uint64(d.VoteLastValid), d.VoteKeyDilution)
	if !d.AuthAddr.IsZero() || d.TotalAppSchema != (basics.StateSchema{}) || d.TotalExtraAppPages != 0 || d.TotalAppParams != 0 || d.TotalAppLocalStates != 0 || d.TotalBoxes != 0 || d.TotalBoxBytes != 0 {
		s += ",UNMODELLED"
	}
	return s
}

func c20ParamsTok(p basics.AssetParams) string {
	s := fmt.Sprintf("%d,%d,%s,%s,%s,%s,%s", p.Total, p.Decimals, lcB(p.DefaultFrozen), c20ID(p.Manager), c20ID(p.Reserve), c20ID(p.Freeze), c20ID(p.Clawback))
	if p.UnitName != "" || p.AssetName != "" || p.URL != "" || p.MetadataHash != [32]byte{} {
		s += ",UNMODELLED"
	}
	return s
}

func (h *c20H) dump() string {
	var sb strings.Builder
	fmt.Fprintf(&sb, "payset=%d fees=%d ctr=%d", h.ev.PaySetSize(), h.ev.VerifLcoreFees(), h.ev.VerifLcoreCounter())
	for id := uint64(0); id < lcN; id++ {
		sb.WriteByte(' ')
		d, err := h.ev.VerifLcoreLookup(c20Addr(id))
		if err != nil {
			fmt.Fprintf(&sb, "A%d=ERR", id)
		} else {
			sb.WriteString(c20AcctTok(strconv.FormatUint(id, 10), d))
		}
	}
	for _, aid := range h.known {
		cr, ok, err := h.ev.VerifLcoreCreator(basics.AssetIndex(aid))
		if err != nil {
			fmt.Fprintf(&sb, " C%d=ERR", aid)
		} else if ok {
			fmt.Fprintf(&sb, " C%d=%s", aid, c20ID(cr))
		}
	}
	for _, aid := range h.known {
		for id := uint64(0); id < lcN; id++ {
			p, ok, err := h.ev.VerifLcoreParams(c20Addr(id), basics.AssetIndex(aid))
			if err != nil {
				fmt.Fprintf(&sb, " P%d@%d=ERR", aid, id)
			} else if ok {
				fmt.Fprintf(&sb, " P%d@%d=%s", aid, id, c20ParamsTok(p))
			}
		}
	}
	for _, aid := range h.known {
		for id := uint64(0); id < lcN; id++ {
			hd, ok, err := h.ev.VerifLcoreHolding(c20Addr(id), basics.AssetIndex(aid))
			if err != nil {
				fmt.Fprintf(&sb, " H%d@%d=ERR", aid, id)
			} else if ok {
				fmt.Fprintf(&sb, " H%d@%d=%d,%s", aid, id, hd.Amount, lcB(hd.Frozen))
			}
		}
	}
	return sb.String()
}

// view builds the LedgerCore generator's view of the producing evaluator (addresses inside asset params are translated to
// the generator's own address space, which it only uses to map them back to ids)
func (h *c20H) view() *lcView {
	v := &lcView{params: map[uint64]basics.AssetParams{}, creat: map[uint64]uint64{}, hold: map[[2]uint64]basics.AssetHolding{}}
	tr := func(a basics.Address) basics.Address {
		if id, ok := c20IDn(a); ok {
			return lcAddr(id)
		}
		return a
	}
	for id := uint64(0); id < lcN; id++ {
		v.acct[id], _ = h.ev.VerifLcoreLookup(c20Addr(id))
	}
	for _, aid := range h.known {
		if cr, ok, _ := h.ev.VerifLcoreCreator(basics.AssetIndex(aid)); ok {
			if c, ok1 := c20IDn(cr); ok1 {
				v.creat[aid] = c
			}
			if p, ok2, _ := h.ev.VerifLcoreParams(cr, basics.AssetIndex(aid)); ok2 {
				p.Manager, p.Reserve, p.Freeze, p.Clawback = tr(p.Manager), tr(p.Reserve), tr(p.Freeze), tr(p.Clawback)
				v.params[aid] = p
				v.assets = append(v.assets, aid)
			}
		}
		for id := uint64(0); id < lcN; id++ {
			if hd, ok, _ := h.ev.VerifLcoreHolding(c20Addr(id), basics.AssetIndex(aid)); ok {
				v.hold[[2]uint64{id, aid}] = hd
			}
		}
	}
	return v
}

// ----------------------------------------------------------------------------------------------- transactions

func (h *c20H) parseTxn(s string) (transactions.Transaction, uint64, uint64, error) {
	f := strings.Split(s, ",")
	if len(f) < 7 {
		return transactions.Transaction{}, 0, 0, fmt.Errorf("short txn")
	}
	u := func(i int) uint64 { return vh.U(f[i]) }
	var tx transactions.Transaction
	tx.Header = transactions.Header{Sender: c20Addr(u(1)), Fee: basics.MicroAlgos{Raw: u(2)}, FirstValid: basics.Round(u(3)), LastValid: basics.Round(u(4)), GenesisHash: h.a.GenesisHash()}
	if n := u(5); n != 0 {
		tx.Note = make([]byte, 8)
		binary.BigEndian.PutUint64(tx.Note, n)
	}
	need := map[string]int{"pay": 10, "keyreg": 14, "acfg": 15, "axfer": 12, "afrz": 10, "appl": 11}[f[0]]
	if need == 0 || len(f) != need {
		return tx, 0, 0, fmt.Errorf("bad txn %q", s)
	}
	switch f[0] {
	case "pay":
		tx.Type = protocol.PaymentTx
		tx.Receiver = c20Addr(u(7))
		tx.Amount = basics.MicroAlgos{Raw: u(8)}
		tx.CloseRemainderTo = c20Addr(u(9))
	case "keyreg":
		tx.Type = protocol.KeyRegistrationTx
		tx.VotePK = crypto.OneTimeSignatureVerifier(lcKey32(u(7)))
		tx.SelectionPK = crypto.VRFVerifier(lcKey32(u(8)))
		tx.StateProofPK = lcKey64(u(9))
		tx.VoteFirst = basics.Round(u(10))
		tx.VoteLast = basics.Round(u(11))
		tx.VoteKeyDilution = u(12)
		tx.Nonparticipation = f[13] == "1"
	case "acfg":
		tx.Type = protocol.AssetConfigTx
		tx.ConfigAsset = basics.AssetIndex(u(7))
		tx.AssetParams = basics.AssetParams{Total: u(8), Decimals: uint32(u(9)), DefaultFrozen: f[10] == "1",
			Manager: c20Addr(u(11)), Reserve: c20Addr(u(12)), Freeze: c20Addr(u(13)), Clawback: c20Addr(u(14))}
	case "axfer":
		tx.Type = protocol.AssetTransferTx
		tx.XferAsset = basics.AssetIndex(u(7))
		tx.AssetAmount = u(8)
		tx.AssetSender = c20Addr(u(9))
		tx.AssetReceiver = c20Addr(u(10))
		tx.AssetCloseTo = c20Addr(u(11))
	case "afrz":
		tx.Type = protocol.AssetFreezeTx
		tx.FreezeAsset = basics.AssetIndex(u(7))
		tx.FreezeAccount = c20Addr(u(8))
		tx.AssetFrozen = f[9] == "1"
	case "appl": // appl,snd,fee,fv,lv,note,grp,<app id | 0 = create>,<on completion 0..5>,<arg 0 none 1 copy 2 set 3 box>,<account id | 0>
		approval, clear := c20Programs()
		tx.Type = protocol.ApplicationCallTx
		tx.ApplicationID = basics.AppIndex(u(7))
		tx.OnCompletion = transactions.OnCompletion(u(8))
		if u(7) == 0 || tx.OnCompletion == transactions.UpdateApplicationOC {
			tx.ApprovalProgram, tx.ClearStateProgram = approval, clear
		}
		if u(7) == 0 {
			tx.LocalStateSchema = basics.StateSchema{NumUint: 1}
			tx.GlobalStateSchema = basics.StateSchema{NumUint: 1}
		}
		switch u(9) {
		case 1:
			tx.ApplicationArgs = [][]byte{[]byte("copy")}
		case 2:
			tx.ApplicationArgs = [][]byte{[]byte("set"), []byte("it")}
		case 3:
			v := make([]byte, 8)
			binary.BigEndian.PutUint64(v, u(5))
			tx.ApplicationArgs = [][]byte{[]byte("box"), v}
			tx.Boxes = []transactions.BoxRef{{Index: 0, Name: []byte("b")}}
		}
		if u(10) != 0 {
			tx.Accounts = []basics.Address{c20Addr(u(10))}
		}
	}
	return tx, u(6), u(1), nil
}

func (h *c20H) group(op string) string {
	rest := strings.TrimSpace(strings.TrimPrefix(op, "group"))
	var txs []transactions.Transaction
	var tags, snd []uint64
	if rest != "" {
		for _, s := range strings.Split(rest, ";") {
			tx, tag, sender, err := h.parseTxn(s)
			if err != nil {
				return "bad-op"
			}
			txs = append(txs, tx)
			tags = append(tags, tag)
			snd = append(snd, sender)
		}
	}
	var tg transactions.TxGroup
	for i := range txs {
		tg.TxGroupHashes = append(tg.TxGroupHashes, crypto.Digest(txs[i].ID()))
	}
	correct := crypto.HashObj(tg)
	stxns := make([]transactions.SignedTxn, len(txs))
	for i := range txs {
		switch tags[i] {
		case 0:
		case 1:
			txs[i].Group = correct
		default:
			var b [40]byte
			copy(b[:32], correct[:])
			binary.BigEndian.PutUint64(b[32:], tags[i])
			txs[i].Group = crypto.Hash(b[:])
		}
		// signed as the transaction pool receives it; senders without a key (zero address, StateProofSender) stay unsigned:
		// such transactions are never well formed, so they never reach a block
		if snd[i] >= 1 && snd[i] <= lcPool {
			stxns[i] = txs[i].Sign(c20Keys[snd[i]])
		} else {
			stxns[i] = transactions.SignedTxn{Txn: txs[i]}
		}
	}
	ctrBefore := h.ev.VerifLcoreCounter()
	h.created = nil
	err := h.ev.TransactionGroup(transactions.WrapSignedTxnsWithAD(stxns)...)
	cls := lcClassify(err)
	if err != nil {
		m := err.Error()
		if strings.HasPrefix(m, "transaction ") {
			for i := range stxns {
				if strings.HasPrefix(m, "transaction "+stxns[i].Txn.ID().String()+":") {
					cls += "@" + strconv.Itoa(i)
					break
				}
			}
		}
	} else {
		for i := range stxns {
			if stxns[i].Txn.Type == protocol.AssetConfigTx && stxns[i].Txn.ConfigAsset == 0 {
				h.addKnown(ctrBefore + uint64(i) + 1)
			}
			if stxns[i].Txn.Type == protocol.ApplicationCallTx && stxns[i].Txn.ApplicationID == 0 {
				h.apps = append(h.apps, ctrBefore+uint64(i)+1)
				h.created = append(h.created, ctrBefore+uint64(i)+1)
			}
		}
	}
	return cls + " | " + h.dump()
}

// (the producer's list order comes from a Go map iteration)
func c20IDs(as []basics.Address, sorted bool) string {
	if len(as) == 0 {
		return "-"
	}
	var ids []string
	for _, a := range as {
		ids = append(ids, c20ID(a))
	}
	if sorted {
		sort.Strings(ids)
	}
	return strings.Join(ids, ",")
}

// gen: GenerateBlock + FinishBlock, as AssembleBlock + agreement's proposalForBlock do
func (h *c20H) gen(op string) string {
	var prp uint64
	elig := false
	var part []basics.Address
	for _, tok := range strings.Fields(op)[1:] {
		k, v := lcFields(tok)
		switch k {
		case "prp":
			prp = vh.U(v[0])
		case "elig":
			elig = v[0] == "1"
		case "part":
			if v[0] != "-" {
				for _, x := range v {
					part = append(part, c20Addr(vh.U(x)))
				}
			}
		}
	}
	ub, err := h.ev.GenerateBlock(part)
	h.ev = nil
	if err != nil {
		return "gen-error " + c20Reject(err) + " " + strings.ReplaceAll(c20Short(err.Error()), " ", "_")
	}
	h.maxPay = ub.UnfinishedBlock().ProposerPayout().Raw
	genRes := c20ResDigest(ub.UnfinishedDeltas()) // the producer's own state change (no prefetcher), proposer-independent part
	prpAddr := c20Addr(prp)
	h.blk = ub.FinishBlock(committee.Seed(prpAddr), prpAddr, elig)
	h.haveBlk = true
	b := h.blk
	sp := b.StateProofTracking[protocol.StateProofBasic]
	return fmt.Sprintf("gen exp=%s abs=%s | res=%s bonus=%d load=%d spnext=%d commit=%s",
		c20IDs(b.ParticipationUpdates.ExpiredParticipationAccounts, false), c20IDs(b.ParticipationUpdates.AbsentParticipationAccounts, false),
		genRes, b.Bonus.Raw, uint64(b.Load), uint64(sp.StateProofNextRound), hex.EncodeToString(b.TxnCommitments.NativeSha512_256Commitment[:6]))
}

// hdr: the header fields of the finished block that the model derives.  The op carries the expired / absent lists the producer
// chose (an input of the model: they depend on Go map iteration order and on the online-account tracker); on replay they are
// compared as sets.
func (h *c20H) hdr(op string) string {
	if !h.haveBlk {
		return "bad-op"
	}
	b := h.blk
	for _, tok := range strings.Fields(op)[1:] {
		k, v := lcFields(tok)
		var have string
		switch k {
		case "exp":
			have = c20IDs(b.ParticipationUpdates.ExpiredParticipationAccounts, true)
		case "abs":
			have = c20IDs(b.ParticipationUpdates.AbsentParticipationAccounts, true)
		default:
			continue
		}
		want := append([]string{}, v...)
		sort.Strings(want)
		if strings.Join(want, ",") != have {
			return "DIVERGED " + k + "=" + have
		}
	}
	return fmt.Sprintf("hdr payset=%d ctr=%d fees=%d maxpayout=%d payout=%d rs=%d,%d,%d,%d prp=%s",
		len(b.Payset), b.TxnCounter, b.FeesCollected.Raw, h.maxPay, b.ProposerPayout().Raw,
		b.RewardsLevel, b.RewardsRate, b.RewardsResidue, uint64(b.RewardsRecalculationRound), c20ID(b.Proposer()))
}

// ----------------------------------------------------------------------------------------------- canonical delta

func c20ResTok(r ledgercore.AssetResourceRecord) string {
	p, hd := "-", "-"
	if r.Params.Deleted {
		p = "del"
	} else if r.Params.Params != nil {
		p = c20ParamsTok(*r.Params.Params)
	}
	if r.Holding.Deleted {
		hd = "del"
	} else if r.Holding.Holding != nil {
		hd = fmt.Sprintf("%d,%s", r.Holding.Holding.Amount, lcB(r.Holding.Holding.Frozen))
	}
	return fmt.Sprintf("R%d@%s=%s/%s", uint64(r.Aidx), c20ID(r.Addr), p, hd)
}

func c20AppResStr(r ledgercore.AppResourceRecord) string {
	ps, ls := "nil", "nil"
	if r.Params.Params != nil {
		p := *r.Params.Params
		ps = fmt.Sprintf("{%x %x %+v %+v %d %d %v %v %v}", sha256.Sum256(p.ApprovalProgram), sha256.Sum256(p.ClearStateProgram), c20KV(p.GlobalState), p.StateSchemas, p.ExtraProgramPages, p.Version, p.SizeSponsor, p.ForeignBoxReads, p.FamilyBoxAccess)
	}
	if r.State.LocalState != nil {
		ls = fmt.Sprintf("{%+v %s}", r.State.LocalState.Schema, c20KV(r.State.LocalState.KeyValue))
	}
	return fmt.Sprintf("appres %s %d params=%s/%v local=%s/%v", c20ID(r.Addr), uint64(r.Aidx), ps, r.Params.Deleted, ls, r.State.Deleted)
}

func c20KV(kv basics.TealKeyValue) string {
	var ks []string
	for k := range kv {
		ks = append(ks, k)
	}
	sort.Strings(ks)
	var sb strings.Builder
	for _, k := range ks {
		fmt.Fprintf(&sb, "%q=%+v;", k, kv[k])
	}
	return "[" + sb.String() + "]"
}

// c20ResDigest: digest of everything in the delta that does NOT depend on the proposer (asset / application resources,
// creatables, kv mods, txids): the producer's own delta (GenerateBlock, no prefetcher) and every validation delta must agree on it
func c20ResDigest(sd ledgercore.StateDelta) string {
	var full []string
	for _, r := range sd.Accts.AssetResources {
		full = append(full, c20ResTok(r))
	}
	for _, r := range sd.Accts.AppResources {
		full = append(full, c20AppResStr(r))
	}
	for i, c := range sd.Creatables {
		full = append(full, fmt.Sprintf("creat %d %d %v %s", i, c.Ctype, c.Created, c20ID(c.Creator)))
	}
	for k, v := range sd.KvMods {
		full = append(full, fmt.Sprintf("kv %x %x %v", k, v.Data, v.Data == nil))
	}
	for id, it := range sd.Txids {
		full = append(full, fmt.Sprintf("txid %x %d %d", id[:], it.LastValid, it.Intra))
	}
	sort.Strings(full)
	sum := sha256.Sum256([]byte(strings.Join(full, "\n")))
	return hex.EncodeToString(sum[:8])
}

// c20Delta renders the StateDelta: x = digest over a SORTED full-content rendering (every field of every record, txids,
// leases, kv mods, creatables, totals, state-proof-next, previous timestamp, header hash); D = accounts / asset resources
// / creatables in delta order in the LedgerCore model's terms; T = totals.
func c20Delta(sd ledgercore.StateDelta, withHdr bool) string {
	var full []string
	var d strings.Builder
	d.WriteString("D:")
	for _, r := range sd.Accts.Accts {
		full = append(full, fmt.Sprintf("acct %x %+v", r.Addr[:], r.AccountData))
		d.WriteByte(' ')
		d.WriteString(c20AcctTok(c20ID(r.Addr), r.AccountData))
	}
	for _, r := range sd.Accts.AssetResources {
		ps, hs := "nil", "nil"
		if r.Params.Params != nil {
			ps = fmt.Sprintf("%+v", *r.Params.Params)
		}
		if r.Holding.Holding != nil {
			hs = fmt.Sprintf("%+v", *r.Holding.Holding)
		}
		full = append(full, fmt.Sprintf("ares %x %d %s %v %s %v", r.Addr[:], r.Aidx, ps, r.Params.Deleted, hs, r.Holding.Deleted))
		d.WriteByte(' ')
		d.WriteString(c20ResTok(r))
	}
	for _, r := range sd.Accts.AppResources {
		full = append(full, c20AppResStr(r))
	}
	var cidx []uint64
	for i := range sd.Creatables {
		cidx = append(cidx, uint64(i))
	}
	sort.Slice(cidx, func(i, j int) bool { return cidx[i] < cidx[j] })
	for _, i := range cidx {
		c := sd.Creatables[basics.CreatableIndex(i)]
		full = append(full, fmt.Sprintf("creat %d %d %v %x", i, c.Ctype, c.Created, c.Creator[:]))
		fmt.Fprintf(&d, " C%d=%s,%s", i, c20ID(c.Creator), lcB(c.Created))
	}
	for id, it := range sd.Txids {
		full = append(full, fmt.Sprintf("txid %x %d %d", id[:], it.LastValid, it.Intra))
	}
	for l, r := range sd.Txleases {
		full = append(full, fmt.Sprintf("lease %x %x %d", l.Sender[:], l.Lease[:], r))
	}
	for k, v := range sd.KvMods {
		full = append(full, fmt.Sprintf("kv %x %x %v", k, v.Data, v.Data == nil))
	}
	t := sd.Totals
	tot := fmt.Sprintf("T: txids=%d on=%d,%d off=%d,%d np=%d,%d lvl=%d spnext=%d", len(sd.Txids), t.Online.Money.Raw, t.Online.RewardUnits, t.Offline.Money.Raw, t.Offline.RewardUnits,
		t.NotParticipating.Money.Raw, t.NotParticipating.RewardUnits, t.RewardsLevel, uint64(sd.StateProofNext))
	full = append(full, tot, fmt.Sprintf("prevts %d", sd.PrevTimestamp))
	if withHdr && sd.Hdr != nil {
		hh := sd.Hdr.Hash()
		full = append(full, fmt.Sprintf("hdr %x", hh[:]))
	}
	sort.Strings(full)
	sum := sha256.Sum256([]byte(strings.Join(full, "\n")))
	return fmt.Sprintf("ok x=%s res=%s | %s | %s", hex.EncodeToString(sum[:10]), c20ResDigest(sd), d.String(), tot)
}

func c20Reject(err error) string {
	m := err.Error()
	for _, p := range [][2]string{
		{"bad rewards state", "rewards"}, {"txn root wrong", "commit"}, {"txn count wrong", "ctr"}, {"fees collected wrong", "fees"},
		{"feesCollected", "fees-disabled"}, {"payout, ", "payout"}, {"present when payouts disabled", "payouts-disabled"}, {"bad bonus", "bonus"},
		{"proposer missing", "proposer"}, {"is closed but expects payout", "proposer-closed"}, {"bad load", "load"}, {"load should be zero", "load"},
		{"StateProofNextRound wrong", "spnext"}, {"StateProofVotersCommitment", "spvoters"}, {"StateProofOnlineTotalWeight", "spweight"},
		{"length of expired accounts", "exp-len"}, {"length of absent accounts", "abs-len"}, {"duplicate address found", "dup-address"},
		{"had no vote key", "exp-nokey"}, {"was not less than current round", "exp-notyet"}, {"not Online", "abs-notonline"},
		{"with zero algos", "abs-zero"}, {"not IncentiveEligible", "abs-notelig"}, {"is not absent", "abs-notabsent"},
		{"applyData mismatch", "applydata"}, {"applyData not supported", "applydata"}, {"bad timestamp", "timestamp"}, {"block round incorrect", "round"},
		{"genesis hash", "genhash"}, {"block branch", "branch"}, {"bad congestion tax", "contax"}, {"UpgradeState mismatch", "upgrade"},
		{"non-sequential", "nonseq"}, {"signature", "sig"}, {"At least one signature didn't pass verification", "sig"},
	} {
		if strings.Contains(m, p[0]) {
			return p[1]
		}
	}
	return lcClassify(err)
}

func (h *c20H) freshCache() { h.a.verifiedTxnCache = verify.MakeVerifiedTransactionCache(h.cfg.VerifiedTranscationsCacheSize) }

func (h *c20H) reopenA() error {
	if h.onDisk {
		h.a.Close()
		var err error
		h.a, err = OpenLedger(logging.Base(), h.aPath, false, h.init, h.cfg)
		return err
	}
	err := h.a.reloadLedger()
	h.a.trackers.waitAccountsWriting()
	return err
}

func (h *c20H) validateCfg(name string, blk bookkeeping.Block) (*ledgercore.StateDelta, error) {
	ctx := context.Background()
	one := func(vb *ledgercore.ValidatedBlock, err error) (*ledgercore.StateDelta, error) {
		if err != nil {
			return nil, err
		}
		d := vb.Delta()
		if h.vb == nil && name != "replica" && blk.Hash() == h.blk.Hash() {
			h.vb = vb
		}
		return &d, nil
	}
	custom := func(workers int, seed uint64, delay int) (*ledgercore.StateDelta, error) {
		h.freshCache()
		p := c20MakePool(workers, seed, delay)
		bl := execpool.MakeBacklog(p, 0, execpool.LowPriority, nil)
		defer func() { bl.Shutdown(); p.Shutdown() }()
		return one(h.a.Validate(ctx, blk, bl))
	}
	switch {
	case name == "real":
		h.freshCache()
		return one(h.a.Validate(ctx, blk, h.realPool))
	case name == "warm":
		return one(h.a.Validate(ctx, blk, h.realPool))
	case name == "w1":
		return custom(1, uint64(blk.Round()), 300)
	case name == "slow1": // the signature checks finish long after the transaction loop
		return custom(1, uint64(blk.Round()), 30000)
	case strings.HasPrefix(name, "w3s"):
		return custom(3, vh.U(name[3:]), 300)
	case strings.HasPrefix(name, "w7s"):
		return custom(7, vh.U(name[3:]), 300)
	case name == "nosig":
		return one(validateWithoutSignatures(h.t, h.a, blk))
	case name == "nopf":
		d, err := eval.VerifC20EvalNoPrefetch(h.a, blk, true)
		return &d, err
	case name == "add":
		d, err := eval.Eval(ctx, h.a, blk, false, h.a.verifiedTxnCache, nil, nil)
		return &d, err
	case name == "addnopf":
		d, err := eval.VerifC20EvalNoPrefetch(h.a, blk, false)
		return &d, err
	case name == "replica":
		return one(h.b.Validate(ctx, blk, h.realPool))
	case name == "cold":
		if err := h.reopenA(); err != nil {
			return nil, fmt.Errorf("reopen: %w", err)
		}
		return one(h.a.Validate(ctx, blk, h.realPool))
	}
	return nil, fmt.Errorf("unknown configuration")
}

func (h *c20H) validate(op string) string {
	if !h.haveBlk {
		return "bad-op"
	}
	name := strings.TrimPrefix(strings.Fields(op)[1], "cfg=")
	d, err := h.validateCfg(name, h.blk)
	if err != nil {
		return "reject " + c20Reject(err) + " " + strings.ReplaceAll(c20Short(err.Error()), " ", "_")
	}
	return c20Delta(*d, true)
}

func c20Short(m string) string {
	if len(m) > 100 {
		m = m[:100]
	}
	return m
}

// ----------------------------------------------------------------------------------------------- mutations

func (h *c20H) mutate(op string) string {
	if !h.haveBlk {
		return "bad-op"
	}
	f := strings.Fields(op)
	if len(f) < 2 {
		return "bad-op"
	}
	arg := uint64(0)
	if len(f) > 2 {
		arg = vh.U(f[2])
	}
	b := h.blk // header copied by value; slices / maps are copied below before they are changed
	recommit := func() {
		c, err := b.PaysetCommit()
		if err != nil {
			panic(err)
		}
		b.TxnCommitments = c
	}
	switch f[1] {
	case "fees+1":
		b.FeesCollected.Raw++
	case "fees-1":
		b.FeesCollected.Raw--
	case "ctr+1":
		b.TxnCounter++
	case "ctr-1":
		b.TxnCounter--
	case "commit":
		b.TxnCommitments.NativeSha512_256Commitment[arg%32] ^= 1 << (arg % 8)
	case "commit256":
		b.TxnCommitments.Sha256Commitment[arg%32] ^= 1 << (arg % 8)
	case "commit512":
		b.TxnCommitments.Sha512Commitment[arg%64] ^= 1 << (arg % 8)
	case "level+1":
		b.RewardsLevel++
	case "level-1":
		b.RewardsLevel--
	case "residue+1":
		b.RewardsResidue++
	case "rate+1":
		b.RewardsRate++
	case "recalc+1":
		b.RewardsRecalculationRound++
	case "payout":
		b.BlockHeader.ProposerPayout = basics.MicroAlgos{Raw: arg}
	case "bonus+1":
		b.Bonus.Raw++
	case "prp0":
		b.BlockHeader.Proposer = basics.Address{}
	case "prpset":
		b.BlockHeader.Proposer = c20Addr(arg)
	case "load+1":
		b.Load++
	case "spnext+1":
		m := make(map[protocol.StateProofType]bookkeeping.StateProofTrackingData)
		for k, v := range b.StateProofTracking {
			m[k] = v
		}
		x := m[protocol.StateProofBasic]
		x.StateProofNextRound++
		m[protocol.StateProofBasic] = x
		b.StateProofTracking = m
	case "exp+":
		b.ParticipationUpdates.ExpiredParticipationAccounts = append(append([]basics.Address{}, b.ParticipationUpdates.ExpiredParticipationAccounts...), c20Addr(arg))
	case "abs+":
		b.ParticipationUpdates.AbsentParticipationAccounts = append(append([]basics.Address{}, b.ParticipationUpdates.AbsentParticipationAccounts...), c20Addr(arg))
	case "adrewards", "adclose", "adasset":
		if int(arg) >= len(b.Payset) {
			return "bad-op"
		}
		ps := append(transactions.Payset{}, b.Payset...)
		switch f[1] {
		case "adrewards":
			ps[arg].ApplyData.SenderRewards.Raw++
		case "adclose":
			ps[arg].ApplyData.ClosingAmount.Raw++
		case "adasset":
			ps[arg].ApplyData.ConfigAsset++
		}
		b.Payset = ps
		recommit()
	case "sig":
		// a corrupted signature (the commitments are recomputed: they cover the signature)
		if int(arg) >= len(b.Payset) {
			return "bad-op"
		}
		ps := append(transactions.Payset{}, b.Payset...)
		ps[arg].Sig[int(arg)%64] ^= 0x40
		b.Payset = ps
		recommit()
	case "droplast":
		if len(b.Payset) == 0 {
			return "bad-op"
		}
		b.Payset = append(transactions.Payset{}, b.Payset[:len(b.Payset)-1]...)
		recommit()
	case "ts-":
		b.TimeStamp -= 2
	case "genhash":
		b.BlockHeader.GenesisHash[0] ^= 1
	case "rnd+1":
		b.BlockHeader.Round++
	case "sink":
		b.FeeSink = c20Addr(arg)
	default:
		return "bad-op"
	}
	if f[1] == "sig" {
		// the verdict must not depend on how the signature checks are scheduled: real pool, then slow 1- and 3-worker pools
		// (the evaluation loop finishes long before they do); a fresh verified-transaction cache each time
		cls := ""
		for _, cn := range []string{"real", "slow1", "w3s" + strconv.FormatUint(arg, 10)} {
			d, err := h.validateCfg(cn, b)
			if err == nil {
				return "ACCEPTED[" + cn + "] " + c20Delta(*d, true)
			}
			if cls == "" {
				cls = c20Reject(err)
			}
		}
		h.freshCache()
		return "rejected " + cls
	}
	vb, err := h.a.Validate(context.Background(), b, h.realPool)
	if err != nil {
		return "rejected " + c20Reject(err)
	}
	d := vb.Delta()
	return "ACCEPTED " + c20Delta(d, true)
}

// ----------------------------------------------------------------------------------------------- commit

func (h *c20H) stateDigest(l *Ledger) string {
	rnd := l.Latest()
	var parts []string
	for id := uint64(0); id < lcN; id++ {
		d, _, err := l.LookupWithoutRewards(rnd, c20Addr(id))
		parts = append(parts, fmt.Sprintf("%d %+v %v", id, d, err))
		for _, aid := range h.known {
			r, err := l.LookupAsset(rnd, c20Addr(id), basics.AssetIndex(aid))
			if err == nil && (r.AssetHolding != nil || r.AssetParams != nil) {
				ps, hs := "nil", "nil"
				if r.AssetParams != nil {
					ps = fmt.Sprintf("%+v", *r.AssetParams)
				}
				if r.AssetHolding != nil {
					hs = fmt.Sprintf("%+v", *r.AssetHolding)
				}
				parts = append(parts, fmt.Sprintf("%d/%d %s %s", id, aid, ps, hs))
			}
		}
	}
	for _, app := range h.apps {
		for id := uint64(0); id < lcN; id++ {
			r, err := l.LookupApplication(rnd, c20Addr(id), basics.AppIndex(app))
			if err != nil || r.AppParams != nil || r.AppLocalState != nil {
				rec := ledgercore.AppResourceRecord{Aidx: basics.AppIndex(app), Addr: c20Addr(id)}
				rec.Params.Params, rec.State.LocalState = r.AppParams, r.AppLocalState
				parts = append(parts, fmt.Sprintf("%s %v", c20AppResStr(rec), err))
			}
		}
		box, err := l.LookupKv(rnd, apps.MakeBoxKey(app, "b"))
		parts = append(parts, fmt.Sprintf("box %d %x %v", app, box, err))
		d, _, err := l.LookupWithoutRewards(rnd, c20Addr(app))
		parts = append(parts, fmt.Sprintf("appacct %d %+v %v", app, d, err))
	}
	_, tot, err := l.LatestTotals()
	parts = append(parts, fmt.Sprintf("tot %+v %v", tot, err))
	hdr, _ := l.BlockHdr(rnd)
	hh := hdr.Hash()
	parts = append(parts, fmt.Sprintf("hdr %x", hh[:]))
	if os.Getenv("VERIF_C20_DEBUG") != "" {
		fmt.Fprintf(os.Stderr, "STATE %p rnd=%d\n%s\n", l, rnd, strings.Join(parts, "\n"))
	}
	sum := sha256.Sum256([]byte(strings.Join(parts, "\n")))
	return hex.EncodeToString(sum[:10])
}

func (h *c20H) commit(op string) string {
	if !h.haveBlk {
		return "bad-op"
	}
	flush := strings.Contains(op, "flush=1")
	if h.vb == nil {
		vb, err := h.a.Validate(context.Background(), h.blk, h.realPool)
		if err != nil {
			return "commit-error validate:" + c20Reject(err)
		}
		h.vb = vb
	}
	if err := h.a.AddValidatedBlock(*h.vb, agreement.Certificate{}); err != nil {
		return "commit-error add:" + c20Short(err.Error())
	}
	h.a.WaitForCommit(h.a.Latest())
	if err := h.b.AddBlock(h.blk, agreement.Certificate{}); err != nil {
		return "commit-error replica:" + c20Short(err.Error())
	}
	h.b.WaitForCommit(h.b.Latest())
	if flush {
		triggerTrackerFlush(h.t, h.a)
	}
	// No tracker commit may run in the background while the next block is evaluated: the in-memory sqlite databases use
	// a shared cache with table-level locks, and a lookup that meets the committing transaction gives up after 1000
	// immediate retries ("database table is locked") — an artefact of the in-memory test databases (on-disk ones use WAL),
	// not of the evaluator.  The block queue's syncer signals WaitForCommit BEFORE it schedules the tracker commit, so the
	// commit is scheduled here synchronously (the syncer's own later call then finds nothing to do) and awaited.
	for _, l := range []*Ledger{h.a, h.b} {
		l.notifyCommit(l.Latest())
		l.trackers.waitAccountsWriting()
	}
	h.haveBlk = false
	h.vb = nil
	return fmt.Sprintf("ok rnd=%d sa=%s sb=%s", uint64(h.a.Latest()), h.stateDigest(h.a), h.stateDigest(h.b))
}

var c20Time = map[string]time.Duration{}

func (h *c20H) exec(op string) string {
	t0 := time.Now()
	defer func() {
		k := strings.Fields(op)
		key := k[0]
		if key == "validate" && len(k) > 1 {
			key += " " + strings.TrimRight(k[1], "0123456789")
		}
		c20Time[key] += time.Since(t0)
	}()
	return vh.Catch(func() string {
		switch {
		case strings.HasPrefix(op, "reset"):
			return h.reset(op)
		case h.a == nil:
			return "bad-op"
		case strings.HasPrefix(op, "block "):
			hint := 0
			if i := strings.Index(op, " hint="); i >= 0 {
				hint = int(vh.U(strings.Fields(op[i+6:])[0]))
			}
			obs := h.startBlock(hint)
			if strings.HasPrefix(obs, "start-error") {
				return obs
			}
			want := strings.TrimPrefix(op, "block ")
			if i := strings.Index(want, " hint="); i >= 0 {
				want = want[:i]
			}
			if obs != want {
				return "DIVERGED " + obs
			}
			return "ok"
		case strings.HasPrefix(op, "hdr"):
			return h.hdr(op)
		case strings.HasPrefix(op, "validate "):
			return h.validate(op)
		case strings.HasPrefix(op, "mutate "):
			return h.mutate(op)
		case strings.HasPrefix(op, "commit"):
			return h.commit(op)
		case h.ev == nil:
			return "bad-op"
		case strings.HasPrefix(op, "group"):
			return h.group(op)
		case op == "dump":
			return h.dump()
		case strings.HasPrefix(op, "gen "):
			return h.gen(op)
		}
		return "bad-op"
	})
}

// ----------------------------------------------------------------------------------------------- generator

type c20Gen struct {
	r    *vh.Rng
	h    *c20H
	lg   *lcGen
	apps bool // this case carries application calls
}

func (g *c20Gen) genesis(c int) (string, string) {
	r := g.r
	// every protocol appears in every run: the case number (offset by the seed) selects it
	protos := []string{"fast", "future", "v39", "current", "v40", "fast", "v41", "future"}
	proto := protos[(c+int(vh.Seed()%8))%len(protos)]
	var sb strings.Builder
	disk, lookback := 0, 4
	if r.Chance(20) {
		disk = 1
	}
	if r.Chance(40) {
		lookback = 1 + r.Intn(2)
	}
	// (opening a ledger with its LRU account caches allocates 100000-entry lists, maps and channels: the dominant cost of a case)
	nolru := []string{"01", "01", "10", "11", "11"}[r.Intn(5)]
	fmt.Fprintf(&sb, "reset proto=%s disk=%d lookback=%d nolru=%s apps=%s", proto, disk, lookback, nolru, lcB(g.apps))
	mb := uint64(100000)
	huge := false
	for id := uint64(1); id <= 6; id++ {
		var bal uint64
		switch r.Intn(10) {
		case 0:
			bal = 0
		case 1:
			bal = mb
		case 2:
			bal = mb + uint64(r.Intn(3000))
		case 3:
			bal = 999999
		case 4:
			bal = 1000000 + uint64(r.Intn(2000000))
		default:
			bal = uint64(5+r.Intn(200)) * 1000000
		}
		if r.Chance(4) && !huge {
			bal = 1 << 62
			huge = true
		}
		st, vid, sid, spid, vf, vl, vkd, ie := 0, 0, 0, 0, 0, 0, 0, "0"
		if bal >= mb && r.Chance(45) {
			st, vid, sid, spid, vf, vkd = 1, int(10+id), int(20+id), int(30+id), 1, 100
			switch r.Intn(4) {
			case 0:
				vl = 1 + r.Intn(4) // expires within the history
			default:
				vl = 100 + r.Intn(5000)
			}
			if r.Chance(60) {
				ie = "1"
			}
		} else if r.Chance(8) {
			st = 2
		}
		fmt.Fprintf(&sb, " A%d=%d,%d,0,0,%s,0,0,0,0,%d,%d,%d,%d,%d,%d", id, st, bal, ie, vid, sid, spid, vf, vl, vkd)
	}
	sinks := []uint64{mb, mb + 5000, 1000000, 50000000, 50000000, 20000000000}
	fmt.Fprintf(&sb, " A%d=2,%d,0,0,0,0,0,0,0,0,0,0,0,0,0", lcSink, sinks[r.Intn(len(sinks))])
	pools := []uint64{mb, 1000000, 1000000000, 500000000000, 500000000000, 50000000000000}
	pst := 2
	if r.Chance(10) {
		pst = 0
	}
	fmt.Fprintf(&sb, " A%d=%d,%d,0,0,0,0,0,0,0,0,0,0,0,0,0", lcPool, pst, pools[r.Intn(len(pools))])
	return sb.String(), proto
}

var c20Cfgs = []string{"real", "warm", "w1", "slow1", "w3s", "w7s", "nosig", "nopf", "add", "addnopf", "replica", "cold"}

func TestVerifC20(t *testing.T) {
	t.Chdir(t.TempDir())
	logging.Base().SetLevel(logging.Panic)
	c20Init()
	out := vh.Open("c20")
	defer out.Close()
	h := &c20H{t: t}
	h.realPool = execpool.MakeBacklog(nil, 0, execpool.LowPriority, h)
	defer h.realPool.Shutdown()
	defer h.closeLedgers()
	defer func() {
		var ks []string
		for k := range c20Time {
			ks = append(ks, k)
		}
		sort.Strings(ks)
		for _, k := range ks {
			t.Logf("time %-24s %v", k, c20Time[k])
		}
	}()
	if ops, ok := vh.ReplayOps(); ok {
		for _, op := range ops {
			out.Emit(op, h.exec(op))
		}
		return
	}
	rng := vh.NewRng(vh.Seed()*7919 + 20)
	g := &c20Gen{r: rng, h: h}
	cases := vh.Budget(12, 300)
	profiles := []string{"c18", "c19", "c21", "c22"}
	if p := os.Getenv("VERIF_C20_PROFILE"); p != "" {
		profiles = []string{p}
	}
	for c := 0; c < cases; c++ {
		// every third case carries application calls (app creators opted in to their own apps in EARLIER blocks, NoOp / update /
		// delete calls touching the creator's local state, global state, boxes); the Lean driver answers `-` for these cases
		g.apps = c%3 == 1
		if p := os.Getenv("VERIF_C20_APPS"); p != "" {
			g.apps = p == "1"
		}
		op, proto := g.genesis(c)
		res := h.exec(op)
		out.Emit(op, res)
		if res != "ok" {
			continue
		}
		lh := &lcHarness{t: t}
		g.lg = &lcGen{r: rng, profile: profiles[c%len(profiles)], h: lh}
		ag := &c20AppGen{creator: map[uint64]uint64{}, opted: map[[2]uint64]bool{}, funded: map[uint64]bool{}, deleted: map[uint64]bool{}}
		blocks := 4 + rng.Intn(4)
		if proto == "fast" {
			blocks = 5 + rng.Intn(4) // reach the rewards recalculation rounds and an active challenge
		}
		for b := 0; b < blocks; b++ {
			ngroups := 4 + rng.Intn(14)
			if rng.Chance(12) {
				ngroups = 0 // empty pool
			}
			if proto == "fast" && b < 3 && rng.Chance(50) {
				ngroups = rng.Intn(4)
			}
			hint := ngroups
			obs := vh.Catch(func() string { return h.startBlock(hint) })
			if strings.HasPrefix(obs, "PANIC") || strings.HasPrefix(obs, "start-error") {
				out.Emit("block ?", obs)
				break
			}
			out.Emit(fmt.Sprintf("block %s hint=%d", obs, hint), "ok")
			p := h.ev.ConsensusParams()
			lg := g.lg
			lh.ev, lh.known = h.ev, h.known
			lg.round, lg.minFee, lg.minBal, lg.level, lg.unit = uint64(h.ev.Round()), p.MinFee().Raw, p.MinBalance, h.ev.VerifLcoreRewardsLevel(), p.RewardUnit
			lg.okTxns = nil
			var script []string
			if g.apps && ngroups == 0 && b > 0 {
				ngroups = 3 + rng.Intn(6)
			}
			if ngroups > 0 && !g.apps {
				switch {
				case rng.Chance(20):
					script = lg.scriptAssets(h.view())
				case rng.Chance(12):
					script = lg.scriptMinBal(h.view())
				case rng.Chance(8):
					script = lg.scriptManagerDestroy(h.view())
				}
			}
			for i := 0; i < ngroups+len(script); i++ {
				lh.known = h.known
				var gop string
				if i < len(script) {
					gop = script[i]
				} else if g.apps && !rng.Chance(12) {
					gop = g.genAppGroup(ag)
				} else {
					gop = lg.genGroup(h.view())
				}
				gres := h.exec(gop)
				out.Emit(gop, gres)
				if strings.HasPrefix(gres, "ok ") {
					for _, t := range strings.Split(strings.TrimPrefix(gop, "group "), ";") {
						if f := strings.Split(t, ","); f[0] == "appl" && f[7] == "0" && len(h.created) > 0 {
							ag.creator[h.created[0]] = vh.U(f[1])
						} else if f[0] == "appl" && f[8] == "5" {
							ag.deleted[vh.U(f[7])] = true
						}
					}
				}
				if strings.HasPrefix(gres, "ok ") && len(gop) > 6 {
					lg.okTxns = append(lg.okTxns, strings.Split(gop[6:], ";")...)
				}
			}
			// the proposer: an ordinary account (funded or not), sometimes the fee sink
			prp := uint64(1 + rng.Intn(6))
			if rng.Chance(10) {
				prp = lcSink
			}
			part := []string{strconv.FormatUint(prp, 10)}
			switch rng.Intn(6) {
			case 0:
				part = nil // the proposer is not among the accounts given to GenerateBlock: FinishBlock makes it ineligible
			case 1:
				part = append(part, strconv.FormatUint(uint64(1+rng.Intn(6)), 10))
			}
			ps := "-"
			if len(part) > 0 {
				ps = strings.Join(part, ",")
			}
			gop := fmt.Sprintf("gen prp=%d elig=%s part=%s", prp, lcB(rng.Chance(70)), ps)
			gres := h.exec(gop)
			out.Emit(gop, gres)
			if !strings.HasPrefix(gres, "gen ") {
				break
			}
			gf := strings.Fields(gres)
			hop := "hdr " + gf[1] + " " + gf[2]
			out.Emit(hop, h.exec(hop))
			// configurations: the sequential reference, the real pool and the replica always; a rotating sample of the others
			cfgs := []string{"nopf", "real", "replica"}
			for _, cn := range c20Cfgs {
				if cn == "nopf" || cn == "real" || cn == "replica" {
					continue
				}
				pct := 45
				if cn == "cold" || cn == "slow1" {
					pct = 15 // reloading / reopening a ledger re-allocates its 100000-entry account caches: sampled less often
				}
				if rng.Chance(pct) {
					if cn == "w3s" || cn == "w7s" {
						cn += strconv.Itoa(rng.Intn(1000))
					}
					cfgs = append(cfgs, cn)
				}
			}
			// shuffle (the order in which the configurations run is itself part of the cache state)
			for i := len(cfgs) - 1; i > 0; i-- {
				j := rng.Intn(i + 1)
				cfgs[i], cfgs[j] = cfgs[j], cfgs[i]
			}
			okAll := true
			for _, cn := range cfgs {
				vop := "validate cfg=" + cn
				vres := h.exec(vop)
				out.Emit(vop, vres)
				if !strings.HasPrefix(vres, "ok ") {
					okAll = false
				}
			}
			for _, mop := range g.mutations(rng) {
				out.Emit(mop, h.exec(mop))
			}
			if !okAll {
				break
			}
			cop := "commit flush=" + lcB(rng.Chance(50))
			cres := h.exec(cop)
			out.Emit(cop, cres)
			if !strings.HasPrefix(cres, "ok ") {
				break
			}
		}
	}
}

// ---- application calls (cases with apps=1; outside Model.LedgerCore / Model.BlockEval: implementation-only monitors) ----

type c20AppGen struct {
	creator map[uint64]uint64    // app id → creator id
	opted   map[[2]uint64]bool   // (app id, account id) opted in, as far as the generator knows
	funded  map[uint64]bool      // the application account got algos (boxes)
	deleted map[uint64]bool
}

func (g *c20Gen) appTxn(snd uint64, fee uint64, app uint64, oc int, arg int, acct uint64) string {
	lg := g.lg
	lg.nonce++
	return fmt.Sprintf("appl,%d,%d,%d,%d,%d,0,%d,%d,%d,%d", snd, fee, lg.round, lg.round+10, lg.nonce, app, oc, arg, acct)
}

// one group of an apps case
func (g *c20Gen) genAppGroup(ag *c20AppGen) string {
	r, lg, h := g.r, g.lg, g.h
	user := func() uint64 {
		if r.Chance(80) {
			return lg.payer(h.view()) // usually an account that can pay
		}
		return uint64(1 + r.Intn(6))
	}
	fee := lg.minFee * uint64(1+r.Intn(3))
	var live []uint64
	for _, a := range h.apps {
		if !ag.deleted[a] || r.Chance(5) {
			live = append(live, a)
		}
	}
	if len(live) == 0 || r.Chance(6) { // create; mostly with the creator opting in in the same transaction
		oc := 1
		if r.Chance(35) {
			oc = 0
		}
		return "group " + g.appTxn(user(), 3*lg.minFee, 0, oc, 0, 0)
	}
	if r.Chance(15) {
		return "group " + strings.Replace(lg.goodPay(h.view()), "GRP", "0", 1)
	}
	app := live[r.Intn(len(live))]
	cr := ag.creator[app]
	switch k := r.Intn(100); {
	case k < 10: // somebody (often the creator) opts in
		snd := user()
		if r.Chance(40) {
			snd = cr
		}
		return "group " + g.appTxn(snd, fee, app, 1, 0, 0)
	case k < 30: // the creator calls its own app: bumps its own local counter
		return "group " + g.appTxn(cr, fee, app, 0, 0, 0)
	case k < 40: // somebody else bumps its own counter
		return "group " + g.appTxn(user(), fee, app, 0, 0, 0)
	case k < 58: // anybody copies the CREATOR's local counter into global state
		return "group " + g.appTxn(user(), fee, app, 0, 1, cr)
	case k < 74: // anybody writes global state only
		return "group " + g.appTxn(user(), fee, app, 0, 2, 0)
	case k < 84: // box write (the application account must hold the box's minimum balance)
		if !ag.funded[app] {
			lg.nonce++
			ag.funded[app] = true
			return fmt.Sprintf("group pay,%d,%d,%d,%d,%d,0,%d,%d,0", lg.payer(h.view()), lg.minFee, lg.round, lg.round+10, lg.nonce, app, 500000)
		}
		return "group " + g.appTxn(user(), fee, app, 0, 3, 0)
	case k < 88: // update (same programs) by the creator or by somebody else
		snd := cr
		if r.Chance(30) {
			snd = user()
		}
		return "group " + g.appTxn(snd, 3*lg.minFee, app, 4, 0, 0)
	case k < 92: // close out / clear state
		return "group " + g.appTxn(user(), fee, app, 2+r.Intn(2), 0, 0)
	case k < 94: // delete
		return "group " + g.appTxn(cr, fee, app, 5, 0, 0)
	default: // a payment and a call in one group
		t1 := strings.Replace(lg.goodPay(h.view()), "GRP", "1", 1)
		t2 := lcSetTag(g.appTxn(cr, fee, app, 0, r.Intn(3), 0), "1")
		if r.Chance(50) {
			t2 = lcSetTag(g.appTxn(user(), fee, app, 0, 1, cr), "1")
		}
		return "group " + t1 + ";" + t2
	}
}

// mutations applicable to the finished block
func (g *c20Gen) mutations(r *vh.Rng) []string {
	b := g.h.blk
	proto := config.Consensus[b.CurrentProtocol]
	var all []string
	add := func(s string) { all = append(all, "mutate "+s) }
	add("fees+1")
	if b.FeesCollected.Raw > 0 {
		add("fees-1")
	}
	add("ctr+1")
	add("ctr-1")
	add(fmt.Sprintf("commit %d", r.Intn(256)))
	if proto.EnableSHA256TxnCommitmentHeader {
		add(fmt.Sprintf("commit256 %d", r.Intn(256)))
	}
	if proto.EnableSha512BlockHash {
		add(fmt.Sprintf("commit512 %d", r.Intn(512)))
	}
	add("level+1")
	if b.RewardsLevel > 0 {
		add("level-1")
	}
	add("residue+1")
	add("rate+1")
	add("recalc+1")
	if proto.Payouts.Enabled {
		add(fmt.Sprintf("payout %d", g.h.maxPay+1))
		add("prp0")
	} else {
		add("payout 1")
		add(fmt.Sprintf("prpset %d", 1+r.Intn(6)))
	}
	add("bonus+1")
	add("load+1")
	add("spnext+1")
	// an account that is not expired / not absent
	for try := 0; try < 4; try++ {
		id := uint64(1 + r.Intn(7))
		d, _, err := g.h.a.LookupWithoutRewards(g.h.a.Latest(), c20Addr(id))
		if err == nil && (d.VoteID.IsEmpty() || d.VoteLastValid >= b.Round()+2) {
			add(fmt.Sprintf("exp+ %d", id))
			break
		}
	}
	if len(b.ParticipationUpdates.ExpiredParticipationAccounts) > 0 {
		if id, ok := c20IDn(b.ParticipationUpdates.ExpiredParticipationAccounts[0]); ok {
			add(fmt.Sprintf("exp+ %d", id)) // duplicate
		}
	}
	// an account that cannot legitimately be marked absent: not online or not incentive-eligible at the end of the block
	for try := 0; try < 6; try++ {
		id := uint64(r.Intn(lcN))
		d, ok := ledgercore.AccountData{}, false
		if g.h.vb != nil {
			d, ok = g.h.vb.Delta().Accts.GetData(c20Addr(id))
		}
		if !ok {
			var err error
			d, _, err = g.h.a.LookupWithoutRewards(g.h.a.Latest(), c20Addr(id))
			ok = err == nil
		}
		if ok && (d.Status != basics.Online || !d.IncentiveEligible) {
			add(fmt.Sprintf("abs+ %d", id))
			break
		}
	}
	if len(b.Payset) > 0 {
		i := r.Intn(len(b.Payset))
		add(fmt.Sprintf("adrewards %d", i))
		add(fmt.Sprintf("adclose %d", r.Intn(len(b.Payset))))
		add(fmt.Sprintf("adasset %d", r.Intn(len(b.Payset))))
		add("droplast")
		add(fmt.Sprintf("sig %d", r.Intn(len(b.Payset))))
	}
	add("ts-")
	add("genhash")
	add("rnd+1")
	add(fmt.Sprintf("sink %d", 1+r.Intn(6)))
	// quick tier: a sample; every 4th block gets them all
	if vh.Thorough() || r.Chance(25) {
		return all
	}
	var out []string
	for _, m := range all {
		if r.Chance(35) {
			out = append(out, m)
		}
	}
	return out
}
